(* Proofs/C02_Ovr.v - G2: the query state with an ARBITRARY encoding override.
   With an override o the query state percent-encodes, part by part (parts are separated by tab / LF / CR), the
   value  o part  with the query set of the scheme kind (parser.rs parse_query: QueryPartIter + percent_encode).
   Whatever o returns - no premise on o at all, not even that its values are bytes - the text written is free of
   every byte the set encodes (C03_ReachParts.pe_display_Q: a percent-encoder never emits a byte of its own set, and
   '%', the upper-case hex digits are outside the query sets), hence free of '#', tab, LF, CR and non-ASCII: it is
   query text in canonical form, which the UTF-8 re-parse stores unchanged.  So pqf_out holds for every override in
   an existential form (the query text is no longer query_of st l), and with it L1 of the special class, every arm of
   the relative state on a special base and the tail arms:  the premise "no override, or non-special scheme" of
   C02_parse_Canon / C02_join_*_Canon disappears.
   Second part (item 1): references carrying the special scheme of the base followed by fewer than two slashes
   ("http:x" against an http base): parser.rs hands the text behind the colon to the relative state - the same state
   scheme-less references go through - so the result is canonical for every such reference. *)
From RU Require Import Base.Prelude Base.Utf8 Base.Utf8Facts Model.AsciiSet Gen.Tables
  Model.PercentEncoding Model.HostT Model.UrlRecord Model.Parser Model.Setters Model.WF
  Proofs.ListN Proofs.C06_List Proofs.C14_Set Proofs.C14_Enc Proofs.C02_Enc Proofs.C02_Parts
  Proofs.C02_Opaque Proofs.C02_Path Proofs.C02_PathL1 Proofs.C02_Reach Proofs.C02_AuthParts
  Proofs.C02_Auth Proofs.C02_AuthWf Proofs.C02_PathSp Proofs.C02_AuthSp Proofs.C02_AuthMain Proofs.C02_SetQF
  Proofs.C02_Canon Proofs.C02_JoinTail Proofs.C02_JoinAbs Proofs.C02_JoinPath Proofs.C03_ReachParts.
Open Scope N_scope.
Open Scope list_scope.

(* ================= 1. percent-encoded text is clean, for ANY list of numbers ================= *)
Lemma pct_out_kept S c : set_stable S = true -> pct_out c = true -> kept S c = true.
Proof.
  intros HS H. unfold pct_out in H. apply orb_true_iff in H. destruct H as [H | H].
  - apply orb_true_iff in H. destruct H as [H | H].
    + apply N.eqb_eq in H. subst c. exact (set_stable_pct S HS).
    + unfold is_digit in H. replace c with (hex_upper (c - 48)) by (unfold hex_upper; destruct (c - 48 <? 10) eqn:E; lia).
      apply set_stable_hex; [exact HS | lia].
  - replace c with (hex_upper (c - 55)) by (unfold hex_upper; destruct (c - 55 <? 10) eqn:E; lia).
    apply set_stable_hex; [exact HS | lia].
Qed.

Lemma pe_display_clean S bs : set_stable S = true -> clean S (pe_display S bs) = true.
Proof.
  intros HS. unfold clean. apply pe_display_Q.
  - intros c Hc. exact (pct_out_kept S c HS Hc).
  - intros b Hb. unfold kept. rewrite Hb. reflexivity.
Qed.

(* ================= 2. the query loop with an arbitrary encoder ================= *)
Fixpoint qtext (S : aset) (enc : list N -> list N) (stop : bool) (part : list N) (l : list N) : list N :=
  match l with
  | [] => match part with [] => [] | _ => pe_display S (enc (rev part)) end
  | c :: r => if is_tnl c then pe_display S (enc (rev part)) ++ qtext S enc stop [] r
              else if (c =? 35) && stop then pe_display S (enc (rev part))
              else qtext S enc stop (c :: part) r
  end.

Lemma parse_query_loop_g S enc stop l : forall ser part,
  parse_query_loop S enc stop ser part l = (ser ++ qtext S enc stop part l, query_rest stop l).
Proof.
  induction l as [|c r IH]; intros ser part.
  - cbn [parse_query_loop qtext query_rest]. destruct part as [|x y]; [rewrite app_nil_r; reflexivity | reflexivity].
  - cbn [parse_query_loop qtext query_rest]. destruct (is_tnl c).
    + rewrite IH. unfold flush_part. rewrite <- app_assoc. reflexivity.
    + destruct ((c =? 35) && stop); [reflexivity | apply IH].
Qed.

Lemma qtext_clean S enc stop l : set_stable S = true -> forall part, clean S (qtext S enc stop part l) = true.
Proof.
  intros HS. induction l as [|c r IH]; intros part; cbn [qtext].
  - destruct part; [reflexivity | apply pe_display_clean; exact HS].
  - destruct (is_tnl c).
    + rewrite clean_app, IH, (pe_display_clean S _ HS). reflexivity.
    + destruct ((c =? 35) && stop); [apply pe_display_clean; exact HS | apply IH].
Qed.

(* ================= 3. query and fragment, any override ================= *)
Section QFg.
Variable ovr : option (list N -> list N).
Variable st : scheme_type.
Variable se : N.

Theorem pqf_out_g ser l s' qs fs : usv_list l ->
  parse_query_and_fragment ovr CUrlParser st se ser l = POk (s', qs, fs) ->
  exists q f, s' = ser ++ qf_text q f
  /\ qs = qf_qs (nlen ser) q /\ fs = qf_fs (nlen ser) q f
  /\ opt_le qs U32_MAX_P /\ opt_le fs U32_MAX_P
  /\ opt_clean (query_set st) q /\ opt_clean T_FRAGMENT f.
Proof.
  intros Hl. unfold parse_query_and_fragment.
  destruct (inp_next l) as [[c r]|] eqn:En.
  2:{ intros H. inversion H; subst. exists None, None. unfold qf_text. cbn. rewrite app_nil_r. repeat split. }
  pose proof (inp_next_usv l c r Hl En) as Hr.
  destruct (c =? 35) eqn:E35.
  - destruct (to_u32 (nlen ser)) as [n| |] eqn:Eu; cbn [pbind]; try discriminate.
    apply to_u32_inv in Eu. destruct Eu as [-> Hb].
    intros H. inversion H; subst. rewrite parse_fragment_spec by exact Hr.
    exists None, (Some (frag_of r)).
    unfold qf_text. cbn [qf_qtext qf_ftext qf_qs qf_fs app nlen length opt_le opt_clean].
    rewrite <- app_assoc. repeat split; try assumption; try (f_equal; unfold nlen; cbn; lia).
    apply frag_of_clean. exact Hr.
  - destruct (c =? 63) eqn:E63; [|discriminate].
    destruct (to_u32 (nlen ser)) as [n| |] eqn:Eu; cbn [pbind]; try discriminate.
    apply to_u32_inv in Eu. destruct Eu as [-> Hb].
    unfold parse_query. cbn [ctx_eqb]. rewrite parse_query_loop_g.
    set (Q := qtext (query_set st) (query_enc ovr (nfirstn se (ser ++ [63]))) true [] r).
    assert (clean (query_set st) Q = true) as HQ by (apply qtext_clean; apply stable_query_set).
    destruct (query_rest true r) as [r2|] eqn:Eq.
    + pose proof (usv_query_rest true r r2 Hr Eq) as Hr2.
      destruct (to_u32 (nlen ((ser ++ [63]) ++ Q))) as [n| |] eqn:Eu2; cbn [pbind]; try discriminate.
      apply to_u32_inv in Eu2. destruct Eu2 as [-> Hb2].
      intros H. inversion H; subst. rewrite parse_fragment_spec by exact Hr2.
      exists (Some Q), (Some (frag_of r2)).
      unfold qf_text. cbn [option_map qf_qtext qf_ftext qf_qs qf_fs opt_le opt_clean].
      rewrite !nlen_app in *. rewrite nlen_cons.
      repeat split; try assumption;
        try (apply frag_of_clean; exact Hr2);
        try (rewrite <- !app_assoc; reflexivity);
        try (f_equal; unfold nlen in *; cbn [length] in *; lia);
        try (unfold nlen in *; cbn [length] in *; lia).
    + intros H. inversion H; subst. exists (Some Q), None.
      unfold qf_text. cbn [option_map qf_qtext qf_ftext qf_qs qf_fs opt_le opt_clean].
      rewrite app_nil_r, <- app_assoc. repeat split; assumption.
Qed.
End QFg.

(* ================= 4. L1 of the special class, any override ================= *)
Section SpG.
Variable dbg : bool.
Variable hp hpo : list N -> result host.
Variable hd : host -> list N.
Hypothesis HRT : HostRT hp hpo hd.
Hypothesis HAb : host_above hp hpo hd.
Variable ovr : option (list N -> list N).

Notation auth_ok := (auth_ok hp hpo hd).
Notation auth_url := (auth_url hd).
Notation auth_front := (auth_front hd).
Notation auth_pre := (auth_pre hd).
Notation Canon := (Canon hp hpo hd).

(* everything after the slashes (ads_out_sp with an override) *)
Theorem ads_out_sp_g sch l u : scheme_canon sch = true -> scheme_type_of sch = STSpecialNotFile -> usv_list l ->
  after_double_slash dbg hp hpo hd ovr CUrlParser STSpecialNotFile (nlen sch) (sch ++ [58]) l = POk u ->
  exists ui h pt p q f, auth_ok STSpecialNotFile sch ui h pt p q f /\ pth_ok_sp p /\ u = auth_url sch ui h pt p q f.
Proof.
  intros Hsc Hst Hu. unfold after_double_slash.
  destruct (parse_userinfo STSpecialNotFile ((sch ++ [58]) ++ [47; 47]) l) as [[[ser1 ue] rem]| |] eqn:E1; cbn [pbind]; try discriminate.
  destruct (parse_userinfo_out _ _ _ _ _ _ Hu E1) as (ui & Hui & -> & -> & Hur). clear E1.
  destruct (to_u32 (nlen (((sch ++ [58]) ++ [47; 47]) ++ ui_text ui))) as [hs| |] eqn:Eu; cbn [pbind]; try discriminate.
  apply to_u32_inv in Eu. destruct Eu as [-> Hb1].
  destruct (parse_host_and_port hp hpo hd CUrlParser STSpecialNotFile (nlen sch) (((sch ++ [58]) ++ [47; 47]) ++ ui_text ui) rem)
    as [[[[[ser2 he] hi] port] rem2]| |] eqn:E2; cbn [pbind]; try discriminate.
  destruct (phap_out hp hpo hd HRT HAb STSpecialNotFile eq_refl _ _ _ _ _ _ _ _ Hur E2)
    as (h & Hh & Hpt & Hemp & -> & -> & -> & Hur2 & Hpe). clear E2.
  rewrite (front_eq hd) in *.
  destruct (hi_eqb (hi_of_host h) HI_None && negb (nlen ((sch ++ [58]) ++ [47; 47]) =? nlen (((sch ++ [58]) ++ [47; 47]) ++ ui_text ui))) eqn:Ee;
    [discriminate|].
  destruct (to_u32 (nlen (auth_front sch ui h port))) as [ps| |] eqn:Eu; cbn [pbind]; try discriminate.
  apply to_u32_inv in Eu. destruct Eu as [-> Hb2].
  destruct (parse_path_start dbg CUrlParser STSpecialNotFile true (auth_front sch ui h port) rem2) as [[[s3 hh] rem3]| |] eqn:E3;
    cbn [pbind]; try discriminate.
  destruct (pps_out_sp dbg _ _ _ _ _ _ Hur2 Hpe (front_not_slash hp hpo hd sch ui h port Hh) E3) as (segs & last & Hsg & Hla & -> & Hur3 & Hq3). clear E3.
  change (path_text segs last) with (pth_text (Some (segs, last))).
  fold (C02_Auth.auth_pre hd sch ui h port (Some (segs, last))).
  rewrite wqf_auth; [|rewrite (front_len hd); lia | apply (front_css hd)].
  destruct (parse_query_and_fragment ovr CUrlParser STSpecialNotFile (nlen sch) (auth_pre sch ui h port (Some (segs, last))) rem3)
    as [[[s4 qs] fs]| |] eqn:E4; cbn [pbind]; try discriminate.
  apply pqf_out_g in E4; [|exact Hur3].
  destruct E4 as (q & f & -> & -> & -> & Bq & Bf & Cq & Cf).
  intros H. inversion H; subst u. clear H.
  exists ui, h, port, (Some (segs, last)), q, f.
  destruct (host_ok_sp_ne hp hpo hd h Hh) as [Hne _].
  split; [|split; [split; assumption|]].
  - constructor; try assumption.
    + intros E. contradiction.
    + replace (nfirstn (nlen sch) ((((sch ++ [58]) ++ [47; 47]) ++ ui_text ui) ++ hd h)) with sch in Hpt; [exact Hpt|].
      rewrite <- !app_assoc. symmetry. apply nfirstn_app_len.
    + split; [apply good_segs_sp_good; exact Hsg | apply good_seg_sp_good; exact Hla].
  - unfold C02_Auth.auth_url. f_equal; rewrite ?nlen_app; unfold nlen; cbn [length]; lia.
Qed.

(* L1 for the class, from the input, any override *)
Theorem parse_special_out_g input sch rem u : usv_list input ->
  parse_scheme CUrlParser (input_new_trim_c0 input) = Some (sch, rem) ->
  scheme_type_of sch = STSpecialNotFile ->
  parse_url dbg hp hpo hd ovr None input = POk u ->
  exists ui h pt p q f, auth_ok STSpecialNotFile sch ui h pt p q f /\ pth_ok_sp p /\ u = auth_url sch ui h pt p q f.
Proof.
  intros Hu Hs Hst. unfold parse_url. rewrite Hs. unfold parse_with_scheme. rewrite Hst.
  destruct (to_u32 (nlen sch)) as [se| |] eqn:Eu; cbn [pbind]; try discriminate.
  apply to_u32_inv in Eu. destruct Eu as [-> Hb0].
  pose proof (scheme_rem_usv input sch rem Hu Hs) as Hur.
  destruct (inp_count_matching is_slash_or_bslash rem) as [n remaining] eqn:Ec.
  pose proof (count_matching_usv _ _ _ _ Hur Ec) as Hur'.
  apply ads_out_sp_g; [exact (parse_scheme_out _ _ _ Hs) | exact Hst | exact Hur'].
Qed.

(* every parse result without base of a non-file scheme is canonical: NO premise on the override *)
Theorem parse_Canon_g input u : usv_list input -> nonfile_input input = true ->
  parse_url dbg hp hpo hd ovr None input = POk u -> Canon u.
Proof.
  intros Hu Hc Hp. destruct (special_input input) eqn:Hsi.
  2:{ exact (parse_Canon dbg hp hpo hd HRT ovr input u HAb Hu Hc (or_intror Hsi) Hp). }
  unfold special_input in Hsi.
  destruct (parse_scheme CUrlParser (input_new_trim_c0 input)) as [[sch rem]|] eqn:Hs; [|discriminate].
  destruct (scheme_type_of sch) eqn:Hst; try discriminate.
  destruct (parse_special_out_g input sch rem u Hu Hs Hst Hp) as (ui & h & pt & p & q & f & K & Kp & ->).
  exact (Canon_special hp hpo hd sch ui h pt p q f K Kp).
Qed.

(* base-ignoring absolute references: NO premise on the override *)
Theorem join_abs_Canon_g b input u : usv_list input -> abs_ref b input = true ->
  parse_url dbg hp hpo hd ovr (Some b) input = POk u -> Canon u.
Proof.
  intros Hu Ha Hp. rewrite (join_abs_eq dbg hp hpo hd ovr b input Ha) in Hp.
  exact (parse_Canon_g input u Hu (abs_ref_nonfile b input Ha) Hp).
Qed.
End SpG.

(* ================= 5. the relative state, any override ================= *)
(* path arms on a special base (rel_sp_out with an override) *)
Section RelSPg.
Variable dbg : bool.
Variable hp hpo : list N -> result host.
Variable hd : host -> list N.
Hypothesis HRT : HostRT hp hpo hd.
Hypothesis HAb : host_above hp hpo hd.
Variable ovr : option (list N -> list N).
Variables (sch Z : list N) (ue hs he : N) (hi : host_internal) (pt : option N).
Notation FRONT := ((sch ++ [58]) ++ Z).
Notation Bu X q f := (qf_url (FRONT ++ X) (nlen sch) ue hs he hi pt (nlen FRONT) q f).
Hypothesis Hsc : scheme_canon sch = true.
Hypothesis Hst : scheme_type_of sch = STSpecialNotFile.

Theorem rel_sp_out_g l c r segs last q f u : usv_list l -> inp_next l = Some (c, r) -> (c =? 63) = false -> (c =? 35) = false ->
  forallb good_seg_sp segs = true -> good_seg_sp last = true ->
  parse_relative dbg hp hpo hd ovr CUrlParser STSpecialNotFile (Bu (path_text segs last) q f) l = POk u ->
  (exists ui h pt' p' q' f', auth_ok hp hpo hd STSpecialNotFile sch ui h pt' p' q' f' /\ pth_ok_sp p'
                             /\ u = auth_url hd sch ui h pt' p' q' f')
  \/ (exists segs' last' l', usv_list l' /\ forallb good_seg_sp segs' = true /\ good_seg_sp last' = true /\
        with_query_and_fragment ovr CUrlParser STSpecialNotFile (nlen sch) ue hs he hi pt (nlen FRONT)
          (FRONT ++ path_text segs' last') (cbb_rest l') = POk u).
Proof.
  intros Hl En E63 E35 Hsg Hla H. pose proof (inp_next_usv l c r Hl En) as Hr.
  unfold parse_relative, inp_split_first in H. rewrite En in H. rewrite E63, E35 in H. cbn [st_is_special] in H.
  rewrite andb_true_r in H.
  change (scheme_end (Bu (path_text segs last) q f)) with (nlen sch) in H.
  change (path_start (Bu (path_text segs last) q f)) with (nlen FRONT) in H.
  cbn [username_end host_start host_end hosti port qf_url] in H.
  destruct ((c =? 47) || (c =? 92)) eqn:Esl.
  - destruct (inp_count_matching (fun d : N => (d =? 47) || (d =? 92) && true) l) as [sl rm] eqn:Ec.
    destruct (2 <=? sl).
    + left. match type of H with context [dassert ?d ?cc] => destruct (dassert d cc) end; cbn [pbind] in H; try discriminate H.
      cbn [negb] in H. rewrite (frame_colon sch Z ue hs he hi pt) in H.
      exact (ads_out_sp_g dbg hp hpo hd HRT HAb ovr sch rm u Hsc Hst (count_matching_usv _ _ _ _ Hl Ec) H).
    + right. rewrite (frame_front sch Z ue hs he hi pt) in H. unfold parse_path in H.
      destruct (parse_path_loop dbg CUrlParser STSpecialNotFile (nlen FRONT) r (FRONT ++ [47]) (nlen (FRONT ++ [47])) [] true)
        as [[[s hh] rest]| |] eqn:El; cbn [pbind] in H; try discriminate H.
      rewrite (Bs_nil FRONT) in El. rewrite app_nil_r in El at 2.
      apply (loop_inv_sp FRONT dbg r [] [] [] true s hh rest Hr (pend_nil_ok)) in El; try reflexivity.
      destruct El as (segs' & last' & -> & Hs' & Hl' & _ & ->).
      exists segs', last', r. rewrite Bs_path. repeat split; assumption.
  - right. apply orb_false_iff in Esl. destruct Esl as [E47 _]. rewrite before_query_qf in H.
    rewrite (pop_path_pth STSpecialNotFile FRONT segs last eq_refl (good_seg_no_slash last (good_seg_sp_good last Hla))) in H.
    cbn [pbind] in H. pose proof (Bs_len_ge FRONT segs) as L.
    replace (nlen (Bs FRONT segs) =? nlen FRONT) with false in H by lia. cbn [andb] in H.
    rewrite (split_first_not47 c r _ _ E47) in H.
    unfold parse_path in H.
    destruct (parse_path_loop dbg CUrlParser STSpecialNotFile (nlen FRONT) l (Bs FRONT segs) (nlen (Bs FRONT segs)) [] true)
      as [[[s hh] rest]| |] eqn:El; cbn [pbind] in H; try discriminate H.
    rewrite <- (app_nil_r (Bs FRONT segs)) in El at 1.
    apply (loop_inv_sp FRONT dbg l segs [] [] true s hh rest Hl (pend_nil_ok)) in El; try reflexivity; try assumption.
    destruct El as (segs' & last' & -> & Hs' & Hl' & _ & ->).
    exists segs', last', l. rewrite Bs_path. repeat split; assumption.
Qed.
End RelSPg.

Section RelG.
Variable dbg : bool.
Variable hp hpo : list N -> result host.
Variable hd : host -> list N.
Hypothesis HRT : HostRT hp hpo hd.
Hypothesis HAb : host_above hp hpo hd.
Variable ovr : option (list N -> list N).

Notation auth_ok := (auth_ok hp hpo hd).
Notation auth_url := (auth_url hd).
Notation auth_front := (auth_front hd).
Notation Canon := (Canon hp hpo hd).

(* with_query_and_fragment behind a new canonical path of a record with authority, any override *)
Lemma auth_wqf_g st sch ui h pt p q f p' rest u : auth_ok st sch ui h pt p q f ->
  pth_ok p' -> usv_list rest ->
  with_query_and_fragment ovr CUrlParser st (nlen sch) (nlen sch + 3 + ui_ulen ui) (nlen sch + 3 + nlen (ui_text ui))
     (nlen sch + 3 + nlen (ui_text ui) + nlen (hd h)) (hi_of_host h) pt (nlen (auth_front sch ui h pt))
     (auth_front sch ui h pt ++ pth_text p') rest = POk u ->
  exists q' f', auth_ok st sch ui h pt p' q' f' /\ u = auth_url sch ui h pt p' q' f'.
Proof.
  intros K Hp' Hr. rewrite wqf_auth; [|rewrite front_len; lia | apply front_css].
  destruct (parse_query_and_fragment ovr CUrlParser st (nlen sch) (auth_front sch ui h pt ++ pth_text p') rest)
    as [[[s4 qs] fs]| |] eqn:E4; cbn [pbind]; try discriminate.
  apply pqf_out_g in E4; [|exact Hr].
  destruct E4 as (q' & f' & -> & -> & -> & Bq & Bf & Cq & Cf). intros H. inversion H; subst u. clear H.
  exists q', f'. split; [|reflexivity].
  destruct K as [Ksch Kst Kui Kh Kemp Kpt Kp Kq Kf Kb Kbq Kbf]. constructor; assumption.
Qed.

(* the tail arms (empty, '#'-led, '?'-led) of the relative state on ANY canonical hierarchical base *)
Theorem rel_tail_g b l u : Canon b -> cannot_be_a_base b = Some false -> usv_list l ->
  match inp_next l with None => true | Some (c, _) => (c =? 35) || (c =? 63) end = true ->
  parse_relative dbg hp hpo hd ovr CUrlParser (scheme_type_of (b_scheme b)) b l = POk u -> Canon u.
Proof.
  intros Cb Hcb Hl Ht.
  destruct (Canon_view hp hpo hd HRT b Cb) as (pre & se & ue & hs & he & hi & pt & ps & sch & cbb & q0 & f0 & -> & Hsch & Hse & Hnf & Hcbb & Hq0 & Bq0 & Repl).
  rewrite Hcb in Hcbb. injection Hcbb as <-.
  rewrite (b_scheme_qf pre se ue hs he hi pt ps q0 f0 sch Hsch Hse) in *.
  unfold parse_relative, inp_split_first.
  destruct (inp_next l) as [[c r]|] eqn:En.
  - destruct (c =? 63) eqn:E63.
    + rewrite before_query_qf. change (scheme_end (qf_url pre se ue hs he hi pt ps q0 f0)) with se.
      destruct (parse_query_and_fragment ovr CUrlParser (scheme_type_of sch) se pre l) as [[[s' qs] fs]| |] eqn:Ep;
        cbn [pbind]; try discriminate.
      apply pqf_out_g in Ep; [|exact Hl].
      destruct Ep as (q' & f' & -> & -> & -> & Bq & Bf & Cq & Cf).
      cbv beta iota zeta. intros E. injection E as <-.
      change (url_with (qf_url pre se ue hs he hi pt ps q0 f0) (pre ++ qf_text q' f') (qf_qs (nlen pre) q') (qf_fs (nlen pre) q' f'))
        with (qf_url pre se ue hs he hi pt ps q' f').
      apply Repl; try assumption. intros E0. discriminate E0.
    + destruct (c =? 35) eqn:E35; [|discriminate Ht].
      intros E. destruct (fragment_only_qf pre se ue hs he hi pt ps q0 f0 l u Hl E) as (F & -> & CF & BF).
      apply Repl; try assumption. intros E0. discriminate E0.
  - intros E. injection E as <-. rewrite before_fragment_qf.
    match goal with |- C02_Canon.Canon _ _ _ ?t => replace t with (qf_url pre se ue hs he hi pt ps q0 None) end.
    2:{ unfold url_with, qf_url, qf_text.
        cbn [qf_ftext qf_fs scheme_end username_end host_start host_end hosti port path_start query_start].
        rewrite app_nil_r. reflexivity. }
    apply Repl; try assumption; try exact I. intros E0. discriminate E0.
Qed.

(* a canonical record with a special scheme is of the fourth form *)
Lemma Canon_special_inv b : Canon b -> scheme_type_of (b_scheme b) = STSpecialNotFile ->
  exists sch ui h pt p q f, auth_ok STSpecialNotFile sch ui h pt p q f /\ pth_ok_sp p /\ b = auth_url sch ui h pt p q f.
Proof.
  intros [sch P q f K | sch segs last q f K | sch ui h pt p q f K | sch ui h pt p q f K Kp] Hsp.
  - exfalso. rewrite opaque_url_qf in Hsp. destruct (opaque_pre_sch sch P) as [S1 S2].
    rewrite (b_scheme_qf _ _ _ _ _ _ _ _ q f sch S1 S2) in Hsp. rewrite (ok_ns _ _ _ _ K) in Hsp. discriminate.
  - exfalso. rewrite noauth_url_qf in Hsp. destruct (noauth_pre_sch sch (path_text segs last)) as [S1 S2].
    rewrite (b_scheme_qf _ _ _ _ _ _ _ _ q f sch S1 S2) in Hsp. rewrite (nk_ns _ _ _ _ _ K) in Hsp. discriminate.
  - exfalso. rewrite auth_url_qf in Hsp. destruct (auth_pre_sch hd sch ui h pt p) as [S1 S2].
    rewrite (b_scheme_qf _ _ _ _ _ _ _ _ q f sch S1 S2) in Hsp. rewrite (ak_st _ _ _ _ _ _ _ _ _ _ _ K) in Hsp. discriminate.
  - exists sch, ui, h, pt, p, q, f. split; [exact K | split; [exact Kp | reflexivity]].
Qed.

Lemma auth_url_scheme sch ui h pt p q f : b_scheme (auth_url sch ui h pt p q f) = sch.
Proof.
  rewrite auth_url_qf. destruct (auth_pre_sch hd sch ui h pt p) as [S1 S2]. exact (b_scheme_qf _ _ _ _ _ _ _ _ q f sch S1 S2).
Qed.

(* EVERY arm of the relative state on a canonical special base, any override *)
Theorem rel_special_Canon b l u : Canon b -> scheme_type_of (b_scheme b) = STSpecialNotFile -> usv_list l ->
  parse_relative dbg hp hpo hd ovr CUrlParser STSpecialNotFile b l = POk u -> Canon u.
Proof.
  intros Cb Hsp Hl Hp.
  destruct (Canon_special_inv b Cb Hsp) as (sch & ui & h & pt & p & q & f & K & Kp & Eb).
  assert (cannot_be_a_base b = Some false) as Hcb by (rewrite Eb; exact (proj2 (auth_url_wf hp hpo hd HRT _ _ _ _ _ _ _ _ K))).
  destruct (match inp_next l with None => true | Some (c, _) => (c =? 35) || (c =? 63) end) eqn:Et.
  - rewrite <- Hsp in Hp. exact (rel_tail_g b l u Cb Hcb Hl Et Hp).
  - destruct (inp_next l) as [[c r]|] eqn:En; [|discriminate Et].
    apply orb_false_iff in Et. destruct Et as [E35 E63].
    subst b. rewrite auth_url_qf in Hp. unfold auth_pre in Hp. rewrite (auth_front_Z hd) in Hp.
    destruct p as [[segs last]|]; [|contradiction]. destruct Kp as [Ksegs Klast].
    apply (rel_sp_out_g dbg hp hpo hd HRT HAb ovr sch _ _ _ _ _ _ (ak_sch _ _ _ _ _ _ _ _ _ _ _ K) (ak_st _ _ _ _ _ _ _ _ _ _ _ K)
             l c r segs last q f u Hl En E63 E35 Ksegs Klast) in Hp.
    destruct Hp as [(ui' & h' & pt' & p' & q' & f' & K' & Kp' & ->) | (segs' & last' & l' & Hl' & Hs' & Hla' & Hw)];
      [exact (Canon_special hp hpo hd sch ui' h' pt' p' q' f' K' Kp')|].
    rewrite <- (auth_front_Z hd) in Hw.
    destruct (auth_wqf_g STSpecialNotFile sch ui h pt _ q f (Some (segs', last')) (cbb_rest l') u K
                (conj (good_segs_sp_good segs' Hs') (good_seg_sp_good last' Hla'))
                (usv_cbb_rest l' Hl') Hw) as (q' & f' & K' & ->).
    exact (Canon_special hp hpo hd sch ui h pt _ q' f' K' (conj Hs' Hla')).
Qed.
End RelG.

(* ================= 6. joins: every scheme-less reference and same-scheme special references, any override ================= *)
(* the references with the special (non-file) scheme of the base followed by fewer than two slashes / back-slashes:
   exactly the special non-file references abs_ref leaves out *)
Definition same_ref (b : url) (input : list N) : bool :=
  match parse_scheme CUrlParser (input_new_trim_c0 input) with
  | Some (sch, rem) =>
      match scheme_type_of sch with
      | STSpecialNotFile => (fst (inp_count_matching is_slash_or_bslash rem) <? 2) && list_eqb (b_scheme b) sch
      | _ => false
      end
  | None => false
  end.

Lemma nonfile_abs_or_same b input : nonfile_input input = true -> abs_ref b input = true \/ same_ref b input = true.
Proof.
  unfold nonfile_input, abs_ref, same_ref.
  destruct (parse_scheme CUrlParser (input_new_trim_c0 input)) as [[sch rem]|]; [|discriminate].
  destruct (scheme_type_of sch); [discriminate | | left; reflexivity]. intros _.
  destruct ((fst (inp_count_matching is_slash_or_bslash rem) <? 2) && list_eqb (b_scheme b) sch); [right | left]; reflexivity.
Qed.

Section JoinG.
Variable dbg : bool.
Variable hp hpo : list N -> result host.
Variable hd : host -> list N.
Hypothesis HRT : HostRT hp hpo hd.
Hypothesis HAb : host_above hp hpo hd.
Variable ovr : option (list N -> list N).

Notation Canon := (Canon hp hpo hd).

Lemma Canon_scheme_kind b : Canon b ->
  scheme_type_of (b_scheme b) = STNotSpecial \/ scheme_type_of (b_scheme b) = STSpecialNotFile.
Proof.
  intros [sch P q f K | sch segs last q f K | sch ui h pt p q f K | sch ui h pt p q f K Kp].
  - left. rewrite opaque_url_qf. destruct (opaque_pre_sch sch P) as [S1 S2].
    rewrite (b_scheme_qf _ _ _ _ _ _ _ _ q f sch S1 S2). exact (ok_ns _ _ _ _ K).
  - left. rewrite noauth_url_qf. destruct (noauth_pre_sch sch (path_text segs last)) as [S1 S2].
    rewrite (b_scheme_qf _ _ _ _ _ _ _ _ q f sch S1 S2). exact (nk_ns _ _ _ _ _ K).
  - left. rewrite (auth_url_scheme hd). exact (ak_st _ _ _ _ _ _ _ _ _ _ _ K).
  - right. rewrite (auth_url_scheme hd). exact (ak_st _ _ _ _ _ _ _ _ _ _ _ K).
Qed.

(* EVERY reference without a scheme against a canonical base: NO premise on the override *)
Theorem join_rel_Canon_g b input u : Canon b -> usv_list input -> rel_ref input = true ->
  parse_url dbg hp hpo hd ovr (Some b) input = POk u -> Canon u.
Proof.
  intros Cb Hu Hr Hp. destruct (Canon_scheme_kind b Cb) as [Hns | Hsp].
  - apply (join_rel_Canon dbg hp hpo hd HRT HAb ovr b input u Cb Hu Hr); [|exact Hp]. right. rewrite Hns. reflexivity.
  - pose proof (trim_usv input Hu) as Hl. unfold rel_ref in Hr. unfold parse_url in Hp.
    set (l := input_new_trim_c0 input) in *.
    destruct (parse_scheme CUrlParser l) as [[s0 r0]|]; [discriminate|].
    destruct (inp_starts_with_char 35 l) eqn:E35.
    + destruct (Canon_view hp hpo hd HRT b Cb) as (pre & se & ue & hs & he & hi & pt & ps & sch & cbb & q0 & f0 & -> & Hsch & Hse & Hnf & Hcbb & Hq0 & Bq0 & Repl).
      destruct (fragment_only_qf pre se ue hs he hi pt ps q0 f0 l u Hl Hp) as (F & -> & CF & BF).
      apply Repl; try assumption. intros _ _ E0. discriminate E0.
    + destruct (Canon_special_inv hp hpo hd b Cb Hsp) as (sch & ui & h & pt & p & q & f & K & Kp & Eb).
      assert (cannot_be_a_base b = Some false) as Hcb by (rewrite Eb; exact (proj2 (auth_url_wf hp hpo hd HRT _ _ _ _ _ _ _ _ K))).
      rewrite Hcb, Hsp in Hp. cbn [st_is_file] in Hp.
      exact (rel_special_Canon dbg hp hpo hd HRT HAb ovr b l u Cb Hsp Hl Hp).
Qed.

(* item 1: "http:x" against an http base *)
Theorem join_same_Canon_g b input u : Canon b -> usv_list input -> same_ref b input = true ->
  parse_url dbg hp hpo hd ovr (Some b) input = POk u -> Canon u.
Proof.
  intros Cb Hu Hs Hp. unfold same_ref in Hs. unfold parse_url in Hp.
  destruct (parse_scheme CUrlParser (input_new_trim_c0 input)) as [[sch rem]|] eqn:Es; [|discriminate].
  pose proof (scheme_rem_usv input sch rem Hu Es) as Hur.
  destruct (scheme_type_of sch) eqn:Hst; try discriminate.
  unfold parse_with_scheme in Hp. rewrite Hst in Hp.
  destruct (to_u32 (nlen sch)) as [se| |]; cbn [pbind] in Hp; try discriminate.
  destruct (inp_count_matching is_slash_or_bslash rem) as [sl rm]. cbn [fst] in Hs. rewrite Hs in Hp.
  apply andb_true_iff in Hs. destruct Hs as [_ Hsch]. apply list_eqb_spec in Hsch.
  assert (scheme_type_of (b_scheme b) = STSpecialNotFile) as Hsp by (rewrite Hsch; exact Hst).
  destruct (Canon_special_inv hp hpo hd b Cb Hsp) as (sch' & ui & h & pt & p & q & f & K & Kp & Eb).
  assert (cannot_be_a_base b = Some false) as Hcb by (rewrite Eb; exact (proj2 (auth_url_wf hp hpo hd HRT _ _ _ _ _ _ _ _ K))).
  rewrite Hcb in Hp. cbn [negb passert] in Hp.
  destruct dbg; cbn [pbind] in Hp; exact (rel_special_Canon _ hp hpo hd HRT HAb ovr b rem u Cb Hsp Hur Hp).
Qed.

(* every reference with a non-file scheme, whatever the base's relation to it *)
Theorem join_nonfile_Canon_g b input u : Canon b -> usv_list input -> nonfile_input input = true ->
  parse_url dbg hp hpo hd ovr (Some b) input = POk u -> Canon u.
Proof.
  intros Cb Hu Hn Hp. destruct (nonfile_abs_or_same b input Hn) as [Ha | Hs].
  - exact (join_abs_Canon_g dbg hp hpo hd HRT HAb ovr b input u Hu Ha Hp).
  - exact (join_same_Canon_g b input u Cb Hu Hs Hp).
Qed.
End JoinG.
