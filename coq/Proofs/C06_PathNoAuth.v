(* Proofs/C06_PathNoAuth.v - set_path and path_segments_mut on a URL WITHOUT authority whose path
   starts with '/' (not opaque) and that carries no "/." marker; the new path must not start with
   "//" (the pinned code inserts no marker there: F-C02-8). *)
From RU Require Import Base.Prelude Base.Utf8 Base.Utf8Facts Model.AsciiSet Gen.Tables Model.PercentEncoding
  Model.HostT Model.UrlRecord Model.Parser Model.Setters Model.WF
  Proofs.ListN Proofs.C03_WF Proofs.C06_List Proofs.C06_WFI Proofs.C06_Tail Proofs.C06_Steps Proofs.C06_FragQuery
  Proofs.C06_Suffix Proofs.C06_Front Proofs.C06_Port Proofs.C06_HostNone Proofs.C06_PathParser Proofs.C06_Path Proofs.C06_Segments.

Ltac splits := repeat match goal with |- _ /\ _ => split end.

Lemma ss_prefix_cases (P R : list N) : starts_with s_ss P = false ->
  nnth (P ++ R) 0 = Some 47 -> nnth (P ++ R) 1 = Some 47 -> nnth (P ++ R) (nlen P) = Some 47.
Proof.
  intros H C1 C2. destruct P as [|c1 [|c2 r]].
  - exact C1.
  - exact C2.
  - cbn in C1, C2. inversion C1; inversion C2; subst. cbn in H. discriminate.
Qed.

Section WithPathNA.
Variables (dbg : bool) (u : url) (P : list N).
Hypothesis W : wf_b u = true.
Hypothesis Ha : has_authority_b u = false.
Hypothesis Hnm : path_start u = scheme_end u + 1.
Hypothesis HP1 : forallb no_qh P = true.
Hypothesis HP2 : P = [] \/ exists r, P = 47 :: r.
Hypothesis HP3 : starts_with s_ss P = false.

Let u' := with_path u P.
Let ps := path_start u.
Let pe := path_end u.
Let b' := path_start u + nlen P.

Lemma wn_bounds : scheme_end u + 1 <= username_end u /\ username_end u <= host_start u /\ host_start u <= host_end u
  /\ host_end u <= ps /\ ps <= pe /\ pe <= nlen (ser u).
Proof.
  pose proof (wf_noauth_facts u W Ha) as F. destruct (wf_ps_le_path_end u W).
  rewrite (nf_ue F), (nf_hs F), (nf_he F). unfold ps, pe. lia.
Qed.

(* the query / fragment offsets relative to the end of the path *)
Lemma wn_offsets :
  (match query_start u with Some q => q = pe /\ byte_eqb (ser u) q 63 = true /\ q < nlen (ser u) | None => True end)
  /\ (match fragment_start u with
      | Some f => pe <= f /\ byte_eqb (ser u) f 35 = true /\ f < nlen (ser u)
                  /\ (query_start u = None -> f = pe)
      | None => True end)
  /\ (query_start u = None -> fragment_start u = None -> pe = nlen (ser u)).
Proof.
  pose proof (wf_qf_facts u W) as QF. pose proof (qf_q QF) as Q1. pose proof (qf_f QF) as Q2. pose proof (qf_qf QF) as Q3.
  unfold pe, path_end. destruct (query_start u) as [q|], (fragment_start u) as [f|]; splits; try tauto; try lia;
    try discriminate; try reflexivity; intros; try discriminate; reflexivity.
Qed.

Lemma wn_ser : ser u' = nfirstn ps (ser u) ++ P ++ nskipn pe (ser u).
Proof. reflexivity. Qed.

Lemma wn_pre : agree_pre ps (ser u) (ser u').
Proof. destruct wn_bounds as (B1 & B2 & B3 & B4 & B5 & B6). rewrite wn_ser. apply agree_pre_nfirstn. lia. Qed.

Lemma wn_suf : agree_suf pe b' (ser u) (ser u').
Proof.
  destruct wn_bounds as (B1 & B2 & B3 & B4 & B5 & B6). unfold agree_suf. rewrite wn_ser, app_assoc.
  rewrite nskipn_app_ge by (rewrite nlen_app, nlen_nfirstn by lia; unfold b', ps; lia).
  rewrite nlen_app, nlen_nfirstn by lia. unfold b', ps. rewrite N.sub_diag. reflexivity.
Qed.

Lemma wn_len : nlen (ser u') = b' + (nlen (ser u) - pe).
Proof.
  destruct wn_bounds as (B1 & B2 & B3 & B4 & B5 & B6).
  rewrite wn_ser, !nlen_app, nlen_nfirstn, nlen_nskipn by lia. unfold b', ps. lia.
Qed.

Lemma wn_byte_hi i c : pe <= i -> byte_eqb (ser u') (shift pe b' i) c = byte_eqb (ser u) i c.
Proof. intros H. apply (suf_byte_eqb pe b'); [apply wn_suf | exact H | reflexivity]. Qed.

Lemma wn_piece_hi i j : pe <= i -> i <= j ->
  nfirstn (shift pe b' j - shift pe b' i) (nskipn (shift pe b' i) (ser u')) = nfirstn (j - i) (nskipn i (ser u)).
Proof.
  intros Hi Hij. replace (shift pe b' j - shift pe b' i) with (j - i) by (unfold shift; lia).
  apply (suf_piece pe b'); [apply wn_suf | exact Hi | reflexivity].
Qed.

Lemma wn_skip_ps : nskipn ps (ser u') = P ++ nskipn pe (ser u).
Proof.
  destruct wn_bounds as (B1 & B2 & B3 & B4 & B5 & B6). rewrite wn_ser.
  rewrite nskipn_app_ge by (rewrite nlen_nfirstn; lia). rewrite nlen_nfirstn by lia. rewrite N.sub_diag. reflexivity.
Qed.

Lemma wn_path_end : path_end u' = b'.
Proof.
  destruct wn_offsets as (O1 & O2 & O3). destruct wn_bounds as (B1 & B2 & B3 & B4 & B5 & B6).
  unfold path_end. change (query_start u') with (option_map (shift pe b') (query_start u)).
  change (fragment_start u') with (option_map (shift pe b') (fragment_start u)).
  destruct (query_start u) as [q|]; cbn [option_map].
  - destruct O1 as (E & _). unfold shift. lia.
  - destruct (fragment_start u) as [f|]; cbn [option_map].
    + destruct O2 as (_ & _ & _ & E). specialize (E eq_refl). unfold shift. lia.
    + rewrite wn_len. specialize (O3 eq_refl eq_refl). lia.
Qed.

(* the byte at path_start of the new serialization is never ':' *)
Lemma wn_byte_ps_not58 : byte_eqb (ser u') ps 58 = false.
Proof.
  destruct wn_offsets as (O1 & O2 & O3). destruct wn_bounds as (B1 & B2 & B3 & B4 & B5 & B6).
  unfold byte_eqb. rewrite <- (N.add_0_r ps). rewrite <- nnth_nskipn, wn_skip_ps.
  destruct HP2 as [E|(r & E)]; rewrite E; [|reflexivity]. cbn [app].
  rewrite nnth_nskipn, N.add_0_r. fold (byte_eqb (ser u) pe 58).
  destruct (query_start u) as [q|] eqn:Eq.
  - destruct O1 as (E1 & E2 & _). rewrite <- E1. apply (byte_eqb_excl _ _ 63 58); [lia | exact E2].
  - destruct (fragment_start u) as [f|] eqn:Ef.
    + destruct O2 as (_ & E2 & _ & E1). rewrite <- (E1 eq_refl). apply (byte_eqb_excl _ _ 35 58); [lia | exact E2].
    + rewrite (O3 eq_refl eq_refl). apply byte_eqb_false_of. intros X. apply nnth_lt in X. lia.
Qed.

(* the byte that follows the path in the new serialization, if any, is '?' or '#' *)
Lemma wn_after_not_slash k : nnth (ser u') (ps + nlen P + k) = Some 47 -> k <> 0.
Proof.
  destruct wn_offsets as (O1 & O2 & O3). destruct wn_bounds as (B1 & B2 & B3 & B4 & B5 & B6).
  intros H -> . rewrite N.add_0_r in H.
  assert (byte_eqb (ser u') (shift pe b' pe) 47 = true) as Hb.
  { apply byte_eqb_true_iff. replace (shift pe b' pe) with (ps + nlen P) by (unfold shift, b', ps; lia). exact H. }
  rewrite wn_byte_hi in Hb by lia.
  destruct (query_start u) as [q|] eqn:Eq.
  - destruct O1 as (E1 & E2 & _). rewrite <- E1 in Hb. rewrite (byte_eqb_excl _ _ 63 47) in Hb by (try lia; exact E2). discriminate.
  - destruct (fragment_start u) as [f|] eqn:Ef.
    + destruct O2 as (_ & E2 & _ & E1). rewrite <- (E1 eq_refl) in Hb.
      rewrite (byte_eqb_excl _ _ 35 47) in Hb by (try lia; exact E2). discriminate.
    + rewrite (O3 eq_refl eq_refl) in Hb. apply byte_eqb_lt in Hb. lia.
Qed.

Lemma wn_has_authority : has_authority_b u' = false.
Proof.
  destruct wn_bounds as (B1 & B2 & B3 & B4 & B5 & B6).
  destruct (has_authority_b u') eqn:Ha'; [|reflexivity]. exfalso.
  unfold has_authority_b in Ha'. change (scheme_end u') with (scheme_end u) in Ha'. apply css_bytes in Ha'.
  destruct Ha' as (_ & C1 & C2).
  assert (forall k, nnth (ser u') (ps + k) = nnth (P ++ nskipn pe (ser u)) k) as Hn
    by (intros k; rewrite <- nnth_nskipn, wn_skip_ps; reflexivity).
  replace (scheme_end u + 1) with (ps + 0) in C1 by (unfold ps; lia).
  replace (scheme_end u + 2) with (ps + 1) in C2 by (unfold ps; lia).
  rewrite Hn in C1, C2. pose proof (ss_prefix_cases P (nskipn pe (ser u)) HP3 C1 C2) as C3.
  rewrite <- Hn in C3. apply (wn_after_not_slash 0); [|reflexivity]. rewrite N.add_0_r. exact C3.
Qed.

Lemma wn_wf : wf_b u' = true.
Proof.
  destruct wn_offsets as (O1 & O2 & O3). destruct wn_bounds as (B1 & B2 & B3 & B4 & B5 & B6). pose proof wn_len as Hl.
  pose proof W as W0. apply wf_b_iff in W0. rewrite Ha in W0. destruct W0 as (S & NA & Q).
  apply wf_b_iff. rewrite wn_has_authority. split; [|split].
  - apply (scheme_ok_pre ps u u'); [apply wn_pre | unfold ps; lia | reflexivity | exact S].
  - destruct NA as (H1 & H2 & H3 & H4 & H5 & H6 & H7). unfold noauth_ok.
    change (scheme_end u') with (scheme_end u). change (username_end u') with (username_end u).
    change (host_start u') with (host_start u). change (host_end u') with (host_end u).
    change (path_start u') with ps. change (hosti u') with (hosti u). change (port u') with (port u).
    split; [exact H1|]. split; [exact H2|]. split; [exact H3|]. split; [exact H4|]. split; [exact H5|].
    split; [rewrite Hl; unfold b', ps; lia|]. left. exact Hnm.
  - unfold qf_ok. rewrite wn_path_end. change (path_start u') with ps.
    change (query_start u') with (option_map (shift pe b') (query_start u)).
    change (fragment_start u') with (option_map (shift pe b') (fragment_start u)).
    destruct Q as (Q1 & Q2 & Q3 & Q4 & Q5).
    split; [|split; [|split; [|split]]].
    + destruct (query_start u) as [q|]; [|exact I]. cbn [option_map]. destruct O1 as (E1 & E2 & _).
      split; [unfold shift, b', ps; lia|]. rewrite wn_byte_hi by lia. exact E2.
    + destruct (fragment_start u) as [f|]; [|exact I]. cbn [option_map]. destruct O2 as (E1 & E2 & _).
      split; [unfold shift, b', ps; lia|]. rewrite wn_byte_hi by lia. exact E2.
    + destruct (query_start u) as [q|]; [|exact I]. destruct (fragment_start u) as [f|]; [|exact I].
      cbn [option_map]. destruct O1 as (E1 & _). unfold shift. lia.
    + replace (b' - ps) with (nlen P) by (unfold b', ps; lia). rewrite wn_skip_ps, nfirstn_app_exact. exact HP1.
    + destruct (query_start u) as [q|]; [|exact I]. cbn [option_map]. destruct O1 as (E1 & _ & E3).
      replace (shift pe b' q + 1) with (shift pe b' (q + 1)) by (unfold shift; lia).
      destruct (fragment_start u) as [f|]; cbn [option_map].
      * destruct O2 as (F1 & _ & F3 & _). rewrite wn_piece_hi by lia. exact Q5.
      * rewrite (suf_skip pe b' _ _ (q + 1) _ wn_suf) by (try lia; reflexivity). exact Q5.
Qed.

Lemma wn_front : same_front dbg u u'.
Proof.
  destruct wn_bounds as (B1 & B2 & B3 & B4 & B5 & B6). pose proof (wf_noauth_facts u W Ha) as F.
  split; [|split; [|split; [|split]]].
  - apply (scheme_same u u' ps W wn_wf wn_pre); [reflexivity | unfold ps; lia].
  - rewrite (username_eval dbg u' wn_wf), (username_eval dbg u W). f_equal. unfold piece. cbn [pidx].
    rewrite wn_has_authority, Ha. change (scheme_end u') with (scheme_end u). change (username_end u') with (username_end u).
    rewrite (nf_ue F), !N.sub_diag. reflexivity.
  - rewrite (password_piece dbg u' wn_wf), (password_piece dbg u W).
    unfold has_password_b. rewrite wn_has_authority, Ha. reflexivity.
  - rewrite (host_str_eval u' wn_wf), (host_str_eval u W). change (has_host u') with (has_host u).
    unfold has_host. rewrite (nf_host F). reflexivity.
  - reflexivity.
Qed.

Lemma wn_query : query dbg u' = query dbg u.
Proof.
  destruct wn_offsets as (O1 & O2 & O3). destruct wn_bounds as (B1 & B2 & B3 & B4 & B5 & B6).
  rewrite (query_eval dbg u' wn_wf), (query_eval dbg u W).
  change (query_start u') with (option_map (shift pe b') (query_start u)).
  destruct (query_start u) as [q|] eqn:Eq; [|reflexivity]. cbn [option_map]. do 2 f_equal.
  unfold piece. cbn [pidx].
  change (query_start u') with (option_map (shift pe b') (query_start u)).
  change (fragment_start u') with (option_map (shift pe b') (fragment_start u)). rewrite Eq. cbn [option_map].
  destruct O1 as (E1 & _ & E3).
  replace (shift pe b' q + 1) with (shift pe b' (q + 1)) by (unfold shift; lia).
  pose proof (qf_qf (wf_qf_facts u W)) as Q3. rewrite Eq in Q3.
  destruct (fragment_start u) as [f|]; cbn [option_map].
  - destruct O2 as (F1 & _ & F3 & _). apply wn_piece_hi; lia.
  - rewrite wn_len. replace (b' + (nlen (ser u) - pe)) with (shift pe b' (nlen (ser u))) by (unfold shift; lia).
    apply wn_piece_hi; lia.
Qed.

Lemma wn_fragment : fragment dbg u' = fragment dbg u.
Proof.
  destruct wn_offsets as (O1 & O2 & O3). destruct wn_bounds as (B1 & B2 & B3 & B4 & B5 & B6).
  rewrite (fragment_eval dbg u' wn_wf), (fragment_eval dbg u W).
  change (fragment_start u') with (option_map (shift pe b') (fragment_start u)).
  destruct (fragment_start u) as [f|] eqn:Ef; [|reflexivity]. cbn [option_map]. do 2 f_equal.
  unfold piece. cbn [pidx].
  change (fragment_start u') with (option_map (shift pe b') (fragment_start u)). rewrite Ef. cbn [option_map].
  destruct O2 as (F1 & _ & F3 & _).
  replace (shift pe b' f + 1) with (shift pe b' (f + 1)) by (unfold shift; lia).
  rewrite wn_len. replace (b' + (nlen (ser u) - pe)) with (shift pe b' (nlen (ser u))) by (unfold shift; lia).
  apply wn_piece_hi; lia.
Qed.

Lemma wn_path : path u' = Some P.
Proof.
  rewrite (path_eval u' wn_wf). f_equal. unfold piece.
  change (pidx u' AfterPath) with (path_end u'). rewrite wn_path_end. cbn [pidx]. change (path_start u') with ps.
  replace (b' - ps) with (nlen P) by (unfold b', ps; lia). rewrite wn_skip_ps. apply nfirstn_app_exact.
Qed.

Lemma wn_host_text_ok : host_text_ok u'.
Proof.
  intros Hh. change (has_host u') with (has_host u) in Hh. unfold has_host in Hh.
  rewrite (nf_host (wf_noauth_facts u W Ha)) in Hh. discriminate.
Qed.

End WithPathNA.

Lemma starts_with_app_l p P R : starts_with p P = true -> starts_with p (P ++ R) = true.
Proof.
  intros H. apply starts_with_split in H. rewrite H. rewrite <- app_assoc. apply starts_with_app.
Qed.

Lemma noauth_front_end u : wf_b u = true -> ends_with_byte 47 (nfirstn (scheme_end u + 1) (ser u)) = false.
Proof.
  intros W. destruct (wf_scheme_facts u W) as (Hse & Hc & Hlt). apply byte_eqb_nnth in Hc.
  pose proof (piece_app (ser u) 0 (scheme_end u) (scheme_end u + 1) ltac:(lia) ltac:(lia)) as E.
  rewrite !N.sub_0_r, nskipn_0 in E. replace (scheme_end u + 1 - scheme_end u) with 1 in E by lia.
  rewrite (piece_one _ _ _ Hc) in E. rewrite <- E. unfold ends_with_byte. rewrite rev_app_distr. reflexivity.
Qed.

Definition noauth_slash_path (u : url) : Prop :=
  has_authority_b u = false /\ byte_eqb (ser u) (scheme_end u + 1) 47 = true /\ path_start u = scheme_end u + 1.

Lemma with_path_skip u P : wf_b u = true ->
  nskipn (path_start u) (ser (with_path u P)) = P ++ nskipn (path_end u) (ser u).
Proof.
  intros W. destruct (wf_ps_le_path_end u W). cbn [with_path ser].
  rewrite nskipn_app_ge by (rewrite nlen_nfirstn; lia). rewrite nlen_nfirstn by lia. rewrite N.sub_diag. reflexivity.
Qed.

Lemma noauth_result dbg u P : wf_b u = true -> noauth_slash_path u -> new_path_ok P ->
  path_starts_with_2slash (with_path u P) = false ->
  let u' := with_path u P in
  wf_b u' = true /\ host_text_ok u' /\ same_front dbg u u'
  /\ query dbg u' = query dbg u /\ fragment dbg u' = fragment dbg u /\ path u' = Some P.
Proof.
  intros W (Ha & Hsl & Hnm) (HP1 & HP2) Hss u'.
  assert (starts_with s_ss P = false) as HP3.
  { destruct (starts_with s_ss P) eqn:E; [|reflexivity].
    unfold path_starts_with_2slash in Hss. change (path_start (with_path u P)) with (path_start u) in Hss.
    rewrite (with_path_skip u P W) in Hss. rewrite (starts_with_app_l _ _ _ E) in Hss. discriminate. }
  splits.
  - apply wn_wf; assumption.
  - apply wn_host_text_ok; assumption.
  - apply wn_front; assumption.
  - apply wn_query; assumption.
  - apply wn_fragment; assumption.
  - apply wn_path; assumption.
Qed.

(* Url::set_path on an authority-less URL with a '/'-leading path and no marker; the result must not
   start with "//" (F-C02-8 otherwise) *)
Theorem set_path_noauth_ok dbg u p u' : wf_b u = true -> noauth_slash_path u -> usv_list p ->
  set_path dbg u p = Some u' -> path_starts_with_2slash u' = false ->
  wf_b u' = true /\ host_text_ok u' /\ same_front dbg u u'
  /\ query dbg u' = query dbg u /\ fragment dbg u' = fragment dbg u
  /\ exists P, path u' = Some P /\ new_path_ok P.
Proof.
  intros W NA Hp H Hss. pose proof NA as (Ha & Hsl & Hnm).
  assert (auth_end_ok u) as Hx.
  { unfold auth_end_ok. intros _ _. rewrite Hnm. apply noauth_front_end. exact W. }
  destruct (set_path_eval dbg u p u' W Hsl Hp Hx H) as (P & hh & rem & -> & HP & _).
  destruct (noauth_result dbg u P W NA HP Hss) as (A & B & C & D & E & F).
  splits; try assumption. exists P. split; assumption.
Qed.

Theorem path_segments_session_noauth_ok dbg u ops u' : wf_b u = true -> noauth_slash_path u ->
  Forall psm_op_usv ops -> path_segments_session dbg u ops = Some (u', SOk) ->
  path_starts_with_2slash u' = false ->
  wf_b u' = true /\ host_text_ok u' /\ same_front dbg u u'
  /\ query dbg u' = query dbg u /\ fragment dbg u' = fragment dbg u
  /\ exists P, path u' = Some P /\ new_path_ok P.
Proof.
  intros W NA Hops H Hss. pose proof NA as (Ha & Hsl & Hnm).
  assert (path_end u = path_start u \/ byte_eqb (ser u) (path_start u) 47 = true) as Hhead
    by (right; rewrite Hnm; exact Hsl).
  destruct (path_segments_session_eval dbg u ops u' W Hsl Hhead Hops H) as (P & -> & HP).
  destruct (noauth_result dbg u P W NA HP Hss) as (A & B & C & D & E & F).
  splits; try assumption. exists P. split; assumption.
Qed.
