(* Proofs/C06_Main.v - the per-mutator results in the conditional form other developments import
   (`<mutator>_wf` : the invariant is preserved), and the assembled C06 statements. *)
From RU Require Import Base.Prelude Base.Utf8 Model.AsciiSet Gen.Tables Model.PercentEncoding
  Model.HostT Model.UrlRecord Model.Parser Model.Setters Model.WF
  Proofs.ListN Proofs.C03_WF Proofs.C06_List Proofs.C06_WFI Proofs.C06_Tail Proofs.C06_Steps Proofs.C06_Suffix
  Proofs.C06_Front Proofs.C06_Atomic Proofs.C06_FragQuery Proofs.C06_Port Proofs.C06_Cred Proofs.C06_Scheme
  Proofs.C06_HostNone Proofs.C06_Host Proofs.C06_PathParser Proofs.C06_Path Proofs.C06_Segments Proofs.C06_PathNoAuth.

Ltac splits := repeat match goal with |- _ /\ _ => split end.

(* the invariant of the C06 theorems: the executable wf_b plus "the host text matches the host kind
   as far as the setters care" (non-empty, not starting with ':' or '@') *)
Definition wfh (u : url) : Prop := wf_b u = true /\ host_text_ok u.

Lemma host_text_ok_of_host_str u u' : wf_b u = true -> wf_b u' = true -> host_str u' = host_str u ->
  host_start u' = host_start u -> host_end u' = host_end u -> hosti u' = hosti u ->
  host_text_ok u -> host_text_ok u'.
Proof.
  intros W W' Hs E3 E4 E5 HT Hh. unfold has_host in Hh. rewrite E5 in Hh. fold (has_host u) in Hh.
  destruct (HT Hh) as (T1 & T2 & T3). rewrite E3, E4. split; [exact T1|].
  rewrite (host_str_eval u' W'), (host_str_eval u W) in Hs.
  assert (has_host u' = true) as Hh' by (unfold has_host; rewrite E5; exact Hh).
  rewrite Hh, Hh' in Hs. inversion Hs as [Hp]. unfold piece in Hp. cbn [pidx] in Hp. rewrite E3, E4 in Hp.
  assert (forall l, nnth (nfirstn (host_end u - host_start u) (nskipn (host_start u) l)) 0 = nnth l (host_start u)) as Hn.
  { intros l. rewrite nnth_nfirstn by lia. rewrite nnth_nskipn. f_equal. lia. }
  unfold byte_eqb. rewrite <- (Hn (ser u')), Hp, (Hn (ser u)). split; assumption.
Qed.

Lemma same_main_fields u u' : same_main u u' ->
  host_start u' = host_start u /\ host_end u' = host_end u /\ hosti u' = hosti u.
Proof. intros (_ & _ & A & B & C & _). tauto. Qed.

Section Main.
Variable dbg : bool.
Variable host_parse : list N -> result host.
Variable host_parse_opaque : list N -> result host.
Variable host_display : host -> list N.

(* ================= preservation of the invariant ================= *)
Lemma set_fragment_wf u f u' : wf_b u = true -> set_fragment dbg u f = Some u' -> wf_b u' = true.
Proof.
  intros W E. destruct (set_fragment_ok dbg u f W) as (u'' & E' & W' & _). rewrite E in E'. inversion E'; subst. exact W'.
Qed.

Lemma set_fragment_wfh u f u' : wfh u -> set_fragment dbg u f = Some u' -> wfh u'.
Proof.
  intros [W HT] E. destruct (set_fragment_ok dbg u f W) as (u'' & E' & W' & (_ & _ & _ & Hs & _) & SM & _).
  rewrite E in E'. inversion E'; subst u''. split; [exact W'|].
  destruct (same_main_fields _ _ SM) as (A & B & C). exact (host_text_ok_of_host_str u u' W W' Hs A B C HT).
Qed.

Lemma set_query_wf u q u' : wf_b u = true -> match q with Some x => usv_list x | None => True end ->
  set_query dbg u q = Some u' -> wf_b u' = true.
Proof.
  intros W Hq E. destruct (set_query_ok dbg u q W Hq) as (u'' & E' & W' & _). rewrite E in E'. inversion E'; subst. exact W'.
Qed.

Lemma set_query_wfh u q u' : wfh u -> match q with Some x => usv_list x | None => True end ->
  set_query dbg u q = Some u' -> wfh u'.
Proof.
  intros [W HT] Hq E. destruct (set_query_ok dbg u q W Hq) as (u'' & E' & W' & (_ & _ & _ & Hs & _) & SM & _).
  rewrite E in E'. inversion E'; subst u''. split; [exact W'|].
  destruct (same_main_fields _ _ SM) as (A & B & C). exact (host_text_ok_of_host_str u u' W W' Hs A B C HT).
Qed.

Lemma set_port_internal_wf u p u' : wfh u -> has_host u = true ->
  match p with Some x => x <= 65535 | None => True end ->
  set_port_internal dbg u p = Some u' -> wfh u'.
Proof.
  intros [W HT] Hh Hp E. destruct (set_port_internal_ok dbg u p W HT Hh Hp) as (u'' & E' & W' & HT' & _).
  rewrite E in E'. inversion E'; subst. split; assumption.
Qed.

Lemma set_port_wf u p u' st : wfh u -> match p with Some x => x <= 65535 | None => True end ->
  set_port dbg u p = Some (u', st) -> wfh u'.
Proof.
  intros [W HT] Hp E. destruct (set_port_ok dbg u p W HT Hp) as (u'' & st' & E' & Herr & Hok).
  rewrite E in E'. inversion E'; subst u'' st'.
  destruct st; [destruct (Hok eq_refl) as (W' & HT' & _); split; assumption | |];
    rewrite Herr by discriminate; split; assumption.
Qed.

Lemma set_password_wf u pw u' st : wfh u -> set_password dbg u pw = Some (u', st) -> wfh u'.
Proof.
  intros [W HT] E. destruct (set_password_ok dbg u pw W HT) as (u'' & st' & E' & Herr & Hok).
  rewrite E in E'. inversion E'; subst u'' st'.
  destruct st; [destruct (Hok eq_refl) as (W' & HT' & _); split; assumption | |];
    rewrite Herr by discriminate; split; assumption.
Qed.

Lemma set_username_wf u un u' st : wfh u -> set_username dbg u un = Some (u', st) -> wfh u'.
Proof.
  intros [W HT] E. destruct (set_username_ok dbg u un W HT) as (u'' & st' & E' & Herr & Hok).
  rewrite E in E'. inversion E'; subst u'' st'.
  destruct st; [destruct (Hok eq_refl) as (W' & HT' & _); split; assumption | |];
    rewrite Herr by discriminate; split; assumption.
Qed.

Lemma set_scheme_wf u s u' st : wfh u -> set_scheme dbg u s = Some (u', st) -> wfh u'.
Proof.
  intros [W HT] E. destruct (set_scheme_ok dbg u s W HT) as (u'' & st' & E' & Herr & Hok).
  rewrite E in E'. inversion E'; subst u'' st'.
  destruct st; [destruct (Hok eq_refl) as (new & rem & _ & W' & HT' & _); split; assumption | |];
    rewrite Herr by discriminate; split; assumption.
Qed.

(* set_host(None): outside the two known classes *)
Lemma set_host_none_wf u u' st : wfh u ->
  path_empty_at_end u = false -> path_starts_with_2slash u = false ->
  set_host dbg host_parse host_parse_opaque host_display u None = Some (u', st) -> wfh u'.
Proof.
  intros [W HT] X1 X2 E.
  destruct (set_host_none_ok dbg host_parse host_parse_opaque host_display u u' st W E) as (Herr & Hno & Hok).
  destruct st; [| rewrite Herr by discriminate; split; assumption ..].
  destruct (has_host u) eqn:Hh.
  - destruct (Hok eq_refl eq_refl X1 X2) as (W' & HT' & _). split; assumption.
  - rewrite (Hno eq_refl eq_refl). split; assumption.
Qed.

(* set_host_internal / set_ip_host / set_host(Some): outside F-C02-4 (empty host with a port) and
   F-C03-5 ("/." marker) *)
Lemma set_host_internal_wf u h u' : wf_b u = true -> host_disp_ok host_display h ->
  (has_authority_b u = true -> hi_of_host h = HI_None -> port u = None) ->
  (has_authority_b u = false -> path_start u = scheme_end u + 1) ->
  byte_eqb (ser u) (scheme_end u + 1) 47 = true ->
  set_host_internal dbg host_display u h None = Some u' -> wfh u'.
Proof.
  intros W Hd X1 X2 Hsl E.
  destruct (set_host_internal_post dbg host_display u h u' W Hd X1 X2 Hsl E) as (W' & HT' & _). split; assumption.
Qed.

Lemma set_ip_host_wf u h u' st : wfh u -> host_disp_ok host_display h ->
  (has_authority_b u = true -> hi_of_host h = HI_None -> port u = None) ->
  (has_authority_b u = false -> path_start u = scheme_end u + 1) ->
  set_ip_host dbg host_display u h = Some (u', st) -> wfh u'.
Proof.
  intros [W HT] Hd X1 X2 E. destruct (set_ip_host_ok dbg host_display u h u' st W Hd X2 E) as (Herr & Hok).
  destruct st; [destruct (Hok eq_refl X1) as (W' & HT' & _); split; assumption | |];
    rewrite Herr by discriminate; split; assumption.
Qed.

(* ================= assembled statements ================= *)
Definition fails_atomically {A} (m : url -> A -> option (url * status)) : Prop :=
  forall u a u' st, m u a = Some (u', st) -> st <> SOk -> u' = u.

Theorem atomic_all :
  fails_atomically (set_port dbg)
  /\ fails_atomically (set_host dbg host_parse host_parse_opaque host_display)
  /\ fails_atomically (set_ip_host dbg host_display)
  /\ fails_atomically (set_password dbg)
  /\ fails_atomically (set_username dbg)
  /\ fails_atomically (set_scheme dbg)
  /\ fails_atomically (path_segments_session dbg)
  /\ fails_atomically (q_set_protocol dbg)
  /\ fails_atomically (q_set_username dbg)
  /\ fails_atomically (q_set_password dbg)
  /\ fails_atomically (q_set_host dbg host_parse host_parse_opaque host_display)
  /\ fails_atomically (q_set_hostname dbg host_parse host_parse_opaque host_display)
  /\ fails_atomically (q_set_port dbg).
Proof.
  unfold fails_atomically. splits; intros u a u' st.
  - apply set_port_atomic.
  - apply set_host_atomic.
  - apply set_ip_host_atomic.
  - apply set_password_atomic.
  - apply set_username_atomic.
  - apply set_scheme_atomic.
  - apply path_segments_session_atomic.
  - apply q_set_protocol_atomic.
  - apply q_set_username_atomic.
  - apply q_set_password_atomic.
  - apply q_set_host_atomic.
  - apply q_set_hostname_atomic.
  - apply q_set_port_atomic.
Qed.

(* the eight observations of the property text *)
Definition unchanged_but_fragment (u u' : url) : Prop :=
  same_front dbg u u' /\ query dbg u' = query dbg u.
Definition unchanged_but_query (u u' : url) : Prop :=
  same_front dbg u u' /\ fragment dbg u' = fragment dbg u.
(* the documented opaque-path coupling: removing the last of query/fragment strips trailing spaces *)
Definition path_same_or_stripped (strip : bool) (u u' : url) : Prop :=
  if strip then exists p, path u = Some p /\ path u' = Some (rstrip (fun c => c =? 32) p)
  else path u' = path u.

Definition port_arg_ok (p : option N) : Prop := match p with Some x => x <= 65535 | None => True end.
Definition str_arg_ok (q : option (list N)) : Prop := match q with Some x => usv_list x | None => True end.

Theorem frame_all u : wfh u ->
  (forall f u', set_fragment dbg u f = Some u' ->
     unchanged_but_fragment u u'
     /\ path_same_or_stripped (match f with None => opaque_strip_applies u | Some _ => false end) u u')
  /\ (forall q u', str_arg_ok q -> set_query dbg u q = Some u' ->
     unchanged_but_query u u'
     /\ path_same_or_stripped (match q with None => is_opaque_b u && negb (has_some (fragment_start u)) | Some _ => false end) u u')
  /\ (forall p u', port_arg_ok p -> set_port dbg u p = Some (u', SOk) ->
     same_ids dbg u u' /\ same_back dbg u u')
  /\ (forall pw u', set_password dbg u pw = Some (u', SOk) ->
     scheme u' = scheme u /\ username dbg u' = username dbg u /\ host_str u' = host_str u /\ port u' = port u
     /\ same_back dbg u u')
  /\ (forall un u', set_username dbg u un = Some (u', SOk) ->
     scheme u' = scheme u /\ password dbg u' = password dbg u /\ host_str u' = host_str u /\ port u' = port u
     /\ same_back dbg u u')
  /\ (forall s u', set_scheme dbg u s = Some (u', SOk) ->
     username dbg u' = username dbg u /\ password dbg u' = password dbg u /\ host_str u' = host_str u
     /\ same_back dbg u u' /\ (port u' = port u \/ port u' = None))
  /\ (forall u', set_host dbg host_parse host_parse_opaque host_display u None = Some (u', SOk) ->
     (has_host u = false -> u' = u)
     /\ (has_host u = true -> path_empty_at_end u = false -> path_starts_with_2slash u = false ->
         scheme u' = scheme u /\ same_back dbg u u'))
  /\ (forall x u', (forall h, host_disp_ok host_display h) ->
     (has_authority_b u = false -> path_start u = scheme_end u + 1) ->
     set_host dbg host_parse host_parse_opaque host_display u (Some x) = Some (u', SOk) ->
     exists h, (has_authority_b u = true -> hi_of_host h = HI_None -> port u = None) ->
       scheme u' = scheme u /\ username dbg u' = username dbg u /\ password dbg u' = password dbg u
       /\ port u' = port u /\ same_back dbg u u')
  /\ (forall h u', host_disp_ok host_display h ->
     (has_authority_b u = false -> path_start u = scheme_end u + 1) ->
     (has_authority_b u = true -> hi_of_host h = HI_None -> port u = None) ->
     set_ip_host dbg host_display u h = Some (u', SOk) ->
     scheme u' = scheme u /\ username dbg u' = username dbg u /\ password dbg u' = password dbg u
     /\ port u' = port u /\ same_back dbg u u').
Proof.
  intros [W HT]. splits.
  - intros f u' E. destruct (set_fragment_ok dbg u f W) as (u'' & E' & W' & SF & SM & Q & F & P).
    rewrite E in E'. inversion E'; subst u''. split; [split; assumption|].
    unfold path_same_or_stripped. destruct f; [exact P|]. exact P.
  - intros q u' Hq E. destruct (set_query_ok dbg u q W Hq) as (u'' & E' & W' & SF & SM & F & Q & P).
    rewrite E in E'. inversion E'; subst u''. split; [split; assumption|].
    unfold path_same_or_stripped. destruct q; exact P.
  - intros p u' Hp E. destruct (set_port_ok dbg u p W HT Hp) as (u'' & st' & E' & _ & Hok).
    rewrite E in E'. inversion E'; subst u'' st'. destruct (Hok eq_refl) as (_ & _ & I & B & _). split; assumption.
  - intros pw u' E. destruct (set_password_ok dbg u pw W HT) as (u'' & st' & E' & _ & Hok).
    rewrite E in E'. inversion E'; subst u'' st'. destruct (Hok eq_refl) as (_ & _ & A & B & C & D & F & _).
    splits; assumption.
  - intros un u' E. destruct (set_username_ok dbg u un W HT) as (u'' & st' & E' & _ & Hok).
    rewrite E in E'. inversion E'; subst u'' st'. destruct (Hok eq_refl) as (_ & _ & A & B & C & D & F & _).
    splits; assumption.
  - intros s u' E. destruct (set_scheme_ok dbg u s W HT) as (u'' & st' & E' & _ & Hok).
    rewrite E in E'. inversion E'; subst u'' st'.
    destruct (Hok eq_refl) as (new & rem & _ & _ & _ & _ & A & B & C & D & P).
    splits; try assumption. rewrite P. unfold norm_port. destruct (port u) as [x|]; [|left; reflexivity].
    destruct (opt_eqb (Some x) (default_port new)); [right | left]; reflexivity.
  - intros u' E.
    destruct (set_host_none_ok dbg host_parse host_parse_opaque host_display u u' SOk W E) as (_ & Hno & Hok).
    split; [intros Hh; apply Hno; [reflexivity | exact Hh]|].
    intros Hh X1 X2. destruct (Hok eq_refl Hh X1 X2) as (_ & _ & A & B & _). split; assumption.
  - intros x u' Hd X2 E.
    destruct (set_host_some_ok dbg host_parse host_parse_opaque host_display u x u' SOk W Hd X2 E) as (_ & Hok).
    destruct (Hok eq_refl) as (h & Hh). exists h. intros X1.
    destruct (Hh X1) as (_ & _ & A & B & C & D & F & _). splits; assumption.
  - intros h u' Hd X2 X1 E.
    destruct (set_ip_host_ok dbg host_display u h u' SOk W Hd X2 E) as (_ & Hok).
    destruct (Hok eq_refl X1) as (_ & _ & A & B & C & D & F & _). splits; assumption.
Qed.

(* get-after-set: the component reads back as the text the parser state writes for the argument *)
Theorem get_all u : wfh u ->
  (forall f u', set_fragment dbg u f = Some u' ->
     fragment dbg u' = Some (match f with Some x => Some (tnl_text T_FRAGMENT x) | None => None end))
  /\ (forall q u', str_arg_ok q -> set_query dbg u q = Some u' ->
     query dbg u' = Some (match q with Some x => Some (query_text u x) | None => None end))
  /\ (forall p u', port_arg_ok p -> set_port dbg u p = Some (u', SOk) ->
     exists sch, scheme u = Some sch /\ port u' = norm_port sch p)
  /\ (forall pw u', set_password dbg u pw = Some (u', SOk) ->
     password dbg u' = Some (match pw with Some (c :: r) => Some (userinfo_enc (c :: r)) | _ => None end))
  /\ (forall un u', set_username dbg u un = Some (u', SOk) ->
     exists cur, username dbg u = Some cur
       /\ username dbg u' = Some (if list_eqb cur (utf8_encode un) then cur else userinfo_enc un))
  /\ (forall s u', set_scheme dbg u s = Some (u', SOk) ->
     exists new rem, parse_scheme CSetter s = Some (new, rem) /\ scheme u' = Some new)
  /\ (forall h u', host_disp_ok host_display h ->
     (has_authority_b u = false -> path_start u = scheme_end u + 1) ->
     (has_authority_b u = true -> hi_of_host h = HI_None -> port u = None) ->
     set_ip_host dbg host_display u h = Some (u', SOk) ->
     host_str u' = Some (if hi_some (hi_of_host h) then Some (host_display h) else None)
     /\ hosti u' = hi_of_host h).
Proof.
  intros [W HT]. splits.
  - intros f u' E. destruct (set_fragment_ok dbg u f W) as (u'' & E' & W' & SF & SM & Q & F & P).
    rewrite E in E'. inversion E'; subst u''. exact F.
  - intros q u' Hq E. destruct (set_query_ok dbg u q W Hq) as (u'' & E' & W' & SF & SM & F & Q & P).
    rewrite E in E'. inversion E'; subst u''. exact Q.
  - intros p u' Hp E. destruct (set_port_ok dbg u p W HT Hp) as (u'' & st' & E' & _ & Hok).
    rewrite E in E'. inversion E'; subst u'' st'. destruct (Hok eq_refl) as (_ & _ & _ & _ & R). exact R.
  - intros pw u' E. destruct (set_password_ok dbg u pw W HT) as (u'' & st' & E' & _ & Hok).
    rewrite E in E'. inversion E'; subst u'' st'. destruct (Hok eq_refl) as (_ & _ & _ & _ & _ & _ & _ & R). exact R.
  - intros un u' E. destruct (set_username_ok dbg u un W HT) as (u'' & st' & E' & _ & Hok).
    rewrite E in E'. inversion E'; subst u'' st'. destruct (Hok eq_refl) as (_ & _ & _ & _ & _ & _ & _ & R). exact R.
  - intros s u' E. destruct (set_scheme_ok dbg u s W HT) as (u'' & st' & E' & _ & Hok).
    rewrite E in E'. inversion E'; subst u'' st'.
    destruct (Hok eq_refl) as (new & rem & Ep & _ & _ & S & _). exists new, rem. split; assumption.
  - intros h u' Hd X2 X1 E.
    destruct (set_ip_host_ok dbg host_display u h u' SOk W Hd X2 E) as (_ & Hok).
    destruct (Hok eq_refl X1) as (_ & _ & _ & _ & _ & _ & _ & A & B). split; assumption.
Qed.

(* the documented couplings *)
Theorem couple_all u : wfh u ->
  (* removing the host removes credentials and port *)
  (forall u', set_host dbg host_parse host_parse_opaque host_display u None = Some (u', SOk) ->
     has_host u = true -> path_empty_at_end u = false -> path_starts_with_2slash u = false ->
     username dbg u' = Some [] /\ password dbg u' = Some None /\ host_str u' = Some None /\ port u' = None)
  (* a default port is stored as none *)
  /\ (forall p u' sch, p <= 65535 -> set_port dbg u (Some p) = Some (u', SOk) -> scheme u = Some sch ->
     default_port sch = Some p -> port u' = None)
  (* changing the scheme drops a port equal to the new default *)
  /\ (forall s u' new rem p, set_scheme dbg u s = Some (u', SOk) -> parse_scheme CSetter s = Some (new, rem) ->
     port u = Some p -> port u' = if opt_eqb (Some p) (default_port new) then None else Some p).
Proof.
  intros [W HT]. splits.
  - intros u' E Hh X1 X2.
    destruct (set_host_none_ok dbg host_parse host_parse_opaque host_display u u' SOk W E) as (_ & _ & Hok).
    destruct (Hok eq_refl Hh X1 X2) as (_ & _ & _ & _ & A & B & C & D). splits; assumption.
  - intros p u' sch Hp E Es Ed.
    destruct (set_port_ok dbg u (Some p) W HT Hp) as (u'' & st' & E' & _ & Hok).
    rewrite E in E'. inversion E'; subst u'' st'. destruct (Hok eq_refl) as (_ & _ & _ & _ & (s1 & Es1 & R)).
    rewrite Es in Es1. inversion Es1; subst s1. rewrite R. unfold norm_port. rewrite Ed. cbn [opt_eqb].
    rewrite N.eqb_refl. reflexivity.
  - intros s u' new rem p E Ep Epo.
    destruct (set_scheme_ok dbg u s W HT) as (u'' & st' & E' & _ & Hok).
    rewrite E in E'. inversion E'; subst u'' st'.
    destruct (Hok eq_refl) as (new' & rem' & Ep' & _ & _ & _ & _ & _ & _ & _ & P).
    rewrite Ep in Ep'. inversion Ep'; subst new' rem'. rewrite P, Epo. reflexivity.
Qed.

(* no panic (the model's None) on a well-formed record, for the setters where that is proved *)
Theorem nopanic_all u : wfh u ->
  (forall f, exists u', set_fragment dbg u f = Some u')
  /\ (forall q, str_arg_ok q -> exists u', set_query dbg u q = Some u')
  /\ (forall p, port_arg_ok p -> exists r, set_port dbg u p = Some r)
  /\ (forall pw, exists r, set_password dbg u pw = Some r)
  /\ (forall un, exists r, set_username dbg u un = Some r)
  /\ (forall s, exists r, set_scheme dbg u s = Some r).
Proof.
  intros [W HT]. splits.
  - intros f. destruct (set_fragment_ok dbg u f W) as (u' & E & _). exists u'. exact E.
  - intros q Hq. destruct (set_query_ok dbg u q W Hq) as (u' & E & _). exists u'. exact E.
  - intros p Hp. destruct (set_port_ok dbg u p W HT Hp) as (u' & st & E & _). eexists. exact E.
  - intros pw. destruct (set_password_ok dbg u pw W HT) as (u' & st & E & _). eexists. exact E.
  - intros un. destruct (set_username_ok dbg u un W HT) as (u' & st & E & _). eexists. exact E.
  - intros s. destruct (set_scheme_ok dbg u s W HT) as (u' & st & E & _). eexists. exact E.
Qed.

Theorem wf_all u : wfh u ->
  (forall f u', set_fragment dbg u f = Some u' -> wfh u')
  /\ (forall q u', str_arg_ok q -> set_query dbg u q = Some u' -> wfh u')
  /\ (forall p u' st, port_arg_ok p -> set_port dbg u p = Some (u', st) -> wfh u')
  /\ (forall pw u' st, set_password dbg u pw = Some (u', st) -> wfh u')
  /\ (forall un u' st, set_username dbg u un = Some (u', st) -> wfh u')
  /\ (forall s u' st, set_scheme dbg u s = Some (u', st) -> wfh u')
  /\ (forall u' st, path_empty_at_end u = false -> path_starts_with_2slash u = false ->
        set_host dbg host_parse host_parse_opaque host_display u None = Some (u', st) -> wfh u')
  /\ (forall h u' st, host_disp_ok host_display h ->
        (has_authority_b u = true -> hi_of_host h = HI_None -> port u = None) ->
        (has_authority_b u = false -> path_start u = scheme_end u + 1) ->
        set_ip_host dbg host_display u h = Some (u', st) -> wfh u').
Proof.
  intros H. splits.
  - intros f u' E. exact (set_fragment_wfh u f u' H E).
  - intros q u' Hq E. exact (set_query_wfh u q u' H Hq E).
  - intros p u' st Hp E. exact (set_port_wf u p u' st H Hp E).
  - intros pw u' st E. exact (set_password_wf u pw u' st H E).
  - intros un u' st E. exact (set_username_wf u un u' st H E).
  - intros s u' st E. exact (set_scheme_wf u s u' st H E).
  - intros u' st X1 X2 E. exact (set_host_none_wf u u' st H X1 X2 E).
  - intros h u' st Hd X1 X2 E. exact (set_ip_host_wf u h u' st H Hd X1 X2 E).
Qed.

(* set_path and path_segments_mut sessions on a URL with an authority (outside F-C02-3: opaque path,
   F-C02-8 / F-C03-5: authority-less URL) *)
Lemma set_path_wf u p u' : wfh u -> has_authority_b u = true -> usv_list p -> auth_end_ok u ->
  set_path dbg u p = Some u' -> wfh u'.
Proof.
  intros [W HT] Ha Hp Hx E. destruct (set_path_ok dbg u p u' W HT Ha Hp Hx E) as (W' & HT' & _). split; assumption.
Qed.

Lemma path_segments_session_wf u ops u' st : wfh u -> has_authority_b u = true -> Forall psm_op_usv ops ->
  path_segments_session dbg u ops = Some (u', st) -> wfh u'.
Proof.
  intros [W HT] Ha Hops E. destruct st.
  - destruct (path_segments_session_ok dbg u ops u' W HT Ha Hops E) as (W' & HT' & _). split; assumption.
  - rewrite (path_segments_session_atomic dbg u ops u' _ E) by discriminate. split; assumption.
  - rewrite (path_segments_session_atomic dbg u ops u' _ E) by discriminate. split; assumption.
Qed.

Theorem path_all u : wfh u -> has_authority_b u = true ->
  (forall p u', usv_list p -> auth_end_ok u -> set_path dbg u p = Some u' ->
     wfh u' /\ same_front dbg u u' /\ query dbg u' = query dbg u /\ fragment dbg u' = fragment dbg u
     /\ exists P, path u' = Some P /\ new_path_ok P
        /\ exists hh rem, parse_path_start dbg CSetter (scheme_type_of (nfirstn (scheme_end u) (ser u))) true
                            (nfirstn (path_start u) (ser u)) p
                          = POk (nfirstn (path_start u) (ser u) ++ P, hh, rem))
  /\ (forall ops u', Forall psm_op_usv ops -> path_segments_session dbg u ops = Some (u', SOk) ->
     wfh u' /\ same_front dbg u u' /\ query dbg u' = query dbg u /\ fragment dbg u' = fragment dbg u
     /\ exists P, path u' = Some P /\ new_path_ok P).
Proof.
  intros [W HT] Ha. split.
  - intros p u' Hp Hx E. destruct (set_path_ok dbg u p u' W HT Ha Hp Hx E) as (W' & HT' & A & B & C & D).
    split; [split; assumption|]. splits; assumption.
  - intros ops u' Hops E. destruct (path_segments_session_ok dbg u ops u' W HT Ha Hops E) as (W' & HT' & A & B & C & D).
    split; [split; assumption|]. splits; assumption.
Qed.

(* the same two editors on an authority-less URL whose path starts with '/' (no marker): provided the
   result does not start with "//" *)
Theorem path_noauth_all u : wf_b u = true -> noauth_slash_path u ->
  (forall p u', usv_list p -> set_path dbg u p = Some u' -> path_starts_with_2slash u' = false ->
     wfh u' /\ same_front dbg u u' /\ query dbg u' = query dbg u /\ fragment dbg u' = fragment dbg u
     /\ exists P, path u' = Some P /\ new_path_ok P)
  /\ (forall ops u', Forall psm_op_usv ops -> path_segments_session dbg u ops = Some (u', SOk) ->
     path_starts_with_2slash u' = false ->
     wfh u' /\ same_front dbg u u' /\ query dbg u' = query dbg u /\ fragment dbg u' = fragment dbg u
     /\ exists P, path u' = Some P /\ new_path_ok P).
Proof.
  intros W NA. split.
  - intros p u' Hp E Hss. destruct (set_path_noauth_ok dbg u p u' W NA Hp E Hss) as (W' & HT' & A & B & C & D).
    split; [split; assumption|]. splits; assumption.
  - intros ops u' Hops E Hss.
    destruct (path_segments_session_noauth_ok dbg u ops u' W NA Hops E Hss) as (W' & HT' & A & B & C & D).
    split; [split; assumption|]. splits; assumption.
Qed.

End Main.
