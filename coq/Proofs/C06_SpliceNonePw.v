(* Proofs/C06_SpliceNonePw.v - WHOLE-URL parser agreement, part 7: set_password(None) / set_password(Some "") on the
   canonical records: the serialization of the result is the old one with ":password" cut out (and the '@' too when
   the user name is empty), and Parser::parse_url on that text returns exactly the setter's record. *)
From RU Require Import Base.Prelude Base.Utf8 Base.Utf8Facts Model.AsciiSet Gen.Tables
  Model.PercentEncoding Model.HostT Model.UrlRecord Model.Parser Model.Setters Model.WF
  Proofs.ListN Proofs.C14_Set Proofs.C14_Enc Proofs.C14_Views Proofs.C02_Enc Proofs.C02_Parts
  Proofs.C02_Opaque Proofs.C02_Path Proofs.C02_PathL1 Proofs.C02_Reach Proofs.C16_RT Proofs.C02_AuthParts
  Proofs.C02_Auth Proofs.C02_AuthWf Proofs.C02_PathSp Proofs.C02_AuthSp Proofs.C02_AuthMain Proofs.C02_SetQF
  Proofs.C02_Canon Proofs.C02_SetPort Proofs.C02_SetCred Proofs.C02_SetCredCanon Proofs.C06_SpliceNone.
Open Scope N_scope.
Open Scope list_scope.

(* the old serialization without ":password" (and without '@' when no user name stays) *)
Definition cut_password (u : url) : list N :=
  if byte_eqb (ser u) (username_end u) 58
  then nfirstn (username_end u) (ser u)
       ++ (if username_end u =? scheme_end u + 3 then [] else [64]) ++ nskipn (host_start u) (ser u)
  else ser u.

Section ShCut.
Variables (sch X : list N) (dh dp : N) (dq df : option N) (hi : host_internal) (pt : option N).
Notation SH Un Ur := (sh_url sch X dh dp dq df hi pt Un Ur).

Lemma cut_password_clear Un P :
  cut_password (SH Un (58 :: P ++ [64])) = ser (SH Un (match Un with [] => [] | _ => [64] end)).
Proof.
  unfold cut_password. rewrite !sh_ser.
  change (username_end (SH Un (58 :: P ++ [64]))) with (nlen (A sch) + nlen Un).
  change (host_start (SH Un (58 :: P ++ [64]))) with (nlen (A sch) + nlen Un + nlen (58 :: P ++ [64])).
  change (scheme_end (SH Un (58 :: P ++ [64]))) with (nlen sch).
  rewrite (app_assoc (A sch) Un) at 1. rewrite <- nlen_app. rewrite (byte_eqb_head _ _ _ _ eq_refl).
  change (head_is ((58 :: P ++ [64]) ++ X) 58) with true. cbv iota.
  rewrite nlen_app. rewrite nfirstn_2, nskipn_3. rewrite A_len.
  destruct Un as [|c r]; [rewrite nlen_nil | rewrite nlen_cons].
  - replace (nlen sch + 3 + 0 =? nlen sch + 3) with true by lia. rewrite <- !app_assoc. reflexivity.
  - replace (nlen sch + 3 + (1 + nlen r) =? nlen sch + 3) with false by lia. rewrite <- !app_assoc. reflexivity.
Qed.

Lemma cut_password_noop Un Ur c0 R : Ur ++ X = c0 :: R -> c0 <> 58 -> cut_password (SH Un Ur) = ser (SH Un Ur).
Proof.
  intros HX Hc. unfold cut_password. rewrite !sh_ser.
  change (username_end (SH Un Ur)) with (nlen (A sch) + nlen Un).
  rewrite (app_assoc (A sch) Un) at 1. rewrite <- nlen_app. rewrite (byte_eqb_head _ _ _ _ eq_refl). rewrite HX. cbn [head_is].
  replace (c0 =? 58) with false by lia. reflexivity.
Qed.
End ShCut.

Section NonePw.
Variable dbg : bool.
Variable hp hpo : list N -> result host.
Variable hd : host -> list N.
Hypothesis HRT : HostRT hp hpo hd.

Notation Canon := (Canon hp hpo hd).

Lemma remove_password_auth st sch ui h pt p q f pw u' : auth_ok hp hpo hd st sch ui h pt p q f -> st_is_file st = false ->
  pw_arg_empty pw -> set_password dbg (auth_url hd sch ui h pt p q f) pw = Some (u', SOk) ->
  ser u' = cut_password (auth_url hd sch ui h pt p q f).
Proof.
  intros K Hnf He. pose proof (auth_cannot_port hp hpo hd st sch ui h pt p q f K Hnf) as Hc.
  destruct (match h with HDomain [] => true | _ => false end) eqn:Eh.
  { unfold set_password. rewrite Hc. cbn [bindo]. discriminate. }
  assert (h <> HDomain []) as Hne by (intros ->; discriminate Eh).
  rewrite (auth_url_sh hd) in Hc |- *.
  destruct (host_first hp hpo hd st h (ak_h _ _ _ _ _ _ _ _ _ _ _ K) Hne) as (c0 & R & Eh0 & _ & H58).
  destruct ui as [|u|u P]; cbn [ui_user ui_rest] in *.
  - rewrite (set_password_noop_sh dbg sch _ _ _ _ _ _ _ [] [] c0 (R ++ port_text pt ++ pth_text p ++ qf_text q f) pw He)
      by (try exact Hc; try exact H58; cbn [app]; unfold au_X; rewrite Eh0; reflexivity).
    intros E. inversion E; subst u'. symmetry.
    apply (cut_password_noop sch _ _ _ _ _ _ _ [] [] c0 (R ++ port_text pt ++ pth_text p ++ qf_text q f)); [|exact H58].
    cbn [app]. unfold au_X. rewrite Eh0. reflexivity.
  - rewrite (set_password_noop_sh dbg sch _ _ _ _ _ _ _ u [64] 64 (au_X hd h pt p q f) pw He)
      by (try exact Hc; try discriminate; reflexivity).
    intros E. inversion E; subst u'. symmetry.
    apply (cut_password_noop sch _ _ _ _ _ _ _ u [64] 64 (au_X hd h pt p q f)); [reflexivity | discriminate].
  - rewrite (set_password_clear_sh dbg sch _ _ _ _ _ _ _ u P pw He Hc).
    intros E. inversion E; subst u'. symmetry. apply cut_password_clear.
Qed.

(* WHOLE-URL agreement for the removal of the password: no exclusion *)
Theorem splice_agreement_remove_password u pw u' : Canon u -> pw_arg_empty pw ->
  set_password dbg u pw = Some (u', SOk) -> nlen (ser u') <= U32_MAX_P ->
  ser u' = cut_password u /\ parse_url dbg hp hpo hd None None (cut_password u) = POk u'.
Proof.
  intros C He E Hb.
  assert (usv_opt pw) as Hpw by (destruct pw as [[|c r]|]; [constructor | contradiction | exact I]).
  pose proof (set_password_Canon dbg hp hpo hd u pw u' SOk C Hpw E Hb) as C'.
  assert (ser u' = cut_password u) as Es.
  { destruct C as [sch P q f K | sch segs last q f K | sch ui h pt p q f K | sch ui h pt p q f K Kp].
    - unfold set_password, cannot_have_credentials_or_port, has_host in E. cbn [opaque_url hosti negb bindo] in E. discriminate E.
    - unfold set_password, cannot_have_credentials_or_port, has_host in E. cbn [noauth_url hosti negb bindo] in E. discriminate E.
    - exact (remove_password_auth STNotSpecial sch ui h pt p q f pw u' K eq_refl He E).
    - exact (remove_password_auth STSpecialNotFile sch ui h pt p q f pw u' K eq_refl He E). }
  split; [exact Es|]. rewrite <- Es. exact (Canon_reparse dbg hp hpo hd HRT u' C').
Qed.

End NonePw.
