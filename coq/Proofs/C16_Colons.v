(* Proofs/C16_Colons.v - the parser fact on which the fuel of the blob recursion rests:
   for Url::parse without a base (the parser model, any Host::parse / Host::parse_opaque / Display for
   Host), the path of a result whose scheme is not "file" has no more ':' than the input that remained
   after the scheme, which has fewer ':' than the input.  Reasons, state by state:
     - utf8 decoding (chars()) never makes a ':' out of other bytes;
     - percent-encoding writes '%' and hex digits for what it encodes and copies the rest;
     - the path states only append (encoded input, '/'), or cut the serialization at a position that is
       not in front of the path (dot segments); only the drive-letter quirk of file URLs writes a ':'
       that was not in the input ("file:///C|/" -> "/C:/") - file URLs are excluded;
     - the "/." marker is put in FRONT of the path (path_start moves behind it);
     - the text written for the host (arbitrary here) is in front of the path.
   Also: the scheme slice of such a parse result is the parsed scheme (for every scheme type). *)
From RU Require Import Base.Prelude Base.Utf8 Model.AsciiSet Gen.Tables Model.PercentEncoding
  Model.HostT Model.UrlRecord Model.Parser Model.Origin Proofs.ListN Proofs.C06_List
  Proofs.C16_Conc Proofs.C16_Origin.

(* ---------- monad plumbing ---------- *)
Lemma pbind_inv {A B} (x : pres A) (f : A -> pres B) b :
  pbind x f = POk b -> exists a, x = POk a /\ f a = POk b.
Proof. destruct x; cbn [pbind]; intros H; [eauto | discriminate | discriminate]. Qed.
Ltac pbi H a Ha := apply pbind_inv in H; destruct H as (a & Ha & H).

Lemma to_u32_val n m : to_u32 n = POk m -> m = n.
Proof. unfold to_u32. destruct (n <=? U32_MAX_P); intros H; [inversion H; reflexivity | discriminate]. Qed.

Lemma match47_if {A} (c : N) (a b : A) : (match c with 47 => a | _ => b end) = if c =? 47 then a else b.
Proof. destruct c as [|p]; [reflexivity|]. do 6 (destruct p as [p|p|]; try reflexivity). Qed.

(* ---------- count58 ---------- *)
Lemma count58_app a b : count58 (a ++ b) = (count58 a + count58 b)%nat.
Proof. induction a as [|x a IH]; cbn [app count58]; [reflexivity|]. rewrite IH. lia. Qed.

Lemma count58_rev l : count58 (rev l) = count58 l.
Proof. induction l as [|x l IH]; cbn [rev count58]; [reflexivity|]. rewrite count58_app, IH. cbn [count58]. lia. Qed.

Lemma count58_nfirstn n l : (count58 (nfirstn n l) <= count58 l)%nat.
Proof.
  unfold nfirstn. generalize (N.to_nat n) as k. intros k. revert l.
  induction k as [|k IH]; intros [|x r]; cbn [firstn count58]; try lia.
  specialize (IH r). destruct (x =? 58); lia.
Qed.
Lemma count58_nskipn n l : (count58 (nskipn n l) <= count58 l)%nat.
Proof.
  unfold nskipn. generalize (N.to_nat n) as k. intros k. revert l.
  induction k as [|k IH]; intros [|x r]; cbn [skipn count58]; try lia.
  specialize (IH r). destruct (x =? 58); lia.
Qed.

Lemma count58_drop_while f l : (count58 (drop_while f l) <= count58 l)%nat.
Proof.
  induction l as [|c r IH]; cbn [drop_while]; [lia|]. destruct (f c); [|lia].
  cbn [count58]. lia.
Qed.

Lemma count58_trim f l : (count58 (trim_matches f l) <= count58 l)%nat.
Proof.
  unfold trim_matches. rewrite count58_rev.
  etransitivity; [apply count58_drop_while|]. rewrite count58_rev. apply count58_drop_while.
Qed.

Lemma count58_cons_ne x l : x <> 58 -> count58 (x :: l) = count58 l.
Proof. intros H. cbn [count58]. replace (x =? 58) with false by lia. reflexivity. Qed.

(* ---------- chars() of a byte string ---------- *)
Lemma lossy_count58_len n : forall bs, (length bs <= n)%nat -> (count58 (utf8_lossy bs) <= count58 bs)%nat.
Proof.
  unfold utf8_lossy. induction n as [|n IH]; intros bs Hn.
  - destruct bs; [cbn; lia | cbn [length] in Hn; lia].
  - destruct bs as [|b r]; [vm_compute; lia|]. cbn [length] in Hn.
    assert (H0 := IH r ltac:(lia)).
    cbn [utf8_scan]. destruct (b <? 128) eqn:E1.
    { cbn [map count58]. lia. }
    rewrite (count58_cons_ne b r) by lia.
    destruct ((194 <=? b) && (b <=? 223)) eqn:E2.
    { destruct r as [|c1 r1]; [vm_compute; lia|]. cbn [length] in Hn. assert (H1 := IH r1 ltac:(lia)).
      unfold is_cont. destruct ((128 <=? c1) && (c1 <=? 191)) eqn:Ec1.
      - rewrite (count58_cons_ne c1 r1) by lia. cbn [map]. rewrite count58_cons_ne by lia. exact H1.
      - cbn [map]. rewrite (count58_cons_ne REPLACEMENT) by (unfold REPLACEMENT; lia). exact H0. }
    destruct ((224 <=? b) && (b <=? 239)) eqn:E3.
    { destruct r as [|c1 r1]; [vm_compute; lia|]. cbn [length] in Hn. assert (H1 := IH r1 ltac:(lia)).
      destruct (ok3 b c1) eqn:Eo.
      - assert (Hc1 : 128 <= c1) by (unfold ok3, is_cont in Eo; lia).
        rewrite (count58_cons_ne c1 r1) by lia.
        destruct r1 as [|c2 r2]; [vm_compute; lia|]. cbn [length] in Hn. assert (H2 := IH r2 ltac:(lia)).
        unfold is_cont. destruct ((128 <=? c2) && (c2 <=? 191)) eqn:Ec2.
        + rewrite (count58_cons_ne c2 r2) by lia. cbn [map]. rewrite count58_cons_ne; [exact H2|].
          unfold ok3, is_cont in Eo. lia.
        + cbn [map]. rewrite (count58_cons_ne REPLACEMENT) by (unfold REPLACEMENT; lia). exact H1.
      - cbn [map]. rewrite (count58_cons_ne REPLACEMENT) by (unfold REPLACEMENT; lia). exact H0. }
    destruct ((240 <=? b) && (b <=? 244)) eqn:E4.
    { destruct r as [|c1 r1]; [vm_compute; lia|]. cbn [length] in Hn. assert (H1 := IH r1 ltac:(lia)).
      destruct (ok4 b c1) eqn:Eo.
      - assert (Hc1 : 128 <= c1) by (unfold ok4, is_cont in Eo; lia).
        rewrite (count58_cons_ne c1 r1) by lia.
        destruct r1 as [|c2 r2]; [vm_compute; lia|]. cbn [length] in Hn. assert (H2 := IH r2 ltac:(lia)).
        unfold is_cont. destruct ((128 <=? c2) && (c2 <=? 191)) eqn:Ec2.
        + rewrite (count58_cons_ne c2 r2) by lia.
          destruct r2 as [|c3 r3]; [vm_compute; lia|]. cbn [length] in Hn. assert (H3 := IH r3 ltac:(lia)).
          destruct ((128 <=? c3) && (c3 <=? 191)) eqn:Ec3.
          * rewrite (count58_cons_ne c3 r3) by lia. cbn [map]. rewrite count58_cons_ne; [exact H3|].
            unfold ok4, is_cont in Eo. lia.
          * cbn [map]. rewrite (count58_cons_ne REPLACEMENT) by (unfold REPLACEMENT; lia). exact H2.
        + cbn [map]. rewrite (count58_cons_ne REPLACEMENT) by (unfold REPLACEMENT; lia). exact H1.
      - cbn [map]. rewrite (count58_cons_ne REPLACEMENT) by (unfold REPLACEMENT; lia). exact H0. }
    cbn [map]. rewrite (count58_cons_ne REPLACEMENT) by (unfold REPLACEMENT; lia). exact H0.
Qed.

Lemma lossy_count58 bs : (count58 (utf8_lossy bs) <= count58 bs)%nat.
Proof. apply (lossy_count58_len (length bs)). lia. Qed.

(* ---------- percent-encoding ---------- *)
Lemma enc_table_no58 : count58 T_ENC_TABLE = O.
Proof. vm_compute. reflexivity. Qed.

Lemma enc_byte_no58 b : count58 (enc_byte b) = O.
Proof.
  unfold enc_byte. pose proof (count58_nfirstn T_ENC_WIDTH (nskipn (b * T_ENC_STRIDE) T_ENC_TABLE)) as H1.
  pose proof (count58_nskipn (b * T_ENC_STRIDE) T_ENC_TABLE) as H2. pose proof enc_table_no58 as H3.
  unfold nfirstn, nskipn in H1, H2. lia.
Qed.

Lemma span_keep_app S bs : forall u rest, span_keep S bs = (u, rest) -> bs = u ++ rest.
Proof.
  induction bs as [|b r IH]; intros u rest H; cbn [span_keep] in H.
  - inversion H. reflexivity.
  - destruct (should_encode S b); [inversion H; reflexivity|].
    destruct (span_keep S r) as [u' rest'] eqn:E. inversion H; subst. cbn [app]. f_equal. now apply IH.
Qed.

Lemma pe_next_count58 S bs c rest : pe_next S bs = Some (c, rest) -> (count58 c + count58 rest <= count58 bs)%nat.
Proof.
  unfold pe_next. destruct bs as [|b r]; [discriminate|].
  destruct (should_encode S b).
  - intros H. inversion H; subst. rewrite enc_byte_no58. cbn [count58]. lia.
  - destruct (span_keep S r) as [u rest'] eqn:E. intros H. inversion H; subst.
    apply span_keep_app in E. subst r. cbn [count58]. rewrite count58_app. lia.
Qed.

Lemma pe_chunks_count58 S f : forall bs, (count58 (concat (pe_chunks_f f S bs)) <= count58 bs)%nat.
Proof.
  induction f as [|f IH]; intros bs; cbn [pe_chunks_f]; [cbn; lia|].
  destruct (pe_next S bs) as [[c rest]|] eqn:E; [|cbn; lia].
  cbn [concat]. rewrite count58_app. pose proof (pe_next_count58 S bs c rest E). specialize (IH rest). lia.
Qed.

Lemma pe_display_count58 S bs : (count58 (pe_display S bs) <= count58 bs)%nat.
Proof. apply pe_chunks_count58. Qed.

Lemma utf8_encode1_count58 c : count58 (utf8_encode1 c) = count58 [c].
Proof.
  unfold utf8_encode1.
  destruct (c <? 128) eqn:E1; [reflexivity|].
  rewrite (count58_cons_ne c []) by lia.
  destruct (c <? 2048); [rewrite !count58_cons_ne by lia; reflexivity|].
  destruct (c <? 65536); rewrite !count58_cons_ne by lia; reflexivity.
Qed.

Lemma utf8_encode_count58 t : count58 (utf8_encode t) = count58 t.
Proof.
  unfold utf8_encode. induction t as [|c t IH]; [reflexivity|].
  cbn [flat_map]. rewrite count58_app, IH, utf8_encode1_count58. cbn [count58]. lia.
Qed.

Lemma push_encoded_shape S ser text :
  exists X, push_encoded S ser text = ser ++ X /\ (count58 X <= count58 text)%nat.
Proof.
  unfold push_encoded. eexists. split; [reflexivity|].
  etransitivity; [apply pe_display_count58|]. rewrite utf8_encode_count58. lia.
Qed.

(* ---------- rfind stays inside the list ---------- *)
Lemma rfind_aux_in b l : forall i0 last j, rfind_aux b l i0 last = Some j ->
  last = Some j \/ (i0 <= j /\ j < i0 + nlen l).
Proof.
  induction l as [|x r IH]; intros i0 last j H; cbn [rfind_aux] in H.
  - left. exact H.
  - apply IH in H. rewrite nlen_cons. destruct H as [H|H]; [|right; lia].
    destruct (x =? b); [inversion H; subst; right; lia | left; exact H].
Qed.
Lemma rfind_in b l j : rfind b l = Some j -> j < nlen l.
Proof. intros H. apply rfind_aux_in in H. destruct H as [H|H]; [discriminate | lia]. Qed.

(* ---------- the invariant of the path states ---------- *)
Section PathColons.
Variables (dbg : bool) (st : scheme_type) (ps : N) (pre : list N).
Hypothesis Hpre : nlen pre = ps.

(* the first ps bytes are `pre`; unless the scheme is file, at most k ':' from ps on *)
Definition CInv (k : nat) (ser : list N) : Prop :=
  nfirstn ps ser = pre /\ (st_is_file st = false -> (count58 (nskipn ps ser) <= k)%nat).

Lemma cinv_len k ser : CInv k ser -> ps <= nlen ser.
Proof.
  intros [H _]. assert (nlen (nfirstn ps ser) = ps) as E by (rewrite H; exact Hpre).
  unfold nlen, nfirstn in *. rewrite firstn_length in E. lia.
Qed.

Lemma cinv_mono k k' ser : CInv k ser -> (k <= k')%nat -> CInv k' ser.
Proof. intros [H1 H2] Hk. split; [exact H1|]. intros Hf. specialize (H2 Hf). lia. Qed.

Lemma cinv_app k ser x : CInv k ser -> CInv (k + count58 x) (ser ++ x).
Proof.
  intros H. pose proof (cinv_len k ser H) as L. destruct H as [H1 H2]. split.
  - rewrite nfirstn_app_le by exact L. exact H1.
  - intros Hf. specialize (H2 Hf). rewrite nskipn_app_le by lia. rewrite count58_app. lia.
Qed.

Lemma cinv_app0 k ser x : CInv k ser -> count58 x = O -> CInv k (ser ++ x).
Proof. intros H Hx. eapply cinv_mono; [apply cinv_app; exact H|lia]. Qed.

Lemma cinv_trunc k ser n : CInv k ser -> ps <= n -> CInv k (nfirstn n ser).
Proof.
  intros [H1 H2] Hn. split.
  - rewrite nfirstn_nfirstn by exact Hn. exact H1.
  - intros Hf. specialize (H2 Hf). replace n with (ps + (n - ps)) by lia. rewrite nskipn_nfirstn_comm.
    pose proof (count58_nfirstn (n - ps) (nskipn ps ser)). lia.
Qed.

Lemma cinv_push_pending ctx k ser pending : CInv k ser ->
  CInv (k + count58 pending) (push_pending ctx st ser pending).
Proof.
  intros H. unfold push_pending. destruct pending as [|c r]; [eapply cinv_mono; [exact H|lia]|].
  destruct (push_encoded_shape (path_set ctx st) ser (rev (c :: r))) as (X & -> & HX).
  rewrite count58_rev in HX. eapply cinv_mono; [apply cinv_app; exact H|lia].
Qed.

Lemma cinv_pop_path k ser s' : pop_path st ps ser = POk s' -> CInv k ser -> CInv k s'.
Proof.
  unfold pop_path. intros H I. destruct (ps <? nlen ser); [|inversion H; subst; exact I].
  destruct (rfind 47 (nskipn ps ser)) as [sp|]; [|discriminate].
  destruct (st_is_file st && is_normalized_wdl (nskipn (ps + sp + 1) ser)); inversion H; subst; [exact I|].
  unfold truncate. apply cinv_trunc; [exact I | lia].
Qed.

Lemma cinv_shorten_path k ser s' : shorten_path st ps ser = POk s' -> CInv k ser -> CInv k s'.
Proof.
  unfold shorten_path. intros H I. destruct (nlen ser =? ps); [inversion H; subst; exact I|].
  destruct (st_is_file st && is_normalized_wdl (nskipn ps ser)); [inversion H; subst; exact I|].
  eapply cinv_pop_path; eassumption.
Qed.

Lemma last_slash_lb s1 : last_slash_can_be_removed s1 ps = true -> ps + 1 <= nlen s1 - 1.
Proof.
  unfold last_slash_can_be_removed. destruct (rfind 47 (nfirstn (nlen s1 - 1) s1)) as [p|] eqn:E; [|discriminate].
  intros H. apply andb_true_iff in H. destruct H as [H _]. apply rfind_in in E.
  pose proof (nlen_nfirstn_le (nlen s1 - 1) s1). lia.
Qed.

Lemma cinv_finish_segment k ser seg_start ews hh s' hh' :
  finish_segment dbg st ps ser seg_start ews hh = POk (s', hh') -> CInv k ser -> ps <= seg_start -> CInv k s'.
Proof.
  unfold finish_segment. intros H I Hs.
  destruct (slice_o ser seg_start (if ews then nlen ser - 1 else nlen ser)) as [seg|]; cbn [of_option pbind] in H; [|discriminate].
  destruct (is_double_dot seg).
  - match type of H with pbind ?c _ = _ => destruct c as [[]| |]; cbn [pbind] in H; try discriminate end.
    set (s1 := truncate ser seg_start) in *.
    assert (CInv k s1) as I1 by (apply cinv_trunc; assumption).
    set (s2 := if ends_with_byte 47 s1 && last_slash_can_be_removed s1 ps then nfirstn (nlen s1 - 1) s1 else s1) in *.
    assert (CInv k s2) as I2.
    { subst s2. destruct (ends_with_byte 47 s1 && last_slash_can_be_removed s1 ps) eqn:E; [|exact I1].
      apply andb_true_iff in E. destruct E as [_ E]. apply last_slash_lb in E.
      apply cinv_trunc; [exact I1 | lia]. }
    destruct (shorten_path st ps s2) as [s3| |] eqn:E3; cbn [pbind] in H; try discriminate.
    pose proof (cinv_shorten_path _ _ _ E3 I2) as I3.
    inversion H; subst. destruct (ews && negb (ends_with_byte 47 s3)); [|exact I3].
    apply cinv_app0; [exact I3 | reflexivity].
  - destruct (is_single_dot seg).
    + inversion H; subst. assert (CInv k (truncate ser seg_start)) as I1 by (apply cinv_trunc; assumption).
      destruct (ends_with_byte 47 (truncate ser seg_start)); [exact I1|]. apply cinv_app0; [exact I1 | reflexivity].
    + destruct (st_is_file st) eqn:Ef; cbn [andb] in H; [|inversion H; subst; exact I].
      destruct ((seg_start =? ps + 1) && is_wdl seg); [|inversion H; subst; exact I].
      (* the drive-letter quirk: file URLs only, nothing is claimed about ':' there *)
      assert (forall x, CInv k x -> forall y, CInv k (x ++ y)) as Happ.
      { intros x Ix y. pose proof (cinv_app k x y Ix) as [J1 _]. split; [exact J1|]. intros Hf; congruence. }
      destruct seg as [|c r]; inversion H; subst; [exact I|].
      apply Happ. apply cinv_trunc; assumption.
Qed.

Lemma cinv_file_path_fixup k ser : CInv k ser -> CInv k (file_path_fixup st ps ser).
Proof.
  intros I. unfold file_path_fixup. destruct (st_is_file st) eqn:E; [|exact I].
  pose proof (cinv_len k ser I) as L. destruct I as [I1 I2].
  assert (nlen (nfirstn ps ser) = ps) as Lp by (apply nlen_nfirstn; lia).
  split; [|intros Hf; congruence].
  rewrite nfirstn_app_le by lia. rewrite nfirstn_nfirstn by lia. exact I1.
Qed.

(* the loop: the result satisfies the invariant with a count that, together with the ':' of the input that
   was not consumed, is at most what was there, pending and to come *)
Lemma cinv_loop ctx l : forall k ser seg_start pending hh s' hh' rem,
  parse_path_loop dbg ctx st ps l ser seg_start pending hh = POk (s', hh', rem) ->
  CInv k ser -> ps <= seg_start ->
  exists k', CInv k' s' /\ (k' + count58 rem <= k + count58 pending + count58 l)%nat.
Proof.
  induction l as [|c r IH]; intros k ser seg_start pending hh s' hh' rem H I Hs; cbn [parse_path_loop] in H.
  - destruct (finish_segment dbg st ps (push_pending ctx st ser pending) seg_start false hh) as [[s2 h2]| |] eqn:E;
      cbn [pbind] in H; try discriminate.
    inversion H; subst. exists (k + count58 pending)%nat. split; [|cbn [count58]; lia].
    apply cinv_file_path_fixup.
    eapply cinv_finish_segment; [exact E | apply cinv_push_pending; assumption | exact Hs].
  - destruct (is_tnl c) eqn:Et.
    { destruct (IH _ _ _ _ _ _ _ _ H (cinv_push_pending ctx k ser pending I) Hs) as (k' & I' & Hk').
      exists k'. split; [exact I'|]. cbn [count58] in *. lia. }
    destruct (negb (ctx_eqb ctx CPathSegmentSetter) && ((c =? 47) || (c =? 92) && st_is_special st)) eqn:Esl.
    { destruct (finish_segment dbg st ps (push_pending ctx st ser pending ++ [47]) seg_start true hh) as [[s2 h2]| |] eqn:E;
        cbn [pbind] in H; try discriminate.
      assert (CInv (k + count58 pending) s2) as I2.
      { eapply cinv_finish_segment; [exact E | | exact Hs]. apply cinv_app0; [apply cinv_push_pending; assumption | reflexivity]. }
      destruct (IH _ _ _ _ _ _ _ _ H I2 (cinv_len _ _ I2)) as (k' & I' & Hk').
      exists k'. split; [exact I'|]. cbn [count58] in *. lia. }
    destruct (((c =? 63) || (c =? 35)) && ctx_eqb ctx CUrlParser) eqn:Eqh.
    { destruct (finish_segment dbg st ps (push_pending ctx st ser pending) seg_start false hh) as [[s2 h2]| |] eqn:E;
        cbn [pbind] in H; try discriminate.
      inversion H; subst. exists (k + count58 pending)%nat. split; [|lia].
      apply cinv_file_path_fixup.
      eapply cinv_finish_segment; [exact E | apply cinv_push_pending; assumption | exact Hs]. }
    destruct (st_is_file st && (ps <? nlen ser) && is_normalized_wdl (nskipn (ps + 1) ser)).
    { assert (CInv (k + count58 pending) (push_pending ctx st ser pending ++ [47])) as I2
        by (apply cinv_app0; [apply cinv_push_pending; assumption | reflexivity]).
      destruct (IH _ _ _ _ _ _ _ _ H I2 ltac:(lia)) as (k' & I' & Hk').
      exists k'. split; [exact I'|]. cbn [count58] in *. lia. }
    destruct (IH _ _ _ _ _ _ _ _ H I Hs) as (k' & I' & Hk').
    exists k'. split; [exact I'|]. cbn [count58] in *. lia.
Qed.

End PathColons.

(* ---------- the input only shrinks ---------- *)
Lemma inp_next_count58 l c r : inp_next l = Some (c, r) -> (count58 (c :: r) <= count58 l)%nat.
Proof.
  unfold inp_next. pose proof (count58_drop_while is_tnl l) as H0.
  destruct (drop_while is_tnl l) as [|d r']; [discriminate|]. intros H; inversion H; subst. exact H0.
Qed.

Lemma inp_next_rest l c r : inp_next l = Some (c, r) -> (count58 r <= count58 l)%nat.
Proof. intros H. apply inp_next_count58 in H. cbn [count58] in H. lia. Qed.

Lemma inp_split_first_count58 l mc rem : inp_split_first l = (mc, rem) -> (count58 rem <= count58 l)%nat.
Proof.
  unfold inp_split_first. destruct (inp_next l) as [[c r]|] eqn:E; intros H; inversion H; subst.
  - eapply inp_next_rest; eassumption.
  - cbn [count58]. lia.
Qed.

Lemma inp_split_prefix_char_count58 c l r : inp_split_prefix_char c l = Some r -> (count58 r <= count58 l)%nat.
Proof.
  unfold inp_split_prefix_char. destruct (inp_next l) as [[d r']|] eqn:E; [|discriminate].
  destruct (d =? c); [|discriminate]. intros H; inversion H; subst. eapply inp_next_rest; eassumption.
Qed.

Lemma inp_split_prefix_str_count58 p : forall l r, inp_split_prefix_str p l = Some r -> (count58 r <= count58 l)%nat.
Proof.
  induction p as [|c p IH]; intros l r H; cbn [inp_split_prefix_str] in H.
  - inversion H; subst. lia.
  - destruct (inp_next l) as [[d r']|] eqn:E; [|discriminate]. destruct (d =? c); [|discriminate].
    apply IH in H. apply inp_next_rest in E. lia.
Qed.

Lemma inp_count_matching_count58 f l : forall n rem, inp_count_matching f l = (n, rem) -> (count58 rem <= count58 l)%nat.
Proof.
  induction l as [|c r IH]; intros n rem H; cbn [inp_count_matching] in H.
  - inversion H; subst. lia.
  - assert (count58 r <= count58 (c :: r))%nat as Hr by (cbn [count58]; lia).
    destruct (is_tnl c).
    + destruct (inp_count_matching f r) as [n0 rem0] eqn:E. specialize (IH _ _ eq_refl).
      destruct n0 as [|q]; inversion H; subst; lia.
    + destruct (f c).
      * destruct (inp_count_matching f r) as [n0 rem0] eqn:E. specialize (IH _ _ eq_refl). inversion H; subst. lia.
      * inversion H; subst. lia.
Qed.

(* the scheme state consumes its ':' *)
Lemma parse_scheme_loop_count58 l : forall acc s r,
  parse_scheme_loop CUrlParser acc l = Some (s, r) -> (count58 r < count58 l)%nat.
Proof.
  induction l as [|c l IH]; intros acc s r H; cbn [parse_scheme_loop ctx_eqb] in H; [discriminate|].
  assert (count58 l <= count58 (c :: l))%nat as Hr by (cbn [count58]; lia).
  destruct (is_tnl c); [apply IH in H; lia|].
  destruct (is_lower c || is_digit c || (c =? 43) || (c =? 45) || (c =? 46)); [apply IH in H; lia|].
  destruct (is_upper c); [apply IH in H; lia|].
  destruct (c =? 58) eqn:E; [|discriminate]. inversion H; subst. cbn [count58]. rewrite E. lia.
Qed.

Lemma parse_scheme_count58 l s r : parse_scheme CUrlParser l = Some (s, r) -> (count58 r < count58 l)%nat.
Proof. unfold parse_scheme. destruct (inp_starts_with_pred is_alpha l); [apply parse_scheme_loop_count58|discriminate]. Qed.

(* userinfo *)
Lemma scan_last_at_count58 sp l : forall cnt last n r, scan_last_at sp l cnt last = Some (n, r) ->
  last = Some (n, r) \/ (count58 r <= count58 l)%nat.
Proof.
  induction l as [|c l IH]; intros cnt last n r H; cbn [scan_last_at] in H; [left; exact H|].
  assert (count58 l <= count58 (c :: l))%nat as Hr by (cbn [count58]; lia).
  destruct (is_tnl c); [apply IH in H; destruct H; [left; assumption|right; lia]|].
  destruct (c =? 64).
  { apply IH in H. destruct H as [H|H]; [inversion H; subst; right; lia|right; lia]. }
  destruct ((c =? 47) || (c =? 63) || (c =? 35) || (c =? 92) && sp); [left; exact H|].
  apply IH in H. destruct H; [left; assumption|right; lia].
Qed.

Lemma userinfo_loop_app l : forall n ser uend hpw hun s' uend' hpw' hun',
  userinfo_loop l n ser uend hpw hun = POk (s', uend', hpw', hun') -> exists X, s' = ser ++ X.
Proof.
  induction l as [|c l IH]; intros n ser uend hpw hun s' uend' hpw' hun' H; cbn [userinfo_loop] in H.
  - destruct (n =? 0); [|discriminate]. inversion H; subst. exists []. now rewrite app_nil_r.
  - destruct (n =? 0); [inversion H; subst; exists []; now rewrite app_nil_r|].
    destruct (is_tnl c); [eapply IH; exact H|]. cbv zeta in H.
    destruct ((c =? 58) && match uend with None => true | Some _ => false end).
    + pbi H ue Hue. destruct (0 <? n - 1).
      * apply IH in H. destruct H as [X ->]. exists ([58] ++ X). now rewrite app_assoc.
      * eapply IH; exact H.
    + destruct (push_encoded_shape T_USERINFO ser [c]) as (Y & HY & _). rewrite HY in H.
      apply IH in H. destruct H as [X ->]. exists (Y ++ X). now rewrite app_assoc.
Qed.

Lemma parse_userinfo_shape st ser l ser1 ue rem :
  parse_userinfo st ser l = POk (ser1, ue, rem) ->
  (exists X, ser1 = ser ++ X) /\ (count58 rem <= count58 l)%nat.
Proof.
  unfold parse_userinfo. destruct (scan_last_at (st_is_special st) l 0 None) as [[n remaining]|] eqn:E.
  - apply scan_last_at_count58 in E. destruct E as [E|E]; [discriminate|].
    destruct n as [|q].
    + destruct (inp_next remaining) as [[c r]|]; [|discriminate].
      destruct ((c =? 47) || (c =? 63) || (c =? 35) || st_is_special st && (c =? 92)); [discriminate|].
      intros H. pbi H ue0 Hue. inversion H; subst. split; [exists []; now rewrite app_nil_r|exact E].
    + intros H. pbi H a Ha. destruct a as [[[s1 uend] hpw] hun]. pbi H ue0 Hue. inversion H; subst.
      split; [|exact E]. apply userinfo_loop_app in Ha. destruct Ha as [X ->].
      destruct (hun || hpw); [exists (X ++ [64]); now rewrite app_assoc|exists X; reflexivity].
  - intros H. pbi H ue0 Hue. inversion H; subst. split; [exists []; now rewrite app_nil_r|lia].
Qed.

(* host and port *)
Lemma host_scan_count58 sp l : forall inside acc h rem,
  host_scan sp inside acc l = (h, rem) -> (count58 rem <= count58 l)%nat.
Proof.
  induction l as [|c l IH]; intros inside acc h rem H; cbn [host_scan] in H; [inversion H; subst; lia|].
  assert (count58 l <= count58 (c :: l))%nat as Hr by (cbn [count58]; lia).
  destruct (is_tnl c); [apply IH in H; lia|].
  destruct ((c =? 58) && negb inside || (c =? 92) && sp || (c =? 47) || (c =? 63) || (c =? 35));
    [inversion H; subst; lia|].
  destruct (c =? 91); [apply IH in H; lia|]. destruct (c =? 93); apply IH in H; lia.
Qed.

Lemma file_host_scan_count58 l : forall acc h rem, file_host_scan acc l = (h, rem) -> (count58 rem <= count58 l)%nat.
Proof.
  induction l as [|c l IH]; intros acc h rem H; cbn [file_host_scan] in H; [inversion H; subst; lia|].
  assert (count58 l <= count58 (c :: l))%nat as Hr by (cbn [count58]; lia).
  destruct (is_tnl c); [apply IH in H; lia|]. destruct (is_path_end c); [inversion H; subst; lia|apply IH in H; lia].
Qed.

Lemma file_host_count58 l h rem : file_host l = (h, rem) -> (count58 rem <= count58 l)%nat.
Proof.
  unfold file_host. destruct (file_host_scan [] l) as [h0 rem0] eqn:E. apply file_host_scan_count58 in E.
  destruct (is_wdl h0); intros H; inversion H; subst; lia.
Qed.

Section HostStates.
Variable dbg : bool.
Variable hp ho : list N -> result host.
Variable hd : host -> list N.

Lemma parse_host_count58 st l h rem : parse_host hp ho st l = POk (h, rem) -> (count58 rem <= count58 l)%nat.
Proof.
  unfold parse_host, get_file_host. destruct (st_is_file st).
  - destruct (file_host l) as [t rem0] eqn:E. apply file_host_count58 in E.
    intros H. pbi H x Hx. inversion H; subst. exact E.
  - destruct (host_scan (st_is_special st) false [] l) as [t rem0] eqn:E. apply host_scan_count58 in E.
    destruct (scheme_type_eqb st STSpecialNotFile && match t with [] => true | _ => false end); [discriminate|].
    destruct (negb (st_is_special st)); intros H; pbi H x Hx; inversion H; subst; exact E.
Qed.

Lemma parse_port_loop_count58 ctx l : forall p any p' any' rem,
  parse_port_loop ctx l p any = POk (p', any', rem) -> (count58 rem <= count58 l)%nat.
Proof.
  induction l as [|c l IH]; intros p any p' any' rem H; cbn [parse_port_loop] in H; [inversion H; subst; lia|].
  assert (count58 l <= count58 (c :: l))%nat as Hr by (cbn [count58]; lia).
  destruct (is_tnl c); [apply IH in H; lia|].
  destruct (is_digit c).
  - cbv zeta in H. destruct (65535 <? p * 10 + (c - 48)); [discriminate|]. apply IH in H. lia.
  - destruct (ctx_eqb ctx CUrlParser && negb (is_path_end c)); [discriminate|]. inversion H; subst. lia.
Qed.

Lemma parse_port_count58 ctx d l port rem : parse_port ctx d l = POk (port, rem) -> (count58 rem <= count58 l)%nat.
Proof.
  unfold parse_port. intros H. pbi H a Ha. destruct a as [[p any] rem0]. apply parse_port_loop_count58 in Ha.
  destruct (negb any && ctx_eqb ctx CSetter && negb (inp_is_empty rem0)); [discriminate|]. inversion H; subst. exact Ha.
Qed.

Lemma parse_host_and_port_shape ctx st se ser l ser2 he hi port rem :
  parse_host_and_port hp ho hd ctx st se ser l = POk (ser2, he, hi, port, rem) ->
  (exists X, ser2 = ser ++ X) /\ (count58 rem <= count58 l)%nat.
Proof.
  unfold parse_host_and_port. intros H. pbi H a Ha. destruct a as [h remaining]. apply parse_host_count58 in Ha.
  cbv zeta in H. pbi H he0 Hhe. pbi H u0 Hu0.
  destruct (inp_split_prefix_char 58 remaining) as [rem1|] eqn:E.
  - apply inp_split_prefix_char_count58 in E. pbi H b Hb. destruct b as [port0 rem2]. apply parse_port_count58 in Hb.
    inversion H; subst. split; [|lia].
    destruct port; [eexists; rewrite <- app_assoc; reflexivity|eexists; reflexivity].
  - inversion H; subst. split; [eexists; reflexivity|lia].
Qed.

(* ---------- path ---------- *)
Lemma cinv_init st ser : CInv st (nlen ser) ser 0 ser.
Proof.
  split; [apply nfirstn_all; lia|]. intros _. rewrite nskipn_all by lia. cbn [count58]. lia.
Qed.

Lemma parse_path_cinv ctx st hh ps pre ser l s' hh' rem k : nlen pre = ps ->
  parse_path dbg ctx st hh ps ser l = POk (s', hh', rem) -> CInv st ps pre k ser ->
  exists k', CInv st ps pre k' s' /\ (k' + count58 rem <= k + count58 l)%nat.
Proof.
  intros Hpre H I. unfold parse_path in H.
  destruct (cinv_loop dbg st ps pre Hpre ctx l _ _ _ _ _ _ _ _ H I (cinv_len st ps pre Hpre _ _ I)) as (k' & I' & Hk').
  exists k'. split; [exact I'|]. cbn [count58] in Hk'. lia.
Qed.

Lemma parse_path_start_cinv ctx st hh ser l s' hh' rem :
  parse_path_start dbg ctx st hh ser l = POk (s', hh', rem) ->
  exists k', CInv st (nlen ser) ser k' s' /\ (k' + count58 rem <= count58 l)%nat.
Proof.
  unfold parse_path_start. cbv zeta. destruct (inp_split_first l) as [mc remaining] eqn:E.
  apply inp_split_first_count58 in E.
  pose proof (cinv_init st ser) as I0.
  assert (CInv st (nlen ser) ser 0 (ser ++ [47])) as I1 by (apply cinv_app0; [reflexivity|exact I0|reflexivity]).
  assert (forall s0 l0, CInv st (nlen ser) ser 0 s0 -> (count58 l0 <= count58 l)%nat ->
            parse_path dbg ctx st hh (nlen ser) s0 l0 = POk (s', hh', rem) ->
            exists k', CInv st (nlen ser) ser k' s' /\ (k' + count58 rem <= count58 l)%nat) as Hgo.
  { intros s0 l0 Is0 Hl0 H. destruct (parse_path_cinv ctx st hh _ ser s0 l0 s' hh' rem 0%nat eq_refl H Is0) as (k' & I' & Hk').
    exists k'. split; [exact I'|lia]. }
  destruct (st_is_special st).
  - destruct (negb (ends_with_byte 47 ser)).
    + destruct mc as [c|]; [destruct (is_slash_or_bslash c)|]; apply Hgo; try assumption; lia.
    + apply Hgo; [assumption|lia].
  - destruct mc as [c|].
    + destruct ((c =? 63) || (c =? 35)).
      * intros H. inversion H; subst. exists 0%nat. split; [exact I0|lia].
      * destruct (c =? 47); apply Hgo; try assumption; lia.
    + apply Hgo; [assumption|lia].
Qed.

(* opaque paths *)
Lemma parse_cbb_shape ctx l : forall ser ser1 rem,
  parse_cannot_be_a_base_path ctx ser l = (ser1, rem) ->
  exists X, ser1 = ser ++ X /\ (count58 X + count58 rem <= count58 l)%nat.
Proof.
  induction l as [|c l IH]; intros ser ser1 rem H; cbn [parse_cannot_be_a_base_path] in H.
  - inversion H; subst. exists []. rewrite app_nil_r. split; [reflexivity|cbn [count58]; lia].
  - assert (count58 l <= count58 (c :: l))%nat as Hr by (cbn [count58]; lia).
    destruct (is_tnl c).
    + apply IH in H. destruct H as (X & -> & HX). exists X. split; [reflexivity|lia].
    + destruct (((c =? 63) || (c =? 35)) && ctx_eqb ctx CUrlParser).
      * inversion H; subst. exists []. rewrite app_nil_r. split; [reflexivity|cbn [count58]; lia].
      * destruct (push_encoded_shape T_CONTROLS ser [c]) as (Y & HY & HYc). rewrite HY in H.
        apply IH in H. destruct H as (X & -> & HX). exists (Y ++ X). rewrite app_assoc. split; [reflexivity|].
        rewrite count58_app. cbn [count58] in *. lia.
Qed.

(* ---------- query and fragment only append ---------- *)
Lemma parse_fragment_loop_app l : forall ser pr, exists X, parse_fragment_loop ser pr l = ser ++ X.
Proof.
  induction l as [|c l IH]; intros ser pr; cbn [parse_fragment_loop].
  - destruct pr; [exists []; now rewrite app_nil_r|eexists; reflexivity].
  - destruct (is_tnl c); [|apply IH]. destruct (IH (flush_part T_FRAGMENT utf8_encode ser pr) []) as [X HX].
    rewrite HX. unfold flush_part. rewrite <- app_assoc. eexists; reflexivity.
Qed.

Lemma parse_query_loop_app set enc iup l : forall ser pr, exists X, fst (parse_query_loop set enc iup ser pr l) = ser ++ X.
Proof.
  induction l as [|c l IH]; intros ser pr; cbn [parse_query_loop].
  - cbn [fst]. destruct pr; [exists []; now rewrite app_nil_r|eexists; reflexivity].
  - destruct (is_tnl c).
    + destruct (IH (flush_part set enc ser pr) []) as [X HX]. rewrite HX. unfold flush_part. rewrite <- app_assoc. eexists; reflexivity.
    + destruct ((c =? 35) && iup); [cbn [fst]; eexists; reflexivity|apply IH].
Qed.

Definition qf_at (n : N) (X : list N) (qs fs : option N) : Prop :=
  match qs, fs with
  | None, None => X = []
  | Some i, _ | None, Some i => i = n
  end.

Lemma pqf_shape ovr ctx st se ser l s2 qs fs :
  parse_query_and_fragment ovr ctx st se ser l = POk (s2, qs, fs) ->
  exists X, s2 = ser ++ X /\ qf_at (nlen ser) X qs fs.
Proof.
  unfold parse_query_and_fragment. destruct (inp_next l) as [[c r]|].
  2:{ intros H. inversion H; subst. exists []. rewrite app_nil_r. split; reflexivity. }
  destruct (c =? 35).
  { intros H. pbi H f0 Hf0. apply to_u32_val in Hf0. inversion H; subst. unfold parse_fragment.
    destruct (parse_fragment_loop_app r (ser ++ [35]) []) as [X ->]. rewrite <- app_assoc. eexists. split; reflexivity. }
  destruct (c =? 63); [|discriminate]. intros H. pbi H q0 Hq0. apply to_u32_val in Hq0.
  unfold parse_query in H.
  destruct (parse_query_loop_app (query_set st) (query_enc ovr (nfirstn se (ser ++ [63]))) (ctx_eqb ctx CUrlParser) r (ser ++ [63]) [])
    as [X HX].
  destruct (parse_query_loop _ _ _ _ _ r) as [ser1 rem2]. cbn [fst] in HX. subst ser1.
  destruct rem2 as [r2|].
  - pbi H f0 Hf0. inversion H; subst. unfold parse_fragment.
    destruct (parse_fragment_loop_app r2 (((ser ++ [63]) ++ X) ++ [35]) []) as [Y ->].
    rewrite <- !app_assoc. eexists. split; reflexivity.
  - inversion H; subst. rewrite <- app_assoc. eexists. split; reflexivity.
Qed.

(* the path slice of a record whose serialization is  s1 ++ X  with the query / fragment (if any) at |s1| *)
Lemma path_of_parts s1 X se ue hs he hi port ps1 qs fs p' :
  ps1 <= nlen s1 -> qf_at (nlen s1) X qs fs ->
  path (mkUrl (s1 ++ X) se ue hs he hi port ps1 qs fs) = Some p' -> p' = nskipn ps1 s1.
Proof.
  intros Hps Hqf. unfold path, u_slice_from, u_slice, slice_from_o, slice_o. cbn [query_start fragment_start ser path_start].
  assert (Hcut : nfirstn (nlen s1 - ps1) (nskipn ps1 (s1 ++ X)) = nskipn ps1 s1).
  { rewrite nskipn_app_le by exact Hps. rewrite <- (nlen_nskipn ps1 s1). apply nfirstn_app_exact. }
  unfold qf_at in Hqf. destruct qs as [q|], fs as [f|]; subst.
  - destruct ((ps1 <=? nlen s1) && (nlen s1 <=? nlen (s1 ++ X))); intros H; inversion H. exact Hcut.
  - destruct ((ps1 <=? nlen s1) && (nlen s1 <=? nlen (s1 ++ X))); intros H; inversion H. exact Hcut.
  - destruct ((ps1 <=? nlen s1) && (nlen s1 <=? nlen (s1 ++ X))); intros H; inversion H. exact Hcut.
  - rewrite app_nil_r. destruct (ps1 <=? nlen s1); intros H; inversion H. reflexivity.
Qed.

Lemma scheme_of_parts s1 X se ue hs he hi port ps1 qs fs sch :
  se <= nlen s1 -> scheme (mkUrl (s1 ++ X) se ue hs he hi port ps1 qs fs) = Some sch -> sch = nfirstn se s1.
Proof.
  intros Hse. unfold scheme, u_slice_to, slice_to_o. cbn [ser scheme_end].
  destruct (se <=? nlen (s1 ++ X)); intros H; inversion H. apply nfirstn_app_le. exact Hse.
Qed.

Lemma wqf_shape ovr ctx st se ue hs he hi port ps ser rem u :
  with_query_and_fragment ovr ctx st se ue hs he hi port ps ser rem = POk u -> ps <= nlen ser -> se <= nlen ser ->
  (forall s, scheme u = Some s -> s = nfirstn se ser)
  /\ (forall p', path u = Some p' -> p' = nskipn ps ser).
Proof.
  unfold with_query_and_fragment. intros H Hps Hse. pbi H a Ha. destruct a as [ser1 ps1].
  pbi H b Hb. destruct b as [[ser2 qs] fs]. inversion H; subst. clear H.
  apply pqf_shape in Hb. destruct Hb as (X & -> & Hqf).
  assert (Lp : nlen (nfirstn ps ser) = ps) by (apply nlen_nfirstn; exact Hps).
  assert (Ls : nlen (nfirstn se ser) = se) by (apply nlen_nfirstn; exact Hse).
  assert (Hmain : ps1 <= nlen ser1 /\ se <= nlen ser1 /\ nfirstn se ser1 = nfirstn se ser /\ nskipn ps1 ser1 = nskipn ps ser).
  { destruct (ps =? se + 1) eqn:E1.
    - apply N.eqb_eq in E1.
      destruct (starts_with s_ss (nskipn ps ser)).
      + pbi Ha u0 Hu0. inversion Ha; subst ser1 ps1. change (47 :: 46 :: nskipn ps ser) with ([47; 46] ++ nskipn ps ser). rewrite !nlen_app, Lp. change (nlen [47; 46]) with 2. rewrite nlen_nskipn.
        split; [lia|]. split; [lia|]. split.
        * rewrite nfirstn_app_le by lia. apply nfirstn_nfirstn. lia.
        * rewrite nskipn_app_ge by lia. rewrite Lp. replace (ps + 2 - ps) with (nlen [47; 46]) by (change (nlen [47; 46]) with 2; lia).
          apply nskipn_app_exact.
      + pbi Ha u0 Hu0. inversion Ha; subst ser1 ps1. auto.
    - destruct ((ps =? se + 3) && list_eqb (nfirstn (ps - se) (nskipn se ser)) [58; 47; 46]) eqn:E2.
      + apply andb_true_iff in E2. destruct E2 as [E2 _]. apply N.eqb_eq in E2.
        pbi Ha u0 Hu0.
        destruct (nnth ser (ps + 1)) as [b|].
        * rewrite match47_if in Ha. destruct (b =? 47).
          -- pbi Ha u1 Hu1. inversion Ha; subst ser1 ps1. auto.
          -- pbi Ha u1 Hu1. inversion Ha; subst ser1 ps1. change (58 :: nskipn ps ser) with ([58] ++ nskipn ps ser). rewrite !nlen_app, Ls. change (nlen [58]) with 1. rewrite nlen_nskipn.
             split; [lia|]. split; [lia|]. split.
             ++ rewrite nfirstn_app_le by lia. apply nfirstn_nfirstn. lia.
             ++ rewrite app_assoc. replace (ps - 2) with (nlen (nfirstn se ser ++ [58])) by (rewrite nlen_app, Ls; change (nlen [58]) with 1; lia).
                apply nskipn_app_exact.
        * pbi Ha u1 Hu1. inversion Ha; subst ser1 ps1. change (58 :: nskipn ps ser) with ([58] ++ nskipn ps ser). rewrite !nlen_app, Ls. change (nlen [58]) with 1. rewrite nlen_nskipn.
          split; [lia|]. split; [lia|]. split.
          -- rewrite nfirstn_app_le by lia. apply nfirstn_nfirstn. lia.
          -- rewrite app_assoc. replace (ps - 2) with (nlen (nfirstn se ser ++ [58])) by (rewrite nlen_app, Ls; change (nlen [58]) with 1; lia).
             apply nskipn_app_exact.
      + inversion Ha; subst ser1 ps1. auto. }
  destruct Hmain as (H1 & H2 & H3 & H4). split.
  - intros s Hs. apply scheme_of_parts in Hs; [|exact H2]. congruence.
  - intros p' Hp. apply path_of_parts in Hp; [|exact H1|exact Hqf]. congruence.
Qed.

(* ---------- the states after the scheme ---------- *)
(* path states done: the record built by with_query_and_fragment *)
Lemma tail_shape ovr ctx st se ue hs he hi port ps pre k ser rem u :
  with_query_and_fragment ovr ctx st se ue hs he hi port ps ser rem = POk u ->
  nlen pre = ps -> CInv st ps pre k ser -> se <= ps -> st_is_file st = false ->
  (forall s, scheme u = Some s -> s = nfirstn se pre)
  /\ (forall p', path u = Some p' -> (count58 p' <= k)%nat).
Proof.
  intros H Hpre I Hse Hf. pose proof (cinv_len st ps pre Hpre k ser I) as L.
  destruct (wqf_shape _ _ _ _ _ _ _ _ _ _ _ _ _ H L ltac:(lia)) as [H1 H2]. destruct I as [I1 I2]. split.
  - intros s Hs. rewrite (H1 s Hs). rewrite <- I1. symmetry. apply nfirstn_nfirstn. exact Hse.
  - intros p' Hp. rewrite (H2 p' Hp). apply I2. exact Hf.
Qed.

Lemma cinv_prefix st ps pre k ser se : nlen pre = ps -> CInv st ps pre k ser -> se <= ps -> nfirstn se ser = nfirstn se pre.
Proof. intros Hpre [I1 _] Hse. rewrite <- I1. symmetry. apply nfirstn_nfirstn. exact Hse. Qed.

Lemma after_double_slash_shape ovr ctx st se ser l u :
  after_double_slash dbg hp ho hd ovr ctx st se ser l = POk u -> st_is_file st = false -> se <= nlen ser ->
  (forall s, scheme u = Some s -> s = nfirstn se ser)
  /\ (forall p', path u = Some p' -> (count58 p' <= count58 l)%nat).
Proof.
  unfold after_double_slash. cbv zeta. intros H Hf Hse.
  pbi H a Ha. destruct a as [[ser1 ue] remaining]. apply parse_userinfo_shape in Ha. destruct Ha as [[X1 ->] Hr1].
  pbi H hs Hhs. pbi H b Hb. destruct b as [[[[ser2 he] hi] port] remaining2].
  apply parse_host_and_port_shape in Hb. destruct Hb as [[X2 ->] Hr2].
  destruct (hi_eqb hi HI_None && negb (nlen (ser ++ [47; 47]) =? nlen ((ser ++ [47; 47]) ++ X1))); [discriminate|].
  pbi H ps Hps. apply to_u32_val in Hps. subst ps.
  pbi H c Hc. destruct c as [[ser3 hh3] remaining3].
  apply parse_path_start_cinv in Hc. destruct Hc as (k' & I' & Hk').
  set (ser2 := ((ser ++ [47; 47]) ++ X1) ++ X2) in *.
  assert (Hle : se <= nlen ser2) by (unfold ser2; rewrite !nlen_app; lia).
  destruct (tail_shape _ _ _ _ _ _ _ _ _ _ ser2 k' _ _ _ H eq_refl I' Hle Hf) as [H1 H2]. split.
  - intros s Hs. rewrite (H1 s Hs). unfold ser2. rewrite <- !app_assoc. apply nfirstn_app_le. exact Hse.
  - intros p' Hp. specialize (H2 p' Hp). lia.
Qed.

Lemma parse_non_special_shape ovr ctx st se ser l u :
  parse_non_special dbg hp ho hd ovr ctx st se ser l = POk u -> st_is_file st = false -> se <= nlen ser ->
  (forall s, scheme u = Some s -> s = nfirstn se ser)
  /\ (forall p', path u = Some p' -> (count58 p' <= count58 l)%nat).
Proof.
  unfold parse_non_special. intros H Hf Hse.
  destruct (inp_split_prefix_str s_ss l) as [rem|] eqn:E.
  - apply inp_split_prefix_str_count58 in E.
    destruct (after_double_slash_shape _ _ _ _ _ _ _ H Hf Hse) as [H1 H2]. split; [exact H1|].
    intros p' Hp. specialize (H2 p' Hp). lia.
  - pbi H ps Hps. apply to_u32_val in Hps. subst ps. pbi H a Ha. destruct a as [ser1 remaining].
    assert (exists k', CInv st (nlen ser) ser k' ser1 /\ (k' + count58 remaining <= count58 l)%nat) as (k' & I' & Hk').
    { destruct (inp_split_prefix_char 47 l) as [rem|] eqn:E2.
      - apply inp_split_prefix_char_count58 in E2. pbi Ha b Hb. destruct b as [[s0 hh0] r0]. inversion Ha; subst.
        assert (CInv st (nlen ser) ser 0 (ser ++ [47])) as I1 by (apply cinv_app0; [reflexivity|apply cinv_init|reflexivity]).
        destruct (parse_path_cinv _ _ _ _ _ _ _ _ _ _ _ eq_refl Hb I1) as (k' & I' & Hk').
        exists k'. split; [exact I'|lia].
      - inversion Ha as [Hcbb]. apply parse_cbb_shape in Hcbb. destruct Hcbb as (X & -> & HX).
        exists (0 + count58 X)%nat. split; [apply cinv_app; [reflexivity|apply cinv_init]|lia]. }
    destruct (tail_shape _ _ _ _ _ _ _ _ _ _ ser k' _ _ _ H eq_refl I' Hse Hf) as [H1 H2]. split; [exact H1|].
    intros p' Hp. specialize (H2 p' Hp). lia.
Qed.

(* ---------- file URLs (no base): only the scheme slice is needed ---------- *)
Lemma parse_file_host_app ser l ser1 flag hi rem :
  parse_file_host hp hd ser l = POk (ser1, flag, hi, rem) -> exists X, ser1 = ser ++ X.
Proof.
  unfold parse_file_host. destruct (file_host l) as [h rem0]. destruct h as [|c t].
  - intros H. inversion H; subst. exists []. now rewrite app_nil_r.
  - intros H. pbi H hst Hh. destruct hst as [d|a|pc].
    + destruct (list_eqb d s_localhost); inversion H; subst; [exists []; now rewrite app_nil_r|eexists; reflexivity].
    + inversion H; subst. eexists; reflexivity.
    + inversion H; subst. eexists; reflexivity.
Qed.

Lemma file_scheme_of s W hs he hi qs fs sch :
  nfirstn 7 s = s_file_css -> scheme (file_url (s ++ W) hs he hi qs fs) = Some sch -> sch = s_file.
Proof.
  intros H7. unfold scheme, u_slice_to, slice_to_o, file_url. cbn [ser scheme_end].
  assert (7 <= nlen s) as L.
  { assert (nlen (nfirstn 7 s) = 7) as E by (rewrite H7; reflexivity). pose proof (nlen_nfirstn_le 7 s).
    unfold nlen, nfirstn in *. rewrite firstn_length in E. lia. }
  destruct (4 <=? nlen (s ++ W)); intros H; inversion H.
  rewrite nfirstn_app_le by lia. rewrite <- (nfirstn_nfirstn 4 7 s) by lia. rewrite H7. reflexivity.
Qed.

Lemma cinv_file_css k s2 : CInv STFile 7 s_file_css k s2 -> nfirstn 7 s2 = s_file_css.
Proof. intros [H _]. exact H. Qed.

Lemma parse_file_scheme ovr ctx st l u :
  parse_file dbg hp hd ovr ctx st None l = POk u -> forall s, scheme u = Some s -> s = s_file.
Proof.
  unfold parse_file. destruct (inp_split_first l) as [fc af]. cbv zeta.
  assert (CInv STFile 7 s_file_css 0 s_file_css) as I0 by (exact (cinv_init STFile s_file_css)).
  assert (CInv STFile 7 s_file_css 0 (s_file_css ++ [47])) as I1 by (apply cinv_app0; [reflexivity|exact I0|reflexivity]).
  destruct (match fc with Some c => is_slash_or_bslash c | None => false end).
  - destruct (inp_split_first af) as [nc an].
    destruct (match nc with Some c => is_slash_or_bslash c | None => false end).
    + intros H. pbi H a Ha. destruct a as [[[ser1 flag] hi] remaining]. apply parse_file_host_app in Ha. destruct Ha as [X ->].
      pbi H he Hhe. apply to_u32_val in Hhe. subst he. pbi H b Hb. destruct b as [[ser2 hh] remaining2].
      assert (nfirstn (nlen (s_file_css ++ X)) ser2 = s_file_css ++ X) as Hpre.
      { destruct flag.
        - apply parse_path_start_cinv in Hb. destruct Hb as (k' & [I' _] & _). exact I'.
        - assert (CInv STFile (nlen (s_file_css ++ X)) (s_file_css ++ X) 0 ((s_file_css ++ X) ++ [47])) as I2
            by (apply cinv_app0; [reflexivity|apply cinv_init|reflexivity]).
          destruct (parse_path_cinv _ _ _ _ _ _ _ _ _ _ _ eq_refl Hb I2) as (k' & [I' _] & _). exact I'. }
      assert (nfirstn 7 ser2 = s_file_css) as H7.
      { rewrite <- (nfirstn_nfirstn 7 (nlen (s_file_css ++ X)) ser2) by (rewrite nlen_app; change (nlen s_file_css) with 7; lia).
        rewrite Hpre. change 7 with (nlen s_file_css). apply nfirstn_app_exact. }
      destruct (negb hh).
      * pbi H c Hc. destruct c as [[ser4 qs] fs]. apply pqf_shape in Hc. destruct Hc as (W & -> & _).
        inversion H; subst. intros s Hs. eapply file_scheme_of; [|exact Hs].
        rewrite H7. rewrite nfirstn_app_le by (change (nlen s_file_css) with 7; lia). reflexivity.
      * pbi H c Hc. destruct c as [[ser4 qs] fs]. apply pqf_shape in Hc. destruct Hc as (W & -> & _).
        inversion H; subst. intros s Hs. eapply file_scheme_of; [exact H7|exact Hs].
    + intros H.
      assert (exists a, parse_path dbg ctx STFile false 7 s_file_css l = POk a
                /\ (let '(ser2, _, remaining) := a in
                    ' (ser3, qs, fs) <~ parse_query_and_fragment ovr ctx st 4 ser2 remaining ;;
                    POk (file_url ser3 7 7 HI_None qs fs)) = POk u) as (a & Ha & H').
      { destruct (negb (starts_with_wdl_segment af)); cbv beta iota zeta in H; pbi H a Ha; exists a; split; assumption. }
      clear H. destruct a as [[ser2 hh] remaining].
      destruct (parse_path_cinv ctx STFile false 7 s_file_css _ _ _ _ _ _ eq_refl Ha I0) as (k' & I' & _).
      pbi H' c Hc. destruct c as [[ser3 qs] fs]. apply pqf_shape in Hc. destruct Hc as (W & -> & _).
      inversion H'; subst. intros s Hs. eapply file_scheme_of; [exact (cinv_file_css _ _ I')|exact Hs].
  - intros H. pbi H a Ha. destruct a as [[ser2 hh] remaining].
    destruct (parse_path_cinv ctx STFile false 7 s_file_css _ _ _ _ _ _ eq_refl Ha I1) as (k' & I' & _).
    pbi H c Hc. destruct c as [[ser3 qs] fs]. apply pqf_shape in Hc. destruct Hc as (W & -> & _).
    inversion H; subst. intros s Hs. eapply file_scheme_of; [exact (cinv_file_css _ _ I')|exact Hs].
Qed.

(* ---------- Url::parse without a base ---------- *)
Lemma scheme_type_file s : scheme_type_of s = STFile -> s = s_file.
Proof.
  unfold scheme_type_of.
  destruct (list_eqb s s_http || list_eqb s s_https || list_eqb s s_ws || list_eqb s s_wss || list_eqb s s_ftp); [discriminate|].
  destruct (list_eqb s s_file) eqn:E; [|discriminate]. intros _. now apply list_eqb_spec.
Qed.

Lemma parse_with_scheme_shape ovr sch l u :
  parse_with_scheme dbg hp ho hd ovr None sch l = POk u ->
  (forall s, scheme u = Some s -> s = sch)
  /\ (sch <> s_file -> forall p', path u = Some p' -> (count58 p' <= count58 l)%nat).
Proof.
  unfold parse_with_scheme. intros H. pbi H se Hse. apply to_u32_val in Hse. subst se. cbv zeta in H.
  assert (Hpre : nfirstn (nlen sch) (sch ++ [58]) = sch) by apply nfirstn_app_exact.
  assert (Hle : nlen sch <= nlen (sch ++ [58])) by (rewrite nlen_app; lia).
  destruct (scheme_type_of sch) eqn:Est.
  - apply scheme_type_file in Est. subst sch. split; [|intros Hne; contradiction].
    eapply parse_file_scheme. exact H.
  - destruct (inp_count_matching is_slash_or_bslash l) as [sl rem] eqn:E. apply inp_count_matching_count58 in E.
    destruct (after_double_slash_shape _ _ _ _ _ _ _ H eq_refl Hle) as [H1 H2]. rewrite Hpre in H1. split; [exact H1|].
    intros _ p' Hp. specialize (H2 p' Hp). lia.
  - destruct (parse_non_special_shape _ _ _ _ _ _ _ H eq_refl Hle) as [H1 H2]. rewrite Hpre in H1. split; [exact H1|].
    intros _ p' Hp. exact (H2 p' Hp).
Qed.

(* Url::parse(text): the scheme of the result is the scheme that was read, and - file URLs aside - its path has
   fewer ':' than the text *)
Theorem url_parse_colons p v :
  url_parse dbg hp ho hd p = POk v ->
  forall s, scheme v = Some s -> s <> s_file -> forall p', path v = Some p' -> (count58 p' < count58 p)%nat.
Proof.
  unfold url_parse, parse_url, str_chars. cbv zeta. intros H s Hs Hnf p' Hp.
  pose proof (lossy_count58 p) as H0.
  pose proof (count58_trim is_c0_or_space (utf8_lossy p)) as H1. fold (input_new_trim_c0 (utf8_lossy p)) in H1.
  destruct (parse_scheme CUrlParser (input_new_trim_c0 (utf8_lossy p))) as [[sch remaining]|] eqn:E; [|discriminate].
  apply parse_scheme_count58 in E.
  destruct (parse_with_scheme_shape _ _ _ _ H) as [H2 H3].
  rewrite (H2 s Hs) in Hnf. specialize (H3 Hnf p' Hp). lia.
Qed.

End HostStates.

(* ---------- the premise of C16_fuel_partial, and the fuel theorem ---------- *)
Lemma blob_path_shrinks_holds dbg hp ho hd : blob_path_shrinks dbg hp ho hd.
Proof.
  intros p v p' Hv Hs Hp. eapply url_parse_colons; [exact Hv|exact Hs|discriminate|exact Hp].
Qed.

Theorem fuel_always_enough : forall dbg hp ho hd c u, url_origin dbg hp ho hd c u <> OFuel.
Proof. intros dbg hp ho hd. apply fuel_never_out. apply blob_path_shrinks_holds. Qed.

(* C16_blob without the two fuel premises *)
Lemma blob_origin_total dbg hp ho hd c u p :
  scheme u = Some s_blob -> path u = Some p ->
  match url_parse dbg hp ho hd p with
  | POk v => url_origin dbg hp ho hd c u = url_origin dbg hp ho hd c v
  | PErr _ => url_origin dbg hp ho hd c u = new_opaque c
  | PPanic => url_origin dbg hp ho hd c u = OPanic
  end.
Proof.
  intros Hs Hp. pose proof (blob_origin dbg hp ho hd c u p Hs Hp) as H.
  destruct (url_parse dbg hp ho hd p) as [v|e|]; [|exact H|exact H].
  apply H; apply fuel_always_enough.
Qed.

(* ---------- concrete runs (stand-in host functions of Proofs/C16_Example.v) ---------- *)
From RU Require Import Proofs.C16_Example.

Definition t_blob_https_h_443_x : list N :=
  [98; 108; 111; 98; 58; 104; 116; 116; 112; 115; 58; 47; 47; 104; 58; 52; 52; 51; 47; 120].
Definition t_file_c_bar : list N := [102; 105; 108; 101; 58; 47; 67; 124; 47].      (* file:/C|/ *)
Definition t_path_c_colon : list N := [47; 67; 58; 47].                               (* /C:/ *)

(* the premises of url_parse_colons are met: blob:blob:https://h:443/x (4 ':') parses to a blob URL whose
   path blob:https://h:443/x has 3 *)
Lemma colons_example :
  exists v, toy_parse t_blob_blob_https_h_443_x = POk v /\ scheme v = Some s_blob
            /\ path v = Some t_blob_https_h_443_x
            /\ count58 t_blob_https_h_443_x = 3%nat /\ count58 t_blob_blob_https_h_443_x = 4%nat.
Proof. eexists. split; [vm_compute; reflexivity|]. vm_compute. repeat split. Qed.

(* file URLs have to be excluded: the drive-letter quirk writes a ':' that was not in the input -
   file:/C|/ (one ':') has the path /C:/ (one ':') *)
Lemma colons_file_witness :
  exists v, toy_parse t_file_c_bar = POk v /\ scheme v = Some s_file /\ path v = Some t_path_c_colon
            /\ ~ (count58 t_path_c_colon < count58 t_file_c_bar)%nat.
Proof. eexists. split; [vm_compute; reflexivity|]. vm_compute. repeat split. lia. Qed.
