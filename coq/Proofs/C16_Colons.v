(* Proofs/C16_Colons.v - the parser fact on which the fuel of the blob recursion rests:
   for Url::parse without a base (the parser model, any Host::parse / Host::parse_opaque / Display for
   Host), the path of a result whose scheme is not "file" has no more ':' than the input that remained
   after the scheme, which has fewer ':' than the input.  Reasons, state by state:
     - utf8 decoding (chars()) never makes a ':' out of other bytes;
     - percent-encoding writes '%' and hex digits for what it encodes and copies the rest;
     - the path states only append (encoded input, '/'), or cut the serialization at a position that is
       not in front of the path (dot segments); only the drive-letter quirk of file URLs writes a ':'
       that was not in the input ("file:///C|/" -> "/C:/") - file URLs are excluded;
     - the "/." marker is put in FRONT of the path (path_start moves behind it);
     - the text written for the host (arbitrary here) is in front of the path.
   Also: the scheme slice of such a parse result is the parsed scheme (for every scheme type). *)
From RU Require Import Base.Prelude Base.Utf8 Model.AsciiSet Gen.Tables Model.PercentEncoding
  Model.HostT Model.UrlRecord Model.Parser Model.Origin Proofs.ListN Proofs.C06_List
  Proofs.C16_Conc Proofs.C16_Origin.

(* ---------- monad plumbing ---------- *)
Lemma pbind_inv {A B} (x : pres A) (f : A -> pres B) b :
  pbind x f = POk b -> exists a, x = POk a /\ f a = POk b.
Proof. destruct x; cbn [pbind]; intros H; [eauto | discriminate | discriminate]. Qed.
Ltac pbi H a Ha := apply pbind_inv in H; destruct H as (a & Ha & H).

Lemma to_u32_val n m : to_u32 n = POk m -> m = n.
Proof. unfold to_u32. destruct (n <=? U32_MAX_P); intros H; [inversion H; reflexivity | discriminate]. Qed.

Lemma match47_if {A} (c : N) (a b : A) : (match c with 47 => a | _ => b end) = if c =? 47 then a else b.
Proof. destruct c as [|p]; [reflexivity|]. do 6 (destruct p as [p|p|]; try reflexivity). Qed.

(* ---------- count58 ---------- *)
Lemma count58_app a b : count58 (a ++ b) = (count58 a + count58 b)%nat.
Proof. induction a as [|x a IH]; cbn [app count58]; [reflexivity|]. rewrite IH. lia. Qed.

Lemma count58_rev l : count58 (rev l) = count58 l.
Proof. induction l as [|x l IH]; cbn [rev count58]; [reflexivity|]. rewrite count58_app, IH. cbn [count58]. lia. Qed.

Lemma count58_nfirstn n l : (count58 (nfirstn n l) <= count58 l)%nat.
Proof.
  unfold nfirstn. generalize (N.to_nat n) as k. intros k. revert l.
  induction k as [|k IH]; intros [|x r]; cbn [firstn count58]; try lia.
  specialize (IH r). destruct (x =? 58); lia.
Qed.
Lemma count58_nskipn n l : (count58 (nskipn n l) <= count58 l)%nat.
Proof.
  unfold nskipn. generalize (N.to_nat n) as k. intros k. revert l.
  induction k as [|k IH]; intros [|x r]; cbn [skipn count58]; try lia.
  specialize (IH r). destruct (x =? 58); lia.
Qed.

Lemma count58_drop_while f l : (count58 (drop_while f l) <= count58 l)%nat.
Proof.
  induction l as [|c r IH]; cbn [drop_while]; [lia|]. destruct (f c); [|lia].
  cbn [count58]. lia.
Qed.

Lemma count58_trim f l : (count58 (trim_matches f l) <= count58 l)%nat.
Proof.
  unfold trim_matches. rewrite count58_rev.
  etransitivity; [apply count58_drop_while|]. rewrite count58_rev. apply count58_drop_while.
Qed.

Lemma count58_cons_ne x l : x <> 58 -> count58 (x :: l) = count58 l.
Proof. intros H. cbn [count58]. replace (x =? 58) with false by lia. reflexivity. Qed.

(* ---------- chars() of a byte string ---------- *)
Lemma lossy_count58_len n : forall bs, (length bs <= n)%nat -> (count58 (utf8_lossy bs) <= count58 bs)%nat.
Proof.
  unfold utf8_lossy. induction n as [|n IH]; intros bs Hn.
  - destruct bs; [cbn; lia | cbn [length] in Hn; lia].
  - destruct bs as [|b r]; [vm_compute; lia|]. cbn [length] in Hn.
    assert (H0 := IH r ltac:(lia)).
    cbn [utf8_scan]. destruct (b <? 128) eqn:E1.
    { cbn [map count58]. lia. }
    rewrite (count58_cons_ne b r) by lia.
    destruct ((194 <=? b) && (b <=? 223)) eqn:E2.
    { destruct r as [|c1 r1]; [vm_compute; lia|]. cbn [length] in Hn. assert (H1 := IH r1 ltac:(lia)).
      unfold is_cont. destruct ((128 <=? c1) && (c1 <=? 191)) eqn:Ec1.
      - rewrite (count58_cons_ne c1 r1) by lia. cbn [map]. rewrite count58_cons_ne by lia. exact H1.
      - cbn [map]. rewrite (count58_cons_ne REPLACEMENT) by (unfold REPLACEMENT; lia). exact H0. }
    destruct ((224 <=? b) && (b <=? 239)) eqn:E3.
    { destruct r as [|c1 r1]; [vm_compute; lia|]. cbn [length] in Hn. assert (H1 := IH r1 ltac:(lia)).
      destruct (ok3 b c1) eqn:Eo.
      - assert (Hc1 : 128 <= c1) by (unfold ok3, is_cont in Eo; lia).
        rewrite (count58_cons_ne c1 r1) by lia.
        destruct r1 as [|c2 r2]; [vm_compute; lia|]. cbn [length] in Hn. assert (H2 := IH r2 ltac:(lia)).
        unfold is_cont. destruct ((128 <=? c2) && (c2 <=? 191)) eqn:Ec2.
        + rewrite (count58_cons_ne c2 r2) by lia. cbn [map]. rewrite count58_cons_ne; [exact H2|].
          unfold ok3, is_cont in Eo. lia.
        + cbn [map]. rewrite (count58_cons_ne REPLACEMENT) by (unfold REPLACEMENT; lia). exact H1.
      - cbn [map]. rewrite (count58_cons_ne REPLACEMENT) by (unfold REPLACEMENT; lia). exact H0. }
    destruct ((240 <=? b) && (b <=? 244)) eqn:E4.
    { destruct r as [|c1 r1]; [vm_compute; lia|]. cbn [length] in Hn. assert (H1 := IH r1 ltac:(lia)).
      destruct (ok4 b c1) eqn:Eo.
      - assert (Hc1 : 128 <= c1) by (unfold ok4, is_cont in Eo; lia).
        rewrite (count58_cons_ne c1 r1) by lia.
        destruct r1 as [|c2 r2]; [vm_compute; lia|]. cbn [length] in Hn. assert (H2 := IH r2 ltac:(lia)).
        unfold is_cont. destruct ((128 <=? c2) && (c2 <=? 191)) eqn:Ec2.
        + rewrite (count58_cons_ne c2 r2) by lia.
          destruct r2 as [|c3 r3]; [vm_compute; lia|]. cbn [length] in Hn. assert (H3 := IH r3 ltac:(lia)).
          destruct ((128 <=? c3) && (c3 <=? 191)) eqn:Ec3.
          * rewrite (count58_cons_ne c3 r3) by lia. cbn [map]. rewrite count58_cons_ne; [exact H3|].
            unfold ok4, is_cont in Eo. lia.
          * cbn [map]. rewrite (count58_cons_ne REPLACEMENT) by (unfold REPLACEMENT; lia). exact H2.
        + cbn [map]. rewrite (count58_cons_ne REPLACEMENT) by (unfold REPLACEMENT; lia). exact H1.
      - cbn [map]. rewrite (count58_cons_ne REPLACEMENT) by (unfold REPLACEMENT; lia). exact H0. }
    cbn [map]. rewrite (count58_cons_ne REPLACEMENT) by (unfold REPLACEMENT; lia). exact H0.
Qed.

Lemma lossy_count58 bs : (count58 (utf8_lossy bs) <= count58 bs)%nat.
Proof. apply (lossy_count58_len (length bs)). lia. Qed.

(* ---------- percent-encoding ---------- *)
Lemma enc_table_no58 : count58 T_ENC_TABLE = O.
Proof. vm_compute. reflexivity. Qed.

Lemma enc_byte_no58 b : count58 (enc_byte b) = O.
Proof.
  unfold enc_byte. pose proof (count58_nfirstn T_ENC_WIDTH (nskipn (b * T_ENC_STRIDE) T_ENC_TABLE)) as H1.
  pose proof (count58_nskipn (b * T_ENC_STRIDE) T_ENC_TABLE) as H2. pose proof enc_table_no58 as H3.
  unfold nfirstn, nskipn in H1, H2. lia.
Qed.

Lemma span_keep_app S bs : forall u rest, span_keep S bs = (u, rest) -> bs = u ++ rest.
Proof.
  induction bs as [|b r IH]; intros u rest H; cbn [span_keep] in H.
  - inversion H. reflexivity.
  - destruct (should_encode S b); [inversion H; reflexivity|].
    destruct (span_keep S r) as [u' rest'] eqn:E. inversion H; subst. cbn [app]. f_equal. now apply IH.
Qed.

Lemma pe_next_count58 S bs c rest : pe_next S bs = Some (c, rest) -> (count58 c + count58 rest <= count58 bs)%nat.
Proof.
  unfold pe_next. destruct bs as [|b r]; [discriminate|].
  destruct (should_encode S b).
  - intros H. inversion H; subst. rewrite enc_byte_no58. cbn [count58]. lia.
  - destruct (span_keep S r) as [u rest'] eqn:E. intros H. inversion H; subst.
    apply span_keep_app in E. subst r. cbn [count58]. rewrite count58_app. lia.
Qed.

Lemma pe_chunks_count58 S f : forall bs, (count58 (concat (pe_chunks_f f S bs)) <= count58 bs)%nat.
Proof.
  induction f as [|f IH]; intros bs; cbn [pe_chunks_f]; [cbn; lia|].
  destruct (pe_next S bs) as [[c rest]|] eqn:E; [|cbn; lia].
  cbn [concat]. rewrite count58_app. pose proof (pe_next_count58 S bs c rest E). specialize (IH rest). lia.
Qed.

Lemma pe_display_count58 S bs : (count58 (pe_display S bs) <= count58 bs)%nat.
Proof. apply pe_chunks_count58. Qed.

Lemma utf8_encode1_count58 c : count58 (utf8_encode1 c) = count58 [c].
Proof.
  unfold utf8_encode1.
  destruct (c <? 128) eqn:E1; [reflexivity|].
  rewrite (count58_cons_ne c []) by lia.
  destruct (c <? 2048); [rewrite !count58_cons_ne by lia; reflexivity|].
  destruct (c <? 65536); rewrite !count58_cons_ne by lia; reflexivity.
Qed.

Lemma utf8_encode_count58 t : count58 (utf8_encode t) = count58 t.
Proof.
  unfold utf8_encode. induction t as [|c t IH]; [reflexivity|].
  cbn [flat_map]. rewrite count58_app, IH, utf8_encode1_count58. cbn [count58]. lia.
Qed.

Lemma push_encoded_shape S ser text :
  exists X, push_encoded S ser text = ser ++ X /\ (count58 X <= count58 text)%nat.
Proof.
  unfold push_encoded. eexists. split; [reflexivity|].
  etransitivity; [apply pe_display_count58|]. rewrite utf8_encode_count58. lia.
Qed.

(* ---------- rfind stays inside the list ---------- *)
Lemma rfind_aux_in b l : forall i0 last j, rfind_aux b l i0 last = Some j ->
  last = Some j \/ (i0 <= j /\ j < i0 + nlen l).
Proof.
  induction l as [|x r IH]; intros i0 last j H; cbn [rfind_aux] in H.
  - left. exact H.
  - apply IH in H. rewrite nlen_cons. destruct H as [H|H]; [|right; lia].
    destruct (x =? b); [inversion H; subst; right; lia | left; exact H].
Qed.
Lemma rfind_in b l j : rfind b l = Some j -> j < nlen l.
Proof. intros H. apply rfind_aux_in in H. destruct H as [H|H]; [discriminate | lia]. Qed.

(* ---------- the invariant of the path states ---------- *)
Section PathColons.
Variables (dbg : bool) (st : scheme_type) (ps : N) (pre : list N).
Hypothesis Hpre : nlen pre = ps.

(* the first ps bytes are `pre`; unless the scheme is file, at most k ':' from ps on *)
Definition CInv (k : nat) (ser : list N) : Prop :=
  nfirstn ps ser = pre /\ (st_is_file st = false -> (count58 (nskipn ps ser) <= k)%nat).

Lemma cinv_len k ser : CInv k ser -> ps <= nlen ser.
Proof.
  intros [H _]. assert (nlen (nfirstn ps ser) = ps) as E by (rewrite H; exact Hpre).
  unfold nlen, nfirstn in *. rewrite firstn_length in E. lia.
Qed.

Lemma cinv_mono k k' ser : CInv k ser -> (k <= k')%nat -> CInv k' ser.
Proof. intros [H1 H2] Hk. split; [exact H1|]. intros Hf. specialize (H2 Hf). lia. Qed.

Lemma cinv_app k ser x : CInv k ser -> CInv (k + count58 x) (ser ++ x).
Proof.
  intros H. pose proof (cinv_len k ser H) as L. destruct H as [H1 H2]. split.
  - rewrite nfirstn_app_le by exact L. exact H1.
  - intros Hf. specialize (H2 Hf). rewrite nskipn_app_le by lia. rewrite count58_app. lia.
Qed.

Lemma cinv_app0 k ser x : CInv k ser -> count58 x = O -> CInv k (ser ++ x).
Proof. intros H Hx. eapply cinv_mono; [apply cinv_app; exact H|lia]. Qed.

Lemma cinv_trunc k ser n : CInv k ser -> ps <= n -> CInv k (nfirstn n ser).
Proof.
  intros [H1 H2] Hn. split.
  - rewrite nfirstn_nfirstn by exact Hn. exact H1.
  - intros Hf. specialize (H2 Hf). replace n with (ps + (n - ps)) by lia. rewrite nskipn_nfirstn_comm.
    pose proof (count58_nfirstn (n - ps) (nskipn ps ser)). lia.
Qed.

Lemma cinv_push_pending ctx k ser pending : CInv k ser ->
  CInv (k + count58 pending) (push_pending ctx st ser pending).
Proof.
  intros H. unfold push_pending. destruct pending as [|c r]; [eapply cinv_mono; [exact H|lia]|].
  destruct (push_encoded_shape (path_set ctx st) ser (rev (c :: r))) as (X & -> & HX).
  rewrite count58_rev in HX. eapply cinv_mono; [apply cinv_app; exact H|lia].
Qed.

Lemma cinv_pop_path k ser s' : pop_path st ps ser = POk s' -> CInv k ser -> CInv k s'.
Proof.
  unfold pop_path. intros H I. destruct (ps <? nlen ser); [|inversion H; subst; exact I].
  destruct (rfind 47 (nskipn ps ser)) as [sp|]; [|discriminate].
  destruct (st_is_file st && is_normalized_wdl (nskipn (ps + sp + 1) ser)); inversion H; subst; [exact I|].
  unfold truncate. apply cinv_trunc; [exact I | lia].
Qed.

Lemma cinv_shorten_path k ser s' : shorten_path st ps ser = POk s' -> CInv k ser -> CInv k s'.
Proof.
  unfold shorten_path. intros H I. destruct (nlen ser =? ps); [inversion H; subst; exact I|].
  destruct (st_is_file st && is_normalized_wdl (nskipn ps ser)); [inversion H; subst; exact I|].
  eapply cinv_pop_path; eassumption.
Qed.

Lemma last_slash_lb s1 : last_slash_can_be_removed s1 ps = true -> ps + 1 <= nlen s1 - 1.
Proof.
  unfold last_slash_can_be_removed. destruct (rfind 47 (nfirstn (nlen s1 - 1) s1)) as [p|] eqn:E; [|discriminate].
  intros H. apply andb_true_iff in H. destruct H as [H _]. apply rfind_in in E.
  pose proof (nlen_nfirstn_le (nlen s1 - 1) s1). lia.
Qed.

Lemma cinv_finish_segment k ser seg_start ews hh s' hh' :
  finish_segment dbg st ps ser seg_start ews hh = POk (s', hh') -> CInv k ser -> ps <= seg_start -> CInv k s'.
Proof.
  unfold finish_segment. intros H I Hs.
  destruct (slice_o ser seg_start (if ews then nlen ser - 1 else nlen ser)) as [seg|]; cbn [of_option pbind] in H; [|discriminate].
  destruct (is_double_dot seg).
  - match type of H with pbind ?c _ = _ => destruct c as [[]| |]; cbn [pbind] in H; try discriminate end.
    set (s1 := truncate ser seg_start) in *.
    assert (CInv k s1) as I1 by (apply cinv_trunc; assumption).
    set (s2 := if ends_with_byte 47 s1 && last_slash_can_be_removed s1 ps then nfirstn (nlen s1 - 1) s1 else s1) in *.
    assert (CInv k s2) as I2.
    { subst s2. destruct (ends_with_byte 47 s1 && last_slash_can_be_removed s1 ps) eqn:E; [|exact I1].
      apply andb_true_iff in E. destruct E as [_ E]. apply last_slash_lb in E.
      apply cinv_trunc; [exact I1 | lia]. }
    destruct (shorten_path st ps s2) as [s3| |] eqn:E3; cbn [pbind] in H; try discriminate.
    pose proof (cinv_shorten_path _ _ _ E3 I2) as I3.
    inversion H; subst. destruct (ews && negb (ends_with_byte 47 s3)); [|exact I3].
    apply cinv_app0; [exact I3 | reflexivity].
  - destruct (is_single_dot seg).
    + inversion H; subst. assert (CInv k (truncate ser seg_start)) as I1 by (apply cinv_trunc; assumption).
      destruct (ends_with_byte 47 (truncate ser seg_start)); [exact I1|]. apply cinv_app0; [exact I1 | reflexivity].
    + destruct (st_is_file st) eqn:Ef; cbn [andb] in H; [|inversion H; subst; exact I].
      destruct ((seg_start =? ps + 1) && is_wdl seg); [|inversion H; subst; exact I].
      (* the drive-letter quirk: file URLs only, nothing is claimed about ':' there *)
      assert (forall x, CInv k x -> forall y, CInv k (x ++ y)) as Happ.
      { intros x Ix y. pose proof (cinv_app k x y Ix) as [J1 _]. split; [exact J1|]. intros Hf; congruence. }
      destruct seg as [|c r]; inversion H; subst; [exact I|].
      apply Happ. apply cinv_trunc; assumption.
Qed.

Lemma cinv_file_path_fixup k ser : CInv k ser -> CInv k (file_path_fixup st ps ser).
Proof.
  intros I. unfold file_path_fixup. destruct (st_is_file st) eqn:E; [|exact I].
  pose proof (cinv_len k ser I) as L. destruct I as [I1 I2].
  assert (nlen (nfirstn ps ser) = ps) as Lp by (apply nlen_nfirstn; lia).
  split; [|intros Hf; congruence].
  rewrite nfirstn_app_le by lia. rewrite nfirstn_nfirstn by lia. exact I1.
Qed.

(* the loop: the result satisfies the invariant with a count that, together with the ':' of the input that
   was not consumed, is at most what was there, pending and to come *)
Lemma cinv_loop ctx l : forall k ser seg_start pending hh s' hh' rem,
  parse_path_loop dbg ctx st ps l ser seg_start pending hh = POk (s', hh', rem) ->
  CInv k ser -> ps <= seg_start ->
  exists k', CInv k' s' /\ (k' + count58 rem <= k + count58 pending + count58 l)%nat.
Proof.
  induction l as [|c r IH]; intros k ser seg_start pending hh s' hh' rem H I Hs; cbn [parse_path_loop] in H.
  - destruct (finish_segment dbg st ps (push_pending ctx st ser pending) seg_start false hh) as [[s2 h2]| |] eqn:E;
      cbn [pbind] in H; try discriminate.
    inversion H; subst. exists (k + count58 pending)%nat. split; [|cbn [count58]; lia].
    apply cinv_file_path_fixup.
    eapply cinv_finish_segment; [exact E | apply cinv_push_pending; assumption | exact Hs].
  - destruct (is_tnl c) eqn:Et.
    { destruct (IH _ _ _ _ _ _ _ _ H (cinv_push_pending ctx k ser pending I) Hs) as (k' & I' & Hk').
      exists k'. split; [exact I'|]. cbn [count58] in *. lia. }
    destruct (negb (ctx_eqb ctx CPathSegmentSetter) && ((c =? 47) || (c =? 92) && st_is_special st)) eqn:Esl.
    { destruct (finish_segment dbg st ps (push_pending ctx st ser pending ++ [47]) seg_start true hh) as [[s2 h2]| |] eqn:E;
        cbn [pbind] in H; try discriminate.
      assert (CInv (k + count58 pending) s2) as I2.
      { eapply cinv_finish_segment; [exact E | | exact Hs]. apply cinv_app0; [apply cinv_push_pending; assumption | reflexivity]. }
      destruct (IH _ _ _ _ _ _ _ _ H I2 (cinv_len _ _ I2)) as (k' & I' & Hk').
      exists k'. split; [exact I'|]. cbn [count58] in *. lia. }
    destruct (((c =? 63) || (c =? 35)) && ctx_eqb ctx CUrlParser) eqn:Eqh.
    { destruct (finish_segment dbg st ps (push_pending ctx st ser pending) seg_start false hh) as [[s2 h2]| |] eqn:E;
        cbn [pbind] in H; try discriminate.
      inversion H; subst. exists (k + count58 pending)%nat. split; [|lia].
      apply cinv_file_path_fixup.
      eapply cinv_finish_segment; [exact E | apply cinv_push_pending; assumption | exact Hs]. }
    destruct (st_is_file st && (ps <? nlen ser) && is_normalized_wdl (nskipn (ps + 1) ser)).
    { assert (CInv (k + count58 pending) (push_pending ctx st ser pending ++ [47])) as I2
        by (apply cinv_app0; [apply cinv_push_pending; assumption | reflexivity]).
      destruct (IH _ _ _ _ _ _ _ _ H I2 ltac:(lia)) as (k' & I' & Hk').
      exists k'. split; [exact I'|]. cbn [count58] in *. lia. }
    destruct (IH _ _ _ _ _ _ _ _ H I Hs) as (k' & I' & Hk').
    exists k'. split; [exact I'|]. cbn [count58] in *. lia.
Qed.

End PathColons.
