(* Proofs/C01_EqSpHost.v - the host hypotheses of the C01 classes hold for the host functions of the two
   sides as they are:
   * `host_agree` (authority class, Host::parse_opaque + Display against the Standard's host parser with
     isOpaque = true) on EVERY scalar-value string - the '['-led literals included (C09: the model's IPv6
     parser and serializer are the Standard's);
   * `host_agree_sp` (special class, Host::parse + Display against the Standard's host parser with
     isOpaque = false) on every scalar-value string, the IDNA step being the same oracle on both sides
     whose outputs are ASCII outside the deny list (the deny list is an argument of the idna call in
     host.rs; the Standard checks the forbidden domain code points after domain to ASCII). *)
From RU Require Import Base.Prelude Base.Utf8 Base.Utf8Facts Model.AsciiSet Gen.Tables Model.PercentEncoding
  Model.HostT Model.Host Model.UrlRecord Model.Parser Spec.Whatwg Spec.WhatwgHost Spec.WhatwgHostParse
  Proofs.C02_Enc Proofs.C02_Parts Proofs.C09_Host Proofs.C09_Wf Proofs.C09_V4spec Proofs.C09_V6spec Proofs.C09_V6sim
  Proofs.C09_V6total Proofs.C01_EqRun Proofs.C01_EqEnc
  Proofs.C01_EqAuthSpec Proofs.C01_EqAuthModel Proofs.C01_EqAuthHost Proofs.C01_EqSpSpec Proofs.C01_EqSpModel.

(* ================= '['-led literals ================= *)
Lemma literal_agree idna (o : bool) s : Host.starts_with 91 s = true ->
  match literal_result s, spec_host_parser idna o s with
  | Ok h, Some sh => exists a, h = HIpv6 a /\ sh = SIpv6 a /\ wf8 a
  | Err _, None => True
  | _, _ => False
  end.
Proof.
  destruct s as [|c rest]; [discriminate|]. cbn [Host.starts_with]. intros H. apply N.eqb_eq in H. subst c.
  unfold literal_result. cbn [spec_host_parser tl].
  change (ends_with_cp 93 (91 :: rest)) with (Host.ends_with 93 (91 :: rest)).
  destruct (Host.ends_with 93 (91 :: rest)); [|exact I].
  pose proof (ipv6_parse_spec_bytes (removelast rest)) as P.
  destruct (Spec.ipv6_parse (removelast rest)) as [a|]; [|exact I].
  exists a. split; [reflexivity|]. split; [reflexivity|]. exact (parse_ipv6addr_wf _ _ P).
Qed.

Lemma ends_with_byte_snoc' x b c : ends_with_byte b (x ++ [c]) = (c =? b).
Proof. unfold ends_with_byte. rewrite rev_app_distr. reflexivity. Qed.

(* ================= the opaque host parser: every string ================= *)
Theorem host_agree_real_all idna s : usv_list s ->
  host_agree host_parse_opaque host_display (spec_host_parser idna) spec_host_serializer s.
Proof.
  intros Hu. destruct (Host.starts_with 91 s) eqn:Hb; [|exact (host_agree_real idna s Hu Hb)].
  unfold host_agree, host_parsing. rewrite (proj2 (literal_spec idna s Hb)).
  pose proof (literal_agree idna true s Hb) as L.
  destruct (literal_result s) as [h|e]; destruct (spec_host_parser idna true s) as [sh|]; try contradiction; [|exact I].
  destruct L as (a & -> & -> & W). cbn [host_display spec_host_serializer]. rewrite (write_ipv6_spec a W).
  destruct s as [|c r]; [discriminate Hb|].
  repeat split; try reflexivity; intros K; discriminate K.
Qed.

(* ================= Host::parse ================= *)
Lemma hex_val_spec c : hex_val c = if Spec.ascii_hex_digit c then Some (Spec.digit_value c) else None.
Proof.
  unfold hex_val, Spec.ascii_hex_digit, Spec.digit_value, Spec.ascii_digit, is_digit.
  destruct ((48 <=? c) && (c <=? 57)) eqn:E1; [reflexivity|]. cbn [orb].
  destruct ((65 <=? c) && (c <=? 70)) eqn:E2; cbn [orb].
  - replace (c <=? 70) with true by lia. reflexivity.
  - destruct ((97 <=? c) && (c <=? 102)) eqn:E3; [|reflexivity]. replace (c <=? 70) with false by lia. reflexivity.
Qed.

Lemma decode_spec_le n : forall bs, (length bs <= n)%nat -> decode bs = spec_percent_decode bs.
Proof.
  induction n as [|n IH]; intros bs Hl.
  - destruct bs; [reflexivity | cbn [length] in Hl; lia].
  - destruct bs as [|b r]; [reflexivity|]. cbn [length] in Hl. cbn [decode spec_percent_decode].
    assert (decode r = spec_percent_decode r) as Er by (apply IH; lia).
    destruct (b =? 37); [|rewrite Er; reflexivity].
    destruct r as [|h [|l r']]; try (rewrite Er; reflexivity).
    unfold after_percent. rewrite !hex_val_spec.
    destruct (Spec.ascii_hex_digit h); cbn [andb]; [|rewrite Er; reflexivity].
    destruct (Spec.ascii_hex_digit l); [|rewrite Er; reflexivity].
    f_equal. apply IH. cbn [length] in Hl. lia.
Qed.

Lemma decode_spec bs : decode bs = spec_percent_decode bs.
Proof. apply (decode_spec_le (length bs)). lia. Qed.

Lemma dec_u8_dec_sweep : all_below 256 (fun x => list_eqb (dec_u8 x) (dec x)) = true.
Proof. vm_compute. reflexivity. Qed.

Lemma ipv4_display_spec a : a < 4294967296 -> ipv4_display a = spec_ipv4_serialize a.
Proof.
  intros H. unfold ipv4_display, spec_ipv4_serialize.
  assert (forall x, x < 256 -> dec_u8 x = dec x) as D.
  { intros x Hx. apply list_eqb_spec. exact (all_below_spec 256 _ dec_u8_dec_sweep x Hx). }
  rewrite (D (a / 16777216)) by (apply N.div_lt_upper_bound; lia).
  rewrite (D ((a / 65536) mod 256)) by (apply N.mod_lt; lia).
  rewrite (D ((a / 256) mod 256)) by (apply N.mod_lt; lia).
  rewrite (D (a mod 256)) by (apply N.mod_lt; lia). reflexivity.
Qed.

Lemma not_in_existsb (f : N -> bool) d : Forall (fun c => f c = false) d -> existsb f d = false.
Proof. induction 1 as [|c r Hc _ IH]; [reflexivity|]. cbn [existsb]. rewrite Hc, IH. reflexivity. Qed.

Lemma forall_head (P : N -> Prop) d c : Forall P d -> starts_with_cp c d = true -> P c.
Proof. destruct d as [|x r]; [discriminate|]. cbn [starts_with_cp]. intros H E. apply N.eqb_eq in E. subst x. inversion H; assumption. Qed.

Lemma forall_last (P : N -> Prop) d c : Forall P d -> ends_with_byte c d = true -> P c.
Proof.
  unfold ends_with_byte. intros H E. apply Forall_rev in H. destruct (rev d) as [|x r]; [discriminate|].
  apply N.eqb_eq in E. subst x. inversion H; assumption.
Qed.

Lemma ipv4_display_edges a : a < 4294967296 ->
  starts_with_cp 58 (ipv4_display a) = false /\ ipv4_display a <> [] /\ ends_with_byte 47 (ipv4_display a) = false.
Proof.
  intros H. destruct (ipv4_display_digits a H) as (Hd & Hn & _).
  assert (forall c, In c (ipv4_display a) -> c <> 58 /\ c <> 47) as Hc.
  { intros c Hin. rewrite Forall_forall in Hd. destruct (Hd c Hin) as [K|K]; [unfold is_digit in K; lia | subst c; lia]. }
  split; [|split].
  - destruct (ipv4_display a) as [|x r]; [reflexivity|]. cbn [starts_with_cp].
    destruct (Hc x (or_introl eq_refl)) as [K _]. apply N.eqb_neq. exact K.
  - exact Hn.
  - unfold ends_with_byte. pose proof (fun c Hin => Hc c (proj2 (in_rev _ c) Hin)) as Hc'.
    destruct (rev (ipv4_display a)) as [|x r]; [reflexivity|].
    destruct (Hc' x (or_introl eq_refl)) as [_ K]. apply N.eqb_neq. exact K.
Qed.

Lemma spec_parser_not_bracket_gen idna s : Host.starts_with 91 s = false ->
  spec_host_parser idna false s =
  match idna (spec_percent_decode (utf8_encode s)) with
  | None => None
  | Some ascii_domain =>
      match ascii_domain with
      | [] => None
      | _ =>
          if existsb Spec.forbidden_domain_code_point ascii_domain then None
          else if Spec.ends_in_a_number ascii_domain
          then match Spec.ipv4_parse ascii_domain with
               | Some a => Some (SIpv4 a)
               | None => None
               end
          else Some (SDomain ascii_domain)
      end
  end.
Proof.
  destruct s as [|c r]; [reflexivity|]. cbn [Host.starts_with]. intros H.
  destruct c as [|p]; [reflexivity|].
  do 7 (destruct p as [p|p|]; try reflexivity). discriminate H.
Qed.

Theorem host_agree_special idna :
  (forall bs d, idna bs = Some d -> Forall dom_char_ok d) ->
  forall s, usv_list s ->
  host_agree_sp (host_parse idna) host_display (spec_host_parser idna) spec_host_serializer s.
Proof.
  intros Hout s Hu. unfold host_agree_sp. destruct s as [|c0 r0]; [exact I|]. cbv beta iota.
  remember (c0 :: r0) as s eqn:Es. unfold host_parsing.
  destruct (Host.starts_with 91 s) eqn:Hb.
  - (* IPv6 literal *)
    rewrite (proj1 (literal_spec idna s Hb)).
    pose proof (literal_agree idna false s Hb) as L.
    destruct (literal_result s) as [h|e]; destruct (spec_host_parser idna false s) as [sh|]; try contradiction; [|exact I].
    destruct L as (a & -> & -> & W). cbn [host_display spec_host_serializer]. rewrite (write_ipv6_spec a W).
    split; [reflexivity|]. split; [reflexivity|]. split; [discriminate|]. split; [discriminate|].
    rewrite app_assoc. apply ends_with_byte_snoc'.
  - (* domain or IPv4 *)
    rewrite (spec_parser_not_bracket_gen idna s Hb).
    unfold host_parse, host_parse_x. rewrite Hb. rewrite decode_spec.
    destruct (idna (spec_percent_decode (utf8_encode s))) as [d|] eqn:Ei; [|exact I].
    pose proof (Hout _ _ Ei) as Hd.
    destruct d as [|d0 dr]; [exact I|]. cbv iota. remember (d0 :: dr) as d eqn:Ed.
    assert (existsb Spec.forbidden_domain_code_point d = false) as Ef.
    { apply not_in_existsb. eapply Forall_impl; [|exact Hd]. intros c Hc. destruct (dom_char_facts c Hc) as (_ & _ & K & _). exact K. }
    rewrite Ef. rewrite <- (ends_in_a_number_spec d).
    assert (d <> []) as Hne by (rewrite Ed; discriminate).
    destruct (ends_in_a_number d) eqn:En.
    + rewrite (parse_ipv4addr_spec d Hne).
      destruct (Spec.ipv4_parse d) as [a|] eqn:E4; cbn [lift4 xr_map xr_result]; [|exact I].
      assert (a < 4294967296) as Ha.
      { apply (parse_ipv4addr_bound d). rewrite (parse_ipv4addr_spec d Hne), E4. reflexivity. }
      cbn [host_display spec_host_serializer]. destruct (ipv4_display_edges a Ha) as (K1 & K2 & K3).
      split; [apply ipv4_display_spec; exact Ha|]. split; [exact K1|]. split; [discriminate|]. split; [exact K2 | exact K3].
    + cbn [xr_result host_display spec_host_serializer].
      split; [reflexivity|].
      split.
      { destruct (starts_with_cp 58 d) eqn:K; [|reflexivity]. exfalso.
        destruct (dom_char_facts 58 (forall_head _ d 58 Hd K)) as (_ & _ & K' & _). vm_compute in K'. discriminate K'. }
      split; [intros K; inversion K; contradiction|]. split; [exact Hne|].
      destruct (ends_with_byte 47 d) eqn:K; [|reflexivity]. exfalso.
      destruct (dom_char_facts 47 (forall_last _ d 47 Hd K)) as (_ & _ & K' & _). vm_compute in K'. discriminate K'.
Qed.
