(* Proofs/C05_Comp.v - the per-component delimiter clauses on the STORED slices of a Url record.
   History: on the pinned code the clauses were FALSE for reachable Urls (finding F-C06-6):
   Url::set_path on an opaque-path URL escaped only a '/' in the very first position of its argument,
   TAB / LF / CR were dropped later, and the rest went through the opaque-path state whose encode set
   (CONTROLS) keeps space, dquote, '<', '>', backtick, '{', '}':
        Url::parse("a:b").set_path("\t/ y")  =  "a:/ y"   - a hierarchical path with a raw space.
   The code was repaired (0cfc9d8), Model/Setters.v follows it, and the former witness is now a
   regression lemma (cw_fixed): the same call gives "a:%2F y", still an opaque path.
   comp_ok: the clauses in the form that is an invariant of the setters (Proofs/C05_CompSteps.v). *)
From RU Require Import Base.Prelude Base.Utf8 Model.AsciiSet Gen.Tables Model.PercentEncoding
  Model.HostT Model.UrlRecord Model.Parser Model.Setters Model.WF
  Proofs.ListN Proofs.C05_Enc Proofs.C05_Parser Proofs.C05_Setters Proofs.C05_History Proofs.C05_Sharp.

Definition free (D : list N) (l : list N) : Prop := forall d, In d D -> ~ In d l.

Lemma free_nil D : free D [].
Proof. intros d _ H. exact H. Qed.

Lemma free_app D a b : free D a -> free D b -> free D (a ++ b).
Proof. intros Ha Hb d Hd H. apply in_app_or in H. destruct H; [eapply Ha | eapply Hb]; eassumption. Qed.

Lemma free_incl D a b : incl a b -> free D b -> free D a.
Proof. intros Hi Hb d Hd H. exact (Hb d Hd (Hi d H)). Qed.

Lemma comp_clean_free D l : comp_clean D l -> free D l.
Proof. intros [_ H]. exact H. Qed.

(* the five clauses of the property text, for one record *)
Definition components_clean (dbg : bool) (u : url) : Prop :=
  (forall un, username dbg u = Some un -> free D_USERINFO un)
  /\ (forall pw, password dbg u = Some (Some pw) -> free D_USERINFO pw)
  /\ (cannot_be_a_base u = Some false -> forall p, path u = Some p -> free D_PATH p)
  /\ (forall q, query dbg u = Some (Some q) -> free D_QUERY q)
  /\ (forall f, fragment dbg u = Some (Some f) -> free D_FRAGMENT f).

(* ---------- the former witness of F-C06-6 on the repaired code ---------- *)
(* host functions that accept nothing (the witness never reaches them) *)
Definition no_hp (s : list N) : result host := Err IdnaError.
Definition no_hd (h : host) : list N := [].

Lemma no_host_ok : HostOK no_hp no_hp no_hd /\ IpOK no_hd.
Proof. split; intros h _; constructor. Qed.

(* "a:b" *)
Definition cw_start : url := mkUrl [97; 58; 98] 1 2 2 2 HI_None None 2 None None.
(* "a:%2F y" : still cannot-be-a-base *)
Definition cw_end : url := mkUrl [97; 58; 37; 50; 70; 32; 121] 1 2 2 2 HI_None None 2 None None.

Lemma cw_reachable dbg : Reachable dbg no_hp no_hp no_hd cw_end.
Proof.
  apply (R_step dbg no_hp no_hp no_hd cw_start (OSetPath [9; 47; 32; 121]) cw_end).
  - apply (R_parse dbg no_hp no_hp no_hd None [97; 58; 98]). destruct dbg; vm_compute; reflexivity.
  - exact I.
  - destruct dbg; vm_compute; reflexivity.
Qed.

Lemma cw_fixed : wf_b cw_start = true /\ wf_b cw_end = true
  /\ cannot_be_a_base cw_start = Some true /\ cannot_be_a_base cw_end = Some true
  /\ path cw_end = Some [37; 50; 70; 32; 121] /\ sharp cw_end.
Proof.
  repeat split; try (vm_compute; reflexivity). right.
  split; [|split; [|split]]; try (vm_compute; reflexivity);
    repeat constructor; unfold ok_or_space, ok_byte; lia.
Qed.
