(* Proofs/C05_Alphabet.v - from the component invariant to the whole-serialization alphabet (the first sentence
   of the property text): on a record that satisfies CInv (C06's wfh + the component clauses), whose bytes are
   inside 0x20..0x7E (C05_history gives that for every reachable record) and whose stored host text has no space,
   U+0020 can only stand inside the path, and only if the record is cannot-be-a-base:
     ser u = A ++ path ++ Z,  A and Z inside 0x21..0x7E,  and the path too unless cannot_be_a_base.
   The proof reads the serialization as the concatenation of the accessors (C03_WF.accessors_reconcatenate). *)
From RU Require Import Base.Prelude Base.Utf8 Model.AsciiSet Gen.Tables Model.PercentEncoding
  Model.HostT Model.UrlRecord Model.Parser Model.Setters Model.WF
  Proofs.ListN Proofs.C03_WF Proofs.C05_Enc Proofs.C05_Parser Proofs.C05_Sharp Proofs.C05_Comp Proofs.C05_CompSteps
  Proofs.C06_List Proofs.C06_WFI Proofs.C06_Tail Proofs.C06_Steps Proofs.C06_Suffix Proofs.C06_Main.

Definition alphabet_ok (u : url) : Prop :=
  exists A pth Z, ser u = A ++ pth ++ Z /\ path u = Some pth
    /\ Forall ok_byte A /\ Forall ok_byte Z /\ Forall ok_or_space pth
    /\ (cannot_be_a_base u = Some false -> Forall ok_byte pth).

Lemma nosp_ok t : Forall ok_or_space t -> ~ In 32 t -> Forall ok_byte t.
Proof.
  intros H Hn. apply Forall_forall. intros x Hx. rewrite Forall_forall in H. specialize (H x Hx).
  assert (x <> 32) as Hne by (intros ->; exact (Hn Hx)). unfold ok_or_space in H. unfold ok_byte. lia.
Qed.

Lemma ok_nosp t : Forall ok_byte t -> ~ In 32 t.
Proof. intros H Hin. rewrite Forall_forall in H. specialize (H 32 Hin). unfold ok_byte in H. lia. Qed.

Lemma free_nosp D t : In 32 D -> free D t -> ~ In 32 t.
Proof. intros HD H. exact (H 32 HD). Qed.

Lemma not_in_app (x : N) a b : ~ In x a -> ~ In x b -> ~ In x (a ++ b).
Proof. intros Ha Hb H. apply in_app_or in H. tauto. Qed.

Lemma scheme_nosp u : wf_b u = true -> ~ In 32 (piece u 0 (scheme_end u)).
Proof.
  intros W. pose proof (wf_b_iff u) as [Hi _]. destruct (Hi W) as ((_ & _ & S3 & _) & _).
  unfold piece. rewrite N.sub_0_r. change (nskipn 0 (ser u)) with (ser u).
  intros Hin. rewrite forallb_forall in S3. specialize (S3 32 Hin). vm_compute in S3. discriminate S3.
Qed.

Theorem cinv_alphabet dbg u : CInv dbg u -> Forall ok_or_space (ser u) ->
  (has_host u = true -> ~ In 32 (piece u (host_start u) (host_end u))) -> alphabet_ok u.
Proof.
  intros [[W HT] (Cu & Cp & Cpa & Cq & Cf)] Hok Hh.
  destruct (accessors_reconcatenate dbg u W) as (sch & un & pw & hs & pth & q & f & Esch & Eun & Epw & Ehs & Epth & Eq & Ef & Eser & Hh1 & Hh2).
  assert (sch = piece u 0 (scheme_end u)) as Es.
  { rewrite (scheme_eval u W) in Esch. inversion Esch. reflexivity. }
  set (A := sch ++ (if has_authority_b u then s_css else [58])
       ++ un ++ (match pw with Some p => 58 :: p | None => [] end)
       ++ (if has_authority_b u && negb (username_end u =? host_start u) then [64] else [])
       ++ piece u (host_start u) (host_end u)
       ++ (match port u with Some p => 58 :: decimal p | None => [] end)
       ++ (if negb (has_authority_b u) && (path_start u =? scheme_end u + 3) then [47; 46] else [])).
  set (Z := (match q with Some x => 63 :: x | None => [] end) ++ (match f with Some x => 35 :: x | None => [] end)).
  assert (ser u = A ++ pth ++ Z) as E.
  { rewrite Eser. subst A Z. rewrite <- !app_assoc. reflexivity. }
  assert (Forall ok_or_space A /\ Forall ok_or_space pth /\ Forall ok_or_space Z) as (OA & OP & OZ).
  { rewrite E in Hok. apply Forall_app in Hok. destruct Hok as [H1 H2]. apply Forall_app in H2. tauto. }
  assert (In 32 D_USERINFO) as DU by (vm_compute; tauto).
  assert (In 32 D_PATH) as DP by (vm_compute; tauto).
  assert (In 32 D_QUERY) as DQ by (vm_compute; tauto).
  assert (In 32 D_FRAGMENT) as DF by (vm_compute; tauto).
  exists A, pth, Z. split; [exact E|]. split; [exact Epth|]. split; [|split; [|split; [exact OP|]]].
  - apply (nosp_ok A OA). subst A.
    apply not_in_app; [rewrite Es; exact (scheme_nosp u W)|].
    apply not_in_app; [destruct (has_authority_b u); vm_compute; intuition discriminate|].
    apply not_in_app; [exact (free_nosp _ _ DU (Cu un Eun))|].
    apply not_in_app.
    { destruct pw as [p|]; [|intros []]. intros [X|X]; [discriminate|]. exact (free_nosp _ _ DU (Cp p Epw) X). }
    apply not_in_app; [destruct (has_authority_b u && negb (username_end u =? host_start u)); vm_compute; intuition discriminate|].
    apply not_in_app.
    { destruct (has_host u) eqn:Ehh; [exact (Hh eq_refl) | rewrite (Hh2 eq_refl); intros []]. }
    apply not_in_app.
    { destruct (port u) as [p|]; [|intros []]. intros [X|X]; [discriminate|]. exact (ok_nosp _ (decimal_ok p) X). }
    destruct (negb (has_authority_b u) && (path_start u =? scheme_end u + 3)); vm_compute; intuition discriminate.
  - apply (nosp_ok Z OZ). subst Z. apply not_in_app.
    + destruct q as [x|]; [|intros []]. intros [X|X]; [discriminate|]. exact (free_nosp _ _ DQ (Cq x Eq) X).
    + destruct f as [x|]; [|intros []]. intros [X|X]; [discriminate|]. exact (free_nosp _ _ DF (Cf x Ef) X).
  - intros Hc. apply (nosp_ok pth OP).
    destruct (hier_path_head u pth W Hc Epth) as [->|(r & Er)]; [intros []|].
    exact (free_nosp _ _ DP (Cpa pth r Epth Er)).
Qed.

(* a record that is not cannot-be-a-base: the whole serialization is inside 0x21..0x7E *)
Corollary cinv_hier_ok_byte dbg u : CInv dbg u -> Forall ok_or_space (ser u) ->
  (has_host u = true -> ~ In 32 (piece u (host_start u) (host_end u))) ->
  cannot_be_a_base u = Some false -> Forall ok_byte (ser u).
Proof.
  intros K Hok Hh Hc. destruct (cinv_alphabet dbg u K Hok Hh) as (A & pth & Z & E & _ & HA & HZ & _ & HP).
  rewrite E. apply Forall_app. split; [exact HA|]. apply Forall_app. split; [exact (HP Hc) | exact HZ].
Qed.

(* ---------- along CReach3 ---------- *)
From RU Require Import Proofs.C05_Setters Proofs.C05_History Proofs.C04_ParseTotal Proofs.C03_ReachParts
  Proofs.C05_CompHist Proofs.C05_CompSteps2 Proofs.C05_CompReach Proofs.C05_BaseOk Proofs.C05_CompSteps3.

(* address values are displayed inside 0x21..0x7E (C05's IpOK restricted to Ipv4Addr / Ipv6Addr values) *)
Definition IpOKv (hd : host -> list N) : Prop := forall h, ip_arg h -> Forall ok_byte (hd h).

Section Reach3.
Variable dbg : bool.
Variable hp hpo : list N -> result host.
Variable hd : host -> list N.
Hypothesis HW : HostWf hp hpo hd.
Hypothesis HOK : HostOK hp hpo hd.
Hypothesis HI : IpDisp hd.
Hypothesis HV : IpOKv hd.

Lemma apply_op_oks3 u o u' : step_gate3 hp hpo hd u o u' -> apply_op dbg hp hpo hd u o = Some u' ->
  Forall ok_or_space (ser u) -> Forall ok_or_space (ser u').
Proof using HOK HV.
  intros G H Hs. change (okl ok_or_space (ser u')). change (okl ok_or_space (ser u)) in Hs.
  destruct o; cbn [apply_op] in H; try (apply drop_status_some in H; destruct H as [st H]).
  - eapply set_fragment_okl; [exact ok_byte_or_space | eassumption ..].
  - eapply set_query_okl; [exact ok_byte_or_space | eassumption ..].
  - eapply set_path_okl; [exact ok_byte_or_space | exact ok_or_space_32 | eassumption ..].
  - eapply set_port_okl; [exact ok_byte_or_space | eassumption ..].
  - eapply set_host_okl; [exact ok_byte_or_space | exact HOK | eassumption ..].
  - eapply set_ip_host_okl; [exact ok_byte_or_space | | exact H | exact Hs].
    apply (okl_ok _ ok_byte_or_space). apply HV. exact (proj1 G).
  - eapply set_password_okl; [exact ok_byte_or_space | eassumption ..].
  - eapply set_username_okl; [exact ok_byte_or_space | eassumption ..].
  - eapply set_scheme_okl; [exact ok_byte_or_space | eassumption ..].
  - eapply path_segments_session_okl; [exact ok_byte_or_space | eassumption ..].
  - eapply q_set_protocol_okl; [exact ok_byte_or_space | eassumption ..].
  - eapply q_set_username_okl; [exact ok_byte_or_space | eassumption ..].
  - eapply q_set_password_okl; [exact ok_byte_or_space | eassumption ..].
  - eapply q_set_host_okl; [exact ok_byte_or_space | exact HOK | eassumption ..].
  - eapply q_set_hostname_okl; [exact ok_byte_or_space | exact HOK | eassumption ..].
  - eapply q_set_port_okl; [exact ok_byte_or_space | eassumption ..].
  - eapply q_set_pathname_okl; [exact ok_byte_or_space | exact ok_or_space_32 | eassumption ..].
  - eapply q_set_search_okl; [exact ok_byte_or_space | eassumption ..].
  - eapply q_set_hash_okl; [exact ok_byte_or_space | eassumption ..].
Qed.

Theorem creach3_oks u : CReach3 dbg hp hpo hd u -> Forall ok_or_space (ser u).
Proof using HOK HV.
  induction 1 as [ovr input u Hp | ovr b input u Rb IHb Hb Hp | u o u' R IH G H].
  - exact (parse_url_okl ok_or_space ok_byte_or_space dbg hp hpo hd ovr HOK None input u (fun _ => ok_or_space_32) Hp I).
  - exact (parse_url_okl ok_or_space ok_byte_or_space dbg hp hpo hd ovr HOK (Some b) input u (fun _ => ok_or_space_32) Hp IHb).
  - exact (apply_op_oks3 u o u' G H IH).
Qed.

(* the first sentence of the property text for every record of CReach3 whose stored host text has no space *)
Theorem creach3_alphabet u : CReach3 dbg hp hpo hd u ->
  (has_host u = true -> ~ In 32 (piece u (host_start u) (host_end u))) -> alphabet_ok u.
Proof using HW HOK HI HV.
  intros R Hh. exact (cinv_alphabet dbg u (creach3_cinv dbg hp hpo hd HW HI u R) (creach3_oks u R) Hh).
Qed.

End Reach3.
