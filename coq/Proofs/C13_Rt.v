(* Proofs/C13_Rt.v - Bootstring over unbounded integers is invertible: s_decode (s_encode s) = Some s.
   The decoder's state <n, i> is read as the single integer n * (L + 1) + i (L = current output length);
   the encoder's running delta is exactly what is missing to reach <m, pos>. *)
From RU Require Import Base.Prelude Spec.Rfc3492 Proofs.C13_Enc Proofs.C13_Dec Proofs.C13_Vli.

Definition le_m (m : N) (c : N) : bool := c <=? m.
Definition lt_m (m : N) (c : N) : bool := c <? m.

Lemma len_app a b : len (a ++ b) = len a + len b.
Proof. unfold len. rewrite app_length. lia. Qed.

Lemma insert_at_app A : forall c B, s_insert_at (len A) c (A ++ B) = A ++ c :: B.
Proof.
  induction A as [|a A IH]; intros c B.
  - rewrite len_nil. cbn [app]. apply s_insert_at_0.
  - rewrite len_cons. cbn [app]. rewrite s_insert_at_pos by lia.
    replace (len A + 1 - 1) with (len A) by lia. rewrite IH. reflexivity.
Qed.

Lemma filter_len_all p l : len (filter p l) = len l -> filter p l = l.
Proof.
  induction l as [|c r IH]; intros H; [reflexivity|]. cbn [filter] in *.
  destruct (p c).
  - rewrite !len_cons in H. f_equal. apply IH. lia.
  - exfalso. rewrite len_cons in H. pose proof (cnt_le p r) as Hc. rewrite cnt_filter in Hc. lia.
Qed.

Section RT.
  Variable dig : N -> option N.
  Hypothesis Hdig : forall d, d < 36 -> dig (s_digit_char d) = Some d.

  Lemma inner_rt : forall suf pre m b d bias h nd id out rest,
    is_usvb m = true ->
    out = filter (le_m m) pre ++ filter (lt_m m) suf ->
    h = len out -> nd <= m -> b <= h -> (id =? 0) = (h =? b) ->
    nd * (h + 1) + id + d = m * (h + 1) + len (filter (le_m m) pre) ->
    match s_enc_inner suf m b d bias h with
    | (d', bias', h', o) =>
        exists nd' id' out',
          s_dec_loop dig (o ++ rest) false id 1 s_base id nd bias out
            = s_dec_loop dig rest false id' 1 s_base id' nd' bias' out'
          /\ out' = filter (le_m m) (pre ++ suf) /\ h' = len out' /\ nd' <= m /\ b <= h'
          /\ (id' =? 0) = (h' =? b) /\ nd' * (h' + 1) + id' + d' = m * (h' + 1) + len out'
    end.
  Proof.
    induction suf as [|c suf IH]; intros pre m b d bias h nd id out rest Hm Hout Hh Hnd Hb Hfl Heq.
    - cbn [s_enc_inner]. exists nd, id, out.
      assert (Hout' : out = filter (le_m m) pre) by (rewrite Hout; cbn [filter]; apply app_nil_r).
      rewrite app_nil_r. cbn [app].
      split; [reflexivity|]. split; [exact Hout'|]. split; [exact Hh|]. split; [exact Hnd|]. split; [exact Hb|].
      split; [exact Hfl|]. rewrite Hout' at 1. exact Heq.
    - rewrite s_enc_inner_cons. cbv zeta.
      replace (pre ++ c :: suf) with ((pre ++ [c]) ++ suf) by (rewrite <- app_assoc; reflexivity).
      destruct (c =? m) eqn:Ecm.
      + (* the scalar being inserted *)
        apply N.eqb_eq in Ecm. subst c. replace (m <? m) with false by lia.
        remember (len (filter (le_m m) pre)) as pos.
        assert (Hpos : pos <= h).
        { rewrite Hh, Hout, len_app, <- Heqpos. lia. }
        specialize (IH (pre ++ [m]) m b 0 (s_adapt d (h + 1) (h =? b)) (h + 1) m (pos + 1)
                       (s_insert_at pos m out) rest Hm).
        destruct (s_enc_inner suf m b 0 (s_adapt d (h + 1) (h =? b)) (h + 1)) as [[[d' bias'] h'] o'].
        assert (Hfm : filter (le_m m) (pre ++ [m]) = filter (le_m m) pre ++ [m]).
        { rewrite filter_app. cbn [filter]. unfold le_m at 2. replace (m <=? m) with true by lia. reflexivity. }
        assert (Hins : s_insert_at pos m out = filter (le_m m) (pre ++ [m]) ++ filter (lt_m m) suf).
        { rewrite Hout, Heqpos. cbn [filter]. unfold lt_m at 1. replace (m <? m) with false by lia.
          rewrite insert_at_app. rewrite Hfm, <- app_assoc. reflexivity. }
        destruct IH as [nd' [id' [out' [E1 [E2 [E3 [E4 [E5 [E6 E7]]]]]]]]].
        * exact Hins.
        * rewrite len_insert_at. lia.
        * lia.
        * lia.
        * replace (pos + 1 =? 0) with false by lia. replace (h + 1 =? b) with false by lia. reflexivity.
        * rewrite Hfm, len_app, <- Heqpos. change (len [m]) with 1. lia.
        * exists nd', id', out'. split; [|repeat split; assumption].
          rewrite <- app_assoc. unfold s_vli_fuel.
          rewrite (vli_decode dig Hdig) by (rewrite N2Nat.id; apply N.size_gt).
          unfold s_dec_break. change (N.of_nat (length out)) with (len out). rewrite <- Hh.
          assert (Hsum : id + d * 1 = (h + 1) * (m - nd) + pos).
          { rewrite (N.mul_comm (h + 1) (m - nd)), N.mul_sub_distr_r.
            pose proof (N.mul_le_mono_r nd m (h + 1) Hnd). lia. }
          assert (Hdiv : (id + d * 1) / (h + 1) = m - nd).
          { symmetry. apply (N.div_unique _ _ _ pos); [lia|exact Hsum]. }
          assert (Hmod : (id + d * 1) mod (h + 1) = pos).
          { symmetry. apply (N.mod_unique _ _ (m - nd)); [lia|exact Hsum]. }
          cbv zeta. rewrite Hdiv, Hmod. replace (nd + (m - nd)) with m by lia. rewrite Hm.
          replace (id + d * 1 - id) with d by lia. rewrite Hfl. exact E1.
      + apply N.eqb_neq in Ecm.
        destruct (c <? m) eqn:Elt.
        * (* a smaller scalar: already in the output *)
          specialize (IH (pre ++ [c]) m b (d + 1) bias h nd id out rest Hm).
          destruct (s_enc_inner suf m b (d + 1) bias h) as [[[d' bias'] h'] o'].
          assert (Hfc : filter (le_m m) (pre ++ [c]) = filter (le_m m) pre ++ [c]).
          { rewrite filter_app. cbn [filter]. unfold le_m at 2. replace (c <=? m) with true by lia. reflexivity. }
          apply IH; try assumption.
          -- rewrite Hout, Hfc. cbn [filter]. unfold lt_m at 1. rewrite Elt. rewrite <- app_assoc. reflexivity.
          -- rewrite Hfc, len_app. change (len [c]) with 1. lia.
        * (* a larger scalar: not yet handled *)
          specialize (IH (pre ++ [c]) m b d bias h nd id out rest Hm).
          destruct (s_enc_inner suf m b d bias h) as [[[d' bias'] h'] o'].
          assert (Hfc : filter (le_m m) (pre ++ [c]) = filter (le_m m) pre).
          { rewrite filter_app. cbn [filter]. unfold le_m at 2. replace (c <=? m) with false by lia. apply app_nil_r. }
          apply IH; try assumption.
          -- rewrite Hout, Hfc. cbn [filter]. unfold lt_m at 1. rewrite Elt. reflexivity.
          -- rewrite Hfc. exact Heq.
  Qed.

  Lemma filter_lt_min l n m : n <= m -> (forall c, In c l -> n <= c -> m <= c) ->
    filter (lt_m n) l = filter (lt_m m) l.
  Proof.
    intros Hnm H. apply filter_ext_in. intros c Hc. unfold lt_m. specialize (H c Hc).
    destruct (c <? n) eqn:E1; destruct (c <? m) eqn:E2; try reflexivity; lia.
  Qed.

  Lemma outer_rt : forall fuel input b n d bias h nd id out,
    Forall (fun c => is_usvb c = true) input ->
    out = filter (lt_m n) input -> h = len out -> nd <= n -> b <= h -> (id =? 0) = (h =? b) ->
    nd * (h + 1) + id + d = n * (h + 1) -> len input - h < N.of_nat fuel ->
    s_dec_loop dig (s_enc_outer fuel input (len input) b n d bias h) false id 1 s_base id nd bias out = Some input.
  Proof.
    induction fuel as [|f IH]; intros input b n d bias h nd id out Hu Hout Hh Hnd Hb Hfl Heq Hf; [cbn in Hf; lia|].
    rewrite s_enc_outer_S.
    assert (Hcnt : h = cnt (fun c => c <? n) input) by (rewrite cnt_filter, Hh, Hout; reflexivity).
    destruct (h <? len input) eqn:E.
    - destruct (min_exists input n h Hcnt ltac:(lia)) as [m Em]. rewrite Em. cbv zeta.
      apply s_min_ge_some in Em. destruct Em as [Hin [Hle Hmin]].
      destruct (s_enc_inner input m b (d + (m - n) * (h + 1)) bias h) as [[[d' bias'] h'] o'] eqn:Es.
      assert (Hm : is_usvb m = true) by (rewrite Forall_forall in Hu; exact (Hu m Hin)).
      pose proof (inner_rt input [] m b (d + (m - n) * (h + 1)) bias h nd id out
                    (s_enc_outer f input (len input) b (m + 1) (d' + 1) bias' h') Hm) as HI.
      rewrite Es in HI.
      destruct HI as [nd' [id' [out' [E1 [E2 [E3 [E4 [E5 [E6 E7]]]]]]]]].
      + cbn [filter app]. rewrite Hout. apply filter_lt_min; assumption.
      + exact Hh.
      + lia.
      + exact Hb.
      + exact Hfl.
      + cbn [filter]. rewrite len_nil. rewrite N.mul_sub_distr_r.
        pose proof (N.mul_le_mono_r n m (h + 1) Hle). lia.
      + rewrite E1. cbn [app] in E2.
        apply s_inner_facts in Es. destruct Es as [Hh' _]. pose proof (cnt_eq_in input m Hin) as Hc.
        apply IH; try assumption.
        * rewrite E2. apply filter_ext. intros c. unfold le_m, lt_m. lia.
        * lia.
        * rewrite <- E3 in E7. rewrite N.mul_add_distr_r. lia.
        * rewrite Nat2N.inj_succ in Hf. lia.
    - assert (Ho : out = input).
      { rewrite Hout. apply filter_len_all. rewrite <- Hout, <- Hh.
        pose proof (cnt_le (fun c => c <? n) input). lia. }
      cbn [s_dec_loop]. rewrite Ho. reflexivity.
  Qed.
End RT.

(* ---- the delimiter ---- *)
Definition nodelim (l : list N) : Prop := Forall (fun c => c <> s_delimiter) l.

Lemma vli_nodelim fuel q k bias : nodelim (s_enc_vli fuel q k bias).
Proof.
  unfold nodelim. eapply Forall_impl; [|apply s_enc_vli_digits]. cbv beta. intros c [d [_ [_ H]]]. exact H.
Qed.

Lemma inner_nodelim l : forall n b d bias h,
  match s_enc_inner l n b d bias h with (_, _, _, o) => nodelim o end.
Proof.
  induction l as [|c l IH]; intros n b d bias h.
  - cbn [s_enc_inner]. constructor.
  - rewrite s_enc_inner_cons. cbv zeta. destruct (c =? n).
    + specialize (IH n b 0 (s_adapt (if c <? n then d + 1 else d) (h + 1) (h =? b)) (h + 1)).
      destruct (s_enc_inner l n b 0 (s_adapt (if c <? n then d + 1 else d) (h + 1) (h =? b)) (h + 1)) as [[[d' bi'] h'] o'].
      apply Forall_app. split; [apply vli_nodelim|exact IH].
    + apply IH.
Qed.

Lemma outer_nodelim fuel : forall input il b n d bias h, nodelim (s_enc_outer fuel input il b n d bias h).
Proof.
  induction fuel as [|f IH]; intros input il b n d bias h.
  - cbn [s_enc_outer]. destruct (h <? il); constructor.
  - rewrite s_enc_outer_S. destruct (h <? il); [|constructor]. cbv zeta.
    pose proof (inner_nodelim input (match s_min_ge n input with Some m => m | None => n end) b
                  (d + ((match s_min_ge n input with Some m => m | None => n end) - n) * (h + 1)) bias h) as HI.
    destruct (s_enc_inner input _ b _ bias h) as [[[d' bi'] h'] o'].
    apply Forall_app. split; [exact HI|apply IH].
Qed.

Lemma rpos_none D : nodelim D -> s_rposition D = None.
Proof.
  induction 1 as [|c D Hc _ IH]; [reflexivity|]. cbn [s_rposition]. rewrite IH.
  replace (c =? s_delimiter) with false by lia. reflexivity.
Qed.

Lemma rpos_app A : forall D, nodelim D -> s_rposition (A ++ s_delimiter :: D) = Some (length A).
Proof.
  induction A as [|a A IH]; intros D HD.
  - cbn [app s_rposition]. rewrite (rpos_none D HD). rewrite N.eqb_refl. reflexivity.
  - cbn [app s_rposition length]. rewrite (IH D HD). reflexivity.
Qed.

Lemma split_encoded A D : A <> [] -> nodelim D -> s_split (A ++ [s_delimiter] ++ D) = (A, D).
Proof.
  intros HA HD. unfold s_split. cbn [app]. rewrite rpos_app by exact HD.
  destruct A as [|a A]; [congruence|]. remember (a :: A) as B.
  replace (0 <? length B)%nat with true by (subst B; reflexivity).
  f_equal.
  - rewrite firstn_app, Nat.sub_diag, firstn_all. cbn [firstn]. apply app_nil_r.
  - rewrite skipn_app. rewrite skipn_all2 by lia.
    replace (Datatypes.S (length B) - length B)%nat with 1%nat by lia. reflexivity.
Qed.

Lemma forallb_filter p (l : list N) : forallb p (filter p l) = true.
Proof.
  induction l as [|c r IH]; [reflexivity|]. cbn [filter]. destruct (p c) eqn:E; [|exact IH].
  cbn [forallb]. rewrite E, IH. reflexivity.
Qed.

Theorem s_round_trip s : usv_list s -> s_decode (s_encode s) = Some s.
Proof.
  intros Hu.
  assert (Hub : Forall (fun c => is_usvb c = true) s).
  { unfold usv_list in Hu. eapply Forall_impl; [|exact Hu]. intros c Hc. apply is_usvb_spec. exact Hc. }
  unfold s_decode, s_decode_with, s_encode.
  remember (filter (fun c => c <? 128) s) as basic.
  remember (N.of_nat (length basic)) as b.
  remember (s_enc_outer (Datatypes.S (length s)) s (N.of_nat (length s)) b s_initial_n 0 s_initial_bias b) as D.
  assert (HD : nodelim D) by (subst D; apply outer_nodelim).
  assert (Hmain : s_dec_loop s_digit_value D false 0 1 s_base 0 s_initial_n s_initial_bias basic = Some s).
  { subst D. change (N.of_nat (length s)) with (len s).
    apply (outer_rt s_digit_value s_digit_value_char); try assumption; try lia.
    pose proof (cnt_le (fun c => c <? 128) s) as Hc. rewrite cnt_filter in Hc. rewrite <- Heqbasic in Hc.
    unfold len in *. rewrite Nat2N.inj_succ. lia. }
  destruct (0 <? b) eqn:Eb.
  - rewrite split_encoded; [|intros ->; subst b; cbn in Eb; lia|exact HD].
    rewrite Heqbasic at 1. rewrite forallb_filter. exact Hmain.
  - assert (basic = []) by (destruct basic; [reflexivity|subst b; cbn [length] in Eb; lia]).
    rewrite H in *. cbn [app]. unfold s_split. rewrite (rpos_none D HD). cbn [forallb]. exact Hmain.
Qed.
