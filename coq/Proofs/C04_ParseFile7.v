(* Proofs/C04_ParseFile7.v - the EXACT failing class of finding F-C04-7.
   Inside C04_ParseFile.file_rel_unsafe (a path-relative reference against a file base whose shortened path
   does not end in '/') the path state starts its first segment behind a byte that is not '/'.  first_seg
   runs the loop up to the end of that first segment: either the drive-letter arm of the loop fires (the
   serialization is exactly ".../C:" when an ordinary character is read: a '/' is pushed and the state becomes
   one of C04_PathFile.path_inv - harmless), or the segment ends (separator, '?', '#', end of input) and
   finish_segment sees its percent-encoded text behind a byte that is not '/': the debug assertion
   `serialization[segment_start - 1] == '/'` fails iff that text is a double-dot spelling
   ("..", ".%2e", "%2e.", "%2e%2e", any case).  Every other outcome re-establishes the invariant.
   Hence parse_url = PPanic  <->  debug assertions on /\ known_c04_7x. *)
From RU Require Import Base.Prelude Base.Utf8 Model.AsciiSet Gen.Tables Model.PercentEncoding
  Model.HostT Model.UrlRecord Model.Parser Model.WF
  Proofs.ListN Proofs.C06_List Proofs.C02_Parts Proofs.C03_WF Proofs.C06_WFI Proofs.C06_Tail Proofs.C06_Steps
  Proofs.C06_PathParser Proofs.C04_Parse Proofs.C04_PathTotal Proofs.C04_ParseTotal Proofs.C04_PathFile Proofs.C04_ParseFile.

(* the condition of the drive-letter arm of parse_path's loop (file scheme) *)
Definition armc (ps : N) (ser : list N) : bool := (ps <? nlen ser) && is_normalized_wdl (nskipn (ps + 1) ser).

Inductive fs_out := FsArm | FsEnd (ser : list N) (ews : bool) (rest : list N).

(* the loop of parse_path (Context::UrlParser, file scheme) up to the end of the current segment *)
Fixpoint first_seg (ps : N) (l ser pend : list N) : fs_out :=
  match l with
  | [] => FsEnd (push_pending CUrlParser STFile ser pend) false []
  | c :: r =>
      if is_tnl c then first_seg ps r (push_pending CUrlParser STFile ser pend) []
      else if (c =? 47) || (c =? 92) then FsEnd (push_pending CUrlParser STFile ser pend) true r
      else if (c =? 63) || (c =? 35) then FsEnd (push_pending CUrlParser STFile ser pend) false l
      else if armc ps ser then FsArm
      else first_seg ps r ser (c :: pend)
  end.

Lemma nlen_nfirstn_min' n l : nlen (nfirstn n l) = N.min n (nlen l).
Proof.
  destruct (N.le_gt_cases n (nlen l)) as [H|H].
  - rewrite nlen_nfirstn by exact H. lia.
  - rewrite nfirstn_all by lia. lia.
Qed.

Section Unsafe.
Variables (dbg : bool) (ps : N) (s1 : list N).
Hypothesis H1 : ps <= nlen s1.

Notation loop := (parse_path_loop dbg CUrlParser STFile ps).

Definition good_res (X : pres (list N * bool * list N)) : Prop :=
  exists s2 hh' rem, X = POk (file_path_fixup STFile ps s2, hh', rem) /\ ps <= nlen s2 /\ rem_ok rem.

Lemma good_of_path_res ser X : path_res STFile ps ps ser X -> ps <= nlen ser -> good_res X.
Proof using.
  intros (s2 & hh' & rem & E & Ha & Hr) L. exists s2, hh', rem. split; [exact E|]. split; [|exact Hr].
  eapply pre_len; [exact Ha | exact L].
Qed.

(* the state after the drive-letter arm *)
Lemma arm_state x : armc ps (s1 ++ x) = true -> path_inv ps ps ((s1 ++ x) ++ [47]) (nlen s1 + 1).
Proof using H1.
  intros Ha. unfold armc in Ha. apply andb_true_iff in Ha. destruct Ha as [Ha1 Ha2].
  set (ser := s1 ++ x) in *.
  destruct (nwdl_inv _ Ha2) as (a & Ea & Hal).
  assert (nlen ser = ps + 3) as Ls.
  { pose proof (nlen_nskipn (ps + 1) ser) as Hl. rewrite Ea in Hl. change (nlen [a; 58]) with 2 in Hl. lia. }
  assert (nnth ser (ps + 1) = Some a) as Hn1.
  { pose proof (nnth_nskipn ser (ps + 1) 0) as Hn. rewrite Ea, N.add_0_r in Hn. symmetry. exact Hn. }
  assert (nnth ser (ps + 2) = Some 58) as Hn2.
  { pose proof (nnth_nskipn ser (ps + 1) 1) as Hn. rewrite Ea in Hn. replace (ps + 1 + 1) with (ps + 2) in Hn by lia.
    symmetry. exact Hn. }
  assert (a <> 46 /\ a <> 37) as Hane by (unfold is_alpha, is_upper, is_lower in Hal; lia).
  assert (nlen s1 = ps \/ nlen s1 = ps + 1 \/ nlen s1 = ps + 2 \/ nlen s1 = ps + 3) as Hc.
  { unfold ser in Ls. rewrite nlen_app in Ls. lia. }
  assert (nlen (ser ++ [47]) = ps + 4) as L4 by (rewrite nlen_app, Ls; change (nlen [47]) with 1; lia).
  destruct Hc as [Hc|[Hc|[Hc|Hc]]]; rewrite Hc.
  - right. unfold bad_seg. rewrite L4. split; [lia|]. split; [lia|]. split; [lia|].
    exists a. rewrite nnth_app_lt by lia. split; [exact Hn1|]. split; [tauto|]. split; [tauto|]. intros _. lia.
  - right. unfold bad_seg. rewrite L4. split; [lia|]. split; [lia|]. split; [lia|].
    exists 58. replace (ps + 1 + 1) with (ps + 2) by lia. rewrite nnth_app_lt by lia.
    split; [exact Hn2|]. split; [discriminate|]. split; [discriminate|]. intros X. discriminate X.
  - right. unfold bad_seg. rewrite L4. split; [lia|]. split; [lia|]. split; [lia|].
    exists 47. replace (ps + 2 + 1) with (nlen ser) by lia. rewrite nnth_last.
    split; [reflexivity|]. split; [discriminate|]. split; [discriminate|]. intros X. discriminate X.
  - left. unfold seg_inv. rewrite L4. replace (ps + 3 + 1 - 1) with (nlen ser) by lia. rewrite nnth_last.
    repeat split; lia.
Qed.

(* the loop, cut at the end of the first segment *)
Lemma first_seg_spec l : forall x pend hh, pend = [] \/ armc ps (s1 ++ x) = false ->
  match first_seg ps l (s1 ++ x) pend with
  | FsEnd s ews rest =>
      (exists x', s = s1 ++ x') /\ (ews = false -> rem_ok rest)
      /\ loop l (s1 ++ x) (nlen s1) pend hh
         = if ews then ' (s2, hh2) <~ finish_segment dbg STFile ps (s ++ [47]) (nlen s1) true hh ;;
                       loop rest s2 (nlen s2) [] hh2
           else ' (s2, hh2) <~ finish_segment dbg STFile ps s (nlen s1) false hh ;;
                POk (file_path_fixup STFile ps s2, hh2, rest)
  | FsArm => good_res (loop l (s1 ++ x) (nlen s1) pend hh)
  end.
Proof using H1.
  induction l as [|c r IH]; intros x pend hh Hp; cbn [first_seg parse_path_loop].
  - destruct (push_pending_app STFile CUrlParser pend (s1 ++ x)) as [x0 Ex]. rewrite Ex.
    split; [exists (x ++ x0); symmetry; apply app_assoc|]. split; [intros _; exact rem_ok_nil | reflexivity].
  - destruct (push_pending_app STFile CUrlParser pend (s1 ++ x)) as [x0 Ex].
    destruct (is_tnl c) eqn:Et.
    { rewrite Ex, <- app_assoc. apply IH. left. reflexivity. }
    cbn [ctx_eqb negb andb st_is_special st_is_file]. rewrite !andb_true_r.
    destruct ((c =? 47) || (c =? 92)).
    { rewrite Ex. split; [exists (x ++ x0); symmetry; apply app_assoc|]. split; [discriminate | reflexivity]. }
    destruct ((c =? 63) || (c =? 35)) eqn:Eq.
    { rewrite Ex. split; [exists (x ++ x0); symmetry; apply app_assoc|].
      split; [intros _; apply rem_ok_cons; [exact Et | exact Eq] | reflexivity]. }
    fold (armc ps (s1 ++ x)).
    destruct (armc ps (s1 ++ x)) eqn:Ea.
    + destruct Hp as [-> | Hp]; [|congruence]. cbn [push_pending].
      eapply good_of_path_res; [apply (loop_any dbg STFile ps ps ltac:(lia)); apply arm_state; exact Ea|].
      rewrite !nlen_app. lia.
    + apply IH. right. exact Ea.
Qed.

Hypothesis H2 : ends_with_byte 47 s1 = false.
Hypothesis H3 : nlen s1 = ps \/ nnth s1 ps = Some 47.

Lemma not_slash_before : (if 1 <=? nlen s1 then nnth s1 (nlen s1 - 1) else None) <> Some 47.
Proof using H1 H2 H3.
  destruct (1 <=? nlen s1) eqn:E; [|discriminate]. intros X.
  assert (ends_with_byte 47 s1 = true) as Y by (apply ends_with_byte_nnth; split; [lia | exact X]). congruence.
Qed.

(* finish_segment on the first segment x (behind s1, which does not end in '/') *)
Lemma finish_first x (ews : bool) hh :
  let ser := if ews then (s1 ++ x) ++ [47] else s1 ++ x in
  if dbg && is_double_dot x then finish_segment dbg STFile ps ser (nlen s1) ews hh = PPanic
  else exists s' hh', finish_segment dbg STFile ps ser (nlen s1) ews hh = POk (s', hh')
                      /\ ps <= nlen s' /\ (ews = true -> seg_inv ps ps s' (nlen s')).
Proof using H1 H2 H3.
  cbv zeta. set (ser := if ews then (s1 ++ x) ++ [47] else s1 ++ x).
  assert (nlen ser = nlen s1 + nlen x + (if ews then 1 else 0)) as Lser.
  { subst ser. destruct ews; rewrite !nlen_app; [change (nlen [47]) with 1|]; lia. }
  assert (slice_o ser (nlen s1) (if ews then nlen ser - 1 else nlen ser) = Some x) as Es.
  { rewrite slice_o_some by (destruct ews; lia).
    replace ((if ews then nlen ser - 1 else nlen ser) - nlen s1) with (nlen x) by (destruct ews; lia).
    subst ser. destruct ews.
    - rewrite <- app_assoc, nskipn_app_exact, nfirstn_app_exact. reflexivity.
    - rewrite nskipn_app_exact. rewrite nfirstn_all by lia. reflexivity. }
  assert (truncate ser (nlen s1) = s1) as Et.
  { unfold truncate. subst ser. destruct ews; [rewrite <- app_assoc|]; apply nfirstn_app_exact. }
  assert (nnth ser (nlen s1 - 1) = nnth s1 (nlen s1 - 1) \/ nlen s1 = 0) as Eb.
  { destruct (N.eq_dec (nlen s1) 0) as [E|E]; [right; exact E|]. left.
    subst ser. destruct ews; [rewrite <- app_assoc|]; apply nnth_app_lt; lia. }
  assert (forall a, ends_with_byte 47 (a ++ [47]) = true) as Esn by (intros a; rewrite ends_with_byte_snoc; reflexivity).
  assert (ews = true -> ser = (s1 ++ x) ++ [47]) as Eser by (intros ->; reflexivity).
  unfold finish_segment. rewrite Es. cbn [of_option pbind].
  destruct (is_double_dot x) eqn:Edd.
  - destruct dbg; cbn [andb].
    + (* the debug assertion fails *)
      pose proof not_slash_before as Hns.
      destruct (1 <=? nlen s1) eqn:E1.
      * destruct Eb as [Eb|Eb]; [|lia]. rewrite Eb.
        destruct (nnth s1 (nlen s1 - 1)) as [b|]; [|reflexivity].
        destruct (b =? 47) eqn:E47; [apply N.eqb_eq in E47; subst b; congruence | reflexivity].
      * reflexivity.
    + cbn [pbind]. rewrite Et, H2. cbn [andb].
      assert (nlen s1 = ps \/ (exists i, ps <= i /\ nnth s1 i = Some 47)) as Hpre.
      { destruct H3 as [E|E]; [left; exact E | right; exists ps; split; [lia | exact E]]. }
      destruct (shorten_any STFile ps s1 Hpre) as (n & En & Hn). rewrite En. cbn [pbind].
      assert (ps <= nlen (nfirstn n s1)) as Ln by (rewrite nlen_nfirstn_min'; lia).
      destruct ews; cbn [andb].
      * destruct (ends_with_byte 47 (nfirstn n s1)) eqn:E3; cbn [negb].
        -- exists (nfirstn n s1), hh. split; [reflexivity|]. split; [exact Ln|]. intros _.
           apply ends_with_byte_nnth in E3. destruct E3 as [E3 E4]. unfold seg_inv. repeat split; try lia. exact E4.
        -- exists (nfirstn n s1 ++ [47]), hh. split; [reflexivity|]. split; [rewrite nlen_app; lia|]. intros _.
           apply seg_inv_snoc; lia.
      * exists (nfirstn n s1), hh. split; [reflexivity|]. split; [exact Ln | discriminate].
  - rewrite andb_false_r. destruct (is_single_dot x).
    + rewrite Et, H2. exists (s1 ++ [47]), hh. split; [reflexivity|]. split; [rewrite nlen_app; lia|]. intros _.
      apply seg_inv_snoc; lia.
    + destruct (st_is_file STFile && (nlen s1 =? ps + 1) && is_wdl x) eqn:Ew.
      * apply andb_true_iff in Ew. destruct Ew as [_ Ew]. destruct (is_wdl_head x Ew) as (c & r & -> & _).
        rewrite Et. eexists. exists false. split; [reflexivity|]. split; [rewrite !nlen_app; lia|]. intros ->.
        rewrite app_assoc. apply seg_inv_snoc; rewrite nlen_app; lia.
      * exists ser, hh. split; [reflexivity|]. split; [lia|]. intros E. rewrite (Eser E).
        apply seg_inv_snoc; rewrite nlen_app; lia.
Qed.

Theorem parse_path_unsafe hh l :
  match first_seg ps l s1 [] with
  | FsEnd s _ _ =>
      if dbg && is_double_dot (nskipn (nlen s1) s) then parse_path dbg CUrlParser STFile hh ps s1 l = PPanic
      else good_res (parse_path dbg CUrlParser STFile hh ps s1 l)
  | FsArm => good_res (parse_path dbg CUrlParser STFile hh ps s1 l)
  end.
Proof using H1 H2 H3.
  unfold parse_path. pose proof (first_seg_spec l [] [] hh (or_introl eq_refl)) as S. rewrite app_nil_r in S.
  destruct (first_seg ps l s1 []) as [|s ews rest]; [exact S|].
  destruct S as ((x & ->) & Hrem & E). rewrite E. rewrite nskipn_app_exact.
  pose proof (finish_first x ews hh) as F. cbv zeta in F.
  destruct (dbg && is_double_dot x).
  - destruct ews; rewrite F; reflexivity.
  - destruct F as (s' & hh' & Ef & L & I). destruct ews.
    + rewrite Ef. cbn [pbind].
      eapply good_of_path_res; [apply (loop_any dbg STFile ps ps ltac:(lia)); left; apply I; reflexivity|].
      destruct (I eq_refl) as (_ & _ & _ & _ & _). exact L.
    + rewrite Ef. cbn [pbind]. exists s', hh', rest. split; [reflexivity|]. split; [exact L | apply Hrem; reflexivity].
Qed.
End Unsafe.

(* ---------- the file state ---------- *)
(* the exact class: file_rel_unsafe, the drive-letter arm does not fire inside the first segment, and the
   percent-encoded first segment is a double-dot spelling *)
Definition file_rel_dd (b : url) (l : list N) : bool :=
  file_rel_unsafe b l
  && match shorten_path STFile (path_start b) (b_before_query b) with
     | POk s1 => match first_seg (path_start b) l s1 [] with
                 | FsEnd s _ _ => is_double_dot (nskipn (nlen s1) s)
                 | FsArm => false
                 end
     | _ => false
     end.

(* shorten_path on the path of a well-formed base that is not cannot-be-a-base *)
Lemma shorten_base b : wf_b b = true -> nnth (ser b) (scheme_end b + 1) = Some 47 ->
  exists s1, shorten_path STFile (path_start b) (b_before_query b) = POk s1
    /\ path_start b <= nlen s1 /\ (nlen s1 = path_start b \/ nnth s1 (path_start b) = Some 47).
Proof.
  intros W Hs. destruct (bq_shape b W) as (Ebq & P1 & P2).
  assert (nlen (b_before_query b) = path_end b) as Lbq by (rewrite Ebq; apply nlen_nfirstn; exact P2).
  assert (nlen (b_before_query b) = path_start b \/ nnth (b_before_query b) (path_start b) = Some 47) as Hb.
  { destruct (N.eq_dec (path_end b) (path_start b)) as [E|E]; [left; lia|]. right.
    rewrite Ebq. rewrite nnth_nfirstn by lia. apply base_path_slash; [exact W | exact Hs | lia]. }
  destruct (shorten_any STFile (path_start b) (b_before_query b)) as (n & En & Hn).
  { destruct Hb as [E|E]; [left; exact E | right; exists (path_start b); split; [lia | exact E]]. }
  exists (nfirstn n (b_before_query b)). split; [exact En|].
  split; [rewrite nlen_nfirstn_min'; lia|].
  destruct Hb as [E|E].
  - left. rewrite nlen_nfirstn_min'. lia.
  - right. pose proof (nnth_lt _ _ _ E) as Lt.
    destruct Hn as [Hn|Hn]; [rewrite nnth_nfirstn by lia; exact E | rewrite nfirstn_all by lia; exact E].
Qed.

Section File7.
Variable dbg : bool.
Variable hp : list N -> result host.
Variable hd : host -> list N.
Variable ovr : option (list N -> list N).

Theorem parse_file_exact st b l : wf_b b = true -> nnth (ser b) (scheme_end b + 1) = Some 47 ->
  (parse_file dbg hp hd ovr CUrlParser st (Some b) l = PPanic <-> dbg = true /\ file_rel_dd b l = true).
Proof.
  intros W Hs. unfold file_rel_dd.
  destruct (file_rel_unsafe b l) eqn:Eu; cbn [andb].
  2:{ pose proof (parse_file_ok dbg hp hd ovr st (Some b) l (conj W Eu)) as Hok.
      split; [intros X; contradiction | intros [_ X]; discriminate]. }
  destruct (shorten_base b W Hs) as (s1 & Es & L1 & Hsl).
  unfold file_rel_unsafe in Eu. rewrite Es in Eu. rewrite Es.
  destruct (inp_next l) as [[c af]|] eqn:En; [|discriminate].
  destruct (is_slash_or_bslash c) eqn:Esl; [discriminate|].
  destruct ((c =? 63) || (c =? 35)) eqn:Eq; [discriminate|].
  destruct (starts_with_wdl_segment l) eqn:Ew; [discriminate|].
  apply negb_true_iff in Eu.
  apply orb_false_iff in Eq. destruct Eq as [E63 E35].
  unfold parse_file, inp_split_first. rewrite En, Esl, E63, E35, Ew. cbn [negb]. rewrite Es. cbn [pbind].
  pose proof (parse_path_unsafe dbg (path_start b) s1 L1 Eu Hsl true l) as P.
  destruct (first_seg (path_start b) l s1 []) as [|s ews rest].
  - destruct P as (s2 & hh' & rem & E & L2 & Hr). rewrite E. cbn [pbind].
    split; [|intros [_ X]; discriminate]. intros X. exfalso. revert X.
    apply wqf_ok; [exact Hr|]. intros _ _. apply fixup_slash; [reflexivity | exact L2].
  - destruct (is_double_dot (nskipn (nlen s1) s)); [destruct dbg|]; cbn [andb] in P.
    + rewrite P. cbn [pbind]. split; [intros _; split; reflexivity | reflexivity].
    + destruct P as (s2 & hh' & rem & E & L2 & Hr). rewrite E. cbn [pbind].
      split; [|intros [X _]; discriminate]. intros X. exfalso. revert X.
      apply wqf_ok; [exact Hr|]. intros _ _. apply fixup_slash; [reflexivity | exact L2].
    + rewrite andb_false_r in P. destruct P as (s2 & hh' & rem & E & L2 & Hr). rewrite E. cbn [pbind].
      split; [|intros [_ X]; discriminate]. intros X. exfalso. revert X.
      apply wqf_ok; [exact Hr|]. intros _ _. apply fixup_slash; [reflexivity | exact L2].
Qed.
End File7.

(* ---------- top level ---------- *)
Definition known_c04_7x (base : option url) (input : list N) : bool :=
  let l := input_new_trim_c0 input in
  match parse_scheme CUrlParser l with
  | Some (sch, rem) =>
      st_is_file (scheme_type_of sch)
      && match base with Some b => list_eqb (b_scheme b) s_file && file_rel_dd b rem | None => false end
  | None => match base with Some b => list_eqb (b_scheme b) s_file && file_rel_dd b l | None => false end
  end.

Lemma known_7x_7b base input : known_c04_7x base input = true -> known_c04_7b base input = true.
Proof.
  unfold known_c04_7x, known_c04_7b, file_rel_dd. cbv zeta.
  destruct (parse_scheme CUrlParser (input_new_trim_c0 input)) as [[sch rem]|].
  - destruct (st_is_file (scheme_type_of sch)); [|discriminate]. cbn [andb].
    destruct base as [b|]; [|discriminate]. destruct (list_eqb (b_scheme b) s_file); [|discriminate]. cbn [andb].
    intros H. apply andb_true_iff in H. tauto.
  - destruct base as [b|]; [|discriminate]. destruct (list_eqb (b_scheme b) s_file); [|discriminate]. cbn [andb].
    intros H. apply andb_true_iff in H. tauto.
Qed.

Lemma scheme_file_eq sch : st_is_file (scheme_type_of sch) = true -> sch = s_file.
Proof.
  unfold scheme_type_of.
  destruct (list_eqb sch s_http || list_eqb sch s_https || list_eqb sch s_ws || list_eqb sch s_wss || list_eqb sch s_ftp);
    [discriminate|].
  destruct (list_eqb sch s_file) eqn:E; [|discriminate]. intros _. apply list_eqb_spec. exact E.
Qed.

Section Top7.
Variable dbg : bool.
Variable hp hpo : list N -> result host.
Variable hd : host -> list N.
Variable ovr : option (list N -> list N).

Theorem parse_url_panic_iff base input :
  match base with Some b => base_ok b = true | None => True end ->
  (parse_url dbg hp hpo hd ovr base input = PPanic <-> dbg = true /\ known_c04_7x base input = true).
Proof.
  intros Hb.
  destruct (known_c04_7b base input) eqn:E7b.
  2:{ pose proof (parse_url_ok3 dbg hp hpo hd ovr base input Hb E7b) as Hok.
      split; [intros X; contradiction|]. intros [_ X]. apply known_7x_7b in X. congruence. }
  unfold known_c04_7b in E7b. unfold known_c04_7x, parse_url. cbv zeta in *.
  destruct (parse_scheme CUrlParser (input_new_trim_c0 input)) as [[sch rem]|].
  - destruct (st_is_file (scheme_type_of sch)) eqn:Ef; [|discriminate]. cbn [andb] in *.
    destruct base as [b|]; [|discriminate].
    destruct (list_eqb (b_scheme b) s_file) eqn:Efile; [|discriminate]. cbn [andb] in *.
    pose proof (scheme_file_eq sch Ef) as ->.
    unfold parse_with_scheme. change (to_u32 (nlen s_file)) with (POk 4). cbn [pbind].
    change (scheme_type_of s_file) with STFile. cbv iota. rewrite Efile.
    unfold base_ok in Hb. apply andb_true_iff in Hb. destruct Hb as [W Hsl].
    apply list_eqb_spec in Efile. rewrite Efile in Hsl. change (st_is_special (scheme_type_of s_file)) with true in Hsl.
    cbn [negb orb] in Hsl.
    apply parse_file_exact; [exact W | apply byte_eqb_nnth; exact Hsl].
  - destruct base as [b|]; [|discriminate].
    destruct (list_eqb (b_scheme b) s_file) eqn:Efile; [|discriminate]. cbn [andb] in *.
    unfold base_ok in Hb. apply andb_true_iff in Hb. destruct Hb as [W Hsl].
    apply list_eqb_spec in Efile. rewrite Efile in Hsl. change (st_is_special (scheme_type_of s_file)) with true in Hsl.
    cbn [negb orb] in Hsl.
    assert (inp_starts_with_char 35 (input_new_trim_c0 input) = false) as E35.
    { unfold file_rel_unsafe, inp_starts_with_char in *. destruct (inp_next (input_new_trim_c0 input)) as [[c r]|]; [|reflexivity].
      destruct (is_slash_or_bslash c); [discriminate|].
      destruct (c =? 35); [rewrite orb_true_r in E7b; discriminate | reflexivity]. }
    rewrite E35. rewrite (cannot_be_a_base_eval b W). rewrite Hsl. cbn [negb]. rewrite Efile.
    change (st_is_file (scheme_type_of s_file)) with true. cbv iota.
    apply parse_file_exact; [exact W | apply byte_eqb_nnth; exact Hsl].
Qed.
End Top7.
