(* Proofs/C01_EqFileRel.v - C01 equivalence, file scheme: the canonical model record (auth_url of
   Proofs/C01_EqAuth.v with scheme "file", no credentials, no port: exactly the record parse_file builds with
   file_url) satisfies the structural invariant, has the ten API strings of the Standard's record and is
   `related` to it.  Same proofs as Proofs/C01_EqSpRel.v; the record of side conditions asks for the file
   scheme type, empty credentials and no port (which `spec_valid` needs of a file URL). *)
From RU Require Import Base.Prelude Base.Utf8 Base.Utf8Facts Model.AsciiSet Gen.Tables
  Model.PercentEncoding Model.HostT Model.UrlRecord Model.Parser Model.Setters Model.WF Spec.Whatwg
  Proofs.ListN Proofs.C14_Set Proofs.C14_Enc Proofs.C14_Views Proofs.C02_Enc Proofs.C02_Parts
  Proofs.C02_Opaque Proofs.C02_Path Proofs.C02_PathL1 Proofs.C02_AuthWf Proofs.C03_WF Proofs.C01_Tables Proofs.C08_Input
  Proofs.C01_EqRun Proofs.C01_EqEnc Proofs.C01_EqApi Proofs.C01_EqOpaque Proofs.C01_EqDots Proofs.C01_EqPathSpec
  Proofs.C06_List Proofs.C06_Steps Proofs.C01_EqRef Proofs.C01_EqPath Proofs.C01_EqOverflow
  Proofs.C01_EqAuthSpec Proofs.C01_EqAuthModel Proofs.C01_EqAuth.

(* ================= the canonical pair is related ================= *)
Record auth_ok_f (shs : spec_host -> list N) (sch un pw ht : list N) (hi : host_internal) (sh : spec_host)
       (po : option N) (segs : list (list N)) (q f : option (list N)) : Prop := mk_auth_ok_f_s {
  akf_sch : scheme_canon sch = true;
  akf_ns : scheme_type_of sch = STFile;
  akf_ht : ht = shs sh;
  akf_col : starts_with_cp 58 ht = false;
  akf_hi : hi = HI_None -> ht = [];
  akf_hp : ht = [] -> po = None;
  akf_po : forall p, po = Some p -> p <= 65535;
  akf_pt : forallb (fun c => negb ((c =? 63) || (c =? 35))) (flat_map (fun s => 47 :: s) segs) = true;
  akf_q : opt_clean (query_set STFile) q;
  akf_file : un = [] /\ pw = [] /\ po = None
}.

Section Related.
Variable dbg : bool.
Variable shs : spec_host -> list N.

Section One.
Variables (sch un pw ht : list N) (hi : host_internal) (sh : spec_host) (po : option N)
          (segs : list (list N)) (q f : option (list N)).
Hypothesis K : auth_ok_f shs sch un pw ht hi sh po segs q f.

Let pt := flat_map (fun s => 47 :: s) segs.
Let u := auth_url sch un pw ht hi po pt q f.
Let s0 := auth_s0 sch.
Let s1 := s0 ++ cred_text un pw.
Let s2 := s1 ++ ht.
Let s3 := s2 ++ port_suffix po.
Let s4 := s3 ++ pt.

Lemma auf_ser : ser u = s4 ++ qf_text q f. Proof. reflexivity. Qed.
Lemma s0f_len : nlen s0 = nlen sch + 3.
Proof. unfold s0, auth_s0. rewrite !nlen_app. unfold nlen. cbn [length]. lia. Qed.

Lemma auf_has_authority : has_authority_b u = true.
Proof.
  unfold has_authority_b, u, auth_url. cbn [ser scheme_end]. unfold auth_s0. rewrite <- !app_assoc.
  rewrite nskipn_app_len. reflexivity.
Qed.

(* the byte after the credentials is not ':' *)
Lemma auf_after_cred : starts_with_cp 58 (ht ++ port_suffix po ++ pt ++ qf_text q f) = false.
Proof.
  destruct K as [_ _ _ Hcol _ Hhp _ _ _ _]. rewrite starts_with_cp_app. destruct ht as [|a r] eqn:E; [|exact Hcol].
  rewrite (Hhp eq_refl). cbn [port_suffix app]. rewrite starts_with_cp_app.
  unfold pt. destruct (flat_map (fun s => 47 :: s) segs) eqn:E2; [apply qf_text_head|].
  rewrite <- E2. apply flat_map_head.
Qed.

Lemma auf_wf : wf_b u = true.
Proof.
  destruct K as [Hsch Hnsp Hht Hcol Hhi Hhp Hpo Hpt Hq Hfile].
  unfold scheme_canon in Hsch. apply andb_true_iff in Hsch. destruct Hsch as [Hhead Hall].
  pose proof s0f_len as L0.
  unfold wf_b. rewrite auf_has_authority. apply andb_true_iff. split; [apply andb_true_iff; split|].
  - (* scheme *)
    unfold wf_scheme, u, auth_url. cbn [ser scheme_end]. unfold auth_s0.
    repeat (apply andb_true_iff; split).
    + destruct sch; [discriminate|]. unfold nlen. cbn [length]. lia.
    + destruct sch as [|c s]; [discriminate|]. cbn [app]. unfold is_alpha. rewrite Hhead. apply orb_true_r.
    + rewrite <- !app_assoc. rewrite nfirstn_app_len.
      apply (forallb_impl scheme_out_char); [exact scheme_out_char_scheme_char | exact Hall].
    + rewrite <- !app_assoc. cbn [app]. apply byte_eqb_app.
  - (* authority *)
    unfold wf_authority, u, auth_url.
    cbn [ser scheme_end username_end host_start host_end hosti port path_start]. fold s0 s1 s2 s3 s4.
    assert (nlen s1 = nlen s0 + nlen (cred_text un pw)) as L1 by (unfold s1; apply nlen_app).
    assert (nlen s2 = nlen s1 + nlen ht) as L2 by (unfold s2; apply nlen_app).
    assert (nlen s3 = nlen s2 + nlen (port_suffix po)) as L3 by (unfold s3; apply nlen_app).
    assert (nlen s4 = nlen s3 + nlen pt) as L4 by (unfold s4; apply nlen_app).
    pose proof (cred_text_len un pw) as Lc.
    repeat (apply andb_true_iff; split).
    + lia.
    + lia.
    + lia.
    + lia.
    + rewrite nlen_app. lia.
    + (* userinfo delimiters *)
      assert (s4 ++ qf_text q f = s0 ++ cred_text un pw ++ (ht ++ port_suffix po ++ pt ++ qf_text q f)) as EF.
      { unfold s4, s3, s2, s1. rewrite <- !app_assoc. reflexivity. }
      rewrite EF, L1.
      destruct (nlen s0 + nlen un =? nlen s0 + nlen (cred_text un pw)) eqn:E.
      * apply N.eqb_eq in E. assert (nlen (cred_text un pw) = nlen un) as E' by lia.
        destruct (cred_same_len un pw E') as [-> _]. rewrite nlen_nil. apply N.eqb_eq. lia.
      * exact (cred_delims s0 un pw _ E).
    + (* no ':' right after "//" without credentials *)
      destruct (nlen s0 + nlen un =? nlen s1) eqn:E; [|reflexivity].
      apply N.eqb_eq in E. assert (nlen (cred_text un pw) = nlen un) as E' by lia.
      destruct (cred_same_len un pw E') as [Eu Ec].
      rewrite Eu, nlen_nil, N.add_0_r.
      assert (s4 ++ qf_text q f = s0 ++ ht ++ port_suffix po ++ pt ++ qf_text q f) as ->.
      { unfold s4, s3, s2, s1. rewrite Ec. rewrite <- !app_assoc. reflexivity. }
      rewrite byte_eqb_head. rewrite auf_after_cred. reflexivity.
    + (* host kind *)
      destruct hi; try reflexivity. rewrite L2. rewrite (Hhi eq_refl). rewrite nlen_nil. apply N.eqb_eq. lia.
    + (* port *)
      destruct po as [p|] eqn:Epo.
      * pose proof (Hpo p eq_refl) as Hp. cbn [port_suffix] in *.
        repeat (apply andb_true_iff; split).
        -- unfold s4, s3. rewrite <- !app_assoc. cbn [app]. apply byte_eqb_app.
        -- apply list_eqb_spec. rewrite L3. rewrite nlen_cons.
           replace (nlen s2 + (1 + nlen (decimal p)) - (nlen s2 + 1)) with (nlen (decimal p)) by lia.
           unfold s4, s3. rewrite <- !app_assoc. rewrite nskipn_app_add. cbn [app].
           change (nskipn 1 (58 :: decimal p ++ pt ++ qf_text q f)) with (decimal p ++ pt ++ qf_text q f).
           apply nfirstn_app_len.
        -- rewrite L3, nlen_cons. apply N.eqb_eq. lia.
        -- apply N.leb_le. exact Hp.
      * cbn [port_suffix] in *. rewrite L3, nlen_nil. apply N.eqb_eq. lia.
    + (* the path starts with '/' or is empty *)
      unfold s4. rewrite <- app_assoc. rewrite !byte_eqb_head.
      unfold pt. destruct segs as [|g gs]; [|cbn [flat_map app starts_with_cp]; replace (47 =? 47) with true by reflexivity;
                                              rewrite orb_true_r; reflexivity].
      cbn [flat_map app]. rewrite nlen_app.
      destruct q as [x|]; [cbn; rewrite !orb_true_r; reflexivity|].
      destruct f as [y|]; [cbn; rewrite !orb_true_r; reflexivity|].
      cbn [qf_text qf_qtext qf_ftext app]. rewrite ?app_nil_r, nlen_nil, N.add_0_r, N.eqb_refl. reflexivity.
  - (* query and fragment *)
    apply (wf_qf_generic_st STFile s3 pt q f u); try reflexivity; assumption.
Qed.


Lemma auf_ue_lt : is_nil pw = false -> nlen s0 + nlen un < nlen (ser u).
Proof.
  intros H. rewrite auf_ser. unfold s4, s3, s2, s1. unfold cred_text. rewrite H, andb_false_r.
  unfold nlen. repeat rewrite app_length. cbn [length]. lia.
Qed.

Lemma auf_has_password : has_password_b u = negb (is_nil pw).
Proof.
  unfold has_password_b. rewrite auf_has_authority. cbn [andb].
  assert (username_end u = nlen s0 + nlen un) as -> by reflexivity.
  assert (ser u = s0 ++ cred_text un pw ++ (ht ++ port_suffix po ++ pt ++ qf_text q f)) as EF.
  { rewrite auf_ser. unfold s4, s3, s2, s1. rewrite <- !app_assoc. reflexivity. }
  pose proof auf_after_cred as Hac. pose proof auf_ue_lt as Hlt0.
  destruct pw as [|b0 pw'] eqn:Epw; cbn [is_nil negb].
  - destruct un as [|a0 un'] eqn:Eun.
    + rewrite EF. cbn [cred_text is_nil andb app]. rewrite nlen_nil, N.add_0_r. rewrite byte_eqb_head.
      rewrite Hac. apply andb_false_r.
    + rewrite EF. unfold cred_text. cbn [is_nil andb].
      assert (s0 ++ ((a0 :: un') ++ [] ++ [64]) ++ ht ++ port_suffix po ++ pt ++ qf_text q f
              = (s0 ++ a0 :: un') ++ 64 :: (ht ++ port_suffix po ++ pt ++ qf_text q f)) as ->
        by (repeat rewrite <- app_assoc; reflexivity).
      rewrite <- nlen_app. rewrite byte_eqb_head. cbn [starts_with_cp N.eqb Pos.eqb]. apply andb_false_r.
  - pose proof (Hlt0 eq_refl) as Hlt.
    replace (nlen s0 + nlen un =? nlen (ser u)) with false by lia. cbn [negb andb].
    rewrite EF. unfold cred_text. cbn [is_nil]. rewrite andb_false_r.
    assert (s0 ++ (un ++ (58 :: b0 :: pw') ++ [64]) ++ ht ++ port_suffix po ++ pt ++ qf_text q f
            = (s0 ++ un) ++ 58 :: ((b0 :: pw') ++ 64 :: (ht ++ port_suffix po ++ pt ++ qf_text q f))) as ->
      by (repeat rewrite <- app_assoc; reflexivity).
    rewrite <- nlen_app. apply byte_eqb_app.
Qed.

Theorem auf_api : api_of_model dbg u = Some (spec_api_list shs (spec_auth_url sch un pw sh po segs q f)).
Proof.
  pose proof auf_wf as W. destruct K as [Hsch Hnsp Hht Hcol Hhi Hhp Hpo Hpt Hq Hfile].
  pose proof s0f_len as L0.
  assert (nlen s1 = nlen s0 + nlen (cred_text un pw)) as L1 by (unfold s1; apply nlen_app).
  assert (nlen s2 = nlen s1 + nlen ht) as L2 by (unfold s2; apply nlen_app).
  assert (nlen s3 = nlen s2 + nlen (port_suffix po)) as L3 by (unfold s3; apply nlen_app).
  assert (nlen s4 = nlen s3 + nlen pt) as L4 by (unfold s4; apply nlen_app).
  rewrite (api_of_model_eval dbg u W). f_equal.
  rewrite auf_has_password.
  unfold pidx. rewrite auf_has_password, auf_has_authority.
  unfold piece.
  assert (has_host u = match hi with HI_None => false | _ => true end) as EHH by reflexivity.
  rewrite EHH.
  change (scheme_end u) with (nlen sch). change (username_end u) with (nlen s0 + nlen un).
  change (host_start u) with (nlen s1). change (host_end u) with (nlen s2). change (path_start u) with (nlen s3).
  change (port u) with po. change (query_start u) with (qf_qs (nlen s4) q).
  change (fragment_start u) with (qf_fs (nlen s4) q f). rewrite auf_ser.
  unfold spec_api_list, get_href, get_protocol, get_username, get_password, get_host, get_hostname,
    get_port, get_pathname, get_search, get_hash, serialize_host_opt, serialize_path.
  rewrite (serialize_auth shs sch un pw sh po segs q f false Hpo).
  unfold spec_auth_url. cbn [su_scheme su_username su_password su_host su_port su_path su_query su_fragment].
  rewrite <- Hht. fold pt. fold s0 s1 s2 s3 s4.
  assert (match qf_qs (nlen s4) q with
          | Some x => x
          | None => match qf_fs (nlen s4) q f with Some y => y | None => nlen (s4 ++ qf_text q f) end
          end = nlen s4) as EAP.
  { destruct q as [x|]; [reflexivity|]. destruct f as [y|]; cbn [qf_qs qf_fs qf_qtext].
    - unfold nlen at 2. cbn [length]. lia.
    - unfold qf_text. cbn [qf_qtext qf_ftext app]. rewrite app_nil_r. reflexivity. }
  assert (match qf_fs (nlen s4) q f with Some y => y | None => nlen (s4 ++ qf_text q f) end
          = nlen (s4 ++ qf_qtext q)) as EAQ.
  { destruct f as [y|]; cbn [qf_fs]; [symmetry; apply nlen_app|].
    unfold qf_text. cbn [qf_ftext]. rewrite app_nil_r. reflexivity. }
  rewrite EAP, EAQ.
  apply list10_eq.
  - (* href *) unfold qf_text. reflexivity.
  - (* protocol *)
    unfold s4, s3, s2, s1, s0, auth_s0. rewrite <- !app_assoc.
    replace (nlen sch + 1) with (nlen (sch ++ [58])) by (clear; ll).
    rewrite app_assoc. apply nfirstn_app_len.
  - (* username *)
    replace (nlen sch + 3) with (nlen s0) by lia. rewrite <- nlen_app.
    assert (s4 ++ qf_text q f = s0 ++ un ++ (cred_tail un pw ++ ht ++ port_suffix po ++ pt ++ qf_text q f)) as ->.
    { unfold s4, s3, s2, s1. rewrite cred_text_split. rewrite <- !app_assoc. reflexivity. }
    apply piece_mid.
  - (* password *)
    destruct pw as [|b0 pw'] eqn:Epw; cbn [is_nil negb]; [reflexivity|].
    assert (s4 ++ qf_text q f
            = (s0 ++ un ++ [58]) ++ (b0 :: pw') ++ (64 :: ht ++ port_suffix po ++ pt ++ qf_text q f)) as ->.
    { unfold s4, s3, s2, s1, cred_text. cbn [is_nil]. rewrite andb_false_r. repeat rewrite <- app_assoc. reflexivity. }
    replace (nlen s0 + nlen un + 1) with (nlen (s0 ++ un ++ [58])) by ll.
    replace (nlen s1 - 1) with (nlen ((s0 ++ un ++ [58]) ++ b0 :: pw')).
    2:{ rewrite L1. unfold cred_text. cbn [is_nil]. rewrite andb_false_r. clear. ll. }
    apply piece_mid.
  - (* host *)
    assert (match po with Some p => nlen s2 + 1 + count_digits p | None => nlen s2 end = nlen (s1 ++ ht ++ port_suffix po)) as ->.
    { rewrite app_assoc. fold s2. rewrite nlen_app. destruct po as [p|]; cbn [port_suffix].
      - rewrite (count_digits_decimal p (Hpo p eq_refl)), nlen_cons. lia.
      - rewrite nlen_nil. lia. }
    assert (s4 ++ qf_text q f = s1 ++ (ht ++ port_suffix po) ++ (pt ++ qf_text q f)) as ->.
    { unfold s4, s3, s2. rewrite <- !app_assoc. reflexivity. }
    rewrite piece_mid. destruct po as [p|]; cbn [port_suffix]; [|apply app_nil_r].
    rewrite (decimal_serialize p (Hpo p eq_refl)). reflexivity.
  - (* hostname *)
    assert (nfirstn (nlen s2 - nlen s1) (nskipn (nlen s1) (s4 ++ qf_text q f)) = ht) as E.
    { assert (s4 ++ qf_text q f = s1 ++ ht ++ (port_suffix po ++ pt ++ qf_text q f)) as ->.
      { unfold s4, s3, s2. rewrite <- !app_assoc. reflexivity. }
      unfold s2. apply piece_mid. }
    destruct hi; try exact E. symmetry. apply Hhi. reflexivity.
  - (* port *)
    destruct po as [p|]; cbn [port_suffix] in *.
    + rewrite (count_digits_decimal p (Hpo p eq_refl)).
      assert (s4 ++ qf_text q f = (s2 ++ [58]) ++ decimal p ++ (pt ++ qf_text q f)) as ->.
      { unfold s4, s3. rewrite <- !app_assoc. reflexivity. }
      replace (nlen s2 + 1) with (nlen (s2 ++ [58])) by (clear; ll).
      rewrite <- nlen_app. rewrite piece_mid. apply decimal_serialize. apply Hpo. reflexivity.
    + rewrite N.sub_diag. reflexivity.
  - (* pathname *)
    assert (s4 ++ qf_text q f = s3 ++ pt ++ qf_text q f) as -> by (unfold s4; rewrite <- app_assoc; reflexivity).
    exact (piece_mid s3 pt (qf_text q f)).
  - (* search *)
    rewrite (nlen_app s4). replace (nlen s4 + nlen (qf_qtext q) - nlen s4) with (nlen (qf_qtext q)) by lia.
    rewrite nskipn_app_len. unfold qf_text. rewrite nfirstn_app_len. apply q_trim_qtext.
  - (* hash *)
    unfold qf_text. rewrite app_assoc. rewrite nskipn_app_len. apply q_trim_ftext.
Qed.


Theorem related_auth_f : related dbg shs u (spec_auth_url sch un pw sh po segs q f).
Proof.
  pose proof auf_wf as W. pose proof auf_api as A. destruct K as [Hsch Hnsp Hht Hcol Hhi Hhp Hpo Hpt Hq Hfile].
  constructor.
  - exact W.
  - exact A.
  - (* before the fragment *)
    rewrite (serialize_auth shs sch un pw sh po segs q f true Hpo). rewrite <- Hht. fold pt s0 s1 s2 s3 s4.
    rewrite app_nil_r. unfold b_before_fragment. change (fragment_start u) with (qf_fs (nlen s4) q f). rewrite auf_ser.
    unfold qf_text. destruct f as [y|]; cbn [qf_fs qf_ftext].
    + rewrite <- nlen_app. rewrite app_assoc. apply nfirstn_app_exact.
    + rewrite app_nil_r. reflexivity.
  - (* before the query *)
    change (set_query (spec_auth_url sch un pw sh po segs q f) None) with (spec_auth_url sch un pw sh po segs None f).
    rewrite (serialize_auth shs sch un pw sh po segs None f true Hpo). rewrite <- Hht. fold pt s0 s1 s2 s3 s4.
    cbn [qf_qtext app]. rewrite app_nil_r. unfold b_before_query.
    change (query_start u) with (qf_qs (nlen s4) q). change (fragment_start u) with (qf_fs (nlen s4) q f). rewrite auf_ser.
    unfold qf_text. destruct q as [x|]; destruct f as [y|]; cbn [qf_qs qf_fs qf_qtext qf_ftext].
    + apply nfirstn_app_exact.
    + apply nfirstn_app_exact.
    + cbn [app]. rewrite nlen_nil, N.add_0_r. apply nfirstn_app_exact.
    + cbn [app]. apply app_nil_r.
  - (* cannot be a base *)
    rewrite (cannot_be_a_base_eval _ W). cbn [has_opaque_path su_path spec_auth_url]. do 2 f_equal.
    change (scheme_end u) with (nlen sch). rewrite auf_ser. unfold s4, s3, s2, s1, s0, auth_s0.
    repeat rewrite <- app_assoc.
    replace (nlen sch + 1) with (nlen (sch ++ [58])) by (clear; ll). rewrite app_assoc. cbn [app]. rewrite byte_eqb_app. reflexivity.
  - (* scheme *)
    unfold b_scheme. change (scheme_end u) with (nlen sch). rewrite auf_ser. unfold s4, s3, s2, s1, s0, auth_s0.
    repeat rewrite <- app_assoc. apply nfirstn_app_len.
  - split; [intros H; discriminate H|]. cbn [su_scheme su_username su_password su_port spec_auth_url]. intros _. exact Hfile.
Qed.

End One.
End Related.
