(* Proofs/C03_ReachHost.v - the hypothesis HostWf of C03_Reach.v follows from the round-trip hypothesis
   HostRT that the C02 theorems use (hence from C02's HostOK), it has a concrete instance, and examples of
   relative references that go through parse_url_wf. *)
From Coq Require Import String.
From RU Require Import Base.Prelude Model.HostT Model.UrlRecord Model.Parser Model.WF
  Proofs.ListN Proofs.C06_List Proofs.C06_Suffix Proofs.C02_Reach Proofs.C02_AuthParts Proofs.C02_AuthMain
  Proofs.C04_ParseTotal Proofs.C03_ReachParts Proofs.C03_Reach.
Open Scope N_scope.
Open Scope list_scope.

Lemma host_text_ok_wf t : C02_Reach.host_text_ok t -> host_text_wf t.
Proof.
  intros Ht. destruct (host_text_facts t Ht) as [Hf H58]. pose proof (host_text_last t [] Ht) as Hl.
  destruct Ht as (_ & Hne & _). destruct t as [|c r]; [contradiction|].
  split; [discriminate|]. cbn [forallb] in Hf. apply andb_true_iff in Hf. destruct Hf as [Hc _].
  unfold plainc in Hc. change (nnth (c :: r) 0) with (Some c).
  split; [intros E; inversion E; subst c; discriminate H58|].
  split; [intros E; inversion E; subst c; discriminate Hc | exact Hl].
Qed.

Theorem HostRT_HostWf hp hpo hd : HostRT hp hpo hd -> HostWf hp hpo hd.
Proof.
  intros (H1 & H2 & H3 & _). split; [|split; [|exact H3]].
  - intros s h E Hne. apply host_text_ok_wf. exact (proj1 (H1 s h E Hne)).
  - intros s h E Hne. apply host_text_ok_wf. exact (proj1 (H2 s h E Hne)).
Qed.

Lemma ex_host_wf : HostWf ex_hp ex_hp ex_hd.
Proof. apply HostRT_HostWf. exact (proj1 ex_host_RT). Qed.

(* computable form of C06's host_text_ok, for the examples *)
Definition host_text_b (u : url) : bool :=
  negb (has_host u)
  || ((host_start u <? host_end u) && negb (byte_eqb (ser u) (host_start u) 58) && negb (byte_eqb (ser u) (host_start u) 64)).

Lemma host_text_b_ok u : host_text_b u = true -> C06_Suffix.host_text_ok u.
Proof.
  unfold host_text_b. intros H Hh. rewrite Hh in H. cbn [negb orb] in H.
  apply andb_true_iff in H. destruct H as [H H3]. apply andb_true_iff in H. destruct H as [H1 H2].
  split; [lia|]. split; apply negb_true_iff; assumption.
Qed.

(* base "http://u@h.x:81/a/b?q#f" and "a://h/p/q?x", with the references "../c?r", "//o.x/", "#g", "?y",
   "/z", "" and "http:rel" (same special scheme): each is outside the file class, the base satisfies the
   premises, and the result is as expected *)
Definition ex_join (base ref expect : string) : bool :=
  match parse_url true ex_hp ex_hp ex_hd None None (B base) with
  | POk b =>
      base_ok b && host_text_b b && negb (file_involved (Some b) (B ref))
      && match parse_url true ex_hp ex_hp ex_hd None (Some b) (B ref) with
         | POk u => list_eqb (ser u) (B expect) && wf_b u && host_text_b u
         | _ => false
         end
  | _ => false
  end.

Lemma join_examples :
  ex_join "http://u@h.x:81/a/b?q#f" "../c?r" "http://u@h.x:81/c?r" = true
  /\ ex_join "http://u@h.x:81/a/b?q#f" "//o.x/" "http://o.x/" = true
  /\ ex_join "http://u@h.x:81/a/b?q#f" "#g" "http://u@h.x:81/a/b?q#g" = true
  /\ ex_join "http://u@h.x:81/a/b?q#f" "?y" "http://u@h.x:81/a/b?y" = true
  /\ ex_join "http://u@h.x:81/a/b?q#f" "http:rel" "http://u@h.x:81/a/rel" = true
  /\ ex_join "a://h/p/q?x" "/z" "a://h/z" = true
  /\ ex_join "a://h/p/q?x" "" "a://h/p/q?x" = true
  /\ ex_join "a:/p/q" "..//r" "a:/.//r" = true.
Proof. vm_compute. repeat split. Qed.

(* ---------- the statement without a hypothesis on the host functions is false ---------- *)
(* a "host display" that starts with ':' : "a://x" is serialized as "a://:" with username_end = host_start = 4
   and a ':' at that offset, which password() would read as the start of a password *)
Definition bad_hp (_ : list N) : result host := Ok (HDomain [58]).
Definition bad_hd (h : host) : list N := match h with HDomain d => d | _ => [] end.

Lemma no_host_hypothesis_witness :
  exists u, parse_url true bad_hp bad_hp bad_hd None None (B "a://x") = POk u
            /\ ser u = B "a://:" /\ wf_b u = false.
Proof. eexists. split; [vm_compute; reflexivity|]. split; vm_compute; reflexivity. Qed.

(* the file scheme: absolute (host, drive letters, '|'), and references against a file base *)
Definition ex_file (input expect : string) : bool :=
  match parse_url true ex_hp ex_hp ex_hd None None (B input) with
  | POk u => file_involved None (B input) && list_eqb (ser u) (B expect) && wf_b u && host_text_b u
  | _ => false
  end.

Lemma file_examples :
  ex_file "file://h/C|/x" "file:///C:/x" = true /\ ex_file "file:///C|" "file:///C|" = true
  /\ ex_file "file:\\h\p?q#f" "file://h/p?q#f" = true /\ ex_file "file:x" "file:///x" = true
  /\ ex_join "file://h/a/b?q#f" "/C|/x" "file:///C:/x" = false   (* file_involved: outside ex_join's class *)
  /\ match parse_url true ex_hp ex_hp ex_hd None None (B "file://h/a/b?q#f") with
     | POk b => base_ok b && host_text_b b
                && match parse_url true ex_hp ex_hp ex_hd None (Some b) (B "../c") with
                   | POk u => list_eqb (ser u) (B "file://h/c") && wf_b u && host_text_b u
                   | _ => false
                   end
     | _ => false
     end = true.
Proof. vm_compute. repeat split. Qed.
