(* Proofs/C02_SetScheme.v - L2 for Url::set_scheme (and url::quirks::set_protocol, which is set_scheme on the text in
   front of the first ':') on the four canonical forms.  The new scheme text is the output of the scheme state
   (setter context): lower-case, canonical.  The code refuses a change between special and non-special and "file" on a
   URL with authority, so the scheme kind of the record stays.  The serialization keeps everything behind the scheme,
   every offset moves by the difference of the scheme lengths; afterwards the code calls set_port(previous port),
   which on a special scheme drops a port equal to the NEW scheme's default (http://h:443/ -> https://h/): the
   intermediate record may violate the port clause of the canonical form, the result does not. *)
From RU Require Import Base.Prelude Base.Utf8 Base.Utf8Facts Model.AsciiSet Gen.Tables
  Model.PercentEncoding Model.HostT Model.UrlRecord Model.Parser Model.Setters Model.WF
  Proofs.ListN Proofs.C14_Set Proofs.C14_Enc Proofs.C14_Views Proofs.C02_Enc Proofs.C02_Parts
  Proofs.C02_Opaque Proofs.C02_Path Proofs.C02_PathL1 Proofs.C02_Reach Proofs.C16_RT Proofs.C02_AuthParts
  Proofs.C02_Auth Proofs.C02_AuthWf Proofs.C02_PathSp Proofs.C02_AuthSp Proofs.C02_AuthMain Proofs.C02_SetQF
  Proofs.C02_Canon Proofs.C02_SetPort Proofs.C02_SetHostFrame.
Open Scope N_scope.
Open Scope list_scope.

(* ---------- the scheme state in any context ---------- *)
Lemma parse_scheme_loop_out_g ctx l : forall acc sch rem,
  parse_scheme_loop ctx acc l = Some (sch, rem) ->
  exists s', sch = rev acc ++ s' /\ forallb scheme_out_char s' = true.
Proof.
  induction l as [|c r IH]; intros acc sch rem H; cbn [parse_scheme_loop] in H.
  - destruct (ctx_eqb ctx CSetter); [|discriminate]. inversion H; subst. exists []. split; [rewrite app_nil_r; reflexivity | reflexivity].
  - destruct (is_tnl c) eqn:Et; [exact (IH _ _ _ H)|].
    destruct (is_lower c || is_digit c || (c =? 43) || (c =? 45) || (c =? 46)) eqn:E1.
    + destruct (IH _ _ _ H) as (s' & Hs & Hf). exists (c :: s'). split.
      * rewrite Hs. cbn [rev]. rewrite <- app_assoc. reflexivity.
      * cbn [forallb]. unfold scheme_out_char at 1. rewrite E1, Hf. reflexivity.
    + destruct (is_upper c) eqn:E2.
      * destruct (IH _ _ _ H) as (s' & Hs & Hf). exists ((c + 32) :: s'). split.
        -- rewrite Hs. cbn [rev]. rewrite <- app_assoc. reflexivity.
        -- cbn [forallb]. rewrite Hf, andb_true_r. unfold scheme_out_char, is_lower, is_upper in *. lia.
      * destruct (c =? 58); [|discriminate]. inversion H; subst. exists []. split; [rewrite app_nil_r; reflexivity | reflexivity].
Qed.

Lemma parse_scheme_head_g ctx l : forall sch rem,
  inp_starts_with_pred is_alpha l = true -> parse_scheme_loop ctx [] l = Some (sch, rem) ->
  match sch with c :: _ => is_lower c = true | [] => False end.
Proof.
  induction l as [|c r IH]; intros sch rem Ha H.
  - discriminate.
  - unfold inp_starts_with_pred in Ha. cbn [parse_scheme_loop] in H.
    destruct (is_tnl c) eqn:Et.
    + rewrite inp_next_tnl in Ha by exact Et. exact (IH _ _ Ha H).
    + rewrite inp_next_cons in Ha by exact Et.
      destruct (is_lower c || is_digit c || (c =? 43) || (c =? 45) || (c =? 46)) eqn:E1.
      * destruct (parse_scheme_loop_out_g _ _ _ _ _ H) as (s' & Hs & _). rewrite Hs. cbn [rev app].
        unfold is_alpha, is_upper, is_lower, is_digit in *. lia.
      * destruct (is_upper c) eqn:E2.
        -- destruct (parse_scheme_loop_out_g _ _ _ _ _ H) as (s' & Hs & _). rewrite Hs. cbn [rev app].
           unfold is_upper, is_lower in *. lia.
        -- exfalso. unfold is_alpha in Ha. rewrite E2 in Ha. cbn [orb] in Ha.
           rewrite Ha in E1. discriminate.
Qed.

Theorem parse_scheme_out_g ctx l sch rem : parse_scheme ctx l = Some (sch, rem) -> scheme_canon sch = true.
Proof.
  unfold parse_scheme. destruct (inp_starts_with_pred is_alpha l) eqn:Ea; [|discriminate].
  intros H. unfold scheme_canon.
  pose proof (parse_scheme_head_g ctx l sch rem Ea H) as Hh.
  destruct (parse_scheme_loop_out_g _ _ _ _ _ H) as (s' & Hs & Hf). cbn [rev app] in Hs. subst s'.
  destruct sch as [|c s]; [contradiction|]. rewrite Hh, Hf. reflexivity.
Qed.

(* ---------- the frame: everything behind the scheme, offsets relative to the scheme's end ---------- *)
Definition sf_url (sch Z : list N) (due dhs dhe : N) (hi : host_internal) (pt : option N) (dps : N) (q f : option (list N)) : url :=
  mkUrl ((sch ++ Z) ++ qf_text q f) (nlen sch) (nlen sch + due) (nlen sch + dhs) (nlen sch + dhe) hi pt (nlen sch + dps)
        (qf_qs (nlen (sch ++ Z)) q) (qf_fs (nlen (sch ++ Z)) q f).

Section Swap.
Variable dbg : bool.

Lemma adjust_plus a d b : adjust dbg (a + d) a b = Some (b + d).
Proof. rewrite adjust_ge by lia. f_equal. lia. Qed.

Lemma swap_frame sch Z due dhs dhe hi pt dps q f ns (K : url -> option (url * status)) :
  (let u := sf_url sch Z due dhs dhe hi pt dps q f in
   ue <- adjust dbg (username_end u) (scheme_end u) (nlen ns) ;;
   hs <- adjust dbg (host_start u) (scheme_end u) (nlen ns) ;;
   he <- adjust dbg (host_end u) (scheme_end u) (nlen ns) ;;
   ps <- adjust dbg (path_start u) (scheme_end u) (nlen ns) ;;
   qs <- adjust_opt dbg (query_start u) (scheme_end u) (nlen ns) ;;
   fs <- adjust_opt dbg (fragment_start u) (scheme_end u) (nlen ns) ;;
   rest <- u_slice_from u (scheme_end u) ;;
   K (mkUrl (ns ++ rest) (nlen ns) ue hs he (hosti u) (port u) ps qs fs))
  = K (sf_url ns Z due dhs dhe hi pt dps q f).
Proof.
  cbv zeta. unfold sf_url at 1 2 3 4 5 6 7 8 9 10 11 12 13 14.
  cbn [username_end scheme_end host_start host_end path_start query_start fragment_start hosti port].
  rewrite !adjust_plus. cbn [bindo].
  rewrite adjust_qs, adjust_fs. cbn [bindo].
  unfold u_slice_from, sf_url at 1. cbn [ser]. rewrite <- app_assoc.
  rewrite slice_from_o_some by (rewrite nlen_app; lia). rewrite nskipn_app_len. cbn [bindo].
  f_equal. unfold sf_url. rewrite <- !(nlen_app ns Z). rewrite <- !app_assoc. reflexivity.
Qed.
End Swap.

(* the four forms in the frame *)
Lemma opaque_url_sf sch P q f : opaque_url sch P q f = sf_url sch (58 :: P) 1 1 1 HI_None None 1 q f.
Proof.
  unfold opaque_url, sf_url, opaque_ser, opaque_pre. rewrite !nlen_app. change (nlen [58]) with 1.
  rewrite nlen_cons. rewrite <- !(app_assoc sch). rewrite !N.add_assoc. reflexivity.
Qed.

Lemma noauth_url_sf sch T q f :
  noauth_url sch T q f = sf_url sch (58 :: marker_of T ++ T) 1 1 1 HI_None None (1 + nlen (marker_of T)) q f.
Proof.
  unfold noauth_url, sf_url, noauth_ser, noauth_pre. rewrite !nlen_app. change (nlen [58]) with 1.
  rewrite nlen_cons, nlen_app. rewrite <- !(app_assoc sch). rewrite !N.add_assoc. reflexivity.
Qed.

Lemma auth_url_sf hd sch ui h pt p q f :
  auth_url hd sch ui h pt p q f
  = sf_url sch ([58; 47; 47] ++ ui_text ui ++ hd h ++ port_text pt ++ pth_text p) (3 + ui_ulen ui) (3 + nlen (ui_text ui))
           (3 + nlen (ui_text ui) + nlen (hd h)) (hi_of_host h) pt (3 + nlen (ui_text ui) + nlen (hd h) + nlen (port_text pt)) q f.
Proof.
  unfold auth_url, sf_url, auth_ser, auth_pre. rewrite front_len. unfold auth_front.
  replace (((sch ++ [58; 47; 47]) ++ ui_text ui ++ hd h ++ port_text pt) ++ pth_text p)
    with (sch ++ [58; 47; 47] ++ ui_text ui ++ hd h ++ port_text pt ++ pth_text p) by (rewrite <- !app_assoc; reflexivity).
  rewrite !N.add_assoc. reflexivity.
Qed.

Section SetSchemeFrame.
Variable dbg : bool.

Lemma sf_scheme sch Z due dhs dhe hi pt dps q f : scheme (sf_url sch Z due dhs dhe hi pt dps q f) = Some sch.
Proof.
  unfold scheme, u_slice_to, sf_url. cbn [ser scheme_end]. rewrite slice_to_o_some by (rewrite !nlen_app; lia).
  rewrite <- !app_assoc. rewrite nfirstn_app_len. reflexivity.
Qed.

Theorem set_scheme_sf sch Z due dhs dhe hi pt dps q f x r :
  let U := sf_url sch Z due dhs dhe hi pt dps q f in
  set_scheme dbg U x = Some r ->
  r = (U, SErrUnit) \/
  exists ns rem ha, parse_scheme CSetter (input_new_no_trim x) = Some (ns, rem)
     /\ has_authority dbg U = Some ha
     /\ st_is_special (scheme_type_of ns) = st_is_special (scheme_type_of sch)
     /\ st_is_file (scheme_type_of ns) && ha = false
     /\ exists r', set_port dbg (sf_url ns Z due dhs dhe hi pt dps q f) pt = Some r' /\ r = (fst r', SOk).
Proof.
  intros U. unfold set_scheme.
  destruct (parse_scheme CSetter (input_new_no_trim x)) as [[ns rem]|] eqn:Ep.
  2:{ intros E. inversion E; subst. left; reflexivity. }
  unfold u_scheme_type. unfold U at 1. rewrite sf_scheme. cbn [bindo].
  destruct (has_authority dbg U) as [ha|] eqn:Eh; [|discriminate]. cbn [bindo].
  destruct ((st_is_special (scheme_type_of ns) && negb (st_is_special (scheme_type_of sch)))
            || (negb (st_is_special (scheme_type_of ns)) && st_is_special (scheme_type_of sch))
            || (st_is_file (scheme_type_of ns) && ha)) eqn:E1.
  { intros E. inversion E; subst. left; reflexivity. }
  destruct (negb (inp_is_empty rem) || (negb (has_host U) && st_is_special (scheme_type_of ns))) eqn:E2.
  { intros E. inversion E; subst. left; reflexivity. }
  pose proof (swap_frame dbg sch Z due dhs dhe hi pt dps q f ns
                (fun u1 => r <- set_port dbg u1 (port u1) ;; Some (fst r, SOk))) as Hs.
  cbv beta zeta in Hs. cbv zeta. fold U in Hs. rewrite Hs. clear Hs.
  change (port (sf_url ns Z due dhs dhe hi pt dps q f)) with pt.
  destruct (set_port dbg (sf_url ns Z due dhs dhe hi pt dps q f) pt) as [r'|] eqn:Es; [|discriminate].
  cbn [bindo]. intros E. inversion E; subst r. right. exists ns, rem, ha.
  apply orb_false_iff in E1. destruct E1 as [E1 E1c]. apply orb_false_iff in E1. destruct E1 as [E1a E1b].
  split; [reflexivity|]. split; [reflexivity|]. split.
  - destruct (st_is_special (scheme_type_of ns)); destruct (st_is_special (scheme_type_of sch)); try reflexivity; discriminate.
  - split; [exact E1c|]. exists r'. split; [exact Es | reflexivity].
Qed.
End SetSchemeFrame.

Section SchemeCanon.
Variable dbg : bool.
Variable hp hpo : list N -> result host.
Variable hd : host -> list N.
Hypothesis HRT : HostRT hp hpo hd.

Notation auth_ok := (auth_ok hp hpo hd).
Notation auth_url := (auth_url hd).
Notation auth_ser := (auth_ser hd).
Notation host_ok := (host_ok hp hpo hd).
Notation Canon := (Canon hp hpo hd).

Lemma special_same_ns t : st_is_special t = false -> t = STNotSpecial.
Proof. destruct t; try discriminate; reflexivity. Qed.

(* cannot_have_credentials_or_port needs only the host and the scheme kind (not the port clause) *)
Lemma auth_cannot_port_g st sch ui h pt p q f : scheme_type_of sch = st -> st_is_file st = false -> host_ok st h ->
  cannot_have_credentials_or_port (auth_url sch ui h pt p q f)
  = Some (match h with HDomain [] => true | _ => false end).
Proof.
  intros Kst Hnf Kh.
  unfold cannot_have_credentials_or_port, has_host. cbn [hosti auth_url].
  pose proof (auth_scheme hd sch ui h pt p q f) as Es.
  destruct Kh as [[-> _]|(Hne & Ht & _)]; [reflexivity|].
  assert (hd h <> []) as Hn by (destruct Ht as (_ & Hn & _); exact Hn).
  assert (u_slice (auth_url sch ui h pt p q f) (nlen sch + 3 + nlen (ui_text ui)) (nlen sch + 3 + nlen (ui_text ui) + nlen (hd h))
          = Some (hd h)) as Esl.
  { unfold u_slice. cbn [auth_url ser]. rewrite auth_ser_shape.
    rewrite slice_o_some; [| lia | rewrite !nlen_app; cbn [nlen length]; rewrite !nlen_cons, !nlen_app; lia].
    replace (nlen sch + 3 + nlen (ui_text ui) + nlen (hd h) - (nlen sch + 3 + nlen (ui_text ui))) with (nlen (hd h)) by lia.
    change (sch ++ 58 :: 47 :: 47 :: ui_text ui ++ hd h ++ port_text pt ++ pth_text p ++ qf_text q f)
      with (sch ++ [58; 47; 47] ++ ui_text ui ++ hd h ++ port_text pt ++ pth_text p ++ qf_text q f).
    rewrite (app_assoc sch), (app_assoc (sch ++ [58; 47; 47])).
    replace (nlen sch + 3 + nlen (ui_text ui)) with (nlen ((sch ++ [58; 47; 47]) ++ ui_text ui))
      by (rewrite !nlen_app; reflexivity).
    rewrite nskipn_app_len, nfirstn_app_len. reflexivity. }
  destruct h as [[|c d]|a|pcs]; [contradiction| | |]; cbn [hi_of_host negb host_of hosti auth_url].
  - change (host_start (auth_url sch ui (HDomain (c :: d)) pt p q f)) with (nlen sch + 3 + nlen (ui_text ui)).
    change (host_end (auth_url sch ui (HDomain (c :: d)) pt p q f)) with (nlen sch + 3 + nlen (ui_text ui) + nlen (hd (HDomain (c :: d)))).
    rewrite Esl. cbn [bindo]. rewrite Es. cbn [bindo]. rewrite (sch_not_file st sch Kst Hnf).
    destruct (hd (HDomain (c :: d))); [contradiction | reflexivity].
  - rewrite Es. cbn [bindo]. rewrite (sch_not_file st sch Kst Hnf). reflexivity.
  - rewrite Es. cbn [bindo]. rewrite (sch_not_file st sch Kst Hnf). reflexivity.
Qed.

Lemma auth_has_authority sch ui h pt p q f : has_authority dbg (auth_url sch ui h pt p q f) = Some true.
Proof.
  unfold auth_url. rewrite auth_ser_shape.
  replace (sch ++ 58 :: 47 :: 47 :: ui_text ui ++ hd h ++ port_text pt ++ pth_text p ++ qf_text q f)
    with ((sch ++ 58 :: 47 :: 47 :: ui_text ui ++ hd h ++ port_text pt ++ pth_text p ++ qf_text q f) ++ []) by apply app_nil_r.
  apply has_authority_front.
Qed.

(* the port set_scheme leaves: the old one unless it is the new scheme's default *)
Definition scheme_pt (ns : list N) (pt : option N) : option N :=
  match pt with Some x => if opt_eqb pt (default_port ns) then None else Some x | None => None end.

Lemma scheme_pt_ok ns dflt pt : port_ok dflt pt -> port_ok (default_port ns) (scheme_pt ns pt).
Proof.
  destruct pt as [x|]; cbn [scheme_pt port_ok]; [|tauto]. intros [Hle _].
  destruct (opt_eqb (Some x) (default_port ns)) eqn:Eo; [exact I|]. split; [exact Hle|].
  intros Ed. rewrite Ed in Eo. cbn [opt_eqb] in Eo. rewrite N.eqb_refl in Eo. discriminate Eo.
Qed.

Theorem set_scheme_auth st sch ui h pt p q f x u' s : auth_ok st sch ui h pt p q f -> st_is_file st = false ->
  set_scheme dbg (auth_url sch ui h pt p q f) x = Some (u', s) -> nlen (ser u') <= U32_MAX_P ->
  exists ns pt', auth_ok st ns ui h pt' p q f /\ u' = auth_url ns ui h pt' p q f.
Proof.
  intros K Hnf E Hb. rewrite auth_url_sf in E. apply set_scheme_sf in E. rewrite <- !auth_url_sf in E.
  destruct E as [E | (ns & rem & ha & Ep & Eh & Esp & Efile & r' & Er & E)].
  - inversion E; subst. exists sch, pt. split; [exact K | reflexivity].
  - rewrite <- auth_url_sf in Er. rewrite auth_has_authority in Eh. inversion Eh; subst ha. rewrite andb_true_r in Efile.
    pose proof (parse_scheme_out_g _ _ _ _ Ep) as Hcan.
    assert (scheme_type_of ns = st) as Est.
    { rewrite (ak_st _ _ _ _ _ _ _ _ _ _ _ K) in Esp. destruct st; [discriminate Hnf| |].
      - destruct (scheme_type_of ns); try discriminate; reflexivity.
      - exact (special_same_ns _ Esp). }
    inversion E; subst u' s. clear E.
    unfold set_port in Er. rewrite (auth_cannot_port_g st ns ui h pt p q f Est Hnf (ak_h _ _ _ _ _ _ _ _ _ _ _ K)) in Er.
    cbn [bindo] in Er.
    assert (forall pt', (h = HDomain [] -> pt' = None) -> port_ok (default_port ns) pt' ->
              nlen (auth_ser ns ui h pt' p q f) <= U32_MAX_P -> auth_ok st ns ui h pt' p q f) as Hok.
    { intros pt' Hemp Hpo Hlen. destruct K as [Ksch Kst Kui Kh Kemp Kpt Kp Kq Kf Kb Kbq Kbf].
      destruct (qf_bounds _ _ _ _ Hlen) as [B1 B2]. constructor; try assumption.
      - intros Ee. split; [exact (proj1 (Kemp Ee)) | exact (Hemp Ee)].
      - unfold C02_Auth.auth_ser, auth_pre in Hlen. rewrite !nlen_app in Hlen. lia. }
    destruct (match h with HDomain [] => true | _ => false end) eqn:Ehe.
    + inversion Er; subst r'. cbn [fst] in *. exists ns, pt. split; [|reflexivity].
      apply Hok; [intros Ee; exact (proj2 (ak_emp _ _ _ _ _ _ _ _ _ _ _ K Ee)) | | exact Hb].
      assert (h = HDomain []) as Ee by (destruct h as [[|c d]|a|pcs]; try discriminate Ehe; reflexivity).
      rewrite (proj2 (ak_emp _ _ _ _ _ _ _ _ _ _ _ K Ee)). exact I.
    + rewrite auth_scheme in Er. cbn [bindo] in Er. rewrite auth_url_hp in Er. rewrite set_port_internal_frame in Er.
      cbn [bindo] in Er. inversion Er; subst r'. cbn [fst] in *. rewrite <- auth_url_hp in *.
      exists ns, (scheme_pt ns pt). split; [|reflexivity]. apply Hok; [| | exact Hb].
      * intros Ee. rewrite Ee in Ehe. discriminate Ehe.
      * exact (scheme_pt_ok ns _ pt (ak_pt _ _ _ _ _ _ _ _ _ _ _ K)).
Qed.

(* the forms without authority: no host, so the final set_port refuses and the record keeps the swapped scheme *)
Lemma set_port_nohost u pt : hosti u = HI_None -> set_port dbg u pt = Some (u, SErrUnit).
Proof. intros E. unfold set_port, cannot_have_credentials_or_port, has_host. rewrite E. reflexivity. Qed.

Theorem set_scheme_opaque sch P q f x u' s : opaque_ok sch P q f ->
  set_scheme dbg (opaque_url sch P q f) x = Some (u', s) -> nlen (ser u') <= U32_MAX_P ->
  exists ns, opaque_ok ns P q f /\ u' = opaque_url ns P q f.
Proof.
  intros K E Hb. rewrite opaque_url_sf in E. apply set_scheme_sf in E. rewrite <- !opaque_url_sf in E.
  destruct E as [E | (ns & rem & ha & Ep & Eh & Esp & Efile & r' & Er & E)].
  - inversion E; subst. exists sch. split; [exact K | reflexivity].
  - rewrite <- opaque_url_sf in Er. rewrite set_port_nohost in Er by reflexivity. inversion Er; subst r'. cbn [fst] in E.
    inversion E; subst u' s. clear E Er. exists ns. split; [|reflexivity].
    pose proof (parse_scheme_out_g _ _ _ _ Ep) as Hcan.
    rewrite (ok_ns _ _ _ _ K) in Esp. apply special_same_ns in Esp.
    destruct K as [Ksch Kns KP KPq KPh Kq Kf Klast Kb1 Kbq Kbf]. cbn [opaque_url ser] in Hb.
    destruct (qf_bounds _ _ _ _ Hb) as [B1 B2]. constructor; try assumption.
    unfold opaque_ser, opaque_pre in Hb. rewrite !nlen_app in Hb. rewrite nlen_app. lia.
Qed.

Theorem set_scheme_noauth sch segs last q f x u' s : noauth_ok sch segs last q f ->
  set_scheme dbg (noauth_url sch (path_text segs last) q f) x = Some (u', s) -> nlen (ser u') <= U32_MAX_P ->
  exists ns, noauth_ok ns segs last q f /\ u' = noauth_url ns (path_text segs last) q f.
Proof.
  intros K E Hb. rewrite noauth_url_sf in E. apply set_scheme_sf in E. rewrite <- !noauth_url_sf in E.
  destruct E as [E | (ns & rem & ha & Ep & Eh & Esp & Efile & r' & Er & E)].
  - inversion E; subst. exists sch. split; [exact K | reflexivity].
  - rewrite <- noauth_url_sf in Er. rewrite set_port_nohost in Er by reflexivity. inversion Er; subst r'. cbn [fst] in E.
    inversion E; subst u' s. clear E Er. exists ns. split; [|reflexivity].
    pose proof (parse_scheme_out_g _ _ _ _ Ep) as Hcan.
    rewrite (nk_ns _ _ _ _ _ K) in Esp. apply special_same_ns in Esp.
    destruct K as [Ksch Kns Ksegs Klast Kq Kf Kb1 Kbq Kbf]. cbn [noauth_url ser] in Hb.
    destruct (qf_bounds _ _ _ _ Hb) as [B1 B2]. constructor; try assumption.
    unfold noauth_ser, noauth_pre in Hb. rewrite !nlen_app in Hb. rewrite nlen_app. lia.
Qed.

(* L2: set_scheme keeps Canon, for every argument *)
Theorem set_scheme_Canon u x u' s : Canon u ->
  set_scheme dbg u x = Some (u', s) -> nlen (ser u') <= U32_MAX_P -> Canon u'.
Proof.
  intros C E Hb. destruct C as [sch P q f K | sch segs last q f K | sch ui h pt p q f K | sch ui h pt p q f K Kp].
  - destruct (set_scheme_opaque sch P q f x u' s K E Hb) as (ns & K' & ->). exact (Canon_opaque hp hpo hd ns P q f K').
  - destruct (set_scheme_noauth sch segs last q f x u' s K E Hb) as (ns & K' & ->). exact (Canon_noauth hp hpo hd ns segs last q f K').
  - destruct (set_scheme_auth STNotSpecial sch ui h pt p q f x u' s K eq_refl E Hb) as (ns & pt' & K' & ->).
    exact (Canon_auth hp hpo hd ns ui h pt' p q f K').
  - destruct (set_scheme_auth STSpecialNotFile sch ui h pt p q f x u' s K eq_refl E Hb) as (ns & pt' & K' & ->).
    exact (Canon_special hp hpo hd ns ui h pt' p q f K' Kp).
Qed.

(* url::quirks::set_protocol *)
Theorem q_set_protocol_Canon u x u' s : Canon u ->
  q_set_protocol dbg u x = Some (u', s) -> nlen (ser u') <= U32_MAX_P -> Canon u'.
Proof. unfold q_set_protocol. apply set_scheme_Canon. Qed.
End SchemeCanon.
