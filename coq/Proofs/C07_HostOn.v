(* Proofs/C07_HostOn.v - the host hypothesis restricted to the strings the setters hand to the host functions.
   host_fns_ok (Proofs/C07_EqHostname.v) asks the two sides' host functions to agree on EVERY string; the REAL host
   functions agree (under IdnaOK) on scalar-value strings, non-empty for Host::parse (Proofs/C07_HostReal.v), and not
   on the empty string.  One assignment through hostname / host queries the host functions on ONE string: the buffer of
   the host scan of the value (hscan), a sub-string of the value, never empty for Host::parse.  So the one-step
   theorems hold under host_fns_ok_on (agreement on scalar-value strings, non-empty for Host::parse):
   the functions are replaced by wrappers that answer like them on that buffer and fail elsewhere on both sides
   (wrap_ok: the wrappers satisfy host_fns_ok), and neither side sees the difference (q_set_hostname_ext,
   q_set_host_ext, spec_hostname_ext, spec_host_ext).  Instance: the real host functions under IdnaOK. *)
From Coq Require Import Bool.
From RU Require Import Base.Prelude Base.Utf8 Model.AsciiSet Gen.Tables Model.PercentEncoding
  Model.HostT Model.Host Model.UrlRecord Model.Parser Model.Setters Model.WF Model.KnownC01 Model.KnownC07
  Spec.Whatwg Spec.WhatwgHost Spec.WhatwgHostParse
  Proofs.ListN Proofs.C02_Parts Proofs.C03_WF Proofs.C06_Steps Proofs.C06_FragQuery Proofs.C06_Host Proofs.C08_Input
  Proofs.C01_Tables Proofs.C01_EqRef Proofs.C01_EqAuthSpec Proofs.C09_Host
  Proofs.C07_Defs Proofs.C07_Corr Proofs.C07_SpecRun Proofs.C07_SpecProto Proofs.C07_EqProto Proofs.C07_EqSix
  Proofs.C07_SpecHost Proofs.C07_EqHostLayout Proofs.C07_EqHostname Proofs.C07_EqSeven Proofs.C07_EqAuthParse
  Proofs.C07_SpecHost2 Proofs.C07_SpecHostPort Proofs.C07_EqParseAll Proofs.C07_EqNine Proofs.C07_HostReal
  Proofs.C07_EqPathname.

Definition host_fns_ok_on (hp ho : list N -> result host) (hd : host -> list N)
           (shp : bool -> list N -> option spec_host) (shs : spec_host -> list N) : Prop :=
  (forall s, usv_list s -> s <> [] -> host_fn_ok_at hp hd shp shs false s)
  /\ (forall s, usv_list s -> host_fn_ok_at ho hd shp shs true s).

Lemma host_fns_ok_on_of_all hp ho hd shp shs : host_fns_ok hp ho hd shp shs -> host_fns_ok_on hp ho hd shp shs.
Proof. intros [H0 H1]. split; [intros s _ _; exact (H0 s) | intros s _; exact (H1 s)]. Qed.

(* ---------- wrappers ---------- *)
Section Wrap.
Variable hp ho : list N -> result host.
Variable hd : host -> list N.
Variable shp : bool -> list N -> option spec_host.
Variable shs : spec_host -> list N.
Variable buf : list N.

Definition hpW (s : list N) : result host := if list_eqb s buf && negb (is_nil s) then hp s else Err EmptyHost.
Definition hoW (s : list N) : result host := if list_eqb s buf then ho s else Err EmptyHost.
Definition shpW (o : bool) (s : list N) : option spec_host :=
  if list_eqb s buf && (o || negb (is_nil s)) then shp o s else None.

Lemma wrap_ok : host_fns_ok_on hp ho hd shp shs -> usv_list buf -> host_fns_ok hpW hoW hd shpW shs.
Proof.
  intros [H0 H1] Hu. split; intros s.
  - unfold hpW, host_parsing, shpW. cbn [orb].
    destruct (list_eqb s buf && negb (is_nil s)) eqn:E; [|exact I].
    apply andb_true_iff in E. destruct E as [E1 E2]. apply list_eqb_spec in E1. subst s.
    assert (buf <> []) as Hne by (intros X; rewrite X in E2; discriminate E2).
    exact (H0 buf Hu Hne).
  - unfold hoW, host_parsing, shpW. cbn [orb]. rewrite andb_true_r.
    destruct (list_eqb s buf) eqn:E; [|exact I].
    apply list_eqb_spec in E. subst s. exact (H1 buf Hu).
Qed.

Lemma hpW_at : buf <> [] -> hpW buf = hp buf.
Proof. intros H. unfold hpW. rewrite list_eqb_refl. destruct buf; [contradiction | reflexivity]. Qed.
Lemma hoW_at : hoW buf = ho buf.
Proof. unfold hoW. rewrite list_eqb_refl. reflexivity. Qed.
Lemma shpW_at sp : sp && is_nil buf = false -> shpW (negb sp) buf = shp (negb sp) buf.
Proof.
  intros H. unfold shpW. rewrite list_eqb_refl. cbn [andb].
  destruct sp; cbn [negb orb andb] in *; [rewrite H|]; reflexivity.
Qed.
End Wrap.

(* ---------- the model side sees the host functions on the scanned buffer only ---------- *)
Lemma parse_host_ext hp ho hp' ho' st l : st_is_file st = false ->
  (st_is_special st = true -> fst (host_scan (st_is_special st) false [] l) <> [] ->
     hp (fst (host_scan (st_is_special st) false [] l)) = hp' (fst (host_scan (st_is_special st) false [] l))) ->
  (st_is_special st = false ->
     ho (fst (host_scan (st_is_special st) false [] l)) = ho' (fst (host_scan (st_is_special st) false [] l))) ->
  parse_host hp ho st l = parse_host hp' ho' st l.
Proof.
  intros Hf H1 H2. unfold parse_host. rewrite Hf.
  destruct (host_scan (st_is_special st) false [] l) as [h rem]. cbn [fst] in *.
  destruct st; [discriminate Hf | |]; cbn [st_is_special scheme_type_eqb negb andb] in *.
  - destruct h as [|c r]; [reflexivity|]. rewrite (H1 eq_refl) by discriminate. reflexivity.
  - rewrite (H2 eq_refl). reflexivity.
Qed.

Section ModelExt.
Variable dbg : bool.
Variable hp ho hp' ho' : list N -> result host.
Variable hd : host -> list N.

Lemma q_set_hostname_ext u v sc : scheme u = Some sc ->
  (cannot_be_a_base u = Some false ->
     parse_host hp ho (scheme_type_of sc) v = parse_host hp' ho' (scheme_type_of sc) v) ->
  q_set_hostname dbg hp ho hd u v = q_set_hostname dbg hp' ho' hd u v.
Proof.
  intros Es H. unfold q_set_hostname. destruct (cannot_be_a_base u) as [[|]|]; try reflexivity. cbn [bindo].
  rewrite Es. cbn [bindo]. unfold input_new_no_trim. rewrite (H eq_refl). reflexivity.
Qed.

Lemma q_set_host_ext u v sc : scheme u = Some sc ->
  (cannot_be_a_base u = Some false ->
     parse_host hp ho (scheme_type_of sc) v = parse_host hp' ho' (scheme_type_of sc) v) ->
  q_set_host dbg hp ho hd u v = q_set_host dbg hp' ho' hd u v.
Proof.
  intros Es H. unfold q_set_host. destruct (cannot_be_a_base u) as [[|]|]; try reflexivity. cbn [bindo].
  rewrite Es. cbn [bindo]. unfold input_new_no_trim. rewrite (H eq_refl). reflexivity.
Qed.
End ModelExt.

(* ---------- so does the Standard's side ---------- *)
Lemma host_parsing_ext shp shp' o s : shp o s = shp' o s -> host_parsing shp o s = host_parsing shp' o s.
Proof. intros H. unfold host_parsing. rewrite H. reflexivity. Qed.

Lemma hostname_decide_ext shp shp' su r :
  (is_special su && is_nil (fst r) = false -> shp (negb (is_special su)) (fst r) = shp' (negb (is_special su)) (fst r)) ->
  hostname_decide shp su r = hostname_decide shp' su r.
Proof.
  intros H. unfold hostname_decide. destruct r as [buf [|]]; [reflexivity|]. cbn [fst] in H.
  destruct (is_special su && is_nil buf) eqn:E; [reflexivity|].
  rewrite (host_parsing_ext shp shp' _ _ (H eq_refl)). reflexivity.
Qed.

Lemma spec_hostname_ext shp shp' su v :
  (has_opaque_path su = false -> list_eqb (su_scheme su) str_file = false
     /\ let buf := fst (hscan (is_special su) false [] (notnl v)) in
        (is_special su && is_nil buf = false -> shp (negb (is_special su)) buf = shp' (negb (is_special su)) buf)) ->
  spec_set shp SetHostname su v = spec_set shp' SetHostname su v.
Proof.
  intros H. destruct (has_opaque_path su) eqn:Hop; [cbn [spec_set]; rewrite Hop; reflexivity|].
  destruct (H eq_refl) as [Hf Hb]. rewrite !(spec_hostname_closed _ su v Hf), Hop.
  rewrite (hostname_decide_ext shp shp' su _ Hb). reflexivity.
Qed.

Lemma spec_host_ext shp shp' su v :
  (has_opaque_path su = false -> list_eqb (su_scheme su) str_file = false
     /\ let buf := fst (hscan (is_special su) false [] (notnl v)) in
        (is_special su && is_nil buf = false -> shp (negb (is_special su)) buf = shp' (negb (is_special su)) buf)) ->
  spec_set shp SetHost su v = spec_set shp' SetHost su v.
Proof.
  intros H. destruct (has_opaque_path su) eqn:Hop; [cbn [spec_set]; rewrite Hop; reflexivity|].
  destruct (H eq_refl) as [Hf Hb]. rewrite !(spec_host_closed _ su v Hf), Hop. unfold host_decide. cbv zeta in *.
  destruct (snd (hscan (is_special su) false [] (notnl v))).
  - unfold host_port_decide. destruct (is_nil (fst (hscan (is_special su) false [] (notnl v)))) eqn:En; [reflexivity|].
    rewrite (host_parsing_ext shp shp' _ _ (Hb (andb_false_r _))). reflexivity.
  - rewrite (hostname_decide_ext shp shp' su _ Hb). reflexivity.
Qed.

(* ---------- hostname and host under the restricted hypothesis ---------- *)
Lemma hscan_usv sp t : forall br buf, usv_list buf -> usv_list t -> usv_list (fst (hscan sp br buf t)).
Proof.
  induction t as [|c r IH]; intros br buf Hb Ht; [exact Hb|]. cbn [hscan].
  apply usv_cons in Ht. destruct Ht as [Hc Hr].
  destruct ((c =? 58) && negb br); [exact Hb|]. destruct (h_end sp c); [exact Hb|].
  apply IH; [|exact Hr]. apply usv_app. split; [exact Hb|]. apply usv_cons. split; [exact Hc | constructor].
Qed.

Section On.
Variable dbg : bool.
Variable hp ho : list N -> result host.
Variable hd : host -> list N.
Variable shp : bool -> list N -> option spec_host.
Variable shs : spec_host -> list N.
Hypothesis HO : host_fns_ok_on hp ho hd shp shs.

(* what both setters need: the two sides, with the wrappers for the buffer of this value, are the two sides *)
Lemma wrappers_unseen u su v : corrS dbg shs u su -> usv_list v ->
  (cannot_be_a_base u = Some false -> list_eqb (su_scheme su) s_file = false) ->
  let buf := fst (hscan (is_special su) false [] (ntnl v)) in
  host_fns_ok (hpW hp buf) (hoW ho buf) hd (shpW shp buf) shs
  /\ (cannot_be_a_base u = Some false ->
        parse_host hp ho (scheme_type_of (su_scheme su)) v
        = parse_host (hpW hp buf) (hoW ho buf) (scheme_type_of (su_scheme su)) v)
  /\ (has_opaque_path su = false -> list_eqb (su_scheme su) str_file = false
        /\ let b := fst (hscan (is_special su) false [] (notnl v)) in
           (is_special su && is_nil b = false -> shp (negb (is_special su)) b = shpW shp buf (negb (is_special su)) b)).
Proof.
  intros [C S] Hv Hnf buf.
  assert (usv_list buf) as Hub by (apply hscan_usv; [constructor | apply usv_ntnl; exact Hv]).
  pose proof (co_wf _ _ _ _ C) as W.
  pose proof (cannot_be_a_base_eval u W) as Ecb.
  change (negb (byte_eqb (ser u) (scheme_end u + 1) 47)) with (is_opaque_b u) in Ecb.
  rewrite (co_opaque _ _ _ _ C) in Ecb.
  pose proof (special_schemes_are_the_standards (su_scheme su)) as Esp. fold (is_special su) in Esp.
  split; [exact (wrap_ok hp ho hd shp shs buf HO Hub)|]. split.
  - intros Hc. pose proof (Hnf Hc) as Ef.
    assert (st_is_file (scheme_type_of (su_scheme su)) = false) as Enf by (rewrite file_test_same; exact Ef).
    apply parse_host_ext; [exact Enf | |]; rewrite Esp, (host_scan_fst (is_special su) v false []); cbn [rev]; fold buf.
    + intros _ Hne. symmetry. exact (hpW_at hp buf Hne).
    + intros _. symmetry. exact (hoW_at ho buf).
  - intros Hop. rewrite Hop in Ecb. split; [exact (Hnf Ecb)|]. cbv zeta. change (notnl v) with (ntnl v). fold buf.
    intros Hb. symmetry. exact (shpW_at shp buf (is_special su) Hb).
Qed.

Lemma not_file_of_known u su s v : corr dbg shs u su -> (s = QHostname \/ s = QHost) -> known_c07 u s v = 0 ->
  cannot_be_a_base u = Some false -> list_eqb (su_scheme su) s_file = false.
Proof.
  intros C Hs Hk Ecb. unfold known_c07, u_cbb, u_scheme_or_empty in Hk. rewrite Ecb, (co_scheme _ _ _ _ C) in Hk.
  destruct (list_eqb (su_scheme su) s_file); [|reflexivity]. destruct Hs as [-> | ->]; discriminate Hk.
Qed.

Theorem hostname_step_on u su v : corrS dbg shs u su -> usv_list v -> known_c07 u QHostname v = 0 ->
  exists u' su', model_set dbg hp ho hd QHostname u v = Some u' /\ spec_step shp QHostname su v = Some su'
    /\ corrS dbg shs u' su'.
Proof.
  intros CS Hv Hk.
  destruct (wrappers_unseen u su v CS Hv (not_file_of_known u su QHostname v (proj1 CS) (or_introl eq_refl) Hk)) as (HF & HM & HS).
  destruct (seven_step dbg _ _ hd _ shs HF u su QHostname v CS eq_refl Hv Hk) as (u' & su' & A & B & C').
  exists u', su'. split; [|split; [|exact C']].
  - rewrite <- A. cbn [model_set]. f_equal.
    exact (q_set_hostname_ext dbg _ _ _ _ hd u v _ (co_scheme _ _ _ _ (proj1 CS)) HM).
  - rewrite <- B. unfold spec_step. cbn [setter_of_q]. rewrite (spec_hostname_ext shp _ su v HS). reflexivity.
Qed.

Theorem host_step_on u su v : corrS dbg shs u su -> usv_list v -> known_c07 u QHost v = 0 ->
  exists u' su', model_set dbg hp ho hd QHost u v = Some u' /\ spec_step shp QHost su v = Some su'
    /\ corrS dbg shs u' su'.
Proof.
  intros CS Hv Hk.
  destruct (wrappers_unseen u su v CS Hv (not_file_of_known u su QHost v (proj1 CS) (or_intror eq_refl) Hk)) as (HF & HM & HS).
  destruct (host_step dbg _ _ hd _ shs HF u su v CS Hv Hk) as (u' & su' & A & B & C').
  exists u', su'. split; [|split; [|exact C']].
  - rewrite <- A. cbn [model_set]. f_equal.
    exact (q_set_host_ext dbg _ _ _ _ hd u v _ (co_scheme _ _ _ _ (proj1 CS)) HM).
  - rewrite <- B. unfold spec_step. cbn [setter_of_q]. rewrite (spec_host_ext shp _ su v HS). reflexivity.
Qed.

(* the nine setters other than href: one step, histories *)
Definition no_href (s : qsetter) : bool := match s with QHref => false | _ => true end.

Fixpoint no_href_ops (ops : list (qsetter * list N)) : Prop :=
  match ops with
  | [] => True
  | (s, v) :: r => no_href s = true /\ usv_list v /\ no_href_ops r
  end.

Theorem no_href_step u su s v : corrS dbg shs u su -> no_href s = true -> usv_list v -> known_c07 u s v = 0 ->
  exists u' su', model_set dbg hp ho hd s u v = Some u' /\ spec_step shp s su v = Some su' /\ corrS dbg shs u' su'.
Proof.
  intros CS Hs Hv Hk. destruct (six s) eqn:H6; [exact (six_step dbg hp ho hd shp shs u su s v CS H6 Hv Hk)|].
  destruct s; try discriminate Hs; try discriminate H6.
  - exact (host_step_on u su v CS Hv Hk).
  - exact (hostname_step_on u su v CS Hv Hk).
  - exact (pathname_step dbg hp ho hd shp shs u su v CS Hv Hk).
Qed.

Lemma no_href_run : forall ops u su, corrS dbg shs u su -> no_href_ops ops -> outside_known dbg hp ho hd u ops ->
  exists u' su', model_run dbg hp ho hd u ops = Some u' /\ spec_run shp su ops = Some su' /\ corrS dbg shs u' su'.
Proof.
  induction ops as [|[s v] r IH]; intros u su C Hf Ho.
  - exists u, su. cbn [model_run spec_run]. auto.
  - cbn [no_href_ops outside_known] in Hf, Ho. destruct Hf as (Hs & Hv & Hr). destruct Ho as [Hk Hrest].
    destruct (no_href_step u su s v C Hs Hv Hk) as (u1 & su1 & Em & Es & C1).
    rewrite Em in Hrest. destruct (IH u1 su1 C1 Hr Hrest) as (u2 & su2 & Em2 & Es2 & C2).
    exists u2, su2. cbn [model_run spec_run]. rewrite Em, Es. auto.
Qed.

Lemma no_href_ops_firstn n : forall ops, no_href_ops ops -> no_href_ops (firstn n ops).
Proof.
  induction n as [|n IH]; intros ops H; [exact I|]. destruct ops as [|[s v] r]; [exact I|].
  cbn [firstn no_href_ops] in *. destruct H as (A & B & Cc). auto.
Qed.

Theorem no_href_histories ops u su : corrS dbg shs u su -> no_href_ops ops -> outside_known dbg hp ho hd u ops ->
  forall n, exists u' su',
    model_run dbg hp ho hd u (firstn n ops) = Some u'
    /\ spec_run shp su (firstn n ops) = Some su'
    /\ corrS dbg shs u' su'
    /\ model_api dbg u' = Some (spec_api_list shs su').
Proof.
  intros C Hf Ho n.
  destruct (no_href_run (firstn n ops) u su C (no_href_ops_firstn n ops Hf) (C07_EqFive.outside_known_firstn dbg hp ho hd n ops u Ho))
    as (u' & su' & A & B & C').
  exists u', su'. split; [exact A|]. split; [exact B|]. split; [exact C'|]. exact (corr_api dbg shs u' su' (proj1 C')).
Qed.

End On.

(* ---------- the real host functions, under IdnaOK only ---------- *)
Theorem real_host_fns_ok_on idna : IdnaOK idna ->
  host_fns_ok_on (host_parse idna) host_parse_opaque host_display (spec_host_parser idna) spec_host_serializer.
Proof.
  intros OK. split; [intros s Hu Hne; exact (host_fn_real_special idna OK s Hu Hne) | intros s Hu; exact (host_fn_real_opaque idna OK s Hu)].
Qed.
