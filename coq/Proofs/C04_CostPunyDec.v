(* Proofs/C04_CostPunyDec.v - cost twin of the main loop of the Punycode DECODER (idna/src/punycode.rs:196-253, Decoder::decode)
   and its bounds: quadratic in general (the insertion list is walked at every decoded delta: the decode side of finding
   F-C04-10), at most 2001 steps per code unit under the cap PUNYCODE_DECODE_MAX_INPUT_LENGTH = 2000 that uts46 applies
   before calling the decoder (C04_punycode_cap).  Not counted: the final sort_by_key of the insertions (the Rust stable
   sort is O(m log m); the model's insertion sort is not a reading of its cost) and the Decode iterator (one step per
   output character). *)
From RU Require Import Base.Prelude Base.U32_c13 Model.Punycode.
From Coq Require Import Lia NArith List.
Import ListNotations.
Local Open Scope N_scope.

(* cost twin of Decoder::decode's main loop (punycode.rs:196-253): one step per input code unit, and at every decoded
   delta one step per insertion collected so far (the loop `for (idx, _) in &mut self.insertions` of line 245-249);
   adapt and the checked arithmetic are O(1) (adapt's loop runs at most 5 times for u32 deltas) *)
Fixpoint dec_loop_c (cfg_debug : bool) (it : dec_inst) (input : list N) (mid : bool)
    (previous_i weight k i length code_point bias : N) (ins : list (N * N)) : res (list (N * N)) * N :=
  match input with
  | [] => (if mid then Err else Ok ins, 1)
  | byte :: rest =>
    match inst_digit it byte with
    | None => (Err, 1)
    | Some digit =>
      match checked_mul digit weight with
      | None => (Err, 1)
      | Some product =>
        match checked_add i product with
        | None => (Err, 1)
        | Some i =>
          let t := threshold k bias in
          if digit <? t then
            match unchecked_add cfg_debug 233 length 1 with
            | Panic s => (Panic s, 1)
            | Err => (Err, 1)
            | Ok len1 =>
              match adapt (i - previous_i) len1 (previous_i =? 0) with
              | Panic s => (Panic s, 1)
              | Err => (Err, 1)
              | Ok bias =>
                match checked_add code_point (i / len1) with
                | None => (Err, 1)
                | Some code_point =>
                  let i := i mod len1 in
                  if is_usvb code_point then
                    let ins' := shift_ins i ins ++ [(i, code_point)] in
                    let (o, n) := dec_loop_c cfg_debug it rest false (i + 1) 1 BASE (i + 1) len1 code_point bias ins' in
                    (o, n + 1 + N.of_nat (List.length ins))
                  else (Err, 1)
                end
              end
            end
          else
            match checked_mul weight (BASE - t) with
            | None => (Err, 1)
            | Some weight =>
              let (o, n) := dec_loop_c cfg_debug it rest true previous_i weight (k + BASE) i length code_point bias ins in
              (o, n + 1)
            end
        end
      end
    end
  end.

Ltac dmatch :=
  match goal with
  | |- context [match ?x with _ => _ end] =>
      lazymatch x with
      | dec_loop_c _ _ _ _ _ _ _ _ _ _ _ _ => fail
      | dec_loop _ _ _ _ _ _ _ _ _ _ _ _ => fail
      | _ => destruct x eqn:?
      end
  end.

Lemma dec_loop_c_fst dbg it input : forall mid p w k i len cp bias ins,
  fst (dec_loop_c dbg it input mid p w k i len cp bias ins) = dec_loop dbg it input mid p w k i len cp bias ins.
Proof.
  induction input as [|b r IH]; intros; cbn [dec_loop_c dec_loop]; [reflexivity|].
  repeat (dmatch; cbn [fst]; try reflexivity);
    match goal with |- fst (let (_, _) := dec_loop_c ?d ?t ?r ?m ?p ?w ?k ?i ?l ?c ?b ?n in _) = _ =>
      specialize (IH m p w k i l c b n); destruct (dec_loop_c d t r m p w k i l c b n); cbn [fst] in *; exact IH end.
Qed.

Lemma shift_len i ins x : List.length (shift_ins i ins ++ [x]) = S (List.length ins).
Proof. unfold shift_ins. rewrite app_length, map_length. cbn. lia. Qed.

(* quadratic upper bound: L code units with m insertions already collected cost at most L (1 + m + L) + 1 *)
Lemma dec_loop_c_le dbg it input : forall mid p w k i len cp bias ins,
  snd (dec_loop_c dbg it input mid p w k i len cp bias ins)
  <= N.of_nat (List.length input) * (1 + N.of_nat (List.length ins) + N.of_nat (List.length input)) + 1.
Proof.
  induction input as [|b r IH]; intros; cbn [dec_loop_c]; [cbn; lia|].
  cbn [List.length]. rewrite Nat2N.inj_succ.
  repeat (dmatch; cbn [snd]; try lia);
    match goal with |- snd (let (_, _) := dec_loop_c ?d ?t ?r ?m ?p ?w ?k ?i ?l ?c ?b ?n in _) <= _ =>
      specialize (IH m p w k i l c b n); destruct (dec_loop_c d t r m p w k i l c b n); cbn [snd] in *;
      rewrite ?shift_len, ?Nat2N.inj_succ in IH; nia end.
Qed.

(* under the cap of uts46 (PUNYCODE_DECODE_MAX_INPUT_LENGTH = 2000 code units): at most 2002 steps per code unit *)
Theorem dec_loop_c_capped dbg it input len0 : (List.length input <= 2000)%nat ->
  snd (dec_loop_c dbg it input false 0 1 BASE 0 len0 INITIAL_N INITIAL_BIAS [])
  <= 2001 * N.of_nat (List.length input) + 1.
Proof.
  intros H. pose proof (dec_loop_c_le dbg it input false 0 1 BASE 0 len0 INITIAL_N INITIAL_BIAS []) as G.
  change (N.of_nat (List.length (@nil (N * N)))) with 0 in G. assert (HL : N.of_nat (List.length input) <= 2000) by lia.
  set (L := N.of_nat (List.length input)) in *. nia.
Qed.
