(* Proofs/C02_Stmt4.v - the quantifier of C02, corrected a third time.
   C02_statement / C02_statement3 are false as stated (C02_Reach4.statement_refuted): known_step2 does not exclude the
   class F-C07-8.  Known_F_C02_10 = that class seen from C02: url::quirks::set_host on a URL whose scheme is not
   special, whose user name is empty and which has a password (the code refuses an empty host when the URL has a user
   name or a port and does not look at the password: a://:pw@h/p -> a://:pw@/p, which does not parse).  The class is an
   over-approximation (every quirks host call on such a URL), the mirror of known_f_c07_8 in harness/src/bin/c02/main.rs.
   known_step3 = known_step2 + Known_F_C02_10, Reachable4, C02_statement4 (NOT proved; implied by nothing refuted
   so far), the witness that the new class holds a non-fixpoint, and the inclusions
   ReachC3 <= Reachable4 <= Reachable3. *)
From RU Require Import Proofs.C15_Ser.
From Coq Require Import String.
From RU Require Import Base.Prelude Base.Utf8 Base.Utf8Facts Base.Outcome_c15 Model.AsciiSet Gen.Tables
  Model.PercentEncoding Model.HostT Model.Host Model.UrlRecord Model.Parser Model.Setters Model.WF Model.FormUrlencoded
  Model.QueryPairs
  Proofs.ListN Proofs.C02_Reach Proofs.C02_AuthParts Proofs.C02_Hist Proofs.C02_Canon Proofs.C02_ReachPartial
  Proofs.C02_Reach3 Proofs.C02_SetHostCanon Proofs.C02_Reach4 Proofs.C03_WF Proofs.C09_Host Proofs.C16_RT6Model Proofs.C02_HistInst.
Open Scope N_scope.
Open Scope list_scope.

(* Url::username().is_empty() and Url::password().is_some(), read off the record without the debug assertions *)
Definition uname_empty (u : url) : bool := negb (has_authority_b u && (scheme_end u + 3 <? username_end u)).
(* has_password_b (Proofs/C03_WF.v) = has_authority && username_end <> len && the byte at username_end is ':' *)

Definition Known_F_C02_10 (u : url) (o : op) : bool :=
  match o with
  | OQHost _ => negb (st_is_special (scheme_type_of (scheme_of u))) && uname_empty u && has_password_b u
  | _ => false
  end.

Section Reach4.
Variable dbg : bool.
Variable hp hpo : list N -> result host.
Variable hd : host -> list N.

Definition known_step3 (u : url) (o : op) : bool := known_step2 dbg hp hpo hd u o || Known_F_C02_10 u o.

Inductive Reachable4 : url -> Prop :=
| R4_parse ovr input u :
    usv_list input -> parse_url dbg hp hpo hd ovr None input = POk u ->
    Known_file_drive u = false -> Reachable4 u
| R4_join ovr b input u :
    Reachable4 b -> usv_list input -> parse_url dbg hp hpo hd ovr (Some b) input = POk u ->
    Known_file_drive u = false -> Reachable4 u
| R4_step u o u' :
    Reachable4 u -> op_args_ok o -> known_step3 u o = false -> apply_op dbg hp hpo hd u o = Some u' ->
    Known_file_drive u' = false -> Reachable4 u'
| R4_qpm u ops u' :
    Reachable4 u -> Forall op_ok ops -> query_pairs_session dbg u ops = Some u' ->
    Known_file_drive u' = false -> Reachable4 u'.

Lemma known_step3_2 u o : known_step3 u o = false -> known_step2 dbg hp hpo hd u o = false.
Proof. unfold known_step3. intros H. apply orb_false_iff in H. exact (proj1 H). Qed.

(* the new quantifier is a restriction of the previous one *)
Lemma Reachable4_3 u : Reachable4 u -> Reachable3 dbg hp hpo hd u.
Proof.
  induction 1 as [ovr input u Hu Hp Hk | ovr b input u Hb IH Hu Hp Hk | u o u' Hr IH Ha Hk Ho Hk'
                 | u ops u' Hr IH Hops Hs Hk].
  - exact (R3_parse dbg hp hpo hd ovr input u Hu Hp Hk).
  - exact (R3_join dbg hp hpo hd ovr b input u IH Hu Hp Hk).
  - exact (R3_step dbg hp hpo hd u o u' IH Ha (known_step3_2 u o Hk) Ho Hk').
  - exact (R3_qpm dbg hp hpo hd u ops u' IH Hops Hs Hk).
Qed.
End Reach4.

(* ---------- C02, full strength, third correction ---------- *)
Definition C02_statement4 : Prop :=
  forall dbg hp hpo hd, HostOK2 hp hpo hd -> host_nonempty hp hpo ->
  forall u, Reachable4 dbg hp hpo hd u -> Fixpoint_of_reparse dbg hp hpo hd u.

(* had the previous statement been true it would have implied this one *)
Lemma statement3_implies_4 : C02_statement3 -> C02_statement4.
Proof. intros H dbg hp hpo hd HOK _ u Hr. exact (H dbg hp hpo hd HOK u (Reachable4_3 dbg hp hpo hd u Hr)). Qed.

(* ---------- the histories of C02_Reach4.ReachC3 are inside the new quantifier ---------- *)
Lemma canon_op3_not_10 u o : canon_op3 u o = true -> Known_F_C02_10 u o = false.
Proof. destruct o; try reflexivity. cbn [canon_op3 canon_op]. discriminate. Qed.

Section ReachC3_4.
Variable dbg : bool.
Variable hp hpo : list N -> result host.
Variable hd : host -> list N.
Hypothesis HOK : HostOK2 hp hpo hd.
Hypothesis HNE : host_nonempty hp hpo.

Theorem ReachC3_Reachable4 u : ReachC3 dbg hp hpo hd u -> Reachable4 dbg hp hpo hd u.
Proof.
  intros H. induction H as [ovr input u Hu Hn Hov Hp | ovr b input u Hr IH Hu Ht Hov Hp | u o u' Hr IH Ht Ha Hk Ho Hb
                           | u ops u' Hr IH Hops Hs Hb].
  - apply (R4_parse dbg hp hpo hd ovr input u Hu Hp).
    apply (Canon_not_file_drive hp hpo hd). apply (ReachC3_Canon dbg hp hpo hd HOK HNE).
    exact (RC3_parse dbg hp hpo hd ovr input u Hu Hn Hov Hp).
  - apply (R4_join dbg hp hpo hd ovr b input u IH Hu Hp).
    apply (Canon_not_file_drive hp hpo hd). apply (ReachC3_Canon dbg hp hpo hd HOK HNE).
    exact (RC3_join dbg hp hpo hd ovr b input u Hr Hu Ht Hov Hp).
  - apply (R4_step dbg hp hpo hd u o u' IH Ha); [|exact Ho|].
    + unfold known_step3. rewrite Hk. exact (canon_op3_not_10 u o Ht).
    + apply (Canon_not_file_drive hp hpo hd). apply (ReachC3_Canon dbg hp hpo hd HOK HNE).
      exact (RC3_step dbg hp hpo hd u o u' Hr Ht Ha Hk Ho Hb).
  - apply (R4_qpm dbg hp hpo hd u ops u' IH Hops Hs).
    apply (Canon_not_file_drive hp hpo hd). apply (ReachC3_Canon dbg hp hpo hd HOK HNE).
    exact (RC3_qpm dbg hp hpo hd u ops u' Hr Hops Hs Hb).
Qed.
End ReachC3_4.

(* ---------- the new class contains a history that is not a fixpoint (on the host model, idna_clean) ---------- *)
(* a://:pw@h/p -> quirks::set_host("") = a://:pw@/p: the step is in Known_F_C02_10 and in no other class, the
   serialization of the result does not parse (EmptyHost) *)
Lemma F_C02_10_witness :
  Known_F_C02_10 w10_u0 w10_op = true
  /\ known_step2 true mhp host_parse_opaque host_display w10_u0 w10_op = false
  /\ known_step3 true mhp host_parse_opaque host_display w10_u0 w10_op = true
  /\ apply_op true mhp host_parse_opaque host_display w10_u0 w10_op = Some w10_u1
  /\ list_eqb (ser w10_u1) (B "a://:pw@/p") = true
  /\ match reparse true mhp host_parse_opaque host_display w10_u1 with PErr EmptyHost => true | _ => false end = true.
Proof. vm_compute. repeat split; reflexivity. Qed.

(* the class is tight on three sides: a user name, a special scheme, or no password put the step outside it; the
   hostname setter is never in it *)
Example F_C02_10_class :
  match mparse (B "a://u:pw@h/p") with POk u => Known_F_C02_10 u (OQHost []) | _ => true end = false
  /\ match mparse (B "http://:pw@h/p") with POk u => Known_F_C02_10 u (OQHost []) | _ => true end = false
  /\ match mparse (B "a://h/p") with POk u => Known_F_C02_10 u (OQHost []) | _ => true end = false
  /\ match mparse (B "a:/p") with POk u => Known_F_C02_10 u (OQHost []) | _ => true end = false
  /\ match mparse (B "a://:pw@h/p") with POk u => Known_F_C02_10 u (OQHostname []) | _ => true end = false
  /\ match mparse (B "a://:pw@h/p") with POk u => Known_F_C02_10 u (OQHost (B "x")) | _ => false end = true.
Proof. vm_compute. repeat split. Qed.
