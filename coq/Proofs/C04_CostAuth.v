(* Proofs/C04_CostAuth.v - cost of the authority states of the URL parser: userinfo, host, port.
   Step-counting twins in the cost semantics of Model/Cost.v (one step per input element examined, push_str = bytes
   copied, String::push = 1), proved equal to the functions of Model/Parser.v, with linear bounds.
   The host state calls Host::parse / Host::parse_opaque and Display for Host, which are PARAMETERS of the parser model;
   their cost enters as parameters too: hpc / hpoc (steps of the two host parsers on a text; Host::parse contains the
   IDNA processing) and the length of the Display text.  The bound is linear in the input whenever those are. *)
From RU Require Import Base.Prelude Base.Utf8 Base.Utf8Facts Model.AsciiSet Gen.Tables Model.PercentEncoding
  Model.HostT Model.UrlRecord Model.Parser Model.Cost Proofs.ListN Proofs.C04_Cost.

(* ---------------------------------------------------------------- definitions *)
(* first pass of parse_userinfo (the search for the last '@'): one step per character examined *)
Fixpoint scan_last_at_c (special : bool) (l : list N) (count : N) (last : option (N * list N))
  : option (N * list N) * N :=
  match l with
  | [] => (last, 1)
  | c :: r =>
      if is_tnl c then let (o, n) := scan_last_at_c special r count last in (o, n + 1)
      else if c =? 64 then let (o, n) := scan_last_at_c special r (count + 1) (Some (count, r)) in (o, n + 1)
      else if (c =? 47) || (c =? 63) || (c =? 35) || ((c =? 92) && special) then (last, 1)
      else let (o, n) := scan_last_at_c special r (count + 1) last in (o, n + 1)
  end.

(* second pass: one step per character, the bytes appended by the percent-encoder, one step for ':' *)
Fixpoint userinfo_loop_c (l : list N) (n : N) (ser : list N) (uend : option N) (has_pw has_un : bool)
  : pres (list N * option N * bool * bool) * N :=
  if n =? 0 then (POk (ser, uend, has_pw, has_un), 1) else
  match l with
  | [] => (PPanic, 1)
  | c :: r =>
      if is_tnl c then let (o, k) := userinfo_loop_c r n ser uend has_pw has_un in (o, k + 1)
      else
        let n' := n - 1 in
        if (c =? 58) && (match uend with None => true | Some _ => false end) then
          match to_u32 (nlen ser) with
          | POk ue =>
              if 0 <? n' then let (o, k) := userinfo_loop_c r n' (ser ++ [58]) (Some ue) true has_un in (o, k + 2)
              else let (o, k) := userinfo_loop_c r n' ser (Some ue) has_pw has_un in (o, k + 2)
          | PErr e => (PErr e, 1)
          | PPanic => (PPanic, 1)
          end
        else
          let s := push_encoded T_USERINFO ser [c] in
          let (o, k) := userinfo_loop_c r n' s uend has_pw (if has_pw then has_un else true) in
          (o, k + 1 + flush_cost ser s)
  end.

Definition parse_userinfo_cost (st : scheme_type) (ser : list N) (l : list N) : N :=
  snd (scan_last_at_c (st_is_special st) l 0 None)
  + match scan_last_at (st_is_special st) l 0 None with
    | None => 1
    | Some (0, _) => 2
    | Some (n, _) => snd (userinfo_loop_c l n ser None false false) + 2
    end.

(* host scans: one step per character examined, one for the push of a kept character *)
Fixpoint host_scan_c (special : bool) (inside : bool) (acc_rev : list N) (l : list N) : (list N * list N) * N :=
  match l with
  | [] => ((rev acc_rev, []), 1)
  | c :: r =>
      if is_tnl c then let (o, n) := host_scan_c special inside acc_rev r in (o, n + 1)
      else if ((c =? 58) && negb inside) || ((c =? 92) && special) || (c =? 47) || (c =? 63) || (c =? 35)
      then ((rev acc_rev, l), 1)
      else if c =? 91 then let (o, n) := host_scan_c special true (c :: acc_rev) r in (o, n + 2)
      else if c =? 93 then let (o, n) := host_scan_c special false (c :: acc_rev) r in (o, n + 2)
      else let (o, n) := host_scan_c special inside (c :: acc_rev) r in (o, n + 2)
  end.

Fixpoint file_host_scan_c (acc_rev : list N) (l : list N) : (list N * list N) * N :=
  match l with
  | [] => ((rev acc_rev, []), 1)
  | c :: r =>
      if is_tnl c then let (o, n) := file_host_scan_c acc_rev r in (o, n + 1)
      else if is_path_end c then ((rev acc_rev, l), 1)
      else let (o, n) := file_host_scan_c (c :: acc_rev) r in (o, n + 2)
  end.

Fixpoint parse_port_loop_c (ctx : context) (l : list N) (port : N) (any : bool) : pres (N * bool * list N) * N :=
  match l with
  | [] => (POk (port, any, []), 1)
  | c :: r =>
      if is_tnl c then let (o, n) := parse_port_loop_c ctx r port any in (o, n + 1)
      else if is_digit c then
        let p := port * 10 + (c - 48) in
        if 65535 <? p then (PErr InvalidPort, 1) else let (o, n) := parse_port_loop_c ctx r p true in (o, n + 1)
      else if ctx_eqb ctx CUrlParser && negb (is_path_end c) then (PErr InvalidPort, 1)
      else (POk (port, any, l), 1)
  end.

Section HostCost.
Variable hp hpo : list N -> result host.
Variable hd : host -> list N.
Variable hpc hpoc : list N -> N.       (* steps of Host::parse / Host::parse_opaque on a text *)

(* the text handed to the host parser (what the scan collects) *)
Definition host_text (st : scheme_type) (l : list N) : list N :=
  if st_is_file st then fst (file_host l) else fst (host_scan (st_is_special st) false [] l).

Definition parse_host_cost (st : scheme_type) (l : list N) : N :=
  if st_is_file st then snd (file_host_scan_c [] l) + 2 + hpc (fst (file_host l))
  else
    let h := fst (host_scan (st_is_special st) false [] l) in
    snd (host_scan_c (st_is_special st) false [] l) + 1
    + (if scheme_type_eqb st STSpecialNotFile && (match h with [] => true | _ => false end) then 0
       else if negb (st_is_special st) then hpoc h else hpc h).

(* parse_host, write!(serialization, "{}", host), the optional port with its decimal text *)
Definition parse_host_and_port_cost (ctx : context) (st : scheme_type) (l : list N) : N :=
  parse_host_cost st l
  + match parse_host hp hpo st l with
    | POk (host, remaining) =>
        nlen (hd host) + 3
        + match inp_split_prefix_char 58 remaining with
          | Some rem => snd (parse_port_loop_c ctx rem 0 false) + 42
          | None => 0
          end
    | _ => 0
    end.
End HostCost.

(* ---------------------------------------------------------------- the twins compute the original functions *)
Lemma scan_last_at_c_spec special l : forall count last,
  fst (scan_last_at_c special l count last) = scan_last_at special l count last
  /\ snd (scan_last_at_c special l count last) <= nlen l + 1.
Proof.
  induction l as [|c r IH]; intros count last; cbn [scan_last_at_c scan_last_at].
  - cbn. split; [reflexivity|lia].
  - rewrite nlen_cons. destruct (is_tnl c).
    + destruct (IH count last) as [H1 H2]. destruct (scan_last_at_c special r count last) as [o n]. cbn [fst snd] in *.
      split; [exact H1|lia].
    + destruct (c =? 64).
      * destruct (IH (count + 1) (Some (count, r))) as [H1 H2].
        destruct (scan_last_at_c special r (count + 1) (Some (count, r))) as [o n]. cbn [fst snd] in *. split; [exact H1|lia].
      * destruct ((c =? 47) || (c =? 63) || (c =? 35) || (c =? 92) && special).
        -- cbn [fst snd]. split; [reflexivity|lia].
        -- destruct (IH (count + 1) last) as [H1 H2]. destruct (scan_last_at_c special r (count + 1) last) as [o n].
           cbn [fst snd] in *. split; [exact H1|lia].
Qed.

Lemma userinfo_loop_c_spec l : forall n ser uend hpw hun, usv_list l ->
  fst (userinfo_loop_c l n ser uend hpw hun) = userinfo_loop l n ser uend hpw hun
  /\ snd (userinfo_loop_c l n ser uend hpw hun) <= 13 * nlen l + 1.
Proof.
  induction l as [|c r IH]; intros n ser uend hpw hun Hl; cbn [userinfo_loop_c userinfo_loop].
  - destruct (n =? 0); cbn [fst snd]; (split; [reflexivity | cbn; lia]).
  - inversion Hl as [|? ? Hc Hr]; subst. rewrite nlen_cons. destruct (n =? 0); [cbn [fst snd]; split; [reflexivity|lia]|].
    destruct (is_tnl c).
    + destruct (IH n ser uend hpw hun Hr) as [H1 H2]. destruct (userinfo_loop_c r n ser uend hpw hun) as [o k].
      cbn [fst snd] in *. split; [exact H1|lia].
    + cbv zeta. destruct ((c =? 58) && match uend with None => true | Some _ => false end).
      * unfold to_u32. destruct (nlen ser <=? U32_MAX_P); cbn [pbind]; [|cbn [fst snd]; split; [reflexivity|lia]].
        destruct (0 <? n - 1).
        -- destruct (IH (n - 1) (ser ++ [58]) (Some (nlen ser)) true hun Hr) as [H1 H2].
           destruct (userinfo_loop_c r (n - 1) (ser ++ [58]) (Some (nlen ser)) true hun) as [o k]. cbn [fst snd] in *.
           split; [exact H1|lia].
        -- destruct (IH (n - 1) ser (Some (nlen ser)) hpw hun Hr) as [H1 H2].
           destruct (userinfo_loop_c r (n - 1) ser (Some (nlen ser)) hpw hun) as [o k]. cbn [fst snd] in *.
           split; [exact H1|lia].
      * destruct (push_encoded_len T_USERINFO ser [c] (Forall_cons _ Hc (Forall_nil _))) as [F1 F2].
        change (nlen [c]) with 1 in F2.
        destruct (IH (n - 1) (push_encoded T_USERINFO ser [c]) uend hpw (if hpw then hun else true) Hr) as [H1 H2].
        destruct (userinfo_loop_c r (n - 1) (push_encoded T_USERINFO ser [c]) uend hpw (if hpw then hun else true)) as [o k].
        cbn [fst snd] in *. unfold flush_cost. split; [exact H1|lia].
Qed.

(* the userinfo state: at most 14 |input| + 4 steps *)
Theorem parse_userinfo_linear st ser l : usv_list l -> parse_userinfo_cost st ser l <= 14 * nlen l + 4.
Proof.
  intros Hl. unfold parse_userinfo_cost.
  pose proof (proj2 (scan_last_at_c_spec (st_is_special st) l 0 None)) as H1.
  destruct (scan_last_at (st_is_special st) l 0 None) as [[n rem]|]; [|lia].
  destruct n as [|p]; [lia|].
  pose proof (proj2 (userinfo_loop_c_spec l (N.pos p) ser None false false Hl)) as H2. lia.
Qed.

Lemma host_scan_c_spec special l : forall inside acc,
  fst (host_scan_c special inside acc l) = host_scan special inside acc l
  /\ snd (host_scan_c special inside acc l) <= 2 * nlen l + 1
  /\ nlen (fst (host_scan special inside acc l)) <= nlen acc + nlen l.
Proof.
  assert (forall x, nlen (rev x) = nlen x) as Hrev by (intros x; unfold nlen; rewrite rev_length; reflexivity).
  induction l as [|c r IH]; intros inside acc; cbn [host_scan_c host_scan].
  - cbn [fst snd]. rewrite Hrev. repeat split; cbn; lia.
  - rewrite nlen_cons. destruct (is_tnl c).
    + destruct (IH inside acc) as (H1 & H2 & H3). destruct (host_scan_c special inside acc r) as [o n]. cbn [fst snd] in *.
      split; [exact H1|]. split; lia.
    + destruct ((c =? 58) && negb inside || (c =? 92) && special || (c =? 47) || (c =? 63) || (c =? 35)).
      * cbn [fst snd]. rewrite Hrev. repeat split; lia.
      * assert (forall ins, fst (let (o, n) := host_scan_c special ins (c :: acc) r in (o, n + 2)) = host_scan special ins (c :: acc) r
                  /\ snd (let (o, n) := host_scan_c special ins (c :: acc) r in (o, n + 2)) <= 2 * (1 + nlen r) + 1
                  /\ nlen (fst (host_scan special ins (c :: acc) r)) <= nlen acc + (1 + nlen r)) as Hstep.
        { intros ins. destruct (IH ins (c :: acc)) as (H1 & H2 & H3). destruct (host_scan_c special ins (c :: acc) r) as [o n].
          cbn [fst snd] in *. rewrite nlen_cons in H3. split; [exact H1|]. split; lia. }
        destruct (c =? 91); [apply Hstep|]. destruct (c =? 93); apply Hstep.
Qed.

Lemma file_host_scan_c_spec l : forall acc,
  fst (file_host_scan_c acc l) = file_host_scan acc l
  /\ snd (file_host_scan_c acc l) <= 2 * nlen l + 1
  /\ nlen (fst (file_host_scan acc l)) <= nlen acc + nlen l.
Proof.
  assert (forall x, nlen (rev x) = nlen x) as Hrev by (intros x; unfold nlen; rewrite rev_length; reflexivity).
  induction l as [|c r IH]; intros acc; cbn [file_host_scan_c file_host_scan].
  - cbn [fst snd]. rewrite Hrev. repeat split; cbn; lia.
  - rewrite nlen_cons. destruct (is_tnl c).
    + destruct (IH acc) as (H1 & H2 & H3). destruct (file_host_scan_c acc r) as [o n]. cbn [fst snd] in *.
      split; [exact H1|]. split; lia.
    + destruct (is_path_end c).
      * cbn [fst snd]. rewrite Hrev. repeat split; lia.
      * destruct (IH (c :: acc)) as (H1 & H2 & H3). destruct (file_host_scan_c (c :: acc) r) as [o n].
        cbn [fst snd] in *. rewrite nlen_cons in H3. split; [exact H1|]. split; lia.
Qed.

Lemma parse_port_loop_c_spec ctx l : forall port any,
  fst (parse_port_loop_c ctx l port any) = parse_port_loop ctx l port any
  /\ snd (parse_port_loop_c ctx l port any) <= nlen l + 1.
Proof.
  induction l as [|c r IH]; intros port any; cbn [parse_port_loop_c parse_port_loop].
  - cbn. split; [reflexivity|lia].
  - rewrite nlen_cons. destruct (is_tnl c).
    + destruct (IH port any) as [H1 H2]. destruct (parse_port_loop_c ctx r port any) as [o n]. cbn [fst snd] in *.
      split; [exact H1|lia].
    + destruct (is_digit c).
      * cbv zeta. destruct (65535 <? port * 10 + (c - 48)); [cbn [fst snd]; split; [reflexivity|lia]|].
        destruct (IH (port * 10 + (c - 48)) true) as [H1 H2].
        destruct (parse_port_loop_c ctx r (port * 10 + (c - 48)) true) as [o n]. cbn [fst snd] in *. split; [exact H1|lia].
      * destruct (ctx_eqb ctx CUrlParser && negb (is_path_end c)); cbn [fst snd]; (split; [reflexivity|lia]).
Qed.

(* what remains after the host is a suffix of the input (needed to bound the port scan by the input) *)
Lemma host_scan_rem special l : forall inside acc, nlen (snd (host_scan special inside acc l)) <= nlen l.
Proof.
  induction l as [|c r IH]; intros inside acc; cbn [host_scan]; [cbn; lia|]. rewrite nlen_cons.
  destruct (is_tnl c); [specialize (IH inside acc); lia|].
  destruct ((c =? 58) && negb inside || (c =? 92) && special || (c =? 47) || (c =? 63) || (c =? 35));
    [cbn [snd]; rewrite nlen_cons; lia|].
  destruct (c =? 91); [specialize (IH true (c :: acc)); lia|].
  destruct (c =? 93); [specialize (IH false (c :: acc)) | specialize (IH inside (c :: acc))]; lia.
Qed.

Lemma file_host_scan_rem l : forall acc, nlen (snd (file_host_scan acc l)) <= nlen l.
Proof.
  induction l as [|c r IH]; intros acc; cbn [file_host_scan]; [cbn; lia|]. rewrite nlen_cons.
  destruct (is_tnl c); [specialize (IH acc); lia|].
  destruct (is_path_end c); [cbn [snd]; rewrite nlen_cons; lia | specialize (IH (c :: acc)); lia].
Qed.

Lemma file_host_len l : nlen (fst (file_host l)) <= nlen l /\ nlen (snd (file_host l)) <= nlen l.
Proof.
  unfold file_host. pose proof (proj2 (proj2 (file_host_scan_c_spec l []))) as H1. pose proof (file_host_scan_rem l []) as H2.
  destruct (file_host_scan [] l) as [h rem]. cbn [fst snd] in *. change (nlen []) with 0 in H1.
  destruct (is_wdl h); cbn [fst snd]; [cbn; lia | lia].
Qed.

Lemma inp_split_prefix_char_len c l rem : inp_split_prefix_char c l = Some rem -> nlen rem < nlen l.
Proof.
  unfold inp_split_prefix_char, inp_next. induction l as [|x r IH]; [discriminate|]. rewrite nlen_cons.
  cbn [drop_while]. destruct (is_tnl x).
  - intros H. specialize (IH H). lia.
  - destruct (x =? c); intros H; inversion H; subst. lia.
Qed.

Section HostLinear.
Variable hp hpo : list N -> result host.
Variable hd : host -> list N.
Variable hpc hpoc : list N -> N.

Lemma host_text_len st l : nlen (host_text st l) <= nlen l.
Proof.
  unfold host_text. destruct (st_is_file st); [exact (proj1 (file_host_len l))|].
  pose proof (proj2 (proj2 (host_scan_c_spec (st_is_special st) l false []))) as H. change (nlen []) with 0 in H. lia.
Qed.

Lemma parse_host_cost_le st l :
  parse_host_cost hpc hpoc st l <= 2 * nlen l + 3 + hpc (host_text st l) + hpoc (host_text st l).
Proof.
  unfold parse_host_cost, host_text. destruct (st_is_file st).
  - pose proof (proj1 (proj2 (file_host_scan_c_spec l []))). lia.
  - pose proof (proj1 (proj2 (host_scan_c_spec (st_is_special st) l false []))).
    destruct (scheme_type_eqb st STSpecialNotFile && _); [lia|]. destruct (negb (st_is_special st)); lia.
Qed.

Lemma parse_host_rem st l host remaining : parse_host hp hpo st l = POk (host, remaining) -> nlen remaining <= nlen l.
Proof.
  unfold parse_host. destruct (st_is_file st).
  - unfold get_file_host. pose proof (proj2 (file_host_len l)) as H. destruct (file_host l) as [h rem]. cbn [snd] in H.
    destruct (hp h); cbn [of_result pbind]; intros E; inversion E; subst. exact H.
  - pose proof (host_scan_rem (st_is_special st) l false []) as H.
    destruct (host_scan (st_is_special st) false [] l) as [h rem]. cbn [snd] in H.
    destruct (scheme_type_eqb st STSpecialNotFile && _); [discriminate|].
    destruct (negb (st_is_special st)); [destruct (hpo h) | destruct (hp h)]; cbn [of_result pbind]; intros E; inversion E; subst; exact H.
Qed.

(* the host-and-port state: linear in the input, plus the cost of the host parser on the host text (at most the
   input) and the length of the text Display writes *)
Theorem parse_host_and_port_cost_le ctx st l :
  parse_host_and_port_cost hp hpo hd hpc hpoc ctx st l
  <= 3 * nlen l + 49 + hpc (host_text st l) + hpoc (host_text st l)
     + match parse_host hp hpo st l with POk (host, _) => nlen (hd host) | _ => 0 end.
Proof.
  unfold parse_host_and_port_cost. pose proof (parse_host_cost_le st l) as H1.
  destruct (parse_host hp hpo st l) as [[host remaining]| |] eqn:Eh; [|lia|lia].
  pose proof (parse_host_rem st l host remaining Eh) as H2.
  destruct (inp_split_prefix_char 58 remaining) as [rem|] eqn:Es; [|lia].
  pose proof (inp_split_prefix_char_len 58 remaining rem Es) as H3.
  pose proof (proj2 (parse_port_loop_c_spec ctx rem 0 false)) as H4. lia.
Qed.

(* with linear host functions the state is linear: a, b bound the host parsers, d, e the Display text (e also the
   Display text of the empty host, which the file host state substitutes for "localhost") *)
Theorem parse_host_and_port_linear ctx st l a b d e :
  (forall t, hpc t <= a * nlen t + b) -> (forall t, hpoc t <= a * nlen t + b) ->
  (forall t h, hp t = Ok h \/ hpo t = Ok h -> nlen (hd h) <= d * nlen t + e) -> nlen (hd (HDomain [])) <= e ->
  parse_host_and_port_cost hp hpo hd hpc hpoc ctx st l <= (3 + 2 * a + d) * nlen l + (49 + 2 * b + e).
Proof.
  intros Ha Hb Hd Hd0. pose proof (parse_host_and_port_cost_le ctx st l) as H. pose proof (host_text_len st l) as Ht.
  pose proof (Ha (host_text st l)). pose proof (Hb (host_text st l)).
  assert (match parse_host hp hpo st l with POk (host, _) => nlen (hd host) | _ => 0 end <= d * nlen l + e) as Hh.
  { unfold parse_host. unfold host_text in Ht. destruct (st_is_file st).
    - unfold get_file_host. destruct (file_host l) as [h rem]. cbn [fst] in Ht. destruct (hp h) as [hst|er] eqn:E; cbn [of_result pbind]; [|lia].
      assert (nlen (hd hst) <= d * nlen h + e) as X by (apply Hd; left; exact E).
      destruct hst as [dm|x|x]; [|nia|nia]. destruct (list_eqb dm s_localhost).
      + nia.
      + nia.
    - destruct (host_scan (st_is_special st) false [] l) as [h rem]. cbn [fst] in Ht.
      destruct (scheme_type_eqb st STSpecialNotFile && _); [lia|].
      destruct (negb (st_is_special st)).
      + destruct (hpo h) as [hst|er] eqn:E; cbn [of_result pbind]; [|lia].
        assert (nlen (hd hst) <= d * nlen h + e) as X by (apply Hd; right; exact E). nia.
      + destruct (hp h) as [hst|er] eqn:E; cbn [of_result pbind]; [|lia].
        assert (nlen (hd hst) <= d * nlen h + e) as X by (apply Hd; left; exact E). nia. }
  nia.
Qed.
End HostLinear.
