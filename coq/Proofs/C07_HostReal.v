(* Proofs/C07_HostReal.v - the host hypothesis of the C07 equivalence (host_fn_ok of Proofs/C07_EqHostname.v: same
   success, same text, host_disp_ok, empty host <-> SEmpty <-> empty string) for the REAL host functions - Host::parse
   with a domain-to-ASCII oracle, Host::parse_opaque, Display - against the Standard's host parser with the same oracle
   and the Standard's host serializer, under IdnaOK idna, pointwise:
     host_fn_real_opaque   on every scalar-value string (from C01 host_agree_real_all + C09 model_HostWf)
     host_fn_real_special  on every non-empty scalar-value string (from C01 host_agree_special + C09 model_HostWf)
   host_fns_ok itself quantifies over ALL strings (also non-scalar-value ones, and the empty string for Host::parse)
   and is NOT implied by IdnaOK (host_fn_ok_special_empty_string); the strings the setters and the parser hand to the
   host functions are sub-strings of scalar-value inputs, non-empty for Host::parse - carrying that restriction through
   Proofs/C07_EqHostname.v .. C07_EqNine.v is what separates C07_statement_nine_all from a statement relative to IdnaOK
   only. *)
From Coq Require Import Bool.
From RU Require Import Base.Prelude Base.Utf8 Model.HostT Model.Host Model.UrlRecord Spec.Whatwg Spec.WhatwgHost Spec.WhatwgHostParse
  Proofs.C06_Host Proofs.C03_ReachParts Proofs.C09_Host Proofs.C09_InstWf
  Proofs.C01_EqAuthModel Proofs.C01_EqSpModel Proofs.C01_EqSpHost Proofs.C07_EqHostname.

Definition host_fn_ok_at (hf : list N -> result host) (hd : host -> list N)
           (shp : bool -> list N -> option spec_host) (shs : spec_host -> list N) (o : bool) (s : list N) : Prop :=
  match hf s, host_parsing shp o s with
  | Ok h, Some sh => hd h = shs sh /\ host_disp_ok hd h
                     /\ (h = HDomain [] <-> sh = SEmpty) /\ (h = HDomain [] <-> s = [])
  | Err _, None => True
  | _, _ => False
  end.

Lemma host_fn_ok_pointwise hf hd shp shs o : host_fn_ok hf hd shp shs o <-> forall s, host_fn_ok_at hf hd shp shs o s.
Proof. split; intros H s; exact (H s). Qed.

Lemma text_wf_head t : host_text_wf t -> exists c r, t = c :: r /\ c <> 58 /\ c <> 64.
Proof.
  intros (N0 & N1 & N2 & _). destruct t as [|x r]; [contradiction|]. exists x, r. split; [reflexivity|].
  split; intros ->; [apply N1 | apply N2]; reflexivity.
Qed.

Lemma wf_disp_ok hd h : hd (HDomain []) = [] -> (h <> HDomain [] -> host_text_wf (hd h)) -> host_disp_ok hd h.
Proof.
  intros He Hw. unfold host_disp_ok.
  destruct h as [[|c d]|a|p]; cbn [hi_of_host]; [exact He | | |]; apply text_wf_head; apply Hw; discriminate.
Qed.

Section Real.
Variable idna : list N -> option (list N).
Hypothesis OK : IdnaOK idna.

Theorem host_fn_real_opaque s : usv_list s ->
  host_fn_ok_at host_parse_opaque host_display (spec_host_parser idna) spec_host_serializer true s.
Proof.
  intros Hu. pose proof (host_agree_real_all idna s Hu) as A. unfold host_agree in A. unfold host_fn_ok_at.
  destruct (model_HostWf idna OK) as (_ & W2 & W3).
  destruct (host_parse_opaque s) as [h|e] eqn:Eh;
    destruct (host_parsing (spec_host_parser idna) true s) as [sh|] eqn:Es; try exact A.
  destruct A as (A1 & A2 & A3 & A4).
  split; [exact A1|]. split; [apply wf_disp_ok; [exact W3 | exact (W2 s h Eh)]|]. split; [|exact A3].
  split.
  - intros Hh. apply A3 in Hh. subst s. cbn in Es. injection Es as <-. reflexivity.
  - intros ->. apply A3. apply A4. rewrite A1. reflexivity.
Qed.

Theorem host_fn_real_special s : usv_list s -> s <> [] ->
  host_fn_ok_at (host_parse idna) host_display (spec_host_parser idna) spec_host_serializer false s.
Proof.
  intros Hu Hne. pose proof (host_agree_special idna (idna_out idna OK) s Hu) as A. unfold host_agree_sp in A.
  unfold host_fn_ok_at. destruct s as [|c r]; [contradiction|].
  destruct (model_HostWf idna OK) as (W1 & _ & W3).
  destruct (host_parse idna (c :: r)) as [h|e] eqn:Eh;
    destruct (host_parsing (spec_host_parser idna) false (c :: r)) as [sh|] eqn:Es; try exact A.
  destruct A as (A1 & A2 & A3 & A4 & A5).
  split; [exact A1|]. split; [apply wf_disp_ok; [exact W3 | exact (W1 _ h Eh)]|]. split.
  - split; [intros X; contradiction|]. intros ->. exfalso. apply A4. rewrite A1. reflexivity.
  - split; [intros X; contradiction | discriminate].
Qed.
End Real.

(* the hypothesis host_fns_ok of Proofs/C07_EqHostname.v asks for agreement on EVERY string; for Host::parse that
   includes the empty string, on which the answer depends on what the oracle says about the empty string - a fact
   IdnaOK does not fix (the callers never hand the empty string to Host::parse: a special URL with an empty host
   text is refused before) *)
Theorem host_fn_ok_special_empty_string idna : idna [] = Some [97] ->
  ~ host_fn_ok (host_parse idna) host_display (spec_host_parser idna) spec_host_serializer false.
Proof.
  intros E H. specialize (H []). unfold host_parse, host_parsing, spec_host_parser in H. cbn in H. rewrite E in H.
  vm_compute in H. destruct H as (_ & _ & _ & _ & H). specialize (H eq_refl). discriminate H.
Qed.
