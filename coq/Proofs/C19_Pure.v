(* Proofs/C19_Pure.v - the panic-free, code-point-level reading of Model/Mime.v, and the proof that on
   a `&str` (a list of Unicode scalar values) the model computes exactly that: the `unwrap` of split2
   and the table index of only_http_token_code_points never fail, and the byte-level token test is
   the code-point-level test "every code point is an RFC 7230 tchar". *)
From RU Require Import Base.Prelude Base.Utf8 Base.Utf8Facts Gen.Tables Model.Mime Proofs.C19_Tables.

Definition plist : Type := list (list N * list N).

(* ---- unfolding lemmas for the scanner (nested fixpoint) ---- *)
Lemma scan_nil pieces acc :
  scan_quoted pieces [] acc =
  match pieces with
  | piece :: rest => scan_quoted rest piece (59 :: acc)
  | [] => (rev acc, [])
  end.
Proof. destruct pieces; reflexivity. Qed.

Lemma scan_cons pieces c cs acc :
  scan_quoted pieces (c :: cs) acc =
  if c =? 34 then (rev acc, pieces)
  else if c =? 92 then
    match cs with
    | c2 :: cs2 => scan_quoted pieces cs2 (c2 :: acc)
    | [] => match pieces with
            | piece :: rest => scan_quoted rest piece (59 :: acc)
            | [] => (rev (92 :: acc), [])
            end
    end
  else scan_quoted pieces cs (c :: acc).
Proof. destruct pieces; reflexivity. Qed.

(* ---- the token test on code points ---- *)
Definition tokens (s : list N) : bool := forallb rfc7230_tchar s.

Lemma utf8_encode1_head c :
  is_usv c -> 128 <= c -> exists b0 r, utf8_encode1 c = b0 :: r /\ 128 <= b0 /\ b0 < 256.
Proof.
  intros Hc Hge. unfold utf8_encode1, is_usv in *.
  replace (c <? 128) with false by lia.
  destruct (c <? 2048) eqn:E2; [eexists; eexists; split; [reflexivity|lia]|].
  destruct (c <? 65536) eqn:E3; eexists; eexists; (split; [reflexivity|lia]).
Qed.

Lemma tchar_false_high b : 128 <= b -> rfc7230_tchar b = false.
Proof.
  intros H. destruct (rfc7230_tchar b) eqn:E; [|reflexivity]. apply tchar_ascii in E. lia.
Qed.

Lemma only_tok_spec s : usv_list s -> only_http_token_code_points s = Ok (tokens s).
Proof.
  unfold only_http_token_code_points, tokens.
  induction s as [|c s IH]; intros H.
  - reflexivity.
  - inversion H as [|? ? Hc Hs]; subst. unfold utf8_encode. cbn [flat_map forallb].
    fold (utf8_encode s).
    destruct (c <? 128) eqn:E.
    + unfold utf8_encode1. rewrite E. cbn [app all_token_bytes].
      rewrite is_http_token_at_spec by lia. cbn [bind].
      destruct (rfc7230_tchar c); [exact (IH Hs)|reflexivity].
    + destruct (utf8_encode1_head c Hc) as [b0 [r [He [Hlo Hhi]]]]; [lia|].
      rewrite He. cbn [app all_token_bytes].
      rewrite is_http_token_at_spec by exact Hhi. cbn [bind].
      rewrite (tchar_false_high b0 Hlo). rewrite (tchar_false_high c) by lia. reflexivity.
Qed.

Lemma tokens_ascii s : tokens s = true -> ascii s.
Proof.
  unfold tokens, ascii. induction s as [|c s IH]; cbn [forallb]; intros H.
  - constructor.
  - apply andb_true_iff in H. destruct H as [H1 H2]. constructor; [exact (tchar_ascii c H1)|exact (IH H2)].
Qed.

Lemma ascii_usv s : ascii s -> usv_list s.
Proof.
  unfold ascii, usv_list, is_ascii, is_usv. intros H. eapply Forall_impl; [|exact H]. cbv beta. intros; lia.
Qed.

Lemma utf8_encode_ascii s : ascii s -> utf8_encode s = s.
Proof.
  unfold ascii, is_ascii. induction s as [|c s IH]; intros H.
  - reflexivity.
  - inversion H as [|? ? Hc Hs]; subst. unfold utf8_encode. cbn [flat_map]. fold (utf8_encode s).
    unfold utf8_encode1. replace (c <? 128) with true by lia. cbn [app]. f_equal. exact (IH Hs).
Qed.

(* ---- split2 never takes the Panic branch ---- *)
Lemma split2_spec s sep : split2 s sep = Ok (split_once sep s).
Proof. unfold split2, splitn2. destruct (split_once sep s) as [a [b|]]; reflexivity. Qed.

(* ---- generic "is made of input code points" facts ---- *)
Section Sub.
  Variable P : N -> Prop.

  Lemma trim_start_Forall s : Forall P s -> Forall P (trim_start s).
  Proof.
    induction s as [|c s IH]; intros H; cbn [trim_start]; [constructor|].
    destruct (http_whitespace c); [|exact H]. inversion H; subst. apply IH. assumption.
  Qed.

  Lemma trim_end_Forall s : Forall P s -> Forall P (trim_end s).
  Proof.
    induction s as [|c s IH]; intros H; cbn [trim_end]; [constructor|].
    inversion H as [|? ? Hc Hs]; subst. specialize (IH Hs).
    destruct (trim_end s) as [|x r].
    - destruct (http_whitespace c); repeat constructor. exact Hc.
    - constructor; assumption.
  Qed.

  Lemma split_once_Forall sep s :
    Forall P s ->
    Forall P (fst (split_once sep s)) /\
    match snd (split_once sep s) with Some b => Forall P b | None => True end.
  Proof.
    induction s as [|c s IH]; intros H; cbn [split_once].
    - cbn. split; [constructor|exact I].
    - inversion H as [|? ? Hc Hs]; subst. destruct (c =? sep).
      + cbn. split; [constructor|exact Hs].
      + destruct (split_once sep s) as [a b]. cbn [fst snd] in *. destruct (IH Hs) as [Ha Hb].
        split; [constructor; assumption|exact Hb].
  Qed.

  Lemma split_all_Forall sep s :
    Forall P s -> Forall P (fst (split_all sep s)) /\ Forall (Forall P) (snd (split_all sep s)).
  Proof.
    induction s as [|c s IH]; intros H; cbn [split_all].
    - cbn. split; constructor.
    - inversion H as [|? ? Hc Hs]; subst. destruct (split_all sep s) as [p ps]. cbn [fst snd] in *.
      destruct (IH Hs) as [Hp Hps]. destruct (c =? sep); cbn [fst snd].
      + split; [constructor|constructor; assumption].
      + split; [constructor; assumption|exact Hps].
  Qed.

End Sub.

Lemma list_ind_2step (A : Type) (Q : list A -> Prop) :
  Q [] -> (forall c, Q [c]) -> (forall c c2 cs, Q cs -> Q (c2 :: cs) -> Q (c :: c2 :: cs)) ->
  forall l, Q l.
Proof.
  intros H0 H1 H2 l. assert (H : Q l /\ forall c, Q (c :: l)); [|exact (proj1 H)].
  induction l as [|x l [IHa IHb]].
  - split; [exact H0|exact H1].
  - split; [exact (IHb x)|]. intros c. apply H2; [exact IHa|exact (IHb x)].
Qed.

Lemma Forall_skipn (A : Type) (P : A -> Prop) k : forall l, Forall P l -> Forall P (skipn k l).
Proof.
  induction k as [|k IH]; intros l H; [exact H|]. destruct l as [|x l]; [constructor|].
  cbn [skipn]. inversion H; subst. apply IH. assumption.
Qed.

Lemma skipn_length_le (A : Type) k : forall l : list A, (length (skipn k l) <= length l)%nat.
Proof. intros l. rewrite skipn_length. lia. Qed.

(* the part of a value before its first ';' *)
Fixpoint before_semicolon (v : list N) : list N :=
  match v with
  | [] => []
  | c :: r => if c =? 59 then [] else c :: before_semicolon r
  end.

(* everything the proofs need to know about a run of the scanner on arbitrary input: the value
   extends acc by some w, the pieces handed back are a suffix of the pieces it was given, w is made
   of code points of the input (plus ';' and '\'), and up to its first ';' w is made of code points
   of the piece the scan started in *)
Definition scan_facts (pieces : list (list N)) (chars acc : list N) : Prop :=
  exists w k,
    scan_quoted pieces chars acc = (rev acc ++ w, skipn k pieces)
    /\ (forall P : N -> Prop, P 59 -> P 92 -> Forall (Forall P) pieces -> Forall P chars -> Forall P w)
    /\ (forall Q : N -> Prop, Q 92 -> Forall Q chars -> Forall Q (before_semicolon w)).

Lemma scan_facts_next piece rest acc :
  (forall chars acc, scan_facts rest chars acc) ->
  exists w k, scan_quoted rest piece (59 :: acc) = (rev acc ++ w, skipn k (piece :: rest))
    /\ (forall P : N -> Prop, P 59 -> P 92 -> Forall (Forall P) (piece :: rest) -> Forall P w)
    /\ (forall Q : N -> Prop, Forall Q (before_semicolon w)).
Proof.
  intros IHp. destruct (IHp piece (59 :: acc)) as [w [k [E [HP _]]]].
  exists (59 :: w), (S k). cbn [skipn]. split; [|split].
  - rewrite E. cbn [rev]. rewrite <- app_assoc. reflexivity.
  - intros P P59 P92 Hp. inversion Hp; subst. constructor; [exact P59|]. apply HP; assumption.
  - intros Q. cbn [before_semicolon]. replace (59 =? 59) with true by lia. constructor.
Qed.

Lemma scan_quoted_facts pieces : forall chars acc, scan_facts pieces chars acc.
Proof.
  induction pieces as [|piece rest IHp].
  - intros chars. induction chars as [|c|c c2 cs IH1 IH2] using list_ind_2step; intros acc; unfold scan_facts.
    + rewrite scan_nil. exists [], 0%nat. rewrite app_nil_r. repeat split; constructor.
    + rewrite scan_cons. destruct (c =? 34) eqn:E34.
      { exists [], 0%nat. rewrite app_nil_r. repeat split; constructor. }
      destruct (c =? 92) eqn:E92.
      { exists [92], 0%nat. cbn [rev skipn]. split; [reflexivity|]. split.
        - intros P _ P92 _ _. repeat constructor. exact P92.
        - intros Q Q92 _. cbn [before_semicolon]. replace (92 =? 59) with false by lia. repeat constructor. exact Q92. }
      rewrite scan_nil. exists [c], 0%nat. cbn [rev skipn]. split; [reflexivity|]. split.
      * intros P _ _ _ Hc. exact Hc.
      * intros Q _ Hc. cbn [before_semicolon]. destruct (c =? 59); [constructor|exact Hc].
    + rewrite scan_cons. destruct (c =? 34) eqn:E34.
      { exists [], 0%nat. rewrite app_nil_r. repeat split; constructor. }
      destruct (c =? 92) eqn:E92.
      { destruct (IH1 (c2 :: acc)) as [w [k [E [HP HQ]]]]. exists (c2 :: w), k. split; [|split].
        - rewrite E. cbn [rev]. rewrite <- app_assoc. reflexivity.
        - intros P P59 P92 Hp Hc. inversion Hc as [|? ? _ Hc']; subst. inversion Hc' as [|? ? Hc2 Hcs]; subst.
          constructor; [exact Hc2|]. apply HP; assumption.
        - intros Q Q92 Hc. inversion Hc as [|? ? _ Hc']; subst. inversion Hc' as [|? ? Hc2 Hcs]; subst.
          cbn [before_semicolon]. destruct (c2 =? 59); [constructor|]. constructor; [exact Hc2|]. apply HQ; assumption. }
      destruct (IH2 (c :: acc)) as [w [k [E [HP HQ]]]]. exists (c :: w), k. split; [|split].
      * rewrite E. cbn [rev]. rewrite <- app_assoc. reflexivity.
      * intros P P59 P92 Hp Hc. inversion Hc as [|? ? Hc1 Hc']; subst. constructor; [exact Hc1|]. apply HP; assumption.
      * intros Q Q92 Hc. inversion Hc as [|? ? Hc1 Hc']; subst.
        cbn [before_semicolon]. destruct (c =? 59); [constructor|]. constructor; [exact Hc1|]. apply HQ; assumption.
  - intros chars. induction chars as [|c|c c2 cs IH1 IH2] using list_ind_2step; intros acc; unfold scan_facts.
    + rewrite scan_nil. destruct (scan_facts_next piece rest acc IHp) as [w [k [E [HP HQ]]]].
      exists w, k. split; [exact E|]. split; [intros P P59 P92 Hp _; apply HP; assumption|intros Q _ _; apply HQ].
    + rewrite scan_cons. destruct (c =? 34) eqn:E34.
      { exists [], 0%nat. rewrite app_nil_r. repeat split; constructor. }
      destruct (c =? 92) eqn:E92.
      { destruct (scan_facts_next piece rest acc IHp) as [w [k [E [HP HQ]]]].
        exists w, k. split; [exact E|]. split; [intros P P59 P92 Hp _; apply HP; assumption|intros Q _ _; apply HQ]. }
      rewrite scan_nil. destruct (scan_facts_next piece rest (c :: acc) IHp) as [w [k [E [HP HQ]]]].
      exists (c :: w), k. split; [|split].
      * rewrite E. cbn [rev]. rewrite <- app_assoc. reflexivity.
      * intros P P59 P92 Hp Hc. inversion Hc as [|? ? Hc1 _]; subst. constructor; [exact Hc1|]. apply HP; assumption.
      * intros Q _ Hc. inversion Hc as [|? ? Hc1 _]; subst.
        cbn [before_semicolon]. destruct (c =? 59); [constructor|]. constructor; [exact Hc1|]. apply HQ.
    + rewrite scan_cons. destruct (c =? 34) eqn:E34.
      { exists [], 0%nat. rewrite app_nil_r. repeat split; constructor. }
      destruct (c =? 92) eqn:E92.
      { destruct (IH1 (c2 :: acc)) as [w [k [E [HP HQ]]]]. exists (c2 :: w), k. split; [|split].
        - rewrite E. cbn [rev]. rewrite <- app_assoc. reflexivity.
        - intros P P59 P92 Hp Hc. inversion Hc as [|? ? _ Hc']; subst. inversion Hc' as [|? ? Hc2 Hcs]; subst.
          constructor; [exact Hc2|]. apply HP; assumption.
        - intros Q Q92 Hc. inversion Hc as [|? ? _ Hc']; subst. inversion Hc' as [|? ? Hc2 Hcs]; subst.
          cbn [before_semicolon]. destruct (c2 =? 59); [constructor|]. constructor; [exact Hc2|]. apply HQ; assumption. }
      destruct (IH2 (c :: acc)) as [w [k [E [HP HQ]]]]. exists (c :: w), k. split; [|split].
      * rewrite E. cbn [rev]. rewrite <- app_assoc. reflexivity.
      * intros P P59 P92 Hp Hc. inversion Hc as [|? ? Hc1 Hc']; subst. constructor; [exact Hc1|]. apply HP; assumption.
      * intros Q Q92 Hc. inversion Hc as [|? ? Hc1 Hc']; subst.
        cbn [before_semicolon]. destruct (c =? 59); [constructor|]. constructor; [exact Hc1|]. apply HQ; assumption.
Qed.

Lemma scan_quoted_rest_Forall (P : list N -> Prop) pieces chars acc :
  Forall P pieces -> Forall P (snd (scan_quoted pieces chars acc)).
Proof.
  intros H. destruct (scan_quoted_facts pieces chars acc) as [w [k [E _]]]. rewrite E. cbn [snd].
  apply Forall_skipn. exact H.
Qed.

Lemma scan_quoted_rest_length pieces chars acc :
  (length (snd (scan_quoted pieces chars acc)) <= length pieces)%nat.
Proof.
  destruct (scan_quoted_facts pieces chars acc) as [w [k [E _]]]. rewrite E. cbn [snd]. apply skipn_length_le.
Qed.

(* ---- pure versions of the functions that go through split2 / the token table ---- *)
Definition p_name_valid (parameters : plist) (name : list N) : bool :=
  negb (is_empty name) && tokens name && negb (contains parameters name).

Lemma name_valid_spec parameters name :
  usv_list name -> name_valid parameters name = Ok (p_name_valid parameters name).
Proof.
  intros H. unfold name_valid, p_name_valid. destruct (is_empty name); [reflexivity|].
  rewrite (only_tok_spec name H). cbn [bind negb andb]. destruct (tokens name); reflexivity.
Qed.

Fixpoint p_params_loop (fuel : nat) (pieces : list (list N)) (parameters : plist) : outcome plist :=
  match fuel with
  | O => OutOfFuel
  | S fuel' =>
    match pieces with
    | [] => Ok parameters
    | piece :: rest =>
      let (name, value) := split_once 61 (trim_start piece) in
      let name_ok := p_name_valid parameters name in
      match value with
      | None => p_params_loop fuel' rest parameters
      | Some value =>
        match strip_prefix_quote value with
        | Some stripped =>
            let (unescaped_value, rest') := scan_quoted rest stripped [] in
            if negb name_ok || negb (valid_value value) then p_params_loop fuel' rest' parameters
            else p_params_loop fuel' rest' (parameters ++ [(to_ascii_lowercase name, unescaped_value)])
        | None =>
            let value := trim_end value in
            if is_empty value then p_params_loop fuel' rest parameters
            else if negb name_ok || negb (valid_value value) then p_params_loop fuel' rest parameters
            else p_params_loop fuel' rest (parameters ++ [(to_ascii_lowercase name, value)])
        end
      end
    end
  end.

Lemma usv_59 : is_usv 59. Proof. unfold is_usv. lia. Qed.
Lemma usv_92 : is_usv 92. Proof. unfold is_usv. lia. Qed.

Lemma params_loop_spec fuel : forall pieces parameters,
  Forall usv_list pieces -> params_loop fuel pieces parameters = p_params_loop fuel pieces parameters.
Proof.
  induction fuel as [|fuel IH]; intros pieces parameters Hp; [reflexivity|].
  cbn [params_loop p_params_loop]. destruct pieces as [|piece rest]; [reflexivity|].
  inversion Hp as [|? ? Hpiece Hrest]; subst.
  rewrite split2_spec. cbn [bind].
  pose proof (split_once_Forall is_usv 61 (trim_start piece) (trim_start_Forall is_usv piece Hpiece)) as [Hn Hv].
  destruct (split_once 61 (trim_start piece)) as [name value]. cbn [fst snd] in Hn, Hv.
  rewrite (name_valid_spec parameters name Hn). cbn [bind].
  destruct value as [value|]; [|exact (IH rest parameters Hrest)].
  destruct (strip_prefix_quote value) as [stripped|] eqn:Es.
  - assert (Hst : usv_list stripped).
    { unfold strip_prefix_quote in Es. destruct value as [|c r]; [discriminate|].
      destruct (c =? 34); [|discriminate]. inversion Es; subst. inversion Hv; assumption. }
    pose proof (scan_quoted_rest_Forall usv_list rest stripped [] Hrest) as Hr'.
    destruct (scan_quoted rest stripped []) as [u rest']. cbn [snd] in Hr'.
    destruct (negb (p_name_valid parameters name) || negb (valid_value value)); apply IH; exact Hr'.
  - destruct (is_empty (trim_end value)); [exact (IH rest parameters Hrest)|].
    destruct (negb (p_name_valid parameters name) || negb (valid_value (trim_end value))); apply IH; exact Hrest.
Qed.

Definition p_parse_parameters (s : list N) (parameters : plist) : outcome plist :=
  let (p, ps) := split_all 59 s in
  p_params_loop (S (S (length ps))) (p :: ps) parameters.

Lemma parse_parameters_spec s parameters :
  usv_list s -> parse_parameters s parameters = p_parse_parameters s parameters.
Proof.
  intros H. unfold parse_parameters, p_parse_parameters.
  pose proof (split_all_Forall is_usv 59 s H) as [Hp Hps].
  destruct (split_all 59 s) as [p ps]. cbn [fst snd] in Hp, Hps.
  apply params_loop_spec. constructor; assumption.
Qed.

Definition p_parse (s : list N) : outcome (option mime) :=
  let trimmed := trim_matches s in
  let (type_, rest) := split_once 47 trimmed in
  if negb (tokens type_ && negb (is_empty type_)) then Ok None else
  match rest with
  | None => Ok None
  | Some rest =>
    let (subtype, rest) := split_once 59 rest in
    let subtype := trim_end subtype in
    if negb (tokens subtype && negb (is_empty subtype)) then Ok None else
    bind (match rest with
          | Some rest => p_parse_parameters rest []
          | None => Ok []
          end) (fun parameters =>
    Ok (Some (mk_mime (to_ascii_lowercase type_) (to_ascii_lowercase subtype) parameters)))
  end.

Lemma parse_spec s : usv_list s -> parse s = p_parse s.
Proof.
  intros H. unfold parse, p_parse.
  assert (Ht : usv_list (trim_matches s)).
  { unfold trim_matches. apply trim_end_Forall. apply trim_start_Forall. exact H. }
  rewrite split2_spec. cbn [bind].
  pose proof (split_once_Forall is_usv 47 _ Ht) as [Hty Hrest].
  destruct (split_once 47 (trim_matches s)) as [type_ rest]. cbn [fst snd] in Hty, Hrest.
  rewrite (only_tok_spec type_ Hty). cbn [bind].
  destruct (negb (tokens type_ && negb (is_empty type_))); [reflexivity|].
  destruct rest as [rest|]; [|reflexivity].
  rewrite split2_spec. cbn [bind].
  pose proof (split_once_Forall is_usv 59 _ Hrest) as [Hsub Hrest2].
  destruct (split_once 59 rest) as [subtype rest2]. cbn [fst snd] in Hsub, Hrest2.
  rewrite (only_tok_spec (trim_end subtype) (trim_end_Forall is_usv subtype Hsub)). cbn [bind].
  destruct (negb (tokens (trim_end subtype) && negb (is_empty (trim_end subtype)))); [reflexivity|].
  destruct rest2 as [rest2|]; [|reflexivity].
  rewrite (parse_parameters_spec rest2 [] Hrest2). reflexivity.
Qed.

(* ---- Display ---- *)
Definition p_display_value (value : list N) : list N :=
  if tokens value && negb (is_empty value) then value else 34 :: escape_value value ++ [34].

Definition ser_param (p : list N * list N) : list N := fst p ++ 61 :: p_display_value (snd p).
Definition tail_str (ps : plist) : list N := flat_map (fun p => 59 :: ser_param p) ps.
Definition p_display (m : mime) : list N := m_type m ++ 47 :: m_subtype m ++ tail_str (m_params m).

Definition usv_params (ps : plist) : Prop := Forall (fun p => usv_list (fst p) /\ usv_list (snd p)) ps.
Definition usv_mime (m : mime) : Prop :=
  usv_list (m_type m) /\ usv_list (m_subtype m) /\ usv_params (m_params m).

Lemma display_value_spec v : usv_list v -> display_value v = Ok (p_display_value v).
Proof.
  intros H. unfold display_value, p_display_value. rewrite (only_tok_spec v H). cbn [bind].
  destruct (tokens v && negb (is_empty v)); reflexivity.
Qed.

Lemma display_params_spec ps : usv_params ps -> display_params ps = Ok (tail_str ps).
Proof.
  unfold usv_params. induction ps as [|[n v] ps IH]; intros H; [reflexivity|].
  inversion H as [|? ? [_ Hv] Hps]; subst. cbn [snd] in Hv. cbn [display_params].
  rewrite (display_value_spec v Hv). cbn [bind]. rewrite (IH Hps). cbn [bind].
  unfold tail_str. cbn [flat_map app]. unfold ser_param. cbn [fst snd]. rewrite <- app_assoc. reflexivity.
Qed.

Lemma display_spec m : usv_mime m -> display m = Ok (p_display m).
Proof.
  intros [_ [_ Hp]]. unfold display, p_display. rewrite (display_params_spec _ Hp). reflexivity.
Qed.

(* ---- fuel is sufficient ---- *)
Lemma p_params_loop_fuel fuel : forall pieces parameters,
  (length pieces < fuel)%nat -> exists r, p_params_loop fuel pieces parameters = Ok r.
Proof.
  induction fuel as [|fuel IH]; intros pieces parameters Hlen; [lia|].
  cbn [p_params_loop]. destruct pieces as [|piece rest]; [eexists; reflexivity|].
  cbn [length] in Hlen.
  destruct (split_once 61 (trim_start piece)) as [name value].
  destruct value as [value|]; [|apply IH; lia].
  destruct (strip_prefix_quote value) as [stripped|].
  - pose proof (scan_quoted_rest_length rest stripped []) as Hl.
    destruct (scan_quoted rest stripped []) as [u rest']. cbn [snd] in Hl.
    destruct (negb (p_name_valid parameters name) || negb (valid_value value)); apply IH; lia.
  - destruct (is_empty (trim_end value)); [apply IH; lia|].
    destruct (negb (p_name_valid parameters name) || negb (valid_value (trim_end value))); apply IH; lia.
Qed.

Lemma p_parse_parameters_total s parameters : exists r, p_parse_parameters s parameters = Ok r.
Proof.
  unfold p_parse_parameters. destruct (split_all 59 s) as [p ps]. apply p_params_loop_fuel. cbn [length]. lia.
Qed.

Lemma p_parse_total s : exists r, p_parse s = Ok r.
Proof.
  unfold p_parse. destruct (split_once 47 (trim_matches s)) as [type_ rest].
  destruct (negb (tokens type_ && negb (is_empty type_))); [eexists; reflexivity|].
  destruct rest as [rest|]; [|eexists; reflexivity].
  destruct (split_once 59 rest) as [subtype rest2].
  destruct (negb (tokens (trim_end subtype) && negb (is_empty (trim_end subtype)))); [eexists; reflexivity|].
  destruct rest2 as [rest2|].
  - destruct (p_parse_parameters_total rest2 []) as [r Hr]. rewrite Hr. cbn [bind]. eexists; reflexivity.
  - cbn [bind]. eexists; reflexivity.
Qed.

(* parsing a &str never panics and never runs out of fuel *)
Theorem parse_total s : usv_list s -> exists r, parse s = Ok r.
Proof. intros H. rewrite (parse_spec s H). apply p_parse_total. Qed.

Theorem display_total m : usv_mime m -> exists d, display m = Ok d.
Proof. intros H. rewrite (display_spec m H). eexists; reflexivity. Qed.
