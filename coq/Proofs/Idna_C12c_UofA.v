(* Proofs/Idna_C12c_UofA.v - C12, clause u_of_a in full: for every accepted name d whose ASCII form a is outside
   Known_C10_long, ToUnicode of a is ToUnicode of d (same text, no error).  Premises: the six sampled adapter facts of
   C10_idem3; no exclusion of Known_C12 / Known_C11.
   The label step of the run on a turns the text written for a pair (buffer label, entry) back into the same buffer
   label, with the entry e2_of (pair_rt2 - the proof of pair_rt of Proofs/Idna_C10c_Idem.v with the entry made
   explicit); the Unicode text written for the new entry is the one written for the old (out_e2).  The runs are
   compared through the virtual run (Proofs/Idna_C12c_Virtual.v). *)
From RU Require Import Base.Prelude Base.Utf8 Base.U32_c13 Gen.Tables Model.Punycode Model.Uts46
  Proofs.C13_Ascii Proofs.Idna_Sim Proofs.Idna_Api Proofs.Idna_Known Proofs.Idna_Hyp Proofs.Idna_Redisc
  Proofs.Idna_C10_Deny Proofs.Idna_C10_Puny Proofs.Idna_C10_Prefix Proofs.Idna_C10_Inner Proofs.Idna_C10_Walk
  Proofs.Idna_C10b_Long Proofs.Idna_C10b_AsciiInner Proofs.Idna_C10b_AsciiWalk Proofs.Idna_C10b_Stmt
  Proofs.Idna_WalkFun Proofs.Idna_WalkInv Proofs.Idna_WalkApi Proofs.Idna_WalkEnc Proofs.Idna_PunyRT
  Proofs.Idna_C10c_Puny Proofs.Idna_C10c_Start Proofs.Idna_C10c_Drun Proofs.Idna_C10c_Loop Proofs.Idna_C10c_Rerun
  Proofs.Idna_C10c_Idem Proofs.Idna_C10c_Example Proofs.Idna_Mark Proofs.Idna_C12 Proofs.Idna_C12b_Stmt3
  Proofs.Idna_C10d_CaseLabel Proofs.Idna_C10d_CaseLoop Proofs.Idna_C10d_Case Proofs.Idna_C12c_Virtual.

(* the entry the second run records for the text written for (dbl, e) *)
Definition e2_of (dbl : list N) (e : aal) (o : list N) : aal :=
  match e with
  | MixedCaseAscii m => MixedCaseAscii (map to_lower m)
  | MixedCasePunycode m => MixedCasePunycode (map to_lower m)
  | AalOther => if is_ascii_l dbl then MixedCaseAscii dbl else MixedCasePunycode o
  end.

Lemma ptake_app_pass pl x : Forall (fun l => is_passthrough_ascii_label l = true) pl -> ptake (pl ++ x) = pl ++ ptake x.
Proof. induction 1 as [|l r Hl _ IH]; [reflexivity|]. cbn [app ptake]. rewrite Hl, IH. reflexivity. Qed.

Section UofA.
Variable A : adapter.
Variable cfg : bool.
Variable deny : N.
Variable hy : hyphens.
Hypothesis HU : DenyUpper deny.
Hypothesis HL : LdhFree deny.
Hypothesis HOK : AdapterOK A.
Hypothesis HUSV : AdapterUSV A.
Hypothesis HNT : NvNoTrunc A.
Hypothesis HNI : NvIdem A.
Hypothesis HNM : AsciiNoMark A.
Hypothesis HMP : MapPrefix A.

Notation PairOK := (PairOK A cfg deny hy).
Notation RT := (RT A cfg deny hy).
Notation dd := (dd deny).
Notation other_enc := (other_enc A cfg deny hy HU HL).
Notation pair_out_nodot := (pair_out_nodot A cfg deny hy HU HL).
Notation clean_noupper := (clean_noupper deny HU).
Notation clean_ascii := (clean_ascii deny).

Lemma pair_rt2 dbl e o : PairOK dbl e -> out_label cfg is_ascii_l dbl e = inl o -> long_puny_label o = false ->
  RT o dbl (e2_of dbl e o).
Proof.
  intros HP Ho Hlong. pose proof (pair_out_nodot dbl e o HP Ho) as Hndo. pose proof (pairok_nodot A cfg deny hy dbl e HP) as Hndd.
  destruct HP as [m Han Hn Hacc|m dec dbl Ha Hn Hp Hc Hd Hapd Hchk Hna|dbl Hnv Hg Hchk Hu Hpre]; cbn [out_label] in Ho.
  - (* an all-ASCII input label *)
    inversion Ho. subst o. clear Ho. destruct Han as [Ha Hp]. cbn [e2_of].
    assert (Han2 : an_label (map to_lower m)) by (split; [exact (lower_ascii m Ha)|rewrite (hpp_lower m Ha); exact Hp]).
    split; [exact Hndo|]. split; [exact Hndd|]. split; [|split].
    + destruct m as [|b r]; [split; reflexivity|]. cbn [map]. intros db ap.
      change (to_lower b :: map to_lower r) with (map to_lower (b :: r)).
      rewrite (label_nonempty_an A cfg hy deny _ db ap Han2), (lab_acc_lower deny HU HL hy _ Ha), Hacc.
      rewrite (cmap_of_lower deny HU HL _ Ha). reflexivity.
    + cbn [stay_label]. rewrite lower_noupper_b. reflexivity.
    + intros _. unfold lab_acc in Hacc. apply andb_true_iff in Hacc. destruct Hacc as [Hf _]. apply negb_true_iff in Hf.
      rewrite (cmap_lower deny HU m Ha Hf). exact (lower_ascii m Ha).
  - (* an input label xn--... *)
    rewrite Hna in Ho. inversion Ho. subst o. clear Ho. cbn [e2_of].
    pose proof (lower_ascii m Ha) as Ha2. pose proof (hpp_lower m Ha) as Hp2. rewrite Hp in Hp2.
    split; [exact Hndo|]. split; [exact Hndd|]. split; [|split].
    + destruct (xn_prefix_spec m Ha Hp) as (a & b & r & Em & _ & _).
      assert (Hne : exists x y, map to_lower m = x :: y) by (rewrite Em; cbn [map]; eauto).
      destruct Hne as (x & y & Exy). rewrite Exy. rewrite <- Exy. intros db ap.
      rewrite label_nonempty_eq. unfold split_ascii_fast_path_prefix. rewrite (ascii_position _ Ha2). rewrite Hp2.
      assert (Hc2 : negb (match last_opt (map to_lower m) with Some l => l =? HYPHEN | None => false end)
                    && (len (map to_lower m) - 4 <=? PUNYCODE_DECODE_MAX_INPUT_LENGTH) = true).
      { rewrite last_opt_map. unfold len. rewrite map_length. fold (len m). unfold puny_cond in Hc.
        destruct (last_opt m) as [l|]; [|exact Hc]. cbn [option_map]. change HYPHEN with DELIMITER. rewrite to_lower_delim. exact Hc. }
      rewrite Hc2. rewrite skipn_map, decode_u8_lower, Hd. fold dd. rewrite Hapd. cbn [sbind].
      unfold chk in Hchk. rewrite Hchk. reflexivity.
    + cbn [stay_label]. rewrite Hna, lower_noupper_b. reflexivity.
    + intros Hpass. rewrite (prefix_not_pass _ Ha2 Hp2) in Hpass. discriminate.
  - destruct (is_ascii_l dbl) eqn:Easc.
    + (* an ASCII label of the mapped stream *)
      inversion Ho. subst o. clear Ho. cbn [e2_of]. rewrite Easc.
      pose proof (is_ascii_l_spec dbl Easc) as Ha.
      assert (Hcl : Forall (clean deny) dbl).
      { apply Forall_forall. intros c Hin. rewrite Forall_forall in Ha, Hg. exact (gc_clean deny DOT_MASK c (Ha c Hin) (Hg c Hin)). }
      assert (Han : an_label dbl) by (split; [exact Ha|exact (Hpre eq_refl)]).
      assert (Hacc : lab_acc deny hy dbl = true).
      { unfold lab_acc. rewrite (cmap_clean deny dbl Hcl), (clean_nofffd deny dbl Hcl). exact (chk_hyphens A cfg hy dbl Hchk). }
      split; [exact Hndo|]. split; [exact Hndd|]. split; [|split].
      * destruct dbl as [|b r]; [split; reflexivity|]. intros db ap.
        rewrite (label_nonempty_an A cfg hy deny _ db ap Han), Hacc, (cmap_clean deny _ Hcl). reflexivity.
      * cbn [stay_label]. rewrite (clean_noupper dbl Hcl). reflexivity.
      * intros _. exact Ha.
    + (* a non-ASCII label: xn-- and its Punycode form *)
      unfold enc_label in Ho. destruct (encode_internal cfg dbl) as [p| |s] eqn:Ee; try discriminate. inversion Ho. subst o. clear Ho.
      destruct (other_enc dbl p Hg Hchk Hu Easc Ee) as (Hpne & Hplast & Hpnd & Hpcl & Hpdec).
      cbn [e2_of]. rewrite Easc.
      pose proof (clean_ascii p Hpcl) as Hpa.
      assert (Hoa : Forall (fun b => b < 128) (120 :: 110 :: 45 :: 45 :: p)).
      { repeat (constructor; [lia|]). exact Hpa. }
      assert (Hop : has_punycode_prefix (120 :: 110 :: 45 :: 45 :: p) = true) by (apply xn_prefix_conv; left; reflexivity).
      split; [exact Hndo|]. split; [exact Hndd|]. split; [|split].
      * intros db ap.
        rewrite label_nonempty_eq. unfold split_ascii_fast_path_prefix. rewrite (ascii_position _ Hoa).
        rewrite Hop.
        assert (Hc2 : negb (match last_opt (120 :: 110 :: 45 :: 45 :: p) with Some l => l =? HYPHEN | None => false end)
                      && (len (120 :: 110 :: 45 :: 45 :: p) - 4 <=? PUNYCODE_DECODE_MAX_INPUT_LENGTH) = true).
        { apply andb_true_iff. split.
          - destruct p as [|p0 p']; [contradiction Hpne; reflexivity|].
            change (last_opt (120 :: 110 :: 45 :: 45 :: p0 :: p')) with (last_opt (p0 :: p')).
            destruct (last_opt (p0 :: p')) as [l|]; [|reflexivity]. apply negb_true_iff. apply N.eqb_neq. intros E. apply Hplast. rewrite E. reflexivity.
          - unfold long_puny_label in Hlong. rewrite Hop in Hlong. cbn [andb] in Hlong. apply N.leb_le. apply N.ltb_ge in Hlong. exact Hlong. }
        rewrite Hc2. change (skipn 4 (120 :: 110 :: 45 :: 45 :: p)) with p. rewrite Hpdec. fold dd.
        rewrite (apd_stable A deny dbl Hnv Hg). cbn [sbind]. unfold chk in Hchk. rewrite Hchk. reflexivity.
      * cbn [stay_label]. rewrite Easc. cbn [negb andb].
        replace (existsb is_upper (120 :: 110 :: 45 :: 45 :: p)) with false; [reflexivity|]. symmetry.
        cbn [existsb]. rewrite (clean_noupper p Hpcl). reflexivity.
      * intros Hpass. rewrite (prefix_not_pass _ Hoa Hop) in Hpass. discriminate.
Qed.
(* ---- the Unicode text written for the new entry ---- *)
Lemma out_e2 dbl e o : PairOK dbl e -> out_label cfg is_ascii_l dbl e = inl o ->
  out_label cfg uT dbl (e2_of dbl e o) = out_label cfg uT dbl e.
Proof.
  intros HP Ho. destruct HP as [m Han Hn Hacc|m dec dbl Ha Hn Hp Hc Hd Hapd Hchk Hna|dbl Hnv Hg Hchk Hu Hpre]; cbn [e2_of out_label uT].
  - rewrite lower_lower. reflexivity.
  - reflexivity.
  - destruct (is_ascii_l dbl) eqn:Easc; cbn [out_label uT]; [|reflexivity].
    pose proof (is_ascii_l_spec dbl Easc) as Ha.
    assert (Hcl : Forall (clean deny) dbl).
    { apply Forall_forall. intros c Hin. rewrite Forall_forall in Ha, Hg. exact (gc_clean deny DOT_MASK c (Ha c Hin) (Hg c Hin)). }
    f_equal. apply Idna_WalkFun.lower_noupper. eapply Forall_impl; [|exact Hcl]. intros c Hc. exact (proj1 (proj2 (clean_final deny c HU Hc))).
Qed.

(* ---- all the pairs: the triples of the second run, with explicit entries ---- *)
Fixpoint mkT (DBL : list (list N)) (ap : list aal) (os : list (list N)) : list triple :=
  match DBL, ap, os with
  | dbl :: DBL', e :: ap', o :: os' => (o, dbl, e2_of dbl e o) :: mkT DBL' ap' os'
  | _, _, _ => []
  end.

Lemma build_T2 DBL : forall ap os, Forall2 PairOK DBL ap -> outs cfg is_ascii_l DBL ap = inl os ->
  Forall (fun o => long_puny_label o = false) os ->
  map t_o (mkT DBL ap os) = os /\ map t_d (mkT DBL ap os) = DBL /\ Forall (RT3 A cfg deny hy) (mkT DBL ap os) /\
  outs cfg uT DBL (map t_e (mkT DBL ap os)) = outs cfg uT DBL ap.
Proof.
  induction DBL as [|dbl DBL IH]; intros ap os HP Ho Hl.
  - inversion HP; subst. cbn [outs] in Ho. inversion Ho. repeat split. constructor.
  - inversion HP as [|? e ? ap' H1 H2]; subst. cbn [outs] in Ho.
    destruct (out_label cfg is_ascii_l dbl e) as [o|s] eqn:E1; [|discriminate].
    destruct (outs cfg is_ascii_l DBL ap') as [os'|s] eqn:E2; [|discriminate]. inversion Ho. subst os.
    inversion Hl as [|? ? Hl1 Hl2]; subst.
    destruct (IH _ _ H2 E2 Hl2) as (T1 & T2 & T3 & T4). cbn [mkT map t_o t_d t_e fst snd]. rewrite T1, T2.
    split; [reflexivity|]. split; [reflexivity|]. split; [constructor; [exact (pair_rt2 _ _ _ H1 E1 Hl1)|exact T3]|].
    cbn [outs]. rewrite T4, (out_e2 _ _ _ H1 E1). reflexivity.
Qed.

Lemma pres_of_rt o dbl e : RT o dbl e -> pres A cfg deny hy o = SOk (dbl, false, [e]).
Proof.
  intros (_ & _ & Hrun & _). destruct o as [|b r]; [destruct Hrun as [-> ->]; reflexivity|]. cbn [pres]. exact (Hrun [] []).
Qed.
Lemma proc_all_rt T : Forall (RT3 A cfg deny hy) T ->
  proc_all A cfg deny hy (map t_o T) = SOk (map t_d T, map (fun t => [t_e t]) T).
Proof.
  induction 1 as [|t r Ht _ IH]; [reflexivity|]. cbn [map proc_all]. rewrite (pres_of_rt _ _ _ Ht), IH. reflexivity.
Qed.
Lemma concat_singles (T : list triple) : concat (map (fun t => [t_e t]) T) = map t_e T.
Proof. induction T as [|t r IH]; [reflexivity|]. cbn [map concat app]. rewrite IH. reflexivity. Qed.
End UofA.

Section UofA2.
Variable A : adapter.
Variable cfg : bool.
Variable deny : N.
Variable hy : hyphens.
Hypothesis HU : DenyUpper deny.
Hypothesis HL : LdhFree deny.
Hypothesis HOK : AdapterOK A.
Hypothesis HUSV : AdapterUSV A.
Hypothesis HNT : NvNoTrunc A.
Hypothesis HNI : NvIdem A.
Hypothesis HNM : AsciiNoMark A.
Hypothesis HMP : MapPrefix A.
Notation PairOK := (PairOK A cfg deny hy).

(* ---- the accepted run, both texts ---- *)
Lemma first_run d b a : bytes d -> to_ascii A cfg d deny hy DIgnore = Ok (b, a) ->
  (a = d /\ ascii d /\ to_unicode A cfg d deny hy = UI true d false) \/
  exists pl DBL ap bd os ou bu, process_inner A cfg true hy deny d = IRes (len (ptext pl)) bd false (join_dots DBL) ap /\
    Forall PassL pl /\ DBL <> [] /\ Forall2 PairOK DBL ap /\
    is_bidi A cfg (join_dots DBL) = Ok bd /\ (bd = true -> Forall (BOKl A) DBL) /\
    outs cfg is_ascii_l DBL ap = inl os /\ os <> [] /\ a = join_dots (pl ++ os) /\
    outs cfg uT DBL ap = inl ou /\ ou <> [] /\ to_unicode A cfg d deny hy = UI bu (join_dots (pl ++ ou)) false.
Proof.
  intros Hb H. pose proof (redisc_of_adapter A cfg deny (ok_nil A HOK) HU) as HR.
  destruct (process_inner A cfg true hy deny d) as [ptu bd he db ap|s] eqn:Ei.
  2:{ unfold to_ascii, process in H. rewrite Ei in H. discriminate. }
  destruct (inner_facts A cfg true hy deny d _ _ _ _ _ Hb Ei) as [(_ & -> & -> & Hne)|[(-> & -> & Had)|[HB Hm]]].
  - exfalso. unfold to_ascii, process in H. rewrite Ei in H.
    destruct (0 =? len d) eqn:E; [apply len_nil_iff in E; contradiction|]. cbn [andb] in H. discriminate.
  - left. unfold to_ascii, process in H. rewrite Ei, N.eqb_refl, andb_false_r in H. cbn [dns_is_ignore negb] in H. inversion H. subst a. split; [reflexivity|]. split; [exact Had|].
    destruct (inner_ff_facts A cfg hy deny d _ _ _ _ _ Ei) as [HX|[_ Hm]]; [inversion HX|].
    unfold to_unicode, to_user_interface, process. rewrite Hm, N.eqb_refl, andb_false_r. reflexivity.
  - right. assert (Hlt : ptu <> len d) by (destruct HB as [Hx _]; lia).
    destruct he.
    { exfalso. unfold to_ascii, process in H. rewrite Ei in H.
      replace (ptu =? len d) with false in H by (symmetry; apply N.eqb_neq; exact Hlt). cbn [andb] in H. discriminate. }
    destruct (drun A cfg deny hy HU HL HOK HUSV HNT HNI HNM HMP d ptu bd db ap Hb Ei Hlt)
      as (pl & done & DBL & Hpl & Hdn & Hd2 & Hptu & HD & Hdb & HPK & Hbidi & Hbok).
    pose proof (pairok_all_nodot A cfg deny hy _ _ HPK) as HDn.
    destruct done as [|l rest]; [contradiction Hdn; reflexivity|].
    assert (Hlt2 : len (ptext pl) < len d) by (destruct HB as [Hx _]; lia).
    subst ptu.
    destruct (to_ascii_text A cfg deny hy HR d pl l rest bd _ _ Hb Hd2 Hlt2 Ei) as [Hlen HT].
    destruct (to_unicode_text A cfg deny hy d pl l rest bd _ _ Hb Hd2 Hlt2 Ei) as (_ & bu & ou & Eu & HTu).
    rewrite Hdb, (Idna_Mark.split_join DBL HD HDn) in HT, Eu, Hlen.
    destruct (outs cfg is_ascii_l DBL ap) as [os|s] eqn:Eo; [|rewrite HT in H; discriminate].
    destruct HT as (b0 & HT). rewrite HT in H. inversion H. subst b0 a.
    assert (Hos : os <> []).
    { pose proof (outs_len cfg is_ascii_l _ _ _ Eo Hlen) as Hx. intros ->. destruct DBL; [contradiction HD; reflexivity|discriminate]. }
    assert (Hou : ou <> []).
    { pose proof (outs_len cfg uT _ _ _ Eu Hlen) as Hx. intros ->. destruct DBL; [contradiction HD; reflexivity|discriminate]. }
    exists pl, DBL, ap, bd, os, ou, bu. rewrite (ptext_join pl os Hos), (ptext_join pl ou Hou), <- Hdb.
    repeat split; try assumption.
Qed.

(* ---- clause u_of_a ---- *)
Theorem u_of_a_text d b a : bytes d -> to_ascii A cfg d deny hy DIgnore = Ok (b, a) -> Known_C10_long a = false ->
  exists bu bu' u, to_unicode A cfg d deny hy = UI bu u false /\ to_unicode A cfg a deny hy = UI bu' u false.
Proof.
  intros Hb H Hlong. pose proof (redisc_of_adapter A cfg deny (ok_nil A HOK) HU) as HR.
  destruct (first_run d b a Hb H) as [(-> & _ & HTd)|(pl & DBL & ap & bd & os & ou & bu & _ & Hpl & HD & HPK & Hbidi & Hbok & Eo & Hos & Ha & Eu & Hou & HTu)].
  - (* the whole name was passed through: a = d *)
    exists true, true, d. split; exact HTd.
  - (* the walking branch *)
    pose proof (pairok_all_nodot A cfg deny hy _ _ HPK) as HDn.
    destruct (outs_nodot A cfg deny hy HU HL DBL ap os HPK Eo) as [Hosn Hosl].
    assert (Hsplit : split_on DOT a = pl ++ os).
    { rewrite Ha. apply Idna_Mark.split_join; [destruct pl; [exact Hos|discriminate]|].
      apply Forall_app. split; [|exact Hosn]. eapply Forall_impl; [|exact Hpl]. intros l. apply pass_nodot. }
    assert (Hlo : Forall (fun o => long_puny_label o = false) os).
    { unfold Known_C10_long in Hlong. rewrite Hsplit, existsb_app in Hlong. apply orb_false_iff in Hlong. destruct Hlong as [_ Hl2].
      apply Forall_forall. intros o Hin. destruct (long_puny_label o) eqn:E; [|reflexivity]. exfalso.
      assert (Hx : existsb long_puny_label os = true) by (apply existsb_exists; exists o; split; assumption).
      rewrite Hx in Hl2. discriminate. }
    destruct (build_T2 A cfg deny hy HU HL DBL ap os HPK Eo Hlo) as (T1 & T2 & T3 & T4).
    set (T := mkT DBL ap os) in *.
    assert (Hba : bytes a).
    { pose proof (to_ascii_clean A cfg d deny hy DIgnore b a HNT Hb HU HL H) as Hc.
      unfold bytes. eapply Forall_impl; [|exact Hc]. intros c [Hc1 _]. unfold is_byte. lia. }
    assert (Hp : proc_all A cfg deny hy (split_on DOT a) =
                 SOk (pl ++ DBL, map (fun l => [MixedCaseAscii l]) pl ++ map (fun t => [t_e t]) T)).
    { rewrite Hsplit, proc_all_app, (proc_all_pass A cfg deny hy HL _ Hpl), <- T1, (proc_all_rt A cfg deny hy T T3), T2. reflexivity. }
    assert (HV : VBk A cfg (length pl) bd (pl ++ DBL)).
    { split.
      - rewrite concat_app, is_bidi_app, (is_bidi_ascii A cfg _ (pass_all_ascii _ Hpl)), <- is_bidi_join. exact Hbidi.
      - intros Hb1. rewrite (skipn_app_le (length pl) pl DBL (le_n _)), skipn_all. cbn [app]. rewrite (VL_nodot _ HDn). exact (Hbok Hb1). }
    assert (Hk : (length pl <= length (ptake (split_on DOT a)))%nat).
    { rewrite Hsplit, ptake_app_pass, app_length; [lia|]. eapply Forall_impl; [|exact Hpl]. intros l Hl. exact (proj2 Hl). }
    destruct (virtual_unicode A cfg deny hy HU HL HR a _ _ _ bd Hba Hp HV Hk) as (bu' & ov & Eov & HTa).
    rewrite VL_app, (VL_nodot _ (pass_all_nodot _ Hpl)), (VL_nodot _ HDn), concat_app, concat_mca, concat_singles in Eov.
    rewrite (outs_mca cfg uT _ _ pl pl eq_refl), T4, Eu, (pass_all_lower deny HU HL _ Hpl) in Eov. inversion Eov. subst ov.
    exists bu, bu', (join_dots (pl ++ ou)). split; assumption.
Qed.
End UofA2.

(* ---------------------------------------------------------------- the clause *)
Theorem c12_u_of_a A cfg : AdapterOK A -> AdapterUSV A -> NvNoTrunc A -> NvIdem A -> AsciiNoMark A -> MapPrefix A ->
  forall d deny hy b a, bytes d -> valid_deny deny ->
  to_ascii A cfg d deny hy DIgnore = Ok (b, a) -> Known_C10_long a = false ->
  ui_text (to_unicode A cfg a deny hy) = ui_text (to_unicode A cfg d deny hy) /\
  ui_err (to_unicode A cfg a deny hy) = false /\ ui_err (to_unicode A cfg d deny hy) = false /\
  ui_panics (to_unicode A cfg a deny hy) = false /\ ui_panics (to_unicode A cfg d deny hy) = false.
Proof.
  intros HOK HUSV HNT HNI HNM HMP d deny hy b a Hb Hv H Hlong. destruct (valid_deny_facts deny Hv) as [HU HL].
  destruct (u_of_a_text A cfg deny hy HU HL HOK HUSV HNT HNI HNM HMP d b a Hb H Hlong) as (bu & bu' & u & E1 & E2).
  rewrite E1, E2. repeat split.
Qed.

(* "A.B<u-umlaut>cher": both ToUnicode results are "a.b<u-umlaut>cher" *)
Example c12_u_of_a_example :
  to_ascii lowsan true W_idem3 DENY_URL HCheck DIgnore = Ok (false, W_idem3_A) /\ Known_C10_long W_idem3_A = false /\
  to_unicode lowsan true W_idem3 DENY_URL HCheck = UI false [97; 46; 98; 252; 99; 104; 101; 114] false /\
  to_unicode lowsan true W_idem3_A DENY_URL HCheck = UI false [97; 46; 98; 252; 99; 104; 101; 114] false.
Proof. vm_compute. repeat split; reflexivity. Qed.
