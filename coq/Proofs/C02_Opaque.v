(* Proofs/C02_Opaque.v - class (i) of DESIGN B.5: URLs with an opaque path, parsed without base.
   L1: the parser's result has the canonical form  scheme ":" P ["?" q] ["#" f]  with every part
   clean for its encode set; L3: parsing that form gives back the same record. *)
From RU Require Import Base.Prelude Base.Utf8 Base.Utf8Facts Model.AsciiSet Gen.Tables
  Model.PercentEncoding Model.HostT Model.UrlRecord Model.Parser Model.WF
  Proofs.ListN Proofs.C14_Set Proofs.C14_Enc Proofs.C14_Views Proofs.C02_Enc Proofs.C02_Parts.

Lemma utf8_lossy_ascii t : ascii t -> utf8_lossy t = t.
Proof.
  intros H. rewrite <- (utf8_encode_ascii t H) at 1. apply utf8_lossy_encode. apply ascii_usv. exact H.
Qed.

(* ---------- list helpers ---------- *)
Lemma nskipn_app_len a b : nskipn (nlen a) (a ++ b) = b.
Proof.
  unfold nskipn, nlen. rewrite Nat2N.id. rewrite skipn_app, skipn_all, Nat.sub_diag. reflexivity.
Qed.

Lemma nfirstn_app_len a b : nfirstn (nlen a) (a ++ b) = a.
Proof.
  unfold nfirstn, nlen. rewrite Nat2N.id. rewrite firstn_app, firstn_all, Nat.sub_diag.
  cbn [firstn]. apply app_nil_r.
Qed.

Lemma starts_with_ss_of_s l : starts_with [47] l = false -> starts_with s_ss l = false.
Proof.
  destruct l as [|x r]; [reflexivity|]. unfold s_ss. cbn [starts_with]. rewrite !andb_true_r.
  intros ->. reflexivity.
Qed.

Lemma first_ok_rev_app a t : t <> [] -> Forall (fun c => is_c0_or_space c = false) t -> first_ok (rev (a ++ t)).
Proof.
  intros Hne Hf. rewrite rev_app_distr. apply Forall_rev in Hf.
  destruct (rev t) as [|x y] eqn:E.
  - exfalso. apply Hne. rewrite <- (rev_involutive t), E. reflexivity.
  - cbn [app first_ok]. inversion Hf; assumption.
Qed.

Definition above_space (c : N) : bool := negb (is_c0_or_space c).

Lemma forallb_above t : forallb above_space t = true -> Forall (fun c => is_c0_or_space c = false) t.
Proof.
  rewrite forallb_forall. intros H. apply Forall_forall. intros x Hx. specialize (H x Hx).
  unfold above_space in H. apply negb_true_iff in H. exact H.
Qed.

Lemma kept_FRAGMENT_above : kept_sat T_FRAGMENT above_space = true. Proof. vm_compute. reflexivity. Qed.
Lemma kept_QUERY_above : kept_sat T_QUERY above_space = true. Proof. vm_compute. reflexivity. Qed.
Lemma kept_SQUERY_above : kept_sat T_SPECIAL_QUERY above_space = true. Proof. vm_compute. reflexivity. Qed.
Lemma kept_PATH_above : kept_sat T_PATH above_space = true. Proof. vm_compute. reflexivity. Qed.

(* ---------- the last byte of an encoded string whose last character is above U+0020 ---------- *)
Lemma hex_above d : d < 16 -> above_space (hex_upper d) = true.
Proof. intros H. pose proof (hex_upper_ge d H). unfold above_space, is_c0_or_space. lia. Qed.

Lemma encode_utf8_last S cs x : usv_list cs -> is_usv x -> is_c0_or_space x = false ->
  first_ok (rev (encode S (utf8_encode (cs ++ [x])))).
Proof.
  intros Hcs Hx Hsp. rewrite enc_utf8_app. apply first_ok_rev_app.
  - intros E. pose proof (encode_len_ge S (utf8_encode [x])) as Hl. rewrite E in Hl.
    unfold utf8_encode in Hl. cbn [flat_map] in Hl. rewrite app_nil_r in Hl.
    unfold utf8_encode1 in Hl.
    destruct (x <? 128); [cbn in Hl; lia|]. destruct (x <? 2048); [cbn in Hl; lia|].
    destruct (x <? 65536); cbn in Hl; lia.
  - apply forallb_above. apply encode_utf8_forallb; [reflexivity | exact hex_above | constructor; [exact Hx | constructor] |].
    constructor; [|constructor]. intros _. unfold above_space. rewrite Hsp. reflexivity.
Qed.

(* ---------- the characters of the opaque path when no '?' / '#' follows ---------- *)
Lemma cbb_app a : forall b,
  (cbb_rest a = [] -> cbb_chars (a ++ b) = cbb_chars a ++ cbb_chars b /\ cbb_rest (a ++ b) = cbb_rest b)
  /\ (cbb_rest a <> [] -> cbb_rest (a ++ b) <> []).
Proof.
  induction a as [|c r IH]; intros b.
  - split; [intros _; split; reflexivity | intros H; exfalso; apply H; reflexivity].
  - cbn [app cbb_chars cbb_rest]. destruct (is_tnl c); [apply IH|].
    destruct (is_qh c).
    + split; [discriminate | intros _; discriminate].
    + destruct (IH b) as [I1 I2]. split; [|exact I2].
      intros H. destruct (I1 H) as [J1 J2]. rewrite J1. split; [reflexivity | exact J2].
Qed.

Lemma cbb_chars_last l : usv_list l -> cbb_rest l = [] -> first_ok (rev l) ->
  l = [] \/ exists cs x, cbb_chars l = cs ++ [x] /\ usv_list cs /\ is_usv x /\ is_c0_or_space x = false.
Proof.
  intros Hu Hr Hl. destruct (rev l) as [|x y] eqn:E.
  - left. rewrite <- (rev_involutive l), E. reflexivity.
  - right. assert (l = rev y ++ [x]) as El by (rewrite <- (rev_involutive l), E; reflexivity).
    cbn [first_ok] in Hl. subst l. apply usv_app in Hu. destruct Hu as [Hu1 Hu2].
    destruct (cbb_app (rev y) [x]) as [I1 I2].
    destruct (cbb_rest (rev y)) as [|z w] eqn:Ey.
    2:{ exfalso. apply I2; [discriminate | exact Hr]. }
    destruct (I1 eq_refl) as [J1 J2]. rewrite J2 in Hr.
    assert (is_tnl x = false) as Et by (unfold is_tnl, is_c0_or_space in *; lia).
    cbn [cbb_rest] in Hr. rewrite Et in Hr. destruct (is_qh x) eqn:Eq; [discriminate|].
    exists (cbb_chars (rev y)), x. rewrite J1. cbn [cbb_chars]. rewrite Et, Eq.
    split; [reflexivity|]. split; [apply usv_cbb_chars; exact Hu1|]. split; [inversion Hu2; assumption | exact Hl].
Qed.

Lemma opaque_of_last l : usv_list l -> cbb_rest l = [] -> first_ok (rev l) -> first_ok (rev (opaque_of l)).
Proof.
  intros Hu Hr Hl. destruct (cbb_chars_last l Hu Hr Hl) as [->|(cs & x & Ec & Hcs & Hx & Hsp)].
  - exact I.
  - unfold opaque_of. rewrite Ec. apply encode_utf8_last; assumption.
Qed.

Lemma opaque_of_head l : usv_list l -> inp_split_prefix_char 47 l = None ->
  starts_with [47] (opaque_of l) = false.
Proof.
  unfold inp_split_prefix_char, opaque_of. induction l as [|c r IH]; intros Hu H; [reflexivity|].
  apply usv_cons in Hu. destruct Hu as [Hc Hr]. cbn [cbb_chars].
  destruct (is_tnl c) eqn:Et.
  - rewrite inp_next_tnl in H by exact Et. exact (IH Hr H).
  - rewrite inp_next_cons in H by exact Et. destruct (c =? 47) eqn:E47; [discriminate|].
    destruct (is_qh c); [reflexivity|].
    rewrite <- (app_nil_r (encode _ _)). apply encode_utf8_head; [exact Hc | lia].
Qed.

(* ---------- the canonical form ---------- *)
Definition opaque_pre (sch P : list N) : list N := (sch ++ [58]) ++ P.
Definition opaque_ser (sch P : list N) (q f : option (list N)) : list N := opaque_pre sch P ++ qf_text q f.
Definition opaque_url (sch P : list N) (q f : option (list N)) : url :=
  let ps := nlen (sch ++ [58]) in
  mkUrl (opaque_ser sch P q f) (nlen sch) ps ps ps HI_None None ps
        (qf_qs (nlen (opaque_pre sch P)) q) (qf_fs (nlen (opaque_pre sch P)) q f).

Record opaque_ok (sch P : list N) (q f : option (list N)) : Prop := mk_opaque_ok {
  ok_sch : scheme_canon sch = true;
  ok_ns : scheme_type_of sch = STNotSpecial;
  ok_P : clean T_CONTROLS P = true;
  ok_Pq : forallb not_tnl_qh P = true;
  ok_Ph : starts_with [47] P = false;
  ok_q : opt_clean T_QUERY q;
  ok_f : opt_clean T_FRAGMENT f;
  ok_last : q = None -> f = None -> first_ok (rev P);
  ok_b1 : nlen (sch ++ [58]) <= U32_MAX_P;
  ok_bq : opt_le (qf_qs (nlen (opaque_pre sch P)) q) U32_MAX_P;
  ok_bf : opt_le (qf_fs (nlen (opaque_pre sch P)) q f) U32_MAX_P
}.

Lemma query_enc_nonspecial ovr sch : scheme_type_of sch = STNotSpecial -> query_enc ovr sch = utf8_encode.
Proof.
  unfold query_enc, scheme_type_of. destruct ovr as [o|]; [|reflexivity].
  destruct (list_eqb sch s_http) eqn:E1; [discriminate|].
  destruct (list_eqb sch s_https) eqn:E2; [discriminate|].
  destruct (list_eqb sch s_ws) eqn:E3; [discriminate|].
  destruct (list_eqb sch s_wss) eqn:E4; [discriminate|].
  destruct (list_eqb sch s_ftp) eqn:E5; [discriminate|].
  destruct (list_eqb sch s_file) eqn:E6; [discriminate|]. reflexivity.
Qed.

(* the class is inside the cannot-be-a-base class, and satisfies the structural invariant *)
Lemma opaque_url_cbb sch P q f : opaque_ok sch P q f -> cannot_be_a_base (opaque_url sch P q f) = Some true.
Proof.
  intros K. destruct K. unfold cannot_be_a_base, u_slice_from, opaque_url. cbn [ser scheme_end].
  assert (nlen sch + 1 = nlen (sch ++ [58])) as E by (rewrite nlen_app; reflexivity). rewrite E.
  unfold opaque_ser, opaque_pre. rewrite <- !app_assoc.
  rewrite slice_from_o_some by (rewrite !nlen_app; lia).
  rewrite (app_assoc sch [58]). rewrite nskipn_app_len. cbn [bindo]. f_equal.
  destruct P as [|c r].
  - cbn [app]. unfold qf_text. destruct q; destruct f; reflexivity.
  - cbn [app]. cbn [starts_with] in *. rewrite ok_Ph0. reflexivity.
Qed.

Lemma nskipn_app_add a b k : nskipn (nlen a + k) (a ++ b) = nskipn k b.
Proof. rewrite N.add_comm, <- nskipn_nskipn, nskipn_app_len. reflexivity. Qed.

Lemma byte_eqb_app a c b : byte_eqb (a ++ c :: b) (nlen a) c = true.
Proof.
  unfold byte_eqb, nnth, nlen. rewrite Nat2N.id. rewrite nth_error_app2 by lia.
  rewrite Nat.sub_diag. cbn [nth_error]. apply N.eqb_refl.
Qed.

Lemma scheme_out_char_scheme_char c : scheme_out_char c = true -> scheme_char c = true.
Proof. unfold scheme_out_char, scheme_char, is_alnum, is_alpha, is_lower, is_upper, is_digit. intros H. lia. Qed.

Lemma forallb_impl {A} (f g : A -> bool) l : (forall x, f x = true -> g x = true) -> forallb f l = true -> forallb g l = true.
Proof. intros H. rewrite !forallb_forall. intros Hf x Hx. apply H. apply Hf. exact Hx. Qed.

(* L1 for the class, structural part: the canonical form satisfies wf_b *)
Lemma opaque_url_wf sch P q f : opaque_ok sch P q f -> wf_b (opaque_url sch P q f) = true.
Proof.
  intros K. pose proof (opaque_url_cbb _ _ _ _ K) as Hcbb. destruct K.
  unfold scheme_canon in ok_sch0. apply andb_true_iff in ok_sch0. destruct ok_sch0 as [Hhead Hall].
  set (A := sch ++ [58]).
  assert (nlen A = nlen sch + 1) as EA by (unfold A; rewrite nlen_app; reflexivity).
  assert (starts_with [47] (P ++ qf_text q f) = false) as Hno.
  { destruct P as [|c r]; [|cbn [app starts_with] in *; rewrite ok_Ph0; reflexivity].
    cbn [app]. unfold qf_text. destruct q; destruct f; reflexivity. }
  unfold wf_b. apply andb_true_iff. split; [apply andb_true_iff; split|].
  - (* scheme *)
    unfold wf_scheme, opaque_url. cbn [ser scheme_end]. unfold opaque_ser, opaque_pre.
    repeat (apply andb_true_iff; split).
    + destruct sch; [discriminate|]. unfold nlen. cbn [length]. lia.
    + destruct sch as [|c s]; [discriminate|]. cbn [app]. unfold is_alpha. rewrite Hhead. apply orb_true_r.
    + rewrite <- !app_assoc. rewrite nfirstn_app_len.
      apply (forallb_impl scheme_out_char); [exact scheme_out_char_scheme_char | exact Hall].
    + rewrite <- !app_assoc. cbn [app]. apply byte_eqb_app.
  - (* no authority *)
    assert (has_authority_b (opaque_url sch P q f) = false) as Hna.
    { unfold has_authority_b, opaque_url. cbn [ser scheme_end]. unfold opaque_ser, opaque_pre.
      rewrite <- !app_assoc. rewrite nskipn_app_len. unfold s_css. cbn [app starts_with].
      replace (58 =? 58) with true by reflexivity. cbn [andb].
      apply starts_with_ss_of_s. exact Hno. }
    rewrite Hna. unfold wf_no_authority, opaque_url.
    cbn [ser scheme_end username_end host_start host_end hosti port path_start]. fold A.
    unfold opaque_ser, opaque_pre. fold A. rewrite !nlen_app.
    cbn [hi_eqb]. replace (nlen A =? nlen sch + 1) with true by lia.
    replace (nlen A <=? nlen A + nlen P + nlen (qf_text q f)) with true by lia. reflexivity.
  - (* query and fragment *)
    unfold wf_query_fragment, opaque_url.
    cbn [ser path_start query_start fragment_start]. fold A. unfold opaque_ser, opaque_pre. fold A.
    assert (forallb (fun c => negb ((c =? 63) || (c =? 35))) P = true) as HP.
    { apply (forallb_impl not_tnl_qh); [|exact ok_Pq0]. intros c Hc. unfold not_tnl_qh, is_qh in Hc.
      apply andb_true_iff in Hc. tauto. }
    destruct q as [x|]; destruct f as [y|];
      cbn [qf_qs qf_fs qf_text qf_qtext qf_ftext opt_clean] in *; unfold qf_text; cbn [qf_qtext qf_ftext].
    + assert (forallb (fun c => negb (c =? 35)) x = true) as Hx.
      { apply (forallb_impl not_tnl_hash); [|exact (clean_forallb _ _ x kept_QUERY_sat ok_q0)].
        intros c Hc. unfold not_tnl_hash in Hc. apply andb_true_iff in Hc. tauto. }
      repeat (apply andb_true_iff; split).
      * rewrite nlen_app. lia.
      * cbn [app]. apply byte_eqb_app.
      * rewrite !nlen_app. lia.
      * replace ((A ++ P) ++ (63 :: x) ++ 35 :: y) with (((A ++ P) ++ 63 :: x) ++ 35 :: y) by (rewrite <- !app_assoc; reflexivity).
        rewrite <- nlen_app. apply byte_eqb_app.
      * rewrite nlen_cons. lia.
      * rewrite nlen_app. replace (nlen A + nlen P - nlen A) with (nlen P) by lia.
        rewrite <- !app_assoc. rewrite nskipn_app_len. rewrite nfirstn_app_len. exact HP.
      * rewrite nlen_cons. replace (nlen (A ++ P) + (1 + nlen x) - (nlen (A ++ P) + 1)) with (nlen x) by lia.
        rewrite nskipn_app_add. cbn [app]. change (nskipn 1 (63 :: x ++ 35 :: y)) with (x ++ 35 :: y).
        rewrite nfirstn_app_len. exact Hx.
    + assert (forallb (fun c => negb (c =? 35)) x = true) as Hx.
      { apply (forallb_impl not_tnl_hash); [|exact (clean_forallb _ _ x kept_QUERY_sat ok_q0)].
        intros c Hc. unfold not_tnl_hash in Hc. apply andb_true_iff in Hc. tauto. }
      rewrite app_nil_r. repeat (apply andb_true_iff; split); try reflexivity.
      * rewrite nlen_app. lia.
      * apply byte_eqb_app.
      * rewrite nlen_app. replace (nlen A + nlen P - nlen A) with (nlen P) by lia.
        rewrite <- !app_assoc. rewrite nskipn_app_len. rewrite nfirstn_app_len. exact HP.
      * rewrite nskipn_app_add. change (nskipn 1 (63 :: x)) with x. exact Hx.
    + cbn [app]. rewrite N.add_0_r. repeat (apply andb_true_iff; split); try reflexivity.
      * rewrite nlen_app. lia.
      * apply byte_eqb_app.
      * rewrite nlen_app. replace (nlen A + nlen P - nlen A) with (nlen P) by lia.
        rewrite <- !app_assoc. rewrite nskipn_app_len. rewrite nfirstn_app_len. exact HP.
    + cbn [app]. rewrite app_nil_r. repeat (apply andb_true_iff; split); try reflexivity.
      rewrite nlen_app. replace (nlen A + nlen P - nlen A) with (nlen P) by lia.
      rewrite nskipn_app_len. rewrite nfirstn_all by lia. exact HP.
Qed.

Lemma opaque_ser_ascii sch P q f : opaque_ok sch P q f -> ascii (opaque_ser sch P q f).
Proof.
  intros K. destruct K. unfold opaque_ser, opaque_pre, qf_text. repeat (apply ascii_app; split).
  - unfold scheme_canon in ok_sch0. apply andb_true_iff in ok_sch0. destruct ok_sch0 as [_ Hf].
    apply Forall_forall. intros c Hc. rewrite forallb_forall in Hf. specialize (Hf c Hc).
    unfold scheme_out_char, is_lower, is_digit, is_ascii in *. lia.
  - constructor; [unfold is_ascii; lia | constructor].
  - apply (clean_ascii T_CONTROLS). exact ok_P0.
  - destruct q as [x|]; [|constructor]. cbn [qf_qtext]. constructor; [unfold is_ascii; lia|].
    apply (clean_ascii T_QUERY). exact ok_q0.
  - destruct f as [y|]; [|constructor]. cbn [qf_ftext]. constructor; [unfold is_ascii; lia|].
    apply (clean_ascii T_FRAGMENT). exact ok_f0.
Qed.

Section Opaque.
Variable dbg : bool.
Variable hp hpo : list N -> result host.
Variable hd : host -> list N.
Variable ovr : option (list N -> list N).

(* evaluation of the non-special branch when the remaining input does not start with '/' *)
Lemma pns_opaque_eval sch l : usv_list l -> inp_split_prefix_char 47 l = None ->
  parse_non_special dbg hp hpo hd ovr CUrlParser STNotSpecial (nlen sch) (sch ++ [58]) l
  = (ps <~ to_u32 (nlen (sch ++ [58])) ;;
     ' (s2, qs, fs) <~ parse_query_and_fragment ovr CUrlParser STNotSpecial (nlen sch)
                          (opaque_pre sch (opaque_of l)) (cbb_rest l) ;;
     POk (mkUrl s2 (nlen sch) ps ps ps HI_None None ps qs fs)).
Proof.
  intros Hu H47. unfold parse_non_special.
  assert (inp_split_prefix_str s_ss l = None) as Hss.
  { unfold inp_split_prefix_char in H47. unfold s_ss. cbn [inp_split_prefix_str].
    destruct (inp_next l) as [[d r]|]; [|reflexivity]. destruct (d =? 47); [discriminate | reflexivity]. }
  rewrite Hss, H47.
  destruct (to_u32 (nlen (sch ++ [58]))) as [ps| |] eqn:Eu; cbn [pbind]; try reflexivity.
  apply to_u32_inv in Eu. destruct Eu as [-> Hb].
  rewrite cbb_spec by exact Hu. fold (opaque_of l). cbn [pbind].
  unfold with_query_and_fragment.
  assert (nlen (sch ++ [58]) =? nlen sch + 1 = true) as E1.
  { rewrite nlen_app. unfold nlen. cbn [length]. lia. }
  rewrite E1. rewrite nskipn_app_len.
  pose proof (opaque_of_head l Hu H47) as Hh.
  rewrite (starts_with_ss_of_s _ Hh).
  assert (starts_with s_css (nskipn (nlen sch) ((sch ++ [58]) ++ opaque_of l)) = false) as E2.
  { rewrite <- !app_assoc. rewrite nskipn_app_len. unfold s_css. cbn [app starts_with].
    replace (58 =? 58) with true by reflexivity. cbn [andb].
    apply (starts_with_ss_of_s _ Hh). }
  rewrite E2. cbn [negb passert pbind]. reflexivity.
Qed.

(* L1 for the class: the result has the canonical form *)
Theorem parse_opaque_out input sch rem u : usv_list input ->
  parse_scheme CUrlParser (input_new_trim_c0 input) = Some (sch, rem) ->
  scheme_type_of sch = STNotSpecial -> inp_split_prefix_char 47 rem = None ->
  parse_url dbg hp hpo hd ovr None input = POk u ->
  exists P q f, opaque_ok sch P q f /\ u = opaque_url sch P q f.
Proof.
  intros Hu Hs Hns H47. unfold parse_url. rewrite Hs. unfold parse_with_scheme. rewrite Hns.
  destruct (to_u32 (nlen sch)) as [se| |] eqn:Eu; cbn [pbind]; try discriminate.
  apply to_u32_inv in Eu. destruct Eu as [-> Hb0].
  destruct (parse_scheme_suffix _ _ _ _ Hs) as [pre Hpre].
  assert (usv_list rem) as Hur.
  { assert (usv_list (input_new_trim_c0 input)) as Ht.
    { unfold input_new_trim_c0, trim_matches. apply usv_rev.
      destruct (drop_while_spec is_c0_or_space (rev (drop_while is_c0_or_space input))) as (a & Ha & _).
      destruct (drop_while_spec is_c0_or_space input) as (a0 & Ha0 & _).
      rewrite Ha0 in Hu. apply usv_app in Hu. destruct Hu as [_ Hu].
      apply usv_rev in Hu. rewrite Ha in Hu. apply usv_app in Hu. tauto. }
    rewrite Hpre in Ht. apply usv_app in Ht. tauto. }
  rewrite pns_opaque_eval by assumption.
  destruct (to_u32 (nlen (sch ++ [58]))) as [ps| |] eqn:Eu; cbn [pbind]; try discriminate.
  apply to_u32_inv in Eu. destruct Eu as [-> Hb1].
  destruct (parse_query_and_fragment ovr CUrlParser STNotSpecial (nlen sch) (opaque_pre sch (opaque_of rem)) (cbb_rest rem))
    as [[[s2 qs] fs]| |] eqn:Eq; cbn [pbind]; try discriminate.
  intros H. inversion H; subst u. clear H.
  apply pqf_out in Eq; [|apply usv_cbb_rest; exact Hur|].
  2:{ unfold opaque_pre. rewrite <- !app_assoc. rewrite nfirstn_app_len. apply query_enc_nonspecial. exact Hns. }
  destruct Eq as (-> & -> & -> & Bq & Bf & Cq & Cf).
  exists (opaque_of rem), (pqf_q STNotSpecial (cbb_rest rem)), (pqf_f (cbb_rest rem)).
  split; [|reflexivity].
  constructor; try assumption.
  - exact (parse_scheme_out _ _ _ Hs).
  - apply opaque_of_clean. exact Hur.
  - apply opaque_of_no_qh. exact Hur.
  - apply opaque_of_head; assumption.
  - intros Hq Hf. apply opaque_of_last; [exact Hur | |].
    + pose proof (cbb_rest_head rem) as Hh. unfold pqf_q, pqf_f in Hq, Hf.
      destruct (cbb_rest rem) as [|c r]; [reflexivity|]. destruct Hh as [Hh1 Hh2].
      rewrite inp_next_cons in Hq, Hf by exact Hh2. exfalso.
      unfold is_qh in Hh1. destruct (c =? 63); [discriminate|]. destruct (c =? 35); discriminate.
    + pose proof (trim_c0_edge_ok input) as [_ He]. rewrite Hpre in He.
      exact (first_ok_rev_suffix _ _ He).
Qed.

(* L3 for the class *)
Lemma opaque_ser_edge_ok sch P q f : opaque_ok sch P q f -> edge_ok (opaque_ser sch P q f).
Proof.
  intros K. destruct K. split.
  - unfold scheme_canon in ok_sch0. destruct sch as [|c s]; [discriminate|].
    apply andb_true_iff in ok_sch0. destruct ok_sch0 as [Hl _].
    unfold opaque_ser, opaque_pre. cbn [app first_ok]. unfold is_lower, is_c0_or_space in *. lia.
  - unfold opaque_ser, qf_text.
    destruct f as [y|].
    { rewrite app_assoc. apply first_ok_rev_app; [discriminate|].
      cbn [qf_ftext]. constructor; [reflexivity|]. apply forallb_above.
      exact (clean_forallb _ _ y kept_FRAGMENT_above ok_f0). }
    cbn [qf_ftext]. rewrite app_nil_r.
    destruct q as [x|].
    { apply first_ok_rev_app; [discriminate|].
      cbn [qf_qtext]. constructor; [reflexivity|]. apply forallb_above.
      exact (clean_forallb _ _ x kept_QUERY_above ok_q0). }
    cbn [qf_qtext]. rewrite app_nil_r. unfold opaque_pre.
    specialize (ok_last0 eq_refl eq_refl).
    rewrite rev_app_distr. destruct (rev P) as [|z w] eqn:E.
    + cbn [app]. rewrite rev_app_distr. cbn. reflexivity.
    + cbn [app first_ok]. exact ok_last0.
Qed.

Theorem reparse_opaque_form sch P q f : opaque_ok sch P q f ->
  parse_url dbg hp hpo hd ovr None (opaque_ser sch P q f) = POk (opaque_url sch P q f).
Proof.
  intros K. pose proof (opaque_ser_edge_ok _ _ _ _ K) as He. destruct K.
  unfold parse_url. rewrite trim_c0_id by exact He.
  unfold opaque_ser, opaque_pre. rewrite <- !app_assoc. cbn [app].
  rewrite parse_scheme_canon by exact ok_sch0.
  unfold parse_with_scheme. rewrite ok_ns0.
  assert (nlen sch <= U32_MAX_P) as Hb0 by (rewrite nlen_app in ok_b2; lia).
  rewrite to_u32_ok by exact Hb0. cbn [pbind].
  assert (match qf_text q f with [] => True | c :: _ => is_qh c = true /\ is_tnl c = false end) as Hqf.
  { unfold qf_text. destruct q; destruct f; cbn; auto. }
  assert (usv_list (P ++ qf_text q f)) as Hu.
  { apply ascii_usv. apply ascii_app. split; [apply (clean_ascii T_CONTROLS); exact ok_P0|].
    unfold qf_text. apply ascii_app. split.
    - destruct q as [x|]; [|constructor]. cbn [qf_qtext]. constructor; [unfold is_ascii; lia|].
      apply (clean_ascii T_QUERY). exact ok_q0.
    - destruct f as [y|]; [|constructor]. cbn [qf_ftext]. constructor; [unfold is_ascii; lia|].
      apply (clean_ascii T_FRAGMENT). exact ok_f0. }
  assert (inp_split_prefix_char 47 (P ++ qf_text q f) = None) as H47.
  { unfold inp_split_prefix_char. destruct P as [|c r].
    - cbn [app]. destruct (qf_text q f) as [|c r]; [reflexivity|]. destruct Hqf as [Hq Ht].
      rewrite inp_next_cons by exact Ht. unfold is_qh in Hq. replace (c =? 47) with false by lia. reflexivity.
    - cbn [forallb] in ok_Pq0. apply andb_true_iff in ok_Pq0. destruct ok_Pq0 as [Hc _].
      unfold not_tnl_qh, not_tnl in Hc.
      cbn [app]. rewrite inp_next_cons by (destruct (is_tnl c); [discriminate | reflexivity]).
      cbn [starts_with] in ok_Ph0. rewrite andb_true_r in ok_Ph0. rewrite N.eqb_sym, ok_Ph0. reflexivity. }
  rewrite pns_opaque_eval by assumption.
  rewrite to_u32_ok by exact ok_b2. cbn [pbind].
  destruct (opaque_of_canon P (qf_text q f) ok_P0 ok_Pq0 Hqf) as [C1 C2]. rewrite C1, C2.
  rewrite (pqf_canon ovr STNotSpecial (nlen sch) (opaque_pre sch P) q f); try assumption.
  - cbn [pbind]. unfold opaque_url, opaque_ser, opaque_pre. rewrite <- !app_assoc. reflexivity.
  - unfold opaque_pre. rewrite <- !app_assoc. rewrite nfirstn_app_len. apply query_enc_nonspecial. exact ok_ns0.
Qed.

(* composition: a parse result of the class is a fixpoint of serialize-then-parse *)
Theorem reparse_opaque_input input sch rem u : usv_list input ->
  parse_scheme CUrlParser (input_new_trim_c0 input) = Some (sch, rem) ->
  scheme_type_of sch = STNotSpecial -> inp_split_prefix_char 47 rem = None ->
  parse_url dbg hp hpo hd ovr None input = POk u ->
  parse_url dbg hp hpo hd ovr None (ser u) = POk u.
Proof.
  intros Hu Hs Hns H47 Hp.
  destruct (parse_opaque_out input sch rem u Hu Hs Hns H47 Hp) as (P & q & f & K & ->).
  exact (reparse_opaque_form sch P q f K).
Qed.

Theorem opaque_result_ascii input sch rem u : usv_list input ->
  parse_scheme CUrlParser (input_new_trim_c0 input) = Some (sch, rem) ->
  scheme_type_of sch = STNotSpecial -> inp_split_prefix_char 47 rem = None ->
  parse_url dbg hp hpo hd ovr None input = POk u -> ascii (ser u).
Proof.
  intros Hu Hs Hns H47 Hp.
  destruct (parse_opaque_out input sch rem u Hu Hs Hns H47 Hp) as (P & q & f & K & ->).
  exact (opaque_ser_ascii sch P q f K).
Qed.

End Opaque.
