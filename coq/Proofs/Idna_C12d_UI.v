(* Proofs/Idna_C12d_UI.v - C12, clause ui: for every accepted name d (outside Known_C12 and Known_C10_long) and EVERY
   display policy p, ToASCII of the UTF-8 form of to_user_interface d p is the ASCII form of d, and to_user_interface
   reports no error.
   to_user_interface writes, label by label, either the Unicode text or the ASCII text of the pair (buffer label, entry)
   - which one is the policy's choice (uni1 of Proofs/Idna_WalkFun.v; the tld and the bidi verdict handed to the policy
   are whatever they are: nothing below depends on them) - and the label step turns either text back into the buffer
   label with an entry for which ToASCII writes the old ASCII text: pair_rtu2 (Proofs/Idna_C12d_Round.v) for the Unicode
   text, pair_rt2 (Proofs/Idna_C12c_UofA.v) for the ASCII text. *)
From RU Require Import Base.Prelude Base.Utf8 Base.Utf8Facts Base.U32_c13 Gen.Tables Model.Punycode Model.Uts46
  Proofs.C13_Ascii Proofs.Idna_Sim Proofs.Idna_Api Proofs.Idna_Known Proofs.Idna_Hyp Proofs.Idna_Redisc
  Proofs.Idna_C10_Deny Proofs.Idna_C10_Puny Proofs.Idna_C10_Prefix Proofs.Idna_C10_Inner Proofs.Idna_C10_Walk
  Proofs.Idna_C10b_Long Proofs.Idna_C10b_AsciiInner Proofs.Idna_C10b_AsciiWalk Proofs.Idna_C10b_Stmt
  Proofs.Idna_WalkFun Proofs.Idna_WalkInv Proofs.Idna_WalkApi Proofs.Idna_WalkEnc Proofs.Idna_PunyRT
  Proofs.Idna_C10c_Puny Proofs.Idna_C10c_Start Proofs.Idna_C10c_Drun Proofs.Idna_C10c_Loop Proofs.Idna_C10c_Rerun
  Proofs.Idna_C10c_Idem Proofs.Idna_C10c_Example Proofs.Idna_Mark Proofs.Idna_C12 Proofs.Idna_C12b_Stmt3
  Proofs.Idna_C10d_CaseLabel Proofs.Idna_C10d_CaseLoop Proofs.Idna_C10d_Case Proofs.Idna_C12c_Virtual Proofs.Idna_C12c_UofA
  Proofs.Idna_C12c_Stmt4 Proofs.Idna_C12c_ULabel Proofs.Idna_C12c_Round Proofs.Idna_C12d_EncDec Proofs.Idna_C12d_Round.

(* a choice function that writes Unicode for every ASCII label (every uni1 of the marking mode is one) *)
Definition uni_ok (uni : list N -> bool) : Prop := forall l, uni l = false -> is_ascii_l l = false.
Lemma uni1_ok p tld bd : uni_ok (uni1 false p tld bd).
Proof.
  intros l H. unfold uni1, pp1 in H. destruct (classify_for_punycode l) eqn:E; try discriminate H.
  exact (classify_unicode_nonascii l E).
Qed.

Lemma out_label_cases cfg uni dbl e : uni_ok uni ->
  out_label cfg uni dbl e = out_label cfg uT dbl e \/ out_label cfg uni dbl e = out_label cfg is_ascii_l dbl e.
Proof.
  intros Hu. destruct (uni dbl) eqn:E.
  - left. destruct e; cbn [out_label uT]; rewrite ?E; reflexivity.
  - right. pose proof (Hu dbl E) as Ha. destruct e; cbn [out_label]; rewrite ?E, ?Ha; reflexivity.
Qed.

Section UI.
Variable A : adapter.
Variable cfg : bool.
Variable deny : N.
Variable hy : hyphens.
Hypothesis HU : DenyUpper deny.
Hypothesis HL : LdhFree deny.
Hypothesis HOK : AdapterOK A.
Hypothesis HUSV : AdapterUSV A.
Hypothesis HNT : NvNoTrunc A.
Hypothesis HNI : NvIdem A.
Hypothesis HNM : AsciiNoMark A.
Hypothesis HMP : MapPrefix A.
Hypothesis HMF : NvMapFix A.
Hypothesis HNG : NvNoGrow A.

Notation PairOK := (PairOK A cfg deny hy).
Notation pres := (pres A cfg deny hy).
Notation proc_all := (proc_all A cfg deny hy).

(* ---- the ASCII text written for a pair: all ASCII, and the entry of the second run writes it again ---- *)
Lemma pair_asc dbl e o : PairOK dbl e -> out_label cfg is_ascii_l dbl e = inl o ->
  Forall (fun b => b < 128) o /\ out_label cfg is_ascii_l dbl (e2_of dbl e o) = inl o.
Proof.
  intros HP Ho.
  destruct HP as [m Han Hn Hacc|m dec dbl Ha Hn Hp Hc Hd Hapd Hchk Hna|dbl Hnv Hg Hchk Hu Hpre]; cbn [out_label] in Ho.
  - inversion Ho. subst o. destruct Han as [Ha _]. split; [exact (Idna_C10b_AsciiWalk.lower_ascii m Ha)|].
    cbn [e2_of out_label]. rewrite lower_lower. reflexivity.
  - rewrite Hna in Ho. inversion Ho. subst o. split; [exact (Idna_C10b_AsciiWalk.lower_ascii m Ha)|].
    cbn [e2_of out_label]. rewrite Hna, lower_lower. reflexivity.
  - destruct (is_ascii_l dbl) eqn:Easc.
    + inversion Ho. subst o. pose proof (is_ascii_l_spec dbl Easc) as Ha. split; [exact Ha|].
      cbn [e2_of]. rewrite Easc. cbn [out_label]. f_equal. apply Idna_WalkFun.lower_noupper.
      apply Forall_forall. intros c Hin. rewrite Forall_forall in Ha, Hg.
      exact (proj1 (proj2 (clean_final deny c HU (gc_clean deny DOT_MASK c (Ha c Hin) (Hg c Hin))))).
    + unfold enc_label in Ho. destruct (encode_internal cfg dbl) as [p| |s] eqn:Ee; try discriminate. inversion Ho. subst o. clear Ho.
      destruct (other_enc A cfg deny hy HU HL dbl p Hg Hchk Hu Easc Ee) as (_ & _ & _ & Hpcl & _).
      pose proof (clean_ascii deny p Hpcl) as Hpa.
      assert (Hoa : Forall (fun b => b < 128) (120 :: 110 :: 45 :: 45 :: p)) by (repeat (constructor; [lia|]); exact Hpa).
      split; [exact Hoa|]. cbn [e2_of]. rewrite Easc. cbn [out_label]. rewrite Easc. f_equal.
      apply map_to_lower_noupper. change (XN_PREFIX ++ p) with (120 :: 110 :: 45 :: 45 :: p). cbn [existsb].
      rewrite (clean_noupper deny HU p Hpcl). reflexivity.
Qed.

(* ---- one pair, the text chosen by the policy ---- *)
Lemma pair_rtm uni dbl e o : uni_ok uni -> PairOK dbl e -> xn_free dbl e ->
  out_label cfg is_ascii_l dbl e = inl o -> long_puny_label o = false ->
  exists om e3, out_label cfg uni dbl e = inl om /\ pres (utf8_encode om) = SOk (dbl, false, [e3]) /\
    out_label cfg is_ascii_l dbl e3 = inl o /\ nodot (utf8_encode om) /\ usv_list om.
Proof.
  intros Hok HP Hx Ho Hlong. destruct (out_label_cases cfg uni dbl e Hok) as [E|E]; rewrite E.
  - destruct (pair_rtu2 A cfg deny hy HU HL HUSV HNT HMP HMF HNG dbl e o HP Hx Ho Hlong) as (ou & e3 & P1 & P2 & P3 & _ & P5 & P6).
    exists ou, e3. repeat split; assumption.
  - destruct (pair_asc dbl e o HP Ho) as [Hoa He2].
    pose proof (pair_rt2 A cfg deny hy HU HL dbl e o HP Ho Hlong) as Hrt.
    exists o, (e2_of dbl e o). rewrite (utf8_encode_ascii o Hoa).
    split; [exact Ho|]. split; [exact (pres_of_rt A cfg deny hy _ _ _ Hrt)|]. split; [exact He2|].
    split; [exact (pair_out_nodot A cfg deny hy HU HL dbl e o HP Ho)|exact (ascii_usv o Hoa)].
Qed.

Lemma build_M uni DBL : uni_ok uni -> forall ap os, Forall2 PairOK DBL ap -> Forall2 xn_free DBL ap ->
  outs cfg is_ascii_l DBL ap = inl os -> Forall (fun o => long_puny_label o = false) os ->
  exists oms e3s, outs cfg uni DBL ap = inl oms /\ proc_all (map utf8_encode oms) = SOk (DBL, map (fun e => [e]) e3s) /\
    outs cfg is_ascii_l DBL e3s = inl os /\ Forall nodot (map utf8_encode oms) /\ Forall usv_list oms.
Proof.
  intros Hok. induction DBL as [|dbl DBL IH]; intros ap os HP Hx Ho Hl.
  - inversion HP; subst. cbn [outs] in Ho. inversion Ho. exists [], []. repeat split; constructor.
  - inversion HP as [|? e ? ap' H1 H2]; subst. inversion Hx as [|? ? ? ? X1 X2]; subst. cbn [outs] in Ho.
    destruct (out_label cfg is_ascii_l dbl e) as [o|s] eqn:E1; [|discriminate].
    destruct (outs cfg is_ascii_l DBL ap') as [os'|s] eqn:E2; [|discriminate]. inversion Ho. subst os.
    inversion Hl as [|? ? Hl1 Hl2]; subst.
    destruct (IH _ _ H2 X2 E2 Hl2) as (oms & e3s & U1 & U2 & U3 & U5 & U6).
    destruct (pair_rtm uni dbl e o Hok H1 X1 E1 Hl1) as (om & e3 & P1 & P2 & P3 & P5 & P6).
    exists (om :: oms), (e3 :: e3s). cbn [outs map proc_all]. rewrite P1, U1, P2, U2, P3, U3.
    repeat split; constructor; assumption.
Qed.

(* ---- to_user_interface on the walking branch, any policy ---- *)
Lemma to_ui_text p d pl l rest bd db ap : bytes d ->
  d = ptext pl ++ join_dots (l :: rest) -> len (ptext pl) < len d ->
  process_inner A cfg true hy deny d = IRes (len (ptext pl)) bd false db ap ->
  forall os, outs cfg (uni1 false p (tld_of db) bd) (split_on DOT db) ap = inl os ->
  exists b, to_user_interface A cfg d deny hy p = UI b (ptext pl ++ join_dots os) false.
Proof.
  intros Hb Hd Hlt Ei os Eo.
  destruct (inner_facts A cfg true hy deny d _ _ _ _ _ Hb Ei) as [(_ & Hx & _)|[(Hx & _)|[HB Hm]]]; [discriminate|lia|].
  pose proof HB as (_ & Hlen & He1 & Hfd & _ & P & rl & Hd2 & HP & Hcv & HaP & Hma).
  assert (HPe : P = ptext pl) by (apply (app_eq_len P (join_dots rl) (ptext pl) (join_dots (l :: rest))); [rewrite <- Hd2; exact Hd|exact HP]).
  subst P.
  assert (Hne : len (ptext pl) <> len d) by lia.
  unfold to_user_interface.
  rewrite (process_B A cfg false p d deny hy None None false _ _ _ _ _ Hm Hne eq_refl Hfd). cbv zeta.
  pose proof (walk1_spec cfg d false false p (tld_of db) bd (split_on DOT db) ap false (len (ptext pl)) false false (ptext pl) rl Hlen
                ltac:(discriminate)
                ltac:(intros _; split; [apply split_on_ne|cbn [tailtext]; repeat split; assumption])) as HW.
  rewrite Eo in HW.
  unfold Post1, Res1 in HW. cbn [negb andb tailtext] in HW. rewrite andb_false_r in HW.
  destruct (walk1 cfg false p d (tld_of db) bd false (split_on DOT db) ap false (len (ptext pl)) false false) as [ws we].
  rewrite run_sink_none. cbn [fst snd negb] in *.
  destruct (stays (uni1 false p (tld_of db) bd) (split_on DOT db) ap).
  - destruct HW as [HW1 HW2]. rewrite HW2. exists true. rewrite HW1. reflexivity.
  - destruct HW as [HW1 HW2]. rewrite HW1. rewrite andb_false_r. exists false.
    unfold wcat in HW2. cbn [fst] in HW2. rewrite HW2. reflexivity.
Qed.

(* ---- the accepted run (first_run of Proofs/Idna_C12c_UofA.v), with to_user_interface under any policy for a name
        that is passed through as a whole ---- *)
Lemma first_run_ui d b a : bytes d -> to_ascii A cfg d deny hy DIgnore = Ok (b, a) ->
  (a = d /\ ascii d /\ forall p, to_user_interface A cfg d deny hy p = UI true d false) \/
  exists pl l rest DBL ap bd os, process_inner A cfg true hy deny d = IRes (len (ptext pl)) bd false (join_dots DBL) ap /\
    d = ptext pl ++ join_dots (l :: rest) /\ len (ptext pl) < len d /\
    Forall PassL pl /\ DBL <> [] /\ Forall2 PairOK DBL ap /\
    is_bidi A cfg (join_dots DBL) = Ok bd /\ (bd = true -> Forall (BOKl A) DBL) /\
    outs cfg is_ascii_l DBL ap = inl os /\ os <> [] /\ a = join_dots (pl ++ os).
Proof.
  intros Hb H. pose proof (redisc_of_adapter A cfg deny (ok_nil A HOK) HU) as HR.
  destruct (process_inner A cfg true hy deny d) as [ptu bd he db ap|s] eqn:Ei.
  2:{ unfold to_ascii, process in H. rewrite Ei in H. discriminate. }
  destruct (inner_facts A cfg true hy deny d _ _ _ _ _ Hb Ei) as [(_ & -> & -> & Hne)|[(-> & -> & Had)|[HB Hm]]].
  - exfalso. unfold to_ascii, process in H. rewrite Ei in H.
    destruct (0 =? len d) eqn:E; [apply len_nil_iff in E; contradiction|]. cbn [andb] in H. discriminate.
  - left. unfold to_ascii, process in H. rewrite Ei, N.eqb_refl, andb_false_r in H. cbn [dns_is_ignore negb] in H. inversion H. subst a.
    split; [reflexivity|]. split; [exact Had|]. intros p.
    destruct (inner_ff_facts A cfg hy deny d _ _ _ _ _ Ei) as [HX|[_ Hm]]; [inversion HX|].
    unfold to_user_interface, process. rewrite Hm, N.eqb_refl, andb_false_r. reflexivity.
  - right. assert (Hlt : ptu <> len d) by (destruct HB as [Hx _]; lia).
    destruct he.
    { exfalso. unfold to_ascii, process in H. rewrite Ei in H.
      replace (ptu =? len d) with false in H by (symmetry; apply N.eqb_neq; exact Hlt). cbn [andb] in H. discriminate. }
    destruct (drun A cfg deny hy HU HL HOK HUSV HNT HNI HNM HMP d ptu bd db ap Hb Ei Hlt)
      as (pl & done & DBL & Hpl & Hdn & Hd2 & Hptu & HD & Hdb & HPK & Hbidi & Hbok).
    pose proof (pairok_all_nodot A cfg deny hy _ _ HPK) as HDn.
    destruct done as [|l rest]; [contradiction Hdn; reflexivity|].
    assert (Hlt2 : len (ptext pl) < len d) by (destruct HB as [Hx _]; lia).
    subst ptu.
    destruct (to_ascii_text A cfg deny hy HR d pl l rest bd _ _ Hb Hd2 Hlt2 Ei) as [Hlen HT].
    rewrite Hdb, (Idna_Mark.split_join DBL HD HDn) in HT, Hlen.
    destruct (outs cfg is_ascii_l DBL ap) as [os|s] eqn:Eo; [|rewrite HT in H; discriminate].
    destruct HT as (b0 & HT). rewrite HT in H. inversion H. subst b0 a.
    assert (Hos : os <> []).
    { pose proof (outs_len cfg is_ascii_l _ _ _ Eo Hlen) as Hx. intros ->. destruct DBL; [contradiction HD; reflexivity|discriminate]. }
    exists pl, l, rest, DBL, ap, bd, os. rewrite (ptext_join pl os Hos), <- Hdb.
    repeat split; try assumption.
Qed.

(* ---- clause ui ---- *)
Theorem round_ui d b a p : bytes d -> to_ascii A cfg d deny hy DIgnore = Ok (b, a) -> Known_C10_long a = false ->
  Known_C12 A cfg d deny hy = false ->
  exists bu um b', to_user_interface A cfg d deny hy p = UI bu um false /\
    to_ascii A cfg (utf8_encode um) deny hy DIgnore = Ok (b', a).
Proof.
  intros Hb H Hlong HK12. pose proof (redisc_of_adapter A cfg deny (ok_nil A HOK) HU) as HR.
  destruct (first_run_ui d b a Hb H)
    as [(-> & Had & HTd)|(pl & l0 & rest0 & DBL & ap & bd & os & Ei & Hd0 & Hlt0 & Hpl & HD & HPK & Hbidi & Hbok & Eo & Hos & Ha)].
  - exists true, d, b. rewrite (utf8_encode_ascii d Had). split; [exact (HTd p)|exact H].
  - pose proof (pairok_all_nodot A cfg deny hy _ _ HPK) as HDn.
    destruct (outs_nodot A cfg deny hy HU HL DBL ap os HPK Eo) as [Hosn Hosl].
    destruct (inner_ff_facts A cfg hy deny d _ _ _ _ _ Ei) as [HX|[_ Hm]]; [inversion HX|].
    unfold Known_C12 in HK12. rewrite Hm in HK12. rewrite (Idna_Mark.split_join DBL HD HDn) in HK12.
    assert (Hxf : Forall2 xn_free DBL ap).
    { pose proof (combine_forall2 (fun l e => match e with MixedCaseAscii _ => false | _ => starts_with l XN_PREFIX end) DBL ap
                    (Forall2_len _ _ _ HPK) HK12) as HF.
      clear -HF. induction HF as [|l e ls es H1 _ IH]; constructor; [|exact IH]. destruct e; cbn [xn_free]; [exact I|exact H1|exact H1]. }
    assert (Hsplit : split_on DOT a = pl ++ os).
    { rewrite Ha. apply Idna_Mark.split_join; [destruct pl; [exact Hos|discriminate]|].
      apply Forall_app. split; [|exact Hosn]. exact (pass_all_nodot _ Hpl). }
    assert (Hlo : Forall (fun o => long_puny_label o = false) os).
    { unfold Known_C10_long in Hlong. rewrite Hsplit, existsb_app in Hlong. apply orb_false_iff in Hlong. destruct Hlong as [_ Hl2].
      apply Forall_forall. intros o Hin. destruct (long_puny_label o) eqn:E; [|reflexivity]. exfalso.
      assert (Hx : existsb long_puny_label os = true) by (apply existsb_exists; exists o; split; assumption).
      rewrite Hx in Hl2. discriminate. }
    set (uni := uni1 false p (tld_of (join_dots DBL)) bd).
    destruct (build_M uni DBL (uni1_ok p _ bd) ap os HPK Hxf Eo Hlo) as (om & e3s & U1 & U2 & U3 & U5 & U6).
    assert (Eom : outs cfg uni (split_on DOT (join_dots DBL)) ap = inl om) by (rewrite (Idna_Mark.split_join DBL HD HDn); exact U1).
    destruct (to_ui_text p d pl l0 rest0 bd _ ap Hb Hd0 Hlt0 Ei om Eom) as (bu & HTu).
    assert (Hom : om <> []).
    { pose proof (outs_len cfg uni _ _ _ U1 (Forall2_len _ _ _ HPK)) as Hx. intros ->. destruct DBL; [contradiction HD; reflexivity|discriminate]. }
    rewrite <- (ptext_join pl om Hom) in HTu.
    set (u := join_dots (pl ++ om)) in *.
    assert (Hpa : Forall (Forall (fun b => b < 128)) pl).
    { eapply Forall_impl; [|exact Hpl]. intros l [Hbl Hp]. exact (passthrough_ascii l Hbl Hp). }
    assert (Hw : utf8_encode u = join_dots (pl ++ map utf8_encode om)).
    { unfold u. rewrite utf8_encode_join, map_app. f_equal. f_equal. clear -Hpa. induction Hpa as [|l r Hl _ IH]; [reflexivity|].
      cbn [map]. rewrite IH, (utf8_encode_ascii l Hl). reflexivity. }
    assert (Huu : usv_list u).
    { unfold u, usv_list. apply join_dots_Forall; [unfold is_usv, DOT; lia|]. apply Forall_app. split; [|exact U6].
      eapply Forall_impl; [|exact Hpa]. intros l Hl. exact (ascii_usv l Hl). }
    pose proof (utf8_encode_bytes u Huu) as Hbw.
    assert (Hne : map utf8_encode om <> []) by (destruct om; [contradiction Hom; reflexivity|discriminate]).
    assert (Hsw : split_on DOT (utf8_encode u) = pl ++ map utf8_encode om).
    { rewrite Hw. apply Idna_Mark.split_join; [destruct pl; [exact Hne|discriminate]|].
      apply Forall_app. split; [exact (pass_all_nodot _ Hpl)|exact U5]. }
    assert (Hp : proc_all (split_on DOT (utf8_encode u)) =
                 SOk (pl ++ DBL, map (fun l => [MixedCaseAscii l]) pl ++ map (fun e => [e]) e3s)).
    { rewrite Hsw, proc_all_app, (proc_all_pass A cfg deny hy HL _ Hpl), U2. reflexivity. }
    assert (HV : VBk A cfg (length pl) bd (pl ++ DBL)).
    { split.
      - rewrite concat_app, is_bidi_app, (is_bidi_ascii A cfg _ (pass_all_ascii _ Hpl)), <- is_bidi_join. exact Hbidi.
      - intros Hb1. rewrite (skipn_app_le (length pl) pl DBL (le_n _)), skipn_all. cbn [app]. rewrite (VL_nodot _ HDn). exact (Hbok Hb1). }
    assert (Hk : (length pl <= length (ptake (split_on DOT (utf8_encode u))))%nat).
    { rewrite Hsw, ptake_app_pass, app_length; [lia|]. eapply Forall_impl; [|exact Hpl]. intros l Hl. exact (proj2 Hl). }
    assert (Hcc : concat (map (fun e : aal => [e]) e3s) = e3s).
    { clear. induction e3s as [|e r IH]; [reflexivity|]. cbn [map concat app]. rewrite IH. reflexivity. }
    assert (HoF : outs cfg is_ascii_l (VL (pl ++ DBL)) (concat (map (fun l => [MixedCaseAscii l]) pl ++ map (fun e => [e]) e3s)) = inl (pl ++ os)).
    { rewrite VL_app, (VL_nodot _ (pass_all_nodot _ Hpl)), (VL_nodot _ HDn), concat_app, concat_mca, Hcc.
      rewrite (outs_mca cfg is_ascii_l _ _ pl pl eq_refl), U3, (pass_all_lower deny HU HL _ Hpl). reflexivity. }
    destruct (virtual_ascii A cfg deny hy HU HL HR _ _ _ _ bd _ Hbw Hp HV Hk HoF) as (b' & HTa).
    exists bu, u, b'. rewrite <- Ha in HTa. split; assumption.
Qed.
End UI.

(* ---------------------------------------------------------------- the clause *)
Theorem c12_ui A cfg : AdapterOK A -> AdapterUSV A -> NvNoTrunc A -> NvIdem A -> AsciiNoMark A -> MapPrefix A -> NvMapFix A ->
  NvNoGrow A ->
  forall d deny hy b a, bytes d -> valid_deny deny -> Known_C12 A cfg d deny hy = false ->
  to_ascii A cfg d deny hy DIgnore = Ok (b, a) -> Known_C10_long a = false ->
  forall p, ui_err (to_user_interface A cfg d deny hy p) = false /\ ui_panics (to_user_interface A cfg d deny hy p) = false /\
    exists b', to_ascii A cfg (utf8_encode (ui_text (to_user_interface A cfg d deny hy p))) deny hy DIgnore = Ok (b', a).
Proof.
  intros HOK HUSV HNT HNI HNM HMP HMF HNG d deny hy b a Hb Hv HK H Hlong p. destruct (valid_deny_facts deny Hv) as [HU HL].
  destruct (round_ui A cfg deny hy HU HL HOK HUSV HNT HNI HNM HMP HMF HNG d b a p Hb H Hlong HK) as (bu & um & b' & E1 & E2).
  rewrite E1. cbn [ui_err ui_panics ui_text]. split; [reflexivity|]. split; [reflexivity|]. exists b'. exact E2.
Qed.
