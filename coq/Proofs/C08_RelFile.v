(* Proofs/C08_RelFile.v - the make_relative inverse law for file URLs, path level and record level (explicit form).
   The file path state on the text make_relative emits, under the no-drive-letter invariant of C02's fifth canonical
   form (C02_File.fseg_ok: segments canonical for a special scheme that do not begin like a drive letter):
     finish_dotdot_f / loop_dots_f   k "../" pop k closed segments (file versions of C08_RelPath.finish_dotdot / loop_dots:
                                     shorten_path and pop_path refuse only a normalised drive letter);
     loop_rel_f                      then canonical segments are appended unchanged (C02_File.file_loop_canon) and the
                                     collapse of leading slashes is the identity (C02_File.fixup_id);
     shorten_path_Bs_f               the relative arm of parse_file cuts the base's last segment;
     join_rel_path_f / join_rel_query_f   the join through parse_file in closed form;
     relative_file_hier              the law for two records hier_url pre 4 .. with pre = "file://" R, inside MR_ok - the
                                     one reference that goes through the one-slash arm of parse_file ("/" at the root,
                                     which builds a new record from host_str) is a premise here, discharged for canonical
                                     file records in C08_RelFileCanon. *)
From Coq Require Import String.
From RU Require Import Base.Prelude Base.Utf8 Base.Utf8Facts Model.AsciiSet Gen.Tables Model.PercentEncoding
  Model.HostT Model.UrlRecord Model.Parser Model.Setters Model.WF Model.MakeRelative Model.KnownC08
  Proofs.ListN Proofs.C14_Set Proofs.C14_Enc Proofs.C14_Views Proofs.C02_Enc Proofs.C02_Parts Proofs.C02_Opaque
  Proofs.C02_Path Proofs.C02_PathL1 Proofs.C02_PathSp Proofs.C02_SetQF Proofs.C02_File
  Proofs.C08_Input Proofs.C08_Simple Proofs.C08_Contain Proofs.C08_RelEval Proofs.C08_RelPath Proofs.C08_RelJoin
  Proofs.C08_RelMr Proofs.C08_RelLaw.
Open Scope N_scope.
Open Scope list_scope.

(* ---------- drive letters ---------- *)
Lemma nwdl_of_not_wdl t : starts_with_wdl t = false -> is_normalized_wdl t = false.
Proof. intros H. unfold is_normalized_wdl, is_wdl. rewrite H. rewrite andb_false_r. reflexivity. Qed.

Lemma nwdl_slash X : is_normalized_wdl (47 :: X) = false.
Proof. apply nwdl_head_not_alpha_f. reflexivity. Qed.

Lemma wdl_segment_one a : is_tnl a = false -> starts_with_wdl_segment [a] = false.
Proof. intros H. unfold starts_with_wdl_segment. rewrite inp_next_cons by exact H. reflexivity. Qed.

Lemma wdl_segment_two a b r : is_tnl a = false -> is_tnl b = false ->
  (is_alpha a && ((b =? 58) || (b =? 124))) = false -> starts_with_wdl_segment (a :: b :: r) = false.
Proof.
  intros Ha Hb H. unfold starts_with_wdl_segment. rewrite inp_next_cons by exact Ha. rewrite inp_next_cons by exact Hb.
  rewrite H. reflexivity.
Qed.

Lemma fseg_chars s : fseg_ok s = true -> forallb seg_char_sp s = true.
Proof. intros H. apply good_seg_sp_chars. apply fseg_ok_sp. exact H. Qed.

Lemma seg_char_sp_tnl c : seg_char_sp c = true -> is_tnl c = false.
Proof.
  unfold seg_char_sp, seg_char, not_tnl. intros H. apply andb_true_iff in H. destruct H as [H _].
  apply andb_true_iff in H. destruct H as [H _]. apply andb_true_iff in H. destruct H as [H _].
  apply negb_true_iff in H. exact H.
Qed.

(* a canonical file segment followed by a separator (or nothing) does not read as a drive-letter segment *)
Lemma fseg_not_wdl_segment s rest : fseg_ok s = true -> s <> [] ->
  match rest with [] => True | c :: _ => is_tnl c = false /\ (c = 47 \/ c = 63 \/ c = 35) end ->
  starts_with_wdl_segment (s ++ rest) = false.
Proof.
  intros Hs Hne Hrest. pose proof (fseg_chars s Hs) as Hc. pose proof (fseg_ok_like s Hs) as Hl.
  destruct s as [|a [|b s']]; [exfalso; apply Hne; reflexivity | |].
  - cbn [forallb] in Hc. apply andb_true_iff in Hc. destruct Hc as [Ha _]. apply seg_char_sp_tnl in Ha.
    cbn [app]. destruct rest as [|c r]; [apply wdl_segment_one; exact Ha|].
    destruct Hrest as [Ht Hsep]. apply wdl_segment_two; [exact Ha | exact Ht |].
    destruct Hsep as [->|[->| ->]]; cbn [N.eqb Pos.eqb orb]; apply andb_false_r.
  - cbn [forallb] in Hc. apply andb_true_iff in Hc. destruct Hc as [Ha Hc]. apply andb_true_iff in Hc. destruct Hc as [Hb _].
    apply seg_char_sp_tnl in Ha, Hb. cbn [app]. apply wdl_segment_two; [exact Ha | exact Hb |]. exact Hl.
Qed.

Lemma rest_qh_sep rest : rest_qh rest ->
  match rest with [] => True | c :: _ => is_tnl c = false /\ (c = 47 \/ c = 63 \/ c = 35) end.
Proof.
  destruct rest as [|c r]; [intros _; exact I|]. intros [Hq Ht]. split; [exact Ht|].
  unfold C02_Parts.is_qh in Hq. right. lia.
Qed.

(* the path part of a reference make_relative emits for canonical file targets is no drive-letter segment *)
Lemma rp_not_wdl_segment ra rb tl rest :
  forallb fseg_ok rb = true -> fseg_ok tl = true -> forallb nonempty rb = true -> rest_qh rest ->
  (ra <> [] \/ rb <> [] \/ tl <> []) ->
  starts_with_wdl_segment (dots_text ra ++ segs_text rb ++ tl ++ rest) = false.
Proof.
  intros Hrb Htl Hne Hrest Hsome. destruct ra as [|a ra].
  - destruct rb as [|s rb].
    + cbn [dots_text segs_text map concat app].
      apply fseg_not_wdl_segment; [exact Htl | | apply rest_qh_sep; exact Hrest].
      destruct Hsome as [H|[H|H]]; try (exfalso; apply H; reflexivity). exact H.
    + cbn [forallb] in Hrb, Hne. apply andb_true_iff in Hrb, Hne. destruct Hrb as [Hs _]. destruct Hne as [Hn _].
      unfold segs_text. cbn [dots_text map concat app]. rewrite <- !app_assoc.
      apply fseg_not_wdl_segment; [exact Hs | destruct s; [discriminate Hn | discriminate] |].
      cbn [app]. split; [reflexivity | left; reflexivity].
  - unfold dots_text. cbn [map concat app]. apply wdl_segment_two; reflexivity.
Qed.

(* ---------- "../" pops the last closed segment (file) ---------- *)
Section DotDotF.
Variable pre : list N.
Variable dbg : bool.
Notation ps := (nlen pre).
Notation BsP := (Bs pre).
Notation loop := (parse_path_loop dbg CUrlParser STFile ps).

Lemma finish_dotdot_f segs t hh : no_slash t = true -> starts_with_wdl (t ++ [47]) = false ->
  finish_segment dbg STFile ps (BsP (segs ++ [t]) ++ [46; 46] ++ [47]) (nlen (BsP (segs ++ [t]))) true hh
  = POk (BsP segs, hh).
Proof.
  intros Htn Hok.
  assert (is_normalized_wdl t = false) as Hnw by (apply nwdl_of_not_wdl; rewrite <- wdl_snoc; exact Hok).
  set (B1 := BsP (segs ++ [t])). set (s1 := B1 ++ [46; 46] ++ [47]).
  assert (slice_o s1 (nlen B1) (nlen s1 - 1) = Some [46; 46]) as Hslice.
  { unfold s1. rewrite !nlen_app.
    replace (nlen B1 + (nlen [46; 46] + nlen [47]) - 1) with (nlen B1 + nlen [46; 46]) by (unfold nlen; cbn [length]; lia).
    apply slice_mid. }
  assert (truncate s1 (nlen B1) = B1) as Htr by (unfold truncate, s1; apply nfirstn_app_len).
  destruct (Bs_ends pre (segs ++ [t])) as [X EX]. fold B1 in EX.
  assert (ends_with_byte 47 B1 = true) as Hends by (rewrite EX; apply ends_with_byte_snoc).
  unfold finish_segment. fold B1. fold s1. rewrite Hslice. cbn [of_option pbind is_double_dot].
  assert ((if dbg then match (if 1 <=? nlen B1 then nnth s1 (nlen B1 - 1) else None) with
                       | Some b => passert (b =? 47) | None => PPanic end else POk tt) = POk tt) as Hdbg.
  { destruct dbg; [|reflexivity]. pose proof (Bs_len_ge pre (segs ++ [t])) as Hl. fold B1 in Hl.
    replace (1 <=? nlen B1) with true by lia.
    unfold s1. rewrite nnth_app_l by lia. rewrite EX. rewrite nlen_app.
    replace (nlen X + nlen [47] - 1) with (nlen X) by (unfold nlen; cbn [length]; lia).
    rewrite nnth_app_last. reflexivity. }
  rewrite Hdbg. cbn [pbind]. rewrite Htr, Hends. cbn [andb].
  destruct (Bs_ends pre segs) as [X0 EX0].
  pose proof (Bs_len_ge pre segs) as Hl0.
  assert (rfind 47 (nfirstn (nlen B1 - 1) B1) = Some (nlen X0)) as Hrf.
  { unfold B1. rewrite Bs_snoc. rewrite !nlen_app.
    replace (nlen (BsP segs) + (nlen t + nlen [47]) - 1) with (nlen (BsP segs ++ t)) by (rewrite nlen_app; unfold nlen; cbn [length]; lia).
    rewrite app_assoc. rewrite nfirstn_app_len. rewrite EX0. rewrite <- app_assoc. cbn [app].
    apply rfind_app_last. rewrite <- no_slash_no_byte. exact Htn. }
  assert (nlen (BsP segs) = nlen X0 + 1) as EL0 by (rewrite EX0, nlen_app; reflexivity).
  unfold last_slash_can_be_removed. rewrite Hrf. replace (ps <=? nlen X0) with true by lia. cbn [andb].
  assert (nskipn (nlen X0) B1 = 47 :: t ++ [47]) as Hsk.
  { unfold B1. rewrite Bs_snoc, EX0. rewrite <- !app_assoc. rewrite nskipn_app_len. reflexivity. }
  rewrite Hsk.
  assert (path_starts_with_wdl (47 :: t ++ [47]) = false) as Ew.
  { unfold path_starts_with_wdl. cbn [is_path_end]. replace (47 =? 47) with true by reflexivity. cbn [orb andb]. exact Hok. }
  rewrite Ew. cbn [negb].
  assert (nfirstn (nlen B1 - 1) B1 = BsP segs ++ t) as Hcut.
  { unfold B1. rewrite Bs_snoc. rewrite !nlen_app.
    replace (nlen (BsP segs) + (nlen t + nlen [47]) - 1) with (nlen (BsP segs ++ t)) by (rewrite nlen_app; unfold nlen; cbn [length]; lia).
    rewrite app_assoc. apply nfirstn_app_len. }
  rewrite Hcut.
  assert (shorten_path STFile ps (BsP segs ++ t) = POk (BsP segs)) as Hsh.
  { unfold shorten_path, pop_path. rewrite nlen_app.
    replace (nlen (BsP segs) + nlen t =? ps) with false by lia. cbn [st_is_file andb].
    assert (is_normalized_wdl (nskipn ps (BsP segs ++ t)) = false) as Hn0.
    { unfold Bs. rewrite <- !app_assoc. rewrite nskipn_app_len. cbn [app]. apply nwdl_slash. }
    rewrite Hn0.
    destruct (C08_RelPath.Bs_skip pre segs t) as (Y & EY & ELY). rewrite EY.
    replace (ps <? nlen (BsP segs) + nlen t) with true by lia.
    rewrite (rfind_app_last 47 Y t) by (rewrite <- no_slash_no_byte; exact Htn).
    rewrite ELY. rewrite nskipn_app_len. rewrite Hnw. unfold truncate. rewrite nfirstn_app_len. reflexivity. }
  rewrite Hsh. cbn [pbind]. rewrite EX0. rewrite ends_with_byte_snoc. cbn [negb andb]. reflexivity.
Qed.

Lemma loop_dotdot_f segs t X hh : no_slash t = true -> starts_with_wdl (t ++ [47]) = false ->
  loop (46 :: 46 :: 47 :: X) (BsP (segs ++ [t])) (nlen (BsP (segs ++ [t]))) [] hh
  = loop X (BsP segs) (nlen (BsP segs)) [] hh.
Proof.
  intros Htn Hok. rewrite (floop_plain dbg pre) by reflexivity. rewrite (floop_plain dbg pre) by reflexivity.
  rewrite floop_slash.
  change [46; 46] with (rev [46; 46] ++ []). rewrite push_pending_clean_sp by reflexivity.
  rewrite <- app_assoc. rewrite (finish_dotdot_f segs t hh Htn Hok). reflexivity.
Qed.

Lemma loop_dots_f ra : forall segs X hh,
  forallb no_slash ra = true -> forallb not_wdl_seg ra = true ->
  loop (dots_text ra ++ X) (BsP (segs ++ ra)) (nlen (BsP (segs ++ ra))) [] hh
  = loop X (BsP segs) (nlen (BsP segs)) [] hh.
Proof.
  induction ra as [|t ra IH] using rev_ind; intros segs X hh Hn Hw.
  - cbn [dots_text map concat app]. rewrite app_nil_r. reflexivity.
  - rewrite forallb_snoc in Hn, Hw. apply andb_true_iff in Hn, Hw. destruct Hn as [Hn Ht]. destruct Hw as [Hw Hwt].
    unfold not_wdl_seg in Hwt. apply negb_true_iff in Hwt.
    unfold dots_text. rewrite map_app, concat_app. cbn [map concat]. rewrite app_nil_r.
    assert (concat (map (fun _ : list N => [46; 46; 47]) ra) ++ [46; 46; 47]
            = [46; 46; 47] ++ concat (map (fun _ : list N => [46; 46; 47]) ra)) as Ec.
    { clear. induction ra as [|a ra IH]; [reflexivity|]. cbn [map concat]. rewrite <- app_assoc, IH. reflexivity. }
    rewrite Ec. rewrite <- app_assoc. cbn [app]. rewrite app_assoc.
    rewrite loop_dotdot_f by assumption. apply IH; assumption.
Qed.

(* the whole reference path: k "../", then canonical file segments; the collapse of leading slashes is the identity *)
Theorem loop_rel_f common ra rb tl rest hh :
  forallb no_slash ra = true -> forallb not_wdl_seg ra = true ->
  forallb fseg_ok (common ++ rb) = true -> fseg_ok tl = true ->
  match common ++ rb with [] => True | s :: _ => s <> [] end -> rest_qh rest ->
  loop (dots_text ra ++ segs_text rb ++ tl ++ rest) (BsP (common ++ ra)) (nlen (BsP (common ++ ra))) [] hh
  = POk (BsP (common ++ rb) ++ tl, hh, rest).
Proof.
  intros Hn Hw Hall Htl Hfirst Hrest.
  rewrite loop_dots_f by assumption.
  assert (forallb fseg_ok rb = true) as Hrb by (exact (forallb_app_r _ _ _ Hall)).
  rewrite (file_loop_canon dbg pre rb common tl rest hh Hrb Htl Hrest).
  f_equal. f_equal. f_equal.
  unfold Bs. rewrite <- !app_assoc. cbn [app]. apply fixup_id.
  apply fseg_first_not_slash; assumption.
Qed.

(* shorten_path on  pre "/" seg "/" ... "/" last  cuts the last segment unless it is a normalised drive letter *)
Lemma shorten_path_Bs_f segs last : no_slash last = true -> is_normalized_wdl last = false ->
  shorten_path STFile ps (BsP segs ++ last) = POk (BsP segs).
Proof.
  intros Hl Hnw. unfold shorten_path, pop_path. pose proof (Bs_len_ge pre segs) as Hg. rewrite nlen_app.
  replace (nlen (BsP segs) + nlen last =? ps) with false by lia. cbn [st_is_file andb].
  assert (is_normalized_wdl (nskipn ps (BsP segs ++ last)) = false) as Hn0.
  { unfold Bs. rewrite <- !app_assoc. rewrite nskipn_app_len. cbn [app]. apply nwdl_slash. }
  rewrite Hn0.
  destruct (C08_RelPath.Bs_skip pre segs last) as (Y & EY & ELY). rewrite EY.
  replace (ps <? nlen (BsP segs) + nlen last) with true by lia.
  rewrite (rfind_app_last 47 Y last) by (rewrite <- no_slash_no_byte; exact Hl).
  rewrite ELY. rewrite nskipn_app_len. rewrite Hnw. unfold truncate. rewrite nfirstn_app_len. reflexivity.
Qed.
End DotDotF.

(* ---------- the join through parse_file ---------- *)
Lemma sqf_above q f : opt_clean T_SPECIAL_QUERY q -> opt_clean T_FRAGMENT f -> forallb above_space (qf_text q f) = true.
Proof. intros Hq Hf. exact (qf_text_above_st STFile q f Hq Hf). Qed.

Section RelJoinF.
Variables (dbg : bool) (hp hpo : list N -> result host) (hd : host -> list N).
Notation join b input := (parse_url dbg hp hpo hd None (Some b) input).

Theorem join_rel_path_f b pre common ra rb blast tl q f c rp' :
  path_start b = nlen pre -> b_before_query b = Bs pre (common ++ ra) ++ blast ->
  cannot_be_a_base b = Some false -> b_st b = STFile ->
  front_auth (scheme_end b) pre ->
  no_slash blast = true -> is_normalized_wdl blast = false ->
  forallb no_slash ra = true -> forallb not_wdl_seg ra = true ->
  forallb fseg_ok (common ++ rb) = true -> fseg_ok tl = true -> forallb nonempty rb = true ->
  match common ++ rb with [] => True | s :: _ => s <> [] end ->
  opt_clean T_SPECIAL_QUERY q -> opt_clean T_FRAGMENT f ->
  dots_text ra ++ segs_text rb ++ tl = c :: rp' -> seg_char_sp c = true ->
  has_scheme_b ((dots_text ra ++ segs_text rb ++ tl) ++ qf_text q f) = false ->
  let P := Bs pre (common ++ rb) ++ tl in
  opt_le (qf_qs (nlen P) q) U32_MAX_P -> opt_le (qf_fs (nlen P) q f) U32_MAX_P ->
  join b ((dots_text ra ++ segs_text rb ++ tl) ++ qf_text q f)
  = POk (url_with b (P ++ qf_text q f) (qf_qs (nlen P) q) (qf_fs (nlen P) q f)).
Proof.
  intros Hps Hbq Hcb Hst Hfa Hbl Hblw Hra Hwra Hall Htl Nrb Hfirst Hq Hf Erp Hc Hsch P Bq Bf.
  assert (forallb fseg_ok rb = true) as Hrb by (exact (forallb_app_r _ _ _ Hall)).
  set (rp := dots_text ra ++ segs_text rb ++ tl) in *.
  assert (forallb above_space (rp ++ qf_text q f) = true) as Habove.
  { unfold rp. rewrite !forallb_app. rewrite dots_text_above.
    rewrite (segs_text_above rb (good_segs_sp_good rb (fsegs_ok_sp rb Hrb))).
    rewrite (good_seg_above tl (good_seg_sp_good tl (fseg_ok_sp tl Htl))). rewrite (sqf_above q f Hq Hf). reflexivity. }
  assert (starts_with_wdl_segment (rp ++ qf_text q f) = false) as Hnws.
  { unfold rp. rewrite <- !app_assoc. apply rp_not_wdl_segment; try assumption; [apply qf_text_rest|].
    destruct ra as [|a ra']; [|left; discriminate]. destruct rb as [|s rb']; [|right; left; discriminate].
    right. right. unfold rp in Erp. cbn [dots_text segs_text map concat app] in Erp. rewrite Erp. discriminate. }
  unfold parse_url. rewrite trim_c0_id by (apply all_above_edge; exact Habove).
  rewrite parse_scheme_none by (rewrite above_ntnl by exact Habove; exact Hsch).
  pose proof (seg_char_sp_tnl c Hc) as Hc1.
  unfold seg_char_sp, seg_char in Hc. apply andb_true_iff in Hc. destruct Hc as [Hc Hc4]. apply andb_true_iff in Hc. destruct Hc as [Hc Hc3].
  apply andb_true_iff in Hc. destruct Hc as [_ Hc2]. apply negb_true_iff in Hc2, Hc3, Hc4. unfold C02_Parts.is_qh in Hc3.
  assert (inp_next (rp ++ qf_text q f) = Some (c, rp' ++ qf_text q f)) as En.
  { rewrite Erp. cbn [app]. apply inp_next_cons. exact Hc1. }
  unfold inp_starts_with_char. rewrite En. replace (c =? 35) with false by lia. rewrite Hcb.
  fold (b_st b). rewrite Hst. cbn [st_is_file]. unfold parse_file, inp_split_first. rewrite En.
  unfold is_slash_or_bslash. rewrite Hc2, Hc4. cbn [orb].
  replace (c =? 63) with false by lia. replace (c =? 35) with false by lia. rewrite Hnws. cbn [negb].
  rewrite Hps, Hbq. rewrite shorten_path_Bs_f by assumption. cbn [pbind].
  unfold parse_path. unfold rp. rewrite <- !app_assoc.
  rewrite loop_rel_f; [| assumption | assumption | assumption | assumption | assumption | apply qf_text_rest].
  cbn [pbind]. fold P.
  assert (P = pre ++ (47 :: segs_text (common ++ rb) ++ tl)) as EP by (unfold P, Bs; rewrite <- !app_assoc; reflexivity).
  rewrite EP. rewrite wqf_front_auth by exact Hfa. rewrite <- EP.
  rewrite pqf_canon; [| reflexivity | exact Hq | exact Hf | exact Bq | exact Bf].
  cbn [pbind]. unfold url_with. rewrite Hps. reflexivity.
Qed.

(* "?" q ["#" f] against a file base *)
Theorem join_rel_query_f b x f :
  cannot_be_a_base b = Some false -> b_st b = STFile ->
  clean T_SPECIAL_QUERY x = true -> opt_clean T_FRAGMENT f ->
  let P := b_before_query b in
  nlen P <= U32_MAX_P -> opt_le (qf_fs (nlen P) (Some x) f) U32_MAX_P ->
  join b (qf_text (Some x) f)
  = POk (url_with b (P ++ qf_text (Some x) f) (Some (nlen P)) (qf_fs (nlen P) (Some x) f)).
Proof.
  intros Hcb Hst Hq Hf P Bq Bf.
  assert (forallb above_space (qf_text (Some x) f) = true) as Habove by (apply sqf_above; assumption).
  unfold parse_url. rewrite trim_c0_id by (apply all_above_edge; exact Habove).
  rewrite parse_scheme_first_not_alpha by (rewrite above_ntnl by exact Habove; reflexivity).
  assert (inp_next (qf_text (Some x) f) = Some (63, x ++ qf_ftext f)) as En by (apply inp_next_cons; reflexivity).
  unfold inp_starts_with_char. rewrite En. replace (63 =? 35) with false by reflexivity. rewrite Hcb.
  fold (b_st b). rewrite Hst. cbn [st_is_file]. unfold parse_file, inp_split_first. rewrite En.
  change (is_slash_or_bslash 63) with false. cbv iota.
  replace (63 =? 63) with true by reflexivity. fold P.
  rewrite pqf_canon; [| reflexivity | exact Hq | exact Hf | exact Bq | exact Bf].
  reflexivity.
Qed.
End RelJoinF.

(* ---------- the law on records in explicit form ---------- *)
Record rel_ok_f (pre : list N) (bsegs : list (list N)) (blast : list N)
                (tsegs : list (list N)) (tlast : list N) (tq tf : option (list N)) : Prop := mk_rel_ok_f {
  rf_front : exists R, pre = s_file ++ [58; 47; 47] ++ R;
  rf_bsegs : forallb no_slash bsegs = true;
  rf_blast : no_slash blast = true;
  rf_tsegs : forallb fseg_ok tsegs = true;
  rf_tlast : fseg_ok tlast = true;
  rf_q : opt_clean T_SPECIAL_QUERY tq;
  rf_f : opt_clean T_FRAGMENT tf;
  rf_bq : opt_le (qf_qs (nlen (pre ++ path_text tsegs tlast)) tq) U32_MAX_P;
  rf_bf : opt_le (qf_fs (nlen (pre ++ path_text tsegs tlast)) tq tf) U32_MAX_P
}.

Lemma fsegs_no_slash segs : forallb fseg_ok segs = true -> forallb no_slash segs = true.
Proof.
  apply forallb_impl. intros s H. destruct (good_seg_sp_parts s (fseg_ok_sp s H)) as (_ & Hn & _). exact Hn.
Qed.

Lemma existsb_app_false {A} (f : A -> bool) a b : existsb f (a ++ b) = false -> existsb f a = false /\ existsb f b = false.
Proof. rewrite existsb_app. intros H. apply orb_false_iff in H. exact H. Qed.

Section LawF.
Variables (dbg : bool) (hp hpo : list N -> result host) (hd : host -> list N).
Notation join b input := (parse_url dbg hp hpo hd None (Some b) input).

Theorem relative_file_hier pre ue hs he hi po bsegs blast bq bf tsegs tlast tq tf r :
  rel_ok_f pre bsegs blast tsegs tlast tq tf ->
  (* the reference "/" at the root goes through the one-slash arm of parse_file: supplied by the caller *)
  (bsegs = [] -> tsegs = [] -> tlast = [] -> blast <> [] ->
   join (hier_url pre 4 ue hs he hi po bsegs blast bq bf) (47 :: qf_text tq tf)
   = POk (hier_url pre 4 ue hs he hi po tsegs tlast tq tf)) ->
  mr_ok (hier_url pre 4 ue hs he hi po bsegs blast bq bf) (hier_url pre 4 ue hs he hi po tsegs tlast tq tf) = true ->
  make_relative dbg (hier_url pre 4 ue hs he hi po bsegs blast bq bf)
                    (hier_url pre 4 ue hs he hi po tsegs tlast tq tf) = Some (Some r) ->
  join (hier_url pre 4 ue hs he hi po bsegs blast bq bf) r
  = POk (hier_url pre 4 ue hs he hi po tsegs tlast tq tf).
Proof.
  intros K Hroot Hok Hmr. destruct K as [(R & Epre) Hbs Hbl Hts Htl Hq Hf Bq Bf].
  assert (front_auth 4 pre) as Hfa0 by (exists s_file, R; split; [exact Epre | reflexivity]).
  assert (front_pre 4 pre) as Hfa by (left; exact Hfa0).
  assert (scheme_type_of (nfirstn 4 pre) = STFile) as Hst0.
  { rewrite Epre. change 4 with (nlen s_file). rewrite nfirstn_app_len. reflexivity. }
  pose proof (fsegs_no_slash tsegs Hts) as Htn.
  destruct (good_seg_sp_parts tlast (fseg_ok_sp tlast Htl)) as (_ & Htln & _).
  destruct (mr_ok_hier pre 4 ue hs he hi po 4 ue hs he hi po bsegs blast bq bf tsegs tlast tq tf
              (hier_cbb _ _ _ _ _ _ _ _ _ _ _ Hfa) (hier_cbb _ _ _ _ _ _ _ _ _ _ _ Hfa) Hbs Hbl Htn Htln Hok)
    as (Nb & Nt & Hw & Hrest).
  destruct (skip_common_split bsegs tsegs) as (common & ra & rb & Eb & Et & Es).
  rewrite hier_b_scheme in Hw by exact Hfa. rewrite Hst0 in Hw. cbn [st_is_file] in Hw.
  change (([] :: bsegs) ++ ([] :: tsegs) ++ [blast; tlast]) with ([] :: bsegs ++ ([] :: tsegs) ++ [blast; tlast]) in Hw.
  cbn [existsb starts_with_wdl orb] in Hw.
  destruct (existsb_app_false _ _ _ Hw) as [Hwb Hw2]. cbn [app existsb starts_with_wdl orb] in Hw2.
  destruct (existsb_app_false _ _ _ Hw2) as [_ Hw3]. cbn [existsb] in Hw3. apply orb_false_iff in Hw3. destruct Hw3 as [Hwbl _].
  destruct (Hrest ra rb Es) as (F1 & F2 & F3). clear Hrest.
  assert (forallb nonempty ra = true) as Nra by (rewrite Eb in Nb; exact (forallb_app_r _ _ _ Nb)).
  assert (forallb nonempty rb = true) as Nrb by (rewrite Et in Nt; exact (forallb_app_r _ _ _ Nt)).
  assert (forallb no_slash ra = true) as Hra by (rewrite Eb in Hbs; exact (forallb_app_r _ _ _ Hbs)).
  destruct (make_relative_inv dbg _ _ r _ _ _ _ Hmr
              (hier_path pre 4 ue hs he hi po bsegs blast bq bf) (hier_path pre 4 ue hs he hi po tsegs tlast tq tf)
              (hier_query pre 4 ue hs he hi po tsegs tlast tq tf dbg) (hier_fragment pre 4 ue hs he hi po tsegs tlast tq tf dbg))
    as (eb & et & Eeb & Eet & Er).
  rewrite extract_path_text in Eeb, Eet by assumption.
  destruct (char_boundary_1 (47 :: blast)); [|discriminate]. destruct (char_boundary_1 (47 :: tlast)); [|discriminate].
  inversion Eeb; subst eb. inversion Eet; subst et. clear Eeb Eet. cbn [fst snd] in Er.
  rewrite (mr_path_part_hier bsegs blast tsegs tlast ra rb Hbs Htn Es Nra Nrb) in Er.
  clear Hmr Hok.
  set (b := hier_url pre 4 ue hs he hi po bsegs blast bq bf) in *.
  set (t := hier_url pre 4 ue hs he hi po tsegs tlast tq tf) in *.
  assert (b_st b = STFile) as Hbst by (unfold b_st, b; rewrite hier_b_scheme by exact Hfa; exact Hst0).
  assert (cannot_be_a_base b = Some false) as Hcb by (apply hier_cbb; exact Hfa).
  assert (b_before_query b = Bs pre (common ++ ra) ++ blast) as Hbq
    by (unfold b; rewrite hier_before_query, hier_P_Bs, Eb; reflexivity).
  assert (pre ++ path_text tsegs tlast = Bs pre (common ++ rb) ++ tlast) as EP by (rewrite hier_P_Bs, Et; reflexivity).
  assert (match common ++ rb with [] => True | s :: _ => s <> [] end) as Hfirst.
  { rewrite <- Et. destruct tsegs as [|s ts]; [exact I|]. cbn [forallb] in Nt. apply andb_true_iff in Nt.
    destruct Nt as [Ns _]. destruct s; [discriminate Ns | discriminate]. }
  assert ((ra <> [] \/ rb <> [] \/ (tlast <> [] /\ list_eqb blast tlast = false)) ->
          join b ((dots_text ra ++ segs_text rb ++ tlast) ++ qf_text tq tf) = POk t) as Hpath.
  { intros Hsome.
    assert (forallb fseg_ok rb = true) as Hrb by (rewrite Et in Hts; exact (forallb_app_r _ _ _ Hts)).
    assert (exists c rp', dots_text ra ++ segs_text rb ++ tlast = c :: rp' /\ seg_char_sp c = true) as (c & rp' & Erp & Hc).
    { destruct ra as [|a ra'].
      - destruct rb as [|s rb'].
        + destruct tlast as [|c l]; [exfalso; destruct Hsome as [H|[H|[H _]]]; apply H; reflexivity|].
          exists c, l. split; [reflexivity|]. pose proof (fseg_chars _ Htl) as Hcs. cbn [forallb] in Hcs.
          apply andb_true_iff in Hcs. tauto.
        + cbn [forallb] in Nrb, Hrb. apply andb_true_iff in Nrb, Hrb. destruct Nrb as [Hn _]. destruct Hrb as [Hs _].
          destruct s as [|c s]; [discriminate|].
          exists c, (s ++ [47] ++ segs_text rb' ++ tlast). split.
          * unfold segs_text. cbn [dots_text map concat app]. rewrite <- !app_assoc. reflexivity.
          * pose proof (fseg_chars _ Hs) as Hcs. cbn [forallb] in Hcs. apply andb_true_iff in Hcs. tauto.
      - exists 46, ([46; 47] ++ dots_text ra' ++ segs_text rb ++ tlast). split; [|reflexivity].
        unfold dots_text. cbn [map concat app]. reflexivity. }
    assert (forallb not_wdl_seg ra = true) as Hwra.
    { apply forallb_forall. intros x Hx. unfold not_wdl_seg. rewrite wdl_snoc. apply negb_true_iff.
      apply (existsb_false_forall _ _ Hwb). rewrite Eb. apply in_or_app. right. exact Hx. }
    assert (has_scheme_b ((dots_text ra ++ segs_text rb ++ tlast) ++ qf_text tq tf) = false) as Hsch.
    { destruct ra as [|a ra'].
      - specialize (F2 eq_refl). destruct rb as [|s rb'].
        + destruct Hsome as [H|[H|[_ El]]]; try (exfalso; apply H; reflexivity). rewrite El in F2.
          cbn [dots_text segs_text map concat app]. apply has_scheme_app; [exact F2 | apply qf_text_sep].
        + unfold segs_text. cbn [dots_text map concat app]. rewrite <- !app_assoc. cbn [app].
          apply has_scheme_app; [exact F2 | left; reflexivity].
      - unfold dots_text. cbn [map concat app]. reflexivity. }
    pose proof (join_rel_path_f dbg hp hpo hd b pre common ra rb blast tlast tq tf c rp') as J.
    rewrite <- EP in J.
    assert (forallb fseg_ok (common ++ rb) = true) as Hts' by (rewrite <- Et; exact Hts).
    specialize (J eq_refl Hbq Hcb Hbst Hfa0 Hbl (nwdl_of_not_wdl _ Hwbl) Hra Hwra Hts' Htl Nrb Hfirst Hq Hf Erp Hc Hsch Bq Bf).
    rewrite J. reflexivity. }
  subst r. unfold rel_path_text.
  destruct ra as [|a ra'].
  - destruct rb as [|s rb'].
    + rewrite app_nil_r in Eb, Et. subst bsegs tsegs.
      destruct (list_eqb blast tlast) eqn:El.
      * apply list_eqb_spec in El. subst tlast. cbn [app].
        destruct tq as [x|].
        -- pose proof (join_rel_query_f dbg hp hpo hd b x tf) as J.
           cbv zeta in J. assert (b_before_query b = pre ++ path_text common blast) as Hbq2 by (unfold b; apply hier_before_query).
           rewrite Hbq2 in J.
           cbn [qf_qs opt_le] in Bq. specialize (J Hcb Hbst Hq Hf Bq Bf). rewrite J. reflexivity.
        -- specialize (F3 eq_refl eq_refl eq_refl eq_refl). subst bq.
           destruct tf as [y|].
           ++ cbn [qf_text qf_qtext qf_ftext app].
              assert (forallb above_space (35 :: y) = true) as Hab
                by (cbn [forallb]; rewrite (clean_forallb _ _ y kept_FRAGMENT_above Hf); reflexivity).
              rewrite (join_frag dbg hp hpo hd b (35 :: y) y).
              ** unfold with_fragment, b. rewrite hier_before_fragment.
                 rewrite utf8_encode_ascii by (apply (clean_ascii T_FRAGMENT); exact Hf).
                 rewrite encode_clean by exact Hf. unfold t, hier_url, url_with, qf_text. cbn [qf_qtext qf_ftext qf_qs qf_fs app].
                 rewrite !app_nil_r. change (nlen []) with 0. rewrite N.add_0_r. reflexivity.
              ** apply ascii_usv. constructor; [unfold is_ascii; lia | apply (clean_ascii T_FRAGMENT); exact Hf].
              ** unfold ref_text. rewrite trim_c0_id by (apply all_above_edge; exact Hab).
                 change (filter (fun c => negb (is_tnl c)) (35 :: y)) with (ntnl (35 :: y)). apply above_ntnl. exact Hab.
              ** unfold b. rewrite hier_before_fragment. cbn [qf_qtext]. rewrite app_nil_r.
                 cbn [qf_fs qf_qtext opt_le] in Bf. change (nlen []) with 0 in Bf. lia.
           ++ cbn [qf_text qf_qtext qf_ftext app].
              rewrite (join_empty dbg hp hpo hd b [] Hcb eq_refl).
              unfold without_fragment, b. rewrite hier_before_fragment. reflexivity.
      * destruct tlast as [|c l]; cbn [is_nil].
        -- specialize (F1 eq_refl eq_refl eq_refl eq_refl). subst common. cbn [app].
           apply Hroot; try reflexivity. intros ->. discriminate El.
        -- change ((c :: l) ++ qf_text tq tf) with ((dots_text [] ++ segs_text [] ++ c :: l) ++ qf_text tq tf).
           apply Hpath. right. right. split; [discriminate | reflexivity].
    + apply Hpath. right. left. discriminate.
  - apply Hpath. left. discriminate.
Qed.
End LawF.
