(* Proofs/C17_Bridge.v - pretend_parse_data_url is the front of the URL parser: when the URL parser
   model reads the scheme "data" from a string and leaves `rem`, pretend_parse_data_url on the UTF-8
   bytes of the same string returns the UTF-8 bytes of `rem` (same trimming, same tab / newline
   skipping, same case-insensitive scheme). *)
From RU Require Import Base.Prelude Base.Utf8 Base.Utf8Facts Model.AsciiSet Gen.Tables Model.PercentEncoding
  Model.HostT Model.UrlRecord Model.Parser Model.Mime Model.Base64 Model.DataUrl Model.DataUrlTie
  Proofs.C14_Enc Proofs.C02_Enc Proofs.C02_Parts Proofs.C17_Tables Proofs.C17_Total.

(* the two copies of drop_while / the C0-or-space class are the same functions *)
Lemma drop_while_same f l : DataUrl.drop_while f l = Parser.drop_while f l.
Proof. induction l as [|c r IH]; [reflexivity|]. cbn [DataUrl.drop_while Parser.drop_while]. rewrite IH. reflexivity. Qed.

Lemma c0sp_same c : DataUrl.is_c0_or_space c = Parser.is_c0_or_space c.
Proof. reflexivity. Qed.

Lemma drop_while_ext f g l : (forall c, f c = g c) -> DataUrl.drop_while f l = DataUrl.drop_while g l.
Proof. intros H. induction l as [|c r IH]; [reflexivity|]. cbn [DataUrl.drop_while]. rewrite H, IH. reflexivity. Qed.

(* ---- UTF-8 facts ---- *)
Lemma encode1_ascii c : c < 128 -> utf8_encode1 c = [c].
Proof. intros H. unfold utf8_encode1. replace (c <? 128) with true by lia. reflexivity. Qed.

Lemma utf8_cons c r : utf8_encode (c :: r) = utf8_encode1 c ++ utf8_encode r.
Proof. reflexivity. Qed.

Lemma encode1_all_above c k : is_usv c -> k <= c -> k <= 128 -> Forall (fun b => k <= b) (utf8_encode1 c).
Proof.
  intros Hu Hk Hk2. destruct (encode1_shape c Hu) as [[H1 H2]|[b [r [H2 [H3 H4]]]]]; rewrite H2.
  - constructor; [lia|constructor].
  - constructor; [lia|]. eapply Forall_impl; [|exact H4]. cbv beta. intros; lia.
Qed.

(* trimming the chars = trimming the bytes *)
Lemma du_trim_start_chars s : usv_list s ->
  DataUrl.drop_while DataUrl.is_c0_or_space (utf8_encode s) = utf8_encode (Parser.drop_while Parser.is_c0_or_space s).
Proof.
  induction s as [|c r IH]; intros H; [reflexivity|]. inversion H as [|? ? Hc Hr]; subst.
  cbn [Parser.drop_while]. rewrite utf8_cons. unfold Parser.is_c0_or_space at 1.
  destruct (c <=? 32) eqn:E.
  - rewrite encode1_ascii by lia. cbn [app DataUrl.drop_while]. unfold DataUrl.is_c0_or_space at 1.
    change T_DU_TRIM_MAX with 32. rewrite E. exact (IH Hr).
  - rewrite utf8_cons. pose proof (encode1_all_above c 33 Hc ltac:(lia) ltac:(lia)) as Ha.
    destruct (utf8_encode1 c) as [|b bs] eqn:Eb.
    + exfalso. destruct (encode1_shape c Hc) as [[_ H2]|[b [r' [H2 _]]]]; rewrite Eb in H2; discriminate.
    + cbn [app DataUrl.drop_while]. inversion Ha; subst. unfold DataUrl.is_c0_or_space at 1.
      change T_DU_TRIM_MAX with 32. replace (b <=? 32) with false by lia. reflexivity.
Qed.

Lemma drop_while_end_app_all f x y : forallb f y = true -> drop_while_end f (x ++ y) = drop_while_end f x.
Proof.
  intros H. unfold drop_while_end. rewrite rev_app_distr. f_equal.
  assert (Hr : forallb f (rev y) = true).
  { apply forallb_forall. intros a Ha. apply in_rev in Ha. rewrite forallb_forall in H. exact (H a Ha). }
  clear H. induction (rev y) as [|a l IH]; [reflexivity|]. cbn [app DataUrl.drop_while forallb] in *.
  apply andb_true_iff in Hr. destruct Hr as [H1 H2]. rewrite H1. exact (IH H2).
Qed.

Lemma drop_while_end_id f x : match rev x with [] => True | c :: _ => f c = false end -> drop_while_end f x = x.
Proof.
  intros H. unfold drop_while_end. destruct (rev x) as [|c r] eqn:E.
  - cbn. rewrite <- (rev_involutive x), E. reflexivity.
  - cbn [DataUrl.drop_while]. rewrite H, <- E. apply rev_involutive.
Qed.

Lemma rev_utf8_last r z : is_usv z -> 32 < z ->
  match rev (utf8_encode (r ++ [z])) with [] => True | b :: _ => DataUrl.is_c0_or_space b = false end.
Proof.
  intros Hz Hgt. rewrite utf8_encode_app, rev_app_distr. unfold utf8_encode at 1. cbn [flat_map]. rewrite app_nil_r.
  pose proof (encode1_all_above z 33 Hz ltac:(lia) ltac:(lia)) as Ha.
  destruct (rev (utf8_encode1 z)) as [|b bs] eqn:Eb.
  - exfalso. apply (f_equal (@rev N)) in Eb. rewrite rev_involutive in Eb. cbn [rev] in Eb.
    destruct (encode1_shape z Hz) as [[_ H2]|[b [r' [H2 _]]]]; rewrite Eb in H2; discriminate.
  - cbn [app]. assert (Hin : In b (utf8_encode1 z)) by (apply in_rev; rewrite Eb; left; reflexivity).
    rewrite Forall_forall in Ha. specialize (Ha b Hin). unfold DataUrl.is_c0_or_space. change T_DU_TRIM_MAX with 32. lia.
Qed.

(* ---- the scheme scan ---- *)
Definition scan_letters (letters : list N) (lt : list N) : option (list N) :=
  match require_scheme letters lt with
  | Some b1 => match filter_next b1 with
               | Some (b, r) => if b =? T_DU_COLON then Some r else None
               | None => None
               end
  | None => None
  end.

Lemma scan_letters_skip letters c r : tnl c = true -> scan_letters letters (c :: r) = scan_letters letters r.
Proof.
  intros Ht. unfold scan_letters. destruct letters as [|x ls]; cbn [require_scheme filter_next];
    rewrite is_skipped_spec, Ht; reflexivity.
Qed.

Lemma scan_letters_match x ls c r : tnl c = false -> byte_eq_ignore_ascii_case c x = true ->
  scan_letters (x :: ls) (c :: r) = scan_letters ls r.
Proof.
  intros Ht He. unfold scan_letters. cbn [require_scheme filter_next]. rewrite is_skipped_spec, Ht, He. reflexivity.
Qed.

Lemma is_tnl_tnl c : Parser.is_tnl c = tnl c.
Proof. reflexivity. Qed.

Lemma scan_of_parse_scheme : forall l acc letters rem Z,
  parse_scheme_loop CUrlParser acc l = Some (rev acc ++ letters, rem) ->
  scan_letters letters (utf8_encode l ++ Z) = Some (utf8_encode rem ++ Z).
Proof.
  induction l as [|c r IH]; intros acc letters rem Z H; cbn [parse_scheme_loop] in H.
  - cbn [ctx_eqb] in H. discriminate.
  - destruct (is_tnl c) eqn:Et.
    { rewrite utf8_cons, encode1_ascii by (unfold is_tnl in Et; lia). cbn [app].
      rewrite scan_letters_skip by (rewrite <- is_tnl_tnl; exact Et). exact (IH _ _ _ _ H). }
    destruct (is_lower c || is_digit c || (c =? 43) || (c =? 45) || (c =? 46)) eqn:E1.
    { destruct (parse_scheme_loop_out _ _ _ _ H) as (s' & Hs & _). cbn [rev] in Hs.
      rewrite <- app_assoc in Hs. apply app_inv_head in Hs. cbn [app] in Hs. subst letters.
      rewrite utf8_cons, encode1_ascii by (unfold is_lower, is_digit in E1; lia). cbn [app].
      rewrite scan_letters_match; [|rewrite <- is_tnl_tnl; exact Et|unfold byte_eq_ignore_ascii_case; apply N.eqb_refl].
      apply (IH (c :: acc)). cbn [rev]. rewrite <- app_assoc. exact H. }
    destruct (is_upper c) eqn:E2.
    { destruct (parse_scheme_loop_out _ _ _ _ H) as (s' & Hs & _). cbn [rev] in Hs.
      rewrite <- app_assoc in Hs. apply app_inv_head in Hs. cbn [app] in Hs. subst letters.
      rewrite utf8_cons, encode1_ascii by (unfold is_upper in E2; lia). cbn [app].
      rewrite scan_letters_match; [|rewrite <- is_tnl_tnl; exact Et|].
      - apply (IH ((c + 32) :: acc)). cbn [rev]. rewrite <- app_assoc. exact H.
      - unfold byte_eq_ignore_ascii_case, to_lower. rewrite E2.
        replace (is_upper (c + 32)) with false by (unfold is_upper in *; lia). apply N.eqb_refl. }
    destruct (c =? 58) eqn:E3; [|discriminate]. apply N.eqb_eq in E3. subst c.
    injection H as Hl Hr. subst rem.
    assert (letters = []) as ->.
    { apply (f_equal (@length N)) in Hl. rewrite app_length in Hl. destruct letters; [reflexivity|cbn [length] in Hl; lia]. }
    rewrite utf8_cons, encode1_ascii by lia. cbn [app]. unfold scan_letters. cbn [require_scheme filter_next].
    rewrite is_skipped_spec. change (tnl 58) with false. cbv iota. change (58 =? T_DU_COLON) with true. reflexivity.
Qed.

(* ---- pretend_parse_data_url, evaluated ---- *)
Lemma pretend_parse_eval input : after_ascii_ok input ->
  pretend_parse_data_url input =
  Ok (option_map (drop_while_end DataUrl.is_c0_or_space)
        (scan_letters T_DU_SCHEME (DataUrl.drop_while DataUrl.is_c0_or_space input))).
Proof.
  intros Hok. unfold pretend_parse_data_url, scan_letters.
  destruct (drop_while_suffix DataUrl.is_c0_or_space input) as [p0 H0].
  set (lt := DataUrl.drop_while DataUrl.is_c0_or_space input) in *.
  assert (Hlt : after_ascii_ok lt) by (rewrite H0 in Hok; exact (after_ascii_ok_app_r _ _ Hok)).
  clearbody lt.
  destruct (require_scheme T_DU_SCHEME lt) as [b1|] eqn:E1; [|reflexivity].
  destruct (filter_next b1) as [[b bytes]|] eqn:E2; [|reflexivity].
  destruct (b =? T_DU_COLON) eqn:E3; cbn [negb]; [|reflexivity].
  apply N.eqb_eq in E3. subst b.
  destruct (require_scheme_split _ _ _ E1) as [p1 H1]. destruct (filter_next_split _ _ _ E2) as [p2 H2].
  assert (Hsplit : lt = (p1 ++ p2) ++ T_DU_COLON :: bytes) by (rewrite H1, H2, <- app_assoc; reflexivity).
  assert (Hidx : (length lt - length bytes)%nat = S (length (p1 ++ p2))).
  { assert (Hl : length lt = (length (p1 ++ p2) + S (length bytes))%nat) by (rewrite Hsplit, app_length; reflexivity).
    lia. }
  rewrite Hidx. unfold slice_from.
  assert (Hb : is_char_boundary lt (S (length (p1 ++ p2))) = true).
  { rewrite Hsplit. apply boundary_after_ascii; [rewrite <- Hsplit; exact Hlt|reflexivity]. }
  rewrite Hb. cbn [bind option_map].
  assert (Hsk : skipn (S (length (p1 ++ p2))) lt = bytes).
  { rewrite Hsplit. replace (S (length (p1 ++ p2))) with (length ((p1 ++ p2) ++ [T_DU_COLON])) by (rewrite app_length; cbn [length]; lia).
    replace ((p1 ++ p2) ++ T_DU_COLON :: bytes) with (((p1 ++ p2) ++ [T_DU_COLON]) ++ bytes) by (rewrite <- app_assoc; reflexivity).
    rewrite skipn_app, skipn_all, Nat.sub_diag. reflexivity. }
  rewrite Hsk. reflexivity.
Qed.

(* ---- the bridge ---- *)
Theorem pretend_parse_is_parse_scheme s rem : usv_list s ->
  parse_scheme CUrlParser (input_new_trim_c0 s) = Some (s_data, rem) ->
  pretend_parse_data_url (utf8_encode s) = Ok (Some (utf8_encode rem)).
Proof.
  intros Hs Hp. rewrite pretend_parse_eval by (apply utf8_encode_after_ascii; exact Hs).
  rewrite du_trim_start_chars by exact Hs.
  (* the trimmed text and the trailing C0 / space run *)
  unfold input_new_trim_c0, Parser.trim_matches in Hp.
  set (m := Parser.drop_while Parser.is_c0_or_space s) in *.
  destruct (drop_while_spec Parser.is_c0_or_space (rev m)) as (a & Ha & Hall & Hd).
  set (d := Parser.drop_while Parser.is_c0_or_space (rev m)) in *.
  assert (Em : m = rev d ++ rev a) by (rewrite <- rev_app_distr, <- Ha; symmetry; apply rev_involutive).
  (* rem is a suffix of the trimmed text *)
  destruct (parse_scheme_suffix _ _ _ _ Hp) as [pre Hpre].
  unfold parse_scheme in Hp. destruct (inp_starts_with_pred is_alpha (rev d)) eqn:Ealpha; [|discriminate Hp].
  pose proof (scan_of_parse_scheme (rev d) [] s_data rem (utf8_encode (rev a)) Hp) as Hscan.
  rewrite Em, utf8_encode_app. change T_DU_SCHEME with s_data. rewrite Hscan. cbn [option_map]. do 2 f_equal.
  (* the trailing run is dropped, nothing of rem is *)
  assert (Hua : usv_list (rev a) /\ forallb DataUrl.is_c0_or_space (rev a) = true).
  { split.
    - apply Forall_forall. intros x Hx. apply in_rev in Hx. rewrite forallb_forall in Hall.
      specialize (Hall x Hx). unfold Parser.is_c0_or_space, is_usv in *. lia.
    - apply forallb_forall. intros x Hx. apply in_rev in Hx. rewrite forallb_forall in Hall. exact (Hall x Hx). }
  destruct Hua as [Hua Hca].
  assert (Haa : utf8_encode (rev a) = rev a).
  { apply utf8_encode_ascii. apply Forall_forall. intros x Hx. rewrite forallb_forall in Hca.
    specialize (Hca x Hx). unfold DataUrl.is_c0_or_space, is_ascii in *. change T_DU_TRIM_MAX with 32 in Hca. lia. }
  rewrite Haa, drop_while_end_app_all by exact Hca.
  apply drop_while_end_id.
  (* last code point of rem *)
  assert (Hur : usv_list rem).
  { assert (Hum : usv_list m).
    { destruct (drop_while_spec Parser.is_c0_or_space s) as (a0 & Ha0 & _). fold m in Ha0.
      rewrite Ha0 in Hs. apply Forall_app in Hs. tauto. }
    rewrite Em in Hum. apply Forall_app in Hum. destruct Hum as [Hum _]. rewrite Hpre in Hum.
    apply Forall_app in Hum. tauto. }
  assert (Hlast : first_ok (rev rem)).
  { apply (first_ok_rev_suffix pre). rewrite <- Hpre, rev_involutive. exact Hd. }
  destruct (rev rem) as [|z y] eqn:Er.
  - assert (rem = []) by (rewrite <- (rev_involutive rem), Er; reflexivity). subst rem. exact I.
  - assert (Erem : rem = rev y ++ [z]) by (rewrite <- (rev_involutive rem), Er; reflexivity).
    rewrite Erem. apply rev_utf8_last.
    + rewrite Erem in Hur. apply Forall_app in Hur. destruct Hur as [_ Hz]. inversion Hz; assumption.
    + cbn [first_ok] in Hlast. unfold Parser.is_c0_or_space in Hlast. lia.
Qed.
