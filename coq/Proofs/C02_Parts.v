(* Proofs/C02_Parts.v - what the component states of the parser compute (scheme, opaque path,
   query, fragment), for every input, and what they compute on canonical text (their own output). *)
From RU Require Import Base.Prelude Base.Utf8 Base.Utf8Facts Model.AsciiSet Gen.Tables
  Model.PercentEncoding Model.HostT Model.UrlRecord Model.Parser
  Proofs.ListN Proofs.C14_Set Proofs.C14_Enc Proofs.C14_Views Proofs.C02_Enc.

(* ---------- small helpers ---------- *)
Lemma usv_cons c l : usv_list (c :: l) <-> is_usv c /\ usv_list l.
Proof. unfold usv_list. split; [intros H; inversion H; tauto | intros [H1 H2]; constructor; assumption]. Qed.

Lemma usv_app a b : usv_list (a ++ b) <-> usv_list a /\ usv_list b.
Proof. unfold usv_list. apply Forall_app. Qed.

Lemma usv_rev l : usv_list l -> usv_list (rev l).
Proof. unfold usv_list. apply Forall_rev. Qed.

Lemma pe_display_utf8 S s : usv_list s -> pe_display S (utf8_encode s) = encode S (utf8_encode s).
Proof. intros H. apply pe_display_is_encode. apply utf8_encode_bytes. exact H. Qed.

Lemma push_encoded_eq S ser s : usv_list s -> push_encoded S ser s = ser ++ encode S (utf8_encode s).
Proof. intros H. unfold push_encoded. rewrite pe_display_utf8 by exact H. reflexivity. Qed.

Lemma flush_part_eq S ser part : usv_list part ->
  flush_part S utf8_encode ser part = ser ++ encode S (utf8_encode (rev part)).
Proof. intros H. unfold flush_part. rewrite pe_display_utf8 by (apply usv_rev; exact H). reflexivity. Qed.

Lemma enc_utf8_app S a b : encode S (utf8_encode (a ++ b)) = encode S (utf8_encode a) ++ encode S (utf8_encode b).
Proof. rewrite utf8_encode_app. apply encode_app. Qed.

(* a sweep over the ASCII range: every byte the set keeps satisfies Q *)
Definition kept_sat (S : aset) (Q : N -> bool) : bool := all_below 128 (fun b => implb (kept S b) (Q b)).

Lemma clean_forallb S Q t : kept_sat S Q = true -> clean S t = true -> forallb Q t = true.
Proof.
  unfold kept_sat. intros HS.
  assert (forall b, kept S b = true -> Q b = true) as HQ.
  { intros b Hk. pose proof (all_below_spec 128 (fun b => implb (kept S b) (Q b)) HS b (kept_ascii S b Hk)) as H.
    cbv beta in H. rewrite Hk in H. exact H. }
  clear HS. induction t as [|b t IH]; intros H; [reflexivity|].
  rewrite clean_cons in H. apply andb_true_iff in H. destruct H as [H1 H2].
  cbn [forallb]. rewrite (IH H2), andb_true_r. exact (HQ b H1).
Qed.

Lemma inp_next_cons c r : is_tnl c = false -> inp_next (c :: r) = Some (c, r).
Proof. intros H. unfold inp_next. cbn [drop_while]. rewrite H. reflexivity. Qed.

Lemma inp_next_tnl c r : is_tnl c = true -> inp_next (c :: r) = inp_next r.
Proof. intros H. unfold inp_next. cbn [drop_while]. rewrite H. reflexivity. Qed.

Lemma inp_next_nil : inp_next [] = None.
Proof. reflexivity. Qed.

(* ================= scheme ================= *)
Definition scheme_out_char (c : N) : bool := is_lower c || is_digit c || (c =? 43) || (c =? 45) || (c =? 46).
Definition scheme_canon (s : list N) : bool :=
  match s with c :: _ => is_lower c | [] => false end && forallb scheme_out_char s.

Lemma scheme_out_char_not_tnl c : scheme_out_char c = true -> is_tnl c = false.
Proof. unfold scheme_out_char, is_tnl, is_lower, is_digit. lia. Qed.

Lemma parse_scheme_loop_canon ctx sch : forall acc r, forallb scheme_out_char sch = true ->
  parse_scheme_loop ctx acc (sch ++ 58 :: r) = Some (rev acc ++ sch, r).
Proof.
  induction sch as [|c s IH]; intros acc r H.
  - cbn [app parse_scheme_loop].
    replace (is_tnl 58) with false by reflexivity.
    replace (is_lower 58 || is_digit 58 || (58 =? 43) || (58 =? 45) || (58 =? 46)) with false by reflexivity.
    replace (is_upper 58) with false by reflexivity.
    replace (58 =? 58) with true by reflexivity. rewrite app_nil_r. reflexivity.
  - cbn [forallb] in H. apply andb_true_iff in H. destruct H as [H1 H2].
    cbn [app parse_scheme_loop]. rewrite (scheme_out_char_not_tnl c H1).
    unfold scheme_out_char in H1. rewrite H1. rewrite IH by exact H2.
    cbn [rev]. rewrite <- app_assoc. reflexivity.
Qed.

Theorem parse_scheme_canon sch r : scheme_canon sch = true ->
  parse_scheme CUrlParser (sch ++ 58 :: r) = Some (sch, r).
Proof.
  unfold scheme_canon. intros H. apply andb_true_iff in H. destruct H as [H1 H2].
  destruct sch as [|c s]; [discriminate|].
  unfold parse_scheme, inp_starts_with_pred.
  assert (is_tnl c = false) as Ht by (unfold is_lower, is_tnl in *; lia).
  cbn [app]. rewrite inp_next_cons by exact Ht.
  replace (is_alpha c) with true by (unfold is_alpha; rewrite H1; symmetry; apply orb_true_r).
  change (c :: s ++ 58 :: r) with ((c :: s) ++ 58 :: r).
  rewrite parse_scheme_loop_canon by exact H2. reflexivity.
Qed.

(* what the scheme state produces from any input *)
Lemma parse_scheme_loop_out l : forall acc sch rem,
  parse_scheme_loop CUrlParser acc l = Some (sch, rem) ->
  exists s', sch = rev acc ++ s' /\ forallb scheme_out_char s' = true.
Proof.
  induction l as [|c r IH]; intros acc sch rem H; cbn [parse_scheme_loop] in H.
  - cbn [ctx_eqb] in H. discriminate.
  - destruct (is_tnl c) eqn:Et; [exact (IH _ _ _ H)|].
    destruct (is_lower c || is_digit c || (c =? 43) || (c =? 45) || (c =? 46)) eqn:E1.
    + destruct (IH _ _ _ H) as (s' & Hs & Hf). exists (c :: s'). split.
      * rewrite Hs. cbn [rev]. rewrite <- app_assoc. reflexivity.
      * cbn [forallb]. unfold scheme_out_char at 1. rewrite E1, Hf. reflexivity.
    + destruct (is_upper c) eqn:E2.
      * destruct (IH _ _ _ H) as (s' & Hs & Hf). exists ((c + 32) :: s'). split.
        -- rewrite Hs. cbn [rev]. rewrite <- app_assoc. reflexivity.
        -- cbn [forallb]. rewrite Hf, andb_true_r. unfold scheme_out_char, is_lower, is_upper in *. lia.
      * destruct (c =? 58); [|discriminate]. inversion H; subst. exists []. split; [rewrite app_nil_r; reflexivity | reflexivity].
Qed.

Lemma parse_scheme_head l : forall sch rem,
  inp_starts_with_pred is_alpha l = true -> parse_scheme_loop CUrlParser [] l = Some (sch, rem) ->
  match sch with c :: _ => is_lower c = true | [] => False end.
Proof.
  induction l as [|c r IH]; intros sch rem Ha H.
  - discriminate.
  - unfold inp_starts_with_pred in Ha. cbn [parse_scheme_loop] in H.
    destruct (is_tnl c) eqn:Et.
    + rewrite inp_next_tnl in Ha by exact Et. exact (IH _ _ Ha H).
    + rewrite inp_next_cons in Ha by exact Et.
      destruct (is_lower c || is_digit c || (c =? 43) || (c =? 45) || (c =? 46)) eqn:E1.
      * destruct (parse_scheme_loop_out _ _ _ _ H) as (s' & Hs & _). rewrite Hs. cbn [rev app].
        unfold is_alpha, is_upper, is_lower, is_digit in *. lia.
      * destruct (is_upper c) eqn:E2.
        -- destruct (parse_scheme_loop_out _ _ _ _ H) as (s' & Hs & _). rewrite Hs. cbn [rev app].
           unfold is_upper, is_lower in *. lia.
        -- exfalso. unfold is_alpha in Ha. rewrite E2 in Ha. cbn [orb] in Ha.
           rewrite Ha in E1. discriminate.
Qed.

Theorem parse_scheme_out l sch rem :
  parse_scheme CUrlParser l = Some (sch, rem) -> scheme_canon sch = true.
Proof.
  unfold parse_scheme. destruct (inp_starts_with_pred is_alpha l) eqn:Ea; [|discriminate].
  intros H. unfold scheme_canon.
  pose proof (parse_scheme_head l sch rem Ea H) as Hh.
  destruct (parse_scheme_loop_out _ _ _ _ H) as (s' & Hs & Hf). cbn [rev app] in Hs. subst s'.
  destruct sch as [|c s]; [contradiction|]. rewrite Hh, Hf. reflexivity.
Qed.

(* the remaining input is a suffix of the input, so it inherits the last character *)
Lemma parse_scheme_loop_suffix ctx l : forall acc sch rem,
  parse_scheme_loop ctx acc l = Some (sch, rem) -> exists pre, l = pre ++ rem.
Proof.
  induction l as [|c r IH]; intros acc sch rem H; cbn [parse_scheme_loop] in H.
  - destruct (ctx_eqb ctx CSetter); [|discriminate]. inversion H; subst. exists []. reflexivity.
  - destruct (is_tnl c).
    { destruct (IH _ _ _ H) as [pre Hp]. exists (c :: pre). cbn [app]. f_equal. exact Hp. }
    destruct (is_lower c || is_digit c || (c =? 43) || (c =? 45) || (c =? 46)).
    { destruct (IH _ _ _ H) as [pre Hp]. exists (c :: pre). cbn [app]. f_equal. exact Hp. }
    destruct (is_upper c).
    { destruct (IH _ _ _ H) as [pre Hp]. exists (c :: pre). cbn [app]. f_equal. exact Hp. }
    destruct (c =? 58); [|discriminate]. inversion H; subst. exists [c]. reflexivity.
Qed.

Lemma parse_scheme_suffix ctx l sch rem : parse_scheme ctx l = Some (sch, rem) -> exists pre, l = pre ++ rem.
Proof.
  unfold parse_scheme. destruct (inp_starts_with_pred is_alpha l); [|discriminate].
  apply parse_scheme_loop_suffix.
Qed.

(* ================= fragment ================= *)
Definition strip_tnl (l : list N) : list N := filter not_tnl l.

Lemma strip_tnl_id t : forallb not_tnl t = true -> strip_tnl t = t.
Proof.
  induction t as [|c t IH]; intros H; [reflexivity|].
  cbn [forallb] in H. apply andb_true_iff in H. destruct H as [H1 H2].
  unfold strip_tnl. cbn [filter]. rewrite H1. f_equal. exact (IH H2).
Qed.

Lemma usv_strip l : usv_list l -> usv_list (strip_tnl l).
Proof.
  unfold usv_list, strip_tnl. intros H. apply Forall_forall. intros x Hx.
  apply filter_In in Hx. rewrite Forall_forall in H. apply H. tauto.
Qed.

Lemma parse_fragment_loop_spec l : forall ser part, usv_list part -> usv_list l ->
  parse_fragment_loop ser part l = ser ++ encode T_FRAGMENT (utf8_encode (rev part ++ strip_tnl l)).
Proof.
  induction l as [|c r IH]; intros ser part Hp Hl.
  - cbn [parse_fragment_loop strip_tnl filter]. rewrite app_nil_r.
    destruct part as [|x y]; [cbn; rewrite app_nil_r; reflexivity|].
    apply flush_part_eq. exact Hp.
  - apply usv_cons in Hl. destruct Hl as [Hc Hr]. cbn [parse_fragment_loop].
    unfold strip_tnl. cbn [filter]. unfold not_tnl at 1. destruct (is_tnl c) eqn:Et; cbn [negb].
    + rewrite IH by (try constructor; assumption). rewrite flush_part_eq by exact Hp.
      cbn [rev app]. rewrite <- app_assoc. rewrite <- enc_utf8_app. reflexivity.
    + rewrite IH by (try (apply usv_cons; split); assumption).
      cbn [rev]. rewrite <- app_assoc. reflexivity.
Qed.

Definition frag_of (l : list N) : list N := encode T_FRAGMENT (utf8_encode (strip_tnl l)).

Theorem parse_fragment_spec ser l : usv_list l -> parse_fragment ser l = ser ++ frag_of l.
Proof. intros H. unfold parse_fragment. rewrite parse_fragment_loop_spec by (try constructor; exact H). reflexivity. Qed.

Lemma frag_of_clean l : usv_list l -> clean T_FRAGMENT (frag_of l) = true.
Proof.
  intros H. apply encode_is_clean; [exact stable_FRAGMENT|]. apply utf8_encode_bytes. apply usv_strip. exact H.
Qed.

Theorem frag_of_canon t : clean T_FRAGMENT t = true -> frag_of t = t.
Proof.
  intros H. unfold frag_of.
  rewrite strip_tnl_id by (apply (clean_no_tnl T_FRAGMENT); [exact tnl_FRAGMENT | exact H]).
  rewrite utf8_encode_ascii by (apply (clean_ascii T_FRAGMENT); exact H).
  apply encode_clean. exact H.
Qed.

(* ================= query ================= *)
Fixpoint query_chars (stop : bool) (l : list N) : list N :=
  match l with
  | [] => []
  | c :: r => if is_tnl c then query_chars stop r
              else if (c =? 35) && stop then [] else c :: query_chars stop r
  end.
Fixpoint query_rest (stop : bool) (l : list N) : option (list N) :=
  match l with
  | [] => None
  | c :: r => if is_tnl c then query_rest stop r
              else if (c =? 35) && stop then Some r else query_rest stop r
  end.

Lemma usv_query_chars stop l : usv_list l -> usv_list (query_chars stop l).
Proof.
  induction l as [|c r IH]; intros H; [constructor|].
  apply usv_cons in H. destruct H as [Hc Hr]. cbn [query_chars].
  destruct (is_tnl c); [exact (IH Hr)|]. destruct ((c =? 35) && stop); [constructor|].
  apply usv_cons. split; [exact Hc | exact (IH Hr)].
Qed.

Lemma usv_query_rest stop l r : usv_list l -> query_rest stop l = Some r -> usv_list r.
Proof.
  induction l as [|c t IH]; intros H E; [discriminate|].
  apply usv_cons in H. destruct H as [Hc Hr]. cbn [query_rest] in E.
  destruct (is_tnl c); [exact (IH Hr E)|]. destruct ((c =? 35) && stop); [inversion E; subst; exact Hr | exact (IH Hr E)].
Qed.

Lemma parse_query_loop_spec S stop l : forall ser part, usv_list part -> usv_list l ->
  parse_query_loop S utf8_encode stop ser part l
  = (ser ++ encode S (utf8_encode (rev part ++ query_chars stop l)), query_rest stop l).
Proof.
  induction l as [|c r IH]; intros ser part Hp Hl.
  - cbn [parse_query_loop query_chars query_rest]. rewrite app_nil_r.
    destruct part as [|x y]; [cbn; rewrite app_nil_r; reflexivity|].
    rewrite flush_part_eq by exact Hp. reflexivity.
  - apply usv_cons in Hl. destruct Hl as [Hc Hr]. cbn [parse_query_loop query_chars query_rest].
    destruct (is_tnl c) eqn:Et.
    + rewrite IH by (try constructor; assumption). rewrite flush_part_eq by exact Hp.
      cbn [rev app]. rewrite <- app_assoc, <- enc_utf8_app. reflexivity.
    + destruct ((c =? 35) && stop) eqn:E.
      * rewrite flush_part_eq by exact Hp. rewrite app_nil_r. reflexivity.
      * rewrite IH by (try (apply usv_cons; split); assumption).
        cbn [rev]. rewrite <- app_assoc. reflexivity.
Qed.

Definition query_of (st : scheme_type) (l : list N) : list N :=
  encode (query_set st) (utf8_encode (query_chars true l)).

Lemma stable_query_set st : set_stable (query_set st) = true.
Proof. unfold query_set. destruct (st_is_special st); [exact stable_SPECIAL_QUERY | exact stable_QUERY]. Qed.
Lemma tnl_query_set st : set_has_tnl (query_set st) = true.
Proof. unfold query_set. destruct (st_is_special st); [exact tnl_SPECIAL_QUERY | exact tnl_QUERY]. Qed.

Lemma query_of_clean st l : usv_list l -> clean (query_set st) (query_of st l) = true.
Proof.
  intros H. apply encode_is_clean; [apply stable_query_set|].
  apply utf8_encode_bytes. apply usv_query_chars. exact H.
Qed.

Definition not_tnl_hash (c : N) : bool := not_tnl c && negb (c =? 35).

Lemma query_chars_canon t : forallb not_tnl_hash t = true ->
  (query_chars true t = t /\ query_rest true t = None)
  /\ (forall r, query_chars true (t ++ 35 :: r) = t /\ query_rest true (t ++ 35 :: r) = Some r).
Proof.
  induction t as [|c t IH]; intros H.
  - split; [split; reflexivity|]. intros r. cbn [app query_chars query_rest].
    replace (is_tnl 35) with false by reflexivity. replace ((35 =? 35) && true) with true by reflexivity.
    split; reflexivity.
  - cbn [forallb] in H. apply andb_true_iff in H. destruct H as [H1 H2].
    destruct (IH H2) as [[I1 I2] I3]. unfold not_tnl_hash, not_tnl in H1.
    assert (is_tnl c = false) as Et by (destruct (is_tnl c); [discriminate | reflexivity]).
    assert ((c =? 35) && true = false) as E35 by (rewrite Et in H1; cbn [negb andb] in H1; destruct (c =? 35); [discriminate|reflexivity]).
    split; [split|intros r; destruct (I3 r) as [J1 J2]; split]; cbn [app query_chars query_rest]; rewrite Et, E35; congruence.
Qed.

Lemma kept_QUERY_sat : kept_sat T_QUERY not_tnl_hash = true. Proof. vm_compute. reflexivity. Qed.
Lemma kept_SQUERY_sat : kept_sat T_SPECIAL_QUERY not_tnl_hash = true. Proof. vm_compute. reflexivity. Qed.
Lemma kept_query_set_sat st : kept_sat (query_set st) not_tnl_hash = true.
Proof. unfold query_set. destruct (st_is_special st); [exact kept_SQUERY_sat | exact kept_QUERY_sat]. Qed.

Theorem query_of_canon st t : clean (query_set st) t = true ->
  query_of st t = t /\ query_rest true t = None
  /\ (forall r, query_of st (t ++ 35 :: r) = t /\ query_rest true (t ++ 35 :: r) = Some r).
Proof.
  intros H.
  pose proof (clean_forallb _ _ t (kept_query_set_sat st) H) as Hq.
  destruct (query_chars_canon t Hq) as [[I1 I2] I3].
  assert (encode (query_set st) (utf8_encode t) = t) as He.
  { rewrite utf8_encode_ascii by (apply (clean_ascii (query_set st)); exact H). apply encode_clean. exact H. }
  unfold query_of. rewrite I1. split; [exact He|]. split; [exact I2|].
  intros r. destruct (I3 r) as [J1 J2]. rewrite J1. split; [exact He | exact J2].
Qed.

(* ================= query and fragment ================= *)
Definition qf_qtext (q : option (list N)) : list N := match q with Some x => 63 :: x | None => [] end.
Definition qf_ftext (f : option (list N)) : list N := match f with Some x => 35 :: x | None => [] end.
Definition qf_text (q f : option (list N)) : list N := qf_qtext q ++ qf_ftext f.
Definition qf_qs (n : N) (q : option (list N)) : option N := match q with Some _ => Some n | None => None end.
Definition qf_fs (n : N) (q f : option (list N)) : option N :=
  match f with Some _ => Some (n + nlen (qf_qtext q)) | None => None end.
Definition opt_le (o : option N) (m : N) : Prop := match o with Some n => n <= m | None => True end.
Definition opt_clean (S : aset) (o : option (list N)) : Prop :=
  match o with Some x => clean S x = true | None => True end.

(* query / fragment texts a given remaining input leads to *)
Definition pqf_q (st : scheme_type) (l : list N) : option (list N) :=
  match inp_next l with
  | Some (c, r) => if c =? 63 then Some (query_of st r) else None
  | None => None
  end.
Definition pqf_f (l : list N) : option (list N) :=
  match inp_next l with
  | Some (c, r) => if c =? 35 then Some (frag_of r)
                   else if c =? 63 then option_map frag_of (query_rest true r) else None
  | None => None
  end.

Lemma to_u32_ok n : n <= U32_MAX_P -> to_u32 n = POk n.
Proof. intros H. unfold to_u32. replace (n <=? U32_MAX_P) with true by lia. reflexivity. Qed.

Lemma to_u32_inv n m : to_u32 n = POk m -> m = n /\ n <= U32_MAX_P.
Proof. unfold to_u32. destruct (n <=? U32_MAX_P) eqn:E; [|discriminate]. intros H. inversion H. lia. Qed.

Lemma inp_next_usv l c r : usv_list l -> inp_next l = Some (c, r) -> usv_list r.
Proof.
  induction l as [|x t IH]; intros H E; [discriminate|].
  apply usv_cons in H. destruct H as [Hx Ht].
  destruct (is_tnl x) eqn:Et.
  - rewrite inp_next_tnl in E by exact Et. exact (IH Ht E).
  - rewrite inp_next_cons in E by exact Et. inversion E; subst. exact Ht.
Qed.

Section QF.
Variable ovr : option (list N -> list N).
Variable st : scheme_type.
Variable se : N.

Theorem pqf_out ser l s' qs fs : usv_list l ->
  query_enc ovr (nfirstn se (ser ++ [63])) = utf8_encode ->
  parse_query_and_fragment ovr CUrlParser st se ser l = POk (s', qs, fs) ->
  s' = ser ++ qf_text (pqf_q st l) (pqf_f l)
  /\ qs = qf_qs (nlen ser) (pqf_q st l) /\ fs = qf_fs (nlen ser) (pqf_q st l) (pqf_f l)
  /\ opt_le qs U32_MAX_P /\ opt_le fs U32_MAX_P
  /\ opt_clean (query_set st) (pqf_q st l) /\ opt_clean T_FRAGMENT (pqf_f l).
Proof.
  intros Hl Henc. unfold parse_query_and_fragment, pqf_q, pqf_f.
  destruct (inp_next l) as [[c r]|] eqn:En.
  2:{ intros H. inversion H; subst. unfold qf_text. cbn. rewrite app_nil_r. repeat split. }
  pose proof (inp_next_usv l c r Hl En) as Hr.
  destruct (c =? 35) eqn:E35.
  - assert ((c =? 63) = false) as E63 by (apply N.eqb_eq in E35; subst c; reflexivity). rewrite E63.
    destruct (to_u32 (nlen ser)) as [n| |] eqn:Eu; cbn [pbind]; try discriminate.
    apply to_u32_inv in Eu. destruct Eu as [-> Hb].
    intros H. inversion H; subst. rewrite parse_fragment_spec by exact Hr.
    unfold qf_text. cbn [qf_qtext qf_ftext qf_qs qf_fs app nlen length opt_le opt_clean].
    rewrite <- app_assoc. repeat split; try assumption; try (f_equal; unfold nlen; cbn; lia).
    apply frag_of_clean. exact Hr.
  - destruct (c =? 63) eqn:E63; [|discriminate].
    destruct (to_u32 (nlen ser)) as [n| |] eqn:Eu; cbn [pbind]; try discriminate.
    apply to_u32_inv in Eu. destruct Eu as [-> Hb].
    unfold parse_query. rewrite Henc. cbn [ctx_eqb].
    rewrite parse_query_loop_spec by (try constructor; exact Hr). cbn [rev app].
    fold (query_of st r).
    destruct (query_rest true r) as [r2|] eqn:Eq.
    + pose proof (usv_query_rest true r r2 Hr Eq) as Hr2.
      destruct (to_u32 (nlen ((ser ++ [63]) ++ query_of st r))) as [n| |] eqn:Eu2; cbn [pbind]; try discriminate.
      apply to_u32_inv in Eu2. destruct Eu2 as [-> Hb2].
      intros H. inversion H; subst. rewrite parse_fragment_spec by exact Hr2.
      unfold qf_text. cbn [option_map qf_qtext qf_ftext qf_qs qf_fs opt_le opt_clean].
      rewrite !nlen_app in *. rewrite nlen_cons.
      repeat split; try assumption;
        try (apply query_of_clean; exact Hr); try (apply frag_of_clean; exact Hr2);
        try (rewrite <- !app_assoc; reflexivity);
        try (f_equal; unfold nlen in *; cbn [length] in *; lia);
        try (unfold nlen in *; cbn [length] in *; lia).
    + intros H. inversion H; subst.
      unfold qf_text. cbn [option_map qf_qtext qf_ftext qf_qs qf_fs opt_le opt_clean].
      rewrite app_nil_r, <- app_assoc. repeat split; try assumption.
      apply query_of_clean. exact Hr.
Qed.

(* on canonical text *)
Theorem pqf_canon ser q f :
  query_enc ovr (nfirstn se (ser ++ [63])) = utf8_encode ->
  opt_clean (query_set st) q -> opt_clean T_FRAGMENT f ->
  opt_le (qf_qs (nlen ser) q) U32_MAX_P -> opt_le (qf_fs (nlen ser) q f) U32_MAX_P ->
  parse_query_and_fragment ovr CUrlParser st se ser (qf_text q f)
  = POk (ser ++ qf_text q f, qf_qs (nlen ser) q, qf_fs (nlen ser) q f).
Proof.
  intros Henc Hq Hf Bq Bf. unfold parse_query_and_fragment, qf_text.
  destruct q as [x|]; destruct f as [y|]; cbn [qf_qtext qf_ftext qf_qs qf_fs opt_clean opt_le app] in *.
  - (* ?x#y *)
    rewrite inp_next_cons by reflexivity.
    replace (63 =? 35) with false by reflexivity. replace (63 =? 63) with true by reflexivity.
    rewrite to_u32_ok by exact Bq. cbn [pbind].
    assert (usv_list (x ++ 35 :: y)) as Hu.
    { apply ascii_usv. apply ascii_app. split; [apply (clean_ascii (query_set st)); exact Hq|].
      constructor; [unfold is_ascii; lia | apply (clean_ascii T_FRAGMENT); exact Hf]. }
    unfold parse_query. rewrite Henc. cbn [ctx_eqb].
    rewrite parse_query_loop_spec by (try constructor; exact Hu). cbn [rev app].
    fold (query_of st (x ++ 35 :: y)).
    destruct (query_of_canon st x Hq) as (_ & _ & Hc). destruct (Hc y) as [C1 C2]. rewrite C1, C2.
    assert (nlen ((ser ++ [63]) ++ x) = nlen ser + nlen (63 :: x)) as El.
    { rewrite !nlen_app, nlen_cons. unfold nlen. cbn [length]. lia. }
    rewrite El. rewrite to_u32_ok by exact Bf. cbn [pbind].
    rewrite parse_fragment_spec by (apply ascii_usv; apply (clean_ascii T_FRAGMENT); exact Hf).
    rewrite frag_of_canon by exact Hf. rewrite <- !app_assoc. reflexivity.
  - (* ?x *)
    rewrite app_nil_r. rewrite inp_next_cons by reflexivity.
    replace (63 =? 35) with false by reflexivity. replace (63 =? 63) with true by reflexivity.
    rewrite to_u32_ok by exact Bq. cbn [pbind].
    assert (usv_list x) as Hu by (apply ascii_usv; apply (clean_ascii (query_set st)); exact Hq).
    unfold parse_query. rewrite Henc. cbn [ctx_eqb].
    rewrite parse_query_loop_spec by (try constructor; exact Hu). cbn [rev app].
    fold (query_of st x).
    destruct (query_of_canon st x Hq) as (C1 & C2 & _). rewrite C1, C2.
    rewrite <- !app_assoc. reflexivity.
  - (* #y *)
    rewrite inp_next_cons by reflexivity. replace (35 =? 35) with true by reflexivity.
    rewrite N.add_0_r in *. rewrite to_u32_ok by exact Bf. cbn [pbind].
    rewrite parse_fragment_spec by (apply ascii_usv; apply (clean_ascii T_FRAGMENT); exact Hf).
    rewrite frag_of_canon by exact Hf. rewrite <- !app_assoc. reflexivity.
  - rewrite app_nil_r. reflexivity.
Qed.
End QF.

(* ================= opaque path ================= *)
Definition is_qh (c : N) : bool := (c =? 63) || (c =? 35).

Fixpoint cbb_chars (l : list N) : list N :=
  match l with
  | [] => []
  | c :: r => if is_tnl c then cbb_chars r else if is_qh c then [] else c :: cbb_chars r
  end.
Fixpoint cbb_rest (l : list N) : list N :=
  match l with
  | [] => []
  | c :: r => if is_tnl c then cbb_rest r else if is_qh c then l else cbb_rest r
  end.

Lemma usv_cbb_chars l : usv_list l -> usv_list (cbb_chars l).
Proof.
  induction l as [|c r IH]; intros H; [constructor|].
  apply usv_cons in H. destruct H as [Hc Hr]. cbn [cbb_chars].
  destruct (is_tnl c); [exact (IH Hr)|]. destruct (is_qh c); [constructor|].
  apply usv_cons. split; [exact Hc | exact (IH Hr)].
Qed.

Lemma usv_cbb_rest l : usv_list l -> usv_list (cbb_rest l).
Proof.
  induction l as [|c r IH]; intros H; [constructor|].
  pose proof H as H0. apply usv_cons in H. destruct H as [Hc Hr]. cbn [cbb_rest].
  destruct (is_tnl c); [exact (IH Hr)|]. destruct (is_qh c); [exact H0 | exact (IH Hr)].
Qed.

Theorem cbb_spec l : forall ser, usv_list l ->
  parse_cannot_be_a_base_path CUrlParser ser l
  = (ser ++ encode T_CONTROLS (utf8_encode (cbb_chars l)), cbb_rest l).
Proof.
  induction l as [|c r IH]; intros ser H.
  - cbn. rewrite app_nil_r. reflexivity.
  - apply usv_cons in H. destruct H as [Hc Hr]. cbn [parse_cannot_be_a_base_path cbb_chars cbb_rest].
    destruct (is_tnl c); [apply IH; exact Hr|].
    cbn [ctx_eqb]. rewrite andb_true_r. fold (is_qh c). destruct (is_qh c).
    + cbn. rewrite app_nil_r. reflexivity.
    + rewrite IH by exact Hr. rewrite push_encoded_eq by (constructor; [exact Hc | constructor]).
      rewrite <- app_assoc. change (c :: cbb_chars r) with ([c] ++ cbb_chars r).
      rewrite enc_utf8_app. reflexivity.
Qed.

(* the remainder is empty or starts with '?' / '#' *)
Lemma cbb_rest_head l : match cbb_rest l with [] => True | c :: _ => is_qh c = true /\ is_tnl c = false end.
Proof.
  induction l as [|c r IH]; [exact I|]. cbn [cbb_rest].
  destruct (is_tnl c) eqn:Et; [exact IH|]. destruct (is_qh c) eqn:Eq; [split; assumption | exact IH].
Qed.

Definition not_tnl_qh (c : N) : bool := not_tnl c && negb (is_qh c).

Lemma cbb_canon t rest : forallb not_tnl_qh t = true ->
  match rest with [] => True | c :: _ => is_qh c = true /\ is_tnl c = false end ->
  cbb_chars (t ++ rest) = t /\ cbb_rest (t ++ rest) = rest.
Proof.
  intros Ht Hr. induction t as [|c t IH].
  - cbn [app]. destruct rest as [|c r]; [split; reflexivity|]. destruct Hr as [Hq Hn].
    cbn [cbb_chars cbb_rest]. rewrite Hn, Hq. split; reflexivity.
  - cbn [forallb] in Ht. apply andb_true_iff in Ht. destruct Ht as [H1 H2].
    destruct (IH H2) as [I1 I2]. unfold not_tnl_qh, not_tnl in H1.
    assert (is_tnl c = false) as Et by (destruct (is_tnl c); [discriminate | reflexivity]).
    assert (is_qh c = false) as Eq by (rewrite Et in H1; cbn [negb andb] in H1; destruct (is_qh c); [discriminate|reflexivity]).
    cbn [app cbb_chars cbb_rest]. rewrite Et, Eq, I1, I2. split; reflexivity.
Qed.

(* the characters of the opaque path are neither '?' nor '#' nor ignorable *)
Lemma cbb_chars_no_qh l : forallb not_tnl_qh (cbb_chars l) = true.
Proof.
  induction l as [|c r IH]; [reflexivity|]. cbn [cbb_chars].
  destruct (is_tnl c) eqn:Et; [exact IH|]. destruct (is_qh c) eqn:Eq; [reflexivity|].
  cbn [forallb]. rewrite IH. unfold not_tnl_qh, not_tnl. rewrite Et, Eq. reflexivity.
Qed.

Definition opaque_of (l : list N) : list N := encode T_CONTROLS (utf8_encode (cbb_chars l)).

Lemma opaque_of_clean l : usv_list l -> clean T_CONTROLS (opaque_of l) = true.
Proof.
  intros H. apply encode_is_clean; [exact stable_CONTROLS|]. apply utf8_encode_bytes. apply usv_cbb_chars. exact H.
Qed.

Lemma hex_not_qh d : d < 16 -> not_tnl_qh (hex_upper d) = true.
Proof. intros H. unfold not_tnl_qh, not_tnl, is_tnl, is_qh, hex_upper. destruct (d <? 10) eqn:E; lia. Qed.

Lemma opaque_of_no_qh l : usv_list l -> forallb not_tnl_qh (opaque_of l) = true.
Proof.
  intros H. apply encode_utf8_forallb; [reflexivity | exact hex_not_qh | apply usv_cbb_chars; exact H|].
  apply Forall_forall. intros c Hin _.
  pose proof (cbb_chars_no_qh l) as Hq. rewrite forallb_forall in Hq. exact (Hq c Hin).
Qed.

(* first byte of the encoded form of a string that does not start with '/' is not '/' *)
Lemma encode_utf8_head S c r x : is_usv c -> c <> 47 ->
  starts_with [47] (encode S (utf8_encode (c :: r)) ++ x) = false.
Proof.
  intros Hc Hne. change (c :: r) with ([c] ++ r). rewrite enc_utf8_app.
  unfold utf8_encode at 1. cbn [flat_map]. rewrite app_nil_r.
  assert (exists b0 t, utf8_encode1 c = b0 :: t /\ (b0 < 128 -> b0 = c)) as (b0 & t & Eb & Hb).
  { unfold utf8_encode1. destruct (c <? 128) eqn:E1; [eexists; eexists; split; [reflexivity | tauto]|].
    destruct (c <? 2048) eqn:E2; [eexists; eexists; split; [reflexivity | lia]|].
    destruct (c <? 65536) eqn:E3; eexists; eexists; (split; [reflexivity | unfold is_usv in Hc; lia]). }
  rewrite Eb. rewrite encode_cons. unfold enc1. destruct (should_encode S b0) eqn:E.
  - unfold enc_byte_spec. cbn [app starts_with]. replace (47 =? 37) with false by reflexivity. reflexivity.
  - cbn [app starts_with].
    assert (b0 < 128) as Hlt by (apply (kept_ascii S); unfold kept; rewrite E; reflexivity).
    rewrite (Hb Hlt). replace (47 =? c) with false by lia. reflexivity.
Qed.

Theorem opaque_of_canon t rest : clean T_CONTROLS t = true -> forallb not_tnl_qh t = true ->
  match rest with [] => True | c :: _ => is_qh c = true /\ is_tnl c = false end ->
  opaque_of (t ++ rest) = t /\ cbb_rest (t ++ rest) = rest.
Proof.
  intros Hc Hq Hr. destruct (cbb_canon t rest Hq Hr) as [C1 C2]. split; [|exact C2].
  unfold opaque_of. rewrite C1. rewrite utf8_encode_ascii by (apply (clean_ascii T_CONTROLS); exact Hc).
  apply encode_clean. exact Hc.
Qed.
