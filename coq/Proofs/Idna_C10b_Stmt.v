(* Proofs/Idna_C10b_Stmt.v - corrected full-strength statements of C10 idempotence / case-insensitivity and of C12,
   after the refutations of Proofs/Idna_C10b_Long.v.  Stated, NOT proved (proved: the adapter-free class of
   Proofs/Idna_C10b_AsciiWalk.v, Borrowed results, the fastest tier).  Every adapter premise is a fact about
   idna_adapter alone that the `adapter` stream of harness/src/bin/idna.rs samples on the real crate. *)
From RU Require Import Base.Prelude Base.Utf8 Base.U32_c13 Gen.Tables Model.Punycode Model.Uts46
  Proofs.Idna_Sim Proofs.Idna_Api Proofs.Idna_Known Proofs.Idna_Hyp Proofs.Idna_C10_Inner Proofs.Idna_C10b_Long.

(* normalize_validate is the identity on its own error-free output (sampled fact ok_nv_idem) *)
Definition NvIdem (A : adapter) : Prop := forall l,
  existsb is_fffd (normalize_validate A l) = false -> normalize_validate A (normalize_validate A l) = normalize_validate A l.
(* no ASCII character is a combining mark (sampled fact ok_ascii_nomark): a label of the mapped stream that starts
   with an ASCII character is not checked for a leading mark, its Punycode form is *)
Definition AsciiNoMark (A : adapter) : Prop := forall c, c < 128 -> is_mark A c = false.
(* the bidi rule accepts every pass-through label (sampled fact ok_pass_bidi: a-z are L, 0-9 are EN, '-' is ES):
   the labels of the pass-through prefix are never submitted to the bidi rule, their case variants are *)
Definition PassBidi (A : adapter) : Prop := forall label he,
  bytes label -> is_passthrough_ascii_label label = true -> bidi_label A true label he = SOk (label, he).

Section Statements2.
Variable A : adapter.
Variable cfg : bool.

(* idempotence: everywhere outside Known_C10_long (F-C10-1) - in particular inside Known_C12 *)
Definition C10_idem_statement2 : Prop := AdapterOK A -> NvNoTrunc A -> NvIdem A -> AsciiNoMark A ->
  forall d deny hy dns b r, bytes d -> valid_deny deny ->
  to_ascii A cfg d deny hy dns = Ok (b, r) -> Known_C10_long r = false ->
  exists b', to_ascii A cfg r deny hy dns = Ok (b', r).

Definition C10_case_statement2 : Prop := AdapterOK A -> PassBidi A -> forall d d' deny hy dns b r,
  bytes d -> valid_deny deny -> ascii_case_variant d d' ->
  to_ascii A cfg d deny hy dns = Ok (b, r) -> exists b', to_ascii A cfg d' deny hy dns = Ok (b', r).

Definition C12_statement2 : Prop := AdapterOK A -> NvNoTrunc A -> NvIdem A -> AsciiNoMark A -> forall d deny hy b a,
  bytes d -> valid_deny deny -> Known_C12 A cfg d deny hy = false -> Known_C11 A cfg d deny hy = false ->
  to_ascii A cfg d deny hy DIgnore = Ok (b, a) -> Known_C10_long a = false ->
  let u := ui_text (to_unicode A cfg d deny hy) in
  (ui_text (to_unicode A cfg a deny hy) = u /\ ui_err (to_unicode A cfg a deny hy) = false) /\
  (exists b', to_ascii A cfg (utf8_encode u) deny hy DIgnore = Ok (b', a)) /\
  (ui_text (to_unicode A cfg (utf8_encode u) deny hy) = u /\ ui_err (to_unicode A cfg (utf8_encode u) deny hy) = false) /\
  (forall p, exists b', to_ascii A cfg (utf8_encode (ui_text (to_user_interface A cfg d deny hy p))) deny hy DIgnore = Ok (b', a)).
End Statements2.

(* the premises are satisfiable: the lower-casing adapter of Proofs/Idna_C10b_Long.v *)
Example stmt2_premises_hold : NvNoTrunc lowad /\ NvIdem lowad /\ AsciiNoMark lowad.
Proof.
  split; [|split].
  - intros l t H. cbn [lowad lowad_with normalize_validate] in H. apply (f_equal (@List.length N)) in H.
    rewrite app_length in H. destruct t; [reflexivity|]. cbn [List.length] in H. lia.
  - intros l _. reflexivity.
  - intros c _. reflexivity.
Qed.
