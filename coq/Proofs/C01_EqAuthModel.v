(* Proofs/C01_EqAuthModel.v - model side of the C01 equivalence for "scheme://authority...": what the
   look-ahead functions of parser.rs (parse_userinfo = scan for the last '@' + second pass,
   parse_host = host_scan, parse_port, parse_path_start) compute on the raw remaining input, in terms of
   the cuts the Standard's states make on the cleaned text (Proofs/C01_EqAuthSpec.v). *)
From RU Require Import Base.Prelude Base.Utf8 Base.Utf8Facts Model.AsciiSet Gen.Tables
  Model.PercentEncoding Model.HostT Model.UrlRecord Model.Parser Model.Setters Model.WF Spec.Whatwg
  Proofs.ListN Proofs.C14_Set Proofs.C14_Enc Proofs.C14_Views Proofs.C02_Enc Proofs.C02_Parts
  Proofs.C02_Opaque Proofs.C02_Path Proofs.C02_PathL1 Proofs.C03_WF Proofs.C01_Tables Proofs.C08_Input
  Proofs.C01_EqRun Proofs.C01_EqEnc Proofs.C01_EqApi Proofs.C01_EqOpaque Proofs.C01_EqDots Proofs.C01_EqPathSpec
  Proofs.C06_List Proofs.C06_Steps Proofs.C01_EqRef Proofs.C01_EqPath Proofs.C01_EqOverflow Proofs.C01_EqAuthSpec.

(* ================= outcomes up to ParseError::Overflow ================= *)
(* m is Ok v, or it is Err(Overflow) and P holds (P = "the final serialization is longer than u32") *)
Definition oob {A} (P : Prop) (m : pres A) (v : A) : Prop := (m = PErr Overflow /\ P) \/ m = POk v.
Definition mfail {A} (m : pres A) : Prop := exists e, m = PErr e.

Lemma oob_ret {A} P (v : A) : oob P (POk v) v.
Proof. right. reflexivity. Qed.

Lemma oob_bind {A C} P (m : pres A) v (f : A -> pres C) w : oob P m v -> oob P (f v) w -> oob P (pbind m f) w.
Proof. intros [[-> H]| ->] K; [left; split; [reflexivity | exact H] | exact K]. Qed.

Lemma oob_u32 (P : Prop) n : (U32_MAX_P < n -> P) -> oob P (to_u32 n) n.
Proof.
  intros H. unfold to_u32. destruct (n <=? U32_MAX_P) eqn:E; [right; reflexivity | left; split; [reflexivity | apply H; lia]].
Qed.

Lemma oob_weaken {A} (P Q : Prop) (m : pres A) v : (P -> Q) -> oob P m v -> oob Q m v.
Proof. intros H [[E K]|E]; [left; split; [exact E | exact (H K)] | right; exact E]. Qed.

Lemma mfail_bind {A C} (m : pres A) (f : A -> pres C) : mfail m -> mfail (pbind m f).
Proof. intros [e ->]. exists e. reflexivity. Qed.

Lemma mfail_bind2 {A C} P (m : pres A) v (f : A -> pres C) : oob P m v -> mfail (f v) -> mfail (pbind m f).
Proof. intros [[-> _]| ->] K; [exists Overflow; reflexivity | exact K]. Qed.

(* ================= the userinfo encoder ================= *)
Definition encU (w : list N) : list N := encode T_USERINFO (utf8_encode w).

Lemma encU_cons c w : encU (c :: w) = encU [c] ++ encU w.
Proof. unfold encU. change (c :: w) with ([c] ++ w). apply enc_utf8_app. Qed.

Lemma encU_upe w : encU w = upe in_userinfo_set w.
Proof. unfold encU, upe. apply enc_bridge. exact rel_USERINFO. Qed.

Lemma upe_nil_iff inset w : is_nil (upe inset w) = is_nil w.
Proof.
  destruct w as [|c r]; [reflexivity|]. rewrite upe_cons. cbn [is_nil]. unfold utf8_percent_encode_cp.
  destruct (inset c); [|reflexivity]. unfold utf8_encode. cbn [flat_map]. rewrite app_nil_r.
  destruct (utf8_encode1 c) as [|b bs] eqn:E; [|reflexivity].
  exfalso. unfold utf8_encode1 in E. repeat (destruct (_ <? _) in E); discriminate E.
Qed.

Lemma encU_nil_iff w : is_nil (encU w) = is_nil w.
Proof. rewrite encU_upe. apply upe_nil_iff. Qed.

Lemma push_userinfo ser c : is_usv c -> push_encoded T_USERINFO ser [c] = ser ++ encU [c].
Proof. intros H. apply push_encoded_eq. constructor; [exact H | constructor]. Qed.

Fixpoint has_colon (w : list N) : bool := match w with [] => false | c :: r => (c =? 58) || has_colon r end.

Lemma no_colon_user w : has_colon w = false -> cr_user w = w /\ cr_pass w = [].
Proof.
  induction w as [|c r IH]; [split; reflexivity|]. cbn [has_colon cr_user cr_pass]. intros H.
  apply orb_false_iff in H. destruct H as [H1 H2]. rewrite H1. destruct (IH H2) as [-> ->]. split; reflexivity.
Qed.

(* ================= first pass: the last '@' ================= *)
Lemma scan_stop_eq c : ((c =? 47) || (c =? 63) || (c =? 35) || ((c =? 92) && false)) = is_ae c.
Proof. unfold is_ae. rewrite andb_false_r, orb_false_r. reflexivity. Qed.

Lemma scan_spec l : forall count last, usv_list l ->
  match last_at (a_part (ntnl l)) with
  | Some (w, h) => exists rem, scan_last_at false l count last = Some (count + nlen w, rem)
                               /\ ntnl rem = h ++ a_rest (ntnl l) /\ usv_list rem
  | None => scan_last_at false l count last = last
  end.
Proof.
  induction l as [|c r IH]; intros count last Hu; [reflexivity|].
  apply usv_cons in Hu. destruct Hu as [Huc Hur]. cbn [scan_last_at].
  destruct (is_tnl c) eqn:Et.
  - rewrite ntnl_cons_tnl by exact Et. apply IH. exact Hur.
  - rewrite ntnl_cons by exact Et. cbn [a_part a_rest]. rewrite scan_stop_eq.
    destruct (c =? 64) eqn:E64.
    + assert (is_ae c = false) as Eae by (apply N.eqb_eq in E64; subst c; reflexivity). rewrite Eae.
      cbn [last_at]. rewrite E64. specialize (IH (count + 1) (Some (count, r)) Hur).
      destruct (last_at (a_part (ntnl r))) as [[w h]|].
      * destruct IH as (rem & E1 & E2 & E3). exists rem. split; [|split; assumption].
        rewrite E1. rewrite nlen_cons. f_equal. f_equal. lia.
      * exists r. split; [|split; [|exact Hur]].
        -- rewrite IH. rewrite nlen_nil, N.add_0_r. reflexivity.
        -- symmetry. apply a_part_rest.
    + destruct (is_ae c) eqn:Eae; [reflexivity|]. cbn [last_at]. rewrite E64.
      specialize (IH (count + 1) last Hur).
      destruct (last_at (a_part (ntnl r))) as [[w h]|]; [|exact IH].
      destruct IH as (rem & E1 & E2 & E3). exists rem. split; [|split; assumption].
      rewrite E1. rewrite nlen_cons. f_equal. f_equal. lia.
Qed.

(* ================= second pass ================= *)
Lemma nlen_zero_nil (w : list N) : nlen w = 0 -> w = [].
Proof. destruct w; [reflexivity|]. unfold nlen. cbn [length]. lia. Qed.

Lemma userinfo_loop_zero l ser uend hpw hun : userinfo_loop l 0 ser uend hpw hun = POk (ser, uend, hpw, hun).
Proof. destruct l; reflexivity. Qed.

(* after the ':' *)
Lemma ui_phase2 l : forall w x n ser ue hun, usv_list l -> ntnl l = w ++ x -> n = nlen w ->
  userinfo_loop l n ser (Some ue) true hun = POk (ser ++ encU w, Some ue, true, hun).
Proof.
  induction l as [|c r IH]; intros w x n ser ue hun Hu Hl Hn.
  - destruct w; [|discriminate Hl]. subst n. cbn. rewrite app_nil_r. reflexivity.
  - apply usv_cons in Hu. destruct Hu as [Huc Hur]. cbn [userinfo_loop].
    destruct (n =? 0) eqn:En0.
    + apply N.eqb_eq in En0. rewrite En0 in Hn. symmetry in Hn. apply nlen_zero_nil in Hn. subst w. cbn. rewrite app_nil_r. reflexivity.
    + destruct (is_tnl c) eqn:Et.
      * rewrite ntnl_cons_tnl in Hl by exact Et. exact (IH w x n ser ue hun Hur Hl Hn).
      * rewrite ntnl_cons in Hl by exact Et. destruct w as [|c' w']; [subst n; discriminate En0|].
        cbn [app] in Hl. inversion Hl; subst c'. rewrite andb_false_r.
        rewrite (push_userinfo ser c Huc).
        rewrite (IH w' x (n - 1) (ser ++ encU [c]) ue hun Hur H1) by (subst n; rewrite nlen_cons; lia).
        rewrite (encU_cons c w'), <- app_assoc. reflexivity.
Qed.

(* from the start *)
Lemma ui_phase1 (P : Prop) l : forall w x n ser hun, usv_list l -> ntnl l = w ++ x -> n = nlen w ->
  (U32_MAX_P < nlen (ser ++ encU (cr_user w)) -> P) ->
  oob P (userinfo_loop l n ser None false hun)
      (if has_colon w
       then (ser ++ encU (cr_user w) ++ (if is_nil (cr_pass w) then [] else 58 :: encU (cr_pass w)),
             Some (nlen (ser ++ encU (cr_user w))), negb (is_nil (cr_pass w)), hun || negb (is_nil (cr_user w)))
       else (ser ++ encU w, None, false, hun || negb (is_nil w))).
Proof.
  assert (forall ser hun, (ser ++ encU [], @None N, false, hun || negb (is_nil (@nil N))) = (ser, None, false, hun)) as Enil.
  { intros ser hun. cbn. rewrite app_nil_r, orb_false_r. reflexivity. }
  induction l as [|c r IH]; intros w x n ser hun Hu Hl Hn HP.
  - destruct w; [|discriminate Hl]. subst n. cbn [has_colon]. rewrite Enil. right. reflexivity.
  - apply usv_cons in Hu. destruct Hu as [Huc Hur]. cbn [userinfo_loop].
    destruct (n =? 0) eqn:En0.
    + apply N.eqb_eq in En0. rewrite En0 in Hn. symmetry in Hn. apply nlen_zero_nil in Hn. subst w.
      cbn [has_colon]. rewrite Enil. right. reflexivity.
    + destruct (is_tnl c) eqn:Et.
      * rewrite ntnl_cons_tnl in Hl by exact Et. exact (IH w x n ser hun Hur Hl Hn HP).
      * rewrite ntnl_cons in Hl by exact Et. destruct w as [|c' w']; [subst n; discriminate En0|].
        cbn [app] in Hl. inversion Hl; subst c'.
        assert (n - 1 = nlen w') as Hn' by (subst n; rewrite nlen_cons; lia).
        cbn [has_colon cr_user cr_pass]. cbn [cr_user] in HP. destruct (c =? 58) eqn:E58.
        -- (* the first ':' *)
           cbn [andb orb is_nil negb]. change (encU []) with (@nil N) in *. rewrite app_nil_r in HP.
           eapply oob_bind; [apply oob_u32; exact HP|]. cbn [app]. rewrite app_nil_r. rewrite orb_false_r.
           destruct w' as [|d w''].
           ++ rewrite Hn'. rewrite nlen_nil. change (0 <? 0) with false. cbn iota. rewrite userinfo_loop_zero.
              cbn [is_nil negb]. rewrite app_nil_r. right. reflexivity.
           ++ replace (0 <? n - 1) with true by (rewrite Hn', nlen_cons; lia).
              rewrite (ui_phase2 r (d :: w'') x (n - 1) (ser ++ [58]) (nlen ser) hun Hur H1 Hn').
              cbn [is_nil negb]. rewrite <- app_assoc. right. reflexivity.
        -- cbn [andb orb]. rewrite (push_userinfo ser c Huc).
           assert (nlen ((ser ++ encU [c]) ++ encU (cr_user w')) = nlen (ser ++ encU (c :: cr_user w'))) as El.
           { rewrite (encU_cons c (cr_user w')), <- app_assoc. reflexivity. }
           pose proof (IH w' x (n - 1) (ser ++ encU [c]) true Hur H1 Hn') as IH'.
           rewrite El in IH'. specialize (IH' HP). cbn [is_nil negb]. rewrite orb_true_r. cbn [orb] in IH'.
           rewrite (encU_cons c w'), (encU_cons c (cr_user w')). rewrite <- !app_assoc in *.
           rewrite <- (encU_cons c (cr_user w')) in *.
           destruct (has_colon w'); exact IH'.
Qed.

(* the credentials as the serializer of the Standard writes them *)
Definition cred_text (un pw : list N) : list N :=
  if is_nil un && is_nil pw then [] else un ++ (if is_nil pw then [] else 58 :: pw) ++ [64].

Lemma cred_text_len un pw : nlen un <= nlen (cred_text un pw).
Proof.
  unfold cred_text. destruct un as [|a u]; [rewrite nlen_nil; lia|]. cbn [is_nil andb].
  rewrite nlen_app. lia.
Qed.

Lemma inp_next_drop l : inp_next (drop_while is_tnl l) = inp_next l.
Proof.
  unfold inp_next. induction l as [|c r IH]; [reflexivity|]. cbn [drop_while].
  destruct (is_tnl c) eqn:E; [exact IH|]. cbn [drop_while]. rewrite E. reflexivity.
Qed.

Theorem parse_userinfo_spec ser l : usv_list l ->
  match fst (after_at (ntnl l)) with
  | None => forall P : Prop, (U32_MAX_P < nlen ser -> P) -> oob P (parse_userinfo STNotSpecial ser l) (ser, nlen ser, l)
  | Some w =>
      if is_nil w && starts_ae (snd (after_at (ntnl l))) then parse_userinfo STNotSpecial ser l = PErr EmptyHost
      else exists rem, ntnl rem = snd (after_at (ntnl l)) /\ usv_list rem /\
           forall P : Prop,
           ((U32_MAX_P < nlen (ser ++ cred_text (encU (cr_user w)) (encU (cr_pass w))) -> P) ->
            oob P (parse_userinfo STNotSpecial ser l)
                (ser ++ cred_text (encU (cr_user w)) (encU (cr_pass w)), nlen ser + nlen (encU (cr_user w)), rem))
  end.
Proof.
  intros Hu. unfold after_at, parse_userinfo. cbn [st_is_special].
  pose proof (scan_spec l 0 None Hu) as HS.
  destruct (last_at (a_part (ntnl l))) as [[w h]|] eqn:Ela; cbn [fst snd].
  2:{ rewrite HS. intros P HP. eapply oob_bind; [apply oob_u32; exact HP | apply oob_ret]. }
  destruct HS as (rem & Escan & Hrem & Hurem). rewrite Escan, N.add_0_l.
  destruct w as [|c0 w'].
  - (* "@host": no credentials, the '@' is skipped *)
    cbn [is_nil andb]. rewrite nlen_nil. rewrite <- Hrem.
    destruct (inp_next rem) as [[c r']|] eqn:En.
    + destruct (inp_next_ntnl rem c r' En) as [E1 _]. rewrite E1. cbn [starts_ae].
      rewrite orb_false_r. fold (is_ae c). destruct (is_ae c); [reflexivity|].
      exists rem. split; [exact E1 | split; [exact Hurem|]].
      change (encU (cr_user [])) with (@nil N). change (encU (cr_pass [])) with (@nil N).
      cbn [cred_text is_nil andb]. rewrite app_nil_r, nlen_nil, N.add_0_r.
      intros P HP. eapply oob_bind; [apply oob_u32; exact HP | apply oob_ret].
    + rewrite (inp_next_none_ntnl rem En). reflexivity.
  - cbn [is_nil andb]. exists rem. split; [exact Hrem | split; [exact Hurem|]]. intros P HP.
    set (w := c0 :: w') in *.
    assert (exists p, nlen w = N.pos p) as [p Ep] by (unfold w, nlen; cbn [length N.of_nat]; eexists; reflexivity).
    rewrite Ep.
    destruct (last_at_split _ _ _ Ela) as [].
    assert (ntnl l = w ++ 64 :: h ++ a_rest (ntnl l)) as Hl.
    { rewrite <- (a_part_rest (ntnl l)) at 1. rewrite (last_at_split _ _ _ Ela). rewrite <- app_assoc. reflexivity. }
    set (U := cr_user w) in *. set (PW := cr_pass w) in *.
    assert (nlen (ser ++ encU U) <= nlen (ser ++ cred_text (encU U) (encU PW))) as Hle.
    { rewrite !nlen_app. pose proof (cred_text_len (encU U) (encU PW)). lia. }
    pose proof (ui_phase1 P l w _ (N.pos p) ser false Hu Hl (eq_sym Ep)) as H1.
    assert (U32_MAX_P < nlen (ser ++ encU (cr_user w)) -> P) as HP1 by (fold U; intros K; apply HP; lia).
    specialize (H1 HP1). fold U PW in H1.
    eapply oob_bind; [exact H1|]. cbn [orb].
    destruct (has_colon w) eqn:Ecol.
    + cbn [pbind].
      assert ((if negb (is_nil U) || negb (is_nil PW)
               then (ser ++ encU U ++ (if is_nil PW then [] else 58 :: encU PW)) ++ [64]
               else ser ++ encU U ++ (if is_nil PW then [] else 58 :: encU PW))
              = ser ++ cred_text (encU U) (encU PW)) as ->.
      { unfold cred_text. rewrite !encU_nil_iff.
        destruct (is_nil U) eqn:EU; destruct (is_nil PW) eqn:EP; cbn [negb orb andb].
        - destruct U; [|discriminate EU]. change (encU []) with (@nil N). cbn [app]. reflexivity.
        - rewrite <- !app_assoc. reflexivity.
        - rewrite <- !app_assoc. reflexivity.
        - rewrite <- !app_assoc. reflexivity. }
      rewrite (nlen_app ser). right. reflexivity.
    + destruct (no_colon_user w Ecol) as [EU EP]. unfold U, PW in *. rewrite EU, EP in *.
      change (encU []) with (@nil N) in *. cbn [is_nil negb orb].
      assert (cred_text (encU w) [] = encU w ++ [64]) as Ect.
      { unfold cred_text. rewrite encU_nil_iff. cbn [is_nil andb app]. unfold w at 1. cbn [is_nil]. reflexivity. }
      rewrite Ect in *.
      eapply oob_bind; [apply oob_u32; intros K; apply HP; rewrite !nlen_app in *; lia|].
      right. rewrite <- app_assoc, nlen_app. reflexivity.
Qed.

(* ================= host ================= *)
Lemma host_stop_eq c br :
  (((c =? 58) && negb br) || ((c =? 92) && false) || (c =? 47) || (c =? 63) || (c =? 35)) = hs_stop br c.
Proof. unfold hs_stop, is_ae. destruct (c =? 58), br, (c =? 92), (c =? 47), (c =? 63), (c =? 35); reflexivity. Qed.

Lemma host_scan_spec l : forall br acc, usv_list l ->
  exists rem, host_scan false br acc l = (rev acc ++ hs_host br (ntnl l), rem)
              /\ ntnl rem = hs_rest br (ntnl l) /\ usv_list rem.
Proof.
  induction l as [|c r IH]; intros br acc Hu.
  - exists []. cbn. rewrite app_nil_r. repeat split. constructor.
  - pose proof Hu as Hu0. apply usv_cons in Hu. destruct Hu as [Huc Hur]. cbn [host_scan].
    destruct (is_tnl c) eqn:Et.
    + rewrite ntnl_cons_tnl by exact Et. apply IH. exact Hur.
    + rewrite ntnl_cons by exact Et. cbn [hs_host hs_rest]. rewrite host_stop_eq.
      destruct (hs_stop br c) eqn:Es.
      * exists (c :: r). rewrite app_nil_r. split; [reflexivity|]. split; [apply ntnl_cons; exact Et | exact Hu0].
      * assert ((if c =? 91 then host_scan false true (c :: acc) r
                 else if c =? 93 then host_scan false false (c :: acc) r else host_scan false br (c :: acc) r)
                = host_scan false (br_next br c) (c :: acc) r) as ->.
        { unfold br_next. destruct (c =? 91); [reflexivity|]. destruct (c =? 93); reflexivity. }
        destruct (IH (br_next br c) (c :: acc) Hur) as (rem & E1 & E2 & E3). exists rem.
        rewrite E1. cbn [rev]. rewrite <- app_assoc. repeat split; assumption.
Qed.

(* ================= port ================= *)
Definition valfrom (p : N) (d : list N) : N := fold_left (fun a x => a * 10 + (x - 48)) d p.

Lemma valfrom_ge d : forall p, p <= valfrom p d.
Proof.
  induction d as [|c r IH]; intros p; [cbn; lia|]. cbn [valfrom fold_left].
  pose proof (IH (p * 10 + (c - 48))) as H. unfold valfrom in H. lia.
Qed.

Lemma port_loop_spec l : forall p any, usv_list l -> p <= 65535 ->
  let d := digits_of (ntnl l) in
  let X := after_digits (ntnl l) in
  if 65535 <? valfrom p d then parse_port_loop CUrlParser l p any = PErr InvalidPort
  else match X with
       | [] => parse_port_loop CUrlParser l p any = POk (valfrom p d, any || negb (is_nil d), [])
       | c :: _ =>
           if is_path_end c
           then exists rem, parse_port_loop CUrlParser l p any = POk (valfrom p d, any || negb (is_nil d), rem)
                            /\ ntnl rem = X /\ usv_list rem
           else parse_port_loop CUrlParser l p any = PErr InvalidPort
       end.
Proof.
  induction l as [|c r IH]; intros p any Hu Hp.
  - cbn. replace (65535 <? p) with false by lia. rewrite orb_false_r. reflexivity.
  - pose proof Hu as Hu0. apply usv_cons in Hu. destruct Hu as [Huc Hur]. cbn [parse_port_loop].
    destruct (is_tnl c) eqn:Et.
    + rewrite ntnl_cons_tnl by exact Et. apply IH; assumption.
    + rewrite ntnl_cons by exact Et. cbn [digits_of after_digits]. destruct (is_digit c) eqn:Ed.
      * cbv zeta. cbn [valfrom fold_left]. fold (valfrom (p * 10 + (c - 48)) (digits_of (ntnl r))).
        destruct (65535 <? p * 10 + (c - 48)) eqn:Eov.
        -- pose proof (valfrom_ge (digits_of (ntnl r)) (p * 10 + (c - 48))).
           replace (65535 <? valfrom (p * 10 + (c - 48)) (digits_of (ntnl r))) with true by lia. reflexivity.
        -- pose proof (IH (p * 10 + (c - 48)) true Hur) as IH'. cbv zeta in IH'.
           assert (p * 10 + (c - 48) <= 65535) as Hp' by lia. specialize (IH' Hp').
           cbn [is_nil negb]. rewrite orb_true_r. cbn [orb] in IH'. exact IH'.
      * cbv zeta. cbn [valfrom fold_left is_nil negb]. replace (65535 <? p) with false by lia. rewrite orb_false_r.
        cbn [ctx_eqb andb]. destruct (is_path_end c); cbn [negb]; [|reflexivity].
        exists (c :: r). split; [reflexivity|]. split; [apply ntnl_cons; exact Et | exact Hu0].
Qed.

Lemma valfrom_decimal d : valfrom 0 d = decimal_value d.
Proof. reflexivity. Qed.

(* ================= the host functions of the two sides on one string ================= *)
(* the model's Host::parse_opaque + Display and the Standard's host parser + serializer agree on s:
   both fail, or both succeed with the same text; the text does not start with ':', and the model's
   host is the empty domain exactly for the empty string, and its text is empty exactly then *)
Definition host_agree (hpo : list N -> result host) (hd : host -> list N)
           (shp : bool -> list N -> option spec_host) (shs : spec_host -> list N) (s : list N) : Prop :=
  match hpo s, host_parsing shp true s with
  | Ok h, Some sh => hd h = shs sh /\ starts_with_cp 58 (hd h) = false
                     /\ (h = HDomain [] <-> s = []) /\ (hd h = [] <-> s = [])
  | Err _, None => True
  | _, _ => False
  end.

Lemma set_port_none u : su_port u = None -> set_port u None = u.
Proof. destruct u as [x1 x2 x3 x4 x5 x6 x7 x8]. cbn. intros ->. reflexivity. Qed.

Lemma path_end_ae c : is_path_end c = is_ae c || (c =? 92).
Proof. unfold is_path_end, is_ae. destruct (c =? 47), (c =? 92), (c =? 63), (c =? 35); reflexivity. Qed.

Lemma inp_starts_with_char_ntnl c l : inp_starts_with_char c l = starts_with_cp c (ntnl l).
Proof.
  unfold inp_starts_with_char. destruct (inp_next l) as [[d r]|] eqn:En.
  - destruct (inp_next_ntnl l d r En) as [-> _]. reflexivity.
  - rewrite (inp_next_none_ntnl l En). reflexivity.
Qed.

Lemma hs_rest_head' t : forall br, match hs_rest br t with
                                   | [] => True
                                   | c :: _ => is_ae c = true \/ (c =? 58) = true
                                   end.
Proof.
  induction t as [|c r IH]; intros br; [exact I|]. cbn [hs_rest]. destruct (hs_stop br c) eqn:E; [|apply IH].
  unfold hs_stop in E. apply orb_true_iff in E. destruct E as [E|E]; [right | left; exact E].
  apply andb_true_iff in E. destruct E as [E _]. exact E.
Qed.

Section Stages.
Variable dbg : bool.
Variable hp hpo : list N -> result host.
Variable hd : host -> list N.
Variable ovr : option (list N -> list N).
Variable shp : bool -> list N -> option spec_host.
Variable shs : spec_host -> list N.

(* ---------- parse_host_and_port ---------- *)
Theorem hp_spec sch ser1 rem u : usv_list rem -> scheme_type_of sch = STNotSpecial ->
  (exists tl, ser1 = sch ++ tl) -> su_port u = None ->
  let HR := ntnl rem in
  let Hh := hs_host false HR in
  let X := match port_split (hs_rest false HR) with Some PR => after_digits PR | None => hs_rest false HR end in
  host_agree hpo hd shp shs Hh ->
  match port_split (hs_rest false HR) with
  | Some PR => ((decimal_value (digits_of PR) <=? 65535) && starts_with_cp 92 (after_digits PR)) = false
  | None => True
  end ->
  match sauth_host shp u HR with
  | None => mfail (parse_host_and_port hp hpo hd CUrlParser STNotSpecial (nlen sch) ser1 rem)
  | Some su =>
      exists host sh port rem',
        hpo Hh = Ok host /\ host_parsing shp true Hh = Some sh
        /\ (Hh = [] -> port = None) /\ (forall p, port = Some p -> p <= 65535)
        /\ ntnl rem' = X /\ usv_list rem' /\ starts_ae X = true
        /\ su = sauth_tail (set_port (set_host u (Some sh)) port) X
        /\ (forall P : Prop, (U32_MAX_P < nlen (ser1 ++ hd host) -> P) ->
            oob P (parse_host_and_port hp hpo hd CUrlParser STNotSpecial (nlen sch) ser1 rem)
                ((ser1 ++ hd host) ++ port_suffix port, nlen (ser1 ++ hd host), hi_of_host host, port, rem'))
  end.
Proof.
  intros Hu Hns Hsch Hpo HR Hh X HA Hbs.
  unfold parse_host_and_port, parse_host. cbn [st_is_file st_is_special scheme_type_eqb andb negb].
  destruct (host_scan_spec rem false [] Hu) as (rem2 & Escan & Hrem2 & Hu2). cbn [rev app] in Escan.
  rewrite Escan. fold HR in Hrem2 |- *. fold Hh.
  unfold sauth_host. fold Hh.
  unfold host_agree in HA.
  pose proof (hs_rest_head' HR false) as Hhead.
  destruct (hpo Hh) as [host|e] eqn:Ehpo; destruct (host_parsing shp true Hh) as [sh|] eqn:Eshp; try contradiction.
  2:{ (* both host parsers fail *)
      destruct (port_split (hs_rest false HR)); [destruct (is_nil Hh)|]; cbn [of_result pbind]; exists e; reflexivity. }
  destruct HA as (Htxt & Hcol & Hemp & Hemp2).
  cbn [of_result pbind].
  assert (default_port (nfirstn (nlen sch) (ser1 ++ hd host)) = None) as Edp.
  { destruct Hsch as [tl ->]. rewrite <- app_assoc, nfirstn_app_len.
    unfold default_port. unfold scheme_type_of in Hns.
    destruct (list_eqb sch s_http); [discriminate|]. destruct (list_eqb sch s_https); [discriminate|].
    destruct (list_eqb sch s_ws); [discriminate|]. destruct (list_eqb sch s_wss); [discriminate|].
    destruct (list_eqb sch s_ftp); [discriminate|]. reflexivity. }
  destruct (port_split (hs_rest false HR)) as [PR|] eqn:Eps.
  - (* ':' ends the host *)
    destruct (hs_rest false HR) as [|c0 X0] eqn:EX0; [discriminate Eps|]. cbn [port_split] in Eps.
    destruct (c0 =? 58) eqn:E58; [|discriminate Eps]. inversion Eps; subst X0. apply N.eqb_eq in E58. subst c0.
    assert (inp_starts_with_char 58 rem2 = true) as Esw by (rewrite inp_starts_with_char_ntnl, Hrem2; reflexivity).
    destruct (inp_next_some rem2 58 PR Hrem2) as (rem3 & En3 & Hrem3 & _).
    assert (usv_list rem3) as Hu3 by (exact (inp_next_usv rem2 58 rem3 Hu2 En3)).
    assert (inp_split_prefix_char 58 rem2 = Some rem3) as Esp by (unfold inp_split_prefix_char; rewrite En3; reflexivity).
    destruct (is_nil Hh) eqn:Enil.
    + (* empty host in front of a port: EmptyHost *)
      destruct Hh as [|x y] eqn:EHh; [|discriminate Enil].
      assert (host = HDomain []) as -> by (apply Hemp; reflexivity).
      eapply mfail_bind2 with (P := True); [apply oob_u32; intros _; exact I|].
      rewrite Esw. cbn [pbind]. exists EmptyHost. reflexivity.
    + assert (Hh <> []) as Hne by (intros K; rewrite K in Enil; discriminate).
      assert (match host with HDomain [] => if inp_starts_with_char 58 rem2 then PErr EmptyHost
                                            else if false then PErr EmptyHost else POk tt
                            | _ => POk tt end = POk tt) as Echk.
      { destruct host as [[|a b]| |]; try reflexivity. exfalso. apply Hne. apply Hemp. reflexivity. }
      cbn [st_is_special]. rewrite Esp.
      pose proof (port_loop_spec rem3 0 false Hu3 ltac:(lia)) as HPL. cbv zeta in HPL. rewrite Hrem3 in HPL.
      rewrite valfrom_decimal in HPL. cbn [orb] in HPL.
      unfold sauth_port. cbn [X]. unfold parse_port.
      destruct (starts_ae (after_digits PR)) eqn:Esae; cbn [negb].
      * (* the port ends at the end of the authority *)
        destruct (65535 <? decimal_value (digits_of PR)) eqn:Eov.
        -- (* beyond 65535 *)
           assert (mfail (' (port, rem4) <~ (' (p, any, rem0) <~ parse_port_loop CUrlParser rem3 0 false;;
                           (if negb any && ctx_eqb CUrlParser CSetter && negb (inp_is_empty rem0) then PErr InvalidPort
                            else POk (if negb any || opt_eqb (Some p) (default_port (nfirstn (nlen sch) (ser1 ++ hd host))) then None else Some p, rem0)));;
                           POk (match port with Some p => (ser1 ++ hd host) ++ [58] ++ decimal p | None => ser1 ++ hd host end,
                                nlen (ser1 ++ hd host), hi_of_host host, port, rem4))) as Hf.
           { rewrite HPL. exists InvalidPort. reflexivity. }
           assert (is_nil (digits_of PR) = false) as End.
           { destruct (digits_of PR); [discriminate Eov | reflexivity]. }
           rewrite End.
           eapply mfail_bind2 with (P := True); [apply oob_u32; intros _; exact I|].
           rewrite Echk. cbn [pbind]. exact Hf.
        -- assert (exists rem4, parse_port_loop CUrlParser rem3 0 false
                     = POk (decimal_value (digits_of PR), negb (is_nil (digits_of PR)), rem4)
                     /\ ntnl rem4 = after_digits PR /\ usv_list rem4) as (rem4 & EPL & Hrem4 & Hu4).
           { destruct (after_digits PR) as [|c X1] eqn:EX.
             - exists []. split; [exact HPL | split; [reflexivity | constructor]].
             - cbn [starts_ae] in Esae. rewrite path_end_ae, Esae in HPL. cbn [orb] in HPL. exact HPL. }
           destruct (is_nil (digits_of PR)) eqn:End; try rewrite End in EPL; cbn [negb] in EPL.
           ++ exists host, sh, None, rem4.
              split; [reflexivity|]. split; [reflexivity|]. split; [reflexivity|].
              split; [intros p Hp; discriminate Hp|].
              split; [exact Hrem4|]. split; [exact Hu4|]. split; [exact Esae|].
              split; [rewrite set_port_none; [reflexivity | exact Hpo]|].
              intros P HP. eapply oob_bind; [apply oob_u32; exact HP|]. rewrite Echk. cbn [pbind]. rewrite EPL. cbn [pbind].
              cbn [ctx_eqb andb negb orb pbind port_suffix]. rewrite app_nil_r. right. reflexivity.
           ++ exists host, sh, (Some (decimal_value (digits_of PR))), rem4.
              split; [reflexivity|]. split; [reflexivity|]. split; [intros K; contradiction|].
              split; [intros p Hp; inversion Hp; subst; lia|].
              split; [exact Hrem4|]. split; [exact Hu4|]. split; [exact Esae|].
              split; [reflexivity|].
              intros P HP. eapply oob_bind; [apply oob_u32; exact HP|]. rewrite Echk. cbn [pbind]. rewrite EPL. cbn [pbind].
              cbn [ctx_eqb andb negb orb]. rewrite Edp. cbn [opt_eqb pbind port_suffix].
              right. reflexivity.
      * (* something else follows the digits: failure, unless it is '\' after a valid port *)
        assert (mfail (' (port, rem4) <~ (' (p, any, rem0) <~ parse_port_loop CUrlParser rem3 0 false;;
                        (if negb any && ctx_eqb CUrlParser CSetter && negb (inp_is_empty rem0) then PErr InvalidPort
                         else POk (if negb any || opt_eqb (Some p) (default_port (nfirstn (nlen sch) (ser1 ++ hd host))) then None else Some p, rem0)));;
                        POk (match port with Some p => (ser1 ++ hd host) ++ [58] ++ decimal p | None => ser1 ++ hd host end,
                             nlen (ser1 ++ hd host), hi_of_host host, port, rem4))) as Hf.
        { destruct (65535 <? decimal_value (digits_of PR)) eqn:Eov; [rewrite HPL; exists InvalidPort; reflexivity|].
          destruct (after_digits PR) as [|c X1] eqn:EX; [discriminate Esae|]. cbn [starts_ae] in Esae.
          rewrite path_end_ae, Esae in HPL. cbn [orb] in HPL.
          replace (decimal_value (digits_of PR) <=? 65535) with true in Hbs by lia.
          cbn [andb starts_with_cp] in Hbs. rewrite Hbs in HPL.
          rewrite HPL. exists InvalidPort. reflexivity. }
        eapply mfail_bind2 with (P := True); [apply oob_u32; intros _; exact I|].
        rewrite Echk. cbn [pbind]. exact Hf.
  - (* the host ends at the end of the authority *)
    assert (starts_ae (hs_rest false HR) = true) as Esae.
    { destruct (hs_rest false HR) as [|c0 X0]; [reflexivity|]. cbn [port_split] in Eps. cbn [starts_ae].
      destruct (c0 =? 58) eqn:E58; [discriminate Eps|]. destruct Hhead as [K|K]; [exact K | rewrite K in E58; discriminate]. }
    assert (starts_with_cp 58 (hs_rest false HR) = false) as E58.
    { destruct (hs_rest false HR) as [|c0 X0]; [reflexivity|]. cbn [port_split] in Eps. cbn [starts_with_cp].
      destruct (c0 =? 58); [discriminate Eps | reflexivity]. }
    assert (inp_starts_with_char 58 rem2 = false) as Esw by (rewrite inp_starts_with_char_ntnl, Hrem2; exact E58).
    assert (inp_split_prefix_char 58 rem2 = None) as Esp.
    { unfold inp_split_prefix_char. destruct (inp_next rem2) as [[d r]|] eqn:En; [|reflexivity].
      destruct (inp_next_ntnl rem2 d r En) as [E1 _]. rewrite Hrem2 in E1. rewrite E1 in E58. cbn [starts_with_cp] in E58.
      rewrite E58. reflexivity. }
    exists host, sh, None, rem2.
    split; [reflexivity|]. split; [reflexivity|]. split; [reflexivity|]. split; [intros p Hp; discriminate Hp|].
    split; [exact Hrem2|]. split; [exact Hu2|]. split; [exact Esae|].
    split; [rewrite set_port_none; [reflexivity | exact Hpo]|].
    intros P HP. eapply oob_bind; [apply oob_u32; exact HP|].
    rewrite Esw. cbn [st_is_special]. rewrite Esp.
    assert (match host with HDomain [] => POk tt | _ => POk tt end = @POk unit tt) as -> by (destruct host as [[|a b]| |]; reflexivity).
    cbn [pbind port_suffix]. rewrite app_nil_r. right. reflexivity.
Qed.

End Stages.

(* ================= path start ================= *)
Section PathStart.
Variable dbg : bool.

Lemma slice_empty_at s : slice_o s (nlen s) (nlen s) = Some [].
Proof.
  rewrite slice_o_some by lia. rewrite N.sub_diag. reflexivity.
Qed.

(* nothing but tab / newline left *)
Lemma loop_all_tnl l : forall ser hh, ntnl l = [] ->
  parse_path_loop dbg CUrlParser STNotSpecial (nlen ser) l ser (nlen ser) [] hh = POk (ser, hh, []).
Proof.
  induction l as [|c r IH]; intros ser hh Hl.
  - cbn [parse_path_loop push_pending]. rewrite (finish_plain dbg (nlen ser) ser (nlen ser) false hh []);
      [reflexivity | apply slice_empty_at | reflexivity | reflexivity].
  - destruct (is_tnl c) eqn:Et; [|rewrite ntnl_cons in Hl by exact Et; discriminate Hl].
    rewrite ntnl_cons_tnl in Hl by exact Et. rewrite loop_cons_tnl by exact Et. cbn [push_pending]. apply IH. exact Hl.
Qed.

(* the '/' that starts the path *)
Lemma loop_first_slash l : forall ser hh t, usv_list l -> ntnl l = 47 :: t ->
  exists r, parse_path_loop dbg CUrlParser STNotSpecial (nlen ser) l ser (nlen ser) [] hh
            = parse_path_loop dbg CUrlParser STNotSpecial (nlen ser) r (ser ++ [47]) (nlen (ser ++ [47])) [] hh
            /\ ntnl r = t /\ usv_list r.
Proof.
  induction l as [|c r IH]; intros ser hh t Hu Hl; [discriminate Hl|].
  apply usv_cons in Hu. destruct Hu as [Huc Hur].
  destruct (is_tnl c) eqn:Et.
  - rewrite ntnl_cons_tnl in Hl by exact Et. rewrite loop_cons_tnl by exact Et. cbn [push_pending].
    exact (IH ser hh t Hur Hl).
  - rewrite ntnl_cons in Hl by exact Et. inversion Hl; subst c. exists r.
    split; [|split; [reflexivity | exact Hur]].
    rewrite loop_cons_slash. cbn [push_pending].
    rewrite (finish_plain dbg (nlen ser) (ser ++ [47]) (nlen ser) true hh []); [reflexivity | | reflexivity | reflexivity].
    rewrite nlen_app. replace (nlen ser + nlen [47] - 1) with (nlen ser) by (unfold nlen; cbn [length]; lia).
    rewrite slice_o_some by (rewrite ?nlen_app; lia). rewrite N.sub_diag. reflexivity.
Qed.

Lemma set_path_same u P : su_path u = SPList P -> set_path u (SPList P) = u.
Proof. destruct u as [x1 x2 x3 x4 x5 x6 x7 x8]. cbn. intros ->. reflexivity. Qed.

Lemma pqf_q_drop st l : pqf_q st (drop_while is_tnl l) = pqf_q st l.
Proof. unfold pqf_q. rewrite inp_next_drop. reflexivity. Qed.
Lemma pqf_f_drop l : pqf_f (drop_while is_tnl l) = pqf_f l.
Proof. unfold pqf_f. rewrite inp_next_drop. reflexivity. Qed.

Lemma ntnl_drop l : ntnl (drop_while is_tnl l) = ntnl l.
Proof.
  induction l as [|c r IH]; [reflexivity|]. cbn [drop_while]. destruct (is_tnl c) eqn:E; [|reflexivity].
  rewrite ntnl_cons_tnl by exact E. exact IH.
Qed.

Lemma drop_head l : match drop_while is_tnl l with [] => True | c :: _ => is_tnl c = false end.
Proof. induction l as [|c r IH]; [exact I|]. cbn [drop_while]. destruct (is_tnl c) eqn:E; [exact IH | exact E]. Qed.

Lemma usv_drop l : usv_list l -> usv_list (drop_while is_tnl l).
Proof.
  induction l as [|c r IH]; intros H; [exact H|]. cbn [drop_while]. destruct (is_tnl c); [|exact H].
  apply usv_cons in H. apply IH. tauto.
Qed.

Theorem path_start_spec rem ser hh : usv_list rem -> starts_ae (ntnl rem) = true ->
  (match ntnl rem with c :: r => if c =? 47 then spath_ok r [] [] = true else True | [] => True end) ->
  exists segs rest,
    parse_path_start dbg CUrlParser STNotSpecial hh ser rem = POk (ser ++ flat_map (fun s => 47 :: s) segs, hh, rest)
    /\ usv_list rest
    /\ forallb (fun c => negb ((c =? 63) || (c =? 35))) (flat_map (fun s => 47 :: s) segs) = true
    /\ forallb no_slash segs = true
    /\ (forall u, su_path u = SPList [] -> is_special u = false -> su_query u = None -> su_fragment u = None ->
          sauth_tail u (ntnl rem) = set_fragment (set_query (set_path u (SPList segs)) (pqf_q STNotSpecial rest)) (pqf_f rest))
    /\ match ntnl rest with [] => True | c :: _ => is_qh c = true end.
Proof.
  intros Hu Hae Hok. unfold parse_path_start, inp_split_first. cbn [st_is_special].
  destruct (ntnl rem) as [|c t] eqn:Ent.
  - (* nothing left *)
    rewrite (inp_next_none rem Ent). unfold parse_path. rewrite (loop_all_tnl rem ser hh Ent).
    exists [], []. cbn [flat_map]. rewrite app_nil_r. split; [reflexivity|]. split; [constructor|].
    split; [reflexivity|]. split; [reflexivity|]. split; [|exact I].
    intros u HP Hns Hq Hf. cbn [sauth_tail]. rewrite (set_path_same u [] HP).
    destruct u as [x1 x2 x3 x4 x5 x6 x7 x8]. cbn in *. subst. reflexivity.
  - destruct (inp_next_some rem c t Ent) as (r' & En & Hr' & Et). rewrite En.
    pose proof (inp_next_usv rem c r' Hu En) as Hur'.
    cbn [starts_ae] in Hae. destruct (c =? 47) eqn:E47.
    + (* a path *)
      apply N.eqb_eq in E47. subst c. cbn [N.eqb Pos.eqb orb]. unfold parse_path.
      destruct (loop_first_slash rem ser hh t Hu Ent) as (r2 & Eloop & Hr2 & Hur2). rewrite Eloop.
      assert (pend_ok []) as Hp0 by (split; [constructor | reflexivity]).
      assert (Bs ser [] = ser ++ [47]) as EB by (unfold Bs; cbn; rewrite !app_nil_r; reflexivity).
      rewrite <- Hr2 in Hok.
      destruct (loop_exact ser dbg r2 [] [] [] hh Hur2 Hp0 eq_refl eq_refl Hok) as (segs & last & Hloop & Hfst & Hsnd).
      cbn [app rev utf8_encode flat_map encode] in Hfst, Hsnd.
      pose proof Hloop as Hloop2. rewrite app_nil_r, EB in Hloop2. rewrite Hloop2.
      destruct (loop_inv ser dbg r2 [] [] [] hh _ _ _ Hur2 Hp0 eq_refl eq_refl eq_refl Hloop)
        as (segs1 & last1 & Es1 & Gs & Gl & _).
      assert (segs1 = segs /\ last1 = last) as [-> ->].
      { unfold Bs in Es1. rewrite <- !app_assoc in Es1. apply app_inv_head in Es1. apply app_inv_head in Es1.
        pose proof (spath_no_slash (ntnl r2) [] [] eq_refl eq_refl) as Hns. rewrite Hfst in Hns.
        rewrite forallb_app in Hns. apply andb_true_iff in Hns. destruct Hns as [Hns1 Hns2].
        cbn [forallb] in Hns2. rewrite andb_true_r in Hns2.
        assert (forallb no_slash segs1 = true /\ no_slash last1 = true) as [Hn1 Hn2].
        { split.
          - apply (forallb_impl good_seg); [|exact Gs]. intros s Hs.
            apply (forallb_impl seg_char); [|apply good_seg_chars; exact Hs].
            intros x Hx. unfold seg_char in Hx. apply andb_true_iff in Hx. destruct Hx as [Hx _].
            apply andb_true_iff in Hx. tauto.
          - apply (forallb_impl seg_char); [|apply good_seg_chars; exact Gl].
            intros x Hx. unfold seg_char in Hx. apply andb_true_iff in Hx. destruct Hx as [Hx _].
            apply andb_true_iff in Hx. tauto. }
        clear - Es1 Hns1 Hns2 Hn1 Hn2. revert segs1 Es1 Hn1.
        induction segs as [|s segs IH]; intros [|s1 segs1] E Hn1.
        - cbn in E. split; [reflexivity | symmetry; exact E].
        - exfalso. cbn [segs_text map concat app] in E. subst last. unfold no_slash in Hns2.
          rewrite <- app_assoc in Hns2. rewrite !forallb_app in Hns2. cbn [forallb N.eqb Pos.eqb negb andb] in Hns2.
          rewrite andb_false_r in Hns2. discriminate.
        - exfalso. cbn [segs_text map concat app] in E. subst last1. unfold no_slash in Hn2.
          rewrite <- app_assoc in Hn2. rewrite !forallb_app in Hn2. cbn [forallb N.eqb Pos.eqb negb andb] in Hn2.
          rewrite andb_false_r in Hn2. discriminate.
        - cbn [forallb] in Hns1, Hn1. apply andb_true_iff in Hns1, Hn1. destruct Hns1 as [A1 A2]. destruct Hn1 as [B1 B2].
          unfold segs_text in E. cbn [map concat] in E. fold (segs_text segs) in E. fold (segs_text segs1) in E.
          rewrite <- !app_assoc in E.
          assert (s = s1 /\ segs_text segs ++ last = segs_text segs1 ++ last1) as [-> E'].
          { clear - E A1 B1. revert s1 E B1. induction s as [|a s IHs]; intros [|b s1] E B1.
            - cbn in E. inversion E. split; reflexivity.
            - exfalso. cbn in E. inversion E; subst. unfold no_slash in B1. cbn in B1. discriminate.
            - exfalso. cbn in E. inversion E; subst. unfold no_slash in A1. cbn in A1. discriminate.
            - cbn in E. inversion E; subst. unfold no_slash in A1, B1. cbn [forallb] in A1, B1.
              apply andb_true_iff in A1, B1. destruct (IHs (proj2 A1) s1 H1 (proj2 B1)) as [-> K]. split; [reflexivity | exact K]. }
          destruct (IH A2 segs1 E' B2) as [-> ->]. split; reflexivity. }
      exists (segs ++ [last]), (cbb_rest r2).
      split.
      { f_equal. f_equal. f_equal. rewrite path_text_flat. unfold Bs, path_text. rewrite <- !app_assoc. reflexivity. }
      split; [apply usv_cbb_rest; exact Hur2|].
      split; [rewrite path_text_flat; apply path_text_no_qh; assumption|].
      split; [rewrite <- Hfst; apply spath_no_slash; reflexivity|].
      split.
      2:{ pose proof (cbb_rest_head r2) as Hh. destruct (cbb_rest r2) as [|d dr]; [exact I|]. destruct Hh as [Hh1 Hh2].
          rewrite ntnl_cons by exact Hh2. exact Hh1. }
      intros u HP Hnsu Hq Hf. cbn [sauth_tail]. replace (47 =? 47) with true by reflexivity.
      rewrite <- Hr2. rewrite Hfst, Hsnd.
      apply tail_url_ns; [exact Hnsu | exact Hq | exact Hf | apply cbb_rest_head].
    + (* '?' or '#': no path *)
      assert ((c =? 63) || (c =? 35) = true) as Eqh by (unfold is_ae in Hae; rewrite E47 in Hae; exact Hae).
      rewrite Eqh. exists [], rem. cbn [flat_map]. rewrite app_nil_r.
      split; [reflexivity|].
      split; [exact Hu|]. split; [reflexivity|]. split; [reflexivity|]. split; [|rewrite Ent; exact Eqh].
      intros u HP Hnsu Hq Hf. cbn [sauth_tail]. rewrite E47. rewrite (set_path_same u [] HP).
      rewrite <- (pqf_q_drop STNotSpecial rem), <- (pqf_f_drop rem).
      rewrite <- Ent, <- (ntnl_drop rem).
      apply tail_url_ns; [exact Hnsu | exact Hq | exact Hf|].
      pose proof (drop_head rem) as Hd. pose proof (ntnl_drop rem) as Hn. rewrite Ent in Hn.
      destruct (drop_while is_tnl rem) as [|d dr]; [exact I|]. rewrite ntnl_cons in Hn by exact Hd.
      inversion Hn; subst d. split; [exact Eqh | exact Hd].
Qed.

End PathStart.
