(* Proofs/Idna_C10c_Loop.v - the accepted fail-fast run of process_inner as a whole: the name is a run of pass-through
   labels (text `ptext pl`, length passthrough_up_to) followed by the labels that were processed; domain_buffer is the
   dot-joined list DBL of its labels, every one paired (PairOK of Proofs/Idna_C10c_Drun.v) with its already_punycode
   entry; the bidi flag is is_bidi of the buffer, and when it is set every label passed the bidi rule. *)
From RU Require Import Base.Prelude Base.Utf8 Base.U32_c13 Gen.Tables Model.Punycode Model.Uts46
  Proofs.Idna_Sim Proofs.Idna_Api Proofs.Idna_Known Proofs.Idna_Hyp Proofs.Idna_Redisc
  Proofs.Idna_C10_Deny Proofs.Idna_C10_Prefix Proofs.Idna_C10_Inner Proofs.Idna_C10_Walk
  Proofs.Idna_C10b_AsciiInner Proofs.Idna_C10b_Stmt Proofs.Idna_WalkEnc
  Proofs.Idna_C10c_Start Proofs.Idna_C10c_Drun Proofs.Idna_Mark.

Definition PassL (l : list N) : Prop := bytes l /\ is_passthrough_ascii_label l = true.
Definition ptext (pl : list (list N)) : list N := match pl with [] => [] | _ => join_dots pl ++ [DOT] end.

Lemma ptext_join pl done : done <> [] -> join_dots (pl ++ done) = ptext pl ++ join_dots done.
Proof.
  intros Hd. destruct pl as [|x xs]; [reflexivity|]. unfold ptext. rewrite join_dots_app by (try discriminate; exact Hd).
  rewrite <- app_assoc. reflexivity.
Qed.

Section BidiAll.
Variable A : adapter.
Lemma bidi_labels_all labels : forall he ls he', bidi_labels A true labels he = SOk (ls, he') ->
  he' = he /\ Forall (fun l => bidi_label A true l he = SOk (l, he)) labels.
Proof.
  induction labels as [|l r IH]; intros he ls he' H; cbn [bidi_labels] in H.
  - inversion H. split; [reflexivity|constructor].
  - apply sbind_ok in H. destruct H as ([l1 h1] & H1 & H). pose proof H1 as H1'. apply bidi_label_true in H1. destruct H1 as [-> ->].
    apply sbind_ok in H. destruct H as ([r1 h2] & H2 & H). destruct (IH _ _ _ H2) as [-> HF]. inversion H. subst.
    split; [reflexivity|]. constructor; assumption.
Qed.
Lemma bidi_labels_ok labels : Forall (fun l => bidi_label A true l false = SOk (l, false)) labels ->
  bidi_labels A true labels false = SOk (labels, false).
Proof.
  induction 1 as [|l r Hl _ IH]; cbn [bidi_labels]; [reflexivity|]. rewrite Hl. cbn [sbind]. rewrite IH. reflexivity.
Qed.
End BidiAll.

Section Loop.
Variable A : adapter.
Variable cfg : bool.
Variable deny : N.
Variable hy : hyphens.
Hypothesis HU : DenyUpper deny.
Hypothesis HL : LdhFree deny.
Hypothesis HOK : AdapterOK A.
Hypothesis HUSV : AdapterUSV A.
Hypothesis HNT : NvNoTrunc A.
Hypothesis HNI : NvIdem A.
Hypothesis HNM : AsciiNoMark A.
Hypothesis HMP : MapPrefix A.

Notation PairOK := (PairOK A cfg deny hy).

Lemma pairok_nodot dbl e : PairOK dbl e -> nodot dbl.
Proof.
  intros H. destruct H as [m Han Hn Hacc|m dec dbl Ha Hn Hp Hc Hd Hapd Hchk Hna|dbl Hnv Hg Hchk Hu Hpre].
  - unfold cmap. apply map_upper_nodot. exact Hn.
  - destruct (apd_inv A deny _ _ _ Hapd) as (_ & _ & Hg & _). exact (gc_all_nodot deny dbl Hg).
  - exact (gc_all_nodot deny dbl Hg).
Qed.
Lemma pairok_all_nodot DBL ap : Forall2 PairOK DBL ap -> Forall nodot DBL.
Proof. induction 1 as [|x y xs ys H _ IH]; constructor; [exact (pairok_nodot x y H)|exact IH]. Qed.

Lemma pairok_empty : PairOK [] (MixedCaseAscii []).
Proof.
  apply (pk_ascii A cfg deny hy []).
  - split; [constructor|reflexivity].
  - constructor.
  - unfold lab_acc, cmap. cbn [map existsb negb andb]. destruct hy; reflexivity.
Qed.

Definition DInv (all : list (list N)) (s : ist) (todo : list (list N)) : Prop :=
  i_he s = false /\ exists pl, Forall PassL pl /\
    if i_inpre s then
      i_db s = [] /\ i_ap s = [] /\ all = pl ++ todo /\ i_ptu s = len (join_dots pl) /\
      i_seen s = negb (match pl with [] => true | _ => false end)
    else
      i_seen s = true /\ i_ptu s = len (ptext pl) /\ exists done DBL, done <> [] /\ all = pl ++ done ++ todo /\
        DBL <> [] /\ i_db s = join_dots DBL /\ Forall2 PairOK DBL (i_ap s).

Lemma label_step_DInv all label s s' todo : bytes label -> nodot label -> DInv all s (label :: todo) ->
  label_step A cfg true hy deny label s = SOk s' -> DInv all s' todo.
Proof.
  intros Hb Hnd (Hhe & pl & Hpl & HH) H. unfold label_step in H.
  destruct (i_inpre s) eqn:Ein.
  - destruct HH as (Hdb & Hap & Hall & Hptu & Hseen). cbn [andb] in H.
    destruct (is_passthrough_ascii_label label) eqn:Ep.
    + inversion H. clear H. subst s'. split; [exact Hhe|]. exists (pl ++ [label]).
      split; [apply Forall_app; split; [exact Hpl|constructor; [split; assumption|constructor]]|].
      cbn [i_inpre i_db i_ap i_ptu i_seen]. repeat split; try assumption.
      * rewrite <- app_assoc. exact Hall.
      * rewrite Hptu, Hseen. destruct pl as [|x xs]; [cbn [negb app join_dots]; unfold len at 1; cbn [length]; lia|].
        cbn [negb]. rewrite join_dots_snoc by discriminate. rewrite len_app, len_cons1. lia.
      * destruct pl; reflexivity.
    + rewrite andb_false_r in H.
      assert (Hptu' : (if i_seen s && true then i_ptu s + 1 else i_ptu s) = len (ptext pl)).
      { rewrite Hptu, Hseen. destruct pl as [|x xs]; [reflexivity|]. cbn [negb andb]. unfold ptext. rewrite len_app. reflexivity. }
      rewrite Hptu' in H. rewrite Hdb, Hap, Hhe in H.
      destruct label as [|b r].
      * inversion H. clear H. subst s'. split; [reflexivity|]. exists pl. split; [exact Hpl|].
        cbn [i_inpre i_db i_ap i_ptu i_seen]. split; [reflexivity|]. split; [reflexivity|].
        exists [[]], [[]]. split; [discriminate|]. split; [exact Hall|]. split; [discriminate|]. split; [reflexivity|].
        constructor; [exact pairok_empty|constructor].
      * apply sbind_ok in H. destruct H as ([[db1 he1] ap1] & H1 & H). inversion H. clear H. subst s'.
        destruct (label_nonempty_pairs A cfg deny hy HU HL HOK HUSV HNT HNI HNM HMP (b :: r) _ _ _ _ _ ltac:(discriminate) Hb Hnd H1)
          as (-> & dbls & es & Hne & -> & -> & HP).
        split; [reflexivity|]. exists pl. split; [exact Hpl|].
        cbn [i_inpre i_db i_ap i_ptu i_seen]. split; [reflexivity|]. split; [reflexivity|].
        exists [b :: r], dbls. split; [discriminate|]. split; [exact Hall|]. split; [exact Hne|]. split; [reflexivity|exact HP].
  - destruct HH as (Hseen & Hptu & done & DBL & Hdn & Hall & HD & Hdb & HP). cbn [andb] in H.
    rewrite Hseen in H. cbn [andb negb] in H. rewrite Hhe in H.
    destruct label as [|b r].
    + inversion H. clear H. subst s'. split; [reflexivity|]. exists pl. split; [exact Hpl|].
      cbn [i_inpre i_db i_ap i_ptu i_seen]. split; [reflexivity|]. split; [exact Hptu|].
      exists (done ++ [[]]), (DBL ++ [[]]). split; [destruct done; discriminate|]. split; [rewrite <- app_assoc; exact Hall|].
      split; [destruct DBL; discriminate|]. split; [rewrite join_dots_snoc by exact HD; rewrite Hdb; reflexivity|].
      apply Forall2_app; [exact HP|constructor; [exact pairok_empty|constructor]].
    + apply sbind_ok in H. destruct H as ([[db1 he1] ap1] & H1 & H). inversion H. clear H. subst s'.
      destruct (label_nonempty_pairs A cfg deny hy HU HL HOK HUSV HNT HNI HNM HMP (b :: r) _ _ _ _ _ ltac:(discriminate) Hb Hnd H1)
        as (-> & dbls & es & Hne & -> & -> & HP2).
      split; [reflexivity|]. exists pl. split; [exact Hpl|].
      cbn [i_inpre i_db i_ap i_ptu i_seen]. split; [reflexivity|]. split; [exact Hptu|].
      exists (done ++ [b :: r]), (DBL ++ dbls). split; [destruct done; discriminate|]. split; [rewrite <- app_assoc; exact Hall|].
      split; [destruct DBL; [contradiction HD; reflexivity|discriminate]|].
      split; [rewrite (join_dots_app DBL dbls HD Hne), Hdb, <- app_assoc; reflexivity|].
      apply Forall2_app; assumption.
Qed.

Lemma labels_loop_DInv all labels : Forall bytes labels -> Forall nodot labels -> forall s s', DInv all s labels ->
  labels_loop A cfg true hy deny labels s = SOk s' -> DInv all s' [].
Proof.
  induction labels as [|l r IH]; intros Hb Hn s s' HI H; cbn [labels_loop] in H.
  - inversion H. subst. exact HI.
  - inversion Hb as [|? ? Hb1 Hb2]; subst. inversion Hn as [|? ? Hn1 Hn2]; subst.
    apply sbind_ok in H. destruct H as (s1 & H1 & H).
    exact (IH Hb2 Hn2 _ _ (label_step_DInv all l s s1 r Hb1 Hn1 HI H1) H).
Qed.

Theorem drun d ptu bd db ap : bytes d -> process_inner A cfg true hy deny d = IRes ptu bd false db ap -> ptu <> len d ->
  exists pl done DBL, Forall PassL pl /\ done <> [] /\ d = ptext pl ++ join_dots done /\ ptu = len (ptext pl) /\
    DBL <> [] /\ db = join_dots DBL /\ Forall2 PairOK DBL ap /\ is_bidi A cfg db = Ok bd /\
    (bd = true -> Forall (fun l => bidi_label A true l false = SOk (l, false)) DBL).
Proof.
  intros Hb H Hne. rewrite (inner_from_start A cfg true hy deny d Hb) in H. unfold process_innermost in H.
  rewrite N.sub_diag in H. fold s_start in H.
  assert (H0 : DInv (split_on DOT d) s_start (split_on DOT d)).
  { split; [reflexivity|]. exists []. split; [constructor|]. cbn [s_start i_inpre i_db i_ap i_ptu i_seen app join_dots negb].
    repeat split. }
  assert (Hbl : Forall bytes (split_on DOT d)) by (apply split_on_Forall; exact Hb).
  destruct (labels_loop A cfg true hy deny (split_on DOT d) s_start) as [s| |p] eqn:El; try discriminate.
  destruct (labels_loop_DInv _ _ Hbl (split_on_nodot d) _ _ H0 El) as (Hhe & pl & Hpl & HH).
  assert (Hres : IRes ptu bd false db ap = IRes (i_ptu s) bd false (i_db s) (i_ap s) /\ is_bidi A cfg (i_db s) = Ok bd /\
                 (bd = true -> exists ls h, bidi_labels A true (split_on DOT (i_db s)) (i_he s) = SOk (ls, h))).
  { destruct (is_bidi A cfg (i_db s)) as [[|]| |p] eqn:Eb; try discriminate.
    - destruct (bidi_labels A true (split_on DOT (i_db s)) (i_he s)) as [[ls he2]| |p] eqn:Ebl; try discriminate.
      pose proof (bidi_labels_true A _ _ _ _ Ebl) as Hls. subst ls. rewrite join_split in H. inversion H. subst.
      split; [reflexivity|]. split; [reflexivity|]. intros _. eauto.
    - inversion H. subst. split; [rewrite Hhe; reflexivity|]. split; [reflexivity|]. intros Hx. rewrite ?Hhe in Hx. discriminate Hx. }
  destruct Hres as (Hr & Hbd & Hbl2). inversion Hr. subst ptu db ap. clear Hr H.
  destruct (i_inpre s).
  - exfalso. destruct HH as (_ & _ & Hall & Hptu & _). apply Hne. rewrite Hptu. rewrite app_nil_r in Hall. rewrite <- Hall, join_split. reflexivity.
  - destruct HH as (_ & Hptu & done & DBL & Hdn & Hall & HD & Hdb & HP). rewrite app_nil_r in Hall.
    exists pl, done, DBL. repeat split; try assumption.
    + rewrite <- (join_split d), Hall. apply ptext_join. exact Hdn.
    + intros Hbt. destruct (Hbl2 Hbt) as (ls & h & Ebl). rewrite Hhe in Ebl.
      rewrite Hdb, (split_join DBL HD (pairok_all_nodot _ _ HP)) in Ebl. exact (proj2 (bidi_labels_all A _ _ _ _ Ebl)).
Qed.
End Loop.
