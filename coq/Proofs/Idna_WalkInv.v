(* Proofs/Idna_WalkInv.v - what the output walks of Uts46::process need from process_inner, in BOTH error modes and
   for EVERY adapter (no premise):
     - the fail-fast run either takes the early return or returns exactly what the marking run returns, without
       errors (a weak form of the simulation of Proofs/Idna_Sim.v that needs no rediscovery premise);
     - in the marking run the passed-through prefix of the input is ASCII, and every MixedCaseAscii /
       MixedCasePunycode entry of already_punycode carries an ASCII label. *)
From RU Require Import Base.Prelude Base.Utf8 Base.U32_c13 Gen.Tables Model.Punycode Model.Uts46
  Proofs.Idna_Sim Proofs.Idna_Api Proofs.Idna_Known Proofs.Idna_Hyp Proofs.Idna_Redisc
  Proofs.Idna_C10_Deny Proofs.Idna_C10_Prefix Proofs.Idna_C10_Inner Proofs.Idna_C10_Walk
  Proofs.Idna_Mark Proofs.Idna_MarkWalk.

(* ---- the weak simulation ---- *)
Section WRel.
Context {X : Type} (he_of : X -> bool).
Definition W (rt rf : step X) : Prop :=
  rt = SExit \/ match rf with
                | SOk x => he_of x = false /\ rt = SOk x
                | SExit => False
                | SPanic s => rt = SPanic s
                end.
Lemma W_of_R rt rf : R he_of rt rf -> W rt rf.
Proof.
  unfold W. destruct rf as [x| |s]; cbn [R]; intros H.
  - destruct (he_of x) eqn:E; [left; exact H|right; split; [reflexivity|exact H]].
  - contradiction.
  - destruct H as [H|H]; [left|right]; exact H.
Qed.
End WRel.
Lemma W_bind {X Y} (hx : X -> bool) (hy : Y -> bool) rt rf (kt kf : X -> step Y) :
  W hx rt rf -> (forall x, hx x = false -> W hy (kt x) (kf x)) -> W hy (sbind rt kt) (sbind rf kf).
Proof.
  intros [->|H] Hk; [left; reflexivity|]. destruct rf as [x| |s]; [|contradiction|].
  - destruct H as [E ->]. cbn [sbind]. apply Hk. exact E.
  - subst rt. right. reflexivity.
Qed.

Section WSim.
Variable A : adapter.
Variable cfg : bool.

Lemma label_nonempty_W hy deny label db ap :
  W heT (label_nonempty A cfg true hy deny label db false ap) (label_nonempty A cfg false hy deny label db false ap).
Proof.
  rewrite !label_nonempty_eq. destruct (split_ascii_fast_path_prefix label) as [ascii non_ascii] eqn:Es.
  destruct non_ascii as [|na nr]; [|apply W_of_R, complexF_R].
  destruct (has_punycode_prefix ascii) eqn:Eh; [|apply W_of_R, complexT_R].
  destruct (negb match last_opt ascii with Some l => l =? HYPHEN | None => false end
            && (len ascii - 4 <=? PUNYCODE_DECODE_MAX_INPUT_LENGTH)) eqn:Ec; [|left; reflexivity].
  destruct (decode_with cfg U8Internal (skipn 4 ascii)) as [dec| |s]; [|left; reflexivity|right; reflexivity].
  apply W_bind with (hx := he2); [apply W_of_R, after_punycode_decode_R|].
  intros [l h] E. cbn [he2 snd] in E. subst h.
  apply W_bind with (hx := he2); [apply W_of_R, check_label_R|].
  intros [l2 h2] E. cbn [he2 snd] in E. subst h2. right. split; reflexivity.
Qed.

Lemma label_step_W hy deny label s : i_he s = false ->
  W i_he (label_step A cfg true hy deny label s) (label_step A cfg false hy deny label s).
Proof.
  intros Hs. unfold label_step.
  destruct (i_inpre s && is_passthrough_ascii_label label); [right; split; [exact Hs|reflexivity]|].
  destruct label as [|b r]; [right; split; [exact Hs|reflexivity]|].
  rewrite Hs. apply W_bind with (hx := heT); [apply label_nonempty_W|].
  intros [[l h] q] E. cbn [heT snd fst] in E. subst h. right. split; reflexivity.
Qed.
Lemma labels_loop_W hy deny labels : forall s, i_he s = false ->
  W i_he (labels_loop A cfg true hy deny labels s) (labels_loop A cfg false hy deny labels s).
Proof.
  induction labels as [|l r IH]; intros s Hs; cbn [labels_loop]; [right; split; [exact Hs|reflexivity]|].
  apply W_bind with (hx := i_he); [apply label_step_W; exact Hs|]. intros x Hx. apply IH. exact Hx.
Qed.

(* the fail-fast run returns early or agrees with an error-free marking run *)
Definition inner_wsim (rt rf : inner_res) : Prop :=
  rt = I_EXIT \/ match rf with
                 | IRes ptu b he db ap => he = false /\ rt = rf
                 | IPanic s => rt = rf
                 end.

Lemma process_innermost_wsim hy deny d tail :
  inner_wsim (process_innermost A cfg true hy deny d tail) (process_innermost A cfg false hy deny d tail).
Proof.
  unfold process_innermost.
  set (s0 := {| i_ptu := len d - len tail; i_seen := false; i_inpre := true; i_db := []; i_he := false; i_ap := [] |}).
  pose proof (labels_loop_W hy deny (split_on DOT tail) s0 eq_refl) as HW.
  destruct HW as [->|HW]; [left; reflexivity|].
  destruct (labels_loop A cfg false hy deny (split_on DOT tail) s0) as [s| |p]; [|contradiction|rewrite HW; right; reflexivity].
  destruct HW as [Eh ->]. rewrite Eh.
  destruct (is_bidi A cfg (i_db s)) as [[|]| |p]; try (right; reflexivity); [|right; split; reflexivity].
  pose proof (bidi_labels_R A (split_on DOT (i_db s))) as HB.
  destruct (bidi_labels A false (split_on DOT (i_db s)) false) as [[ls h]| |p]; cbn [R heL snd] in HB.
  - destruct h; rewrite HB; [left; reflexivity|right; split; reflexivity].
  - contradiction.
  - destruct HB as [-> | ->]; [left|right]; reflexivity.
Qed.

Theorem process_inner_wsim hy deny d :
  inner_wsim (process_inner A cfg true hy deny d) (process_inner A cfg false hy deny d).
Proof.
  unfold process_inner. destruct (fast_tier d d) as [tail|].
  - apply process_innermost_wsim.
  - right. split; reflexivity.
Qed.
End WSim.
