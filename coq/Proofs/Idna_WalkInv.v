(* Proofs/Idna_WalkInv.v - what the output walks of Uts46::process need from process_inner, in BOTH error modes and
   for EVERY adapter (no premise):
     - the fail-fast run either takes the early return or returns exactly what the marking run returns, without
       errors (a weak form of the simulation of Proofs/Idna_Sim.v that needs no rediscovery premise);
     - in the marking run the passed-through prefix of the input is ASCII, and every MixedCaseAscii /
       MixedCasePunycode entry of already_punycode carries an ASCII label. *)
From RU Require Import Base.Prelude Base.Utf8 Base.U32_c13 Gen.Tables Model.Punycode Model.Uts46
  Proofs.Idna_Sim Proofs.Idna_Api Proofs.Idna_Known Proofs.Idna_Hyp Proofs.Idna_Redisc
  Proofs.Idna_C10_Deny Proofs.Idna_C10_Prefix Proofs.Idna_C10_Inner Proofs.Idna_C10_Walk
  Proofs.Idna_Mark Proofs.Idna_MarkWalk.

(* ---- the weak simulation ---- *)
Section WRel.
Context {X : Type} (he_of : X -> bool).
Definition W (rt rf : step X) : Prop :=
  rt = SExit \/ match rf with
                | SOk x => he_of x = false /\ rt = SOk x
                | SExit => False
                | SPanic s => rt = SPanic s
                end.
Lemma W_of_R rt rf : R he_of rt rf -> W rt rf.
Proof.
  unfold W. destruct rf as [x| |s]; cbn [R]; intros H.
  - destruct (he_of x) eqn:E; [left; exact H|right; split; [reflexivity|exact H]].
  - contradiction.
  - destruct H as [H|H]; [left|right]; exact H.
Qed.
End WRel.
Lemma W_bind {X Y} (hx : X -> bool) (hy : Y -> bool) rt rf (kt kf : X -> step Y) :
  W hx rt rf -> (forall x, hx x = false -> W hy (kt x) (kf x)) -> W hy (sbind rt kt) (sbind rf kf).
Proof.
  intros [->|H] Hk; [left; reflexivity|]. destruct rf as [x| |s]; [|contradiction|].
  - destruct H as [E ->]. cbn [sbind]. apply Hk. exact E.
  - subst rt. right. reflexivity.
Qed.

Section WSim.
Variable A : adapter.
Variable cfg : bool.

Lemma label_nonempty_W hy deny label db ap :
  W heT (label_nonempty A cfg true hy deny label db false ap) (label_nonempty A cfg false hy deny label db false ap).
Proof.
  rewrite !label_nonempty_eq. destruct (split_ascii_fast_path_prefix label) as [ascii non_ascii] eqn:Es.
  destruct non_ascii as [|na nr]; [|apply W_of_R, complexF_R].
  destruct (has_punycode_prefix ascii) eqn:Eh; [|apply W_of_R, complexT_R].
  destruct (negb match last_opt ascii with Some l => l =? HYPHEN | None => false end
            && (len ascii - 4 <=? PUNYCODE_DECODE_MAX_INPUT_LENGTH)) eqn:Ec; [|left; reflexivity].
  destruct (decode_with cfg U8Internal (skipn 4 ascii)) as [dec| |s]; [|left; reflexivity|right; reflexivity].
  apply W_bind with (hx := he2); [apply W_of_R, after_punycode_decode_R|].
  intros [l h] E. cbn [he2 snd] in E. subst h.
  apply W_bind with (hx := he2); [apply W_of_R, check_label_R|].
  intros [l2 h2] E. cbn [he2 snd] in E. subst h2. right. split; reflexivity.
Qed.

Lemma label_step_W hy deny label s : i_he s = false ->
  W i_he (label_step A cfg true hy deny label s) (label_step A cfg false hy deny label s).
Proof.
  intros Hs. unfold label_step.
  destruct (i_inpre s && is_passthrough_ascii_label label); [right; split; [exact Hs|reflexivity]|].
  destruct label as [|b r]; [right; split; [exact Hs|reflexivity]|].
  rewrite Hs. apply W_bind with (hx := heT); [apply label_nonempty_W|].
  intros [[l h] q] E. cbn [heT snd fst] in E. subst h. right. split; reflexivity.
Qed.
Lemma labels_loop_W hy deny labels : forall s, i_he s = false ->
  W i_he (labels_loop A cfg true hy deny labels s) (labels_loop A cfg false hy deny labels s).
Proof.
  induction labels as [|l r IH]; intros s Hs; cbn [labels_loop]; [right; split; [exact Hs|reflexivity]|].
  apply W_bind with (hx := i_he); [apply label_step_W; exact Hs|]. intros x Hx. apply IH. exact Hx.
Qed.

(* the fail-fast run returns early or agrees with an error-free marking run *)
Definition inner_wsim (rt rf : inner_res) : Prop :=
  rt = I_EXIT \/ match rf with
                 | IRes ptu b he db ap => he = false /\ rt = rf
                 | IPanic s => rt = rf
                 end.

Lemma process_innermost_wsim hy deny d tail :
  inner_wsim (process_innermost A cfg true hy deny d tail) (process_innermost A cfg false hy deny d tail).
Proof.
  unfold process_innermost.
  set (s0 := {| i_ptu := len d - len tail; i_seen := false; i_inpre := true; i_db := []; i_he := false; i_ap := [] |}).
  pose proof (labels_loop_W hy deny (split_on DOT tail) s0 eq_refl) as HW.
  destruct HW as [->|HW]; [left; reflexivity|].
  destruct (labels_loop A cfg false hy deny (split_on DOT tail) s0) as [s| |p]; [|contradiction|rewrite HW; right; reflexivity].
  destruct HW as [Eh ->]. rewrite Eh.
  destruct (is_bidi A cfg (i_db s)) as [[|]| |p]; try (right; reflexivity); [|right; split; reflexivity].
  pose proof (bidi_labels_R A (split_on DOT (i_db s))) as HB.
  destruct (bidi_labels A false (split_on DOT (i_db s)) false) as [[ls h]| |p]; cbn [R heL snd] in HB.
  - destruct h; rewrite HB; [left; reflexivity|right; split; reflexivity].
  - contradiction.
  - destruct HB as [-> | ->]; [left|right]; reflexivity.
Qed.

Theorem process_inner_wsim hy deny d :
  inner_wsim (process_inner A cfg true hy deny d) (process_inner A cfg false hy deny d).
Proof.
  unfold process_inner. destruct (fast_tier d d) as [tail|].
  - apply process_innermost_wsim.
  - right. split; reflexivity.
Qed.
End WSim.

(* ---- the ASCII part of the invariant (marking run) ---- *)
Definition mixed_ascii (e : aal) : Prop :=
  match e with MixedCaseAscii m | MixedCasePunycode m => ascii m | AalOther => True end.

Lemma repeat_other_ascii k : Forall mixed_ascii (repeat AalOther k).
Proof. induction k as [|k IH]; cbn [repeat]; constructor; [exact I|exact IH]. Qed.

Lemma passthrough_ascii label : bytes label -> is_passthrough_ascii_label label = true -> ascii label.
Proof.
  intros Hb H. pose proof (passthrough_clean DENY_STD3 label (proj2 std3_facts) Hb H) as Hc.
  eapply Forall_impl; [|exact Hc]. intros a [Ha _]. exact Ha.
Qed.

Section AsciiInv.
Variable A : adapter.
Variable cfg : bool.

Lemma sublabels_ap ff hy dd rest : forall s db cur he ap fcm ncj db' he' ap',
  sublabels A cfg ff hy dd s rest db cur he ap fcm ncj = SOk (db', he', ap') -> exists k, ap' = ap ++ repeat AalOther k.
Proof.
  induction rest as [|s2 rest IH]; intros s db cur he ap fcm ncj db' he' ap' H; cbn [sublabels] in H.
  - apply sbind_ok in H. destruct H as ([s1 h1] & _ & H). apply sbind_ok in H. destruct H as ([lab h2] & _ & H).
    inversion H. exists 0%nat. cbn [repeat]. rewrite app_nil_r. reflexivity.
  - apply sbind_ok in H. destruct H as ([s1 h1] & _ & H). apply sbind_ok in H. destruct H as ([lab h2] & _ & H).
    destruct (IH _ _ _ _ _ _ _ _ _ _ H) as (k & ->). exists (Datatypes.S k). cbn [repeat]. rewrite <- app_assoc. reflexivity.
Qed.

Lemma complexF_ap ff hy deny db he ap ascii non_ascii db' he' ap' :
  complexF A cfg ff hy deny db he ap ascii non_ascii = SOk (db', he', ap') -> Forall mixed_ascii ap -> Forall mixed_ascii ap'.
Proof.
  unfold complexF. intros H Hap. apply sbind_ok in H. destruct H as ([c1 h1] & _ & H).
  destruct (split1 DOT (map (apply_lower deny) (map_normalize A (utf8_lossy non_ascii)))) as [s rest].
  apply sublabels_ap in H. destruct H as (k & ->).
  apply Forall_app. split; [apply Forall_app; split; [exact Hap|constructor; [exact I|constructor]]|apply repeat_other_ascii].
Qed.

Lemma label_nonempty_ap ff hy deny label db he ap db' he' ap' :
  label_nonempty A cfg ff hy deny label db he ap = SOk (db', he', ap') -> Forall mixed_ascii ap -> Forall mixed_ascii ap'.
Proof.
  rewrite label_nonempty_eq. destruct (split_ascii_fast_path_prefix label) as [asc non_ascii] eqn:Es. intros H Hap.
  destruct non_ascii as [|na nr]; [|exact (complexF_ap _ _ _ _ _ _ _ _ _ _ _ H Hap)].
  pose proof (split_ascii_app _ _ _ Es) as Hlab. rewrite app_nil_r in Hlab. subst asc.
  pose proof (split_ascii_all label label Es) as Ha.
  assert (Hsn : forall e, mixed_ascii e -> Forall mixed_ascii (ap ++ [e])).
  { intros e He. apply Forall_app. split; [exact Hap|constructor; [exact He|constructor]]. }
  destruct (has_punycode_prefix label).
  - destruct (negb match last_opt label with Some l => l =? HYPHEN | None => false end
              && (len label - 4 <=? PUNYCODE_DECODE_MAX_INPUT_LENGTH)).
    + destruct (decode_with cfg U8Internal (skipn 4 label)) as [decoded| |s]; [| |discriminate].
      * apply sbind_ok in H. destruct H as ([c1 h1] & _ & H). apply sbind_ok in H. destruct H as ([c2 h2] & _ & H).
        inversion H. apply Hsn. exact Ha.
      * destruct ff; [discriminate|]. inversion H. apply Hsn. exact Ha.
    + destruct ff; [discriminate|]. exact (complexF_ap _ _ _ _ _ _ _ _ _ _ _ H Hap).
  - unfold complexT in H. apply sbind_ok in H. destruct H as ([c1 h1] & _ & H).
    apply sbind_ok in H. destruct H as ([c2 h2] & _ & H). destruct h2; inversion H; apply Hsn; [exact I|exact Ha].
Qed.

Variable d : list N.
Hypothesis Hd : bytes d.

Definition AInv (s : ist) : Prop :=
  ascii (firstn (N.to_nat (i_ptu s)) d) /\ Forall mixed_ascii (i_ap s).

Lemma label_step_AInv hy deny label s s' todo : SInv d s (label :: todo) -> AInv s ->
  label_step A cfg false hy deny label s = SOk s' -> AInv s'.
Proof.
  intros (P & HP & HS) [HA1 HA2] H. unfold label_step in H.
  destruct (i_inpre s && is_passthrough_ascii_label label) eqn:Ec.
  - apply andb_true_iff in Ec. destruct Ec as [Epre Epass]. rewrite Epre in HS. destruct HS as (_ & _ & _ & Hdd).
    inversion H. clear H. subst s'. split; cbn [i_ptu i_ap]; [|exact HA2].
    rewrite tailtext_cons in Hdd.
    assert (Hbl : bytes label).
    { unfold bytes in *. rewrite Hdd in Hd. apply Forall_app in Hd. destruct Hd as [_ H2].
      apply Forall_app in H2. destruct H2 as [_ H2]. apply Forall_app in H2. exact (proj1 H2). }
    assert (HP0 : firstn (N.to_nat (i_ptu s)) d = P) by (rewrite <- HP; rewrite Hdd at 1; apply firstn_len_app).
    rewrite HP0 in HA1.
    set (Q := P ++ (if i_seen s then [DOT] else []) ++ label).
    assert (HQ : len Q = i_ptu s + (if i_seen s then 1 else 0) + len label).
    { unfold Q. rewrite !len_app, HP. destruct (i_seen s); unfold len; cbn [length]; lia. }
    assert (HdQ : d = Q ++ tailtext true todo) by (unfold Q; rewrite <- !app_assoc; exact Hdd).
    rewrite <- HQ. rewrite HdQ at 1. rewrite firstn_len_app. unfold Q.
    apply ascii_app. split; [exact HA1|]. apply ascii_app. split; [|exact (passthrough_ascii label Hbl Epass)].
    destruct (i_seen s); [constructor; [unfold is_ascii, DOT; lia|constructor]|constructor].
  - assert (HA1' : ascii (firstn (N.to_nat (if i_seen s && i_inpre s then i_ptu s + 1 else i_ptu s)) d)).
    { destruct (i_seen s && i_inpre s) eqn:E; [|exact HA1]. apply andb_true_iff in E. destruct E as [Es Ep].
      rewrite Ep in HS. destruct HS as (_ & _ & _ & Hdd). rewrite Es in Hdd. cbn [tailtext] in Hdd.
      assert (HP0 : firstn (N.to_nat (i_ptu s)) d = P) by (rewrite <- HP; rewrite Hdd at 1; apply firstn_len_app).
      rewrite HP0 in HA1.
      assert (Hd2 : d = (P ++ [DOT]) ++ join_dots (label :: todo)) by (rewrite <- app_assoc; exact Hdd).
      replace (i_ptu s + 1) with (len (P ++ [DOT])) by (rewrite len_app, HP; reflexivity).
      rewrite Hd2 at 1. rewrite firstn_len_app. apply ascii_app. split; [exact HA1|].
      constructor; [unfold is_ascii, DOT; lia|constructor]. }
    destruct label as [|b r].
    + inversion H. clear H. subst s'. split; cbn [i_ptu i_ap]; [exact HA1'|].
      apply Forall_app. split; [exact HA2|constructor; [constructor|constructor]].
    + apply sbind_ok in H. destruct H as ([[db1 he1] ap1] & H1 & H). inversion H. clear H. subst s'.
      split; cbn [i_ptu i_ap]; [exact HA1'|]. exact (label_nonempty_ap _ _ _ _ _ _ _ _ _ _ H1 HA2).
Qed.

Lemma labels_loop_AInv hy deny labels : Forall nodot labels -> forall s s', SInv d s labels -> AInv s ->
  labels_loop A cfg false hy deny labels s = SOk s' -> AInv s'.
Proof.
  induction labels as [|l r IH]; intros Hn s s' HS HA H; cbn [labels_loop] in H.
  - inversion H. subst. exact HA.
  - apply sbind_ok in H. destruct H as (s1 & H1 & H).
    pose proof (label_step_SInv A cfg d hy deny l s r (Forall_inv Hn) HS) as HS1. rewrite H1 in HS1. cbn [SPost] in HS1.
    exact (IH (Forall_inv_tail Hn) s1 s' HS1 (label_step_AInv hy deny l s s1 r HS HA H1) H).
Qed.

Lemma process_innermost_ascii hy deny pre tail ptu bd he db ap : d = pre ++ tail -> ascii pre ->
  process_innermost A cfg false hy deny d tail = IRes ptu bd he db ap ->
  ascii (firstn (N.to_nat ptu) d) /\ Forall mixed_ascii ap.
Proof.
  intros Hdd Hpre. unfold process_innermost.
  set (s0 := {| i_ptu := len d - len tail; i_seen := false; i_inpre := true; i_db := []; i_he := false; i_ap := [] |}).
  assert (H0 : SInv d s0 (split_on DOT tail)).
  { exists pre. unfold s0. cbn [i_db i_ap i_ptu i_inpre i_seen i_he]. split; [rewrite Hdd, len_app; lia|].
    repeat split. cbn [tailtext]. rewrite join_split. exact Hdd. }
  assert (HA0 : AInv s0).
  { unfold AInv, s0. cbn [i_ptu i_ap]. split; [|constructor].
    replace (len d - len tail) with (len pre) by (rewrite Hdd, len_app; lia).
    rewrite Hdd at 1. rewrite firstn_len_app. exact Hpre. }
  assert (HX : I_EXIT = IRes ptu bd he db ap -> ascii (firstn (N.to_nat ptu) d) /\ Forall mixed_ascii ap).
  { intros H. inversion H. subst. cbn [N.to_nat firstn]. split; constructor. }
  destruct (labels_loop A cfg false hy deny (split_on DOT tail) s0) as [s| |p] eqn:El; [|exact HX|discriminate].
  pose proof (labels_loop_AInv hy deny _ (split_on_nodot tail) s0 s H0 HA0 El) as HA.
  destruct (is_bidi A cfg (i_db s)) as [[|]| |p]; try discriminate.
  - destruct (bidi_labels A false (split_on DOT (i_db s)) (i_he s)) as [[ls he2]| |p]; [|exact HX|discriminate].
    intros H. inversion H. subst. exact HA.
  - intros H. inversion H. subst. exact HA.
Qed.

Theorem process_inner_ascii hy deny ptu bd he db ap :
  process_inner A cfg false hy deny d = IRes ptu bd he db ap ->
  ascii (firstn (N.to_nat ptu) d) /\ Forall mixed_ascii ap.
Proof.
  unfold process_inner. destruct (fast_tier d d) as [tail|] eqn:Ef.
  - destruct (fast_tier_some d Hd d tail Ef) as [->|(pre & Hdd & Hp)].
    + apply (process_innermost_ascii hy deny [] d); [reflexivity|constructor].
    + apply (process_innermost_ascii hy deny pre tail); [exact Hdd|].
      eapply Forall_impl; [|exact Hp]. intros a [Ha|Ha]; unfold is_ascii; [lia|rewrite Ha; unfold DOT; lia].
  - intros H. inversion H. subst. split; [|constructor].
    unfold len. rewrite Nat2N.id, firstn_all.
    eapply Forall_impl; [|exact (fast_tier_none d Hd d Ef)]. intros a [Ha|Ha]; unfold is_ascii; [lia|rewrite Ha; unfold DOT; lia].
Qed.
End AsciiInv.
