(* Proofs/C07_EqProto.v - C07 equivalence for the protocol setter: on every pair of related records
   (Proofs/C07_Corr.v corr) whose Standard's record satisfies the invariants `sane`
   (Proofs/C07_SpecProto.v), for every value outside class 6 of Known_C07 (protocol := file on a
   special URL that is not a file URL, F-C07-7), url::quirks::set_protocol does not panic and leaves
   a record related to the result of the Standard's protocol attribute setter (scheme start state /
   scheme state with a state override on "value:"): the same values are not schemes; special <->
   non-special is refused; "file" is refused with credentials or a port; from "file" with an empty
   host is refused; file -> file is refused by the code and is a no-op in the Standard; otherwise
   the scheme text is replaced and a port equal to the new default port is dropped. *)
From RU Require Import Base.Prelude Base.Utf8 Base.Utf8Facts Model.AsciiSet Gen.Tables Model.PercentEncoding
  Model.HostT Model.UrlRecord Model.Parser Model.Setters Model.WF Model.KnownC01 Model.KnownC07 Spec.Whatwg
  Proofs.ListN Proofs.C03_WF Proofs.C06_List Proofs.C06_WFI Proofs.C06_Tail Proofs.C06_Suffix Proofs.C06_Front
  Proofs.C06_Steps Proofs.C06_FragQuery Proofs.C06_Port Proofs.C06_Cred Proofs.C06_Atomic Proofs.C06_Scheme
  Proofs.C02_Enc Proofs.C01_Tables Proofs.C01_EqRun Proofs.C01_EqEnc Proofs.C01_EqApi Proofs.C08_Input
  Proofs.C07_Defs Proofs.C07_Setters Proofs.C07_Corr Proofs.C07_SpecRun Proofs.C07_EqCred Proofs.C07_EqPort
  Proofs.C07_SpecProto.

(* ---------- the value up to its first ':' on the model side = the scheme scan on "value:" ---------- *)
Lemma setter_scheme_loop l : forall acc,
  match parse_scheme_loop CSetter acc (take_until_colon l), scheme_scan (rev acc) (notnl l ++ [58]) with
  | Some (s, rem), Some (s', _) => s = s' /\ rem = []
  | None, None => True
  | _, _ => False
  end.
Proof.
  induction l as [|c r IH]; intros acc.
  - cbn [take_until_colon parse_scheme_loop ctx_eqb notnl filter app scheme_scan].
    change (is_scheme_cp 58) with false. cbn [N.eqb Pos.eqb]. split; reflexivity.
  - cbn [take_until_colon]. destruct (c =? 58) eqn:E58.
    + apply N.eqb_eq in E58. subst c. cbn [parse_scheme_loop ctx_eqb]. rewrite notnl_cons.
      change (is_tnl 58) with false. cbn [app scheme_scan]. change (is_scheme_cp 58) with false.
      cbn [N.eqb Pos.eqb]. split; reflexivity.
    + cbn [parse_scheme_loop]. rewrite notnl_cons. destruct (is_tnl c) eqn:Et; [apply IH|].
      cbn [app scheme_scan]. unfold is_scheme_cp, is_alnum, is_alpha.
      destruct (is_lower c || is_digit c || (c =? 43) || (c =? 45) || (c =? 46)) eqn:E1.
      * assert (is_upper c = false) as Eu by (unfold is_upper, is_lower, is_digit in *; lia).
        replace (is_upper c || is_lower c || is_digit c || (c =? 43) || (c =? 45) || (c =? 46)) with true
          by (rewrite Eu; cbn [orb]; symmetry; exact E1).
        unfold to_lower. rewrite Eu. specialize (IH (c :: acc)). cbn [rev] in IH. exact IH.
      * destruct (is_upper c) eqn:Eu.
        -- cbn [orb]. unfold to_lower. rewrite Eu. specialize (IH ((c + 32) :: acc)). cbn [rev] in IH. exact IH.
        -- replace (false || is_lower c || is_digit c || (c =? 43) || (c =? 45) || (c =? 46)) with false
             by (symmetry; exact E1).
           rewrite E58. exact I.
Qed.

Lemma setter_scheme_head l :
  inp_starts_with_pred is_alpha (take_until_colon l)
  = match notnl l ++ [58] with c :: _ => is_alpha c | [] => false end.
Proof.
  induction l as [|c r IH]; [reflexivity|].
  cbn [take_until_colon]. destruct (c =? 58) eqn:E58.
  - apply N.eqb_eq in E58. subst c. reflexivity.
  - rewrite notnl_cons. unfold inp_starts_with_pred, inp_next in *. cbn [drop_while].
    destruct (is_tnl c) eqn:Et; [exact IH | reflexivity].
Qed.

Theorem setter_scheme_bridge v :
  match parse_scheme CSetter (take_until_colon v), spec_scheme (notnl v ++ [58]) with
  | Some (s, rem), Some (s', _) => s = s' /\ rem = []
  | None, None => True
  | _, _ => False
  end.
Proof.
  unfold parse_scheme, spec_scheme. rewrite setter_scheme_head.
  destruct (notnl v ++ [58]) as [|c t] eqn:E; [exact I|].
  destruct (is_alpha c); [|exact I]. rewrite <- E. exact (setter_scheme_loop v []).
Qed.

(* the scheme the scan returns is the lower-cased text before the first ':' *)
Lemma scheme_scan_text t : forall buf s r, scheme_scan buf t = Some (s, r) ->
  s = buf ++ map to_lower (take_until_colon t).
Proof.
  induction t as [|c t IH]; intros buf s r H; [discriminate H|].
  cbn [scheme_scan] in H. cbn [take_until_colon]. destruct (is_scheme_cp c) eqn:Ec.
  - assert (c =? 58 = false) as E58.
    { destruct (c =? 58) eqn:E; [|reflexivity]. apply N.eqb_eq in E. subst c. discriminate Ec. }
    rewrite E58. cbn [map]. rewrite (IH _ _ _ H), <- app_assoc. reflexivity.
  - destruct (c =? 58); [|discriminate H]. inversion H; subst. cbn [map]. symmetry. apply app_nil_r.
Qed.

Lemma take_until_colon_snoc a : take_until_colon (a ++ [58]) = take_until_colon a.
Proof.
  induction a as [|x a IH]; [reflexivity|]. cbn [app take_until_colon]. rewrite IH. reflexivity.
Qed.

Lemma spec_scheme_text v s r : spec_scheme (notnl v ++ [58]) = Some (s, r) ->
  s = map to_lower (take_until_colon (no_tnl v)).
Proof.
  unfold spec_scheme. intros H. change (no_tnl v) with (notnl v).
  destruct (notnl v ++ [58]) as [|c t] eqn:E; [discriminate H|].
  destruct (is_alpha c); [|discriminate H]. rewrite <- E in H.
  rewrite (scheme_scan_text _ _ _ _ H), take_until_colon_snoc. reflexivity.
Qed.

(* ---------- scheme classes on both sides ---------- *)
Lemma file_test_same s : st_is_file (scheme_type_of s) = list_eqb s str_file.
Proof.
  change str_file with s_file. unfold scheme_type_of.
  destruct (list_eqb s s_http) eqn:E1; [apply list_eqb_spec in E1; subst; reflexivity|].
  destruct (list_eqb s s_https) eqn:E2; [apply list_eqb_spec in E2; subst; reflexivity|].
  destruct (list_eqb s s_ws) eqn:E3; [apply list_eqb_spec in E3; subst; reflexivity|].
  destruct (list_eqb s s_wss) eqn:E4; [apply list_eqb_spec in E4; subst; reflexivity|].
  destruct (list_eqb s s_ftp) eqn:E5; [apply list_eqb_spec in E5; subst; reflexivity|].
  cbn [orb]. destruct (list_eqb s s_file); reflexivity.
Qed.

(* ---------- Url::set_scheme, evaluated ---------- *)
Lemma set_scheme_eval dbg u sch new rem old : wf_b u = true ->
  parse_scheme CSetter sch = Some (new, rem) -> scheme u = Some old ->
  Setters.set_scheme dbg u sch =
  (let nst := scheme_type_of new in
   let ost := scheme_type_of old in
   if (st_is_special nst && negb (st_is_special ost)) || (negb (st_is_special nst) && st_is_special ost)
      || (st_is_file nst && has_authority_b u)
   then Some (u, SErrUnit)
   else if negb (inp_is_empty rem) || (negb (has_host u) && st_is_special nst)
   then Some (u, SErrUnit)
   else r <- Setters.set_port dbg (with_scheme u new) (port u) ;; Some (fst r, SOk)).
Proof.
  intros W Eps Es. unfold Setters.set_scheme, input_new_no_trim. rewrite Eps.
  unfold u_scheme_type. rewrite Es. cbn [bindo]. rewrite (has_authority_eval dbg u W). cbn [bindo]. cbn zeta.
  match goal with |- context [if ?c then Some (u, SErrUnit) else _] => destruct c eqn:C1 end; [reflexivity|].
  match goal with |- context [if ?c then Some (u, SErrUnit) else _] => destruct c eqn:C2 end; [reflexivity|].
  destruct (wf_scheme_facts u W) as (Hse & Hcolon & Hselt).
  pose proof (wf_se_lt_ps u W) as Hps. pose proof (path_start_le_len u W) as Hpl.
  destruct (wf_tail_offsets_ge u (path_start u) W ltac:(lia)) as [Gq Gf].
  assert (scheme_end u <= username_end u /\ scheme_end u <= host_start u /\ scheme_end u <= host_end u) as (G1 & G2 & G3).
  { destruct (has_authority_b u) eqn:Ha.
    - pose proof (wf_auth_facts u W Ha) as F. pose proof (af_ue F); pose proof (af_hs F); pose proof (af_he F). lia.
    - pose proof (wf_noauth_facts u W Ha) as F. rewrite (nf_ue F), (nf_hs F), (nf_he F). lia. }
  rewrite !adjust_ok by lia. rewrite !adjust_opt_ok by (destruct (query_start u), (fragment_start u); try exact I; lia).
  cbn [bindo]. unfold u_slice_from. rewrite slice_from_o_some by lia. cbn [bindo].
  match goal with |- context [Setters.set_port dbg ?X _] => change X with (with_scheme u new) end.
  reflexivity.
Qed.

Lemma wf_offsets_ge_scheme u : wf_b u = true ->
  scheme_end u <= username_end u /\ scheme_end u <= host_start u /\ scheme_end u < path_start u.
Proof.
  intros W. pose proof (wf_se_lt_ps u W) as Hps.
  destruct (has_authority_b u) eqn:Ha.
  - pose proof (wf_auth_facts u W Ha) as F. pose proof (af_ue F); pose proof (af_hs F). lia.
  - pose proof (wf_noauth_facts u W Ha) as F. rewrite (nf_ue F), (nf_hs F). lia.
Qed.

Lemma set_port_same su : Whatwg.set_port su (su_port su) = su.
Proof. destruct su; reflexivity. Qed.

Lemma set_scheme_same su : Whatwg.set_scheme su (su_scheme su) = su.
Proof. destruct su; reflexivity. Qed.

Section Proto.
Variable dbg : bool.
Variable shs : spec_host -> list N.

Notation corr := (corr dbg shs).

(* the scheme text of a related pair is replaced on both sides *)
Lemma corr_with_scheme u su new : corr u su ->
  (exists c r, new = c :: r /\ is_alpha c = true) -> forallb scheme_char new = true ->
  corr (with_scheme u new) (Whatwg.set_scheme su new).
Proof.
  intros C Hhead Hchars. pose proof (co_wf _ _ _ _ C) as W. pose proof (co_ht _ _ _ _ C) as HT.
  pose proof (ws_wf u new W Hhead Hchars) as W1.
  pose proof (ws_back dbg u new W Hhead Hchars) as (B1 & B2 & B3).
  pose proof (ws_has_authority u new) as Ha1.
  destruct (wf_offsets_ge_scheme u W) as (G1 & G2 & G3).
  set (u1 := with_scheme u new) in *.
  constructor; cbn [Whatwg.set_scheme su_scheme su_username su_password su_host su_port su_path su_query su_fragment].
  - exact W1.
  - exact (ws_host_text_ok u new W HT).
  - exact (ws_scheme u new W Hhead Hchars).
  - rewrite <- (co_user _ _ _ _ C). exact (ws_username dbg u new W Hhead Hchars).
  - rewrite <- (co_pass _ _ _ _ C). exact (ws_password dbg u new W Hhead Hchars).
  - rewrite <- (co_host _ _ _ _ C). unfold u1. rewrite (ws_host_str u new W Hhead Hchars). reflexivity.
  - change (has_host u1) with (has_host u). exact (co_hh _ _ _ _ C).
  - rewrite Ha1. exact (co_auth _ _ _ _ C).
  - rewrite Ha1. change (username_end u1) with (shift (scheme_end u) (nlen new) (username_end u)).
    change (host_start u1) with (shift (scheme_end u) (nlen new) (host_start u)).
    replace (shift (scheme_end u) (nlen new) (username_end u) =? shift (scheme_end u) (nlen new) (host_start u))
      with (username_end u =? host_start u) by (unfold shift; lia).
    exact (co_at _ _ _ _ C).
  - exact (co_port _ _ _ _ C).
  - rewrite B1. exact (co_path _ _ _ _ C).
  - rewrite B2. exact (co_query _ _ _ _ C).
  - rewrite B3. exact (co_frag _ _ _ _ C).
  - rewrite Ha1. change (path_start u1) with (shift (scheme_end u) (nlen new) (path_start u)).
    change (scheme_end u1) with (nlen new).
    replace (shift (scheme_end u) (nlen new) (path_start u) =? nlen new + 3)
      with (path_start u =? scheme_end u + 3) by (unfold shift; lia).
    exact (co_marker _ _ _ _ C).
  - pose proof (co_path _ _ _ _ C) as Ept.
    assert (path u1 = Some (serialize_path su)) as Ept1 by (rewrite B1; exact Ept).
    rewrite (is_opaque_by_path u1 _ W1 Ept1), Ha1.
    change (path_start u1) with (shift (scheme_end u) (nlen new) (path_start u)).
    change (scheme_end u1) with (nlen new).
    replace (shift (scheme_end u) (nlen new) (path_start u) =? nlen new + 1)
      with (path_start u =? scheme_end u + 1) by (unfold shift; lia).
    rewrite <- (is_opaque_by_path u _ W Ept). exact (co_opaque _ _ _ _ C).
  - exact (co_uclean _ _ _ _ C).
Qed.

(* the port is re-normalised against the new scheme: `let _ = self.set_port(previous_port)` *)
Lemma corr_renormalise u1 su1 : corr u1 su1 -> sane su1 ->
  exists r, Setters.set_port dbg u1 (port u1) = Some r /\ corr (fst r) (renorm su1).
Proof.
  intros C S. pose proof (co_wf _ _ _ _ C) as W. unfold renorm.
  unfold Setters.set_port. rewrite (corr_cannot_have dbg shs u1 su1 C).
  destruct (cannot_have_username_password_port su1) eqn:Ecs; cbn [bindo].
  - eexists. split; [reflexivity|]. cbn [fst].
    destruct (sa_cannot _ S Ecs) as [Ep _]. rewrite Ep. exact C.
  - destruct (chcp_eval u1 W) as (c & Ec & Hc). rewrite (corr_cannot_have dbg shs u1 su1 C), Ecs in Ec.
    inversion Ec; subst c. specialize (Hc eq_refl).
    rewrite (co_scheme _ _ _ _ C). cbn [bindo]. rewrite (co_port _ _ _ _ C).
    set (p' := match su_port su1 with
               | Some x => if opt_eqb (su_port su1) (default_port (su_scheme su1)) then None else Some x
               | None => None end).
    assert (match p' with Some x => x <= 65535 | None => True end) as Hp.
    { pose proof (af_port (wf_auth_facts u1 W (has_host_authority u1 W Hc))) as P.
      rewrite (co_port _ _ _ _ C) in P. unfold p'. destruct (su_port su1) as [x|]; [|exact I].
      destruct (opt_eqb (Some x) (default_port (su_scheme su1))); [exact I | tauto]. }
    destruct (corr_port dbg shs u1 su1 p' C Hc Hp) as (u2 & E & C2). rewrite E. cbn [bindo].
    eexists. split; [reflexivity|]. cbn [fst].
    replace (match su_port su1 with
             | Some p => if port_is_default (su_scheme su1) p then Whatwg.set_port su1 None else su1
             | None => su1 end) with (Whatwg.set_port su1 p'); [exact C2|].
    unfold p', port_is_default. rewrite <- default_ports_are_the_standards.
    destruct (su_port su1) as [x|] eqn:Ex.
    + destruct (default_port (su_scheme su1)) as [d|]; cbn [opt_eqb].
      * rewrite (N.eqb_sym d x). destruct (x =? d); [reflexivity|]. rewrite <- Ex. apply set_port_same.
      * rewrite <- Ex. apply set_port_same.
    + rewrite <- Ex. apply set_port_same.
Qed.

(* the change is carried out on both sides *)
Lemma protocol_accept u su new rem x : corr u su -> sane su ->
  parse_scheme CSetter x = Some (new, rem) -> proto_refuses su new = false ->
  exists u', option_map fst (r <- Setters.set_port dbg (with_scheme u new) (port u) ;; Some (fst r, SOk)) = Some u'
    /\ corr u' (renorm (Whatwg.set_scheme su new)).
Proof.
  intros C S Eps R.
  pose proof (corr_with_scheme u su new C (parse_scheme_head _ _ _ _ Eps) (parse_scheme_chars _ _ _ _ Eps)) as C1.
  destruct (corr_renormalise _ _ C1 (set_scheme_sane su new S R)) as (r & E & C2).
  change (port u) with (port (with_scheme u new)). rewrite E. cbn [bindo option_map fst].
  eexists. split; [reflexivity | exact C2].
Qed.

End Proto.

(* the accept / refuse decision of Url::set_scheme (c1, then c2) against steps 2.1.1 - 2.1.4 of the
   scheme state (R), on booleans: a, b = old / new scheme is special; fo, fn = old / new scheme is
   "file"; hn, he = host null / empty; cr, po = credentials / port present.  The hypotheses are the
   invariants `sane` and "outside class 6". *)
Lemma proto_bool a b fo fn hn he cr po :
  (fo = true -> a = true) -> (fn = true -> b = true) ->
  (hn || he || fo = true -> po = false /\ cr = false) ->
  (a = true -> hn = false /\ (fo = false -> he = false)) ->
  (a = true -> fo = false -> fn = false) ->
  let c1 := (b && negb a) || (negb b && a) || (fn && negb hn) in
  let c2 := negb (negb (hn || he)) && b in
  let R := (a && negb b) || (negb a && b) || ((cr || po) && fn) || (fo && he) in
  (c1 = false -> c2 = false -> R = false)
  /\ (c1 = true \/ c2 = true -> R = true \/ (fo = true /\ fn = true)).
Proof.
  intros H1 H2 H3 H4 H5. cbn zeta.
  destruct a, b, fo, fn, hn, he, cr, po; cbn [andb orb negb] in *; intuition (try discriminate).
Qed.

Lemma opt_is_some_not_null (h : option spec_host) : opt_is_some h = negb (host_is_null h).
Proof. destruct h; reflexivity. Qed.

Section ProtoStep.
Variable dbg : bool.
Variable shp : bool -> list N -> option spec_host.
Variable shs : spec_host -> list N.

Notation corr := (corr dbg shs).

Theorem protocol_step u su v : corr u su -> sane su -> known_c07 u QProtocol v = 0 ->
  exists u' su', option_map fst (q_set_protocol dbg u v) = Some u' /\ spec_step shp QProtocol su v = Some su'
    /\ corr u' su' /\ sane su'.
Proof.
  intros C S Hk. pose proof (co_wf _ _ _ _ C) as W.
  unfold spec_step. cbn [setter_of_q]. rewrite spec_protocol_closed.
  unfold q_set_protocol. rewrite (protocol_value_cut v).
  pose proof (setter_scheme_bridge v) as K.
  destruct (parse_scheme CSetter (take_until_colon v)) as [[new rem]|] eqn:Eps.
  2:{ destruct (spec_scheme (notnl v ++ [58])) as [[s' r']|]; [contradiction|].
      unfold Setters.set_scheme, input_new_no_trim. rewrite Eps. cbn [option_map fst].
      exists u, su. split; [reflexivity|]. split; [reflexivity|]. split; [exact C | exact S]. }
  destruct (spec_scheme (notnl v ++ [58])) as [[s' r']|] eqn:Ess; [|contradiction].
  destruct K as [<- ->].
  pose proof (spec_scheme_text v new r' Ess) as Etext.
  rewrite (set_scheme_eval dbg u _ new [] (su_scheme su) W Eps (co_scheme _ _ _ _ C)). cbn zeta.
  change (inp_is_empty []) with true. cbn [negb orb].
  rewrite !special_schemes_are_the_standards, !file_test_same.
  rewrite (co_auth _ _ _ _ C), (co_hh _ _ _ _ C), opt_is_some_not_null.
  (* outside class 6 *)
  assert (is_special_scheme (su_scheme su) = true -> list_eqb (su_scheme su) str_file = false ->
          list_eqb new str_file = false) as K6.
  { intros Hsp Hnf. destruct (list_eqb new str_file) eqn:Enf; [exfalso|reflexivity].
    unfold known_c07 in Hk. unfold u_scheme_or_empty in Hk. rewrite (co_scheme _ _ _ _ C) in Hk.
    rewrite <- Etext in Hk. change s_file with str_file in Hk.
    rewrite Enf, special_schemes_are_the_standards, Hsp, Hnf in Hk. discriminate Hk. }
  pose proof (proto_bool (is_special_scheme (su_scheme su)) (is_special_scheme new)
                (list_eqb (su_scheme su) str_file) (list_eqb new str_file)
                (host_is_null (su_host su)) (host_is_empty (su_host su))
                (includes_credentials su) (opt_is_some (su_port su))
                (file_is_special _) (file_is_special _)) as PB.
  assert (host_is_null (su_host su) || host_is_empty (su_host su) || list_eqb (su_scheme su) str_file = true ->
          opt_is_some (su_port su) = false /\ includes_credentials su = false) as H3.
  { intros Hc. destruct (sa_cannot _ S Hc) as [Ep Ecr]. rewrite Ep. split; [reflexivity | exact Ecr]. }
  specialize (PB H3 (sa_special _ S) K6). cbn zeta in PB. destruct PB as [PB0 PB1].
  fold (proto_refuses su new) in PB0, PB1.
  assert (forall A : Type, forall (x y : A) (c1 c2 : bool),
            (if c1 then x else if c2 then x else y) = if c1 || c2 then x else y) as Hif
    by (intros A x y [|] [|]; reflexivity).
  rewrite Hif.
  match goal with |- context [if ?c1 || ?c2 then _ else _] =>
    destruct c1 eqn:E1; [|destruct c2 eqn:E2] end; cbn [orb].
  - cbn [option_map fst]. exists u, (proto_decide su new). split; [reflexivity|]. split; [reflexivity|].
    split; [|exact (proto_decide_sane su new S)].
    unfold proto_decide. destruct (PB1 (or_introl eq_refl)) as [-> | [Eof Enf]]; [exact C|].
    destruct (proto_refuses su new); [exact C|].
    destruct (H3 ltac:(rewrite Eof; apply orb_true_r)) as [Ep _].
    apply list_eqb_spec in Eof. apply list_eqb_spec in Enf. rewrite Enf, <- Eof, set_scheme_same.
    unfold renorm. destruct (su_port su); [discriminate Ep | exact C].
  - cbn [option_map fst]. exists u, (proto_decide su new). split; [reflexivity|]. split; [reflexivity|].
    split; [|exact (proto_decide_sane su new S)].
    unfold proto_decide. destruct (PB1 (or_intror eq_refl)) as [-> | [Eof Enf]]; [exact C|].
    destruct (proto_refuses su new); [exact C|].
    destruct (H3 ltac:(rewrite Eof; apply orb_true_r)) as [Ep _].
    apply list_eqb_spec in Eof. apply list_eqb_spec in Enf. rewrite Enf, <- Eof, set_scheme_same.
    unfold renorm. destruct (su_port su); [discriminate Ep | exact C].
  - specialize (PB0 eq_refl eq_refl).
    destruct (protocol_accept dbg shs u su new [] _ C S Eps PB0) as (u' & E & C').
    exists u', (proto_decide su new). split; [exact E|]. split; [reflexivity|].
    split; [|exact (proto_decide_sane su new S)].
    unfold proto_decide. rewrite PB0. exact C'.
Qed.

End ProtoStep.
