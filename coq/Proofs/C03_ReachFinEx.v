(* Proofs/C03_ReachFinEx.v - non-vacuity of C03_round_trips_reach on the host MODEL (Model/Host.v with the oracle
   idna_clean): the hypotheses hold and a history of C02's ReachC4 - parse "http://1.2.3.4:81/p", quirks set_hostname
   "[::1]", set_query "k=v" -> "http://[::1]:81/p?k=v" (an IPv6 host). *)
From RU Require Import Proofs.C15_Ser.
From Coq Require Import String.
From RU Require Import Base.Prelude Base.Utf8 Model.HostT Model.Host Model.UrlRecord Model.Parser Model.Setters Model.WF
  Proofs.ListN Proofs.C02_Reach Proofs.C02_AuthMain Proofs.C02_Hist Proofs.C02_HistInst Proofs.C02_SetHostCanon
  Proofs.C02_Reach3 Proofs.C02_Reach4 Proofs.C02_Stmt4 Proofs.C02_Reach5 Proofs.C09_Host Proofs.C09_Inst Proofs.C16_RT6Model
  Proofs.C03_ReachEx.
Open Scope string_scope.
Open Scope N_scope.
Open Scope list_scope.

Definition mhp0 := host_parse idna_clean.

Lemma reachfin_hyps : HostOK2 mhp0 host_parse_opaque host_display /\ host_nonempty mhp0 host_parse_opaque.
Proof. split; [exact HostOK2_inhabited | exact (host_nonempty_model idna_clean)]. Qed.

Definition reachc4_example_stmt : Prop :=
  exists u, ReachC4 true mhp0 host_parse_opaque host_display u /\ ser u = B "http://[::1]:81/p?k=v".

Lemma reachc4_example : reachc4_example_stmt.
Proof.
  destruct (parse_url true mhp0 host_parse_opaque host_display None None (B "http://1.2.3.4:81/p")) as [u0| |] eqn:E0;
    [|vm_compute in E0; discriminate ..].
  assert (ReachC4 true mhp0 host_parse_opaque host_display u0) as R0.
  { apply (RC4_parse true mhp0 host_parse_opaque host_display None (B "http://1.2.3.4:81/p") u0);
      [usv_tac | vm_compute; reflexivity | left; reflexivity | exact E0]. }
  vm_compute in E0. injection E0 as <-.
  match type of R0 with ReachC4 ?d ?hp ?hpo ?hd ?u =>
    destruct (apply_op d hp hpo hd u (OQHostname (B "[::1]"))) as [u1|] eqn:E1; [|vm_compute in E1; discriminate];
    assert (nlen (ser u1) <= U32_MAX_P -> ReachC4 d hp hpo hd u1) as R1
      by (apply (RC4_step d hp hpo hd u (OQHostname (B "[::1]")) u1 R0);
          [reflexivity | cbn [op_args_ok]; usv_tac | vm_compute; reflexivity | exact E1])
  end.
  vm_compute in E1. injection E1 as <-. specialize (R1 ltac:(vm_compute; discriminate)). clear R0.
  match type of R1 with ReachC4 ?d ?hp ?hpo ?hd ?u =>
    destruct (apply_op d hp hpo hd u (OSetQuery (Some (B "k=v")))) as [u2|] eqn:E2; [|vm_compute in E2; discriminate];
    assert (nlen (ser u2) <= U32_MAX_P -> ReachC4 d hp hpo hd u2) as R2
      by (apply (RC4_step d hp hpo hd u (OSetQuery (Some (B "k=v"))) u2 R1);
          [reflexivity | cbn [op_args_ok]; usv_tac | vm_compute; reflexivity | exact E2])
  end.
  vm_compute in E2. injection E2 as <-. specialize (R2 ltac:(vm_compute; discriminate)). clear R1.
  eexists. split; [exact R2 | vm_compute; reflexivity].
Qed.
