(* Proofs/C18_Table.v - facts about the regenerated BASE64_DECODE_TABLE and byte classes. *)
From RU Require Import Base.Prelude Gen.Tables Model.Base64 Spec.Infra.

(* ---- the RFC 4648 alphabet ---- *)
Lemma index_from_in i c l v : index_from i c l = Some v -> In c l.
Proof.
  revert i. induction l as [|x r IH]; intros i H; cbn [index_from] in H; [discriminate|].
  destruct (c =? x) eqn:Ecx.
  - left. apply N.eqb_eq in Ecx. congruence.
  - right. exact (IH _ H).
Qed.

Lemma alphabet_lt128 : forallb (fun c => c <? 128) b64_alphabet = true.
Proof. vm_compute. reflexivity. Qed.

Lemma alphabet_index_lt128 c v : alphabet_index c = Some v -> c < 128.
Proof.
  intros H. apply index_from_in in H.
  pose proof alphabet_lt128 as HA. rewrite forallb_forall in HA. specialize (HA c H). lia.
Qed.

Definition index_bound_ok (c : N) : bool :=
  match alphabet_index c with Some v => (v <? 64) && (b64_char v =? c) | None => true end.
Lemma index_bound_sweep : all_below 256 index_bound_ok = true.
Proof. vm_compute. reflexivity. Qed.

Lemma alphabet_index_lt64 c v : alphabet_index c = Some v -> v < 64.
Proof.
  intros H. pose proof (alphabet_index_lt128 c v H) as Hc.
  pose proof (all_below_spec 256 _ index_bound_sweep c ltac:(lia)) as HS.
  unfold index_bound_ok in HS. rewrite H in HS. lia.
Qed.

Lemma alphabet_index_char c v : alphabet_index c = Some v -> b64_char v = c.
Proof.
  intros H. pose proof (alphabet_index_lt128 c v H) as Hc.
  pose proof (all_below_spec 256 _ index_bound_sweep c ltac:(lia)) as HS.
  unfold index_bound_ok in HS. rewrite H in HS. lia.
Qed.

Definition char_index_ok (v : N) : bool :=
  match alphabet_index (b64_char v) with Some v' => v' =? v | None => false end.
Lemma char_index_sweep : all_below 64 char_index_ok = true.
Proof. vm_compute. reflexivity. Qed.

Lemma alphabet_index_of_char v : v < 64 -> alphabet_index (b64_char v) = Some v.
Proof.
  intros H. pose proof (all_below_spec 64 _ char_index_sweep v H) as HS.
  unfold char_index_ok in HS. destruct (alphabet_index (b64_char v)) as [v'|]; [|discriminate].
  f_equal. lia.
Qed.

(* closed form: A-Z a-z 0-9 + / *)
Definition alphabet_closed_form (c : N) : option N :=
  if is_upper c then Some (c - 65)
  else if is_lower c then Some (c - 71)
  else if is_digit c then Some (c + 4)
  else if c =? 43 then Some 62
  else if c =? 47 then Some 63
  else None.
Definition closed_form_ok (c : N) : bool :=
  match alphabet_index c, alphabet_closed_form c with
  | Some a, Some b => a =? b
  | None, None => true
  | _, _ => false
  end.
Lemma closed_form_sweep : all_below 256 closed_form_ok = true.
Proof. vm_compute. reflexivity. Qed.

Lemma alphabet_index_closed_form c : alphabet_index c = alphabet_closed_form c.
Proof.
  destruct (c <? 256) eqn:Hc.
  - pose proof (all_below_spec 256 _ closed_form_sweep c ltac:(lia)) as HS.
    unfold closed_form_ok in HS.
    destruct (alphabet_index c) as [a|], (alphabet_closed_form c) as [b|]; try discriminate; try reflexivity.
    f_equal. lia.
  - destruct (alphabet_index c) as [a|] eqn:Ha.
    + apply alphabet_index_lt128 in Ha. lia.
    + unfold alphabet_closed_form, is_upper, is_lower, is_digit.
      replace ((65 <=? c) && (c <=? 90)) with false by lia.
      replace ((97 <=? c) && (c <=? 122)) with false by lia.
      replace ((48 <=? c) && (c <=? 57)) with false by lia.
      replace (c =? 43) with false by lia. replace (c =? 47) with false by lia. reflexivity.
Qed.

(* ---- the regenerated table ---- *)
Definition table_entry_ok (b : N) : bool :=
  Z.eqb (b64_value b) (match alphabet_index b with Some v => Z.of_N v | None => (-1)%Z end).
Lemma table_sweep : all_below 256 table_entry_ok = true.
Proof. vm_compute. reflexivity. Qed.

Lemma table_length : length T_B64_TABLE = 256%nat.
Proof. vm_compute. reflexivity. Qed.

Lemma b64_value_spec b :
  b64_value b = match alphabet_index b with Some v => Z.of_N v | None => (-1)%Z end.
Proof.
  destruct (b <? 256) eqn:Hb.
  - pose proof (all_below_spec 256 _ table_sweep b ltac:(lia)) as HS.
    unfold table_entry_ok in HS. apply Z.eqb_eq in HS. exact HS.
  - unfold b64_value. rewrite nth_overflow by (rewrite table_length; lia).
    destruct (alphabet_index b) as [v|] eqn:Hv; [|reflexivity].
    apply alphabet_index_lt128 in Hv. lia.
Qed.

(* ---- the byte classes the code matches on ---- *)
Lemma ws_list_is_infra b : memb b T_B64_WS = is_ascii_whitespace b.
Proof. unfold T_B64_WS, is_ascii_whitespace. cbn [memb]. lia. Qed.

Lemma pad_is_equals : T_B64_PAD = 61.
Proof. reflexivity. Qed.

Lemma ws_not_alphabet b : is_ascii_whitespace b = true -> alphabet_index b = None.
Proof.
  unfold is_ascii_whitespace. intros H.
  assert (Hc : b = 9 \/ b = 10 \/ b = 12 \/ b = 13 \/ b = 32) by lia.
  destruct Hc as [->|[->|[->|[->| ->]]]]; vm_compute; reflexivity.
Qed.

Lemma equals_not_alphabet : alphabet_index 61 = None.
Proof. vm_compute. reflexivity. Qed.

Lemma equals_not_ws : is_ascii_whitespace 61 = false.
Proof. vm_compute. reflexivity. Qed.

Lemma body_special_list b :
  memb b T_BODY_SPECIAL = (b =? 37) || (b =? 35) || (b =? 9) || (b =? 10) || (b =? 13).
Proof. unfold T_BODY_SPECIAL. cbn [memb]. lia. Qed.
