(* Proofs/C17_Decode.v - DataUrl::decode_to_vec in closed form, from C18's theorems: the body is
   body_ref (the text up to the first '#', ASCII tab / newlines dropped, %XY decoded when the two hex
   digits follow the '%' directly), base64 bodies are its Infra forgiving-base64 decode; the fragment
   is what follows the first '#'.  The slice-panic branch of the body decoders is never taken. *)
From RU Require Import Base.Prelude Gen.Tables Model.Mime Model.Base64 Model.DataUrl Spec.Infra
  Proofs.C18_Table Proofs.C18_Machine Proofs.C18_Body Proofs.C18_Spec Proofs.C18_BodyRef.

Lemma dwo_vec body :
  decode_without_base64 vec_write [] body = (fst (body_ref body), BodyOk (snd (body_ref body))).
Proof.
  rewrite dwo_exec. unfold execb. rewrite attempt_vec. cbn [app].
  destruct (dwo_output_is_ref body) as [H1 H2]. rewrite H1, H2. reflexivity.
Qed.

Lemma dwb_vec body :
  decode_with_base64 vec_write [] body =
  match Model.Base64.decode_to_vec (fst (body_ref body)) with
  | inl v => (v, BodyOk (snd (body_ref body)))
  | inr e => (concat (fst (prun (fst (body_ref body)))), BodyErr (InvalidBase64 e))
  end.
Proof.
  destruct (dwb_is_run vec_write [] body) as [f [Hf H]]. rewrite H. clear H.
  destruct (dwo_output_is_ref body) as [H1 H2]. rewrite H2 in Hf. inversion Hf; subst f. rewrite H1.
  set (input := fst (body_ref body)).
  rewrite run_exec. unfold exec. rewrite attempt_vec. cbn [app].
  rewrite decode_to_vec_prun. destruct (snd (prun input)) as [e|]; reflexivity.
Qed.

Definition decoded_ref (base64 : bool) (body : list N) : decoded :=
  let (out, fragment) := body_ref body in
  if base64 then
    match Model.Base64.decode_to_vec out with
    | inl v => DecOk v fragment
    | inr e => DecInvalidBase64 e
    end
  else DecOk out fragment.

Theorem decode_to_vec_ref u :
  DataUrl.decode_to_vec u = decoded_ref (du_base64 u) (du_encoded_body_plus_fragment u).
Proof.
  unfold DataUrl.decode_to_vec, decoded_ref, data_url_decode.
  destruct (du_base64 u).
  - rewrite dwb_vec. destruct (body_ref (du_encoded_body_plus_fragment u)) as [out f]. cbn [fst snd].
    destruct (Model.Base64.decode_to_vec out); reflexivity.
  - rewrite dwo_vec. destruct (body_ref (du_encoded_body_plus_fragment u)) as [out f]. reflexivity.
Qed.

Lemma decode_to_vec_no_panic u : DataUrl.decode_to_vec u <> DecPanic.
Proof.
  rewrite decode_to_vec_ref. unfold decoded_ref.
  destruct (body_ref _) as [out f]. destruct (du_base64 u); [destruct (Model.Base64.decode_to_vec out)|]; discriminate.
Qed.

(* with the Infra Standard's decoder in place of the crate's (C18_spec) *)
Theorem decoded_ref_infra base64 body :
  decoded_ref base64 body =
  let (out, fragment) := body_ref body in
  if base64 then
    match forgiving_base64_decode out with
    | Some v => DecOk v fragment
    | None => match Model.Base64.decode_to_vec out with inr e => DecInvalidBase64 e | inl v => DecOk v fragment end
    end
  else DecOk out fragment.
Proof.
  unfold decoded_ref. destruct (body_ref body) as [out f]. destruct base64; [|reflexivity].
  rewrite <- (decode_to_vec_is_infra out). destruct (Model.Base64.decode_to_vec out); reflexivity.
Qed.
