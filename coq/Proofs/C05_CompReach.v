(* Proofs/C05_CompReach.v - the component clauses for every record reachable by parse, join and the gated
   mutator steps.
   step_gate2 hp hpo hd u o u' : the call is outside the known classes; every one of the 19 mutators of
   Reachable has a gate that is not False (the quirks set_host only for values without a port part).
   CReach : parse without base; parse against a reached base that satisfies base_ok (well-formed, and with a
   special scheme not cannot-be-a-base); a gated step.  Every reached record satisfies CInv, hence C06's
   wfh and the five clauses of the property text. *)
From RU Require Import Base.Prelude Base.Utf8 Base.Utf8Facts Model.AsciiSet Gen.Tables Model.PercentEncoding
  Model.HostT Model.UrlRecord Model.Parser Model.Setters Model.WF
  Proofs.ListN Proofs.C03_WF Proofs.C05_Enc Proofs.C05_Parser Proofs.C05_Setters Proofs.C05_History
  Proofs.C05_Frag Proofs.C05_Query Proofs.C05_Comp Proofs.C05_PathClean Proofs.C05_CompSteps Proofs.C05_CompHist
  Proofs.C06_List Proofs.C06_WFI Proofs.C06_Tail Proofs.C06_Steps Proofs.C06_Suffix
  Proofs.C06_FragQuery Proofs.C06_Port Proofs.C06_HostNone Proofs.C06_Host Proofs.C06_Path Proofs.C06_Segments
  Proofs.C06_Main Proofs.C04_ParseTotal Proofs.C03_ReachParts Proofs.C05_ParseAll Proofs.C05_CompSteps2.

Section Reach.
Variable dbg : bool.
Variable hp hpo : list N -> result host.
Variable hd : host -> list N.
Hypothesis HW : HostWf hp hpo hd.

(* outside F-C03-5 (marker) and F-C02-4 (the new host is empty while a port is stored) *)
Definition host_gate (u u' : url) : Prop :=
  (has_authority_b u = false -> path_start u = scheme_end u + 1)
  /\ (has_authority_b u = true -> hosti u' = HI_None -> port u = None).

Definition step_gate2 (u : url) (o : op) (u' : url) : Prop :=
  match o with
  | OSetHost (Some _) => host_gate u u'          (* no hypothesis on hd beyond HostWf *)
  | OQHostname _ => host_gate u u'
  | OQHost v => q_host_keeps_port hp hpo u v /\ host_gate u u'
  | OPathSegments ops => Forall psm_op_usv ops /\ path_gate u u'
  | OQPort _ => True
  | OQPathname v => usv_list v /\ auth_end_ok u /\ path_gate u u'
  | _ => step_gate hd u o u'
  end.

Theorem cinv_step2 u o u' : CInv dbg u -> step_gate2 u o u' -> apply_op dbg hp hpo hd u o = Some u' -> CInv dbg u'.
Proof using HW.
  intros K G H.
  destruct o; try exact (cinv_step dbg hp hpo hd u _ u' K G H); cbn [apply_op step_gate2] in H, G.
  - (* set_host *)
    destruct h as [x|]; [|exact (cinv_step dbg hp hpo hd u (OSetHost None) u' K G H)].
    apply drop_status_some in H. destruct H as [st H]. destruct G as [G1 G2].
    exact (set_host_some_cinv2 dbg hp hpo hd HW u x u' st K G1 G2 H).
  - apply drop_status_some in H. destruct H as [st H]. destruct G as [G1 G2].
    exact (session_cinv dbg u ops u' st K G1 G2 H).
  - apply drop_status_some in H. destruct H as [st H]. destruct G as [G0 [G1 G2]].
    exact (q_set_host_cinv dbg hp hpo hd HW u v u' st K G0 G1 G2 H).
  - apply drop_status_some in H. destruct H as [st H]. destruct G as [G1 G2].
    exact (q_set_hostname_cinv dbg hp hpo hd HW u v u' st K G1 G2 H).
  - apply drop_status_some in H. destruct H as [st H]. exact (q_set_port_cinv dbg u v u' st K H).
  - destruct G as (G1 & G2 & G3). exact (q_set_pathname_cinv dbg u v u' K G1 G2 G3 H).
Qed.

Inductive CReach : url -> Prop :=
| CR_parse ovr input u : parse_url dbg hp hpo hd ovr None input = POk u -> CReach u
| CR_join ovr b input u :
    CReach b -> base_ok b = true -> parse_url dbg hp hpo hd ovr (Some b) input = POk u -> CReach u
| CR_step u o u' :
    CReach u -> op_valid o -> step_gate2 u o u' -> apply_op dbg hp hpo hd u o = Some u' -> CReach u'.

Theorem creach_cinv u : CReach u -> CInv dbg u.
Proof using HW.
  induction 1 as [ovr input u Hp | ovr b input u Rb IHb Hb Hp | u o u' R IH Hv G H].
  - exact (parse_url_cinv dbg dbg hp hpo hd ovr None input u HW I Hp).
  - exact (parse_url_cinv dbg dbg hp hpo hd ovr (Some b) input u HW (conj IHb Hb) Hp).
  - exact (cinv_step2 u o u' IH G H).
Qed.

Theorem creach_components u : CReach u -> wfh u /\ components_clean dbg u.
Proof using HW.
  intros R. destruct (creach_cinv u R) as [[W HT] C]. split; [split; assumption|].
  exact (comp_ok_components dbg u W C).
Qed.

(* the gated reachability is a part of C05's Reachable *)
Theorem creach_reachable u : CReach u -> Reachable dbg hp hpo hd u.
Proof using.
  induction 1 as [ovr input u Hp | ovr b input u Rb IHb Hb Hp | u o u' R IH Hv G H].
  - exact (R_parse dbg hp hpo hd ovr input u Hp).
  - exact (R_join dbg hp hpo hd ovr b input u IHb Hp).
  - exact (R_step dbg hp hpo hd u o u' IH Hv H).
Qed.

End Reach.
