(* Proofs/C06_Front.v - two well-formed records with an authority whose serializations agree up
   to the end of the host: scheme, username, password and host read the same. *)
From RU Require Import Base.Prelude Model.HostT Model.UrlRecord Model.Parser Model.Setters Model.WF
  Proofs.ListN Proofs.C03_WF Proofs.C06_List Proofs.C06_WFI Proofs.C06_Tail.

Definition same_ids (dbg : bool) (u u' : url) : Prop :=
  scheme u' = scheme u /\ username dbg u' = username dbg u /\ password dbg u' = password dbg u
  /\ host_str u' = host_str u.

Lemma has_host_authority u : wf_b u = true -> has_host u = true -> has_authority_b u = true.
Proof.
  intros W H. destruct (has_authority_b u) eqn:Ha; [reflexivity|].
  pose proof (nf_host (wf_noauth_facts u W Ha)) as E. unfold has_host in H. rewrite E in H. discriminate.
Qed.

Section FrontPre.
Variables (u u' : url) (a : N).
Hypothesis W : wf_b u = true.
Hypothesis W' : wf_b u' = true.
Hypothesis Hpre : agree_pre a (ser u) (ser u').
Hypothesis E1 : scheme_end u' = scheme_end u.
Hypothesis E2 : username_end u' = username_end u.
Hypothesis E3 : host_start u' = host_start u.
Hypothesis E4 : host_end u' = host_end u.
Hypothesis E5 : hosti u' = hosti u.
Hypothesis Ha : has_authority_b u = true.
Hypothesis Ha' : has_authority_b u' = true.
Hypothesis Hhe : host_end u <= a.

Lemma fp_scheme : scheme u' = scheme u.
Proof.
  rewrite (scheme_eval u' W'), (scheme_eval u W). unfold piece. cbn [pidx].
  rewrite E1, !N.sub_0_r, !nskipn_0.
  pose proof (wf_auth_facts u W Ha) as F. pose proof (af_ue F); pose proof (af_hs F); pose proof (af_he F).
  rewrite (pre_firstn a _ _ _ Hpre) by lia. reflexivity.
Qed.

Lemma fp_username dbg : username dbg u' = username dbg u.
Proof.
  rewrite (username_eval dbg u' W'), (username_eval dbg u W). unfold piece. cbn [pidx].
  rewrite Ha, Ha', E1, E2.
  pose proof (wf_auth_facts u W Ha) as F. pose proof (af_hs F); pose proof (af_he F).
  rewrite (pre_piece a _ _ _ _ Hpre) by lia. reflexivity.
Qed.

Lemma fp_has_password : has_password_b u' = has_password_b u.
Proof.
  unfold has_password_b. rewrite Ha, Ha', E2. cbn [andb].
  pose proof (wf_auth_facts u W Ha) as F. pose proof (wf_auth_facts u' W' Ha') as F'.
  pose proof (af_hs F); pose proof (af_he F); pose proof (af_ps F).
  destruct (af_userinfo F) as [[U1 U2]|[(U1 & U2 & U3 & U4)|(U1 & U2 & U3 & U4)]].
  - rewrite U2, andb_false_r.
    destruct (af_userinfo F') as [[V1 V2]|[(V1 & _)|(V1 & _)]]; try (rewrite E2, E3 in V1; contradiction).
    rewrite E2 in V2. rewrite V2. apply andb_false_r.
  - rewrite (pre_byte_eqb a _ _ _ _ Hpre) by lia. rewrite U2.
    pose proof (byte_eqb_lt _ _ _ U2).
    pose proof (af_len F'). pose proof (af_ps F'). pose proof (af_he F'). pose proof (af_hs F').
    replace (username_end u =? nlen (ser u)) with false by lia.
    replace (username_end u =? nlen (ser u')) with false by lia. reflexivity.
  - rewrite (pre_byte_eqb a _ _ _ _ Hpre) by lia. rewrite U2, !andb_false_r. reflexivity.
Qed.

Lemma fp_password dbg : password dbg u' = password dbg u.
Proof.
  rewrite (password_piece dbg u' W'), (password_piece dbg u W). rewrite fp_has_password.
  destruct (has_password_b u) eqn:Hp; [|reflexivity].
  unfold piece. cbn [pidx]. rewrite fp_has_password, Hp. rewrite E2, E3.
  pose proof (wf_auth_facts u W Ha) as F. pose proof (af_hs F); pose proof (af_he F).
  rewrite (pre_piece a _ _ _ _ Hpre) by lia. reflexivity.
Qed.

Lemma fp_host_str : host_str u' = host_str u.
Proof.
  rewrite (host_str_eval u' W'), (host_str_eval u W).
  unfold has_host. rewrite E5. destruct (hosti u) eqn:Eh; try reflexivity;
    unfold piece; cbn [pidx]; rewrite E3, E4;
    rewrite (pre_piece a _ _ _ _ Hpre) by lia; reflexivity.
Qed.

Lemma fp_ids dbg : same_ids dbg u u'.
Proof. split; [apply fp_scheme|]. split; [apply fp_username|]. split; [apply fp_password | apply fp_host_str]. Qed.

End FrontPre.

(* ---------- generic versions: only what each accessor needs ---------- *)
Lemma scheme_same u u' a : wf_b u = true -> wf_b u' = true -> agree_pre a (ser u) (ser u') ->
  scheme_end u' = scheme_end u -> scheme_end u <= a -> scheme u' = scheme u.
Proof.
  intros W W' P E Hle. rewrite (scheme_eval u' W'), (scheme_eval u W). unfold piece. cbn [pidx].
  rewrite E, !N.sub_0_r, !nskipn_0. rewrite (pre_firstn a _ _ _ P) by lia. reflexivity.
Qed.

Lemma username_same dbg u u' a : wf_b u = true -> wf_b u' = true -> has_authority_b u = true ->
  has_authority_b u' = true -> agree_pre a (ser u) (ser u') -> scheme_end u' = scheme_end u ->
  username_end u' = username_end u -> username_end u <= a -> username dbg u' = username dbg u.
Proof.
  intros W W' Ha Ha' P E1 E2 Hle. rewrite (username_eval dbg u' W'), (username_eval dbg u W).
  unfold piece. cbn [pidx]. rewrite Ha, Ha', E1, E2. rewrite (pre_piece a _ _ _ _ P) by lia. reflexivity.
Qed.

Lemma password_same dbg u u' a : wf_b u = true -> wf_b u' = true -> has_authority_b u = true ->
  has_authority_b u' = true -> agree_pre a (ser u) (ser u') ->
  username_end u' = username_end u -> host_start u' = host_start u -> host_start u <= a ->
  password dbg u' = password dbg u.
Proof.
  intros W W' Ha Ha' P E2 E3 Hle.
  pose proof (wf_auth_facts u W Ha) as F. pose proof (wf_auth_facts u' W' Ha') as F'.
  pose proof (af_hs F); pose proof (af_he F); pose proof (af_ps F); pose proof (af_len F).
  pose proof (af_hs F'); pose proof (af_he F'); pose proof (af_ps F'); pose proof (af_len F').
  assert (has_password_b u' = has_password_b u) as Hp.
  { unfold has_password_b. rewrite Ha, Ha', E2. cbn [andb].
    destruct (af_userinfo F) as [[U1 U2]|[(U1 & U2 & U3 & U4)|(U1 & U2 & U3 & U4)]].
    - rewrite U2, andb_false_r.
      destruct (af_userinfo F') as [[V1 V2]|[(V1 & _)|(V1 & _)]]; try (rewrite E2, E3 in V1; contradiction).
      rewrite E2 in V2. rewrite V2. apply andb_false_r.
    - rewrite (pre_byte_eqb a _ _ _ _ P) by lia. rewrite U2.
      pose proof (byte_eqb_lt _ _ _ U2).
      replace (username_end u =? nlen (ser u)) with false by lia.
      replace (username_end u =? nlen (ser u')) with false by lia. reflexivity.
    - rewrite (pre_byte_eqb a _ _ _ _ P) by lia. rewrite U2, !andb_false_r. reflexivity. }
  rewrite (password_piece dbg u' W'), (password_piece dbg u W). rewrite Hp.
  destruct (has_password_b u) eqn:Hpw; [|reflexivity].
  unfold piece. cbn [pidx]. rewrite Hp, Hpw. rewrite E2, E3.
  rewrite (pre_piece a _ _ _ _ P) by lia. reflexivity.
Qed.
