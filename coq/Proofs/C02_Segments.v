(* Proofs/C02_Segments.v - L2 for Url::path_segments_mut sessions on the canonical hierarchical records (classes
   (ii) without the "/." marker, (iii), (iv)): open, any sequence of clear / pop / pop_if_empty / push / extend with
   arbitrary &str arguments, drop.  Invariant of the serialization during the session:
       FRONT  or  FRONT '/' seg '/' ... '/' last      with canonical segments (no '\' for a special scheme),
   kept by the truncations of clear / pop / pop_if_empty and by push / extend: the path state in the
   PathSegmentSetter context writes the PATH_SEGMENT encoding of the argument without tab / LF / CR (no '/', no '\'
   for special schemes, '%' encoded), then finish_segment treats a resulting "." or ".." as a dot segment - which
   is how push(".<TAB>.") popped a segment before extend() made its skip test on the tab / LF / CR-free text (finding
   F-C06-7, fixed); the proof does not use the skip test: whatever reaches parse_path leaves a canonical result. *)
From RU Require Import Base.Prelude Base.Utf8 Base.Utf8Facts Model.AsciiSet Gen.Tables
  Model.PercentEncoding Model.HostT Model.UrlRecord Model.Parser Model.Setters Model.WF
  Proofs.ListN Proofs.C06_List Proofs.C14_Set Proofs.C14_Enc Proofs.C02_Enc Proofs.C02_Parts
  Proofs.C02_Opaque Proofs.C02_Path Proofs.C02_PathL1 Proofs.C02_Reach Proofs.C02_AuthParts
  Proofs.C02_Auth Proofs.C02_AuthWf Proofs.C02_PathSp Proofs.C02_AuthSp Proofs.C02_AuthMain Proofs.C02_SetQF
  Proofs.C02_Canon Proofs.C02_SetPort Proofs.C02_SetHostFrame Proofs.C02_SetScheme Proofs.C02_PathSetter Proofs.C02_SetPath
  Proofs.C02_JoinTail Proofs.C02_JoinPath Proofs.C06_Segments.
Open Scope N_scope.
Open Scope list_scope.

(* ---------- the PATH_SEGMENT encodings ---------- *)
Definition seg_set (st : scheme_type) : aset := if st_is_special st then T_SPECIAL_PATH_SEGMENT else T_PATH_SEGMENT.

Lemma path_set_seg st : path_set CPathSegmentSetter st = seg_set st.
Proof. reflexivity. Qed.

Lemma enc_sat S (Q : N -> bool) t : Q 37 = true -> (forall d, d < 16 -> Q (hex_upper d) = true) ->
  kept_sat S Q = true -> usv_list t -> forallb Q (encode S (utf8_encode t)) = true.
Proof.
  intros H37 Hh HS Ht. apply encode_utf8_forallb; [exact H37 | exact Hh | exact Ht|].
  apply Forall_forall. intros c _ Hk.
  pose proof (clean_forallb S Q [c] HS) as H. unfold clean in H. cbn [forallb] in H. rewrite Hk in H.
  specialize (H eq_refl). rewrite andb_true_r in H. exact H.
Qed.

Lemma hex_kept_PATH : forall d, d < 16 -> kept T_PATH (hex_upper d) = true.
Proof.
  assert (all_below 16 (fun d => kept T_PATH (hex_upper d)) = true) as H by (vm_compute; reflexivity).
  exact (all_below_spec 16 _ H).
Qed.

Lemma seg_sat_PATH st : kept_sat (seg_set st) (kept T_PATH) = true.
Proof. destruct st; vm_compute; reflexivity. Qed.
Lemma seg_sat_47 st : kept_sat (seg_set st) (fun c => negb (c =? 47)) = true.
Proof. destruct st; vm_compute; reflexivity. Qed.
Lemma seg_sat_92 st : st_is_special st = true -> kept_sat (seg_set st) (fun c => negb (c =? 92)) = true.
Proof. destruct st; try discriminate; intros _; vm_compute; reflexivity. Qed.

Lemma kept_PATH_37 : kept T_PATH 37 = true. Proof. vm_compute. reflexivity. Qed.

Definition acc_ok (st : scheme_type) (a : list N) : Prop :=
  clean T_PATH a = true /\ no_slash a = true /\ (st_is_special st = true -> no_byte 92 a = true).

Lemma acc_nil st : acc_ok st [].
Proof. split; [reflexivity | split; [reflexivity | intros _; reflexivity]]. Qed.

Lemma acc_app st a b : acc_ok st a -> acc_ok st b -> acc_ok st (a ++ b).
Proof.
  intros (A1 & A2 & A3) (B1 & B2 & B3). unfold acc_ok, clean, no_slash, no_byte in *. rewrite !forallb_app.
  rewrite A1, A2, B1, B2. split; [reflexivity | split; [reflexivity|]]. intros H. rewrite (A3 H), (B3 H). reflexivity.
Qed.

Lemma acc_enc st t : usv_list t -> acc_ok st (encode (seg_set st) (utf8_encode t)).
Proof.
  intros Ht. split; [|split].
  - exact (enc_sat (seg_set st) (kept T_PATH) t kept_PATH_37 hex_kept_PATH (seg_sat_PATH st) Ht).
  - exact (enc_sat (seg_set st) (fun c => negb (c =? 47)) t eq_refl hex_not_slash (seg_sat_47 st) Ht).
  - intros Hs. apply (enc_sat (seg_set st) (fun c => negb (c =? 92)) t eq_refl); [|exact (seg_sat_92 st Hs) | exact Ht].
    intros d Hd. apply hex_not_b; [exact Hd | lia].
Qed.

Lemma push_pending_seg st x pend : usv_list pend ->
  exists a, push_pending CPathSegmentSetter st x pend = x ++ a /\ acc_ok st a.
Proof.
  intros Hp. unfold push_pending. destruct pend as [|c r]; [exists []; rewrite app_nil_r; split; [reflexivity | apply acc_nil]|].
  rewrite path_set_seg. rewrite push_encoded_eq by (apply usv_rev; exact Hp).
  eexists. split; [reflexivity|]. apply acc_enc. apply usv_rev. exact Hp.
Qed.

Section Loop.
Variables (dbg : bool) (st : scheme_type) (ps : N).
Hypothesis Hf : st_is_file st = false.

(* the path state in the PathSegmentSetter context: the argument is appended (encoded), then finish_segment *)
Lemma ppl_setter_acc l : forall ser ss pend hh s' hh' rem, usv_list l -> usv_list pend ->
  parse_path_loop dbg CPathSegmentSetter st ps l ser ss pend hh = POk (s', hh', rem) ->
  exists a, acc_ok st a /\ finish_segment dbg st ps (ser ++ a) ss false hh = POk (s', hh').
Proof.
  induction l as [|c r IH]; intros ser ss pend hh s' hh' rem Hl Hp H.
  - cbn [parse_path_loop] in H. destruct (push_pending_seg st ser pend Hp) as (a & Ea & Ha). rewrite Ea in H.
    destruct (finish_segment dbg st ps (ser ++ a) ss false hh) as [[s2 h2]| |] eqn:Hx; cbn [pbind] in H; try discriminate H.
    unfold file_path_fixup in H. rewrite Hf in H. inversion H; subst s' hh' rem. exists a. split; [exact Ha | exact Hx].
  - apply usv_cons in Hl. destruct Hl as [Hc Hr]. cbn [parse_path_loop] in H. destruct (is_tnl c).
    + destruct (push_pending_seg st ser pend Hp) as (a & Ea & Ha). rewrite Ea in H.
      destruct (IH _ _ _ _ _ _ _ Hr ltac:(constructor) H) as (a1 & Ha1 & F). exists (a ++ a1).
      split; [apply acc_app; assumption | rewrite app_assoc; exact F].
    + cbn [ctx_eqb negb andb] in H. rewrite andb_false_r in H. rewrite Hf in H. cbn [andb] in H.
      apply (IH _ _ _ _ _ _ _ Hr) in H; [exact H|]. apply usv_cons. split; assumption.
Qed.
End Loop.

(* ---------- canonical segments for a scheme type ---------- *)
Definition gseg (st : scheme_type) (s : list N) : bool := if st_is_special st then good_seg_sp s else good_seg s.

Lemma gseg_good st s : gseg st s = true -> good_seg s = true.
Proof. unfold gseg. destruct (st_is_special st); [apply good_seg_sp_good | tauto]. Qed.

Lemma gseg_nil st : gseg st [] = true.
Proof. destruct st; reflexivity. Qed.

Lemma finish_gen dbg st pre segs cur hh : st_is_file st = false -> forallb (gseg st) segs = true -> acc_ok st cur ->
  exists segs' last',
    finish_segment dbg st (nlen pre) (Bs pre segs ++ cur) (nlen (Bs pre segs)) false hh = POk (Bs pre segs' ++ last', hh)
    /\ forallb (gseg st) segs' = true /\ gseg st last' = true.
Proof.
  intros Hf Hs (A1 & A2 & A3). destruct st; [discriminate Hf| |].
  - destruct (finish_inv_sp pre dbg segs cur false hh Hs A1 A2 (A3 eq_refl)) as (segs' & last' & E & G1 & G2 & _).
    rewrite app_nil_r in E. exists segs', last'. repeat split; assumption.
  - destruct (finish_inv pre dbg segs cur false hh Hs A1 A2) as (segs' & last' & E & G1 & G2 & _).
    rewrite app_nil_r in E. exists segs', last'. repeat split; assumption.
Qed.

(* ---------- the path during a session ---------- *)
Definition PI (st : scheme_type) (X : list N) : Prop :=
  (X = [] /\ st_is_special st = false)
  \/ exists segs last, X = path_text segs last /\ forallb (gseg st) segs = true /\ gseg st last = true.

Lemma snoc_cases {A} (l : list A) : l = [] \/ exists l0 t, l = l0 ++ [t].
Proof.
  destruct (rev l) as [|t r] eqn:E.
  - left. rewrite <- (rev_involutive l), E. reflexivity.
  - right. exists (rev r), t. rewrite <- (rev_involutive l), E. reflexivity.
Qed.

Lemma ends_no_slash A last : last <> [] -> no_slash last = true -> ends_with_byte 47 (A ++ last) = false.
Proof.
  intros Hn Hs. destruct (snoc_cases last) as [-> | (l0 & t & ->)]; [congruence|].
  unfold no_slash in Hs. rewrite forallb_app in Hs. apply andb_true_iff in Hs. destruct Hs as [_ Hs]. cbn [forallb] in Hs.
  rewrite andb_true_r in Hs. apply negb_true_iff in Hs.
  unfold ends_with_byte. rewrite app_assoc, rev_app_distr. cbn [rev app]. exact Hs.
Qed.

Lemma rfind_none b t : no_byte b t = true -> rfind b t = None.
Proof. intros H. unfold rfind. apply rfind_aux_none. exact H. Qed.

Section Ops.
Variables (dbg : bool) (st : scheme_type) (F : list N).
Hypothesis Hf : st_is_file st = false.
Notation afs := (nlen F + 1).

Lemma PI_len X : PI st X -> (X = [] \/ exists R, X = 47 :: R).
Proof. intros [[-> _] | (segs & last & -> & _)]; [left; reflexivity | right; eexists; reflexivity]. Qed.

Lemma pi_clear X : PI st X -> exists X', truncate (F ++ X) afs = F ++ X' /\ PI st X'.
Proof.
  intros H. destruct H as [[-> Hs] | (segs & last & -> & Hs & Hl)].
  - exists []. split; [rewrite app_nil_r; unfold truncate; apply nfirstn_all; lia | left; split; [reflexivity | exact Hs]].
  - exists [47]. split.
    + unfold truncate, path_text. change (F ++ 47 :: segs_text segs ++ last) with (F ++ [47] ++ segs_text segs ++ last).
      rewrite app_assoc. replace afs with (nlen (F ++ [47])) by (rewrite nlen_app; reflexivity). apply nfirstn_app_len.
    + right. exists [], []. split; [reflexivity | split; [reflexivity | apply gseg_nil]].
Qed.

Lemma pi_pop_if_empty X : PI st X ->
  let s := F ++ X in
  exists X', (if nlen s <=? afs then s else if ends_with_byte 47 (nskipn afs s) then nfirstn (nlen s - 1) s else s) = F ++ X'
             /\ PI st X'.
Proof.
  intros H s. destruct (nlen s <=? afs) eqn:E1; [exists X; split; [reflexivity | exact H]|].
  destruct (ends_with_byte 47 (nskipn afs s)) eqn:E2; [|exists X; split; [reflexivity | exact H]].
  destruct H as [[-> Hs] | (segs & last & -> & Hs & Hl)].
  - exfalso. unfold s in E1. rewrite nlen_app in E1. unfold nlen in E1 at 2. cbn [length] in E1. lia.
  - unfold s, path_text in *.
    assert (nskipn afs (F ++ 47 :: segs_text segs ++ last) = segs_text segs ++ last) as Esk.
    { change (F ++ 47 :: segs_text segs ++ last) with (F ++ [47] ++ segs_text segs ++ last).
      rewrite app_assoc. replace afs with (nlen (F ++ [47])) by (rewrite nlen_app; reflexivity). apply nskipn_app_len. }
    rewrite Esk in E2.
    destruct last as [|l0 lr].
    + destruct (snoc_cases segs) as [-> | (segs0 & t & ->)]; [cbn in E2; discriminate E2|].
      rewrite forallb_app in Hs. apply andb_true_iff in Hs. destruct Hs as [Hs0 Ht]. cbn [forallb] in Ht. rewrite andb_true_r in Ht.
      exists (path_text segs0 t). split; [|right; exists segs0, t; repeat split; assumption].
      rewrite segs_text_snoc. rewrite app_nil_r. unfold path_text.
      assert (F ++ 47 :: segs_text segs0 ++ t ++ [47] = (F ++ 47 :: segs_text segs0 ++ t) ++ [47]) as EE.
      { rewrite <- (app_assoc F). cbn [app]. rewrite <- app_assoc. reflexivity. }
      rewrite EE.
      rewrite nlen_app. replace (nlen (F ++ 47 :: segs_text segs0 ++ t) + nlen [47] - 1) with (nlen (F ++ 47 :: segs_text segs0 ++ t))
        by (change (nlen [47]) with 1; lia).
      apply nfirstn_app_len.
    + rewrite (ends_no_slash (segs_text segs) (l0 :: lr)) in E2; [discriminate E2 | discriminate|].
      exact (good_seg_no_slash _ (gseg_good st _ Hl)).
Qed.

Lemma pi_pop X : PI st X ->
  let s := F ++ X in
  exists X', (if nlen s <=? afs then s
              else truncate s (afs + match rfind 47 (nskipn afs s) with Some i => i | None => 0 end)) = F ++ X'
             /\ PI st X'.
Proof.
  intros H s. destruct (nlen s <=? afs) eqn:E1; [exists X; split; [reflexivity | exact H]|].
  destruct H as [[-> Hs] | (segs & last & -> & Hs & Hl)].
  - exfalso. unfold s in E1. rewrite nlen_app in E1. unfold nlen in E1 at 2. cbn [length] in E1. lia.
  - unfold s, path_text in *. clear s.
    assert (forall R0, F ++ 47 :: R0 = (F ++ [47]) ++ R0) as EF by (intros R0; rewrite <- app_assoc; reflexivity).
    assert (afs = nlen (F ++ [47])) as Ea by (rewrite nlen_app; reflexivity).
    assert (nskipn afs (F ++ 47 :: segs_text segs ++ last) = segs_text segs ++ last) as Esk
      by (rewrite EF, Ea; apply nskipn_app_len).
    rewrite Esk.
    pose proof (good_seg_no_slash _ (gseg_good st _ Hl)) as Hnl.
    destruct (snoc_cases segs) as [-> | (segs0 & t & ->)].
    + cbn [segs_text map concat app]. rewrite (rfind_none 47 last Hnl). rewrite N.add_0_r.
      exists [47]. split; [unfold truncate; rewrite EF, Ea; apply nfirstn_app_len|].
      right. exists [], []. split; [reflexivity | split; [reflexivity | apply gseg_nil]].
    + rewrite forallb_app in Hs. apply andb_true_iff in Hs. destruct Hs as [Hs0 Ht]. cbn [forallb] in Ht. rewrite andb_true_r in Ht.
      rewrite segs_text_snoc. set (A := segs_text segs0 ++ t).
      assert ((segs_text segs0 ++ t ++ [47]) ++ last = A ++ 47 :: last) as E1' by (unfold A; rewrite <- !app_assoc; reflexivity).
      rewrite E1'. rewrite (rfind_app_last 47 A last Hnl).
      exists (path_text segs0 t). split; [|right; exists segs0, t; repeat split; assumption].
      unfold truncate, path_text. fold A.
      assert (F ++ 47 :: A ++ 47 :: last = (F ++ 47 :: A) ++ 47 :: last) as E2' by (rewrite <- (app_assoc F); reflexivity).
      rewrite E2'. replace (afs + nlen A) with (nlen (F ++ 47 :: A)) by len_lia. apply nfirstn_app_len.
Qed.

(* push / extend *)
Lemma pi_extend segments : forall X s', PI st X -> Forall usv_list segments ->
  psm_extend_loop dbg st (nlen F) (F ++ X) segments = Some s' -> exists X', s' = F ++ X' /\ PI st X'.
Proof.
  induction segments as [|seg rest IH]; intros X s' HX Hu H; cbn [psm_extend_loop] in H.
  - inversion H; subst s'. exists X. split; [reflexivity | exact HX].
  - apply Forall_cons_iff in Hu. destruct Hu as [Hseg Hrest].
    destruct (psm_skips seg); [exact (IH X s' HX Hrest H)|].
    assert (exists segs1, forallb (gseg st) segs1 = true /\
              (if (nlen F + 1 <? nlen (F ++ X)) || (nlen (F ++ X) =? nlen F) then (F ++ X) ++ [47] else F ++ X) = Bs F segs1)
      as (segs1 & Hs1 & Es1).
    { destruct HX as [[-> Hs] | (segs & last & -> & Hs & Hl)].
      - exists []. split; [reflexivity|]. rewrite app_nil_r. rewrite N.eqb_refl, orb_true_r. rewrite Bs_nil, app_nil_r. reflexivity.
      - rewrite nlen_app. replace (nlen F + nlen (path_text segs last) =? nlen F) with false
          by (unfold path_text, nlen; cbn [length]; lia). rewrite orb_false_r.
        destruct (nlen F + 1 <? nlen F + nlen (path_text segs last)) eqn:E.
        + exists (segs ++ [last]). split; [rewrite forallb_app; cbn [forallb]; rewrite Hs, Hl; reflexivity|].
          rewrite Bs_path. rewrite Bs_snoc. rewrite <- app_assoc. reflexivity.
        + assert (segs_text segs ++ last = []) as E0.
          { destruct (segs_text segs ++ last) as [|y ys] eqn:E0; [reflexivity|]. exfalso.
            unfold path_text in E. rewrite E0 in E. unfold nlen in E. cbn [length] in E. lia. }
          apply app_eq_nil in E0. destruct E0 as [E0 ->].
          exists segs. split; [exact Hs|]. rewrite Bs_path. apply app_nil_r. }
    rewrite Es1 in H. unfold parse_path in H.
    destruct (parse_path_loop dbg CPathSegmentSetter st (nlen F) seg (Bs F segs1) (nlen (Bs F segs1)) [] true)
      as [[[s2 hh] rem]| |] eqn:Epp; cbn [unpres bindo] in H; try discriminate H.
    destruct (ppl_setter_acc dbg st (nlen F) Hf seg _ _ _ _ _ _ _ Hseg ltac:(constructor) Epp) as (a & Ha & Fin).
    destruct (finish_gen dbg st F segs1 a true Hf Hs1 Ha) as (segs' & last' & E & G1 & G2).
    rewrite E in Fin. inversion Fin; subst s2 hh.
    rewrite <- Bs_path in H. apply (IH (path_text segs' last') s'); [|exact Hrest | exact H].
    right. exists segs', last'. repeat split; assumption.
Qed.
End Ops.

(* ---------- a whole session on the frame  F ++ path ++ [?q] ++ [#f] ---------- *)
Section Session.
Variable dbg : bool.
Variables (sch Z : list N) (ue hs he : N) (hi : host_internal) (pt : option N).
Notation F := ((sch ++ [58]) ++ Z).
Notation st := (scheme_type_of sch).
Hypothesis Hf : st_is_file st = false.
Notation U pre q f := (qf_url pre (nlen sch) ue hs he hi pt (nlen F) q f).

Lemma scheme_frame_gen X ue' hs' he' hi' pt' ps' qs' fs' :
  scheme (mkUrl (F ++ X) (nlen sch) ue' hs' he' hi' pt' ps' qs' fs') = Some sch.
Proof.
  unfold scheme, u_slice_to. cbn [ser scheme_end]. rewrite slice_to_o_some by (rewrite !nlen_app; lia).
  rewrite <- !app_assoc. rewrite nfirstn_app_len. reflexivity.
Qed.

Lemma take_after_path_gen pre q f :
  take_after_path (U pre q f)
  = Some (mkUrl pre (nlen sch) ue hs he hi pt (nlen F) (qf_qs (nlen pre) q) (qf_fs (nlen pre) q f), qf_text q f).
Proof.
  unfold take_after_path.
  assert (forall i, i = nlen pre ->
            (a <- u_slice_from (U pre q f) i ;; Some (set_ser (U pre q f) (truncate (ser (U pre q f)) i), a))
            = Some (mkUrl pre (nlen sch) ue hs he hi pt (nlen F) (qf_qs (nlen pre) q) (qf_fs (nlen pre) q f), qf_text q f)) as G0.
  { intros i ->. unfold u_slice_from, qf_url. cbn [ser].
    rewrite slice_from_o_some by (rewrite nlen_app; lia). rewrite nskipn_app_len. cbn [bindo].
    unfold truncate. rewrite nfirstn_app_len. reflexivity. }
  destruct q as [x|]; [|destruct f as [y|]].
  - change (query_start (U pre (Some x) f)) with (Some (nlen pre)). cbv iota. exact (G0 _ eq_refl).
  - change (query_start (U pre None (Some y))) with (@None N).
    change (fragment_start (U pre None (Some y))) with (Some (nlen pre + nlen (qf_qtext None))). cbv iota.
    apply G0. cbn [qf_qtext]. rewrite nlen_nil. lia.
  - change (query_start (U pre None None)) with (@None N). change (fragment_start (U pre None None)) with (@None N). cbv iota.
    rewrite U_none_none. reflexivity.
Qed.

Section Run.
Variables (qs fs : option N) (ap : list N) (op : N).
Definition G (X : list N) : psm := mkPsm (mkUrl (F ++ X) (nlen sch) ue hs he hi pt (nlen F) qs fs) (nlen F + 1) ap op.

Lemma G_with X s : psm_with (G X) (F ++ s) = G s.
Proof. reflexivity. Qed.

Lemma extend_inv X segments p' : PI st X -> Forall usv_list segments -> psm_extend dbg (G X) segments = Some p' ->
  exists X', PI st X' /\ p' = G X'.
Proof.
  intros HX Hu H. unfold psm_extend in H. cbn [psm_url G] in H. unfold u_scheme_type in H. rewrite scheme_frame_gen in H.
  cbn [bindo path_start ser] in H.
  destruct (psm_extend_loop dbg st (nlen F) (F ++ X) segments) as [s'|] eqn:El; cbn [bindo] in H; [|discriminate H].
  destruct (pi_extend dbg st F Hf segments X s' HX Hu El) as (X' & -> & HX').
  inversion H; subst p'. exists X'. split; [exact HX' | apply G_with].
Qed.

Lemma apply_inv X o p' : PI st X -> psm_op_usv o -> psm_apply dbg (G X) o = Some p' -> exists X', PI st X' /\ p' = G X'.
Proof.
  intros HX Ho H. destruct o; cbn [psm_apply psm_op_usv] in *.
  - inversion H; subst p'. unfold psm_clear. cbn [psm_url G ser after_first_slash].
    destruct (pi_clear st F X HX) as (X' & E & HX'). rewrite E. exists X'. split; [exact HX' | apply G_with].
  - inversion H; subst p'. unfold psm_pop_if_empty. cbn [psm_url G ser after_first_slash].
    destruct (pi_pop_if_empty st F X HX) as (X' & E & HX'). cbv zeta in E.
    destruct (nlen (F ++ X) <=? nlen F + 1); [exists X; split; [exact HX | reflexivity]|].
    destruct (ends_with_byte 47 (nskipn (nlen F + 1) (F ++ X))); [|exists X; split; [exact HX | reflexivity]].
    rewrite E. exists X'. split; [exact HX' | apply G_with].
  - inversion H; subst p'. unfold psm_pop. cbn [psm_url G ser after_first_slash].
    destruct (pi_pop st F X HX) as (X' & E & HX'). cbv zeta in E.
    destruct (nlen (F ++ X) <=? nlen F + 1); [exists X; split; [exact HX | reflexivity]|].
    rewrite E. exists X'. split; [exact HX' | apply G_with].
  - unfold psm_push in H. apply (extend_inv X [s] p' HX); [constructor; [exact Ho | constructor] | exact H].
  - exact (extend_inv X ss p' HX Ho H).
Qed.

Lemma run_inv ops : forall X p', PI st X -> Forall psm_op_usv ops -> psm_run dbg (G X) ops = Some p' ->
  exists X', PI st X' /\ p' = G X'.
Proof.
  induction ops as [|o rest IH]; intros X p' HX Hu H; cbn [psm_run] in H.
  - inversion H; subst p'. exists X. split; [exact HX | reflexivity].
  - apply Forall_cons_iff in Hu. destruct Hu as [Ho Hrest].
    destruct (psm_apply dbg (G X) o) as [p1|] eqn:Ea; cbn [bindo] in H; [|discriminate H].
    destruct (apply_inv X o p1 HX Ho Ea) as (X1 & HX1 & ->). exact (IH X1 p' HX1 Hrest H).
Qed.
End Run.

Theorem session_frame X q f ops u' status : PI st X -> Forall psm_op_usv ops ->
  cannot_be_a_base (U (F ++ X) q f) = Some false ->
  path_segments_session dbg (U (F ++ X) q f) ops = Some (u', status) ->
  exists X', PI st X' /\ u' = U (F ++ X') q f.
Proof.
  intros HX Hu Ec H. unfold path_segments_session, path_segments_mut in H.
  rewrite Ec in H. cbn [bindo] in H. unfold psm_new in H. rewrite take_after_path_gen in H. cbn [bindo] in H.
  unfold u_scheme_type in H. rewrite scheme_frame_gen in H. cbn [bindo] in H.
  match type of H with context [if dbg then ?a else ?b] => destruct (if dbg then a else b) as [[]|] end;
    cbn [bindo] in H; [|discriminate H].
  cbn [path_start ser] in H.
  fold (G (qf_qs (nlen (F ++ X)) q) (qf_fs (nlen (F ++ X)) q f) (qf_text q f) (nlen (F ++ X)) X) in H.
  destruct (psm_run dbg (G _ _ _ _ X) ops) as [p1|] eqn:Er; cbn [bindo] in H; [|discriminate H].
  destruct (run_inv _ _ _ _ ops X p1 HX Hu Er) as (X' & HX' & ->).
  unfold psm_close, G in H. cbn [psm_url psm_old_pos psm_after_path] in H.
  unfold restore_after_path, set_ser in H. cbn [ser query_start fragment_start scheme_end username_end host_start host_end hosti port path_start] in H.
  rewrite adjust_qs0, adjust_fs0 in H. cbn [bindo] in H.
  inversion H; subst u'. exists X'. split; [exact HX' | reflexivity].
Qed.
End Session.
