(* Proofs/C01_EqFileRel2.v - second file-BASE arm of the C01 equivalence: a scheme-less reference that starts with two
   '/' '\' (any mix) against a FILE base.  The Standard: no scheme state -> file state (base scheme file, no opaque
   path) -> file slash state -> file host state; parser.rs: parse_file with base_file_url = Some base takes the
   file-host arm.  Neither consults the base any further, so the result is that of "file:" + the reference
   (Proofs/C01_EqFile.v).  Beside C01_statement_all2: these references are in class 1 of Known_C01. *)
From Coq Require Import ZifyBool ZifyN.
From RU Require Import Base.Prelude Base.Utf8 Base.Utf8Facts Model.AsciiSet Gen.Tables
  Model.PercentEncoding Model.HostT Model.UrlRecord Model.Parser Model.Setters Model.WF Model.Host Model.KnownC01
  Spec.Whatwg Spec.WhatwgHost Spec.WhatwgHostParse
  Proofs.C02_Parts Proofs.C02_Path Proofs.C03_WF Proofs.C01_Tables Proofs.C08_Input Proofs.C09_Host
  Proofs.C01_EqRun Proofs.C01_EqEnc Proofs.C01_EqApi Proofs.C01_EqOpaque Proofs.C01_EqRef Proofs.C01_EqDots
  Proofs.C01_EqPathSpec Proofs.C01_EqPath Proofs.C01_EqOverflow Proofs.C01_EqEmpty
  Proofs.C01_EqClasses Proofs.C01_EqAuthSpec Proofs.C01_EqAuthModel Proofs.C01_EqAuth Proofs.C01_EqAuthHost
  Proofs.C01_EqClasses2 Proofs.C01_EqRel Proofs.C01_EqRelPath Proofs.C01_EqRelArms Proofs.C01_EqRelBase
  Proofs.C01_EqSpSpec Proofs.C01_EqSpPath Proofs.C01_EqSpModel Proofs.C01_EqSp Proofs.C01_EqSpHost
  Proofs.C01_KnownExact Proofs.C01_EqSpKnown
  Proofs.C01_EqAbs Proofs.C01_EqSpBase Proofs.C01_EqSpBare Proofs.C01_Override Proofs.C01_EqAsm Proofs.C01_EqShape
  Proofs.C01_EqCover
  Proofs.C01_EqFileSpec Proofs.C01_EqFilePath Proofs.C01_EqFileRel Proofs.C01_EqFile Proofs.C01_EqFileHost
  Proofs.C01_EqFileAsm Proofs.C01_EqFileTwo.


Lemma sfile_u0 shp R : sfile shp empty_url R = sfile shp u_file0 R.
Proof. reflexivity. Qed.

(* ================= specification side: a scheme-less reference "//T" against a file base ================= *)
Theorem spec_file_rel_two shp sb input c1 c2 T :
  spec_clean input = c1 :: c2 :: T -> is_sl c1 = true -> is_sl c2 = true ->
  has_opaque_path sb = false -> list_eqb (su_scheme sb) str_file = true ->
  match sfile shp u_file0 (c1 :: c2 :: T) with
  | Some su => spec_basic_url_parse shp input (Some sb) = BDone su
  | None => exists uf, spec_basic_url_parse shp input (Some sb) = BFailure uf
  end.
Proof.
  intros Ecl E1 E2 Hop Hf. set (inp := spec_clean input) in *.
  pose proof (is_sl_scheme_none c1 (c2 :: T) E1) as Hs. rewrite <- Ecl in Hs.
  assert (inp = [] ++ c1 :: c2 :: T) as Hin by exact Ecl.
  pose proof (runs_file_two shp inp (Some sb) c1 c2 T [] false false false empty_url Hin E1 E2 eq_refl) as RF.
  assert (forall res, Runs shp inp (Some sb) (at_pos StFile [] [] false false false empty_url) res ->
                      spec_basic_url_parse shp input (Some sb) = res) as Hrun.
  { intros res HR. apply spec_parse_of_runs. fold inp. apply runs_no_scheme; [exact Hs|].
    eapply (runs_step_stay shp inp (Some sb) StNoScheme [] inp) with (st' := StFile) (buf' := []);
      [reflexivity | rewrite Ecl; discriminate | | exact HR].
    rewrite (step_unfold shp inp (Some sb) _ [] inp) by reflexivity. cbn zeta.
    unfold st_no_scheme. rewrite Hop, Hf. cbn [andb negb]. reflexivity. }
  rewrite <- sfile_u0. cbn [sfile]. rewrite E1, E2.
  destruct (sfile_host_g shp (fu empty_url) [] T) as [su|]; cbn [out_is] in RF.
  - apply Hrun. exact RF.
  - destruct RF as [uf K]. exists uf. apply Hrun. exact K.
Qed.

(* ================= model side ================= *)
Lemma parse_url_file_rel dbg hp hpo hd b input c t :
  cannot_be_a_base b = Some false -> scheme_type_of (b_scheme b) = STFile ->
  ntnl (input_new_trim_c0 input) = c :: t -> spec_scheme (c :: t) = None -> (c =? 35) = false ->
  parse_url dbg hp hpo hd None (Some b) input
  = parse_file dbg hp hd None CUrlParser STFile (Some b) (input_new_trim_c0 input).
Proof.
  intros Hcb Hst Ht Hs E35. unfold parse_url. set (l := input_new_trim_c0 input) in *.
  pose proof (scheme_state_eq l) as K. rewrite Ht, Hs in K.
  destruct (parse_scheme CUrlParser l) as [[s r]|]; [contradiction|].
  destruct (inp_next_some l c t Ht) as (r & En & _ & _).
  unfold inp_starts_with_char. rewrite En, E35, Hcb, Hst. reflexivity.
Qed.

(* ================= the class ================= *)
Definition in_class_file_rel2 (sb : spec_url) (input : list N) : bool :=
  negb (has_opaque_path sb) && list_eqb (su_scheme sb) str_file
  && match spec_clean input with
     | c1 :: c2 :: T => is_sl c1 && is_sl c2 && file_class_ok (c1 :: c2 :: T)
     | _ => false
     end.

Section ClassRel2.
Variable dbg : bool.
Variable hp hpo : list N -> result host.
Variable hd : host -> list N.
Variable shp : bool -> list N -> option spec_host.
Variable shs : spec_host -> list N.

Theorem class_file_rel2 b sb input : usv_list input -> related dbg shs b sb -> in_class_file_rel2 sb input = true ->
  host_agree_file hp hd shp shs (file_host_of (spec_clean input)) ->
  agree_good dbg shs (parse_url dbg hp hpo hd None (Some b) input) (spec_basic_url_parse shp input (Some sb))
  /\ (forall su u, spec_basic_url_parse shp input (Some sb) = BDone su -> parse_url dbg hp hpo hd None (Some b) input = POk u ->
        full_base dbg shs u su).
Proof.
  intros Hu Rl Hc HA. unfold in_class_file_rel2 in Hc.
  apply andb_true_iff in Hc. destruct Hc as [Hc Hok]. apply andb_true_iff in Hc. destruct Hc as [Hop Hf]. apply negb_true_iff in Hop.
  destruct (spec_clean input) as [|c1 [|c2 T]] eqn:Ecl; try discriminate Hok.
  apply andb_true_iff in Hok. destruct Hok as [Hok Hcl]. apply andb_true_iff in Hok. destruct Hok as [E1 E2].
  pose proof (spec_file_rel_two shp sb input c1 c2 T Ecl E1 E2 Hop Hf) as HS.
  rewrite spec_clean_is_ntnl_trim in Ecl. set (l := input_new_trim_c0 input) in *.
  assert (usv_list l) as Hul by exact (usv_trim input Hu).
  rewrite <- Ecl in Hcl, HA, HS.
  pose proof (model_file dbg hp hpo hd shp shs l Hul Hcl HA) as HM.
  assert (parse_url dbg hp hpo hd None (Some b) input = parse_file dbg hp hd None CUrlParser STFile None l) as Epu.
  { assert ((c1 =? 35) = false) as E35 by (unfold is_sl in E1; lia).
    assert (scheme_type_of (b_scheme b) = STFile) as Hst.
    { rewrite (rel_sch _ _ _ _ Rl). apply list_eqb_spec in Hf. rewrite Hf. reflexivity. }
    rewrite (parse_url_file_rel dbg hp hpo hd b input c1 (c2 :: T) (related_not_cbb dbg shs b sb Rl Hop) Hst Ecl
               (is_sl_scheme_none c1 (c2 :: T) E1) E35).
    exact (parse_file_two dbg hp hd _ l c1 c2 T Ecl E1 E2). }
  assert (forall su, spec_basic_url_parse shp input (Some sb) = BDone su -> spec_base_ok su = true /\ base_shape_ok su = true) as Hres.
  { intros su HS'. destruct (sfile shp u_file0 (ntnl l)) as [su'|] eqn:E.
    - rewrite HS in HS'. inversion HS'; subst su'. exact (sfile_result_ok shp _ su E).
    - destruct HS as [uf K]. rewrite K in HS'. discriminate HS'. }
  assert (agree_good dbg shs (parse_url dbg hp hpo hd None (Some b) input) (spec_basic_url_parse shp input (Some sb))) as G.
  { apply agree_good_intro; [|intros su HS'; exact (proj1 (Hres su HS'))].
    rewrite Epu. destruct (sfile shp u_file0 (ntnl l)) as [su|].
    - rewrite HS. cbn [agree_rel_strict]. destruct HM as (u & HO & Rl' & Hle).
      pose proof (related_href dbg shs u su Rl') as Eh. rewrite <- Eh.
      destruct HO as [[E B]|E]; [left; split; assumption | right; exists u; split; assumption].
    - destruct HS as [uf ->]. cbn [agree_rel_strict]. exact HM. }
  split; [exact G|]. intros su u HS' HM'. rewrite HS' in G.
  split; [exact (agree_good_chain dbg shs _ su u G HM') | exact (proj2 (Hres su HS'))].
Qed.

End ClassRel2.

Theorem class_file_rel2_model dbg idna : IdnaOK idna -> forall input b sb,
  usv_list input -> related dbg spec_host_serializer b sb -> in_class_file_rel2 sb input = true ->
  agree_good dbg spec_host_serializer
    (parse_url dbg (host_parse idna) host_parse_opaque host_display None (Some b) input)
    (spec_basic_url_parse (spec_host_parser idna) input (Some sb))
  /\ (forall su u, spec_basic_url_parse (spec_host_parser idna) input (Some sb) = BDone su ->
        parse_url dbg (host_parse idna) host_parse_opaque host_display None (Some b) input = POk u ->
        full_base dbg spec_host_serializer u su).
Proof.
  intros HI input b sb Hu Rl Hc. apply class_file_rel2; [exact Hu | exact Rl | exact Hc|].
  apply host_agree_file_real; [exact (idna_out idna HI)|].
  pose proof (usv_spec_clean input Hu) as Hcl. unfold file_host_of.
  destruct (spec_clean input) as [|c1 [|c2 T]]; try constructor.
  destruct (is_sl c1 && is_sl c2); [|constructor].
  apply (usv_of_in _ T); [exact (as_part_in T) | apply usv_cons in Hcl; destruct Hcl as [_ Hcl]; apply usv_cons in Hcl; tauto].
Qed.

(* non-vacuity: against the parse result of file://h/tmp/x the references //h2.x/a/../b?q and \\/y are in the class
   (and in class 1 of Known_C01); both sides give file://h2.x/b?q and file:///y *)
Example class_file_rel2_nonvacuous :
  let idna := id_idna in
  let P base i := parse_url true (host_parse idna) host_parse_opaque host_display None base i in
  let S sbase i := spec_basic_url_parse (spec_host_parser idna) i sbase in
  let i1 := [47;47;104;50;46;120;47;97;47;46;46;47;98;63;113] in
  let i2 := [92;92;47;121] in
  match P None file_base_text, S None file_base_text with
  | POk b, BDone sb =>
      in_class_file_rel2 sb i1 = true /\ in_class_file_rel2 sb i2 = true
      /\ known_c01_v2 (Some b) i1 = 1 /\ known_c01_v2 (Some b) i2 = 1
      /\ match P (Some b) i1, S (Some sb) i1 with
         | POk u, BDone su => q_href u = [102;105;108;101;58;47;47;104;50;46;120;47;98;63;113]
                              /\ api_of_model true u = Some (spec_api_list spec_host_serializer su)
         | _, _ => False end
      /\ match P (Some b) i2, S (Some sb) i2 with
         | POk u, BDone su => q_href u = [102;105;108;101;58;47;47;47;121]
                              /\ api_of_model true u = Some (spec_api_list spec_host_serializer su)
         | _, _ => False end
  | _, _ => False
  end.
Proof. vm_compute. repeat split. Qed.
