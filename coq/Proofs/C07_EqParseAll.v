(* Proofs/C07_EqParseAll.v - the second clause of C07_statement for EVERY input outside Known_C01: parsing
   (no base) yields records related by corrS.  From C01_statement_all (Proofs/C01_EqCover.v statement_all: outside
   Known_C01 the two parsers agree and a successful pair is a full_base pair = `related` + spec_base_ok +
   base_shape_ok) through the bridge related => corrS of Proofs/C07_EqRel.v, whose side conditions are
     model side : Proofs/C07_ParseExtra.v (clean username; no host => no credentials / port / not special),
                  Proofs/C03_ReachFile.v parse_url_wf_all (host text facts);
     Standard's : Proofs/C07_SpecInv.v (host in the range of the host parser, port <= 65535).
   Host functions: host_fns_ok (Proofs/C07_EqHostname.v: the two sides agree), HostWf (Proofs/C03_ReachParts.v:
   the text of a non-empty host is not empty, led by neither ':' nor '@' and does not end with '/') and the
   empty host serialises as the empty string - together host_parse_ok; they imply the one-string host hypothesis
   host_hyp3 of C01 on every string.
   With Proofs/C07_EqSeven.v: C07_statement restricted to seven setters, for every URL parsed outside Known_C01. *)
From Coq Require Import Bool.
From RU Require Import Base.Prelude Base.Utf8 Model.AsciiSet Gen.Tables Model.PercentEncoding
  Model.HostT Model.UrlRecord Model.Parser Model.Setters Model.WF Model.KnownC01 Model.KnownC07 Spec.Whatwg
  Proofs.ListN Proofs.C03_WF Proofs.C06_Suffix Proofs.C06_Host Proofs.C08_Input
  Proofs.C02_Enc Proofs.C01_Tables Proofs.C01_EqRun Proofs.C01_EqEnc Proofs.C01_EqApi Proofs.C01_EqRef
  Proofs.C01_EqAuthModel Proofs.C01_EqSpModel Proofs.C01_EqRelArms Proofs.C01_EqSpBase
  Proofs.C01_EqAsm Proofs.C01_EqShape Proofs.C01_KnownExact Proofs.C01_EqCover
  Proofs.C03_ReachParts
  Proofs.C07_Defs Proofs.C07_Histories Proofs.C07_Corr Proofs.C07_SpecProto Proofs.C07_EqProto Proofs.C07_EqSix
  Proofs.C07_EqFive Proofs.C07_EqHostname Proofs.C07_EqSeven
  Proofs.C07_EqRel Proofs.C07_SpecInv Proofs.C07_ParseExtra.

(* ---------- the hypotheses on the host functions ---------- *)
Definition host_parse_ok (hp ho : list N -> result host) (hd : host -> list N)
           (shp : bool -> list N -> option spec_host) (shs : spec_host -> list N) : Prop :=
  host_fns_ok hp ho hd shp shs /\ HostWf hp ho hd /\ shs SEmpty = [].

Section All.
Variable dbg : bool.
Variable hp ho : list N -> result host.
Variable hd : host -> list N.
Variable shp : bool -> list N -> option spec_host.
Variable shs : spec_host -> list N.
Hypothesis HP : host_parse_ok hp ho hd shp shs.

Lemma disp_nil_iff h : host_disp_ok hd h -> (hd h = [] <-> h = HDomain []).
Proof.
  unfold host_disp_ok. destruct h as [[|c d]|a|p]; cbn [hi_of_host]; intros H; split; intros E;
    try reflexivity; try discriminate E; try exact H; destruct H as (c0 & r0 & H & _); rewrite H in E; discriminate E.
Qed.

Lemma disp_not_colon h : host_disp_ok hd h -> starts_with_cp 58 (hd h) = false.
Proof.
  unfold host_disp_ok. destruct (hi_of_host h); intros H; try (rewrite H; reflexivity);
    destruct H as (c0 & r0 & -> & H1 & _); cbn [starts_with_cp]; apply N.eqb_neq; exact H1.
Qed.

(* C01's one-string hypothesis holds on every string *)
Lemma host_agree_all s : host_agree ho hd shp shs s.
Proof.
  destruct HP as [[_ H1] _]. specialize (H1 s). unfold host_agree.
  destruct (ho s) as [h|e]; destruct (host_parsing shp true s) as [sh|]; try exact H1; try contradiction.
  destruct H1 as (A & B & C & D). split; [exact A|]. split; [exact (disp_not_colon h B)|]. split; [exact D|].
  rewrite (disp_nil_iff h B). exact D.
Qed.

Lemma host_agree_sp_all s : host_agree_sp hp hd shp shs s.
Proof.
  destruct HP as [[H0 _] [(W1 & _) _]]. specialize (H0 s). unfold host_agree_sp.
  destruct s as [|c r]; [exact I|].
  destruct (hp (c :: r)) as [h|e] eqn:Eh; destruct (host_parsing shp false (c :: r)) as [sh|]; try exact H0; try contradiction.
  destruct H0 as (A & B & C & D).
  assert (h <> HDomain []) as Hne by (intros E; apply D in E; discriminate E).
  destruct (W1 _ _ Eh Hne) as (T1 & _ & _ & T4).
  split; [exact A|]. split; [exact (disp_not_colon h B)|]. split; [exact Hne|]. split; [exact T1 | exact T4].
Qed.

Lemma host_hyp3_all sbase input : host_hyp3 hp ho hd shp shs sbase input.
Proof.
  unfold host_hyp3. destruct (class_host_query sbase input) as [[[|] s]|];
    [apply host_agree_all | apply host_agree_sp_all | exact I].
Qed.

(* a host of the Standard that a host parser returns is the empty host or has a non-empty text *)
Lemma range_text o s h : host_parsing shp o s = Some h -> h = SEmpty \/ shs h <> [].
Proof.
  intros E. destruct HP as [[H0 H1] _].
  assert (forall hf, host_fn_ok hf hd shp shs o -> h = SEmpty \/ shs h <> []) as K.
  { intros hf Hf. specialize (Hf s). rewrite E in Hf. destruct (hf s) as [h'|e]; [|contradiction].
    destruct Hf as (A & B & C & _).
    destruct (host_eq_dec_empty h') as [E'|E']; [left; apply C; exact E'|].
    right. rewrite <- A. intros Z. apply E'. apply (disp_nil_iff h' B). exact Z. }
  destruct o; [exact (K ho H1) | exact (K hp H0)].
Qed.

(* Known_C01 without a base no longer contains every input whose scheme is "file" (class 1 was narrowed by the
   raw-segment recogniser k_file_ok of Model/KnownC01.v): the bridge related => corrS is proved for schemes other
   than "file" only, so file inputs are excluded explicitly (input_is_file of Proofs/C07_ParseExtra.v) *)
Lemma input_not_file input sch rem :
  parse_scheme CUrlParser (input_new_trim_c0 input) = Some (sch, rem) ->
  input_is_file input = false -> list_eqb sch s_file = false.
Proof.
  intros Es Hif. unfold input_is_file in Hif. rewrite Es in Hif.
  rewrite C07_EqProto.file_test_same in Hif. exact Hif.
Qed.

(* outside Known_C01 and not "file" = outside the former predicate known_c01_v1 (class 1 = the whole file scheme),
   on which C01_statement_all stands *)
Lemma known_v1_of input : known_c01 None input = 0 -> input_is_file input = false -> known_c01_v1 None input = 0.
Proof.
  intros Hk Hif. unfold known_c01 in Hk. cbv zeta in Hk.
  destruct ((known_c01_v1 None input =? 1) && k_file_narrow None input) eqn:E; [|exact Hk].
  exfalso. apply andb_true_iff in E. destruct E as [_ E]. unfold k_file_narrow in E. cbv zeta in E.
  unfold cleaned in E. fold (ntnl (input_new_trim_c0 input)) in E. unfold input_is_file in Hif.
  destruct (parse_scheme CUrlParser (input_new_trim_c0 input)) as [[sch rem]|] eqn:Es.
  - apply scheme_state_some in Es. apply spec_scheme_some_leading in Es. destruct Es as [El _]. rewrite El in E.
    rewrite C07_EqProto.file_test_same in Hif. change str_file with s_file in Hif. rewrite Hif in E. discriminate E.
  - apply scheme_state_none in Es. apply spec_scheme_none_leading in Es. rewrite Es in E. discriminate E.
Qed.

Lemma not_file_type sch : list_eqb sch s_file = false -> st_is_file (scheme_type_of sch) = false.
Proof.
  intros H. unfold scheme_type_of. rewrite H.
  destruct (list_eqb sch s_http || list_eqb sch s_https || list_eqb sch s_ws || list_eqb sch s_wss || list_eqb sch s_ftp);
    reflexivity.
Qed.

(* ---------- parsing outside Known_C01 yields corrS ---------- *)
Theorem parse_all_corrS input u : usv_list input -> known_c01 None input = 0 -> input_is_file input = false ->
  parse_url dbg hp ho hd None None input = POk u ->
  exists su, spec_basic_url_parse shp input None = BDone su /\ corrS dbg shs u su.
Proof.
  intros Hu Hk Hif Hp.
  destruct (statement_all dbg hp ho hd shp shs input None None Hu I (known_v1_of input Hk Hif) (host_hyp3_all None input)) as [A Hfull].
  rewrite Hp in A. unfold agree_good in A.
  destruct (spec_basic_url_parse shp input None) as [su|uf|] eqn:Hs; [|destruct A as [e A]; discriminate A | contradiction].
  exists su. split; [reflexivity|].
  destruct (Hfull su u eq_refl Hp) as [[R Hok] Hshape].
  destruct HP as (HF & HW & HE).
  (* the scheme is not file *)
  destruct (parse_scheme CUrlParser (input_new_trim_c0 input)) as [[sch rem]|] eqn:Es.
  2:{ unfold parse_url in Hp. rewrite Es in Hp. discriminate Hp. }
  pose proof (input_not_file input sch rem Es Hif) as Hnf.
  pose proof (not_file_type sch Hnf) as Hnft.
  pose proof (parse_nobase_scheme dbg hp ho hd None input sch rem u Es Hnft Hp) as Esch.
  pose proof (rel_sch _ _ _ _ R) as Rsch. rewrite Esch in Rsch.
  destruct (parse_nobase_extra dbg hp ho hd None HW input u Hu Hif Hp) as [MW MT MU MN].
  destruct (spec_parse_uinv shp input su Hs) as [UH UP].
  apply related_corrS.
  - exact R.
  - constructor.
    + exact MT.
    + exact MU.
    + intros Hh Ha. destruct (MN Hh Ha) as (E1 & E2 & E3). split; [exact E1|]. split; [exact E2|].
      unfold is_special. rewrite <- Rsch, <- special_schemes_are_the_standards, <- Esch. exact E3.
    + exact UP.
    + unfold host_in_range in UH. destruct (su_host su) as [h|]; [|exact I].
      destruct UH as [->|(o & s & E)]; [left; reflexivity | exact (range_text o s h E)].
    + exact HE.
  - rewrite <- Rsch. exact Hnf.
  - intros Hsp. unfold base_shape_ok in Hshape. unfold is_special in Hsp. rewrite Hsp in Hshape.
    rewrite <- Rsch in Hshape at 1. change str_file with s_file in Hshape. rewrite Hnf in Hshape.
    cbn [negb orb] in Hshape. unfold sp_base_ok in Hshape.
    apply andb_true_iff in Hshape. exact (proj2 Hshape).
Qed.

(* ---------- href: the parser without a base ---------- *)
(* the one arm of C01 that is not an agreement: a URL whose serialization exceeds u32::MAX bytes - the model
   answers Err(Overflow) and keeps the old URL, the Standard sets the new one *)
Definition href_fits (v : list N) : Prop :=
  match spec_basic_url_parse shp v None with
  | BDone su' => nlen (get_href shs su') <= U32_MAX_P
  | _ => True
  end.

(* a value the href clause covers: it fits, and its scheme is not "file" (see input_not_file above) *)
Definition href_ok (v : list N) : Prop := href_fits v /\ input_is_file v = false.

Theorem href_step u su v : corrS dbg shs u su -> usv_list v -> known_c07 u QHref v = 0 -> href_ok v ->
  exists u' su', model_set dbg hp ho hd QHref u v = Some u' /\ spec_step shp QHref su v = Some su'
    /\ corrS dbg shs u' su'.
Proof.
  intros C Hv Hk [Hfit Hif]. cbn [known_c07] in Hk.
  assert (known_c01 None v = 0) as Hk1.
  { destruct (known_c01 None v =? 0) eqn:E; [apply N.eqb_eq; exact E | lia]. }
  clear Hk. unfold href_fits in Hfit.
  destruct (statement_all dbg hp ho hd shp shs v None None Hv I (known_v1_of v Hk1 Hif) (host_hyp3_all None v)) as [A _].
  unfold spec_step. cbn [setter_of_q spec_set model_set]. unfold agree_good in A.
  destruct (spec_basic_url_parse shp v None) as [su'|uf|] eqn:Hs.
  - destruct A as [_ [[Ho Hl]|(u' & Hp & _)]]; [lia|].
    rewrite Hp. exists u', su'. split; [reflexivity|]. split; [reflexivity|].
    destruct (parse_all_corrS v u' Hv Hk1 Hif Hp) as (su2 & Hs2 & C2). rewrite Hs in Hs2. injection Hs2 as <-. exact C2.
  - destruct A as [e A]. rewrite A. exists u, su. split; [reflexivity|]. split; [reflexivity | exact C].
  - contradiction.
Qed.

(* ---------- eight setters ---------- *)
Fixpoint eight_ops (ops : list (qsetter * list N)) : Prop :=
  match ops with
  | [] => True
  | (s, v) :: r => (seven s = true \/ (s = QHref /\ href_ok v)) /\ usv_list v /\ eight_ops r
  end.

Theorem eight_step u su s v : corrS dbg shs u su -> (seven s = true \/ (s = QHref /\ href_ok v)) -> usv_list v ->
  known_c07 u s v = 0 ->
  exists u' su', model_set dbg hp ho hd s u v = Some u' /\ spec_step shp s su v = Some su' /\ corrS dbg shs u' su'.
Proof.
  intros C [Hs|[-> Hf]] Hv Hk.
  - exact (seven_step dbg hp ho hd shp shs (proj1 HP) u su s v C Hs Hv Hk).
  - exact (href_step u su v C Hv Hk Hf).
Qed.

Lemma eight_run : forall ops u su, corrS dbg shs u su -> eight_ops ops -> outside_known dbg hp ho hd u ops ->
  exists u' su', model_run dbg hp ho hd u ops = Some u' /\ spec_run shp su ops = Some su' /\ corrS dbg shs u' su'.
Proof.
  induction ops as [|[s v] r IH]; intros u su C Hf Ho.
  - exists u, su. cbn [model_run spec_run]. auto.
  - cbn [eight_ops outside_known] in Hf, Ho. destruct Hf as (Hs & Hv & Hr). destruct Ho as [Hk Hrest].
    destruct (eight_step u su s v C Hs Hv Hk) as (u1 & su1 & Em & Es & C1).
    rewrite Em in Hrest. destruct (IH u1 su1 C1 Hr Hrest) as (u2 & su2 & Em2 & Es2 & C2).
    exists u2, su2. cbn [model_run spec_run]. rewrite Em, Es. auto.
Qed.

Lemma eight_ops_firstn n : forall ops, eight_ops ops -> eight_ops (firstn n ops).
Proof.
  induction n as [|n IH]; intros ops H; [exact I|]. destruct ops as [|[s v] r]; [exact I|].
  cbn [firstn eight_ops] in *. destruct H as (A & B & Cc). auto.
Qed.

Theorem eight_histories ops u su : corrS dbg shs u su -> eight_ops ops -> outside_known dbg hp ho hd u ops ->
  forall n, exists u' su',
    model_run dbg hp ho hd u (firstn n ops) = Some u'
    /\ spec_run shp su (firstn n ops) = Some su'
    /\ corrS dbg shs u' su'
    /\ model_api dbg u' = Some (spec_api_list shs su').
Proof.
  intros C Hf Ho n.
  destruct (eight_run (firstn n ops) u su C (eight_ops_firstn n ops Hf) (outside_known_firstn dbg hp ho hd n ops u Ho))
    as (u' & su' & A & B & C').
  exists u', su'. split; [exact A|]. split; [exact B|]. split; [exact C'|]. exact (corr_api dbg shs u' su' (proj1 C')).
Qed.

(* ---------- C07_statement restricted to the seven setters ---------- *)
Theorem seven_from_parse_all input u ops : usv_list input -> known_c01 None input = 0 -> input_is_file input = false ->
  parse_url dbg hp ho hd None None input = POk u ->
  seven_ops ops -> outside_known dbg hp ho hd u ops ->
  exists su, spec_basic_url_parse shp input None = BDone su
    /\ model_api dbg u = Some (spec_api_list shs su)
    /\ forall n, exists u' su',
         model_run dbg hp ho hd u (firstn n ops) = Some u'
         /\ spec_run shp su (firstn n ops) = Some su'
         /\ model_api dbg u' = Some (spec_api_list shs su').
Proof.
  intros Hu Hk Hif Hp Hops Hout.
  destruct (parse_all_corrS input u Hu Hk Hif Hp) as (su & Hs & C).
  exists su. split; [exact Hs|]. split; [exact (corr_api dbg shs u su (proj1 C))|].
  intros n.
  destruct (seven_histories dbg hp ho hd shp shs (proj1 HP) ops u su C Hops Hout n) as (u' & su' & A & B & _ & D).
  exists u', su'. split; [exact A|]. split; [exact B | exact D].
Qed.

Theorem statement_seven_all :
  exists R : url -> spec_url -> Prop,
    (forall u su, R u su -> model_api dbg u = Some (spec_api_list shs su))
    /\ (forall input u, usv_list input -> known_c01 None input = 0 -> input_is_file input = false ->
          parse_url dbg hp ho hd None None input = POk u ->
          exists su, spec_basic_url_parse shp input None = BDone su /\ R u su)
    /\ (forall u su s v, R u su -> seven s = true -> usv_list v -> known_c07 u s v = 0 ->
          exists u' su', model_set dbg hp ho hd s u v = Some u' /\ spec_step shp s su v = Some su' /\ R u' su').
Proof.
  exists (corrS dbg shs). split; [intros u su C; exact (corr_api dbg shs u su (proj1 C))|].
  split; [exact parse_all_corrS|].
  exact (seven_step dbg hp ho hd shp shs (proj1 HP)).
Qed.

Theorem statement_eight_all :
  exists R : url -> spec_url -> Prop,
    (forall u su, R u su -> model_api dbg u = Some (spec_api_list shs su))
    /\ (forall input u, usv_list input -> known_c01 None input = 0 -> input_is_file input = false ->
          parse_url dbg hp ho hd None None input = POk u ->
          exists su, spec_basic_url_parse shp input None = BDone su /\ R u su)
    /\ (forall u su s v, R u su -> (seven s = true \/ (s = QHref /\ href_ok v)) -> usv_list v -> known_c07 u s v = 0 ->
          exists u' su', model_set dbg hp ho hd s u v = Some u' /\ spec_step shp s su v = Some su' /\ R u' su').
Proof.
  exists (corrS dbg shs). split; [intros u su C; exact (corr_api dbg shs u su (proj1 C))|].
  split; [exact parse_all_corrS | exact eight_step].
Qed.

End All.

(* ---------- host functions that meet host_parse_ok ---------- *)
Definition bad_text (s : list N) : bool := bad_head s || ends_with_byte 47 s.
Definition ok_hp (s : list N) : result host :=
  match s with [] => Err EmptyHost | _ => if bad_text s then Err InvalidDomainCharacter else Ok (HDomain s) end.
Definition ok_ho (s : list N) : result host :=
  match s with [] => Ok (HDomain []) | _ => if bad_text s then Err InvalidDomainCharacter else Ok (HDomain s) end.
Definition ok_shp (o : bool) (s : list N) : option spec_host :=
  match s with
  | [] => if o then Some SEmpty else None
  | _ => if bad_text s then None else Some (if o then SOpaque s else SDomain s)
  end.

Theorem ok_host_parse_ok : host_parse_ok ok_hp ok_ho toy_hd ok_shp toy_shs.
Proof.
  split; [|split; [|reflexivity]].
  - split; intros [|c r]; unfold host_parsing, ok_hp, ok_ho, ok_shp.
    + exact I.
    + destruct (bad_text (c :: r)) eqn:E; [exact I|]. unfold bad_text in E. apply orb_false_iff in E.
      destruct E as [E _]. cbn [bad_head] in E. apply orb_false_iff in E. destruct E as [E1 E2].
      split; [reflexivity|]. split.
      * unfold host_disp_ok. cbn [hi_of_host toy_hd]. exists c, r. split; [reflexivity | lia].
      * split; split; intros H; discriminate H.
    + split; [reflexivity|]. split; [reflexivity|]. split; split; reflexivity.
    + destruct (bad_text (c :: r)) eqn:E; [exact I|]. unfold bad_text in E. apply orb_false_iff in E.
      destruct E as [E _]. cbn [bad_head] in E. apply orb_false_iff in E. destruct E as [E1 E2].
      split; [reflexivity|]. split.
      * unfold host_disp_ok. cbn [hi_of_host toy_hd]. exists c, r. split; [reflexivity | lia].
      * split; split; intros H; discriminate H.
  - assert (forall c r, bad_text (c :: r) = false -> host_text_wf (c :: r)) as K.
    { intros c r E. unfold bad_text in E. apply orb_false_iff in E. destruct E as [E E47].
      cbn [bad_head] in E. apply orb_false_iff in E. destruct E as [E1 E2].
      unfold host_text_wf. split; [discriminate|]. split; [|split; [|exact E47]];
        cbn; intros H; injection H as H; lia. }
    split; [|split; [|reflexivity]].
    + intros [|c r] h; unfold ok_hp; [discriminate|].
      destruct (bad_text (c :: r)) eqn:E; [discriminate|]. intros H _. injection H as <-. exact (K c r E).
    + intros [|c r] h; unfold ok_ho.
      * intros H Hne. injection H as <-. contradiction.
      * destruct (bad_text (c :: r)) eqn:E; [discriminate|]. intros H _. injection H as <-. exact (K c r E).
Qed.
