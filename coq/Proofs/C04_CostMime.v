(* Proofs/C04_CostMime.v - cost of MIME type parsing (data-url/src/mime.rs parse / parse_parameters), outside and inside
   finding F-C04-9.
   Cost semantics as in Model/Cost.v (a forward scan / a copy of x = nlen x steps, one step per loop iteration).  The
   twin is defined over the panic-free reading p_params_loop of Proofs/C19_Pure.v (equal to the model on a &str:
   params_loop_spec).  Per piece of the ';'-separated input:
     five passes over the piece (trim_start, splitn on '=', the token test of the name, valid_value, the lower-case
     copy of the name / the copy of the value), two steps of bookkeeping,
     contains(parameters, name) - evaluated only for a non-empty token name: for every parameter collected so far one
     step, plus the length of the name when the lengths agree (eq_ignore_ascii_case compares lengths first),
     the quoted-string scanner: the characters of the pieces it takes from the shared iterator, twice (examined, pushed).
   RESULT: cost <= (14 + P) * (|input| + 1) + 4 where P is the number of parameters of the RESULT - linear for a bounded
   number of accepted parameters; the product term is finding F-C04-9 (n distinct names: at least n(n-1)/2 steps). *)
From RU Require Import Base.Prelude Base.Utf8 Base.Utf8Facts Gen.Tables Model.HostT Model.UrlRecord Proofs.ListN.
From RU Require Import Model.Mime Proofs.C19_Tables Proofs.C19_Pure.

(* ---------------------------------------------------------------- definitions *)
Definition plen (ps : plist) : N := N.of_nat (length ps).
Lemma plen_cons p ps : plen (p :: ps) = 1 + plen ps.
Proof. unfold plen. cbn [length]. lia. Qed.
Lemma plen_app a b : plen (a ++ b) = plen a + plen b.
Proof. unfold plen. rewrite app_length. lia. Qed.
Definition contains_cost (parameters : plist) (name : list N) : N :=
  fold_right (fun p acc => 1 + (if nlen (fst p) =? nlen name then nlen name else 0) + acc) 0 parameters.

(* what the ';'-iterator still holds: every piece and its separator *)
Definition size (pieces : list (list N)) : N := fold_right (fun p acc => nlen p + 1 + acc) 0 pieces.

Fixpoint p_params_cost (fuel : nat) (pieces : list (list N)) (parameters : plist) : N :=
  match fuel with
  | O => 0
  | S fuel' =>
    match pieces with
    | [] => 1
    | piece :: rest =>
      let (name, value) := split_once 61 (trim_start piece) in
      let name_ok := p_name_valid parameters name in
      let c0 := 2 + 5 * nlen piece
                + (if negb (is_empty name) && tokens name then contains_cost parameters name else 0) in
      match value with
      | None => c0 + p_params_cost fuel' rest parameters
      | Some value =>
        match strip_prefix_quote value with
        | Some stripped =>
            let (unescaped_value, rest') := scan_quoted rest stripped [] in
            let cq := 2 * (size rest - size rest') in
            if negb name_ok || negb (valid_value value) then c0 + cq + p_params_cost fuel' rest' parameters
            else c0 + cq + p_params_cost fuel' rest' (parameters ++ [(to_ascii_lowercase name, unescaped_value)])
        | None =>
            let value := trim_end value in
            if is_empty value then c0 + p_params_cost fuel' rest parameters
            else if negb name_ok || negb (valid_value value) then c0 + p_params_cost fuel' rest parameters
            else c0 + p_params_cost fuel' rest (parameters ++ [(to_ascii_lowercase name, value)])
        end
      end
    end
  end.

Definition parse_parameters_cost (s : list N) (parameters : plist) : N :=
  let (p, ps) := split_all 59 s in
  nlen s + 1 + p_params_cost (S (S (length ps))) (p :: ps) parameters.

(* parse: trim_matches (two scans), splitn on '/', token test and lower-case copy of the type, splitn on ';',
   trim_end / token test / lower-case copy of the subtype - at most six passes over the input - then the parameters *)
Definition mime_parse_cost (s : list N) : N :=
  6 * nlen s + 3
  + match snd (split_once 47 (trim_matches s)) with
    | Some rest => match snd (split_once 59 rest) with
                   | Some rest' => parse_parameters_cost rest' []
                   | None => 0
                   end
    | None => 0
    end.

(* ---------------------------------------------------------------- lengths *)
Lemma trim_start_len s : nlen (trim_start s) <= nlen s.
Proof.
  induction s as [|c s IH]; cbn [trim_start]; [lia|]. destruct (http_whitespace c); [rewrite nlen_cons; lia | lia].
Qed.

Lemma trim_end_len s : nlen (trim_end s) <= nlen s.
Proof.
  induction s as [|c s IH]; cbn [trim_end]; [lia|]. rewrite nlen_cons. destruct (trim_end s) as [|x r].
  - destruct (http_whitespace c); cbn; lia.
  - rewrite !nlen_cons in *. lia.
Qed.

Lemma split_once_len sep s :
  nlen (fst (split_once sep s)) <= nlen s
  /\ match snd (split_once sep s) with Some b => nlen (fst (split_once sep s)) + nlen b + 1 = nlen s | None => True end.
Proof.
  induction s as [|c s IH]; cbn [split_once]; [cbn; split; [lia|exact I]|]. rewrite nlen_cons. destruct (c =? sep).
  - cbn [fst snd]. change (nlen []) with 0. split; lia.
  - destruct (split_once sep s) as [a b]. cbn [fst snd] in *. rewrite nlen_cons. destruct IH as [H1 H2].
    split; [lia|]. destruct b; [lia|exact I].
Qed.

Lemma split_all_size sep s : size (fst (split_all sep s) :: snd (split_all sep s)) = nlen s + 1.
Proof.
  induction s as [|c s IH]; cbn [split_all]; [reflexivity|]. destruct (split_all sep s) as [p ps]. cbn [fst snd] in *.
  rewrite nlen_cons. cbn [size fold_right] in *. destruct (c =? sep); cbn [fst snd fold_right]; [change (nlen []) with 0 | rewrite nlen_cons]; lia.
Qed.

Lemma size_skipn k : forall l, size (skipn k l) <= size l.
Proof.
  induction k as [|k IH]; intros l; [cbn [skipn]; lia|]. destruct l as [|x r]; [cbn; lia|]. cbn [skipn].
  specialize (IH r). cbn [size fold_right]. fold (size r). lia.
Qed.

Lemma scan_quoted_size pieces chars acc : size (snd (scan_quoted pieces chars acc)) <= size pieces.
Proof. destruct (scan_quoted_facts pieces chars acc) as [w [k [E _]]]. rewrite E. cbn [snd]. apply size_skipn. Qed.

Lemma contains_cost_le parameters name : contains_cost parameters name <= plen parameters * (1 + nlen name).
Proof.
  induction parameters as [|p r IH]; [cbn; lia|]. cbn [contains_cost fold_right]. fold (contains_cost r name).
  rewrite plen_cons. destruct (nlen (fst p) =? nlen name); nia.
Qed.

Lemma contains_cost_ge parameters name : plen parameters <= contains_cost parameters name.
Proof.
  induction parameters as [|p r IH]; [cbn; lia|]. cbn [contains_cost fold_right]. fold (contains_cost r name).
  rewrite plen_cons. lia.
Qed.

(* ---------------------------------------------------------------- the bound *)
Lemma p_params_cost_le fuel : forall pieces parameters ps',
  p_params_loop fuel pieces parameters = Ok ps' ->
  plen parameters <= plen ps'
  /\ p_params_cost fuel pieces parameters <= (7 + plen ps') * size pieces + 1.
Proof.
  induction fuel as [|fuel IH]; intros pieces parameters ps' H; [discriminate|].
  cbn [p_params_loop p_params_cost] in *. destruct pieces as [|piece rest].
  - inversion H; subst. split; [lia|]. cbn. lia.
  - cbn [size fold_right]. fold (size rest).
    pose proof (split_once_len 61 (trim_start piece)) as [Hn _]. pose proof (trim_start_len piece) as Ht.
    destruct (split_once 61 (trim_start piece)) as [name value]. cbn [fst] in Hn. cbv zeta.
    set (cc := if negb (is_empty name) && tokens name then contains_cost parameters name else 0).
    assert (Hcc : cc <= plen parameters * (1 + nlen piece)).
    { unfold cc. destruct (negb (is_empty name) && tokens name); [|lia].
      pose proof (contains_cost_le parameters name). nia. }
    assert (Step : forall pieces2 params2, size pieces2 <= size rest -> plen parameters <= plen params2 ->
              forall extra, extra + (7 + plen ps') * size pieces2 <= (7 + plen ps') * size rest ->
              p_params_loop fuel pieces2 params2 = Ok ps' ->
              plen parameters <= plen ps'
              /\ 2 + 5 * nlen piece + cc + extra + p_params_cost fuel pieces2 params2
                 <= (7 + plen ps') * (nlen piece + 1 + size rest) + 1).
    { intros pieces2 params2 Hs Hp extra He H2. destruct (IH pieces2 params2 ps' H2) as [G1 G2]. split; [lia|].
      assert (plen parameters * (1 + nlen piece) <= plen ps' * (1 + nlen piece)) by nia. nia. }
    destruct value as [value|].
    + destruct (strip_prefix_quote value) as [stripped|].
      * pose proof (scan_quoted_size rest stripped []) as Hq.
        destruct (scan_quoted rest stripped []) as [u rest']. cbn [snd] in Hq.
        assert (He : 2 * (size rest - size rest') + (7 + plen ps') * size rest' <= (7 + plen ps') * size rest) by nia.
        destruct (negb (p_name_valid parameters name) || negb (valid_value value)).
        -- destruct (Step rest' parameters Hq ltac:(lia) _ He H) as [G1 G2]. split; [exact G1|lia].
        -- destruct (Step rest' (parameters ++ [(to_ascii_lowercase name, u)]) Hq ltac:(rewrite plen_app; lia) _ He H) as [G1 G2].
           split; [exact G1|lia].
      * assert (He : 0 + (7 + plen ps') * size rest <= (7 + plen ps') * size rest) by lia.
        destruct (is_empty (trim_end value)).
        -- destruct (Step rest parameters ltac:(lia) ltac:(lia) _ He H) as [G1 G2]. split; [exact G1|lia].
        -- destruct (negb (p_name_valid parameters name) || negb (valid_value (trim_end value))).
           ++ destruct (Step rest parameters ltac:(lia) ltac:(lia) _ He H) as [G1 G2]. split; [exact G1|lia].
           ++ destruct (Step rest (parameters ++ [(to_ascii_lowercase name, trim_end value)]) ltac:(lia) ltac:(rewrite plen_app; lia) _ He H) as [G1 G2].
              split; [exact G1|lia].
    + assert (He : 0 + (7 + plen ps') * size rest <= (7 + plen ps') * size rest) by lia.
      destruct (Step rest parameters ltac:(lia) ltac:(lia) _ He H) as [G1 G2]. split; [exact G1|lia].
Qed.

Lemma parse_parameters_cost_le s ps' : p_parse_parameters s [] = Ok ps' ->
  parse_parameters_cost s [] <= (8 + plen ps') * (nlen s + 1) + 1.
Proof.
  unfold p_parse_parameters, parse_parameters_cost. pose proof (split_all_size 59 s) as Hs.
  destruct (split_all 59 s) as [p ps]. cbn [fst snd] in Hs. intros H.
  destruct (p_params_cost_le _ _ _ _ H) as [_ G]. rewrite Hs in G. nia.
Qed.

(* MIME parsing of a &str: linear in the input times (14 + the number of parameters of the result) *)
Theorem mime_parse_cost_le s m : usv_list s -> parse s = Ok (Some m) ->
  mime_parse_cost s <= (14 + plen (m_params m)) * (nlen s + 1) + 4.
Proof.
  intros Hs. rewrite (parse_spec s Hs). unfold p_parse, mime_parse_cost. cbv zeta.
  pose proof (trim_start_len s) as T1. pose proof (trim_end_len (trim_start s)) as T2. fold (trim_matches s) in T2.
  pose proof (split_once_len 47 (trim_matches s)) as [A1 A2].
  destruct (split_once 47 (trim_matches s)) as [type_ rest]. cbn [fst snd] in *.
  destruct (negb (tokens type_ && negb (is_empty type_))); [discriminate|].
  destruct rest as [rest|]; [|discriminate].
  pose proof (split_once_len 59 rest) as [B1 B2].
  destruct (split_once 59 rest) as [subtype rest']. cbn [fst snd] in *.
  destruct (negb (tokens (trim_end subtype) && negb (is_empty (trim_end subtype)))); [discriminate|].
  destruct rest' as [rest'|].
  - destruct (p_parse_parameters rest' []) as [ps'| |] eqn:Ep; cbn [bind]; try discriminate.
    intros H. inversion H; subst. cbn [m_params]. pose proof (parse_parameters_cost_le rest' ps' Ep) as Hc.
    unfold trim_matches in *. assert (L : nlen rest' + 1 <= nlen s) by lia.
    assert ((8 + plen ps') * (nlen rest' + 1) <= (8 + plen ps') * nlen s) by (apply N.mul_le_mono_l; exact L). nia.
  - cbn [bind]. intros H. inversion H; subst. cbn [m_params]. change (plen []) with 0. lia.
Qed.

(* ---------------------------------------------------------------- finding F-C04-9, in the cost model *)
(* "a/b" followed by n parameters ";p<i>=1" with pairwise distinct names, and by n parameters ";a=1" *)
Fixpoint digits_rev (fuel : nat) (n : N) : list N :=
  match fuel with
  | O => []
  | S f => (48 + n mod 10) :: (if n / 10 =? 0 then [] else digits_rev f (n / 10))
  end.
Fixpoint distinct_params (n : nat) : list N :=
  match n with
  | O => []
  | S k => distinct_params k ++ [59; 112] ++ rev (digits_rev 10 (N.of_nat k)) ++ [61; 49]
  end.
Fixpoint same_params (n : nat) : list N :=
  match n with O => [] | S k => same_params k ++ [59; 97; 61; 49] end.
Definition mime_distinct (n : nat) : list N := [97; 47; 98] ++ distinct_params n.
Definition mime_same (n : nat) : list N := [97; 47; 98] ++ same_params n.

Definition n_params (s : list N) : N :=
  match parse s with Ok (Some m) => plen (m_params m) | _ => 0 end.

Lemma f_c04_9_quadratic_50_100_200 :
  (n_params (mime_distinct 50) = 50 /\ 50 * 49 <= 2 * mime_parse_cost (mime_distinct 50))
  /\ (n_params (mime_distinct 100) = 100 /\ 100 * 99 <= 2 * mime_parse_cost (mime_distinct 100))
  /\ (n_params (mime_distinct 200) = 200 /\ 200 * 199 <= 2 * mime_parse_cost (mime_distinct 200)).
Proof. vm_compute. repeat split; try reflexivity; discriminate. Qed.

Lemma same_name_linear_50_100_200 :
  (n_params (mime_same 50) = 1 /\ mime_parse_cost (mime_same 50) <= 15 * (nlen (mime_same 50) + 1) + 4)
  /\ (n_params (mime_same 100) = 1 /\ mime_parse_cost (mime_same 100) <= 15 * (nlen (mime_same 100) + 1) + 4)
  /\ (n_params (mime_same 200) = 1 /\ mime_parse_cost (mime_same 200) <= 15 * (nlen (mime_same 200) + 1) + 4).
Proof. vm_compute. repeat split; try reflexivity; discriminate. Qed.
