(* Proofs/C07_SpecHost.v - the specification side of the C07 equivalence for the hostname setter: what
   the basic URL parser of Spec/Whatwg.v computes when it is run WITH the state override "hostname
   state" on a URL whose scheme is not "file" (host state: buffer, insideBrackets), in closed form. *)
From RU Require Import Base.Prelude Base.Utf8 Spec.Whatwg Spec.WhatwgFuel Proofs.C01_EqRun Proofs.C01_EqAuthSpec
  Proofs.C07_SpecRun Proofs.C07_SpecProto.

(* end of the host: '/', '?', '#', and '\' for a special URL *)
Definition h_end (sp : bool) (c : N) : bool := (c =? 47) || (c =? 63) || (c =? 35) || (sp && (c =? 92)).

(* the scan of the host state: (buffer when it stops, stopped at a ':' outside brackets) *)
Fixpoint hscan (sp br : bool) (buf t : list N) : list N * bool :=
  match t with
  | [] => (buf, false)
  | c :: r => if (c =? 58) && negb br then (buf, true)
              else if h_end sp c then (buf, false)
              else hscan sp (br_next br c) (buf ++ [c]) r
  end.

Section HostnameOutcome.
Variable hp : bool -> list N -> option spec_host.

(* what the hostname state leaves, from the result of the scan *)
Definition hostname_decide (u : spec_url) (r : list N * bool) : spec_url :=
  let sp := is_special u in
  match r with
  | (_, true) => u
  | (buf, false) =>
      if sp && is_nil buf then u
      else if is_nil buf && (includes_credentials u || opt_is_some (su_port u)) then u
      else match host_parsing hp (negb sp) buf with
           | None => u
           | Some h => set_host u (Some h)
           end
  end.

Lemma list_eqb_nil_is_nil (b : list N) : list_eqb b [] = is_nil b.
Proof. destruct b; reflexivity. Qed.

Variable input : list N.
Notation runO := (run hp input None (Some StHostname)).

Theorem run_hostname_ov : forall t pre fuel buf a br pw u,
  input = pre ++ t -> (length t < fuel)%nat -> list_eqb (su_scheme u) str_file = false ->
  after_override (runO fuel (at_pos StHostname pre buf a br pw u))
  = SetTo (hostname_decide u (hscan (is_special u) br buf t)).
Proof.
  induction t as [|c r IH]; intros pre fuel buf a br pw u Hin Hfuel Hnf;
    (destruct fuel as [|fuel]; [cbn [length] in Hfuel; lia|]); cbn [run].
  - rewrite (step_at hp input StHostname _ _ _ _ _ _ _ _ Hin). cbn zeta. cbn [hd_error hscan].
    unfold st_host. cbn [has_ov opt_is_some andb m_url m_buf m_br at_pos cis]. rewrite Hnf. cbn [andb].
    unfold is_authority_end. cbn [is_eof orb]. unfold hostname_decide. rewrite !list_eqb_nil_is_nil.
    destruct (is_special u && is_nil buf); [reflexivity|]. cbn [andb].
    destruct (is_nil buf && (includes_credentials u || opt_is_some (su_port u))); [reflexivity|].
    destruct (host_parsing hp (negb (is_special u)) buf); reflexivity.
  - rewrite (step_at hp input StHostname _ _ _ _ _ _ _ _ Hin). cbn zeta. cbn [hd_error hscan].
    unfold st_host. cbn [has_ov opt_is_some andb m_url m_buf m_br at_pos cis]. rewrite Hnf. cbn [andb].
    destruct ((c =? 58) && negb br) eqn:Ecol.
    + cbn [hostname_decide]. destruct (list_eqb buf []); reflexivity.
    + unfold is_authority_end. cbn [is_eof cis orb].
      replace ((c =? 47) || (c =? 63) || (c =? 35) || (is_special u && (c =? 92))) with (h_end (is_special u) c) by reflexivity.
      destruct (h_end (is_special u) c) eqn:Eend.
      * unfold hostname_decide. rewrite !list_eqb_nil_is_nil.
        destruct (is_special u && is_nil buf); [reflexivity|]. cbn [andb].
        destruct (is_nil buf && (includes_credentials u || opt_is_some (su_port u))); [reflexivity|].
        destruct (host_parsing hp (negb (is_special u)) buf); reflexivity.
      * (* an ordinary code point: into the buffer, brackets tracked *)
        assert ((let m := at_pos StHostname pre buf a br pw u in
                 let m1 := if c =? 91 then set_br m true else m in
                 let m2 := if c =? 93 then set_br m1 false else m1 in push_buf m2 c)
                = mkM StHostname (Z.of_nat (length pre)) (buf ++ [c]) a (br_next br c) pw u) as Em.
        { unfold br_next. destruct (c =? 91) eqn:E91; destruct (c =? 93) eqn:E93; try reflexivity.
          apply N.eqb_eq in E91. subst c. discriminate E93. }
        cbn zeta in Em. rewrite Em. cbn [m_ptr].
        rewrite (len_split hp input pre (c :: r) Hin). cbn [length].
        replace (Z.of_nat (length pre) + Z.of_nat (S (length r)) <=? Z.of_nat (length pre))%Z with false by lia.
        rewrite (inc_at hp StHostname pre c).
        apply (IH (pre ++ [c]) fuel (buf ++ [c]) a (br_next br c) pw u (snoc_split input pre c r Hin)); [|exact Hnf].
        cbn [length] in Hfuel. lia.
Qed.

End HostnameOutcome.

(* the hostname attribute setter in closed form, for a URL whose scheme is not "file" *)
Theorem spec_hostname_closed shp su v : list_eqb (su_scheme su) str_file = false ->
  spec_set shp SetHostname su v
  = SetTo (if has_opaque_path su then su
           else hostname_decide shp su (hscan (is_special su) false [] (notnl v))).
Proof.
  intros Hnf. cbn [spec_set]. destruct (has_opaque_path su); [reflexivity|].
  unfold spec_basic_url_parse_override. fold (notnl v).
  change (mkM StHostname 0%Z [] false false false su) with (at_pos StHostname [] [] false false false su).
  apply (run_hostname_ov shp (notnl v) (notnl v) [] _ [] false false false su eq_refl (fuel_enough _) Hnf).
Qed.

(* a host parser that gives the empty host only for the empty string *)
Definition empty_only (shp : bool -> list N -> option spec_host) : Prop :=
  forall o s, host_parsing shp o s = Some SEmpty -> s = [].

(* the Standard's hostname setter keeps the invariants *)
Theorem spec_hostname_sane shp su v su' : empty_only shp -> list_eqb (su_scheme su) str_file = false ->
  sane su -> spec_set shp SetHostname su v = SetTo su' -> sane su'.
Proof.
  intros He Hnf S H. rewrite (spec_hostname_closed shp su v Hnf) in H. injection H as <-.
  destruct (has_opaque_path su) eqn:Hop; [exact S|].
  destruct (hscan (is_special su) false [] (notnl v)) as [buf [|]]; cbn [hostname_decide]; [exact S|].
  destruct (is_special su && is_nil buf) eqn:D1; [exact S|].
  destruct (is_nil buf && (includes_credentials su || opt_is_some (su_port su))) eqn:D2; [exact S|].
  destruct (host_parsing shp (negb (is_special su)) buf) as [h|] eqn:Eh; [|exact S].
  destruct S as [S1 S2 S3].
  constructor; unfold cannot_have_username_password_port, is_special, includes_credentials, has_opaque_path in *;
    cbn [set_host su_scheme su_host su_port su_path su_username su_password host_is_null orb] in *.
  - rewrite Hnf, orb_false_r. intros Hem.
    assert (h = SEmpty) as -> by (destruct h; try discriminate Hem; reflexivity).
    rewrite (He _ _ Eh) in D2. cbn [is_nil andb] in D2. apply orb_false_iff in D2. destruct D2 as [A B].
    split; [destruct (su_port su); [discriminate B | reflexivity] | exact A].
  - intros Hs. split; [reflexivity|]. intros _. rewrite Hs in D1. cbn [andb] in D1.
    destruct h; try reflexivity. rewrite (He _ _ Eh) in D1. discriminate D1.
  - rewrite Hop. discriminate.
Qed.
