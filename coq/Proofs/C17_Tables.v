(* Proofs/C17_Tables.v - the byte classes and literals of data-url/src/lib.rs (regenerated from the
   source on every run) are the ones of the URL Standard / the Fetch Standard. *)
From RU Require Import Base.Prelude Base.Utf8 Model.AsciiSet Gen.Tables Model.PercentEncoding
  Model.Mime Model.Base64 Model.DataUrl Model.DataUrlTie Spec.MimeSniff Spec.Fetch.

Definition tnl (b : N) : bool := (b =? 9) || (b =? 10) || (b =? 13).

Lemma is_skipped_spec b : is_skipped b = tnl b.
Proof. unfold is_skipped, tnl. cbn [memb T_DU_SKIP]. lia. Qed.

Lemma is_c0_or_space_spec c : is_c0_or_space c = (c <=? 32).
Proof. reflexivity. Qed.

Lemma is_header_trim_spec c : is_header_trim c = (c =? 32) || tnl c.
Proof. unfold is_header_trim, tnl. cbn [memb T_DU_HDR_TRIM]. lia. Qed.

Lemma hdr_enc_sweep :
  all_below 256 (fun b => Bool.eqb (in_ranges b T_DU_HDR_ENC) (should_encode T_CONTROLS b)) = true.
Proof. vm_compute. reflexivity. Qed.

(* the always-encoded class of parse_header is the C0 control percent-encode set *)
Lemma hdr_enc_is_controls b : b < 256 -> in_ranges b T_DU_HDR_ENC = should_encode T_CONTROLS b.
Proof. intros H. apply eqb_prop. exact (all_below_spec 256 _ hdr_enc_sweep b H). Qed.

Lemma hdr_qenc_sweep :
  all_below 256 (fun b => Bool.eqb (in_ranges b T_DU_HDR_ENC || memb b T_DU_HDR_QENC)
                                   (should_encode T_QUERY b && negb (b =? 35))) = true.
Proof. vm_compute. reflexivity. Qed.

(* with in_query set it is the query percent-encode set minus '#' (which cannot occur in the header) *)
Lemma hdr_qenc_is_query b : b < 256 ->
  in_ranges b T_DU_HDR_ENC || memb b T_DU_HDR_QENC = should_encode T_QUERY b && negb (b =? 35).
Proof. intros H. apply eqb_prop. exact (all_below_spec 256 _ hdr_qenc_sweep b H). Qed.

Lemma frag_enc_sweep :
  all_below 256 (fun b => Bool.eqb (in_ranges b T_DU_FRAG_ENC) (should_encode T_FRAGMENT b)) = true.
Proof. vm_compute. reflexivity. Qed.

(* the class of to_percent_encoded is the fragment percent-encode set *)
Lemma frag_enc_is_fragment b : b < 256 -> in_ranges b T_DU_FRAG_ENC = should_encode T_FRAGMENT b.
Proof. intros H. apply eqb_prop. exact (all_below_spec 256 _ frag_enc_sweep b H). Qed.

Lemma percent_encode_sweep :
  all_below 256 (fun b => list_eqb (DataUrl.percent_encode b) (enc_byte_spec b)) = true.
Proof. vm_compute. reflexivity. Qed.

(* percent_encode writes '%' and two upper-case hex digits: the same three bytes as percent_encoding's table *)
Lemma percent_encode_spec b : b < 256 -> DataUrl.percent_encode b = enc_byte_spec b.
Proof. intros H. apply list_eqb_spec. exact (all_below_spec 256 _ percent_encode_sweep b H). Qed.

Lemma du_literals :
  T_DU_TRIM_MAX = 32 /\ T_DU_SCHEME = s_data /\ T_DU_COLON = 58 /\ T_DU_COMMA = 44 /\ T_DU_HASH = 35
  /\ T_DU_HDR_PREFIX_IF = 59 /\ T_DU_HDR_PREFIX = text_plain /\ T_DU_HDR_QMARK = 63
  /\ record_of_mime fallback_mime = text_plain_us_ascii
  /\ T_DU_B64_EXACT ++ T_DU_B64_NOCASE = base64_reversed /\ T_DU_B64_SKIP = 32 /\ T_DU_B64_SEP = 59
  /\ length T_DU_HEX_UPPER = 16%nat.
Proof. repeat split. Qed.
