(* Proofs/C08_ContainFile.v - containment for FILE bases: a reference without scheme and without two leading
   slashes never REPLACES the host of a file base - the result's host is the base's, or it is dropped (the
   drive-letter branches: F-C01-1 / F-C08-1).  Purely structural: every arm of parse_file with a base either
   copies hosti base or stores HI_None; no well-formedness premise on the base. *)
From RU Require Import Base.Prelude Base.Utf8 Base.Utf8Facts Model.AsciiSet Gen.Tables Model.PercentEncoding
  Model.HostT Model.UrlRecord Model.Parser Model.Setters Model.WF Model.KnownC08
  Proofs.ListN Proofs.C08_Input Proofs.C08_Simple Proofs.C08_Contain.

Section ContainFile.
Variables (dbg : bool) (hp hpo : list N -> result host) (hd : host -> list N).
Notation join b input := (parse_url dbg hp hpo hd None (Some b) input).

(* peel the monadic binds of a successful computation *)
Ltac peel H :=
  repeat (match type of H with
          | pbind ?X _ = POk _ => let E := fresh "E" in destruct X as [?| |] eqn:E; cbn [pbind] in H; [|discriminate H|discriminate H]
          | (let '(_, _) := ?X in _) = POk _ => destruct X
          end).

(* the one-slash arm of parse_file: the host is the base's or none *)
Ltac arm :=
  let H := fresh "H" in
  destruct (negb (starts_with_wdl_segment _));
    [destruct (base_first_segment _) as [seg|];
       [destruct (is_normalized_wdl seg); [|destruct (host_str _) as [[hs|]|]]|]|];
    cbv beta iota zeta; intros H; peel H; inversion H; cbn [hosti file_url]; auto.

Lemma wqf_hosti ovr ctx st se ue hs he hi po ps s rem u :
  with_query_and_fragment ovr ctx st se ue hs he hi po ps s rem = POk u -> hosti u = hi.
Proof. unfold with_query_and_fragment. intros H. peel H. inversion H. reflexivity. Qed.

Theorem contain_file b input u' :
  cannot_be_a_base b = Some false -> st_is_file (b_st b) = true -> contain_pre b input = true ->
  join b input = POk u' -> hosti u' = hosti b \/ hosti u' = HI_None.
Proof.
  intros Hc Hf Hcp. destruct (contain_pre_inv b input Hcp) as [Hns H2s]. rewrite ref_text_eq in Hns, H2s.
  unfold parse_url. set (l := input_new_trim_c0 input) in *.
  rewrite parse_scheme_none by exact Hns.
  destruct (inp_starts_with_char 35 l).
  { unfold fragment_only. intros H. peel H. inversion H. left. reflexivity. }
  rewrite Hc. fold (b_st b). rewrite Hf.
  unfold parse_file, inp_split_first.
  destruct (inp_next l) as [[c r]|] eqn:En.
  2:{ intros H. inversion H. left. reflexivity. }
  destruct (is_slash_or_bslash c) eqn:Esl.
  - destruct (inp_next r) as [[d r2]|] eqn:En2.
    + destruct (is_slash_or_bslash d) eqn:Esl2; [|arm].
      exfalso. destruct (inp_next_ntnl l c r En) as [E1 _]. destruct (inp_next_ntnl r d r2 En2) as [E2 _].
      rewrite E1, E2 in H2s. unfold two_leading_slashes, base_special in H2s. fold (b_st b) in H2s.
      destruct (b_st b); try discriminate Hf. unfold is_ref_slash, is_slash_or_bslash in *. cbn [st_is_special] in H2s. lia.
    + arm.
  - destruct (c =? 63).
    + intros H. peel H. inversion H. left. reflexivity.
    + destruct (c =? 35).
      * unfold fragment_only. intros H. peel H. inversion H. left. reflexivity.
      * destruct (negb (starts_with_wdl_segment l)).
        -- intros H. peel H. left. exact (wqf_hosti _ _ _ _ _ _ _ _ _ _ _ _ _ H).
        -- intros H. peel H. inversion H. right. reflexivity.
Qed.

End ContainFile.

(* ---------- non-vacuity ---------- *)
From Coq Require Import String.
From RU Require Import Proofs.C02_Reach Proofs.C08_Relative.
Open Scope string_scope.

(* the premises hold and the join succeeds; kept = the host is the base's, otherwise it was dropped *)
Definition file_contain_case (bs r : string) (kept : bool) : bool :=
  match toy_parse bs with
  | POk b =>
      wf_b b && st_is_file (b_st b) && contain_pre b (B r)
      && match cannot_be_a_base b with Some false => true | _ => false end
      && match toy_join b (B r) with
         | POk u => if kept then hi_eqb (hosti u) (hosti b) && negb (hi_eqb (hosti u) HI_None)
                    else hi_eqb (hosti u) HI_None && negb (hi_eqb (hosti b) HI_None)
         | _ => false
         end
  | _ => false
  end.

Lemma contain_file_inhabited :
  file_contain_case "file://host/dir/f" "x/y?q" true = true
  /\ file_contain_case "file://host/dir/f" "/x" true = true
  /\ file_contain_case "file://host/dir/f" "../.." true = true
  /\ file_contain_case "file://host/dir/f" "/c:/x" false = true
  /\ file_contain_case "file://host/dir/f" "C|" false = true.
Proof. vm_compute. repeat split. Qed.
