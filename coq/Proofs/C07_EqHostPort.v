(* Proofs/C07_EqHostPort.v - the host setter on values WITH a port part (the scan of the host state stops at a ':'
   outside brackets), and with Proofs/C07_EqHostNoPort.v the host setter on EVERY value:
   the Standard (Proofs/C07_SpecHostPort.v spec_host_colon): empty buffer or host-parser failure = nothing changes;
   otherwise the host is set and the port state runs on the text after the ':' with a state override - leading
   digits = the port (null for the default port), no digit or a number above 65535 = failure with the host already
   changed and the port kept.
   url::quirks::set_host: Parser::parse_host leaves the ':' at the head of the remaining input; the text behind it
   goes to parse_port in the setter context (Proofs/C07_EqPort.v parse_port_setter / port_arg); an error or an empty
   rest = "no new port information" (set_host_internal .. None), a success = set_host_internal .. (Some p), which
   is the host replaced and then the port replaced (Proofs/C06_Quirks.v set_host_internal_port_eval).
   Outside classes 2, 3, 4 of Known_C07 (class 2: a non-special URL and a value led by ':', F-C07-6) the two agree on
   every corr-related pair (host_colon_step); nine setters and their histories: nine_step, nine_histories,
   statement_nine_all. *)
From Coq Require Import Bool.
From RU Require Import Base.Prelude Base.Utf8 Base.Utf8Facts Model.AsciiSet Gen.Tables Model.PercentEncoding
  Model.HostT Model.UrlRecord Model.Parser Model.Setters Model.WF Model.KnownC01 Model.KnownC07 Spec.Whatwg Spec.WhatwgFuel
  Proofs.ListN Proofs.C03_WF Proofs.C06_List Proofs.C06_WFI Proofs.C06_Tail Proofs.C06_Suffix Proofs.C06_Front
  Proofs.C06_Steps Proofs.C06_FragQuery Proofs.C06_Port Proofs.C06_Host Proofs.C06_Quirks Proofs.C08_Input
  Proofs.C02_Enc Proofs.C01_Tables Proofs.C01_EqRun Proofs.C01_EqEnc Proofs.C01_EqApi Proofs.C01_EqAuthSpec
  Proofs.C07_Defs Proofs.C07_Histories Proofs.C07_Setters Proofs.C07_Corr Proofs.C07_SpecRun Proofs.C07_EqCred Proofs.C07_EqPort
  Proofs.C07_SpecProto Proofs.C07_EqProto Proofs.C07_EqSix Proofs.C07_SpecHost Proofs.C07_EqHostLayout Proofs.C07_EqHostname
  Proofs.C07_EqSeven Proofs.C07_SpecHost2 Proofs.C07_EqHostNoPort Proofs.C07_SpecHostPort.

(* ================= the scan: what is left behind the ':' ================= *)
Lemma host_scan_rest_colon sp l : forall br acc,
  snd (hscan sp br (rev acc) (ntnl l)) = true ->
  exists rem', inp_split_prefix_char 58 (snd (host_scan sp br acc l)) = Some rem'
               /\ ntnl rem' = hrest sp br (ntnl l).
Proof.
  induction l as [|c r IH]; intros br acc H; [cbn in H; discriminate H|]. cbn [host_scan]. destruct (is_tnl c) eqn:Et.
  - rewrite ntnl_cons_tnl in H |- * by exact Et. apply IH. exact H.
  - rewrite ntnl_cons in H |- * by exact Et. cbn [hscan hrest] in H |- *.
    destruct ((c =? 58) && negb br) eqn:Ecol; cbn [orb].
    + cbn [snd]. exists r. split; [|reflexivity].
      unfold inp_split_prefix_char, inp_next. cbn [drop_while]. rewrite Et.
      apply andb_true_iff in Ecol. rewrite (proj1 Ecol). reflexivity.
    + assert (((c =? 92) && sp) || (c =? 47) || (c =? 63) || (c =? 35) = h_end sp c) as E
        by (unfold h_end; destruct (c =? 92), sp, (c =? 47), (c =? 63), (c =? 35); reflexivity).
      rewrite E. destruct (h_end sp c) eqn:Eh; [discriminate H|].
      unfold br_next in H |- *. destruct (c =? 91); [apply IH; exact H|].
      destruct (c =? 93); apply IH; exact H.
Qed.

(* an empty buffer at the ':' = the value is led by ':' *)
Lemma hscan_colon_empty sp t : snd (hscan sp false [] t) = true -> fst (hscan sp false [] t) = [] ->
  starts_with_byte 58 t = true.
Proof.
  destruct t as [|c r]; [cbn; discriminate|]. cbn [hscan starts_with_byte negb]. rewrite andb_true_r.
  destruct (c =? 58); [reflexivity|]. destruct (h_end sp c); [cbn; discriminate|]. intros _ H2. exfalso.
  assert (forall t br buf x, fst (hscan sp br (x :: buf) t) <> []) as NE.
  { induction t as [|d t' IHt]; intros br0 buf x; cbn [hscan fst]; [discriminate|].
    destruct ((d =? 58) && negb br0); [discriminate|]. destruct (h_end sp d); [discriminate|].
    cbn [app]. apply IHt. }
  cbn [app] in H2. exact (NE r _ [] c H2).
Qed.

(* ================= the Standard's port state on the text behind the ':', as port_arg ================= *)
Lemma port_outcome_arg su x : notnl x <> [] ->
  outcome_url (port_outcome su (take_digits (notnl x))) su
  = match port_arg (default_port (su_scheme su)) x with Some p => Whatwg.set_port su p | None => su end.
Proof.
  intros Hne. unfold port_arg, port_outcome.
  destruct (take_digits (notnl x)) as [|d ds] eqn:Eds.
  - cbn [outcome_url]. destruct (notnl x); [contradiction | reflexivity].
  - destruct (65535 <? decimal_value (d :: ds)); cbn [outcome_url]; [reflexivity|].
    unfold port_is_default. rewrite <- default_ports_are_the_standards.
    destruct (default_port (su_scheme su)) as [dp|]; cbn [opt_eqb]; [|reflexivity].
    rewrite N.eqb_sym. reflexivity.
Qed.

Section HostColon.
Variable dbg : bool.
Variable hp ho : list N -> result host.
Variable hd : host -> list N.
Variable shp : bool -> list N -> option spec_host.
Variable shs : spec_host -> list N.

Notation corr := (corr dbg shs).

(* the port of a related pair with a host is replaced on both sides (with_port itself, not set_port_internal) *)
Lemma corr_with_port u su p : corr u su -> has_host u = true ->
  match p with Some x => x <= 65535 | None => True end ->
  corr (with_port u p) (Whatwg.set_port su p).
Proof.
  intros C Hh Hp. pose proof (co_wf _ _ _ _ C) as W. pose proof (co_ht _ _ _ _ C) as HT.
  destruct (with_port_ok dbg u p W HT Hh Hp) as (W' & HT' & (I1 & I2 & I3 & I4) & P' & SB).
  apply (corr_cred dbg shs u su (with_port u p) _ C Hh W' HT');
    cbn [Whatwg.set_port su_scheme su_username su_password su_host su_port su_path su_query su_fragment];
    try assumption; try reflexivity.
  - exact (with_port_tight u p W HT Hh (corr_tight dbg shs u su C Hh)).
  - rewrite I2. exact (co_user _ _ _ _ C).
  - rewrite I3. exact (co_pass _ _ _ _ C).
  - exact (co_uclean _ _ _ _ C).
Qed.

(* host and port of a related pair are replaced on both sides: a host that is not the empty host *)
Lemma corr_set_host_port u su h sh np : corr u su -> has_opaque_path su = false ->
  hd h = shs sh -> host_disp_ok hd h -> (h = HDomain [] <-> sh = SEmpty) -> h <> HDomain [] ->
  (has_host u = false -> starts_with s_ss (serialize_path su) = false) ->
  match np with Some x => x <= 65535 | None => True end ->
  exists u', set_host_internal dbg hd u h (Some np) = Some u'
             /\ corr u' (Whatwg.set_port (Whatwg.set_host su (Some sh)) np).
Proof.
  intros C Hop Etxt Hdo Hem Hne Hk3 Hnp. pose proof (co_wf _ _ _ _ C) as W.
  destruct (corr_set_host dbg hd shp shs u su h sh C Hop Etxt Hdo Hem) as (u1 & E1 & C1); [|exact Hk3|].
  { intros X. exfalso. exact (Hne X). }
  assert (byte_eqb (ser u) (scheme_end u + 1) 47 = true) as Hsl.
  { pose proof (co_opaque _ _ _ _ C) as Eo. rewrite Hop in Eo. unfold is_opaque_b in Eo.
    apply negb_false_iff in Eo. exact Eo. }
  assert (has_authority_b u = false -> path_start u = scheme_end u + 1) as Hx2.
  { intros Ha. pose proof (wf_noauth_facts u W Ha) as F. destruct (nf_ps F) as [E|(E & _)]; [exact E|exfalso].
    pose proof (co_marker _ _ _ _ C) as Em. rewrite Ha in Em. cbn [negb andb] in Em.
    replace (path_start u =? scheme_end u + 3) with true in Em by lia.
    assert (has_host u = false) as Hh by (unfold has_host; rewrite (nf_host F); reflexivity).
    specialize (Hk3 Hh). unfold spec_marker in Em. unfold serialize_path in Hk3.
    destruct (su_host su); [discriminate Em|]. destruct (su_path su) as [p|[|p0 [|p1 pr]]]; try discriminate Em.
    destruct p0; [|discriminate Em]. discriminate Hk3. }
  rewrite (set_host_internal_eval dbg hd u h W Hx2) in E1. injection E1 as E1.
  rewrite (set_host_internal_port_eval dbg hd u h np W (fun Ha => conj (Hx2 Ha) Hsl)). rewrite E1.
  exists (with_port u1 np). split; [reflexivity|].
  apply corr_with_port; [exact C1 | | exact Hnp].
  rewrite (co_hh _ _ _ _ C1). cbn [Whatwg.set_host su_host host_is_null host_is_empty orb].
  destruct sh; try reflexivity. exfalso. apply Hne. apply Hem. reflexivity.
Qed.

Theorem host_colon_step u su v : host_fns_ok hp ho hd shp shs -> corr u su ->
  known_c07 u QHost v = 0 ->
  host_colon (no_tnl v) (st_is_special (scheme_type_of (su_scheme su))) = true ->
  exists u' su', option_map fst (q_set_host dbg hp ho hd u v) = Some u' /\ spec_step shp QHost su v = Some su'
    /\ corr u' su'.
Proof.
  intros HF C Hk E2. pose proof (co_wf _ _ _ _ C) as W.
  pose proof (cannot_be_a_base_eval u W) as Ecb.
  change (negb (byte_eqb (ser u) (scheme_end u + 1) 47)) with (is_opaque_b u) in Ecb.
  rewrite (co_opaque _ _ _ _ C) in Ecb.
  unfold spec_step. cbn [setter_of_q].
  destruct (has_opaque_path su) eqn:Hop.
  { unfold q_set_host. rewrite Ecb. cbn [bindo option_map fst spec_set]. rewrite Hop.
    exists u, su. split; [reflexivity|]. split; [reflexivity | exact C]. }
  unfold known_c07, u_cbb, u_scheme_or_empty, u_path_or_empty in Hk.
  rewrite Ecb, (co_scheme _ _ _ _ C), (co_path _ _ _ _ C), orb_false_r in Hk.
  destruct (list_eqb (su_scheme su) s_file) eqn:Ef; [discriminate Hk|].
  destruct (negb (has_host u) && starts_with s_ss (serialize_path su)) eqn:E3; [discriminate Hk|].
  pose proof (special_schemes_are_the_standards (su_scheme su)) as Esp. fold (is_special su) in Esp.
  rewrite Esp in Hk, E2.
  set (sp := is_special su) in *.
  destruct (negb sp && starts_with_byte 58 (no_tnl v)) eqn:Ec2; [discriminate Hk|]. clear Hk.
  change s_file with str_file in Ef.
  assert (has_host u = false -> starts_with s_ss (serialize_path su) = false) as Hk3.
  { intros Hh. rewrite Hh in E3. exact E3. }
  pose proof (host_scan_fst sp v false []) as Hfst. cbn [rev] in Hfst.
  pose proof (hscan_colon sp (ntnl v) false []) as Hcol.
  unfold host_colon in E2. change (no_tnl v) with (ntnl v) in E2, Ec2. rewrite E2 in Hcol.
  destruct (host_scan_rest_colon sp v false [] Hcol) as (rem' & Hrest & Hrem').
  assert (snd (hscan (is_special su) false [] (notnl v)) = true) as Hcol' by exact Hcol.
  rewrite (spec_host_colon shp su v Ef Hcol'), Hop. fold sp. change (notnl v) with (ntnl v).
  destruct (hscan sp false [] (ntnl v)) as [buf flag] eqn:Ehs. cbn [fst snd] in Hfst, Hcol |- *. subst flag.
  (* the model: up to the host parser *)
  assert (st_is_file (scheme_type_of (su_scheme su)) = false) as Enf by (rewrite file_test_same; exact Ef).
  assert (scheme_type_eqb (scheme_type_of (su_scheme su)) STFile = false
          /\ scheme_type_eqb (scheme_type_of (su_scheme su)) STSpecialNotFile = sp) as [Enf' Esnf].
  { rewrite <- Esp. destruct (scheme_type_of (su_scheme su)); [discriminate Enf | split; reflexivity | split; reflexivity]. }
  unfold q_set_host. rewrite Ecb. cbn [bindo]. rewrite (co_scheme _ _ _ _ C). cbn [bindo].
  rewrite Enf'. cbn [andb]. unfold parse_host, input_new_no_trim. rewrite Enf, Esp, Esnf.
  destruct (host_scan sp false [] v) as [h rem] eqn:Escan. cbn [fst snd] in Hfst, Hrest. subst h.
  replace (if negb sp then host <~ of_result (ho buf);; POk (host, rem) else host <~ of_result (hp buf);; POk (host, rem))
    with (host <~ of_result (if negb sp then ho buf else hp buf);; POk (host, rem)) by (destruct sp; reflexivity).
  assert (match (if negb sp then ho buf else hp buf), host_parsing shp (negb sp) buf with
          | Ok h, Some sh => hd h = shs sh /\ host_disp_ok hd h
                             /\ (h = HDomain [] <-> sh = SEmpty) /\ (h = HDomain [] <-> buf = [])
          | Err _, None => True
          | _, _ => False
          end) as K1.
  { destruct HF as [H0 H1]. destruct sp; [apply H0 | apply H1]. }
  unfold host_port_decide. fold sp.
  destruct buf as [|b0 br].
  - (* nothing before the ':' *)
    cbn [C01_EqAuthSpec.is_nil]. destruct sp; cbn [negb andb] in *.
    + cbn [pres_ok bindo option_map fst]. exists u, su. split; [reflexivity|]. split; [reflexivity | exact C].
    + exfalso. pose proof (hscan_colon_empty false (ntnl v)) as K. rewrite Ehs in K. cbn [fst snd] in K.
      rewrite (K eq_refl eq_refl) in Ec2. discriminate Ec2.
  - cbn [C01_EqAuthSpec.is_nil]. rewrite andb_false_r.
    destruct (if negb sp then ho (b0 :: br) else hp (b0 :: br)) as [hh|e] eqn:Eho;
      destruct (host_parsing shp (negb sp) (b0 :: br)) as [sh|] eqn:Ehp; try contradiction.
    2:{ cbn [of_result pbind pres_ok bindo option_map fst]. exists u, su. split; [reflexivity|]. split; [reflexivity | exact C]. }
    destruct K1 as (Kt & Kd & Ke & Ks).
    assert (hh <> HDomain []) as Hne by (intros X; apply Ks in X; discriminate X).
    cbn [of_result pbind pres_ok bindo]. rewrite Hrest. rewrite (co_user _ _ _ _ C).
    assert ((match hh with HDomain [] => true | _ => false end) = false) as Eeh
      by (destruct hh as [[|d0 dr]| |]; [exfalso; apply Hne; reflexivity | reflexivity ..]).
    set (su1 := Whatwg.set_host su (Some sh)).
    (* "no new port information": the host alone *)
    assert (exists u', (u' <- set_host_internal dbg hd u hh None;; Some (u', SOk)) = Some (u', SOk) /\ corr u' su1) as NoPort.
    { destruct (corr_set_host dbg hd shp shs u su hh sh C Hop Kt Kd Ke) as (u' & E & C'); [|exact Hk3|].
      { intros X. exfalso. exact (Hne X). }
      exists u'. rewrite E. split; [reflexivity | exact C']. }
    rewrite inp_is_empty_ntnl, Hrem'.
    destruct (hrest sp false (ntnl v)) as [|r0 rr] eqn:Er.
    + (* nothing behind the ':' *)
      cbn [bindo take_digits port_outcome outcome_url]. rewrite Eeh. cbn [andb].
      destruct NoPort as (u' & E & C'). rewrite E. cbn [option_map fst].
      exists u', su1. split; [reflexivity|]. split; [reflexivity | exact C'].
    + assert (notnl rem' <> []) as Hnn by (change (notnl rem') with (ntnl rem'); rewrite Hrem'; discriminate).
      pose proof (port_outcome_arg su1 rem' Hnn) as PO.
      change (notnl rem') with (ntnl rem') in PO. rewrite Hrem' in PO.
      change (su_scheme su1) with (su_scheme su) in PO. cbv zeta. fold su1. rewrite PO.
      pose proof (parse_port_setter (default_port (su_scheme su)) rem') as PS.
      destruct (parse_port CSetter (default_port (su_scheme su)) rem') as [[p prem]|e|]; [| |contradiction].
      * destruct PS as [Ka Kp]. rewrite Ka. cbn [bindo]. rewrite Eeh. cbn [andb].
        destruct (corr_set_host_port u su hh sh p C Hop Kt Kd Ke Hne Hk3 Kp) as (u' & E & C').
        rewrite E. cbn [bindo option_map fst]. exists u'. eexists. split; [reflexivity|]. split; [reflexivity | exact C'].
      * rewrite PS. cbn [bindo]. rewrite Eeh. cbn [andb].
        destruct NoPort as (u' & E & C'). rewrite E. cbn [option_map fst].
        exists u', su1. split; [reflexivity|]. split; [reflexivity | exact C'].
Qed.

End HostColon.
