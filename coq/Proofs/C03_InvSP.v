(* Proofs/C03_InvSP.v - "a special scheme implies that the byte at path_start is '/'", part A (the parser).
     path_sl u : the byte of the serialization at path_start is '/';      SP u : special scheme -> path_sl u.
   (PathSegmentsMut::new asserts it in debug builds: C04_SetPath.psm_assert_fails; wf_b does not carry it - "http://h" with
   an empty path is wf_b.)  Every record Parser::parse_url returns satisfies SP, from a base that is well-formed and
   satisfies AS (special => "://") and SP - any input, any override, both builds, the file scheme included; hypothesis
   HostWf (the Display text of a host of a special URL does not end in '/').  The arms are those of C03_ParseFront.v /
   C03_HostKind.v:
     after "//"          : parse_path_start pushes '/' for a special scheme (the text in front does not end in '/');
     relative references : the path of the base is kept, or popped and extended behind its first '/' by the path state;
     file states         : the file fix-up of the path state always leaves a '/' at path_start. *)
From RU Require Import Base.Prelude Base.Utf8 Model.AsciiSet Gen.Tables Model.PercentEncoding
  Model.HostT Model.UrlRecord Model.Parser Model.Setters Model.WF
  Proofs.ListN Proofs.C06_List Proofs.C02_Parts Proofs.C03_WF Proofs.C06_WFI Proofs.C06_Tail Proofs.C06_Steps
  Proofs.C06_Suffix Proofs.C06_Front Proofs.C06_Main Proofs.C06_PathParser Proofs.C06_FragQuery Proofs.C04_Parse Proofs.C04_PathTotal Proofs.C04_ParseTotal
  Proofs.C03_ReachParts Proofs.C03_Reach Proofs.C03_ReachFile
  Proofs.C05_Enc Proofs.C05_Parser Proofs.C05_Frag Proofs.C05_PathClean Proofs.C05_ParseUI Proofs.C05_ParseArms Proofs.C05_ParseAll
  Proofs.C05_BaseOk Proofs.C05_AuthOfs Proofs.C05_AuthParse Proofs.C05_HostText Proofs.C05_PathSp Proofs.C05_PathSpParse
  Proofs.C03_ReachAll Proofs.C03_Reachability Proofs.C03_PortInv Proofs.C03_AuthEnd
  Proofs.C03_ParseFront Proofs.C04_SetPath.
Open Scope N_scope.
Open Scope list_scope.

Definition path_sl (u : url) : Prop := nnth (ser u) (path_start u) = Some 47.
Definition SP (u : url) : Prop := spb u = true -> path_sl u.

Lemma path_sl_nonempty u : wf_b u = true -> path_sl u -> path_start u < path_end u.
Proof. intros W H. apply (slash_in_path u W). apply byte_eqb_true_iff. exact H. Qed.

Lemma forallb_pq_no_qh l : forallb pq l = true -> forallb no_qh l = true.
Proof.
  induction l as [|c r IH]; [reflexivity|]. cbn [forallb]. intros H. apply andb_true_iff in H. destruct H as [H1 H2].
  rewrite (pq_no_qh c H1), (IH H2). reflexivity.
Qed.

(* ---------- with_query_and_fragment behind an authority ---------- *)
Lemma wqf_sl ovr st se ue hs he hi pt ps s rem u :
  with_query_and_fragment ovr CUrlParser st se ue hs he hi pt ps s rem = POk u ->
  se + 3 <= ps -> nnth s (se + 2) = Some 47 -> nnth s ps = Some 47 -> path_sl u.
Proof.
  unfold with_query_and_fragment. intros H L B2 B.
  pb H a Ha. destruct a as [s1 ps1]. pb H b Hb. destruct b as [[s2 qs] fs]. inversion H; subst u. clear H.
  assert (s1 = s /\ ps1 = ps) as [-> ->].
  { replace (ps =? se + 1) with false in Ha by (symmetry; apply N.eqb_neq; lia).
    destruct ((ps =? se + 3) && list_eqb (nfirstn (ps - se) (nskipn se s)) [58; 47; 46]) eqn:Ec.
    - exfalso. apply andb_true_iff in Ec. destruct Ec as [E1 E2]. apply N.eqb_eq in E1. apply list_eqb_spec in E2.
      replace (ps - se) with 3 in E2 by lia. destruct (nfirstn3_bytes _ _ _ _ _ E2) as (_ & _ & X). congruence.
    - inversion Ha. split; reflexivity. }
  destruct (pqf_shape _ _ _ _ _ _ _ _ Hb) as (q & f & -> & _).
  unfold path_sl. cbn [ser path_start]. rewrite nnth_app_lt by exact (nnth_lt _ _ _ B). exact B.
Qed.

(* a record that keeps the serialization of the base up to the end of its path, with the same path_start *)
Lemma keep_sl b u : wf_b b = true -> agree_pre (path_end b) (ser b) (ser u) -> path_start u = path_start b ->
  path_sl b -> path_sl u.
Proof.
  intros W Hpre E1 H. pose proof (path_sl_nonempty b W H) as L. unfold path_sl in *. rewrite E1.
  rewrite (pre_nnth _ _ _ _ Hpre L). exact H.
Qed.

Lemma cut_fragment_sl b : wf_b b = true -> path_sl b -> path_sl (url_with b (b_before_fragment b) (query_start b) None).
Proof.
  intros W H. destruct (bf_path_end b W) as (A & _ & _).
  apply (keep_sl b _ W); [exact A | reflexivity | exact H].
Qed.

Lemma fragment_only_sl b l u : wf_b b = true -> path_sl b -> fragment_only b l = POk u -> path_sl u.
Proof.
  intros W H. unfold fragment_only. cbv zeta. intros Hf. pb Hf fs Hfs. inversion Hf; subst u.
  destruct (bf_path_end b W) as (A & B & _). apply (keep_sl b _ W); [|reflexivity|exact H].
  cbn [ser]. rewrite parse_fragment_text, <- app_assoc.
  eapply agree_pre_trans; [exact A | apply agree_pre_app_le; exact B].
Qed.

Lemma query_ref_sl ovr b st se0 l s qs fs : wf_b b = true -> path_sl b ->
  parse_query_and_fragment ovr CUrlParser st se0 (b_before_query b) l = POk (s, qs, fs) ->
  path_sl (url_with b s qs fs).
Proof.
  intros W H Hq. destruct (bq_shape b W) as (Ebq & P1 & P2).
  destruct (pqf_shape _ _ _ _ _ _ _ _ Hq) as (q & f & -> & _).
  apply (keep_sl b _ W); [|reflexivity|exact H]. cbn [ser url_with]. rewrite Ebq.
  apply agree_pre_nfirstn. exact P2.
Qed.

Section Arms.
Variable dbg : bool.
Variable hp hpo : list N -> result host.
Variable hd : host -> list N.
Variable ovr : option (list N -> list N).
Hypothesis HW : HostWf hp hpo hd.

(* ---------- after "//" ---------- *)
Theorem ads_sl st se ser0 l u : st_is_special st = true -> st_is_file st = false -> nlen ser0 = se + 1 ->
  after_double_slash dbg hp hpo hd ovr CUrlParser st se ser0 l = POk u -> path_sl u.
Proof using HW.
  intros Hsp Hnf L0. unfold after_double_slash. cbv zeta. intros H.
  pb H a Ha. destruct a as [[ser1 ue] rm]. destruct (parse_userinfo_shape _ _ _ _ _ _ Ha) as (x & -> & _).
  pb H hs Hhs. apply to_u32_eq in Hhs. subst hs.
  pb H b Hb. destruct b as [[[[ser2 he] hi] pt] rm2].
  destruct (phap_shape hp hpo hd HW _ _ _ _ _ _ _ _ _ Hnf Hb) as (h & -> & -> & -> & Hp & Hh).
  match type of H with (if ?c then _ else _) = _ => destruct c; [discriminate|] end.
  pb H ps Hps. apply to_u32_eq in Hps. subst ps.
  pb H c Hc. destruct c as [[s3 hh] rm3].
  set (ser1 := (ser0 ++ [47; 47]) ++ x) in *.
  assert (ends_with_byte 47 (ser1 ++ hd h ++ ptext pt) = false) as He.
  { destruct Hh as [(_ & _ & _ & Hns)|(Hne & _ & _ & H47)]; [congruence|].
    destruct pt as [p|]; cbn [ptext].
    - rewrite app_assoc. apply port_text_last.
    - rewrite app_nil_r. rewrite ends_with_byte_app by exact Hne. exact H47. }
  set (S0 := ser1 ++ hd h ++ ptext pt) in *.
  assert (nnth s3 (nlen S0) = Some 47 /\ agree_pre (nlen S0) S0 s3) as [C A].
  { revert Hc. unfold parse_path_start. destruct (inp_split_first rm2) as [mc rm']. rewrite Hsp, He. cbn [negb].
    assert (forall X, parse_path dbg CUrlParser st true (nlen S0) (S0 ++ [47]) X = POk (s3, hh, rm3) ->
              nnth s3 (nlen S0) = Some 47 /\ agree_pre (nlen S0) S0 s3) as Hpush.
    { intros X HX.
      assert (nlen S0 + 1 <= nlen (S0 ++ [47])) as G1 by (rewrite nlen_app; change (nlen [47]) with 1; lia).
      assert (forallb no_qh (nskipn (nlen S0) (S0 ++ [47])) = true) as G3 by (rewrite nskipn_app_exact; reflexivity).
      destruct (parse_path_shape dbg st true (nlen S0) (S0 ++ [47]) X s3 hh rm3 Hnf G1 (nnth_last S0 47) G3 HX) as (A & _ & C & _).
      split; [exact C|]. eapply agree_pre_trans; [apply agree_pre_app_r | eapply agree_pre_le; [exact A | lia]]. }
    destruct mc as [c|]; [destruct (is_slash_or_bslash c)|]; apply Hpush. }
  assert (nlen ser1 = se + 3 + nlen x) as L1 by (subst ser1; rewrite !nlen_app, L0; change (nlen [47; 47]) with 2; lia).
  assert (nlen S0 = nlen ser1 + nlen (hd h) + nlen (ptext pt)) as L2 by (subst S0; rewrite !nlen_app; lia).
  apply (wqf_sl _ _ _ _ _ _ _ _ _ _ _ _ H); [lia | | exact C].
  rewrite (pre_nnth _ _ _ _ A) by lia.
  subst S0 ser1. rewrite <- !app_assoc. rewrite nnth_app_ge by lia. replace (se + 2 - nlen ser0) with 1 by lia. reflexivity.
Qed.

(* a new path behind the front of the base *)
Lemma base_path_sl st b s rem u : wf_b b = true -> AO b -> agree_pre (path_start b) (ser b) s ->
  nnth s (path_start b) = Some 47 ->
  with_query_and_fragment ovr CUrlParser st (scheme_end b) (username_end b) (host_start b) (host_end b)
    (hosti b) (port b) (path_start b) s rem = POk u -> path_sl u.
Proof using.
  intros W A Hpre H47 H. pose proof (wf_ao_auth b W A) as Ha. pose proof (wf_auth_facts b W Ha) as F.
  pose proof (af_ue F); pose proof (af_hs F); pose proof (af_he F); pose proof (af_ps F).
  apply (wqf_sl _ _ _ _ _ _ _ _ _ _ _ _ H); [lia | | exact H47].
  rewrite (pre_nnth _ _ _ _ Hpre) by lia.
  pose proof Ha as Ha'. unfold has_authority_b in Ha'. apply css_bytes in Ha'. exact (proj2 (proj2 Ha')).
Qed.

(* ---------- relative references ---------- *)
Theorem parse_relative_sl st b l u : wf_b b = true -> AO b -> path_sl b -> st_is_special st = true -> st_is_file st = false ->
  sl1 b -> parse_relative dbg hp hpo hd ovr CUrlParser st b l = POk u -> path_sl u.
Proof using HW.
  intros W A Hb Hsp Hnf Hs. pose proof (path_start_le_len b W) as PL.
  assert (nlen (nfirstn (path_start b) (ser b)) = path_start b) as La by (apply nlen_nfirstn; exact PL).
  destruct (wf_scheme_facts b W) as (S1 & S2 & S3).
  unfold parse_relative, inp_split_first. destruct (inp_next l) as [[c r]|] eqn:En.
  2:{ intros H. inversion H; subst u. exact (cut_fragment_sl b W Hb). }
  assert (inp_is_empty l = false) as He by (unfold inp_is_empty; rewrite En; reflexivity).
  destruct (c =? 63).
  { intros H. pb H a Ha. destruct a as [[s qs] fs]. inversion H; subst u. exact (query_ref_sl ovr b st _ l s qs fs W Hb Ha). }
  destruct (c =? 35); [apply fragment_only_sl; assumption|].
  destruct ((c =? 47) || (c =? 92) && st_is_special st).
  - destruct (inp_count_matching (fun d => (d =? 47) || (d =? 92) && st_is_special st) l) as [slashes remaining].
    destruct (2 <=? slashes).
    + cbv zeta. intros H. pb H x Hx.
      assert (nlen (nfirstn (scheme_end b + 1) (ser b)) = scheme_end b + 1) as L1 by (apply nlen_nfirstn; lia).
      assert (forall X, after_double_slash dbg hp hpo hd ovr CUrlParser st (scheme_end b) (nfirstn (scheme_end b + 1) (ser b)) X = POk u ->
                path_sl u) as Hads.
      { intros X HX. exact (ads_sl st _ _ X u Hsp Hnf L1 HX). }
      destruct (negb (st_is_special st)); [destruct (inp_split_prefix_str s_ss l)|]; exact (Hads _ H).
    + cbv zeta. intros H. pb H a Ha. destruct a as [[s hh] rem].
      set (P0 := nfirstn (path_start b) (ser b)) in *.
      assert (path_start b + 1 <= nlen (P0 ++ [47])) as G1 by (rewrite nlen_app, La; change (nlen [47]) with 1; lia).
      assert (nnth (P0 ++ [47]) (path_start b) = Some 47) as G2 by (rewrite <- La; apply nnth_last).
      assert (forallb no_qh (nskipn (path_start b) (P0 ++ [47])) = true) as G3
        by (rewrite <- La; rewrite nskipn_app_exact; reflexivity).
      destruct (parse_path_shape dbg st true (path_start b) (P0 ++ [47]) r s hh rem Hnf G1 G2 G3 Ha) as (A1 & B & C & _).
      apply (base_path_sl st b s rem u W A); [|exact C|exact H].
      eapply agree_pre_trans; [apply agree_pre_nfirstn; exact PL | eapply agree_pre_le; [exact A1 | lia]].
  - cbv zeta. intros H. pb H s1 Hs1.
    destruct (pop_base_shape hp hpo st b l s1 W Hnf Hs He Hs1) as (J1 & J2 & J3 & J4).
    set (s2 := if (nlen s1 =? path_start b) && (st_is_special (scheme_type_of (b_scheme b)) || negb (inp_is_empty l))
               then s1 ++ [47] else s1) in *.
    pb H a Ha. destruct a as [[s3 hh] rem].
    assert (exists X, parse_path dbg CUrlParser st true (path_start b) s2 X = POk (s3, hh, rem)) as [X EX].
    { destruct (N.eq_dec c 47) as [->|Hc]; [exists r; exact Ha|]. exists l.
      destruct c as [|p]; [exact Ha|]. do 6 (destruct p as [p|p|]; try exact Ha). congruence. }
    destruct (parse_path_shape dbg st true (path_start b) s2 X s3 hh rem Hnf J2 J3 J4 EX) as (A1 & B & C & _).
    apply (base_path_sl st b s3 rem u W A); [|exact C|exact H].
    eapply agree_pre_trans; [exact J1 | eapply agree_pre_le; [exact A1 | lia]].
Qed.

(* ---------- the file states ---------- *)
Lemma file_tail_sl st s hs he hi rem s4 qs fs :
  parse_query_and_fragment ovr CUrlParser st 4 s rem = POk (s4, qs, fs) ->
  nnth s he = Some 47 -> path_sl (file_url s4 hs he hi qs fs).
Proof using.
  intros H B. destruct (pqf_shape _ _ _ _ _ _ _ _ H) as (q & f & -> & _).
  unfold path_sl, file_url. cbn [ser path_start]. rewrite nnth_app_lt by exact (nnth_lt _ _ _ B). exact B.
Qed.

Lemma file_fresh_sl st hh l u :
  (' (s2, _, rem) <~ parse_path dbg CUrlParser STFile hh 7 (s_file_css ++ [47]) l ;;
   ' (s3, qs, fs) <~ parse_query_and_fragment ovr CUrlParser st 4 s2 rem ;;
   POk (file_url s3 7 7 HI_None qs fs)) = POk u -> path_sl u.
Proof using.
  intros H. pb H a Ha. destruct a as [[s2 h2] rem]. pb H c Hc. destruct c as [[s3 qs] fs]. inversion H; subst u.
  destruct (parse_path_shape_file dbg hh 7 (s_file_css ++ [47]) l s2 h2 rem ltac:(vm_compute; discriminate) eq_refl Ha)
    as (_ & _ & C & _).
  exact (file_tail_sl st s2 7 7 HI_None rem s3 qs fs Hc C).
Qed.

Theorem parse_file_sl st base_file l u :
  match base_file with Some b => wf_b b = true /\ AO b /\ path_sl b | None => True end ->
  parse_file dbg hp hd ovr CUrlParser st base_file l = POk u -> path_sl u.
Proof using HW.
  intros Hb. unfold parse_file. destruct (inp_split_first l) as [first_char after_first] eqn:Esf.
  destruct (match first_char with Some c => is_slash_or_bslash c | None => false end) eqn:Efs.
  - destruct (inp_split_first after_first) as [next_char after_next].
    destruct (match next_char with Some c => is_slash_or_bslash c | None => false end).
    + (* "//" : file host *)
      intros H. pb H a Ha. destruct a as [[[ser1 flag] hi] remaining]. destruct (pfh_pre hp hd _ _ _ _ _ _ Ha) as (t & ->).
      pb H he Hhe. apply to_u32_eq in Hhe. subst he. cbv zeta in H.
      pb H b Hb2. destruct b as [[ser2 hh] rem2].
      assert (7 <= nlen (s_file_css ++ t)) as L7 by (rewrite nlen_app; change (nlen s_file_css) with 7; lia).
      assert (nnth ser2 (nlen (s_file_css ++ t)) = Some 47 /\ agree_pre (nlen (s_file_css ++ t)) (s_file_css ++ t) ser2) as [C A].
      { destruct flag.
        - destruct (parse_path_start_shape_file dbg _ _ _ _ _ _ Hb2) as (A & _ & C & _). split; assumption.
        - destruct (parse_path_shape_file dbg _ (nlen (s_file_css ++ t)) ((s_file_css ++ t) ++ [47]) _ _ _ _
                      ltac:(rewrite (nlen_app _ [47]); lia) ltac:(rewrite nskipn_app_exact; reflexivity) Hb2) as (A & _ & C & _).
          split; [exact C|]. eapply agree_pre_trans; [apply agree_pre_app_r | exact A]. }
      pose proof (nnth_lt _ _ _ C) as Lc.
      destruct (negb hh); cbv beta iota zeta in H; pb H c Hc; destruct c as [[ser4 qs] fs]; inversion H; subst u.
      * apply (file_tail_sl st _ _ _ _ rem2 ser4 qs fs Hc).
        assert (nlen (nfirstn 7 ser2) = 7) as L by (apply nlen_nfirstn; lia).
        rewrite nnth_app_ge by lia. rewrite L, N.sub_diag.
        pose proof (nnth_nskipn ser2 (nlen (s_file_css ++ t)) 0) as Hn. rewrite N.add_0_r in Hn. rewrite Hn. exact C.
      * exact (file_tail_sl st _ _ _ _ rem2 ser4 qs fs Hc C).
    + (* a single slash *)
      set (T := if negb (starts_with_wdl_segment after_first)
                then match base_file with
                     | Some base =>
                         match base_first_segment base with
                         | Some seg =>
                             if is_normalized_wdl seg then (s_file_css ++ [47] ++ seg, 7, HI_None)
                             else match host_str base with
                                  | Some (Some hs) => (s_file_css ++ hs, nlen (s_file_css ++ hs), hosti base)
                                  | _ => (s_file_css, 7, HI_None)
                                  end
                         | None => (s_file_css, 7, HI_None)
                         end
                     | None => (s_file_css, 7, HI_None)
                     end
                else (s_file_css, 7, HI_None)).
      assert (let '(ser1, he, hi) := T in he <= nlen ser1 /\ forallb no_qh (nskipn he ser1) = true) as HT.
      { assert (7 <= nlen s_file_css /\ forallb no_qh (nskipn 7 s_file_css) = true) as Hplain
          by (split; [vm_compute; discriminate | reflexivity]).
        subst T. destruct (negb (starts_with_wdl_segment after_first)); [|exact Hplain].
        destruct base_file as [base|]; [|exact Hplain].
        destruct (base_first_segment base) as [seg|]; [|exact Hplain].
        destruct (is_normalized_wdl seg) eqn:Ew.
        - destruct (normalized_wdl_form seg Ew) as (a & -> & Ha).
          split; [vm_compute; discriminate|].
          replace 7 with (nlen s_file_css) by reflexivity. rewrite nskipn_app_exact. cbn [app forallb].
          assert (no_qh a = true) as Hna by (unfold is_alpha, is_upper, is_lower, no_qh in *; lia). rewrite Hna. reflexivity.
        - destruct (host_str base) as [[hs|]|] eqn:Ehs; try exact Hplain.
          split; [lia|]. rewrite nskipn_all by lia. reflexivity. }
      destruct T as [[ser1 he] hi]. destruct HT as (Hle & Hq).
      intros H. pb H a Ha. destruct a as [[ser2 hh] remaining]. pb H c Hc. destruct c as [[ser3 qs] fs]. inversion H; subst u.
      destruct (parse_path_shape_file dbg false he ser1 l ser2 hh remaining Hle Hq Ha) as (_ & _ & C & _).
      exact (file_tail_sl st ser2 _ _ _ remaining ser3 qs fs Hc C).
  - destruct base_file as [base|]; [|apply file_fresh_sl].
    destruct Hb as (Wb & Ab & Nb).
    destruct first_char as [c|].
    2:{ intros H. inversion H; subst u. exact (cut_fragment_sl base Wb Nb). }
    destruct (c =? 63).
    { intros H. pb H a Ha. destruct a as [[s qs] fs]. inversion H; subst u. exact (query_ref_sl ovr base st _ l s qs fs Wb Nb Ha). }
    destruct (c =? 35); [intros H; exact (fragment_only_sl base l u Wb Nb H)|].
    destruct (negb (starts_with_wdl_segment l)); [|apply file_fresh_sl].
    intros H. pb H s1 Hs1. pb H a Ha. destruct a as [[s2 hh] rem].
    destruct (bq_shape base Wb) as (Ebq & P1 & P2). pose proof (path_start_le_len base Wb) as PL.
    pose proof (qf_facts_of base Wb) as (_ & _ & _ & Q4 & _).
    assert (nlen (nfirstn (path_start base) (ser base)) = path_start base) as Lp by (apply nlen_nfirstn; exact PL).
    assert (PInv (path_start base) (path_start base) (nfirstn (path_start base) (ser base)) (b_before_query base)) as I0.
    { rewrite Ebq. split; [apply nfirstn_nfirstn; exact P1|].
      replace (path_end base) with (path_start base + (path_end base - path_start base)) by lia.
      rewrite nskipn_nfirstn_comm. exact Q4. }
    pose proof (pinv_shorten_path (path_start base) (path_start base) (nfirstn (path_start base) (ser base))
                  (N.le_refl _) ltac:(lia) Lp STFile _ _ Hs1 I0) as I1.
    pose proof (pinv_len _ _ _ (N.le_refl _) ltac:(lia) Lp s1 I1) as L1. destruct I1 as [J1 J2].
    destruct (parse_path_shape_file dbg true (path_start base) s1 l s2 hh rem L1 J2 Ha) as (A & B & C & _).
    apply (base_path_sl STFile base s2 rem u Wb Ab); [|exact C|exact H].
    eapply agree_pre_trans; [exact J1 | exact A].
Qed.

(* ---------- top level ---------- *)
Theorem parse_with_scheme_sp base sch l u :
  match base with Some b => wf_b b = true /\ AS b /\ SP b | None => True end ->
  parse_with_scheme dbg hp hpo hd ovr base sch l = POk u -> SP u.
Proof using HW.
  intros Hb. unfold parse_with_scheme. intros H. pb H se Hse. apply to_u32_eq in Hse. subst se. cbv zeta in H.
  assert (nlen (sch ++ [58]) = nlen sch + 1) as L0 by (rewrite nlen_app; reflexivity).
  destruct (scheme_type_of sch) eqn:Est.
  - intros _. eapply parse_file_sl; [|exact H].
    destruct base as [b|]; [|exact I]. destruct (list_eqb (b_scheme b) s_file) eqn:Eb; [|exact I].
    destruct Hb as (W & A & K). apply list_eqb_spec in Eb.
    assert (spb b = true) as Esb by (unfold spb; rewrite Eb; reflexivity).
    split; [exact W|]. split; [exact (A Esb) | exact (K Esb)].
  - destruct (inp_count_matching is_slash_or_bslash l) as [slashes remaining].
    assert (forall X, after_double_slash dbg hp hpo hd ovr CUrlParser STSpecialNotFile (nlen sch) (sch ++ [58]) X = POk u -> SP u) as Hads.
    { intros X HX _. exact (ads_sl STSpecialNotFile _ _ X u eq_refl eq_refl L0 HX). }
    destruct base as [b|]; [|exact (Hads _ H)].
    destruct ((slashes <? 2) && list_eqb (b_scheme b) sch) eqn:Ec; [|exact (Hads _ H)].
    apply andb_true_iff in Ec. destruct Ec as [_ Ec]. apply list_eqb_spec in Ec.
    pb H x Hx. destruct Hb as (W & A & K). intros _.
    assert (spb b = true) as Esb by (unfold spb; rewrite Ec, Est; reflexivity).
    apply (parse_relative_sl STSpecialNotFile b l u W (A Esb) (K Esb) eq_refl eq_refl); [|exact H].
    exact (as_bk b W A Esb).
  - destruct (pns_bk dbg hp hpo hd ovr _ _ _ _ u L0 H) as (K1 & K2). intros Hs. exfalso.
    unfold spb, b_scheme in Hs. rewrite K1, K2, nfirstn_app_exact, Est in Hs. discriminate.
Qed.

Theorem parse_url_sp base input u :
  match base with Some b => wf_b b = true /\ AS b /\ SP b | None => True end ->
  parse_url dbg hp hpo hd ovr base input = POk u -> SP u.
Proof using HW.
  intros Hb. unfold parse_url. cbv zeta.
  destruct (parse_scheme CUrlParser (input_new_trim_c0 input)) as [[sch rem]|].
  - apply parse_with_scheme_sp. exact Hb.
  - destruct base as [b|]; [|discriminate]. destruct Hb as (W & A & K).
    destruct (inp_starts_with_char 35 (input_new_trim_c0 input)).
    { intros H Hs. eapply (fragment_only_sl b); [exact W | | exact H]. apply K.
      pose proof H as H'. unfold fragment_only in H'. cbv zeta in H'. pb H' fs Hfs. inversion H'; subst u. clear H'.
      unfold spb, b_scheme in *. cbn [scheme_end ser] in Hs. rewrite parse_fragment_text, <- app_assoc in Hs.
      pose proof (wf_se_lt_ps b W) as L1. destruct (wf_ps_le_path_end b W) as [L2 L3].
      destruct (bf_path_end b W) as (B1 & B2 & _).
      rewrite nfirstn_app_le in Hs by lia. rewrite (pre_firstn _ _ _ (scheme_end b) B1) in Hs by lia. exact Hs. }
    rewrite (cannot_be_a_base_eval b W).
    destruct (byte_eqb (ser b) (scheme_end b + 1) 47) eqn:Eb; cbn [negb]; [|discriminate].
    apply byte_eqb_nnth in Eb.
    destruct (st_is_file (scheme_type_of (b_scheme b))) eqn:Ef.
    + intros H _. eapply (parse_file_sl _ (Some b)); [|exact H].
      assert (spb b = true) as Esb by (unfold spb; destruct (scheme_type_of (b_scheme b)); try discriminate Ef; reflexivity).
      split; [exact W|]. split; [exact (A Esb) | exact (K Esb)].
    + intros H Hs. destruct (parse_relative_bk dbg hp hpo hd ovr _ b _ u W Eb Ef H) as (K1 & K2 & _).
      assert (spb b = true) as Esb by (unfold spb, b_scheme in *; rewrite K1, K2 in Hs; exact Hs).
      eapply (parse_relative_sl _ b); [exact W | exact (A Esb) | exact (K Esb) | exact Esb | exact Ef | exact Eb | exact H].
Qed.

End Arms.

(* from a base with inv03 *)
Theorem parse_url_sp_inv dbg hp hpo hd ovr base input u : HostWf hp hpo hd ->
  match base with Some b => inv03 b /\ SP b | None => True end ->
  parse_url dbg hp hpo hd ovr base input = POk u -> SP u.
Proof.
  intros HW Hb Hp. apply (parse_url_sp dbg hp hpo hd ovr HW base input u); [|exact Hp].
  destruct base as [b|]; [|exact I]. destruct Hb as (([Wb Tb] & Ab & _) & Kb).
  split; [exact Wb|]. split; [exact Ab | exact Kb].
Qed.
