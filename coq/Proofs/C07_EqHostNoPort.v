(* Proofs/C07_EqHostNoPort.v - the host setter on values WITHOUT a port part (the scan of the host state does not
   stop at a ':' outside brackets): there the Standard's host setter is its hostname setter (the run with the state
   override "host state" is the run with "hostname state", Proofs/C07_SpecHost2.v spec_host_nocolon), url::quirks::set_host is
   url::quirks::set_hostname outside Known_C07 (q_set_host_nocolon: no new port is parsed, and the empty host is
   refused on the same records - class 7, F-C07-8, is exactly the case where set_host forgets the password), so
   the hostname equivalence of Proofs/C07_EqHostname.v carries over (host_portless_step).
   NOT covered: host values with a port part (host state continuing into the port state). *)
From RU Require Import Base.Prelude Base.Utf8 Base.Utf8Facts Model.AsciiSet Gen.Tables Model.PercentEncoding
  Model.HostT Model.UrlRecord Model.Parser Model.Setters Model.WF Model.KnownC01 Model.KnownC07 Spec.Whatwg Spec.WhatwgFuel
  Proofs.ListN Proofs.C03_WF Proofs.C06_List Proofs.C06_WFI Proofs.C06_Tail Proofs.C06_Suffix Proofs.C06_Front
  Proofs.C06_Steps Proofs.C06_FragQuery Proofs.C06_Port Proofs.C06_Host Proofs.C08_Input
  Proofs.C02_Enc Proofs.C01_Tables Proofs.C01_EqRun Proofs.C01_EqEnc Proofs.C01_EqApi Proofs.C01_EqAuthSpec
  Proofs.C07_Defs Proofs.C07_Setters Proofs.C07_Corr Proofs.C07_SpecRun Proofs.C07_EqCred Proofs.C07_EqPort
  Proofs.C07_SpecProto Proofs.C07_EqProto Proofs.C07_EqSix Proofs.C07_SpecHost Proofs.C07_EqHostLayout Proofs.C07_EqHostname
  Proofs.C07_EqSeven Proofs.C07_SpecHost2.

(* ================= the model's side ================= *)
Lemma host_scan_rest_nocolon sp l : forall br acc,
  snd (hscan sp br (rev acc) (ntnl l)) = false ->
  inp_split_prefix_char 58 (snd (host_scan sp br acc l)) = None.
Proof.
  induction l as [|c r IH]; intros br acc H; [reflexivity|]. cbn [host_scan]. destruct (is_tnl c) eqn:Et.
  - rewrite ntnl_cons_tnl in H by exact Et. apply IH. exact H.
  - rewrite ntnl_cons in H by exact Et. cbn [hscan] in H.
    destruct ((c =? 58) && negb br) eqn:Ecol; cbn [orb]; [discriminate H|].
    assert (((c =? 92) && sp) || (c =? 47) || (c =? 63) || (c =? 35) = h_end sp c) as E
      by (unfold h_end; destruct (c =? 92), sp, (c =? 47), (c =? 63), (c =? 35); reflexivity).
    rewrite E. destruct (h_end sp c) eqn:Eh.
    + cbn [snd]. unfold inp_split_prefix_char, inp_next. cbn [drop_while]. rewrite Et.
      unfold h_end in Eh. destruct (c =? 58) eqn:E58; [|reflexivity].
      apply N.eqb_eq in E58. subst c. destruct sp; discriminate Eh.
    + unfold br_next in H. destruct (c =? 91); [apply IH; exact H|].
      destruct (c =? 93); apply IH; exact H.
Qed.

Section HostNoColon.
Variable dbg : bool.
Variable hp ho : list N -> result host.
Variable hd : host -> list N.
Variable shp : bool -> list N -> option spec_host.
Variable shs : spec_host -> list N.

Notation corr := (corr dbg shs).

Lemma hscan_empty_part sp t : snd (hscan sp false [] t) = false -> fst (hscan sp false [] t) = [] -> sp = false ->
  empty_host_part t = true.
Proof.
  intros H1 H2 ->. destruct t as [|c r]; [reflexivity|]. cbn [hscan] in *. cbn [empty_host_part].
  destruct ((c =? 58) && negb false); [discriminate H1|].
  unfold h_end in *. cbn [andb] in *. rewrite orb_false_r in *.
  destruct ((c =? 47) || (c =? 63) || (c =? 35)); [reflexivity|].
  exfalso. cbn [app] in H2.
  pose proof (host_scan_fst false (r) (br_next false c) [c]) as K. 
  assert (forall t br buf x, fst (hscan false br (x :: buf) t) <> []) as NE.
  { induction t as [|d t' IHt]; intros br0 buf x; cbn [hscan fst]; [discriminate|].
    destruct ((d =? 58) && negb br0); [discriminate|]. destruct (h_end false d); [discriminate|].
    cbn [app]. apply IHt. }
  exact (NE r _ [] c H2).
Qed.

Theorem q_set_host_nocolon u su v : host_fns_ok hp ho hd shp shs -> corr u su ->
  known_c07 u QHost v = 0 ->
  host_colon (no_tnl v) (st_is_special (scheme_type_of (su_scheme su))) = false ->
  option_map fst (q_set_host dbg hp ho hd u v) = option_map fst (q_set_hostname dbg hp ho hd u v).
Proof.
  intros HF C Hk E2. pose proof (co_wf _ _ _ _ C) as W.
  pose proof (cannot_be_a_base_eval u W) as Ecb.
  change (negb (byte_eqb (ser u) (scheme_end u + 1) 47)) with (is_opaque_b u) in Ecb.
  rewrite (co_opaque _ _ _ _ C) in Ecb.
  destruct (has_opaque_path su) eqn:Hop.
  { unfold q_set_host, q_set_hostname. rewrite Ecb. reflexivity. }
  unfold known_c07, u_cbb, u_scheme_or_empty, u_path_or_empty in Hk.
  rewrite Ecb, (co_scheme _ _ _ _ C), (co_path _ _ _ _ C), orb_false_r in Hk.
  destruct (list_eqb (su_scheme su) s_file) eqn:Ef; [discriminate Hk|].
  destruct (negb (has_host u) && starts_with s_ss (serialize_path su)) eqn:E3; [discriminate Hk|].
  pose proof (special_schemes_are_the_standards (su_scheme su)) as Esp. fold (is_special su) in Esp.
  rewrite Esp in Hk, E2.
  set (sp := is_special su) in *.
  pose proof (host_scan_fst sp v false []) as Hfst. cbn [rev] in Hfst.
  pose proof (hscan_colon sp (ntnl v) false []) as Hcol.
  unfold host_colon in E2. change (no_tnl v) with (ntnl v) in E2, Hk. rewrite E2 in Hcol.
  pose proof (host_scan_rest_nocolon sp v false [] Hcol) as Hrest.
  assert (st_is_file (scheme_type_of (su_scheme su)) = false) as Enf by (rewrite file_test_same; exact Ef).
  assert (scheme_type_eqb (scheme_type_of (su_scheme su)) STFile = false
          /\ scheme_type_eqb (scheme_type_of (su_scheme su)) STSpecialNotFile = sp) as [Enf' Esnf].
  { rewrite <- Esp. destruct (scheme_type_of (su_scheme su)); [discriminate Enf | split; reflexivity | split; reflexivity]. }
  unfold q_set_host, q_set_hostname. rewrite Ecb. cbn [bindo]. rewrite (co_scheme _ _ _ _ C). cbn [bindo].
  rewrite Enf'. cbn [andb]. unfold parse_host, input_new_no_trim. rewrite Enf, Esp, Esnf.
  destruct (host_scan sp false [] v) as [buf rem] eqn:Escan. cbn [fst snd] in Hfst, Hrest.
  replace (if negb sp then host <~ of_result (ho buf);; POk (host, rem) else host <~ of_result (hp buf);; POk (host, rem))
    with (host <~ of_result (if negb sp then ho buf else hp buf);; POk (host, rem)) by (destruct sp; reflexivity).
  destruct (sp && match buf with [] => true | _ => false end) eqn:Esn; [reflexivity|].
  assert (match (if negb sp then ho buf else hp buf), host_parsing shp (negb sp) buf with
          | Ok h, Some sh => hd h = shs sh /\ host_disp_ok hd h
                             /\ (h = HDomain [] <-> sh = SEmpty) /\ (h = HDomain [] <-> buf = [])
          | Err _, None => True
          | _, _ => False
          end) as K1.
  { destruct HF as [H0 H1]. destruct sp; [apply H0 | apply H1]. }
  destruct (if negb sp then ho buf else hp buf) as [hh|e] eqn:Eho; [|reflexivity].
  cbn [of_result pbind pres_ok bindo]. rewrite Hrest. cbn [bindo].
  rewrite (co_user _ _ _ _ C). cbn [bindo].
  destruct (host_parsing shp (negb sp) buf) as [sh|]; [|contradiction]. destruct K1 as (_ & _ & _ & Ks).
  destruct hh as [[|d0 dr]|a4|p6]; try reflexivity.
  (* the empty host *)
  assert (buf = []) as -> by (apply Ks; reflexivity).
  assert (sp = false) as Hsp by (destruct sp; [discriminate Esn | reflexivity]).
  rewrite Hsp in *. cbn [orb negb andb] in *.
  destruct (corr_cred_port_texts dbg shs u su C) as (po & un & pw & Epo & Eun & Epw & Erej).
  rewrite (co_user _ _ _ _ C) in Eun. injection Eun as <-.
  rewrite Epo, Epw. cbn [bindo].
  change (match po with [] => true | _ => false end) with (nilb po).
  change (match pw with [] => true | _ => false end) with (nilb pw).
  change (match su_username su with [] => true | _ => false end) with (nilb (su_username su)).
  rewrite Erej. rewrite (co_port _ _ _ _ C).
  change (match su_port su with Some _ => true | None => false end) with (opt_is_some (su_port su)).
  rewrite orb_false_r.
  assert (negb (nilb (su_username su)) || opt_is_some (su_port su)
          = includes_credentials su || opt_is_some (su_port su)) as ->; [|reflexivity].
  unfold includes_credentials. destruct (su_username su) as [|a ra] eqn:Eu; [|reflexivity].
  cbn [nilb negb list_eqb orb].
  (* class 7 is excluded: no password without username *)
  destruct (starts_with_byte 58 (ntnl v)); [discriminate Hk|].
  rewrite (hscan_empty_part false (ntnl v) Hcol) in Hk by (try reflexivity; rewrite <- Hfst; reflexivity).
  cbn [andb] in Hk.
  destruct (u_password_only u) eqn:Epo7; [discriminate Hk|].
  unfold u_password_only in Epo7.
  assert (username false u = Some (su_username su)) as Eu0
    by (rewrite (username_eval false u W), <- (username_eval dbg u W); exact (co_user _ _ _ _ C)).
  assert (password false u = Some (pw_opt (su_password su))) as Ep0
    by (rewrite (password_piece false u W), <- (password_piece dbg u W); exact (co_pass _ _ _ _ C)).
  rewrite Eu0, Eu, Ep0 in Epo7.
  destruct (su_password su); [reflexivity | discriminate Epo7].
Qed.
End HostNoColon.

(* ================= assembled ================= *)
Section HostStep.
Variable dbg : bool.
Variable hp ho : list N -> result host.
Variable hd : host -> list N.
Variable shp : bool -> list N -> option spec_host.
Variable shs : spec_host -> list N.
Hypothesis HF : host_fns_ok hp ho hd shp shs.

(* the value has no port part: the scan of the host state does not stop at a ':' outside brackets *)
Definition host_value_portless (u : url) (v : list N) : bool :=
  negb (host_colon (no_tnl v) (st_is_special (scheme_type_of (u_scheme_or_empty u)))).

Theorem host_portless_step u su v : corrS dbg shs u su -> usv_list v -> known_c07 u QHost v = 0 ->
  host_value_portless u v = true ->
  exists u' su', model_set dbg hp ho hd QHost u v = Some u' /\ spec_step shp QHost su v = Some su'
    /\ corrS dbg shs u' su'.
Proof.
  intros CS Hv Hk Hpl. pose proof (proj1 CS) as C. pose proof (co_wf _ _ _ _ C) as W.
  unfold host_value_portless, u_scheme_or_empty in Hpl. rewrite (co_scheme _ _ _ _ C) in Hpl.
  apply negb_true_iff in Hpl.
  (* the hostname assignment with the same value is outside Known_C07 too *)
  assert (known_c07 u QHostname v = 0) as Hk'.
  { unfold known_c07 in Hk |- *. cbv zeta in Hk |- *. unfold u_scheme_or_empty in Hk |- *.
    rewrite (co_scheme _ _ _ _ C) in Hk |- *.
    destruct (u_cbb u); [reflexivity|].
    destruct (list_eqb (su_scheme su) s_file); [discriminate Hk|].
    rewrite orb_false_r in Hk |- *.
    destruct (negb (has_host u) && starts_with s_ss (u_path_or_empty u)); [discriminate Hk|].
    rewrite Hpl. reflexivity. }
  destruct (seven_step dbg hp ho hd shp shs HF u su QHostname v CS eq_refl Hv Hk') as (u' & su' & A & B & C').
  exists u', su'. split; [|split; [|exact C']].
  - cbn [model_set] in A |- *. rewrite (q_set_host_nocolon dbg hp ho hd shp shs u su v HF C Hk Hpl). exact A.
  - unfold spec_step in B |- *. cbn [setter_of_q] in B |- *.
    destruct (has_opaque_path su) eqn:Hop.
    { cbn [spec_set] in B |- *. rewrite Hop in B |- *. exact B. }
    rewrite spec_host_nocolon; [exact B | |].
    + pose proof (cannot_be_a_base_eval u W) as Ecb.
      change (negb (byte_eqb (ser u) (scheme_end u + 1) 47)) with (is_opaque_b u) in Ecb.
      rewrite (co_opaque _ _ _ _ C), Hop in Ecb.
      unfold known_c07, u_cbb, u_scheme_or_empty in Hk. rewrite Ecb, (co_scheme _ _ _ _ C) in Hk.
      destruct (list_eqb (su_scheme su) s_file) eqn:Ef; [discriminate Hk | exact Ef].
    + rewrite hscan_colon. unfold host_colon in Hpl.
      rewrite (special_schemes_are_the_standards (su_scheme su)) in Hpl. exact Hpl.
Qed.
End HostStep.

Theorem host_portless_step_api dbg hp ho hd shp shs : host_fns_ok hp ho hd shp shs ->
  forall u su v, corrS dbg shs u su -> usv_list v -> known_c07 u QHost v = 0 -> host_value_portless u v = true ->
  exists u' su', model_set dbg hp ho hd QHost u v = Some u' /\ spec_step shp QHost su v = Some su'
    /\ corrS dbg shs u' su' /\ model_api dbg u' = Some (spec_api_list shs su').
Proof.
  intros HF u su v C Hv Hk Hp.
  destruct (host_portless_step dbg hp ho hd shp shs HF u su v C Hv Hk Hp) as (u' & su' & A & B & C').
  exists u', su'. split; [exact A|]. split; [exact B|]. split; [exact C'|]. exact (corr_api dbg shs u' su' (proj1 C')).
Qed.
