(* Proofs/Idna_WalkApi.v - Uts46::process / to_ascii / to_user_interface described through the functional form of
   the output walks (Proofs/Idna_WalkFun.v) and the invariants of process_inner (Proofs/Idna_Mark.v,
   Proofs/Idna_WalkInv.v). *)
From RU Require Import Base.Prelude Base.Utf8 Base.U32_c13 Gen.Tables Model.Punycode Model.Uts46
  Proofs.Idna_Sim Proofs.Idna_Api Proofs.Idna_Known Proofs.Idna_Hyp Proofs.Idna_Redisc
  Proofs.Idna_C10_Deny Proofs.Idna_C10_Prefix Proofs.Idna_C10_Inner Proofs.Idna_C10_Walk
  Proofs.Idna_Mark Proofs.Idna_MarkWalk Proofs.Idna_MarkFffd Proofs.Idna_WalkFun Proofs.Idna_WalkInv.

Definition tld_of (db : list N) : list N :=
  last (split_on DOT (match last_opt db with
                      | Some l => if l =? DOT then removelast db else db
                      | None => db end)) [].

Lemma run_sink_none ws : run_sink None ws = (concat ws, true).
Proof. reflexivity. Qed.
Lemma split_on_ne l : split_on DOT l <> [].
Proof. unfold split_on. destruct (split1 DOT l). discriminate. Qed.

Section Api.
Variable A : adapter.
Variable cfg : bool.

(* ---- what process_inner returns ---- *)
Definition InnerB (d : list N) (ptu : N) (bd he : bool) (db : list N) (ap : list aal) : Prop :=
  ptu < len d /\ length (split_on DOT db) = length ap /\ he = efffd (split_on DOT db) /\ he = fffd db /\
  (bd = false -> pre_ok (split_on DOT db) ap) /\
  exists P rl, d = P ++ join_dots rl /\ len P = ptu /\ cover ap rl /\ ascii P /\ Forall mixed_ascii ap.

Lemma inner_mark_facts hy deny d ptu bd he db ap : bytes d ->
  process_inner A cfg false hy deny d = IRes ptu bd he db ap ->
  (ptu = len d /\ he = false /\ ascii d) \/ InnerB d ptu bd he db ap.
Proof.
  intros Hb H. pose proof (process_inner_FInv A cfg hy deny d) as HF. rewrite H in HF. cbn [FInv] in HF.
  destruct (process_inner_ascii A cfg d Hb hy deny _ _ _ _ _ H) as [HA1 HA2].
  destruct HF as [[E1 E2]|(Hlt & dbl & Hne & Hsp & Hnd & He1 & He2 & Hlen & Hpo & P & rl & Hd & HP & Hcv)].
  - left. split; [exact E1|]. split; [exact E2|]. subst ptu. unfold len in HA1. rewrite Nat2N.id, firstn_all in HA1. exact HA1.
  - right. subst dbl. unfold InnerB. repeat split; try assumption. exists P, rl. repeat split; try assumption.
    rewrite <- HP in HA1. rewrite Hd in HA1. rewrite firstn_len_app in HA1. exact HA1.
Qed.

Lemma inner_ff_facts hy deny d ptu bd he db ap :
  process_inner A cfg true hy deny d = IRes ptu bd he db ap ->
  IRes ptu bd he db ap = I_EXIT \/ (he = false /\ process_inner A cfg false hy deny d = IRes ptu bd he db ap).
Proof.
  intros H. pose proof (process_inner_wsim A cfg hy deny d) as HW. rewrite H in HW.
  destruct HW as [HW|HW]; [left; exact HW|]. right.
  destruct (process_inner A cfg false hy deny d) as [ptu' bd' he' db' ap'|s]; [|discriminate].
  destruct HW as [E HW]. inversion HW. subst. split; reflexivity.
Qed.

(* both modes: the early return, the immediate Passthrough, or the walks *)
Lemma inner_facts ff hy deny d ptu bd he db ap : bytes d ->
  process_inner A cfg ff hy deny d = IRes ptu bd he db ap ->
  (ff = true /\ he = true /\ ptu = 0 /\ d <> []) \/ (ptu = len d /\ he = false /\ ascii d) \/
  (InnerB d ptu bd he db ap /\ process_inner A cfg false hy deny d = IRes ptu bd he db ap).
Proof.
  intros Hb H. destruct ff.
  - destruct (inner_ff_facts _ _ _ _ _ _ _ _ H) as [HX|[E H']].
    + inversion HX. subst. left. repeat split. intros ->. rewrite process_inner_nil in H. discriminate.
    + right. destruct (inner_mark_facts _ _ _ _ _ _ _ _ Hb H') as [HA|HB]; [left; exact HA|right; split; assumption].
  - right. destruct (inner_mark_facts _ _ _ _ _ _ _ _ Hb H) as [HA|HB]; [left; exact HA|right; split; assumption].
Qed.

(* ---- process, unfolded on the walking branch ---- *)
Lemma process_B ff p d deny hy k1 k2 w ptu bd he db ap :
  process_inner A cfg ff hy deny d = IRes ptu bd he db ap -> ptu <> len d -> ff && he = false -> he = fffd db ->
  process A cfg ff p d deny hy k1 k2 w =
    let labels := split_on DOT db in
    let w1 := walk1 cfg ff p d (tld_of db) bd he labels ap false ptu false false in
    let (s1, through1) := run_sink k1 (fst w1) in
    if negb through1 then (PSinkError, s1, [])
    else match snd w1 with
         | WPanic s => (PPanic s, s1, [])
         | WPass => (PPassthrough, s1, [])
         | WEnd huo =>
             if he then (PValidityError, s1, [])
             else if huo && w then
               let w2 := walk2 cfg d he labels ap false ptu false in
               let (s2, through2) := run_sink k2 (fst w2) in
               if negb through2 then (PSinkError, s1, s2)
               else match snd w2 with WPanic s => (PPanic s, s1, s2) | _ => (PWroteToSink, s1, s2) end
             else (PWroteToSink, s1, [])
         end.
Proof.
  intros H Hne Hfh Hhe. unfold process. rewrite H.
  replace (ptu =? len d) with false by (symmetry; apply N.eqb_neq; exact Hne).
  rewrite Hfh. unfold fffd in Hhe. rewrite <- Hhe. rewrite Bool.eqb_reflx. cbn [negb]. rewrite andb_false_r. reflexivity.
Qed.

(* the first walk at the top level *)
Lemma walk1_top ff p d ptu bd he db ap : InnerB d ptu bd he db ap -> (ff = true -> he = false) ->
  exists P rl, d = P ++ join_dots rl /\ len P = ptu /\ cover ap rl /\ ascii P /\
    Post1 cfg d he false P (stays (uni1 ff p (tld_of db) bd) (split_on DOT db) ap)
      (outs cfg (uni1 ff p (tld_of db) bd) (split_on DOT db) ap) false
      (huo_fin ff p (tld_of db) bd false (split_on DOT db) ap)
      (walk1 cfg ff p d (tld_of db) bd he (split_on DOT db) ap false ptu false false).
Proof.
  intros (Hlt & Hlen & He1 & He2 & Hpo & P & rl & Hd & HP & Hcv & HaP & Hma) Hff.
  exists P, rl. repeat split; try assumption.
  apply (walk1_spec cfg d he ff p (tld_of db) bd (split_on DOT db) ap false ptu false false P rl Hlen).
  - intros Hf. rewrite <- He1. exact (Hff Hf).
  - intros _. split; [apply split_on_ne|]. cbn [tailtext]. repeat split; assumption.
Qed.

Lemma walk2_top d ptu bd he db ap : InnerB d ptu bd he db ap ->
  exists P rl, d = P ++ join_dots rl /\ len P = ptu /\ cover ap rl /\ ascii P /\
    Post2 false P (outs cfg is_ascii_l (split_on DOT db) ap) false (walk2 cfg d he (split_on DOT db) ap false ptu false).
Proof.
  intros (Hlt & Hlen & He1 & He2 & Hpo & P & rl & Hd & HP & Hcv & HaP & Hma).
  exists P, rl. repeat split; try assumption.
  apply (walk2_spec cfg d he (split_on DOT db) ap false ptu false P rl Hlen).
  intros _. cbn [tailtext]. repeat split; assumption.
Qed.

(* ---- Passthrough only for ASCII input ---- *)
Lemma stays_cover_ascii uni : forall ap rl, cover ap rl -> forall labels, length labels = length ap ->
  stays uni labels ap = true -> Forall mixed_ascii ap -> Forall ascii rl.
Proof.
  induction 1 as [|l ap ls _ IH|l ap ls Hl _ IH|k l ap ls Hl _ IH]; intros labels Hlen Hst Hma.
  - constructor.
  - destruct labels as [|lab labels]; [discriminate|]. cbn [stays length] in *. apply andb_true_iff in Hst.
    inversion Hma; subst. constructor; [assumption|]. apply (IH labels); [lia|exact (proj2 Hst)|assumption].
  - destruct labels as [|lab labels]; [discriminate|]. cbn [stays length] in *. apply andb_true_iff in Hst.
    inversion Hma; subst. constructor; [assumption|]. apply (IH labels); [lia|exact (proj2 Hst)|assumption].
  - destruct labels as [|lab labels]; [discriminate|]. cbn [stays stay_label andb] in Hst. discriminate.
Qed.

Theorem passthrough_ascii_input ff p d deny hy k1 k2 w o1 o2 : bytes d ->
  process A cfg ff p d deny hy k1 k2 w = (PPassthrough, o1, o2) -> ascii d.
Proof.
  intros Hb H.
  destruct (process_inner A cfg ff hy deny d) as [ptu bd he db ap|s] eqn:Ei.
  2:{ unfold process in H. rewrite Ei in H. discriminate. }
  destruct (inner_facts ff hy deny d _ _ _ _ _ Hb Ei) as [(-> & -> & -> & Hne)|[(_ & _ & Ha)|[HB _]]]; [|exact Ha|].
  - exfalso. unfold process in H. rewrite Ei in H.
    destruct (0 =? len d) eqn:E; [apply len_nil_iff in E; contradiction|]. cbn [andb] in H. discriminate.
  - assert (Hne : ptu <> len d) by (destruct HB as [Hlt _]; lia).
    destruct (ff && he) eqn:Efh.
    { unfold process in H. rewrite Ei in H. replace (ptu =? len d) with false in H by (symmetry; apply N.eqb_neq; exact Hne).
      rewrite Efh in H. discriminate. }
    assert (Hhe : he = fffd db) by (destruct HB as (_ & _ & _ & Hx & _); exact Hx).
    rewrite (process_B ff p d deny hy k1 k2 w _ _ _ _ _ Ei Hne Efh Hhe) in H. cbv zeta in H.
    assert (Hffhe : ff = true -> he = false) by (intros ->; exact Efh).
    destruct (walk1_top ff p d _ _ _ _ _ HB Hffhe) as (P & rl & Hd & HP & Hcv & HaP & HW).
    destruct HB as (_ & Hlen & _ & _ & _ & _ & _ & _ & _ & _ & _ & Hma).
    destruct (walk1 cfg ff p d (tld_of db) bd he (split_on DOT db) ap false ptu false false) as [ws we].
    cbn [fst snd] in *. destruct (run_sink k1 ws) as [s1 th]. destruct th; cbn [negb] in H; [|discriminate].
    destruct we as [|huo|s]; [| |discriminate].
    2:{ destruct he; [discriminate|]. destruct (huo && w); [|discriminate].
        destruct (run_sink k2 (fst (walk2 cfg d false (split_on DOT db) ap false ptu false))) as [s2 th2].
        destruct th2; cbn [negb] in H; [|discriminate].
        destruct (snd (walk2 cfg d false (split_on DOT db) ap false ptu false)); discriminate. }
    unfold Post1 in HW. destruct (outs cfg (uni1 ff p (tld_of db) bd) (split_on DOT db) ap) as [os|s]; [|discriminate].
    unfold Res1 in HW. cbn [negb andb snd] in HW.
    destruct (stays (uni1 ff p (tld_of db) bd) (split_on DOT db) ap) eqn:Es; [|destruct HW; discriminate].
    rewrite Hd. apply ascii_app. split; [exact HaP|].
    apply join_dots_Forall; [unfold is_ascii, DOT; lia|]. exact (stays_cover_ascii _ _ _ Hcv _ Hlen Es Hma).
Qed.

(* ---- comparing policies ---- *)
Fixpoint agree (u u' : list N -> bool) (labels : list (list N)) (aps : list aal) : Prop :=
  match labels, aps with
  | l :: ls, ip :: ips => (match ip with MixedCaseAscii _ => True | _ => u l = u' l end) /\ agree u u' ls ips
  | _, _ => True
  end.
Lemma agree_all u u' : (forall l, u l = u' l) -> forall labels aps, agree u u' labels aps.
Proof.
  intros H. induction labels as [|l ls IH]; intros aps; [exact I|]. destruct aps as [|ip ips]; [exact I|].
  split; [destruct ip; auto|apply IH].
Qed.
Lemma outs_agree u u' labels : forall aps, agree u u' labels aps -> outs cfg u labels aps = outs cfg u' labels aps.
Proof.
  induction labels as [|l ls IH]; intros aps H; [reflexivity|]. destruct aps as [|ip ips]; [reflexivity|].
  destruct H as [H1 H2]. cbn [outs]. rewrite (IH ips H2). destruct ip as [m|m|]; cbn [out_label]; [reflexivity| |]; rewrite H1; reflexivity.
Qed.
Lemma stays_agree u u' labels : forall aps, agree u u' labels aps -> stays u labels aps = stays u' labels aps.
Proof.
  induction labels as [|l ls IH]; intros aps H; [reflexivity|]. destruct aps as [|ip ips]; [reflexivity|].
  destruct H as [H1 H2]. cbn [stays]. rewrite (IH ips H2). destruct ip as [m|m|]; cbn [stay_label]; [reflexivity| |reflexivity]; rewrite H1; reflexivity.
Qed.
Lemma stays_below u u' : (forall l, u l = false -> u' l = false) -> forall labels aps,
  stays u labels aps = true -> stays u' labels aps = true.
Proof.
  intros H. induction labels as [|l ls IH]; intros aps Hs; [reflexivity|]. destruct aps as [|ip ips]; [reflexivity|].
  cbn [stays] in *. apply andb_true_iff in Hs. destruct Hs as [H1 H2]. rewrite (IH ips H2), andb_true_r.
  destruct ip as [m|m|]; cbn [stay_label] in *; [exact H1| |exact H1].
  apply andb_true_iff in H1. destruct H1 as [H1 H3]. apply negb_true_iff in H1. rewrite (H l H1), H3. reflexivity.
Qed.

Lemma classify_unicode_nonascii l : classify_for_punycode l = PcUnicode -> is_ascii_l l = false.
Proof.
  induction l as [|c r IH]; intros H; [discriminate|]. cbn [classify_for_punycode] in H. cbn [is_ascii_l forallb].
  destruct (is_ascii_cp c); [cbn [andb]; exact (IH H)|reflexivity].
Qed.
Lemma uni1_false_nonascii ff p tld bd l : uni1 ff p tld bd l = false -> is_ascii_l l = false.
Proof.
  unfold uni1, pp1. destruct ff.
  - destruct (is_ascii_l l); [cbn [negb]; discriminate|reflexivity].
  - destruct (classify_for_punycode l) eqn:E; try discriminate. intros _. exact (classify_unicode_nonascii l E).
Qed.
Lemma uni1_never tld bd l : uni1 true never_unicode tld bd l = is_ascii_l l.
Proof. unfold uni1, pp1, never_unicode. destruct (is_ascii_l l); reflexivity. Qed.

(* no Unicode output so far: the policy was never-Unicode on the labels it was asked about *)
Lemma huo_false_agree p tld bd labels : forall aps h, efffd labels = false ->
  huo_fin false p tld bd h labels aps = false ->
  h = false /\ agree (uni1 false p tld bd) is_ascii_l labels aps.
Proof.
  induction labels as [|l ls IH]; intros aps h Hf H; [split; [exact H|exact I]|].
  destruct aps as [|ip ips]; [split; [exact H|exact I]|]. cbn [huo_fin] in H. cbn [efffd existsb] in Hf.
  apply orb_false_iff in Hf. destruct Hf as [Hfl Hfs]. destruct (IH ips _ Hfs H) as [H1 H2]. clear IH.
  assert (Hpp : pp1 false l = negb (is_ascii_l l)) by (unfold pp1; exact (classify_unicode_iff l Hfl)).
  destruct ip as [m|m|]; cbn [huo1] in H1; cbn [agree].
  - split; [exact H1|split; [exact I|exact H2]].
  - unfold uni1. rewrite Hpp in *. destruct (is_ascii_l l); cbn [negb] in *; [split; [exact H1|split; [reflexivity|exact H2]]|].
    apply orb_false_iff in H1. destruct H1 as [-> ->]. split; [reflexivity|split; [reflexivity|exact H2]].
  - unfold uni1. rewrite Hpp in *. destruct (is_ascii_l l); cbn [negb] in *; [split; [exact H1|split; [reflexivity|exact H2]]|].
    apply orb_false_iff in H1. destruct H1 as [-> ->]. split; [reflexivity|split; [reflexivity|exact H2]].
Qed.

Lemma cover_puny_ne ap rl : cover ap rl -> forall m, In (MixedCasePunycode m) ap -> m <> [].
Proof.
  induction 1 as [|l ap ls _ IH|l ap ls Hl _ IH|k l ap ls Hl _ IH]; intros m Hin.
  - destruct Hin.
  - destruct Hin as [Hx|Hin]; [discriminate|exact (IH m Hin)].
  - destruct Hin as [Hx|Hin]; [inversion Hx; subst; exact Hl|exact (IH m Hin)].
  - destruct Hin as [Hx|Hin]; [discriminate|]. apply in_app_or in Hin. destruct Hin as [Hin|Hin]; [|exact (IH m Hin)].
    apply repeat_spec in Hin. discriminate.
Qed.

Lemma huo_true_nonempty p tld bd labels : forall aps h os,
  huo_fin false p tld bd h labels aps = true -> outs cfg is_ascii_l labels aps = inl os ->
  (forall m, In (MixedCasePunycode m) aps -> m <> []) -> h = true \/ join_dots os <> [].
Proof.
  induction labels as [|l ls IH]; intros aps h os H Ho Hne; [left; exact H|].
  destruct aps as [|ip ips]; [left; exact H|]. cbn [huo_fin] in H. cbn [outs] in Ho.
  destruct (out_label cfg is_ascii_l l ip) as [o|s] eqn:Eo; [|discriminate].
  destruct (outs cfg is_ascii_l ls ips) as [os'|s] eqn:Eos; [|discriminate]. inversion Ho. subst os. clear Ho.
  assert (Htail : join_dots os' <> [] -> join_dots (o :: os') <> []).
  { intros Hx Hj. apply join_dots_nil in Hj. destruct Hj as [_ ->]. apply Hx. reflexivity. }
  assert (Hhead : o <> [] -> join_dots (o :: os') <> []).
  { intros Hx Hj. apply join_dots_nil in Hj. destruct Hj as [-> _]. apply Hx. reflexivity. }
  destruct (IH ips _ os' H Eos (fun m Hm => Hne m (or_intror Hm))) as [H1|H1]; [|right; exact (Htail H1)].
  destruct ip as [m|m|]; cbn [huo1] in H1; [left; exact H1| |].
  - destruct (pp1 false l) eqn:Epp; [|left; exact H1]. apply orb_true_iff in H1. destruct H1 as [H1|H1]; [left; exact H1|].
    right. apply Hhead. cbn [out_label] in Eo.
    assert (Hna : is_ascii_l l = false).
    { unfold pp1 in Epp. destruct (classify_for_punycode l) eqn:E; try discriminate. exact (classify_unicode_nonascii l E). }
    rewrite Hna in Eo. inversion Eo. pose proof (Hne m (or_introl eq_refl)) as Hm. destruct m; [congruence|discriminate].
  - destruct (pp1 false l) eqn:Epp; [|left; exact H1]. apply orb_true_iff in H1. destruct H1 as [H1|H1]; [left; exact H1|].
    right. apply Hhead. cbn [out_label] in Eo.
    assert (Hna : is_ascii_l l = false).
    { unfold pp1 in Epp. destruct (classify_for_punycode l) eqn:E; try discriminate. exact (classify_unicode_nonascii l E). }
    rewrite Hna in Eo. unfold enc_label in Eo. destruct (encode_internal cfg l); inversion Eo. discriminate.
Qed.

(* ---- to_ascii through the first walk ---- *)
Lemma to_ascii_B d deny hy ptu bd db ap :
  process_inner A cfg true hy deny d = IRes ptu bd false db ap -> ptu <> len d -> false = fffd db ->
  to_ascii A cfg d deny hy DIgnore =
    let w1 := walk1 cfg true never_unicode d (tld_of db) bd false (split_on DOT db) ap false ptu false false in
    match snd w1 with
    | WPanic s => Panic s
    | WPass => Ok (true, d)
    | WEnd _ => Ok (false, concat (fst w1))
    end.
Proof.
  intros H Hne Hhe. unfold to_ascii. rewrite (process_B true never_unicode d deny hy None None false _ _ _ _ _ H Hne eq_refl Hhe).
  cbv zeta. rewrite run_sink_none. cbn [negb].
  destruct (snd (walk1 cfg true never_unicode d (tld_of db) bd false (split_on DOT db) ap false ptu false false)); try reflexivity.
  rewrite andb_false_r. reflexivity.
Qed.

Lemma ff_of_mark hy deny d ptu bd db ap : Redisc A cfg deny ->
  process_inner A cfg false hy deny d = IRes ptu bd false db ap ->
  process_inner A cfg true hy deny d = IRes ptu bd false db ap.
Proof. intros HR H. pose proof (process_inner_sim A cfg hy deny d HR) as HS. rewrite H in HS. exact HS. Qed.

(* to_ascii of a name on the walking branch of an error-free marking run *)
Lemma to_ascii_walk d deny hy ptu bd db ap : Redisc A cfg deny ->
  process_inner A cfg false hy deny d = IRes ptu bd false db ap -> InnerB d ptu bd false db ap ->
  forall P rl, d = P ++ join_dots rl -> len P = ptu -> cover ap rl ->
  match outs cfg is_ascii_l (split_on DOT db) ap with
  | inl os => if stays is_ascii_l (split_on DOT db) ap
              then P ++ join_dots os = d /\ to_ascii A cfg d deny hy DIgnore = Ok (true, d)
              else to_ascii A cfg d deny hy DIgnore = Ok (false, P ++ join_dots os)
  | inr s => to_ascii A cfg d deny hy DIgnore = Panic s
  end.
Proof.
  intros HR Hm HB P rl Hd HP Hcv. pose proof (ff_of_mark hy deny d _ _ _ _ HR Hm) as Ht.
  destruct HB as (Hlt & Hlen & He1 & He2 & _).
  rewrite (to_ascii_B d deny hy _ _ _ _ Ht ltac:(lia) He2). cbv zeta.
  pose proof (walk1_spec cfg d false true never_unicode (tld_of db) bd (split_on DOT db) ap false ptu false false P rl Hlen
                ltac:(intros _; symmetry; exact He1)
                ltac:(intros _; split; [apply split_on_ne|cbn [tailtext]; repeat split; assumption])) as HW.
  rewrite (outs_agree _ _ _ _ (agree_all _ _ (uni1_never (tld_of db) bd) _ _)) in HW.
  rewrite (stays_agree _ _ _ _ (agree_all _ _ (uni1_never (tld_of db) bd) _ _)) in HW.
  unfold Post1 in HW. destruct (outs cfg is_ascii_l (split_on DOT db) ap) as [os|s]; [|rewrite HW; reflexivity].
  unfold Res1 in HW. cbn [negb andb tailtext] in HW. rewrite andb_false_r in HW.
  destruct (stays is_ascii_l (split_on DOT db) ap).
  - destruct HW as [HW1 HW2]. rewrite HW2. split; [exact HW1|reflexivity].
  - destruct HW as [HW1 HW2]. rewrite HW1. unfold wcat in HW2. rewrite HW2. reflexivity.
Qed.

(* ---- the Passthrough outcome: the input is its own ToASCII result ---- *)
Theorem passthrough_own_result ff p d deny hy k1 k2 w s a : bytes d -> Redisc A cfg deny ->
  process A cfg ff p d deny hy k1 k2 w = (PPassthrough, s, a) -> Known_C11 A cfg d deny hy = false ->
  to_ascii A cfg d deny hy DIgnore = Ok (true, d).
Proof.
  intros Hb HR H HK.
  destruct (process_inner A cfg ff hy deny d) as [ptu bd he db ap|site] eqn:Ei.
  2:{ unfold process in H. rewrite Ei in H. discriminate. }
  destruct (inner_facts ff hy deny d _ _ _ _ _ Hb Ei) as [(-> & -> & -> & Hne)|[(-> & -> & Ha)|[HB Hm]]].
  - exfalso. unfold process in H. rewrite Ei in H.
    destruct (0 =? len d) eqn:E; [apply len_nil_iff in E; contradiction|]. cbn [andb] in H. discriminate.
  - assert (Ht : process_inner A cfg true hy deny d = IRes (len d) bd false db ap).
    { destruct ff; [exact Ei|exact (ff_of_mark hy deny d _ _ _ _ HR Ei)]. }
    unfold to_ascii, process. rewrite Ht, N.eqb_refl, andb_false_r. reflexivity.
  - assert (Hne : ptu <> len d) by (destruct HB as [Hlt _]; lia).
    assert (Hhe : he = false).
    { destruct he; [|reflexivity]. destruct ff.
      - exfalso. unfold process in H. rewrite Ei in H.
        replace (ptu =? len d) with false in H by (symmetry; apply N.eqb_neq; exact Hne). cbn [andb] in H. discriminate.
      - exfalso. pose proof (mark_err_status A cfg d deny hy p k1 k2 w _ _ _ _ Ei HK) as HX. rewrite H in HX. exact HX. }
    subst he.
    assert (Hfd : false = fffd db) by (destruct HB as (_ & _ & _ & Hx & _); exact Hx).
    rewrite (process_B ff p d deny hy k1 k2 w _ _ _ _ _ Ei Hne (andb_false_r ff) Hfd) in H. cbv zeta in H.
    pose proof HB as (_ & Hlen & He1 & _ & _ & P & rl & Hd & HP & Hcv & HaP & Hma).
    pose proof (walk1_spec cfg d false ff p (tld_of db) bd (split_on DOT db) ap false ptu false false P rl Hlen
                  ltac:(intros _; symmetry; exact He1)
                  ltac:(intros _; split; [apply split_on_ne|cbn [tailtext]; repeat split; assumption])) as HW.
    destruct (walk1 cfg ff p d (tld_of db) bd false (split_on DOT db) ap false ptu false false) as [ws we].
    cbn [fst snd] in *. destruct (run_sink k1 ws) as [s1 th]. destruct th; cbn [negb] in H; [|discriminate].
    destruct we as [|huo|site]; [| |discriminate].
    2:{ destruct (huo && w); [|discriminate].
        destruct (run_sink k2 (fst (walk2 cfg d false (split_on DOT db) ap false ptu false))) as [s2 th2].
        destruct th2; cbn [negb] in H; [|discriminate].
        destruct (snd (walk2 cfg d false (split_on DOT db) ap false ptu false)); discriminate. }
    unfold Post1 in HW. destruct (outs cfg (uni1 ff p (tld_of db) bd) (split_on DOT db) ap) as [os|site]; [|discriminate].
    unfold Res1 in HW. cbn [negb andb snd] in HW.
    destruct (stays (uni1 ff p (tld_of db) bd) (split_on DOT db) ap) eqn:Es; [|destruct HW; discriminate].
    pose proof (stays_below _ is_ascii_l (uni1_false_nonascii ff p (tld_of db) bd) _ _ Es) as Es2.
    pose proof (to_ascii_walk d deny hy _ _ _ _ HR Hm HB P rl Hd HP Hcv) as HT.
    destruct (stays_outs cfg is_ascii_l _ _ Es2) as (os2 & Eo2). rewrite Eo2, Es2 in HT. exact (proj2 HT).
Qed.

(* ---- the dual-output mode = two separate calls ---- *)
Theorem dual_two_calls p d deny hy s a : bytes d -> Redisc A cfg deny ->
  process A cfg false p d deny hy None None true = (PWroteToSink, s, a) ->
  to_user_interface A cfg d deny hy p = UI false s false /\
  exists b, to_ascii A cfg d deny hy DIgnore = Ok (b, match a with [] => s | _ => a end).
Proof.
  intros Hb HR H.
  destruct (process_inner A cfg false hy deny d) as [ptu bd he db ap|site] eqn:Ei.
  2:{ unfold process in H. rewrite Ei in H. discriminate. }
  destruct (inner_mark_facts hy deny d _ _ _ _ _ Hb Ei) as [(-> & -> & Ha)|HB].
  { exfalso. unfold process in H. rewrite Ei, N.eqb_refl, andb_false_r in H. discriminate. }
  assert (Hne : ptu <> len d) by (destruct HB as [Hlt _]; lia).
  pose proof HB as (_ & Hlen & He1 & Hfd & _ & P & rl & Hd & HP & Hcv & HaP & Hma).
  unfold to_user_interface.
  rewrite (process_B false p d deny hy None None true _ _ _ _ _ Ei Hne eq_refl Hfd) in H.
  rewrite (process_B false p d deny hy None None false _ _ _ _ _ Ei Hne eq_refl Hfd). cbv zeta in *.
  pose proof (walk1_spec cfg d he false p (tld_of db) bd (split_on DOT db) ap false ptu false false P rl Hlen
                ltac:(discriminate)
                ltac:(intros _; split; [apply split_on_ne|cbn [tailtext]; repeat split; assumption])) as HW.
  pose proof (walk2_spec cfg d he (split_on DOT db) ap false ptu false P rl Hlen
                ltac:(intros _; cbn [tailtext]; repeat split; assumption)) as HW2.
  destruct (walk1 cfg false p d (tld_of db) bd he (split_on DOT db) ap false ptu false false) as [ws we].
  rewrite run_sink_none in *. cbn [fst snd negb] in *.
  destruct we as [|huo|site]; [discriminate| |discriminate].
  destruct he; [discriminate|]. rewrite andb_false_r.
  assert (Hs : s = concat ws).
  { destruct (huo && true); [|inversion H; reflexivity].
    rewrite run_sink_none in H. cbn [negb] in H.
    destruct (snd (walk2 cfg d false (split_on DOT db) ap false ptu false)); inversion H; reflexivity. }
  split; [rewrite Hs; reflexivity|].
  unfold Post1 in HW. destruct (outs cfg (uni1 false p (tld_of db) bd) (split_on DOT db) ap) as [os|site] eqn:Eo; [|discriminate].
  unfold Res1 in HW. cbn [negb andb snd tailtext] in HW.
  destruct (stays (uni1 false p (tld_of db) bd) (split_on DOT db) ap) eqn:Es; [destruct HW as [_ HW]; rewrite andb_false_r in HW; discriminate|].
  destruct HW as [HW1 HW3]. unfold wcat in HW3. cbn [fst] in HW3. inversion HW1 as [Hhuo]. clear HW1.
  pose proof (to_ascii_walk d deny hy _ _ _ _ HR Ei HB P rl Hd HP Hcv) as HT.
  destruct huo; cbn [andb] in H.
  - (* the second walk ran *)
    rewrite run_sink_none in H. cbn [negb] in H. unfold Post2 in HW2.
    destruct (outs cfg is_ascii_l (split_on DOT db) ap) as [os2|site] eqn:Eo2.
    2:{ rewrite HW2 in H. discriminate. }
    unfold Res2 in HW2. cbn [tailtext] in HW2. destruct HW2 as [HW2a HW2b]. rewrite HW2a in H. inversion H as [[Hs' Ha]]. subst a.
    unfold wcat in HW2b. rewrite HW2b.
    assert (Hne2 : join_dots os2 <> []).
    { destruct (huo_true_nonempty p (tld_of db) bd _ _ _ _ (eq_sym Hhuo) Eo2 (cover_puny_ne _ _ Hcv)) as [Hx|Hx]; [discriminate|exact Hx]. }
    assert (Hm : forall x : list N, match P ++ join_dots os2 with [] => x | _ => P ++ join_dots os2 end = P ++ join_dots os2).
    { intros x. destruct (P ++ join_dots os2) eqn:E; [|reflexivity]. apply app_eq_nil in E. destruct E as [_ E]. contradiction. }
    rewrite Hm. destruct (stays is_ascii_l (split_on DOT db) ap).
    + destruct HT as [HT1 HT2]. exists true. rewrite HT1. exact HT2.
    + exists false. exact HT.
  - (* no label was written as Unicode: the text of the first walk is the ToASCII result *)
    inversion H as [[Hs' Ha]]. subst a.
    destruct (huo_false_agree p (tld_of db) bd _ _ _ (eq_sym He1) (eq_sym Hhuo)) as [_ Hag].
    rewrite <- (outs_agree _ _ _ _ Hag), Eo in HT. rewrite <- (stays_agree _ _ _ _ Hag), Es in HT.
    exists false. rewrite HW3. exact HT.
Qed.
End Api.

(* ---- the full statements of C11 ---- *)
Lemma c11_dual_full : forall A cfg, map_normalize A [] = [] -> C11_dual_statement A cfg.
Proof.
  intros A cfg H0 d deny hy p s a Hb Hv H.
  exact (dual_two_calls A cfg p d deny hy s a Hb (redisc_of_adapter A cfg deny H0 (proj1 (valid_deny_facts deny Hv))) H).
Qed.
Lemma c11_passthrough_full : forall A cfg, map_normalize A [] = [] -> C11_passthrough_statement A cfg.
Proof.
  intros A cfg H0 ff p d deny hy k1 k2 w s a Hb Hv H Hk. split.
  - exact (passthrough_ascii_input A cfg ff p d deny hy k1 k2 w s a Hb H).
  - exact (passthrough_own_result A cfg ff p d deny hy k1 k2 w s a Hb
             (redisc_of_adapter A cfg deny H0 (proj1 (valid_deny_facts deny Hv))) H Hk).
Qed.

(* the adapter premise of c11_dual_full cannot be dropped: with the adapter of Proofs/Idna_MarkWalk.v that maps the
   empty text to "a", the dual-output call on "xn--a-" writes both texts although to_ascii of the same name is an error *)
Lemma w_c11_dual_h0 cfg :
  process nonempty_map cfg false always_unicode W_C11_h0 DENY_EMPTY HAllow None None true
    = (PWroteToSink, [128; 97], [120; 110; 45; 45; 97; 45; 97]).
Proof. destruct cfg; vm_compute; reflexivity. Qed.
Lemma c11_dual_unconditional_refuted : exists A, forall cfg, ~ C11_dual_statement A cfg.
Proof.
  exists nonempty_map. intros cfg H. destruct (w_c11_h0 cfg) as (_ & Ha & _).
  assert (Hb : bytes W_C11_h0) by (unfold W_C11_h0; repeat constructor; unfold is_byte; lia).
  assert (Hv : valid_deny DENY_EMPTY) by (right; exists T_IDNA_EMPTY_GLYPHLESS, T_IDNA_EMPTY_LIST; reflexivity).
  destruct (H W_C11_h0 DENY_EMPTY HAllow always_unicode _ _ Hb Hv (w_c11_dual_h0 cfg)) as [_ (b & Hx)].
  rewrite Ha in Hx. discriminate.
Qed.
