(* Proofs/Idna_WalkApi.v - Uts46::process / to_ascii / to_user_interface described through the functional form of
   the output walks (Proofs/Idna_WalkFun.v) and the invariants of process_inner (Proofs/Idna_Mark.v,
   Proofs/Idna_WalkInv.v). *)
From RU Require Import Base.Prelude Base.Utf8 Base.U32_c13 Gen.Tables Model.Punycode Model.Uts46
  Proofs.Idna_Sim Proofs.Idna_Api Proofs.Idna_Known Proofs.Idna_Hyp Proofs.Idna_Redisc
  Proofs.Idna_C10_Deny Proofs.Idna_C10_Prefix Proofs.Idna_C10_Inner Proofs.Idna_C10_Walk
  Proofs.Idna_Mark Proofs.Idna_MarkWalk Proofs.Idna_MarkFffd Proofs.Idna_WalkFun Proofs.Idna_WalkInv.

Definition tld_of (db : list N) : list N :=
  last (split_on DOT (match last_opt db with
                      | Some l => if l =? DOT then removelast db else db
                      | None => db end)) [].

Lemma run_sink_none ws : run_sink None ws = (concat ws, true).
Proof. reflexivity. Qed.
Lemma split_on_ne l : split_on DOT l <> [].
Proof. unfold split_on. destruct (split1 DOT l). discriminate. Qed.

Section Api.
Variable A : adapter.
Variable cfg : bool.

(* ---- what process_inner returns ---- *)
Definition InnerB (d : list N) (ptu : N) (bd he : bool) (db : list N) (ap : list aal) : Prop :=
  ptu < len d /\ length (split_on DOT db) = length ap /\ he = efffd (split_on DOT db) /\ he = fffd db /\
  (bd = false -> pre_ok (split_on DOT db) ap) /\
  exists P rl, d = P ++ join_dots rl /\ len P = ptu /\ cover ap rl /\ ascii P /\ Forall mixed_ascii ap.

Lemma inner_mark_facts hy deny d ptu bd he db ap : bytes d ->
  process_inner A cfg false hy deny d = IRes ptu bd he db ap ->
  (ptu = len d /\ he = false /\ ascii d) \/ InnerB d ptu bd he db ap.
Proof.
  intros Hb H. pose proof (process_inner_FInv A cfg hy deny d) as HF. rewrite H in HF. cbn [FInv] in HF.
  destruct (process_inner_ascii A cfg d Hb hy deny _ _ _ _ _ H) as [HA1 HA2].
  destruct HF as [[E1 E2]|(Hlt & dbl & Hne & Hsp & Hnd & He1 & He2 & Hlen & Hpo & P & rl & Hd & HP & Hcv)].
  - left. split; [exact E1|]. split; [exact E2|]. subst ptu. unfold len in HA1. rewrite Nat2N.id, firstn_all in HA1. exact HA1.
  - right. subst dbl. unfold InnerB. repeat split; try assumption. exists P, rl. repeat split; try assumption.
    rewrite <- HP in HA1. rewrite Hd in HA1. rewrite firstn_len_app in HA1. exact HA1.
Qed.

Lemma inner_ff_facts hy deny d ptu bd he db ap :
  process_inner A cfg true hy deny d = IRes ptu bd he db ap ->
  IRes ptu bd he db ap = I_EXIT \/ (he = false /\ process_inner A cfg false hy deny d = IRes ptu bd he db ap).
Proof.
  intros H. pose proof (process_inner_wsim A cfg hy deny d) as HW. rewrite H in HW.
  destruct HW as [HW|HW]; [left; exact HW|]. right.
  destruct (process_inner A cfg false hy deny d) as [ptu' bd' he' db' ap'|s]; [|discriminate].
  destruct HW as [E HW]. inversion HW. subst. split; reflexivity.
Qed.

(* both modes: the early return, the immediate Passthrough, or the walks *)
Lemma inner_facts ff hy deny d ptu bd he db ap : bytes d ->
  process_inner A cfg ff hy deny d = IRes ptu bd he db ap ->
  (ff = true /\ he = true /\ ptu = 0 /\ d <> []) \/ (ptu = len d /\ he = false /\ ascii d) \/
  (InnerB d ptu bd he db ap /\ process_inner A cfg false hy deny d = IRes ptu bd he db ap).
Proof.
  intros Hb H. destruct ff.
  - destruct (inner_ff_facts _ _ _ _ _ _ _ _ H) as [HX|[E H']].
    + inversion HX. subst. left. repeat split. intros ->. rewrite process_inner_nil in H. discriminate.
    + right. destruct (inner_mark_facts _ _ _ _ _ _ _ _ Hb H') as [HA|HB]; [left; exact HA|right; split; assumption].
  - right. destruct (inner_mark_facts _ _ _ _ _ _ _ _ Hb H) as [HA|HB]; [left; exact HA|right; split; assumption].
Qed.

(* ---- process, unfolded on the walking branch ---- *)
Lemma process_B ff p d deny hy k1 k2 w ptu bd he db ap :
  process_inner A cfg ff hy deny d = IRes ptu bd he db ap -> ptu <> len d -> ff && he = false -> he = fffd db ->
  process A cfg ff p d deny hy k1 k2 w =
    let labels := split_on DOT db in
    let w1 := walk1 cfg ff p d (tld_of db) bd he labels ap false ptu false false in
    let (s1, through1) := run_sink k1 (fst w1) in
    if negb through1 then (PSinkError, s1, [])
    else match snd w1 with
         | WPanic s => (PPanic s, s1, [])
         | WPass => (PPassthrough, s1, [])
         | WEnd huo =>
             if he then (PValidityError, s1, [])
             else if huo && w then
               let w2 := walk2 cfg d he labels ap false ptu false in
               let (s2, through2) := run_sink k2 (fst w2) in
               if negb through2 then (PSinkError, s1, s2)
               else match snd w2 with WPanic s => (PPanic s, s1, s2) | _ => (PWroteToSink, s1, s2) end
             else (PWroteToSink, s1, [])
         end.
Proof.
  intros H Hne Hfh Hhe. unfold process. rewrite H.
  replace (ptu =? len d) with false by (symmetry; apply N.eqb_neq; exact Hne).
  rewrite Hfh. unfold fffd in Hhe. rewrite <- Hhe. rewrite Bool.eqb_reflx. cbn [negb]. rewrite andb_false_r. reflexivity.
Qed.

(* the first walk at the top level *)
Lemma walk1_top ff p d ptu bd he db ap : InnerB d ptu bd he db ap -> (ff = true -> he = false) ->
  exists P rl, d = P ++ join_dots rl /\ len P = ptu /\ cover ap rl /\ ascii P /\
    Post1 cfg d he false P (stays (uni1 ff p (tld_of db) bd) (split_on DOT db) ap)
      (outs cfg (uni1 ff p (tld_of db) bd) (split_on DOT db) ap) false
      (huo_fin ff p (tld_of db) bd false (split_on DOT db) ap)
      (walk1 cfg ff p d (tld_of db) bd he (split_on DOT db) ap false ptu false false).
Proof.
  intros (Hlt & Hlen & He1 & He2 & Hpo & P & rl & Hd & HP & Hcv & HaP & Hma) Hff.
  exists P, rl. repeat split; try assumption.
  apply (walk1_spec cfg d he ff p (tld_of db) bd (split_on DOT db) ap false ptu false false P rl Hlen).
  - intros Hf. rewrite <- He1. exact (Hff Hf).
  - intros _. split; [apply split_on_ne|]. cbn [tailtext]. repeat split; assumption.
Qed.

Lemma walk2_top d ptu bd he db ap : InnerB d ptu bd he db ap ->
  exists P rl, d = P ++ join_dots rl /\ len P = ptu /\ cover ap rl /\ ascii P /\
    Post2 false P (outs cfg is_ascii_l (split_on DOT db) ap) false (walk2 cfg d he (split_on DOT db) ap false ptu false).
Proof.
  intros (Hlt & Hlen & He1 & He2 & Hpo & P & rl & Hd & HP & Hcv & HaP & Hma).
  exists P, rl. repeat split; try assumption.
  apply (walk2_spec cfg d he (split_on DOT db) ap false ptu false P rl Hlen).
  intros _. cbn [tailtext]. repeat split; assumption.
Qed.

(* ---- Passthrough only for ASCII input ---- *)
Lemma stays_cover_ascii uni : forall ap rl, cover ap rl -> forall labels, length labels = length ap ->
  stays uni labels ap = true -> Forall mixed_ascii ap -> Forall ascii rl.
Proof.
  induction 1 as [|l ap ls _ IH|l ap ls Hl _ IH|k l ap ls Hl _ IH]; intros labels Hlen Hst Hma.
  - constructor.
  - destruct labels as [|lab labels]; [discriminate|]. cbn [stays length] in *. apply andb_true_iff in Hst.
    inversion Hma; subst. constructor; [assumption|]. apply (IH labels); [lia|exact (proj2 Hst)|assumption].
  - destruct labels as [|lab labels]; [discriminate|]. cbn [stays length] in *. apply andb_true_iff in Hst.
    inversion Hma; subst. constructor; [assumption|]. apply (IH labels); [lia|exact (proj2 Hst)|assumption].
  - destruct labels as [|lab labels]; [discriminate|]. cbn [stays stay_label andb] in Hst. discriminate.
Qed.

Theorem passthrough_ascii_input ff p d deny hy k1 k2 w o1 o2 : bytes d ->
  process A cfg ff p d deny hy k1 k2 w = (PPassthrough, o1, o2) -> ascii d.
Proof.
  intros Hb H.
  destruct (process_inner A cfg ff hy deny d) as [ptu bd he db ap|s] eqn:Ei.
  2:{ unfold process in H. rewrite Ei in H. discriminate. }
  destruct (inner_facts ff hy deny d _ _ _ _ _ Hb Ei) as [(-> & -> & -> & Hne)|[(_ & _ & Ha)|[HB _]]]; [|exact Ha|].
  - exfalso. unfold process in H. rewrite Ei in H.
    destruct (0 =? len d) eqn:E; [apply len_nil_iff in E; contradiction|]. cbn [andb] in H. discriminate.
  - assert (Hne : ptu <> len d) by (destruct HB as [Hlt _]; lia).
    destruct (ff && he) eqn:Efh.
    { unfold process in H. rewrite Ei in H. replace (ptu =? len d) with false in H by (symmetry; apply N.eqb_neq; exact Hne).
      rewrite Efh in H. discriminate. }
    assert (Hhe : he = fffd db) by (destruct HB as (_ & _ & _ & Hx & _); exact Hx).
    rewrite (process_B ff p d deny hy k1 k2 w _ _ _ _ _ Ei Hne Efh Hhe) in H. cbv zeta in H.
    assert (Hffhe : ff = true -> he = false) by (intros ->; exact Efh).
    destruct (walk1_top ff p d _ _ _ _ _ HB Hffhe) as (P & rl & Hd & HP & Hcv & HaP & HW).
    destruct HB as (_ & Hlen & _ & _ & _ & _ & _ & _ & _ & _ & _ & Hma).
    destruct (walk1 cfg ff p d (tld_of db) bd he (split_on DOT db) ap false ptu false false) as [ws we].
    cbn [fst snd] in *. destruct (run_sink k1 ws) as [s1 th]. destruct th; cbn [negb] in H; [|discriminate].
    destruct we as [|huo|s]; [| |discriminate].
    2:{ destruct he; [discriminate|]. destruct (huo && w); [|discriminate].
        destruct (run_sink k2 (fst (walk2 cfg d false (split_on DOT db) ap false ptu false))) as [s2 th2].
        destruct th2; cbn [negb] in H; [|discriminate].
        destruct (snd (walk2 cfg d false (split_on DOT db) ap false ptu false)); discriminate. }
    unfold Post1 in HW. destruct (outs cfg (uni1 ff p (tld_of db) bd) (split_on DOT db) ap) as [os|s]; [|discriminate].
    unfold Res1 in HW. cbn [negb andb snd] in HW.
    destruct (stays (uni1 ff p (tld_of db) bd) (split_on DOT db) ap) eqn:Es; [|destruct HW; discriminate].
    rewrite Hd. apply ascii_app. split; [exact HaP|].
    apply join_dots_Forall; [unfold is_ascii, DOT; lia|]. exact (stays_cover_ascii _ _ _ Hcv _ Hlen Es Hma).
Qed.
End Api.
