(* Proofs/Idna_MarkWalk.v - the first output walk of the marking run: with had_errors set it never returns
   Passthrough outside the class Known_C11; hence C11_same_verdict in full. *)
From RU Require Import Base.Prelude Base.Utf8 Base.U32_c13 Gen.Tables Model.Punycode Model.Uts46
  Proofs.Idna_Sim Proofs.Idna_Api Proofs.Idna_Known Proofs.Idna_Hyp Proofs.Idna_Redisc
  Proofs.Idna_C10_Deny Proofs.Idna_C10_Prefix Proofs.Idna_C10_Inner Proofs.Idna_C10_Walk Proofs.Idna_Mark.

Lemma classify_unicode_nofffd label : classify_for_punycode label = PcUnicode -> fffd label = false.
Proof.
  induction label as [|c r IH]; intros H; [reflexivity|]. cbn [classify_for_punycode] in H.
  destruct (is_ascii_cp c) eqn:Ea.
  - unfold fffd. cbn [existsb]. fold (fffd r). rewrite (IH H). unfold is_ascii_cp in Ea.
    unfold is_fffd, FFFD, REPLACEMENT. replace (c =? 65533) with false by lia. reflexivity.
  - destruct (existsb is_fffd (c :: r)) eqn:E; [discriminate|exact E].
Qed.
Lemma join_dots_nil l rl : join_dots (l :: rl) = [] -> l = [] /\ rl = [].
Proof.
  rewrite join_dots_cons. intros H. apply app_eq_nil in H. destruct H as [H1 H2]. split; [exact H1|].
  destruct rl; [reflexivity|discriminate].
Qed.
Ltac np_done := unfold NP; cbn [snd]; discriminate.

Section MarkWalk.
Variable cfg : bool.
Variable p : list N -> list N -> bool -> bool.
Variable d tld : list N.
Variable bidi : bool.

Definition wbody (ff he : bool) (label : list N) (ip : aal) (huo flushed : bool) (kk : bool -> N -> bool -> wres) (pte : N) : wres :=
  match ip with
  | MixedCaseAscii mixed_case => mixed_write cfg d mixed_case he true 830 844 pte flushed (kk huo)
  | _ =>
    if ff && cfg && (match classify_for_punycode label with PcError => true | _ => false end) then ([], WPanic 852)
    else
      let potentially_punycode :=
        if ff then negb (is_ascii_l label)
        else match classify_for_punycode label with PcUnicode => true | _ => false end in
      let unicode := if potentially_punycode then p label tld bidi else true in
      let huo' := if potentially_punycode then huo || unicode else huo in
      if unicode then flush_prefix d pte flushed (wapp (chars label) (kk huo' pte true))
      else match ip with
           | MixedCasePunycode mixed_case => mixed_write cfg d mixed_case he true 885 899 pte flushed (kk huo')
           | _ => flush_prefix d pte flushed (write_punycode_label cfg label (kk huo' pte true))
           end
  end.

Lemma walk1_cons_gen ff he label labels ip aps seen pte flushed huo :
  walk1 cfg ff p d tld bidi he (label :: labels) (ip :: aps) seen pte flushed huo =
  let kk := fun huo pte flushed => walk1 cfg ff p d tld bidi he labels aps true pte flushed huo in
  if seen then
    if flushed then wcons [DOT] (wbody ff he label ip huo flushed kk pte)
    else if cfg && negb (nth (N.to_nat pte) d 256 =? DOT) then ([], WPanic 810)
    else if pte + 1 =? len d then (if cfg && he then ([], WPanic 813) else ([], WPass))
    else wbody ff he label ip huo flushed kk (pte + 1)
  else wbody ff he label ip huo flushed kk pte.
Proof. reflexivity. Qed.

(* once the prefix has been flushed the walk cannot return Passthrough *)
Lemma NP_mixed_fl he m pc sn sp pt kk : (forall pt', NP (kk pt' true)) -> NP (mixed_write cfg d m he pc sn sp pt true kk).
Proof. intros Hk. unfold mixed_write. destruct (position is_upper m); [apply NP_wcons, NP_wapp, Hk|apply NP_wcons, Hk]. Qed.
Lemma wbody_fl ff he label ip huo kk pt : (forall h pt', NP (kk h pt' true)) -> NP (wbody ff he label ip huo true kk pt).
Proof.
  intros Hk. unfold wbody. destruct ip as [m|m|].
  - apply NP_mixed_fl. intros. apply Hk.
  - destruct (ff && cfg && match classify_for_punycode label with PcError => true | _ => false end); [np_done|]. cbv zeta.
    match goal with |- NP (if ?u then _ else _) => destruct u end; [apply NP_flush, NP_wapp, Hk|apply NP_mixed_fl; intros; apply Hk].
  - destruct (ff && cfg && match classify_for_punycode label with PcError => true | _ => false end); [np_done|]. cbv zeta.
    match goal with |- NP (if ?u then _ else _) => destruct u end; [apply NP_flush, NP_wapp, Hk|apply NP_flush, NP_wpl, Hk].
Qed.
Lemma walk1_flushed ff he labels : forall aps seen pte huo, NP (walk1 cfg ff p d tld bidi he labels aps seen pte true huo).
Proof.
  induction labels as [|label labels IH]; intros aps seen pte huo; [cbn [walk1]; np_done|].
  destruct aps as [|ip aps]; [cbn [walk1]; np_done|]. rewrite walk1_cons_gen. cbv zeta.
  destruct seen; [apply NP_wcons|]; apply wbody_fl; intros; apply IH.
Qed.

(* with had_errors set and the prefix not flushed *)
Lemma NP_mixed_he m sn sp pt kk :
  (forall pt', NP (kk pt' true)) -> (pt + len m <> len d -> NP (kk (pt + len m) false)) ->
  (cfg = false -> pt + len m <> len d) ->
  NP (mixed_write cfg d m true true sn sp pt false kk).
Proof.
  intros H1 H2 H3. unfold mixed_write. destruct (position is_upper m) as [fu|].
  - destruct (cfg && (pt + len (firstn fu m) =? len d)); [np_done|apply NP_wcons, NP_wapp, H1].
  - cbn [andb]. destruct (pt + len m =? len d) eqn:E.
    + destruct cfg; cbn [andb]; [np_done|]. apply N.eqb_eq in E. exfalso. exact (H3 eq_refl E).
    + apply H2. apply N.eqb_neq. exact E.
Qed.

Definition WPos (seen : bool) (pte : N) (aps : list aal) : Prop :=
  exists P rl, d = P ++ tailtext seen rl /\ len P = pte /\ cover aps rl.

Lemma wbody_mark label ip aps labels huo kk pt P1 l rl' :
  (forall h pt', NP (kk h pt' true)) ->
  (forall h pt', efffd labels = true -> WPos true pt' aps -> NP (kk h pt' false)) ->
  pre_ok (label :: labels) (ip :: aps) -> efffd (label :: labels) = true ->
  d = P1 ++ join_dots (l :: rl') -> len P1 = pt -> cover (ip :: aps) (l :: rl') ->
  NP (wbody false true label ip huo false kk pt).
Proof.
  intros Hk1 Hk2 Hpo Hf Hd HP Hcv. inversion Hpo as [|? ? ? ? Hip Hpo']; subst.
  assert (HM : forall m sn sp h, l = m -> cover aps rl' -> fffd label = false ->
            NP (mixed_write cfg d m true true sn sp (len P1) false (kk h))).
  { intros m sn sp h Hl Hcv' Hfl. subst l. rewrite join_dots_cons in Hd. apply NP_mixed_he; [intros; apply Hk1| |].
    - intros _. apply Hk2.
      + cbn [efffd existsb] in Hf. rewrite Hfl in Hf. exact Hf.
      + exists (P1 ++ m), rl'. rewrite <- app_assoc. split; [exact Hd|]. split; [rewrite len_app; reflexivity|exact Hcv'].
    - intros _ Heq.
      assert (Ht : tailtext true rl' = []).
      { apply len_zero. rewrite Hd in Heq. rewrite !len_app in Heq. lia. }
      destruct rl' as [|x r]; [|discriminate]. apply cover_nil_r in Hcv'. subst aps. inversion Hpo'; subst.
      cbn [efffd existsb] in Hf. rewrite Hfl in Hf. discriminate. }
  unfold wbody. destruct ip as [m|m|].
  - inversion Hcv; subst. apply HM; [reflexivity|assumption|exact Hip].
  - cbn [andb]. cbv zeta. destruct (classify_for_punycode label) eqn:Ec.
    + apply NP_flush, NP_wapp, Hk1.
    + destruct (p label tld bidi); [apply NP_flush, NP_wapp, Hk1|].
      inversion Hcv; subst. apply HM; [reflexivity|assumption|exact (classify_unicode_nofffd _ Ec)].
    + apply NP_flush, NP_wapp, Hk1.
  - cbn [andb]. cbv zeta. destruct (classify_for_punycode label) eqn:Ec.
    + apply NP_flush, NP_wapp, Hk1.
    + destruct (p label tld bidi); [apply NP_flush, NP_wapp, Hk1|apply NP_flush, NP_wpl, Hk1].
    + apply NP_flush, NP_wapp, Hk1.
Qed.

Theorem walk1_mark labels : forall aps seen pte flushed huo, pre_ok labels aps ->
  (flushed = false -> efffd labels = true /\ WPos seen pte aps) ->
  NP (walk1 cfg false p d tld bidi true labels aps seen pte flushed huo).
Proof.
  induction labels as [|label labels IH]; intros aps seen pte flushed huo Hpo Hfl; [cbn [walk1]; np_done|].
  destruct flushed; [apply walk1_flushed|]. destruct (Hfl eq_refl) as [Hf (P & rl & Hd & HP & Hcv)].
  inversion Hpo as [|? ip ? aps' Hip Hpo']; subst. rewrite walk1_cons_gen. cbv zeta.
  assert (Hrl : exists l rl', rl = l :: rl') by (inversion Hcv; eauto). destruct Hrl as (l & rl' & ->).
  assert (HB : forall pt P1, d = P1 ++ join_dots (l :: rl') -> len P1 = pt ->
            NP (wbody false true label ip huo false
                  (fun huo0 pte0 fl0 => walk1 cfg false p d tld bidi true labels aps' true pte0 fl0 huo0) pt)).
  { intros pt P1 Hd1 HP1. eapply wbody_mark; try eassumption.
    - intros h pt'. apply walk1_flushed.
    - intros h pt' Hf' Hw. apply IH; [exact Hpo'|]. intros _. split; assumption. }
  destruct seen.
  - cbn [tailtext] in Hd. destruct (cfg && negb (nth (N.to_nat (len P)) d 256 =? DOT)); [np_done|].
    destruct (len P + 1 =? len d) eqn:E.
    + exfalso. apply N.eqb_eq in E.
      assert (Hj : join_dots (l :: rl') = []).
      { apply len_zero. rewrite Hd in E. rewrite len_app, len_cons1 in E. lia. }
      apply join_dots_nil in Hj. destruct Hj as [-> ->].
      inversion Hcv as [|? ? ? Hc'| |]; subst; try congruence.
      apply cover_nil_r in Hc'. subst aps'. inversion Hpo'; subst.
      cbn [efffd existsb] in Hf. rewrite Hip in Hf. discriminate.
    + apply (HB (len P + 1) (P ++ [DOT])); [rewrite <- app_assoc; exact Hd|rewrite len_app; reflexivity].
  - cbn [tailtext] in Hd. apply (HB (len P) P); [exact Hd|reflexivity].
Qed.
End MarkWalk.

(* ---- process / the API ---- *)
Lemma known_c11_pre_ok dbl : forall ap, length dbl = length ap ->
  existsb (fun lp => match snd lp with MixedCaseAscii _ => existsb is_fffd (fst lp) | _ => false end) (combine dbl ap) = false ->
  pre_ok dbl ap.
Proof.
  induction dbl as [|l r IH]; intros ap Hl H; destruct ap as [|e ap]; cbn [length] in Hl; try discriminate; [constructor|].
  cbn [combine existsb fst snd] in H. apply orb_false_iff in H. destruct H as [H1 H2].
  constructor; [destruct e; [exact H1|exact I|exact I]|apply IH; [lia|exact H2]].
Qed.

Section Main.
Variable A : adapter.
Variable cfg : bool.

(* the marking run with had_errors set, outside Known_C11: a validity error, a sink error or a panic - never
   Passthrough, never WroteToSink *)
Theorem mark_err_status d deny hy p k1 k2 w ptu bd db ap :
  process_inner A cfg false hy deny d = IRes ptu bd true db ap -> Known_C11 A cfg d deny hy = false ->
  match fst (fst (process A cfg false p d deny hy k1 k2 w)) with
  | PPassthrough | PWroteToSink => False
  | _ => True
  end.
Proof.
  intros Hi Hk. pose proof (process_inner_FInv A cfg hy deny d) as HF. rewrite Hi in HF. cbn [FInv] in HF.
  destruct HF as [[_ Hc]|(Hlt & dbl & Hdn & Hsp & Hnd & Hhe & Hx & Hlen & Hpb & P & rl & Hd & HP & Hcv)]; [discriminate Hc|].
  unfold Known_C11 in Hk. rewrite Hi in Hk. rewrite Hsp in Hk.
  assert (Hpo : pre_ok dbl ap).
  { destruct bd; [cbn [andb] in Hk; exact (known_c11_pre_ok dbl ap Hlen Hk)|exact (Hpb eq_refl)]. }
  unfold process. rewrite Hi. replace (ptu =? len d) with false by (symmetry; apply N.eqb_neq; lia). cbn [andb].
  destruct (cfg && negb (Bool.eqb true (existsb is_fffd db))); [exact I|]. rewrite Hsp.
  match goal with |- context [walk1 ?a ?b ?c ?d0 ?e ?f ?g ?h ?i ?j ?k ?l ?m] =>
    pose proof (walk1_mark a c d0 e f h i j k l m Hpo) as HW;
    destruct (walk1 a b c d0 e f g h i j k l m) as [ws we] end.
  assert (HN : NP (ws, we)).
  { apply HW. intros _. split; [symmetry; exact Hhe|]. exists P, rl. cbn [tailtext]. repeat split; assumption. }
  unfold NP in HN. cbn [fst snd] in *.
  destruct (run_sink k1 ws) as [s1 through1]. destruct (negb through1); [exact I|].
  destruct we as [|huo|s]; [contradiction|exact I|exact I].
Qed.

(* C11, the same verdict, in full *)
Theorem same_verdict_full d deny hy p : map_normalize A [] = [] -> DenyUpper deny ->
  Known_C11 A cfg d deny hy = false ->
  is_panic (to_ascii A cfg d deny hy DIgnore) = false -> ui_panics (to_user_interface A cfg d deny hy p) = false ->
  res_err (to_ascii A cfg d deny hy DIgnore) = ui_err (to_user_interface A cfg d deny hy p).
Proof.
  intros H0 HD Hk Hp1 Hp2. pose proof (redisc_of_adapter A cfg deny H0 HD) as HRd.
  destruct (to_user_interface A cfg d deny hy p) as [b t e|s] eqn:Eu; [|discriminate]. cbn [ui_err].
  destruct e.
  - rewrite (mark_err_ff_err A cfg d deny hy p b t HRd Eu). reflexivity.
  - destruct (to_ascii A cfg d deny hy DIgnore) as [[b' r]| |s] eqn:Ea; [reflexivity| |discriminate].
    exfalso. destruct (ta_err_inner A cfg d deny hy Ea) as (ptu & bd & db & ap & Ht).
    pose proof (process_inner_sim A cfg hy deny d HRd) as HS. rewrite Ht in HS.
    destruct (process_inner A cfg false hy deny d) as [ptu' bd' he db' ap'|s] eqn:Ei; cbn [inner_sim] in HS.
    2:{ unfold to_user_interface, process in Eu. rewrite Ei in Eu. discriminate Eu. }
    destruct he; [|inversion HS].
    pose proof (mark_err_status d deny hy p None None false ptu' bd' db' ap' Ei Hk) as HM.
    unfold to_user_interface in Eu.
    destruct (process A cfg false p d deny hy None None false) as [[st s] a]. cbn [fst] in HM.
    destruct st; try contradiction; discriminate.
Qed.
End Main.

Lemma c11_same_verdict_full : forall A cfg, map_normalize A [] = [] -> C11_same_verdict_statement A cfg.
Proof.
  intros A cfg H0 d deny hy p Hb Hv Hk Hp1 Hp2.
  exact (same_verdict_full A cfg d deny hy p H0 (proj1 (valid_deny_facts deny Hv)) Hk Hp1 Hp2).
Qed.

(* ---- the premise map_normalize A [] = [] cannot be dropped ---- *)
(* an adapter that maps the empty text to "a": the all-ASCII label "xn--a-" (trailing hyphen) is rejected at once by
   the fail-fast run, while the marking run "rediscovers" nothing - the mapped stream turns the label into "xn--a-a",
   which decodes and validates *)
Definition nonempty_map : adapter :=
  {| map_normalize := fun l => match l with [] => [97] | _ => l end; normalize_validate := fun l => l;
     joining_type := fun _ => 0; bidi_class := toy_bc;
     is_mark := fun _ => false; is_virama := fun _ => false |}.
Definition W_C11_h0 : list N := [120; 110; 45; 45; 97; 45].    (* "xn--a-" *)
Lemma w_c11_h0 cfg :
  Known_C11 nonempty_map cfg W_C11_h0 DENY_EMPTY HAllow = false /\
  to_ascii nonempty_map cfg W_C11_h0 DENY_EMPTY HAllow DIgnore = Err /\
  to_unicode nonempty_map cfg W_C11_h0 DENY_EMPTY HAllow = UI false [128; 97] false.
Proof. destruct cfg; vm_compute; repeat split; reflexivity. Qed.
Lemma c11_same_verdict_unconditional_refuted : exists A, forall cfg, ~ C11_same_verdict_statement A cfg.
Proof.
  exists nonempty_map. intros cfg H. destruct (w_c11_h0 cfg) as (Hk & Ha & Hu).
  assert (Hb : bytes W_C11_h0) by (unfold W_C11_h0; repeat constructor; unfold is_byte; lia).
  assert (Hv : valid_deny DENY_EMPTY) by (right; exists T_IDNA_EMPTY_GLYPHLESS, T_IDNA_EMPTY_LIST; reflexivity).
  specialize (H W_C11_h0 DENY_EMPTY HAllow always_unicode Hb Hv Hk).
  unfold to_unicode in Hu. rewrite Ha, Hu in H. specialize (H eq_refl eq_refl). discriminate H.
Qed.
