(* Proofs/C01_EqEnc.v - bridges between the two sides of the C01 equivalence that do not depend on a
   parser state: the percent-encoders (per UTF-8 byte with a table-driven set on the model side, per
   code point with a predicate on the specification side), the input preprocessing, and the scheme
   state (C01_eq_scheme_state). *)
From RU Require Import Base.Prelude Base.Utf8 Base.Utf8Facts Model.AsciiSet Gen.Tables
  Model.PercentEncoding Model.HostT Model.UrlRecord Model.Parser Spec.Whatwg
  Proofs.ListN Proofs.C14_Enc Proofs.C14_Views Proofs.C02_Enc Proofs.C02_Parts
  Proofs.C01_Tables Proofs.C08_Input Proofs.C01_EqRun.

(* ================= encoders ================= *)
(* a model set and a set of the Standard agree: same answer on every ASCII byte, and the Standard's
   set contains every code point above '~' *)
Definition set_rel (S : aset) (inset : N -> bool) : Prop :=
  (forall b, b < 128 -> should_encode S b = inset b) /\ (forall c, 126 < c -> inset c = true).

Lemma should_encode_high S b : 128 <= b -> should_encode S b = true.
Proof. intros H. unfold should_encode. replace (128 <=? b) with true by lia. reflexivity. Qed.

Lemma enc_bridge1 S inset c : set_rel S inset ->
  encode S (utf8_encode1 c) = utf8_percent_encode_cp inset c.
Proof.
  intros [Hlow Hhigh]. unfold utf8_percent_encode_cp, utf8_encode. cbn [flat_map]. rewrite app_nil_r.
  unfold utf8_encode1. destruct (c <? 128) eqn:E1.
  - unfold encode. cbn [flat_map]. rewrite app_nil_r. rewrite (Hlow c) by lia.
    destruct (inset c); reflexivity.
  - rewrite (Hhigh c) by lia.
    destruct (c <? 2048); [|destruct (c <? 65536)]; unfold encode; cbn [flat_map];
      rewrite !should_encode_high by lia; reflexivity.
Qed.

(* `pe_display S (utf8_encode cs)` of the model = concatenation of the Standard's per-code-point
   encodings, for sets that agree *)
Theorem enc_bridge S inset cs : set_rel S inset ->
  encode S (utf8_encode cs) = utf8_percent_encode inset cs.
Proof.
  intros HR. induction cs as [|c r IH]; [reflexivity|].
  change (utf8_encode (c :: r)) with (utf8_encode1 c ++ utf8_encode r).
  rewrite encode_app, IH, (enc_bridge1 S inset c HR). reflexivity.
Qed.

Corollary pe_display_bridge S inset cs : set_rel S inset -> usv_list cs ->
  pe_display S (utf8_encode cs) = utf8_percent_encode inset cs.
Proof. intros HR Hu. rewrite pe_display_utf8 by exact Hu. apply enc_bridge. exact HR. Qed.

Lemma set_rel_of_tables S inset :
  (forall b, b < 256 -> should_encode S b = inset b) -> (forall c, 126 < c -> inset c = true) -> set_rel S inset.
Proof. intros H1 H2. split; [intros b Hb; apply H1; lia | exact H2]. Qed.

Lemma rel_CONTROLS : set_rel T_CONTROLS in_c0_control_set.
Proof.
  apply set_rel_of_tables; [intros b Hb; exact (proj1 (tables_are_the_standards b Hb))|].
  intros c Hc. exact (proj1 (spec_sets_contain_non_ascii c Hc)).
Qed.
Lemma rel_FRAGMENT : set_rel T_FRAGMENT in_fragment_set.
Proof.
  apply set_rel_of_tables; [intros b Hb; exact (proj1 (proj2 (tables_are_the_standards b Hb)))|].
  intros c Hc. exact (proj1 (proj2 (spec_sets_contain_non_ascii c Hc))).
Qed.
Lemma rel_QUERY : set_rel T_QUERY in_query_set.
Proof.
  apply set_rel_of_tables; [intros b Hb; exact (proj1 (proj2 (proj2 (tables_are_the_standards b Hb))))|].
  intros c Hc. exact (proj1 (proj2 (proj2 (spec_sets_contain_non_ascii c Hc)))).
Qed.
Lemma rel_SPECIAL_QUERY : set_rel T_SPECIAL_QUERY in_special_query_set.
Proof.
  apply set_rel_of_tables; [intros b Hb; exact (proj1 (proj2 (proj2 (proj2 (tables_are_the_standards b Hb)))))|].
  intros c Hc. exact (proj1 (proj2 (proj2 (proj2 (spec_sets_contain_non_ascii c Hc))))).
Qed.
Lemma rel_PATH : set_rel T_PATH in_path_set.
Proof.
  apply set_rel_of_tables; [intros b Hb; exact (proj1 (proj2 (proj2 (proj2 (proj2 (tables_are_the_standards b Hb))))))|].
  intros c Hc. exact (proj1 (proj2 (proj2 (proj2 (proj2 (spec_sets_contain_non_ascii c Hc)))))).
Qed.
Lemma rel_USERINFO : set_rel T_USERINFO in_userinfo_set.
Proof.
  apply set_rel_of_tables; [intros b Hb; exact (proj2 (proj2 (proj2 (proj2 (proj2 (tables_are_the_standards b Hb))))))|].
  intros c Hc. exact (proj2 (proj2 (proj2 (proj2 (proj2 (spec_sets_contain_non_ascii c Hc)))))).
Qed.

Theorem encoders_agree cs :
  encode T_CONTROLS (utf8_encode cs) = utf8_percent_encode in_c0_control_set cs
  /\ encode T_FRAGMENT (utf8_encode cs) = utf8_percent_encode in_fragment_set cs
  /\ encode T_QUERY (utf8_encode cs) = utf8_percent_encode in_query_set cs
  /\ encode T_SPECIAL_QUERY (utf8_encode cs) = utf8_percent_encode in_special_query_set cs
  /\ encode T_PATH (utf8_encode cs) = utf8_percent_encode in_path_set cs
  /\ encode T_USERINFO (utf8_encode cs) = utf8_percent_encode in_userinfo_set cs.
Proof.
  repeat split; apply enc_bridge;
    [exact rel_CONTROLS | exact rel_FRAGMENT | exact rel_QUERY | exact rel_SPECIAL_QUERY | exact rel_PATH | exact rel_USERINFO].
Qed.

(* ================= preprocessing ================= *)
Lemma drop_leading_is_drop_while f g l : (forall c, f c = g c) -> drop_leading f l = drop_while g l.
Proof. intros H. induction l as [|c r IH]; [reflexivity|]. cbn [drop_leading drop_while]. rewrite H, IH. reflexivity. Qed.

Lemma c0_or_space_same c : is_c0_control_or_space c = is_c0_or_space c.
Proof. unfold is_c0_control_or_space, is_c0_control, is_c0_or_space. lia. Qed.

(* the text the specification's state machine runs on = the model's trimmed input without the
   code points its iterator skips *)
Theorem spec_clean_is_ntnl_trim raw : spec_clean raw = ntnl (input_new_trim_c0 raw).
Proof.
  unfold spec_clean, ntnl, input_new_trim_c0, trim_matches, strip_leading_and_trailing, strip_trailing.
  rewrite (drop_leading_is_drop_while _ _ raw c0_or_space_same).
  rewrite (drop_leading_is_drop_while _ _ (rev (drop_while is_c0_or_space raw)) c0_or_space_same).
  reflexivity.
Qed.

(* ================= scheme state ================= *)
Lemma scheme_loop_eq l : forall acc_rev,
  match parse_scheme_loop CUrlParser acc_rev l, scheme_scan (rev acc_rev) (ntnl l) with
  | Some (s, r), Some (s', r') => s = s' /\ ntnl r = r'
  | None, None => True
  | _, _ => False
  end.
Proof.
  induction l as [|c r IH]; intros acc; [exact I|]. cbn [parse_scheme_loop ctx_eqb].
  destruct (is_tnl c) eqn:Et.
  - rewrite ntnl_cons_tnl by exact Et. apply IH.
  - rewrite ntnl_cons by exact Et. cbn [scheme_scan]. unfold is_scheme_cp, is_alnum, is_alpha.
    destruct (is_lower c || is_digit c || (c =? 43) || (c =? 45) || (c =? 46)) eqn:E1.
    + assert (is_upper c = false) as Eu by (unfold is_upper, is_lower, is_digit in *; lia).
      replace (is_upper c || is_lower c || is_digit c || (c =? 43) || (c =? 45) || (c =? 46)) with true
        by (rewrite Eu; cbn [orb]; symmetry; exact E1).
      unfold to_lower. rewrite Eu. specialize (IH (c :: acc)). cbn [rev] in IH. exact IH.
    + destruct (is_upper c) eqn:Eu.
      * cbn [orb]. unfold to_lower. rewrite Eu. specialize (IH ((c + 32) :: acc)). cbn [rev] in IH. exact IH.
      * replace (false || is_lower c || is_digit c || (c =? 43) || (c =? 45) || (c =? 46)) with false
          by (symmetry; exact E1).
        destruct (c =? 58); [split; reflexivity | exact I].
Qed.

(* C01_eq_scheme_state: on every input the model's parse_scheme and the Standard's scheme start /
   scheme states yield the same lower-cased scheme and the same remaining text (the model's still
   carries the tab / newline code points its iterator skips), or both fall to "no scheme" *)
Theorem scheme_state_eq l :
  match parse_scheme CUrlParser l, spec_scheme (ntnl l) with
  | Some (s, r), Some (s', r') => s = s' /\ ntnl r = r'
  | None, None => True
  | _, _ => False
  end.
Proof.
  unfold parse_scheme, inp_starts_with_pred, spec_scheme.
  destruct (inp_next l) as [[c r]|] eqn:En.
  - destruct (inp_next_ntnl l c r En) as [E _]. rewrite E.
    destruct (is_alpha c); [|exact I]. rewrite <- E. exact (scheme_loop_eq l []).
  - rewrite (inp_next_none_ntnl l En). exact I.
Qed.

Corollary scheme_state_some l s r : parse_scheme CUrlParser l = Some (s, r) ->
  spec_scheme (ntnl l) = Some (s, ntnl r).
Proof.
  intros H. pose proof (scheme_state_eq l) as K. rewrite H in K.
  destruct (spec_scheme (ntnl l)) as [[s' r']|]; [|contradiction]. destruct K as [-> <-]. reflexivity.
Qed.

Corollary scheme_state_none l : parse_scheme CUrlParser l = None -> spec_scheme (ntnl l) = None.
Proof.
  intros H. pose proof (scheme_state_eq l) as K. rewrite H in K.
  destruct (spec_scheme (ntnl l)) as [[s' r']|]; [contradiction | reflexivity].
Qed.
