(* Proofs/C03_PortParse.v - the parser half of "a scheme-default port is never stored", for the inputs whose
   parse C02 describes in closed form: Url::parse (no base) of a text with a scheme other than "file" (the four
   canonical classes: special with authority, non-special with authority, '/'-led path without authority,
   opaque path).  With C03_PortInv.pn_step: PN for every record reached from such a parse result, or from a
   file-path constructor, by any sequence of mutator calls outside excl03 - no hypothesis on the parser. *)
From RU Require Import Base.Prelude Base.Utf8 Model.AsciiSet Gen.Tables Model.PercentEncoding
  Model.HostT Model.UrlRecord Model.Parser Model.Setters Model.WF Model.FilePath
  Proofs.ListN Proofs.C03_WF Proofs.C06_List Proofs.C02_Parts Proofs.C02_Opaque Proofs.C02_Path Proofs.C02_PathL1 Proofs.C02_Reach
  Proofs.C02_AuthParts Proofs.C02_Auth Proofs.C02_AuthWf Proofs.C02_PathSp Proofs.C02_AuthSp Proofs.C02_AuthMain
  Proofs.C06_Main Proofs.C03_ReachParts Proofs.C03_ReachHost Proofs.C03_ReachAll Proofs.C03_Reachability Proofs.C03_PortInv.
Open Scope N_scope.
Open Scope list_scope.

Lemma scheme_text u : wf_b u = true -> scheme u = Some (nfirstn (scheme_end u) (ser u)).
Proof.
  intros W. rewrite (scheme_eval u W). unfold piece. cbn [pidx]. rewrite N.sub_0_r. reflexivity.
Qed.

Lemma pn_of_fields u sch : wf_b u = true -> nfirstn (scheme_end u) (ser u) = sch ->
  (forall p, port u = Some p -> default_port sch <> Some p) -> PN u.
Proof.
  intros W E H sch' p Hs Hp. rewrite (scheme_text u W), E in Hs. inversion Hs; subst sch'. exact (H p Hp).
Qed.

Theorem parse_nonfile_pn dbg hp hpo hd input u :
  HostRT hp hpo hd -> host_above hp hpo hd -> usv_list input -> nonfile_input input = true ->
  parse_url dbg hp hpo hd None None input = POk u -> PN u.
Proof.
  intros HRT HAb Hu Hc Hp.
  pose proof (proj1 (proj2 (reparse_nonfile dbg hp hpo hd input u HRT HAb Hu Hc Hp))) as W.
  unfold nonfile_input in Hc.
  destruct (parse_scheme CUrlParser (input_new_trim_c0 input)) as [[sch rem]|] eqn:Hs; [|discriminate].
  destruct (scheme_type_of sch) eqn:Hst; [discriminate| |].
  - (* special non-file *)
    assert (special_input input = true) as Hsi by (unfold special_input; rewrite Hs, Hst; reflexivity).
    destruct (L1_special dbg hp hpo hd HRT input u HAb Hu Hsi Hp) as ((sch' & ui & h & pt & p & q & f & K & _ & E) & _).
    apply (pn_of_fields u sch' W).
    + rewrite E. unfold auth_url. cbn [ser scheme_end]. unfold auth_ser, auth_pre. rewrite <- app_assoc. apply front_sch.
    + intros x Hx. rewrite E in Hx. unfold auth_url in Hx. cbn [port] in Hx. subst pt.
      exact (proj2 (ak_pt _ _ _ _ _ _ _ _ _ _ _ K)).
  - destruct (inp_split_prefix_char 47 rem) as [rem'|] eqn:E47.
    + destruct (inp_split_prefix_str s_ss rem) as [rem''|] eqn:Ess.
      * assert (auth_input input = true) as Hai by (unfold auth_input; rewrite Hs, Hst, Ess; reflexivity).
        destruct (L1_auth dbg hp hpo hd HRT None input u HAb Hu Hai Hp) as ((sch' & ui & h & pt & p & q & f & K & E) & _).
        apply (pn_of_fields u sch' W).
        -- rewrite E. unfold auth_url. cbn [ser scheme_end]. unfold auth_ser, auth_pre. rewrite <- app_assoc. apply front_sch.
        -- intros x Hx. rewrite E in Hx. unfold auth_url in Hx. cbn [port] in Hx. subst pt.
           exact (proj2 (ak_pt _ _ _ _ _ _ _ _ _ _ _ K)).
      * destruct (parse_noauth_out dbg hp hpo hd None input sch rem rem' u Hu Hs Hst Ess E47 Hp) as (segs & last & q & f & K & ->).
        apply pn_none. reflexivity.
    + destruct (parse_opaque_out dbg hp hpo hd None input sch rem u Hu Hs Hst E47 Hp) as (P & q & f & K & ->).
      apply pn_none. reflexivity.
Qed.

(* ---------- histories that start at such a parse result or at a file-path constructor ---------- *)
Section Reach.
Variable dbg : bool.
Variable hp hpo : list N -> result host.
Variable hd : host -> list N.

Inductive reach03n : url -> Prop :=
| RN_parse input u : usv_list input -> nonfile_input input = true ->
    parse_url dbg hp hpo hd None None input = POk u -> reach03n u
| RN_file p u : bytes p -> from_file_path p = FOk u -> reach03n u
| RN_dir p u : bytes p -> from_directory_path p = FOk u -> reach03n u
| RN_step u o u' :
    reach03n u -> op_args_ok o -> known03 u o u' = false -> apply_op dbg hp hpo hd u o = Some u' -> reach03n u'.

Lemma reach03n_sub u : reach03n u -> reach03a dbg hp hpo hd u.
Proof.
  induction 1 as [input u Hu Hc Hp | p u Hb H | p u Hb H | u o u' R IH Ha G H].
  - exact (RA_parse dbg hp hpo hd None input u Hp).
  - exact (RA_file dbg hp hpo hd p u Hb H).
  - exact (RA_dir dbg hp hpo hd p u Hb H).
  - exact (RA_step dbg hp hpo hd u o u' IH Ha G H).
Qed.

Theorem reach03n_pn : HostRT hp hpo hd -> host_above hp hpo hd -> IpDisp hd -> forall u, reach03n u -> PN u.
Proof.
  intros HRT HAb HIP u R. pose proof (HostRT_HostWf hp hpo hd HRT) as HW.
  induction R as [input u Hu Hc Hp | p u Hb H | p u Hb H | u o u' R IH Ha G H].
  - exact (parse_nonfile_pn dbg hp hpo hd input u HRT HAb Hu Hc Hp).
  - destruct (path_is_absolute p) eqn:Ea.
    + rewrite (C20_RT.from_file_path_spec p Hb Ea) in H. inversion H. apply file_rec_pn.
    + rewrite (proj1 (C20_RT.from_file_path_rel p Ea)) in H. discriminate.
  - destruct (path_is_absolute p) eqn:Ea.
    + rewrite (C20_RT.from_directory_path_spec p Hb Ea) in H. inversion H. apply file_rec_pn.
    + rewrite (proj2 (C20_RT.from_file_path_rel p Ea)) in H. discriminate.
  - destruct (known03_false u o u' G) as [->|G']; [exact IH|].
    pose proof (reach03a_wfh dbg hp hpo hd HW HIP u (reach03n_sub u R)) as Ku.
    exact (pn_step dbg hp hpo hd HW u o u' HIP Ku Ha G' H IH).
Qed.
End Reach.

(* the hypotheses are met by the example host functions with the IP-printing display *)
From RU Require Import Proofs.C03_ReachEx.
Lemma ex2_host_RT : HostRT ex_hp ex_hp ex_hd2 /\ host_above ex_hp ex_hp ex_hd2.
Proof.
  destruct ex_host_RT as [(A & B0 & C & D) (E & F)].
  split; [split; [|split; [|split; [reflexivity | exact D]]] | split];
    intros s h Hh; destruct (ex_hp_domain s h Hh) as (d & ->).
  - exact (A s _ Hh).
  - exact (B0 s _ Hh).
  - exact (E s _ Hh).
  - exact (F s _ Hh).
Qed.
