(* Proofs/C07_Histories.v - from one assignment to any sequence of assignments.
   If a relation R between model records and URL records of the Standard is preserved by every
   assignment outside Known_C07 (the model does not panic, the specification model does not run out
   of fuel, and the results are related again), then it is preserved along every history all of
   whose steps - taken in the state the model has reached - are outside Known_C07; if moreover
   related records show the same ten API strings, the API strings agree after every prefix. *)
From RU Require Import Base.Prelude Base.Utf8 Model.AsciiSet Gen.Tables Model.PercentEncoding
  Model.HostT Model.UrlRecord Model.Parser Model.Setters Model.KnownC01 Model.KnownC07 Spec.Whatwg
  Proofs.C07_Defs.

(* ---------- generic form: any two transition systems driven by the same assignments ---------- *)
Section Generic.
Variables MU SU OP : Type.
Variable mstep : OP -> MU -> option MU.
Variable sstep : OP -> SU -> option SU.
Variable excluded : MU -> OP -> Prop.
Variable R : MU -> SU -> Prop.

Fixpoint g_mrun (u : MU) (ops : list OP) : option MU :=
  match ops with [] => Some u | o :: r => match mstep o u with Some u' => g_mrun u' r | None => None end end.
Fixpoint g_srun (u : SU) (ops : list OP) : option SU :=
  match ops with [] => Some u | o :: r => match sstep o u with Some u' => g_srun u' r | None => None end end.
Fixpoint g_outside (u : MU) (ops : list OP) : Prop :=
  match ops with
  | [] => True
  | o :: r => ~ excluded u o /\ match mstep o u with Some u' => g_outside u' r | None => True end
  end.

Definition g_one_step : Prop :=
  forall u su o, R u su -> ~ excluded u o ->
    exists u' su', mstep o u = Some u' /\ sstep o su = Some su' /\ R u' su'.

Theorem histories_generic : g_one_step ->
  forall ops u su, R u su -> g_outside u ops ->
    exists u' su', g_mrun u ops = Some u' /\ g_srun su ops = Some su' /\ R u' su'.
Proof.
  intros Hstep ops. induction ops as [|o r IH]; intros u su HR Hout.
  - exists u, su. cbn [g_mrun g_srun]. auto.
  - cbn [g_outside] in Hout. destruct Hout as [Hk Hrest].
    destruct (Hstep u su o HR Hk) as (u1 & su1 & Hm & Hs & HR1).
    rewrite Hm in Hrest. destruct (IH u1 su1 HR1 Hrest) as (u2 & su2 & Hm2 & Hs2 & HR2).
    exists u2, su2. cbn [g_mrun g_srun]. rewrite Hm, Hs. auto.
Qed.

Lemma g_outside_firstn n : forall ops u, g_outside u ops -> g_outside u (firstn n ops).
Proof.
  induction n as [|n IH]; intros ops u H; [exact I|].
  destruct ops as [|o r]; [exact I|]. cbn [firstn g_outside] in *. destruct H as [Hk Hr].
  split; [exact Hk|]. destruct (mstep o u) as [u'|]; [apply IH; exact Hr|exact I].
Qed.
End Generic.

(* ---------- the setters ---------- *)
Section Concrete.
Variable dbg : bool.
Variable hp ho : list N -> result host.
Variable hd : host -> list N.
Variable shp : bool -> list N -> option spec_host.
Variable shs : spec_host -> list N.
Variable R : url -> spec_url -> Prop.

Definition one_step : Prop :=
  forall u su s v, R u su -> known_c07 u s v = 0 ->
    exists u' su', model_set dbg hp ho hd s u v = Some u' /\ spec_step shp s su v = Some su' /\ R u' su'.

Let OP := (qsetter * list N)%type.
Let mstep (o : OP) (u : url) := model_set dbg hp ho hd (fst o) u (snd o).
Let sstep (o : OP) (su : spec_url) := spec_step shp (fst o) su (snd o).
Let excluded (u : url) (o : OP) := known_c07 u (fst o) (snd o) <> 0.

Lemma model_run_generic ops : forall u, model_run dbg hp ho hd u ops = g_mrun _ _ mstep u ops.
Proof.
  induction ops as [|[s v] r IH]; intros u; [reflexivity|].
  cbn [model_run g_mrun]. unfold mstep at 1. cbn [fst snd].
  destruct (model_set dbg hp ho hd s u v); [apply IH|reflexivity].
Qed.
Lemma spec_run_generic ops : forall su, spec_run shp su ops = g_srun _ _ sstep su ops.
Proof.
  induction ops as [|[s v] r IH]; intros su; [reflexivity|].
  cbn [spec_run g_srun]. unfold sstep at 1. cbn [fst snd].
  destruct (spec_step shp s su v); [apply IH|reflexivity].
Qed.
Lemma outside_known_generic ops : forall u,
  outside_known dbg hp ho hd u ops -> g_outside _ _ mstep excluded u ops.
Proof.
  induction ops as [|[s v] r IH]; intros u H; [exact I|].
  cbn [outside_known g_outside] in *. destruct H as [Hk Hr]. split.
  - unfold excluded. cbn [fst snd]. intros Hn. apply Hn. exact Hk.
  - unfold mstep at 1. cbn [fst snd]. destruct (model_set dbg hp ho hd s u v); [apply IH; exact Hr|exact I].
Qed.

Theorem histories_preserve : one_step ->
  forall ops u su, R u su -> outside_known dbg hp ho hd u ops ->
    exists u' su', model_run dbg hp ho hd u ops = Some u' /\ spec_run shp su ops = Some su' /\ R u' su'.
Proof.
  intros H1 ops u su HR Hout.
  assert (g_one_step _ _ _ mstep sstep excluded R) as Hg.
  { intros u0 su0 [s v] HR0 Hk. unfold mstep, sstep. cbn [fst snd]. apply H1; [exact HR0|].
    unfold excluded in Hk. cbn [fst snd] in Hk.
    destruct (known_c07 u0 s v) eqn:E; [reflexivity|]. exfalso. apply Hk. discriminate. }
  destruct (histories_generic _ _ _ mstep sstep excluded R Hg ops u su HR (outside_known_generic ops u Hout))
    as (u' & su' & Hm & Hs & HR').
  exists u', su'. rewrite model_run_generic, spec_run_generic. auto.
Qed.

(* with the observation: the ten API strings agree after every prefix of the history *)
Theorem histories_api : one_step ->
  (forall u su, R u su -> model_api dbg u = Some (spec_api_list shs su)) ->
  forall ops u su, R u su -> outside_known dbg hp ho hd u ops ->
    forall n, exists u' su',
      model_run dbg hp ho hd u (firstn n ops) = Some u'
      /\ spec_run shp su (firstn n ops) = Some su'
      /\ model_api dbg u' = Some (spec_api_list shs su').
Proof.
  intros H1 Hapi ops u su HR Hout n.
  assert (outside_known dbg hp ho hd u (firstn n ops)) as Hpre.
  { clear - Hout. revert ops u Hout. induction n as [|n IH]; intros ops u H; [exact I|].
    destruct ops as [|[s v] r]; [exact I|]. cbn [firstn outside_known] in *. destruct H as [Hk Hr].
    split; [exact Hk|]. destruct (model_set dbg hp ho hd s u v); [apply IH; exact Hr|exact I]. }
  destruct (histories_preserve H1 (firstn n ops) u su HR Hpre) as (u' & su' & Hm & Hs & HR').
  exists u', su'. auto.
Qed.
End Concrete.
