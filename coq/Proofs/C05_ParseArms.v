(* Proofs/C05_ParseArms.v - the userinfo and path clauses (up_ok, Proofs/C05_ParseUI.v) for the record every
   arm of the parser returns: after "//" (userinfo, host, port, path), "scheme:/path", "scheme:opaque",
   the relative references against a base that satisfies the clauses (empty, "?q", "#f", "//authority",
   "/path", "path"), and the file states.  No hypothesis on the input numbers, on the encoding override or
   on the host functions (the clauses do not look at the host text); the base is well-formed, not
   cannot-be-a-base where the parser takes its path apart, and satisfies up_ok. *)
From RU Require Import Base.Prelude Base.Utf8 Model.AsciiSet Gen.Tables Model.PercentEncoding
  Model.HostT Model.UrlRecord Model.Parser Model.Setters Model.WF
  Proofs.ListN Proofs.C06_List Proofs.C02_Parts Proofs.C03_WF Proofs.C06_WFI Proofs.C06_Tail Proofs.C06_Steps
  Proofs.C06_PathParser Proofs.C06_FragQuery Proofs.C04_Parse Proofs.C04_PathTotal Proofs.C04_ParseTotal Proofs.C03_ReachParts Proofs.C03_Reach
  Proofs.C14_Enc
  Proofs.C05_Enc Proofs.C05_Parser Proofs.C05_Setters Proofs.C05_History Proofs.C05_Sharp Proofs.C05_Frag Proofs.C05_Query
  Proofs.C05_Comp Proofs.C05_PathClean Proofs.C05_CompSteps Proofs.C05_QueryFree Proofs.C05_ParseUI.

Ltac urec2 :=
  cbn [ser scheme_end username_end host_start host_end hosti port path_start query_start fragment_start url_with file_url].

(* ---------- the opaque-path state: the text it writes does not start with '/' ---------- *)
Lemma pe_display_two S b1 b2 r : should_encode S b1 = true -> should_encode S b2 = true -> is_byte b2 ->
  pe_display S (b1 :: b2 :: r) <> [].
Proof.
  intros H1 H2 Hb. unfold pe_display, pe_chunks. cbn [length pe_chunks_f pe_next]. rewrite H1.
  cbn [pe_chunks_f pe_next]. rewrite H2. cbn [concat]. rewrite (enc_byte_is_spec b2 Hb). unfold enc_byte_spec.
  intros E. apply app_eq_nil in E. destruct E as [_ E]. discriminate.
Qed.

Lemma pe_display_one S c : c < 128 -> pe_display S [c] <> [].
Proof.
  intros Hc. unfold pe_display, pe_chunks. cbn [length pe_chunks_f pe_next]. destruct (should_encode S c).
  - cbn [pe_chunks_f concat]. rewrite (enc_byte_is_spec c) by (unfold is_byte; lia). discriminate.
  - cbn [span_keep pe_chunks_f concat app]. discriminate.
Qed.

Lemma high_encoded S b : 128 <= b -> should_encode S b = true.
Proof. intros H. unfold should_encode. replace (128 <=? b) with true by lia. reflexivity. Qed.

Lemma pe_display_char_nonempty S c : pe_display S (utf8_encode [c]) <> [].
Proof.
  cbn [utf8_encode flat_map]. rewrite app_nil_r. unfold utf8_encode1.
  destruct (c <? 128) eqn:E1; [apply pe_display_one; lia|].
  destruct (c <? 2048); [|destruct (c <? 65536)];
    (apply pe_display_two; [apply high_encoded; lia | apply high_encoded; lia | unfold is_byte; lia]).
Qed.

Definition not_slash (d : N) : bool := negb (d =? 47).

Lemma pe_display_char_head S c : c <> 47 -> forall y r, pe_display S (utf8_encode [c]) ++ y <> 47 :: r.
Proof.
  intros Hc y r E.
  assert (forallb not_slash (pe_display S (utf8_encode [c])) = true) as Q.
  { apply pe_display_char_Q; [intros d; unfold pct_out, not_slash, is_digit; lia | unfold not_slash; lia]. }
  pose proof (pe_display_char_nonempty S c) as Hne.
  destruct (pe_display S (utf8_encode [c])) as [|e t]; [contradiction|].
  cbn [app] in E. inversion E; subst e. cbn [forallb] in Q. unfold not_slash in Q. cbn in Q. discriminate.
Qed.

Lemma split_prefix_tnl c r x : is_tnl x = true -> inp_split_prefix_char c (x :: r) = inp_split_prefix_char c r.
Proof. intros H. unfold inp_split_prefix_char, inp_next. cbn [drop_while]. rewrite H. reflexivity. Qed.

Lemma cbb_path_head l : forall ser, inp_split_prefix_char 47 l = None ->
  exists x, fst (parse_cannot_be_a_base_path CUrlParser ser l) = ser ++ x /\ path_raw x.
Proof.
  induction l as [|c r IH]; intros ser H; cbn [parse_cannot_be_a_base_path].
  - exists []. rewrite app_nil_r. split; [reflexivity | apply path_raw_nil].
  - destruct (is_tnl c) eqn:Et; [apply IH; rewrite (split_prefix_tnl 47 r c Et) in H; exact H|].
    assert (c <> 47) as Hc.
    { unfold inp_split_prefix_char, inp_next in H. cbn [drop_while] in H. rewrite Et in H.
      destruct (c =? 47) eqn:E; [discriminate | lia]. }
    cbn [ctx_eqb]. rewrite andb_true_r. destruct ((c =? 63) || (c =? 35)).
    + exists []. rewrite app_nil_r. split; [reflexivity | apply path_raw_nil].
    + destruct (cbb_path_shape r (push_encoded T_CONTROLS ser [c])) as (y & Ey & _). unfold push_encoded in *.
      exists (pe_display T_CONTROLS (utf8_encode [c]) ++ y). rewrite app_assoc. split; [exact Ey|].
      intros r0 E. exfalso. exact (pe_display_char_head T_CONTROLS c Hc y r0 E).
Qed.

(* ---------- small facts ---------- *)
Lemma css_after se ser0 y : nlen ser0 = se + 1 -> nnth ser0 se = Some 58 ->
  starts_with s_css (nskipn se ((ser0 ++ [47; 47]) ++ y)) = true.
Proof.
  intros L H. apply css_of_bytes.
  - rewrite nnth_app_lt by (rewrite nlen_app; lia). rewrite nnth_app_lt by lia. exact H.
  - rewrite nnth_app_lt by (rewrite nlen_app; change (nlen [47; 47]) with 2; lia). rewrite nnth_app_ge by lia.
    replace (se + 1 - nlen ser0) with 0 by lia. reflexivity.
  - rewrite nnth_app_lt by (rewrite nlen_app; change (nlen [47; 47]) with 2; lia). rewrite nnth_app_ge by lia.
    replace (se + 2 - nlen ser0) with 1 by lia. reflexivity.
Qed.

Lemma pinvq_raw ps pre s : PInvQ ps pre s -> path_raw (nskipn ps s).
Proof. intros [_ H]. apply path_raw_pq. exact H. Qed.

(* ---------- a base ---------- *)
(* what the clauses of a well-formed base give for a serialization that keeps its front *)
Lemma base_G b s : wf_b b = true -> agree_pre (path_start b) (ser b) s ->
  (username_end b <= scheme_end b + 3 /\ host_start b <= username_end b + 2)
  \/ (scheme_end b + 3 <= path_start b /\ username_end b <= path_start b /\ host_start b <= path_start b
      /\ starts_with s_css (nskipn (scheme_end b) s) = true).
Proof.
  intros W Hpre. destruct (has_authority_b b) eqn:Ha.
  - right. pose proof (wf_auth_facts b W Ha) as F.
    pose proof (af_ue F); pose proof (af_hs F); pose proof (af_he F); pose proof (af_ps F).
    split; [lia|]. split; [lia|]. split; [lia|].
    rewrite <- Ha. unfold has_authority_b. symmetry. apply (pre_starts_with (path_start b)); [apply agree_pre_sym; exact Hpre|].
    change (nlen s_css) with 3. lia.
  - left. pose proof (wf_noauth_facts b W Ha) as F. rewrite (nf_ue F), (nf_hs F). lia.
Qed.

Lemma base_ui b s : wf_b b = true -> up_ok b -> agree_pre (path_start b) (ser b) s ->
  ui_raw s (scheme_end b) (username_end b) (host_start b).
Proof.
  intros W [U _] Hpre. destruct (wf_ui_bounds b W) as [B1 B2].
  apply (ui_raw_pre (path_start b) (ser b) s _ _ _ Hpre B1); [lia | exact U].
Qed.

(* the path of a base that is not cannot-be-a-base consists of bytes outside D_PATH *)
Lemma base_path_pq b : wf_b b = true -> up_ok b -> nnth (ser b) (scheme_end b + 1) = Some 47 ->
  forallb pq (piece b (path_start b) (path_end b)) = true.
Proof.
  intros W [_ P] Hs.
  assert (cannot_be_a_base b = Some false) as C.
  { rewrite (cannot_be_a_base_eval b W). apply byte_eqb_true_iff in Hs. rewrite Hs. reflexivity. }
  destruct (hier_path_head b _ W C (path_eval b W)) as [E|(r & E)].
  - cbn [pidx] in E. change (match query_start b with Some q => q | None => match fragment_start b with Some f => f | None => nlen (ser b) end end)
      with (path_end b) in E. rewrite E. reflexivity.
  - cbn [pidx] in E. change (match query_start b with Some q => q | None => match fragment_start b with Some f => f | None => nlen (ser b) end end)
      with (path_end b) in E. exact (P r E).
Qed.

Lemma bq_path b : wf_b b = true -> nskipn (path_start b) (b_before_query b) = piece b (path_start b) (path_end b).
Proof.
  intros W. destruct (bq_shape b W) as (-> & P1 & P2). unfold piece.
  replace (path_end b) with (path_start b + (path_end b - path_start b)) at 1 by lia.
  apply nskipn_nfirstn_comm.
Qed.

Lemma bq_pinvq b : wf_b b = true -> up_ok b -> nnth (ser b) (scheme_end b + 1) = Some 47 ->
  PInvQ (path_start b) (nfirstn (path_start b) (ser b)) (b_before_query b).
Proof.
  intros W U Hs. split; [|rewrite (bq_path b W); exact (base_path_pq b W U Hs)].
  destruct (bq_shape b W) as (-> & P1 & P2). apply nfirstn_nfirstn. exact P1.
Qed.

(* a record that keeps the serialization of the base up to the end of its path, and that end *)
Lemma base_keep b s qs fs a : wf_b b = true -> up_ok b -> agree_pre a (ser b) s -> path_end b <= a ->
  path_end (url_with b s qs fs) = path_end b -> up_ok (url_with b s qs fs).
Proof.
  intros W U Hpre Ha Epe. destruct (wf_ps_le_path_end b W) as [P1 P2]. split.
  - urec2. apply (base_ui b s W U). apply (agree_pre_le a _ _ _ Hpre). lia.
  - rewrite Epe. unfold piece. urec2. rewrite (pre_piece a (ser b) s (path_start b) (path_end b) Hpre Ha).
    exact (proj2 U).
Qed.

Lemma bf_len b f : wf_b b = true -> fragment_start b = Some f -> nlen (nfirstn f (ser b)) = f /\ path_end b <= f.
Proof.
  intros W Ef. pose proof (wf_qf_facts b W) as QF. pose proof (qf_f QF) as Q2. pose proof (qf_q QF) as Q1. pose proof (qf_qf QF) as Q3.
  rewrite Ef in Q2, Q3. split; [apply nlen_nfirstn; lia|]. unfold path_end. rewrite Ef.
  destruct (query_start b) as [q|]; lia.
Qed.

(* the empty reference: the base without its fragment *)
Lemma cut_fragment_up b : wf_b b = true -> up_ok b ->
  up_ok (url_with b (b_before_fragment b) (query_start b) None).
Proof.
  intros W U. unfold b_before_fragment. destruct (fragment_start b) as [f|] eqn:Ef.
  - destruct (bf_len b f W Ef) as [Lf Hpe].
    apply (base_keep b _ _ _ f W U); [apply agree_pre_trunc | exact Hpe|].
    unfold path_end. urec2. rewrite Ef, Lf. reflexivity.
  - apply (base_keep b _ _ _ (nlen (ser b)) W U); [reflexivity | apply (wf_ps_le_path_end b W)|].
    unfold path_end. urec2. rewrite Ef. reflexivity.
Qed.

Lemma fragment_only_up b l u : wf_b b = true -> up_ok b -> fragment_only b l = POk u -> up_ok u.
Proof.
  intros W U. unfold fragment_only. cbv zeta. intros H. pb H fs Hfs. apply to_u32_eq in Hfs. subst fs.
  inversion H; subst u. clear H. rewrite parse_fragment_text. rewrite <- app_assoc.
  set (bf := b_before_fragment b).
  assert (agree_pre (nlen bf) (ser b) bf /\ path_end b <= nlen bf
          /\ (query_start b = None -> path_end b = nlen bf)) as (A1 & A2 & A3).
  { subst bf. unfold b_before_fragment. destruct (fragment_start b) as [f|] eqn:Ef.
    - destruct (bf_len b f W Ef) as [Lf Hpe]. rewrite Lf. split; [apply agree_pre_trunc|]. split; [exact Hpe|].
      intros Eq. unfold path_end. rewrite Eq, Ef. reflexivity.
    - split; [reflexivity|]. split; [apply (wf_ps_le_path_end b W)|]. intros Eq. unfold path_end. rewrite Eq, Ef. reflexivity. }
  change (up_ok (url_with b (bf ++ [35] ++ tnl_text T_FRAGMENT match inp_next l with Some (_, r) => r | None => [] end)
                   (query_start b) (Some (nlen bf)))).
  apply (base_keep b _ _ _ (nlen bf) W U); [|exact A2|].
  - eapply agree_pre_trans; [exact A1 | apply agree_pre_app_r].
  - unfold path_end at 1. urec2. destruct (query_start b) as [q|] eqn:Eq; [unfold path_end; rewrite Eq; reflexivity|].
    symmetry. apply A3. reflexivity.
Qed.

(* "?query" against a base *)
Lemma query_ref_up ovr b st se0 l s qs fs : wf_b b = true -> up_ok b ->
  parse_query_and_fragment ovr CUrlParser st se0 (b_before_query b) l = POk (s, qs, fs) -> up_ok (url_with b s qs fs).
Proof.
  intros W U H. destruct (bq_shape b W) as (Ebq & P1 & P2).
  assert (nlen (b_before_query b) = path_end b) as Lbq by (rewrite Ebq; apply nlen_nfirstn; exact P2).
  destruct (wf_ui_bounds b W) as [B1 B2].
  apply (pqf_up ovr st se0 (b_before_query b) l s qs fs _ _ _ _ _ _ _ H); [lia| |].
  - intros t. apply ui_raw_app; [lia | lia|]. apply (base_ui b _ W U). rewrite Ebq. apply agree_pre_nfirstn_ge. exact P1.
  - rewrite (bq_path b W). exact (proj2 U).
Qed.

(* a new path behind the front of the base *)
Lemma base_path_up ovr st b s rem u : wf_b b = true -> up_ok b ->
  PInvQ (path_start b) (nfirstn (path_start b) (ser b)) s ->
  with_query_and_fragment ovr CUrlParser st (scheme_end b) (username_end b) (host_start b) (host_end b)
    (hosti b) (port b) (path_start b) s rem = POk u -> up_ok u.
Proof.
  intros W U I H. pose proof (path_start_le_len b W) as PL.
  assert (nlen (nfirstn (path_start b) (ser b)) = path_start b) as Lp by (apply nlen_nfirstn; exact PL).
  pose proof (pinvq_len _ _ Lp s I) as Ls.
  assert (agree_pre (path_start b) (ser b) s) as Hpre by exact (proj1 I).
  eapply wqf_up; [exact H | exact Ls | exact (base_G b s W Hpre) | exact (base_ui b s W U Hpre) | exact (pinvq_raw _ _ _ I)].
Qed.

Section Arms.
Variable dbg : bool.
Variable hp hpo : list N -> result host.
Variable hd : host -> list N.
Variable ovr : option (list N -> list N).

Lemma phap_pre ctx st se ser l ser2 he hi pt rem :
  parse_host_and_port hp hpo hd ctx st se ser l = POk (ser2, he, hi, pt, rem) -> exists t, ser2 = ser ++ t.
Proof.
  unfold parse_host_and_port. intros H. pb H a Ha. destruct a as [host remaining]. cbv zeta in H.
  pb H he0 Hhe. pb H x Hx. destruct (inp_split_prefix_char 58 remaining) as [rm|].
  - pb H b Hb. destruct b as [port rem2]. inversion H; subst. destruct pt as [p|].
    + eexists. rewrite <- app_assoc. reflexivity.
    + eexists. reflexivity.
  - inversion H; subst. eexists. reflexivity.
Qed.

(* ---------- after "//" ---------- *)
Theorem ads_up st se ser0 l u : nlen ser0 = se + 1 -> nnth ser0 se = Some 58 ->
  after_double_slash dbg hp hpo hd ovr CUrlParser st se ser0 l = POk u -> up_ok u.
Proof.
  intros L0 H58. unfold after_double_slash. cbv zeta. intros H.
  pb H a Ha. destruct a as [[ser1 ue] rm].
  assert (nlen (ser0 ++ [47; 47]) = se + 3) as LA by (rewrite nlen_app, L0; change (nlen [47; 47]) with 2; lia).
  destruct (userinfo_ui_raw st se (ser0 ++ [47; 47]) l ser1 ue rm LA Ha) as (U & B1 & B2 & x & ->).
  pb H hs Hhs. apply to_u32_eq in Hhs. subst hs.
  pb H b Hb. destruct b as [[[[ser2 he] hi] pt] rm2]. destruct (phap_pre _ _ _ _ _ _ _ _ _ _ Hb) as (t & ->).
  match type of H with (if ?c then _ else _) = _ => destruct c; [discriminate|] end.
  pb H ps Hps. apply to_u32_eq in Hps. subst ps.
  pb H c Hc. destruct c as [[s3 hh] rm3].
  destruct (parse_path_start_clean dbg CUrlParser st true _ rm2 s3 hh rm3 Hc) as (P & -> & HP).
  set (S1 := (ser0 ++ [47; 47]) ++ x) in *. set (S2 := S1 ++ t) in *.
  assert (nlen S1 <= nlen S2) as L12 by (subst S2; rewrite nlen_app; lia).
  eapply wqf_up; [exact H | rewrite nlen_app; lia | right | | ].
  - split; [subst S1; rewrite nlen_app in L12; lia|]. split; [lia|]. split; [exact L12|].
    subst S2 S1. rewrite <- !app_assoc. rewrite (app_assoc ser0). apply css_after; assumption.
  - subst S2. rewrite <- app_assoc. apply ui_raw_app; [exact B2 | lia | exact U].
  - rewrite nskipn_app_exact. apply path_raw_pq. exact HP.
Qed.

(* ---------- "scheme:/path" and "scheme:opaque" ---------- *)
Theorem parse_non_special_up st se ser0 l u : nlen ser0 = se + 1 -> nnth ser0 se = Some 58 ->
  parse_non_special dbg hp hpo hd ovr CUrlParser st se ser0 l = POk u -> up_ok u.
Proof.
  intros L0 H58. unfold parse_non_special.
  destruct (inp_split_prefix_str s_ss l) as [rm|]; [apply ads_up; assumption|].
  intros H. pb H ps Hps. apply to_u32_eq in Hps. subst ps. pb H a Ha. destruct a as [s1 rem].
  assert (ps_le : nlen ser0 <= nlen s1 /\ path_raw (nskipn (nlen ser0) s1)).
  { destruct (inp_split_prefix_char 47 l) as [rm|] eqn:E47.
    - pb Ha b Hb. destruct b as [[s hh] r]. inversion Ha; subst s1 rem.
      assert (PInvQ (nlen ser0) ser0 (ser0 ++ [47])) as I1 by (apply pinvq_app; [reflexivity | apply pinvq_start | reflexivity]).
      pose proof (pinvq_parse_path dbg (nlen ser0) ser0 eq_refl _ _ _ _ _ _ _ _ Hb I1) as I2.
      split; [exact (pinvq_len (nlen ser0) ser0 eq_refl s I2) | exact (pinvq_raw _ _ _ I2)].
    - destruct (cbb_path_head l ser0 E47) as (x & Ex & Hx).
      destruct (parse_cannot_be_a_base_path CUrlParser ser0 l) as [s r]. cbn [fst] in Ex. inversion Ha; subst s1 rem s.
      split; [rewrite nlen_app; lia | rewrite nskipn_app_exact; exact Hx]. }
  destruct ps_le as [Lp Pp].
  eapply wqf_up; [exact H | exact Lp | left; lia | | exact Pp].
  apply ui_raw_trivial; lia.
Qed.

(* ---------- relative references ---------- *)
Theorem parse_relative_up st b l u : wf_b b = true -> up_ok b ->
  nnth (ser b) (scheme_end b + 1) = Some 47 ->
  parse_relative dbg hp hpo hd ovr CUrlParser st b l = POk u -> up_ok u.
Proof.
  intros W U Hs. pose proof (path_start_le_len b W) as PL.
  assert (nlen (nfirstn (path_start b) (ser b)) = path_start b) as Lp by (apply nlen_nfirstn; exact PL).
  destruct (wf_scheme_facts b W) as (S1 & S2 & S3).
  unfold parse_relative, inp_split_first. destruct (inp_next l) as [[c r]|] eqn:En.
  2:{ intros H. inversion H; subst u. apply cut_fragment_up; assumption. }
  destruct (c =? 63).
  { intros H. pb H a Ha. destruct a as [[s qs] fs]. inversion H; subst u. eapply query_ref_up; eassumption. }
  destruct (c =? 35); [apply fragment_only_up; assumption|].
  destruct ((c =? 47) || (c =? 92) && st_is_special st).
  - destruct (inp_count_matching (fun d => (d =? 47) || (d =? 92) && st_is_special st) l) as [slashes remaining].
    destruct (2 <=? slashes).
    + cbv zeta. intros H. pb H x Hx.
      assert (nlen (nfirstn (scheme_end b + 1) (ser b)) = scheme_end b + 1) as L1 by (apply nlen_nfirstn; lia).
      assert (nnth (nfirstn (scheme_end b + 1) (ser b)) (scheme_end b) = Some 58) as H58.
      { rewrite nnth_nfirstn by lia. apply byte_eqb_nnth. exact S2. }
      destruct (negb (st_is_special st)); [destruct (inp_split_prefix_str s_ss l)|]; eapply ads_up; eassumption.
    + cbv zeta. intros H. pb H a Ha. destruct a as [[s hh] rem].
      assert (PInvQ (path_start b) (nfirstn (path_start b) (ser b)) (nfirstn (path_start b) (ser b) ++ [47])) as I1.
      { apply pinvq_app; [exact Lp | | reflexivity]. rewrite <- Lp at 1. apply pinvq_start. }
      pose proof (pinvq_parse_path dbg _ _ Lp _ _ _ _ _ _ _ _ Ha I1) as I2.
      eapply base_path_up; eassumption.
  - cbv zeta. intros H. pb H s1 Hs1.
    pose proof (pinvq_pop_path _ _ Lp _ _ _ Hs1 (bq_pinvq b W U Hs)) as I1.
    pb H a Ha. destruct a as [[s3 hh] rem].
    set (s2 := if (nlen s1 =? path_start b) && (st_is_special (scheme_type_of (b_scheme b)) || negb (inp_is_empty l))
               then s1 ++ [47] else s1) in *.
    assert (PInvQ (path_start b) (nfirstn (path_start b) (ser b)) s2) as I2.
    { subst s2. destruct ((nlen s1 =? path_start b) && _); [|exact I1]. apply pinvq_app; [exact Lp | exact I1 | reflexivity]. }
    assert (PInvQ (path_start b) (nfirstn (path_start b) (ser b)) s3) as I3.
    { destruct c as [|p]; [exact (pinvq_parse_path dbg _ _ Lp _ _ _ _ _ _ _ _ Ha I2)|].
      do 6 (destruct p as [p|p|]; try exact (pinvq_parse_path dbg _ _ Lp _ _ _ _ _ _ _ _ Ha I2)). }
    eapply base_path_up; eassumption.
Qed.

End Arms.
