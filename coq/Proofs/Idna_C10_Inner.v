(* Proofs/Idna_C10_Inner.v - the fail-fast run of process_inner, for the C10 output theorem.
   In fail-fast mode every label-level function either leaves (SExit) or returns its text unchanged;
   the invariant InnerInv that process_inner establishes:
     - every ASCII character of domain_buffer is outside the deny list (okc);
     - every MixedCaseAscii / MixedCasePunycode entry of already_punycode is clean once lower-cased;
     - the POSITIONAL invariant: domain_name = P ++ join_dots rl with |P| = passthrough_up_to, P clean,
       and the leading Mixed entries of already_punycode carry exactly the leading labels of rl.
   The only adapter premise is NvNoTrunc (normalize_validate never returns a proper prefix of its argument);
   it is needed for the MixedCasePunycode entries only (after_punycode_decode compares the normalised text
   with the decoded text by zip, i.e. without a length check). *)
From RU Require Import Base.Prelude Base.Utf8 Base.U32_c13 Gen.Tables Model.Punycode Model.Uts46
  Proofs.C13_Ascii Proofs.Idna_Sim Proofs.Idna_Api Proofs.Idna_Known Proofs.Idna_Hyp Proofs.Idna_Redisc
  Proofs.Idna_C10_Deny Proofs.Idna_C10_Puny Proofs.Idna_C10_Prefix.

Definition NvNoTrunc (A : adapter) : Prop := forall l t, l = normalize_validate A l ++ t -> t = [].

(* ---- inversion of the step monad ---- *)
Lemma sbind_ok {X Y : Type} (r : step X) (k : X -> step Y) y :
  sbind r k = SOk y -> exists x, r = SOk x /\ k x = SOk y.
Proof. destruct r as [x| |s]; cbn [sbind]; intros H; try discriminate. exists x. split; [reflexivity|exact H]. Qed.
Lemma lcons_ok c r l h : lcons c r = SOk (l, h) -> exists l0, r = SOk (l0, h) /\ l = c :: l0.
Proof.
  destruct r as [[l0 h0]| |s]; cbn [lcons]; intros H; try discriminate. inversion H. subst. exists l0. split; reflexivity.
Qed.
Lemma cons3_ok c r l h n : cons3 c r = SOk (l, h, n) -> exists l0, r = SOk (l0, h, n) /\ l = c :: l0.
Proof.
  destruct r as [[[l0 h0] n0]| |s]; cbn [cons3]; intros H; try discriminate. inversion H. subst. exists l0. split; reflexivity.
Qed.

(* ---- fail-fast: SOk means unchanged ---- *)
Lemma scan_true bad l : forall he l' he', scan_mark true bad l he = SOk (l', he') ->
  l' = l /\ he' = he /\ existsb bad l = false.
Proof.
  induction l as [|c r IH]; intros he l' he' H; cbn [scan_mark] in H.
  - inversion H. repeat split.
  - destruct (bad c) eqn:E; [discriminate|]. apply lcons_ok in H. destruct H as (l0 & H & ->).
    destruct (IH _ _ _ H) as (-> & -> & Hx). cbn [existsb]. rewrite E. repeat split. exact Hx.
Qed.

Lemma check_hyphens_true a lab he l' he' : check_hyphens true a lab he = SOk (l', he') -> l' = lab /\ he' = he.
Proof.
  unfold check_hyphens. intros H.
  apply sbind_ok in H. destruct H as ([l1 h1] & H1 & H).
  assert (E1 : l1 = lab /\ h1 = he).
  { destruct lab as [|f r]; [inversion H1; split; reflexivity|].
    destruct (f =? HYPHEN); [discriminate|]. inversion H1; split; reflexivity. }
  destruct E1 as [-> ->]. clear H1.
  apply sbind_ok in H. destruct H as ([l2 h2] & H2 & H).
  assert (E2 : l2 = lab /\ h2 = he).
  { destruct (last_opt lab) as [x|]; [|inversion H2; split; reflexivity].
    destruct (x =? HYPHEN); [discriminate|]. inversion H2; split; reflexivity. }
  destruct E2 as [-> ->]. clear H2.
  destruct a; [inversion H; split; reflexivity|].
  destruct ((4 <=? len lab) && (nth 2 lab 0 =? HYPHEN) && (nth 3 lab 0 =? HYPHEN)); [discriminate|].
  inversion H; split; reflexivity.
Qed.

Section Inner.
Variable A : adapter.
Variable cfg : bool.
Variable deny : N.
Hypothesis HU : DenyUpper deny.
Hypothesis HL : LdhFree deny.

Lemma contextj_true rest : forall rhead he l he', contextj A cfg true rhead rest he = SOk (l, he') ->
  l = rev rhead ++ rest /\ he' = he.
Proof.
  induction rest as [|c tail IH]; intros rhead he l he' H; cbn [contextj] in H.
  - inversion H. rewrite app_nil_r. split; reflexivity.
  - assert (Hgo : forall H0 : contextj A cfg true (c :: rhead) tail he = SOk (l, he'), l = rev rhead ++ c :: tail /\ he' = he).
    { intros H0. destruct (IH _ _ _ _ H0) as [-> ->]. cbn [rev]. rewrite <- app_assoc. split; reflexivity. }
    destruct (negb (in_inclusive_range32 c T_IDNA_JOINER_LO T_IDNA_JOINER_HI)); [exact (Hgo H)|].
    destruct rhead as [|p rh]; [discriminate|].
    destruct (is_virama A p); [exact (Hgo H)|].
    destruct (c =? 8205); [discriminate|].
    destruct (cfg && negb (c =? 8204)); [discriminate|].
    destruct (negb (has_appropriately_joining_char A false (p :: rh)) || negb (has_appropriately_joining_char A true tail));
      [discriminate|exact (Hgo H)].
Qed.

Lemma check_label_true hy lab he fcm ncj l' he' :
  check_label A cfg true hy lab he fcm ncj = SOk (l', he') -> l' = lab /\ he' = he.
Proof.
  unfold check_label. intros H.
  apply sbind_ok in H. destruct H as ([l1 h1] & H1 & H).
  assert (E1 : l1 = lab /\ h1 = he).
  { destruct (negb (hy_is_allow hy)); [exact (check_hyphens_true _ _ _ _ _ H1)|inversion H1; split; reflexivity]. }
  destruct E1 as [-> ->]. clear H1.
  apply sbind_ok in H. destruct H as ([l2 h2] & H2 & H).
  assert (E2 : l2 = lab /\ h2 = he).
  { destruct fcm; [|inversion H2; split; reflexivity].
    destruct lab as [|f r]; [inversion H2; split; reflexivity|].
    destruct (is_mark A f); [discriminate|inversion H2; split; reflexivity]. }
  destruct E2 as [-> ->]. clear H2.
  apply sbind_ok in H. destruct H as ([l3 h3] & H3 & H).
  assert (E3 : l3 = lab /\ h3 = he).
  { destruct ncj; [|inversion H3; split; reflexivity]. exact (contextj_true _ _ _ _ _ H3). }
  destruct E3 as [-> ->]. clear H3.
  destruct (negb (is_ascii_l lab) && (PUNYCODE_ENCODE_MAX_INPUT_LENGTH <? len lab)); [discriminate|].
  inversion H; split; reflexivity.
Qed.

(* ---- after_punycode_decode ---- *)
Lemma zip_mark_none n : forall l, zip_mark n l = None -> (exists t, l = n ++ t) \/ (exists t, n = l ++ t).
Proof.
  induction n as [|x nr IH]; intros l H.
  - left. exists l. reflexivity.
  - destruct l as [|y lr]; [right; exists (x :: nr); reflexivity|].
    cbn [zip_mark] in H. destruct (x =? y) eqn:E; [|discriminate]. apply N.eqb_eq in E. subst y.
    destruct (zip_mark nr lr) as [m|] eqn:Ez; [discriminate|].
    destruct (IH lr Ez) as [[t ->]|[t ->]]; [left|right]; exists t; reflexivity.
Qed.

Lemma okc_map_lower m l : Forall (okc deny) (map (apply_lower (N.lor deny m)) l).
Proof. apply Forall_forall. intros x Hx. apply in_map_iff in Hx. destruct Hx as (c & <- & _). apply apply_lower_okc. Qed.

Lemma apd_true m lb he cur he' : after_punycode_decode A true (N.lor deny m) lb he = SOk (cur, he') ->
  he' = he /\ cur = normalize_validate A lb /\ Forall (okc deny) cur /\ zip_mark cur lb = None.
Proof.
  unfold after_punycode_decode. intros H.
  apply sbind_ok in H. destruct H as ([nz h1] & H1 & H).
  apply scan_true in H1. destruct H1 as (-> & -> & Hf).
  destruct (zip_mark (map (apply_lower (N.lor deny m)) (normalize_validate A lb)) lb) as [mk|] eqn:Ez; [discriminate|].
  inversion H. subst cur he'. repeat split.
  - apply map_apply_lower_id. exact Hf.
  - apply okc_map_lower.
  - exact Ez.
Qed.

(* under NvNoTrunc every character of the decoded text is in the accepted (normalised) text *)
Lemma apd_in m lb he cur he' : NvNoTrunc A ->
  after_punycode_decode A true (N.lor deny m) lb he = SOk (cur, he') -> forall c, In c lb -> okc deny c.
Proof.
  intros HN H c Hc. destruct (apd_true _ _ _ _ _ H) as (_ & Hcur & Hok & Hz).
  rewrite Forall_forall in Hok. apply Hok.
  destruct (zip_mark_none _ _ Hz) as [[t Ht]|[t Ht]].
  - rewrite Hcur in Ht. pose proof (HN lb t Ht) as ->. rewrite app_nil_r in Ht. rewrite Hcur, <- Ht. exact Hc.
  - rewrite Ht. apply in_or_app. left. exact Hc.
Qed.

(* ---- end_sublabel / sublabels ---- *)
Definition entry_ok_pre (e : aal) : Prop :=
  match e with MixedCaseAscii m => lowclean deny m | MixedCasePunycode m => lowclean deny m | AalOther => True end.
Lemma end_sublabel_okc hy m cur he fcm ncj lab he' : Forall (okc deny) cur ->
  end_sublabel A cfg true hy (N.lor deny m) cur he fcm ncj = SOk (lab, he') -> Forall (okc deny) lab.
Proof.
  intros Hc. unfold end_sublabel.
  destruct (starts_with cur XN_PREFIX).
  2:{ intros H. apply check_label_true in H. destruct H as [-> _]. exact Hc. }
  intros H. cbv zeta in H. apply sbind_ok in H. destruct H as ([t h1] & H1 & H).
  apply scan_true in H1. destruct H1 as (-> & -> & Hna). rewrite firstn_skipn in H. rewrite Hna in H.
  destruct (last_opt cur) as [lst|]; [|discriminate].
  apply sbind_ok in H. destruct H as ([[c2 h2] p2] & H2 & H).
  destruct (lst =? HYPHEN); [discriminate|]. inversion H2. subst c2 h2 p2. clear H2.
  apply sbind_ok in H. destruct H as ([[c3 h3] p3] & H3 & H).
  destruct (PUNYCODE_DECODE_MAX_INPUT_LENGTH <? len cur - 4); [discriminate|]. inversion H3. subst c3 h3 p3. clear H3.
  cbn [negb] in H.
  destruct (decode_with cfg CharInternal (skipn 4 cur)) as [decoded| |s]; try discriminate.
  apply sbind_ok in H. destruct H as ([c4 h4] & H4 & H).
  apply check_label_true in H. destruct H as [-> _].
  exact (proj1 (proj2 (proj2 (apd_true _ _ _ _ _ H4)))).
Qed.

Lemma sublabels_ff hy m rest : forall s db cur he ap fcm ncj db' he' ap',
  sublabels A cfg true hy (N.lor deny m) s rest db cur he ap fcm ncj = SOk (db', he', ap') ->
  Forall (okc deny) db -> Forall (okc deny) cur -> Forall (okc deny) s -> Forall (Forall (okc deny)) rest ->
  Forall (okc deny) db' /\ exists k, ap' = ap ++ repeat AalOther k.
Proof.
  induction rest as [|s2 rest IH]; intros s db cur he ap fcm ncj db' he' ap' H Hdb Hcur Hs Hrest; cbn [sublabels] in H.
  - apply sbind_ok in H. destruct H as ([s1 h1] & H1 & H). apply scan_true in H1. destruct H1 as (-> & -> & _).
    apply sbind_ok in H. destruct H as ([lab h2] & H2 & H).
    apply end_sublabel_okc in H2; [|apply Forall_app; split; assumption].
    inversion H. subst. split; [apply Forall_app; split; assumption|]. exists 0%nat. cbn [repeat]. rewrite app_nil_r. reflexivity.
  - apply sbind_ok in H. destruct H as ([s1 h1] & H1 & H). apply scan_true in H1. destruct H1 as (-> & -> & _).
    apply sbind_ok in H. destruct H as ([lab h2] & H2 & H).
    apply end_sublabel_okc in H2; [|apply Forall_app; split; assumption].
    inversion Hrest as [|? ? Hs2 Hr]; subst.
    destruct (IH _ _ _ _ _ _ _ _ _ _ H) as [Hd (k & ->)]; try assumption.
    + apply Forall_app. split; [exact Hdb|]. apply Forall_app. split; [exact H2|].
      constructor; [apply clean_okc, dot_clean; exact HL|constructor].
    + constructor.
    + split; [exact Hd|]. exists (Datatypes.S k). cbn [repeat]. rewrite <- app_assoc. reflexivity.
Qed.

Lemma repeat_other_ok k : Forall entry_ok_pre (repeat AalOther k).
Proof. induction k as [|k IH]; cbn [repeat]; constructor; [exact I|exact IH]. Qed.

(* ---- label_nonempty ---- *)
Definition entry_ok : aal -> Prop := entry_ok_pre.
Definition AllMixedClean (ap : list aal) : Prop := Forall entry_ok ap.

Definition ext_ok (label : list N) (ap ap' : list aal) : Prop :=
  ap' = ap ++ [MixedCaseAscii label] \/ ap' = ap ++ [MixedCasePunycode label] \/ exists more, ap' = ap ++ AalOther :: more.

Lemma split_ascii_app label a n : split_ascii_fast_path_prefix label = (a, n) -> label = a ++ n.
Proof.
  unfold split_ascii_fast_path_prefix. destruct (position (fun b => negb (is_ascii_cp b)) label) as [[|p]|];
    intros H; inversion H; subst.
  - reflexivity.
  - symmetry. apply firstn_skipn.
  - symmetry. apply app_nil_r.
Qed.

Lemma okc_map_upper ascii : bytes ascii -> Forall (okc deny) (map (apply_upper deny) ascii).
Proof.
  intros Hb. apply Forall_forall. intros x Hx. apply in_map_iff in Hx. destruct Hx as (b & <- & Hin).
  unfold bytes in Hb. rewrite Forall_forall in Hb. apply apply_upper_okc; [exact HL|exact (Hb b Hin)].
Qed.

Lemma lowclean_upper ascii : Forall (fun b => b < 128) ascii ->
  existsb is_fffd (map (apply_upper deny) ascii) = false -> lowclean deny ascii.
Proof.
  intros Ha Hf. apply Forall_forall. intros b Hb. rewrite Forall_forall in Ha.
  apply apply_upper_lowclean; [exact HU|exact HL|exact (Ha b Hb)|].
  intros Hq. pose proof (existsb_false_in is_fffd _ (apply_upper deny b) Hf (in_map _ _ _ Hb)) as Hx.
  unfold is_fffd in Hx. rewrite Hq, N.eqb_refl in Hx. discriminate.
Qed.

Lemma complexT_ff hy label db he ap ascii db' he' ap' : bytes ascii -> Forall (fun b => b < 128) ascii ->
  complexT true hy deny label db he ap ascii = SOk (db', he', ap') -> Forall (okc deny) db ->
  Forall (okc deny) db' /\ lowclean deny ascii /\ ap' = ap ++ [if he then AalOther else MixedCaseAscii label].
Proof.
  intros Hb Ha H Hdb. unfold complexT in H.
  apply sbind_ok in H. destruct H as ([c1 h1] & H1 & H). apply scan_true in H1. destruct H1 as (-> & -> & Hf).
  apply sbind_ok in H. destruct H as ([c2 h2] & H2 & H).
  assert (E : c2 = map (apply_upper deny) ascii /\ h2 = he).
  { destruct (negb (hy_is_allow hy)); [exact (check_hyphens_true _ _ _ _ _ H2)|inversion H2; split; reflexivity]. }
  destruct E as [-> ->]. inversion H. subst. repeat split.
  - apply Forall_app. split; [exact Hdb|exact (okc_map_upper ascii Hb)].
  - exact (lowclean_upper ascii Ha Hf).
Qed.

Lemma complexF_ff hy db he ap ascii non_ascii db' he' ap' : bytes ascii ->
  complexF A cfg true hy deny db he ap ascii non_ascii = SOk (db', he', ap') -> Forall (okc deny) db ->
  Forall (okc deny) db' /\ exists k, ap' = ap ++ AalOther :: repeat AalOther k.
Proof.
  intros Hb H Hdb. unfold complexF in H.
  apply sbind_ok in H. destruct H as ([c1 h1] & H1 & H). apply scan_true in H1. destruct H1 as (-> & -> & Hf).
  destruct (split1 DOT (map (apply_lower deny) (map_normalize A (utf8_lossy non_ascii)))) as [s rest] eqn:Es.
  assert (Hm : Forall (okc deny) (map (apply_lower deny) (map_normalize A (utf8_lossy non_ascii)))).
  { apply Forall_forall. intros x Hx. apply in_map_iff in Hx. destruct Hx as (c & <- & _). apply apply_lower_okc0. }
  destruct (split1_Forall _ _ _ _ _ Hm Es) as [Hs Hr].
  destruct (sublabels_ff _ _ _ _ _ _ _ _ _ _ _ _ _ H Hdb (okc_map_upper ascii Hb) Hs Hr) as [Hd (k & ->)].
  split; [exact Hd|]. exists k. rewrite <- app_assoc. reflexivity.
Qed.

(* the accepted MixedCasePunycode label, lower-cased, is clean *)
Lemma puny_label_lowclean ascii decoded m he cur he' : NvNoTrunc A -> Forall (fun b => b < 128) ascii ->
  has_punycode_prefix ascii = true ->
  decode_with cfg U8Internal (skipn 4 ascii) = Ok decoded ->
  after_punycode_decode A true (N.lor deny m) decoded he = SOk (cur, he') ->
  lowclean deny ascii.
Proof.
  intros HN Ha Hp Hd Hapd.
  destruct (xn_prefix_spec ascii Ha Hp) as (a & b & r & -> & Xa & Xb).
  cbn [skipn] in Hd. apply decode_with_chars in Hd; [|reflexivity].
  inversion Ha as [|? ? _ Ha1]; subst. inversion Ha1 as [|? ? _ Ha2]; subst.
  inversion Ha2 as [|? ? _ Ha3]; subst. inversion Ha3 as [|? ? _ Har]; subst.
  unfold lowclean.
  constructor; [destruct Xa as [-> | ->]; apply ldh_clean; try exact HL; reflexivity|].
  constructor; [destruct Xb as [-> | ->]; apply ldh_clean; try exact HL; reflexivity|].
  constructor; [apply ldh_clean; try exact HL; reflexivity|].
  constructor; [apply ldh_clean; try exact HL; reflexivity|].
  apply Forall_forall. intros c Hc. rewrite Forall_forall in Hd, Har.
  pose proof (Har c Hc) as Hlt.
  destruct (Hd c Hc) as [Hin|[Hdel|Hdig]].
  - cbn [inst_base_char] in Hin. apply okc_clean.
    + unfold to_lower, is_upper. destruct ((65 <=? c) && (c <=? 90)) eqn:E; lia.
    + exact (apd_in _ _ _ _ _ HN Hapd _ Hin).
  - subst c. apply ldh_clean; [exact HL|reflexivity].
  - cbn [inst_digit] in Hdig. apply ldh_clean; [exact HL|exact (digit_u8_lower c Hdig)].
Qed.

Lemma label_nonempty_ff hy label db he ap db' he' ap' : NvNoTrunc A -> bytes label ->
  Forall (okc deny) db -> AllMixedClean ap ->
  label_nonempty A cfg true hy deny label db he ap = SOk (db', he', ap') ->
  Forall (okc deny) db' /\ AllMixedClean ap' /\ ext_ok label ap ap'.
Proof.
  intros HN Hb Hdb Hap H. rewrite label_nonempty_eq in H.
  destruct (split_ascii_fast_path_prefix label) as [ascii non_ascii] eqn:Es.
  pose proof (split_ascii_app _ _ _ Es) as Hlab.
  assert (Hba : bytes ascii).
  { unfold bytes in *. rewrite Hlab in Hb. apply Forall_app in Hb. exact (proj1 Hb). }
  assert (HF : forall H0 : complexF A cfg true hy deny db he ap ascii non_ascii = SOk (db', he', ap'),
            Forall (okc deny) db' /\ AllMixedClean ap' /\ ext_ok label ap ap').
  { intros H0. destruct (complexF_ff _ _ _ _ _ _ _ _ _ Hba H0 Hdb) as [Hd (k & ->)].
    split; [exact Hd|]. split.
    - apply Forall_app. split; [exact Hap|]. constructor; [exact I|exact (repeat_other_ok k)].
    - right; right. exists (repeat AalOther k). reflexivity. }
  destruct non_ascii as [|na nr]; [|exact (HF H)].
  rewrite app_nil_r in Hlab. subst ascii.
  pose proof (split_ascii_all label label Es) as Ha.
  destruct (has_punycode_prefix label) eqn:Ep.
  - destruct (negb match last_opt label with Some l => l =? HYPHEN | None => false end
              && (len label - 4 <=? PUNYCODE_DECODE_MAX_INPUT_LENGTH)); [|discriminate].
    destruct (decode_with cfg U8Internal (skipn 4 label)) as [decoded| |s] eqn:Ed; try discriminate.
    apply sbind_ok in H. destruct H as ([c1 h1] & H1 & H).
    apply sbind_ok in H. destruct H as ([c2 h2] & H2 & H).
    apply check_label_true in H2. destruct H2 as [-> ->]. inversion H. subst db' he' ap'.
    split; [apply Forall_app; split; [exact Hdb|exact (proj1 (proj2 (proj2 (apd_true _ _ _ _ _ H1))))]|].
    split; [|right; left; reflexivity].
    apply Forall_app. split; [exact Hap|]. constructor; [|constructor].
    exact (puny_label_lowclean label decoded _ _ _ _ HN Ha Ep Ed H1).
  - destruct (complexT_ff _ _ _ _ _ _ _ _ _ Hba Ha H Hdb) as (Hd & Hlc & ->).
    split; [exact Hd|]. split.
    + apply Forall_app. split; [exact Hap|]. constructor; [|constructor]. destruct he; [exact I|exact Hlc].
    + destruct he; [right; right; exists []; reflexivity|left; reflexivity].
Qed.

(* ---- the positional invariant through the label loop ---- *)
Fixpoint mp_ok (ap : list aal) (done : list (list N)) : Prop :=
  match ap with
  | [] => done = []
  | MixedCaseAscii m :: ap' => match done with [] => False | x :: done' => x = m /\ mp_ok ap' done' end
  | MixedCasePunycode m :: ap' => match done with [] => False | x :: done' => x = m /\ mp_ok ap' done' end
  | AalOther :: _ => True
  end.

Lemma mp_ok_snoc_mixed e l ap : (e = MixedCaseAscii l \/ e = MixedCasePunycode l) ->
  forall done, mp_ok ap done -> mp_ok (ap ++ [e]) (done ++ [l]).
Proof.
  intros He. induction ap as [|x ap IH]; intros done H; cbn [mp_ok app] in *.
  - subst done. destruct He as [-> | ->]; cbn [mp_ok app]; split; reflexivity.
  - destruct x as [m|m|]; [| |exact I];
      (destruct done as [|y done']; [contradiction|]; destruct H as [-> H]; cbn [app]; split; [reflexivity|exact (IH _ H)]).
Qed.
Lemma mp_ok_snoc_other more x ap : forall done, mp_ok ap done -> mp_ok (ap ++ AalOther :: more) (done ++ x).
Proof.
  induction ap as [|e ap IH]; intros done H; cbn [mp_ok app] in *.
  - exact I.
  - destruct e as [m|m|]; [| |exact I];
      (destruct done as [|y done']; [contradiction|]; destruct H as [-> H]; cbn [app]; split; [reflexivity|exact (IH _ H)]).
Qed.
Lemma mp_ok_ext label ap ap' done : ext_ok label ap ap' -> mp_ok ap done -> mp_ok ap' (done ++ [label]).
Proof.
  intros [->|[->|(more & ->)]] H.
  - apply mp_ok_snoc_mixed; [left; reflexivity|exact H].
  - apply mp_ok_snoc_mixed; [right; reflexivity|exact H].
  - apply mp_ok_snoc_other. exact H.
Qed.

Variable d : list N.
Hypothesis Hd : bytes d.

Definition LInv (s : ist) (todo : list (list N)) : Prop :=
  Forall (okc deny) (i_db s) /\ AllMixedClean (i_ap s) /\
  exists P, len P = i_ptu s /\ Forall (clean deny) P /\
    if i_inpre s then d = P ++ tailtext (i_seen s) todo /\ i_ap s = []
    else exists done, d = P ++ join_dots (done ++ todo) /\ mp_ok (i_ap s) done.

Lemma tailtext_cons seen label todo :
  tailtext seen (label :: todo) = (if seen then [DOT] else []) ++ label ++ tailtext true todo.
Proof. destruct seen; cbn [tailtext]; rewrite join_dots_cons; reflexivity. Qed.

(* entering the non-passthrough part (or continuing in it) with `label` *)
Lemma LInv_enter s label todo : LInv s (label :: todo) ->
  exists P done0, len P = (if i_seen s && i_inpre s then i_ptu s + 1 else i_ptu s) /\ Forall (clean deny) P /\
    d = P ++ join_dots ((done0 ++ [label]) ++ todo) /\ mp_ok (i_ap s) done0 /\ bytes label.
Proof.
  intros (_ & _ & P & HP & Hc & H).
  destruct (i_inpre s).
  - destruct H as [Hdd Hap]. rewrite Hap. rewrite tailtext_cons in Hdd.
    assert (Hbl : bytes label).
    { unfold bytes in *. rewrite Hdd in Hd. apply Forall_app in Hd. destruct Hd as [_ H2].
      apply Forall_app in H2. destruct H2 as [_ H2]. apply Forall_app in H2. exact (proj1 H2). }
    destruct (i_seen s); cbn [andb].
    + exists (P ++ [DOT]), []. repeat split.
      * rewrite len_app, HP. reflexivity.
      * apply Forall_app. split; [exact Hc|]. constructor; [exact (dot_clean deny HL)|constructor].
      * cbn [app]. rewrite join_dots_cons. rewrite <- app_assoc. exact Hdd.
      * exact Hbl.
    + exists P, []. repeat split; try assumption. cbn [app]. rewrite join_dots_cons. exact Hdd.
  - destruct H as (done & Hdd & Hm). rewrite andb_false_r.
    exists P, done. repeat split; try assumption.
    + rewrite <- app_assoc. exact Hdd.
    + unfold bytes in *. rewrite Hdd in Hd. apply Forall_app in Hd. destruct Hd as [_ H2].
      assert (G : forall ls, Forall is_byte (join_dots ls) -> forall x, In x ls -> Forall is_byte x).
      { clear. induction ls as [|l r IH]; intros H x Hx; [destruct Hx|].
        rewrite join_dots_cons in H. apply Forall_app in H. destruct H as [H1 H2].
        destruct Hx as [->|Hx]; [exact H1|]. apply IH; [|exact Hx].
        destruct r; [constructor|]. cbn [tailtext] in H2. inversion H2. assumption. }
      apply (G _ H2). apply in_or_app. right. left. reflexivity.
Qed.

Lemma label_step_inv hy label s s' todo : NvNoTrunc A -> LInv s (label :: todo) ->
  label_step A cfg true hy deny label s = SOk s' -> LInv s' todo.
Proof.
  intros HN HI H. unfold label_step in H.
  destruct (i_inpre s && is_passthrough_ascii_label label) eqn:Ec.
  - (* passthrough label *)
    apply andb_true_iff in Ec. destruct Ec as [Epre Epass].
    inversion H. clear H. subst s'.
    destruct HI as (Hdb & Hap & P & HP & Hc & HH). rewrite Epre in HH. destruct HH as [Hdd Hnil].
    unfold LInv. cbn [i_db i_ap i_ptu i_inpre i_seen].
    split; [exact Hdb|]. split; [exact Hap|].
    rewrite tailtext_cons in Hdd.
    assert (Hbl : bytes label).
    { unfold bytes in *. rewrite Hdd in Hd. apply Forall_app in Hd. destruct Hd as [_ H2].
      apply Forall_app in H2. destruct H2 as [_ H2]. apply Forall_app in H2. exact (proj1 H2). }
    exists (P ++ (if i_seen s then [DOT] else []) ++ label). repeat split.
    + rewrite !len_app, HP. destruct (i_seen s); cbn [len List.length]; unfold len; cbn [List.length]; lia.
    + apply Forall_app. split; [exact Hc|]. apply Forall_app. split.
      * destruct (i_seen s); [constructor; [exact (dot_clean deny HL)|constructor]|constructor].
      * exact (passthrough_clean deny label HL Hbl Epass).
    + rewrite <- !app_assoc. exact Hdd.
    + exact Hnil.
  - destruct (LInv_enter s label todo HI) as (P & done0 & HP & Hc & Hdd & Hm & Hbl).
    destruct HI as (Hdb & Hap & _).
    assert (Hdb2 : Forall (okc deny) (if i_seen s && negb (i_inpre s) then i_db s ++ [DOT] else i_db s)).
    { destruct (i_seen s && negb (i_inpre s)); [|exact Hdb]. apply Forall_app. split; [exact Hdb|].
      constructor; [apply clean_okc, dot_clean; exact HL|constructor]. }
    destruct label as [|b r].
    + inversion H. clear H. subst s'. unfold LInv. cbn [i_db i_ap i_ptu i_inpre i_seen].
      split; [exact Hdb2|]. split.
      { apply Forall_app. split; [exact Hap|]. constructor; [constructor|constructor]. }
      exists P. split; [exact HP|]. split; [exact Hc|]. exists (done0 ++ [[]]). split; [exact Hdd|].
      apply mp_ok_snoc_mixed; [left; reflexivity|exact Hm].
    + apply sbind_ok in H. destruct H as ([[db1 he1] ap1] & H1 & H). inversion H. clear H. subst s'.
      destruct (label_nonempty_ff _ _ _ _ _ _ _ _ HN Hbl Hdb2 Hap H1) as (Hd1 & Ha1 & Hext).
      unfold LInv. cbn [i_db i_ap i_ptu i_inpre i_seen].
      split; [exact Hd1|]. split; [exact Ha1|].
      exists P. split; [exact HP|]. split; [exact Hc|]. exists (done0 ++ [b :: r]). split; [exact Hdd|].
      exact (mp_ok_ext _ _ _ _ Hext Hm).
Qed.

Lemma labels_loop_inv hy labels : NvNoTrunc A -> forall s s', LInv s labels ->
  labels_loop A cfg true hy deny labels s = SOk s' -> LInv s' [].
Proof.
  intros HN. induction labels as [|l r IH]; intros s s' HI H; cbn [labels_loop] in H.
  - inversion H. subst. exact HI.
  - apply sbind_ok in H. destruct H as (s1 & H1 & H). exact (IH _ _ (label_step_inv _ _ _ _ _ HN HI H1) H).
Qed.

(* ---- the bidi pass changes nothing in fail-fast mode ---- *)
Lemma trim_nsm_rev_spec rtail : forall nsms p l n, trim_nsm_rev A rtail nsms = Some (p, l, n) ->
  rev rtail ++ nsms = p ++ l :: n.
Proof.
  induction rtail as [|x rprior IH]; intros nsms p l n H; cbn [trim_nsm_rev] in H; [discriminate|].
  destruct (bc_nsm (bidi_class A x)).
  - rewrite <- (IH _ _ _ _ H). cbn [rev]. rewrite <- app_assoc. reflexivity.
  - inversion H. subst. cbn [rev]. rewrite <- app_assoc. reflexivity.
Qed.
Lemma trim_nsm_spec tail p l n : trim_nsm A tail = Some (p, l, n) -> tail = p ++ l :: n.
Proof.
  unfold trim_nsm. intros H. apply trim_nsm_rev_spec in H. rewrite rev_involutive, app_nil_r in H. exact H.
Qed.

Lemma rtl_middle_true prior : forall ns he p' he' ns', rtl_middle A true prior ns he = SOk (p', he', ns') ->
  p' = prior /\ he' = he.
Proof.
  induction prior as [|c r IH]; intros ns he p' he' ns' H; cbn [rtl_middle] in H.
  - inversion H. split; reflexivity.
  - destruct (negb (bc_mid_rtl (bidi_class A c))); [discriminate|].
    destruct ns.
    + apply cons3_ok in H. destruct H as (l0 & H & ->). destruct (IH _ _ _ _ _ H) as [-> ->]. split; reflexivity.
    + destruct (bc_an (bidi_class A c)); [discriminate|].
      apply cons3_ok in H. destruct H as (l0 & H & ->). destruct (IH _ _ _ _ _ H) as [-> ->]. split; reflexivity.
    + destruct (bc_en (bidi_class A c)); [discriminate|].
      apply cons3_ok in H. destruct H as (l0 & H & ->). destruct (IH _ _ _ _ _ H) as [-> ->]. split; reflexivity.
Qed.

Lemma bidi_label_true label he l' he' : bidi_label A true label he = SOk (l', he') -> l' = label /\ he' = he.
Proof.
  unfold bidi_label. destruct label as [|first tail]; [intros H; inversion H; split; reflexivity|].
  destruct (negb (bc_first (bidi_class A first))); [discriminate|].
  destruct (trim_nsm A tail) as [[[prior last] nsms]|] eqn:Et; [|intros H; inversion H; split; reflexivity].
  apply trim_nsm_spec in Et. intros H.
  apply sbind_ok in H. destruct H as ([last1 h1] & H1 & H).
  assert (E1 : last1 = last /\ h1 = he).
  { destruct (negb (if bc_ltr (bidi_class A first) then bc_last_ltr (bidi_class A last) else bc_last_rtl (bidi_class A last)));
      [discriminate|inversion H1; split; reflexivity]. }
  destruct E1 as [-> ->]. clear H1.
  destruct (bc_ltr (bidi_class A first)).
  - apply sbind_ok in H. destruct H as ([p1 h2] & H2 & H). apply scan_true in H2. destruct H2 as (-> & -> & _).
    inversion H. subst. split; reflexivity.
  - apply sbind_ok in H. destruct H as ([[p1 h2] ns] & H2 & H). apply rtl_middle_true in H2. destruct H2 as [-> ->].
    destruct (match ns with European => bc_an (bidi_class A last) | Arabic => bc_en (bidi_class A last) | Undecided => false end);
      [discriminate|]. inversion H. subst. split; reflexivity.
Qed.

Lemma bidi_labels_true labels : forall he ls he', bidi_labels A true labels he = SOk (ls, he') -> ls = labels.
Proof.
  induction labels as [|l r IH]; intros he ls he' H; cbn [bidi_labels] in H.
  - inversion H. reflexivity.
  - apply sbind_ok in H. destruct H as ([l1 h1] & H1 & H). apply bidi_label_true in H1. destruct H1 as [-> ->].
    apply sbind_ok in H. destruct H as ([r1 h2] & H2 & H). apply IH in H2. subst r1. inversion H. reflexivity.
Qed.

(* ---- process_innermost / process_inner ---- *)
Definition InnerInv (ptu : N) (db : list N) (ap : list aal) : Prop :=
  Forall (okc deny) db /\ AllMixedClean ap /\
  exists P rl, d = P ++ join_dots rl /\ len P = ptu /\ Forall (clean deny) P /\ mp_ok ap rl.

Lemma LInv_final s : LInv s [] -> InnerInv (i_ptu s) (i_db s) (i_ap s).
Proof.
  intros (Hdb & Hap & P & HP & Hc & H). split; [exact Hdb|]. split; [exact Hap|].
  destruct (i_inpre s).
  - destruct H as [Hdd Hnil]. exists P, []. rewrite Hnil. repeat split; try assumption.
    rewrite Hdd. destruct (i_seen s); reflexivity.
  - destruct H as (done & Hdd & Hm). exists P, done. rewrite app_nil_r in Hdd. repeat split; assumption.
Qed.

Lemma process_innermost_ff hy tail pre ptu b he db ap : NvNoTrunc A ->
  d = pre ++ tail -> Forall (clean deny) pre ->
  process_innermost A cfg true hy deny d tail = IRes ptu b he db ap ->
  IRes ptu b he db ap = I_EXIT \/ InnerInv ptu db ap.
Proof.
  intros HN Hdd Hpre. unfold process_innermost.
  set (s0 := {| i_ptu := len d - len tail; i_seen := false; i_inpre := true; i_db := []; i_he := false; i_ap := [] |}).
  assert (H0 : LInv s0 (split_on DOT tail)).
  { unfold LInv, s0. cbn [i_db i_ap i_ptu i_inpre i_seen]. split; [constructor|]. split; [constructor|].
    exists pre. repeat split.
    - rewrite Hdd, len_app. lia.
    - exact Hpre.
    - cbn [tailtext]. rewrite join_split. exact Hdd. }
  destruct (labels_loop A cfg true hy deny (split_on DOT tail) s0) as [s| |p] eqn:El.
  - pose proof (LInv_final s (labels_loop_inv hy _ HN _ _ H0 El)) as HI.
    destruct (is_bidi A cfg (i_db s)) as [[|]| |p]; try discriminate.
    + destruct (bidi_labels A true (split_on DOT (i_db s)) (i_he s)) as [[ls he2]| |p] eqn:Eb.
      * apply bidi_labels_true in Eb. subst ls. rewrite join_split. intros H. inversion H. subst. right. exact HI.
      * intros H. left. symmetry. exact H.
      * discriminate.
    + intros H. inversion H. subst. right. exact HI.
  - intros H. left. symmetry. exact H.
  - discriminate.
Qed.

Theorem process_inner_ff hy ptu b he db ap : NvNoTrunc A ->
  process_inner A cfg true hy deny d = IRes ptu b he db ap ->
  IRes ptu b he db ap = I_EXIT \/ InnerInv ptu db ap.
Proof.
  intros HN. unfold process_inner. destruct (fast_tier d d) as [tail|] eqn:Ef.
  - destruct (fast_tier_some d Hd d tail Ef) as [->|(pre & Hdd & Hp)].
    + apply (process_innermost_ff hy d []); [exact HN|reflexivity|constructor].
    + apply (process_innermost_ff hy tail pre); [exact HN|exact Hdd|].
      eapply Forall_impl; [|exact Hp]. intros x. apply lower_or_dot_clean. exact HL.
  - intros H. inversion H. subst. right. split; [constructor|]. split; [constructor|].
    exists d, []. repeat split.
    + cbn [join_dots]. rewrite app_nil_r. reflexivity.
    + eapply Forall_impl; [|exact (fast_tier_none d Hd d Ef)]. intros x. apply lower_or_dot_clean. exact HL.
Qed.
End Inner.
