(* Proofs/C07_SpecInvU.v - a third invariant of the Standard's basic URL parser run without a base and without a state
   override on a scalar-value string: the host of the record is null, the empty host, or a result of the host parser ON A
   SCALAR-VALUE STRING, NON-EMPTY WHEN THE HOST IS NOT OPAQUE (hostU).  The buffer of the state machine is a
   scalar-value string in every state from which the host states are reached (needs_usv); the host and file host states
   never hand an empty buffer to the non-opaque host parser. *)
From Coq Require Import Bool ZArith Lia.
From RU Require Import Base.Prelude Spec.Whatwg Proofs.C02_Parts Proofs.C07_SpecInv.

Section InvU.
Variable shp : bool -> list N -> option spec_host.

Definition hostU (h : option spec_host) : Prop :=
  match h with
  | None => True
  | Some x => x = SEmpty \/ exists o s, usv_list s /\ (o = false -> s <> []) /\ host_parsing shp o s = Some x
  end.

Definition needs_usv (s : pstate) : bool :=
  match s with
  | StScheme | StPath | StOpaquePath | StQuery | StFragment | StPathStart | StPort => false
  | _ => true
  end.

Definition binv (m : machine) : Prop :=
  hostU (su_host (m_url m)) /\ (needs_usv (m_state m) = true -> usv_list (m_buf m)).

Definition res_binv (r : step_result) : Prop :=
  match r with
  | SCont m' => binv m'
  | SReturn u => hostU (su_host u)
  | SFailure _ => True
  end.

Definition copt_usv (c : option N) : Prop := match c with Some x => is_usv x | None => True end.

Lemma usv_snoc b x : usv_list b -> is_usv x -> usv_list (b ++ [x]).
Proof. intros Hb Hx. apply usv_app. split; [exact Hb|]. apply usv_cons. split; [exact Hx | constructor]. Qed.

Lemma list_eqb_nil_ne (b : list N) : list_eqb b [] = false -> b <> [].
Proof. destruct b; [discriminate | discriminate]. Qed.

Section Steps.
Variable input : list N.
Hypothesis Hin : usv_list input.

Notation stp := (step shp input None None).

Ltac red_m := cbn [res_binv]; unfold binv; cbn [m_url m_state m_buf goto set_url set_buf set_ptr dec_ptr inc_ptr push_buf set_at set_br set_pw needs_usv].

(* the host is unchanged (up to conversion) and the next state does not need the buffer / the buffer is empty or kept *)
Ltac keep HH HB :=
  red_m; try exact I;
  try (split; [exact HH | first [ intros X; discriminate X | intros _; constructor | intros _; exact HB ] ]).

Lemma binv_host m c : hostU (su_host (m_url m)) -> usv_list (m_buf m) -> copt_usv c -> res_binv (st_host shp None m c).
Proof.
  intros HH HB Hc. unfold st_host. cbv zeta. cbn [has_ov ov_is opt_is_some andb negb].
  destruct (cis c 58 && negb (m_br m)).
  - destruct (list_eqb (m_buf m) []) eqn:En; [exact I|].
    destruct (host_parsing shp (negb (is_special (m_url m))) (m_buf m)) as [h|] eqn:E; [|exact I].
    red_m. split; [|intros X; discriminate X]. cbn [su_host set_host]. right. eexists. eexists.
    split; [exact HB|]. split; [intros _; exact (list_eqb_nil_ne _ En) | exact E].
  - destruct (is_authority_end (m_url m) c).
    + destruct (is_special (m_url m) && list_eqb (m_buf m) []) eqn:En; [exact I|].
      destruct (host_parsing shp (negb (is_special (m_url m))) (m_buf m)) as [h|] eqn:E; [|exact I].
      red_m. split; [|intros X; discriminate X]. cbn [su_host set_host]. right. eexists. eexists.
      split; [exact HB|]. split; [|exact E].
      intros Hs. apply negb_false_iff in Hs. rewrite Hs in En. cbn [andb] in En. exact (list_eqb_nil_ne _ En).
    + destruct c as [x|]; [|keep HH HB]. cbn [copt_usv] in Hc.
      destruct (x =? 91); destruct (x =? 93); red_m; (split; [exact HH | intros _; exact (usv_snoc _ _ HB Hc)]).
Qed.

Lemma binv_file_host m c : hostU (su_host (m_url m)) -> usv_list (m_buf m) -> copt_usv c ->
  res_binv (st_file_host shp None m c).
Proof.
  intros HH HB Hc. unfold st_file_host. cbv zeta. cbn [has_ov opt_is_some negb andb].
  destruct (is_eof c || cis c 47 || cis c 92 || cis c 63 || cis c 35).
  - destruct (is_windows_drive_letter (m_buf m)); [keep HH HB|].
    destruct (list_eqb (m_buf m) []) eqn:En.
    + red_m. split; [left; reflexivity | intros X; discriminate X].
    + destruct (host_parsing shp (negb (is_special (m_url m))) (m_buf m)) as [h|] eqn:E; [|exact I].
      red_m. split; [|intros X; discriminate X]. cbn [su_host set_host].
      assert (h = SEmpty \/ exists o s, usv_list s /\ (o = false -> s <> []) /\ host_parsing shp o s = Some h) as K.
      { right. eexists. eexists. split; [exact HB|]. split; [intros _; exact (list_eqb_nil_ne _ En) | exact E]. }
      destruct h; try exact K.
      match goal with |- context [if ?c then _ else _] => destruct c end; [left; reflexivity | exact K].
  - destruct c as [x|]; [|keep HH HB]. cbn [copt_usv] in Hc. red_m. split; [exact HH | intros _; exact (usv_snoc _ _ HB Hc)].
Qed.

Lemma binv_authority m c : hostU (su_host (m_url m)) -> usv_list (m_buf m) -> copt_usv c -> res_binv (st_authority m c).
Proof.
  intros HH HB Hc. unfold st_authority. cbv zeta.
  destruct (cis c 64).
  - destruct (authority_credentials (if m_at m then [37; 52; 48] ++ m_buf m else m_buf m) (m_pw m) (m_url m))
      as [pw u1] eqn:E.
    red_m. pose proof (hp_authority_credentials (if m_at m then [37; 52; 48] ++ m_buf m else m_buf m) (m_pw m) (m_url m)) as K.
    rewrite E in K. cbn [snd] in K. destruct K as [K1 _]. rewrite K1. split; [exact HH | intros _; constructor].
  - destruct (is_authority_end (m_url m) c).
    + destruct (m_at m && list_eqb (m_buf m) []); [exact I|]. keep HH HB.
    + destruct c as [x|]; [|keep HH HB]. cbn [copt_usv] in Hc. red_m. split; [exact HH | intros _; exact (usv_snoc _ _ HB Hc)].
Qed.

Lemma hostU_same u v : su_host v = su_host u -> hostU (su_host u) -> hostU (su_host v).
Proof. intros ->. exact (fun H => H). Qed.

Ltac split_ifs :=
  repeat match goal with
         | |- context [if ?c then _ else _] => destruct c
         end.

Theorem step_binv m : binv m -> res_binv (stp m).
Proof.
  intros [HH HB]. unfold step. cbv zeta.
  assert (copt_usv (hd_error (substring_from input (m_ptr m)))) as Hc.
  { unfold substring_from. destruct (m_ptr m <? 0)%Z.
    - destruct input as [|x r]; [exact I|]. cbn. apply usv_cons in Hin. tauto.
    - destruct (skipn (Z.to_nat (m_ptr m)) input) as [|x r] eqn:E; [exact I|]. cbn.
      assert (In x input) as Hi.
      { rewrite <- (firstn_skipn (Z.to_nat (m_ptr m)) input). apply in_or_app. right. rewrite E. left. reflexivity. }
      exact (proj1 (Forall_forall _ _) Hin x Hi). }
  set (c := hd_error (substring_from input (m_ptr m))) in *.
  destruct (m_state m) eqn:Est; cbn [needs_usv] in HB.
  - specialize (HB eq_refl). unfold st_scheme_start. cbn [has_ov opt_is_some negb].
    destruct (cpred is_alpha c); [destruct c|]; red_m; rewrite ?Est; cbn [needs_usv]; try exact I;
      (split; [exact HH | first [intros X; discriminate X | intros _; exact HB]]).
  - unfold st_scheme. cbv zeta. cbn [has_ov opt_is_some andb negb].
    destruct (cpred is_scheme_cp c); [destruct c; red_m; rewrite ?Est; cbn [needs_usv]; (split; [exact HH | intros X; discriminate X])|].
    destruct (cis c 58).
    + split_ifs; red_m; rewrite ?Est; cbn [needs_usv]; try exact I; (split; [exact HH | first [intros X; discriminate X | intros _; constructor]]).
    + red_m; rewrite ?Est; cbn [needs_usv]. split; [exact HH | intros _; constructor].
  - exact I.
  - specialize (HB eq_refl). unfold st_special_relative_or_authority. split_ifs; keep HH HB.
  - specialize (HB eq_refl). unfold st_path_or_authority. split_ifs; keep HH HB.
  - exact I.
  - specialize (HB eq_refl). unfold st_relative_slash. cbv zeta. split_ifs; keep HH HB.
  - specialize (HB eq_refl). unfold st_special_authority_slashes. split_ifs; keep HH HB.
  - specialize (HB eq_refl). unfold st_special_authority_ignore_slashes. split_ifs; keep HH HB.
  - exact (binv_authority m c HH (HB eq_refl) Hc).
  - exact (binv_host m c HH (HB eq_refl) Hc).
  - exact (binv_host m c HH (HB eq_refl) Hc).
  - (* port: the next states do not need the buffer *)
    unfold st_port. cbv zeta. cbn [has_ov opt_is_some orb].
    destruct (cpred is_digit c); [destruct c; red_m; rewrite ?Est; cbn [needs_usv]; (split; [exact HH | intros X; discriminate X])|].
    rewrite orb_false_r. destruct (is_authority_end (m_url m) c); [|exact I].
    destruct (negb (list_eqb (m_buf m) [])); [|red_m; rewrite ?Est; cbn [needs_usv]; split; [exact HH | intros X; discriminate X]].
    destruct (65535 <? decimal_value (m_buf m)); [exact I|]. red_m; rewrite ?Est; cbn [needs_usv]. split; [exact HH | intros X; discriminate X].
  - specialize (HB eq_refl). unfold st_file. cbv zeta. cbn [base_is_file].
    destruct (cis c 47 || cis c 92); red_m; rewrite ?Est; cbn [needs_usv]; (split; [left; reflexivity | first [intros X; discriminate X | intros _; exact HB]]).
  - specialize (HB eq_refl). unfold st_file_slash. cbv zeta. cbn [base_is_file].
    destruct (cis c 47 || cis c 92); keep HH HB.
  - exact (binv_file_host m c HH (HB eq_refl) Hc).
  - unfold st_path_start. cbv zeta. cbn [has_ov opt_is_some negb andb].
    split_ifs; red_m; rewrite ?Est; cbn [needs_usv]; (split; [first [exact HH | apply (hostU_same (m_url m)); [apply hp_path_append | exact HH]] | intros X; discriminate X]).
  - pose proof (inv_path shp m c) as K. unfold st_path in *. cbv zeta in *. cbn [has_ov opt_is_some negb andb] in *.
    match goal with |- context [if ?b then _ else _] => destruct b end.
    2:{ destruct c; red_m; rewrite ?Est; cbn [needs_usv]; (split; [exact HH | intros X; discriminate X]). }
    (* the host is the old host in every branch: by the same case analysis as for the first invariant *)
    assert (forall v, su_host v = su_host (m_url m) -> hostU (su_host v)) as KH by (intros v A; rewrite A; exact HH).
    assert (forall v s, su_host v = su_host (m_url m) -> su_host (path_append v s) = su_host (m_url m)) as KA.
    { intros v s A. destruct (hp_path_append v s) as [A' _]. rewrite A'. exact A. }
    assert (su_host (shorten_path (m_url m)) = su_host (m_url m)) as KS by apply hp_shorten_path.
    clear K. split_ifs; red_m; rewrite ?Est; cbn [needs_usv]; (split; [|intros X; discriminate X]); apply KH;
      cbn [su_host Whatwg.set_query Whatwg.set_fragment];
      first [ apply KA; first [exact KS | reflexivity] | exact KS | reflexivity ].
  - unfold st_opaque_path. cbv zeta.
    destruct (cis c 63); [red_m; rewrite ?Est; cbn [needs_usv]; split; [exact HH | intros X; discriminate X]|].
    destruct (cis c 35); [red_m; rewrite ?Est; cbn [needs_usv]; split; [exact HH | intros X; discriminate X]|].
    destruct c; [|red_m; rewrite ?Est; cbn [needs_usv]; split; [exact HH | intros X; discriminate X]].
    destruct (su_path (m_url m)); red_m; rewrite ?Est; cbn [needs_usv]; (split; [exact HH | intros X; discriminate X]).
  - unfold st_query. cbv zeta. cbn [has_ov opt_is_some negb andb].
    destruct (cis c 35 || is_eof c); [|destruct c; red_m; rewrite ?Est; cbn [needs_usv]; (split; [exact HH | intros X; discriminate X])].
    destruct (cis c 35); red_m; rewrite ?Est; cbn [needs_usv]; (split; [exact HH | intros X; discriminate X]).
  - unfold st_fragment. cbv zeta. destruct c; red_m; rewrite ?Est; cbn [needs_usv]; (split; [exact HH | intros X; discriminate X]).
Qed.

Theorem run_binv fuel : forall m su, binv m -> run shp input None None fuel m = BDone su -> hostU (su_host su).
Proof.
  induction fuel as [|k IH]; intros m su H; [discriminate|]. cbn [run].
  pose proof (step_binv m H) as K.
  destruct (stp m) as [m'|u|u]; cbn [res_binv] in K; [|intros E; injection E as <-; exact K | discriminate].
  destruct (Z.of_nat (length input) <=? m_ptr m')%Z; [intros E; injection E as <-; exact (proj1 K)|].
  apply IH. unfold inc_ptr, set_ptr. destruct K as [K1 K2]. split; [exact K1 | exact K2].
Qed.

End Steps.

Lemma usv_drop_leading f l : usv_list l -> usv_list (drop_leading f l).
Proof.
  induction l as [|c r IH]; intros H; [exact H|]. cbn [drop_leading].
  destruct (f c); [|exact H]. apply usv_cons in H. exact (IH (proj2 H)).
Qed.

Lemma usv_filter (f : N -> bool) l : usv_list l -> usv_list (filter f l).
Proof.
  unfold usv_list. intros H. apply Forall_forall. intros x Hx. apply filter_In in Hx.
  exact (proj1 (Forall_forall _ _) H x (proj1 Hx)).
Qed.

(* every record the basic URL parser returns without a base for a scalar-value string *)
Theorem spec_parse_hostU input su : usv_list input -> spec_basic_url_parse shp input None = BDone su ->
  hostU (su_host su).
Proof.
  intros Hu. unfold spec_basic_url_parse. cbv zeta. apply run_binv.
  - apply usv_filter. unfold strip_leading_and_trailing, strip_trailing.
    apply usv_rev. apply usv_drop_leading. apply usv_rev. apply usv_drop_leading. exact Hu.
  - split; [exact I | intros _; constructor].
Qed.

End InvU.
