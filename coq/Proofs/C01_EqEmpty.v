(* Proofs/C01_EqEmpty.v - C01 equivalence for the empty reference (nothing left after cleaning)
   against a related base that can be a base: the base without its fragment, on both sides. *)
From RU Require Import Base.Prelude Base.Utf8 Base.Utf8Facts Model.AsciiSet Gen.Tables
  Model.PercentEncoding Model.HostT Model.UrlRecord Model.Parser Model.Setters Model.WF Model.KnownC08 Spec.Whatwg
  Proofs.ListN Proofs.C14_Enc Proofs.C02_Enc Proofs.C02_Parts Proofs.C02_Opaque
  Proofs.C03_WF Proofs.C06_List Proofs.C06_WFI Proofs.C06_Tail Proofs.C06_Steps Proofs.C01_Tables Proofs.C08_Input Proofs.C08_Simple
  Proofs.C01_EqRun Proofs.C01_EqEnc Proofs.C01_EqApi Proofs.C01_EqOpaque Proofs.C01_EqRef.

Section Empty.
Variable dbg : bool.
Variable hp hpo : list N -> result host.
Variable hd : host -> list N.
Variable shp : bool -> list N -> option spec_host.
Variable shs : spec_host -> list N.

Theorem spec_empty_ref input sb : spec_clean input = [] -> spec_valid sb -> has_opaque_path sb = false ->
  spec_basic_url_parse shp input (Some sb) = BDone (set_fragment sb None).
Proof.
  intros Hc [V1 V2] Hop. apply spec_parse_of_runs. rewrite Hc.
  apply runs_no_scheme; [reflexivity|].
  destruct (list_eqb (su_scheme sb) str_file) eqn:Ef.
  - apply list_eqb_spec in Ef. destruct (V2 Ef) as (Vu & Vp & Vpo).
    eapply (runs_step_restart shp [] (Some sb) StNoScheme [] [] false false false empty_url StFile [] false false false empty_url).
    + rewrite (step_unfold shp [] (Some sb) _ [] []) by reflexivity. cbn zeta. cbn [hd_error].
      unfold st_no_scheme. rewrite Hop, Ef, list_eqb_refl. cbn [cis andb negb]. reflexivity.
    + match goal with |- Runs _ _ _ _ (BDone ?x) =>
        eapply (R_end shp [] (Some sb)) with (m' := at_pos StFile [] [] false false false x)
      end; [|cbn [m_ptr at_pos length]; lia].
      rewrite (step_unfold shp [] (Some sb) _ [] []) by reflexivity. cbn zeta. cbn [hd_error tl].
      unfold st_file, base_is_file. rewrite Ef, list_eqb_refl. cbn [cis orb].
      unfold set_url, at_pos. cbn [m_state m_ptr m_buf m_at m_br m_pw]. do 2 f_equal.
      destruct sb; cbn in *; subst; reflexivity.
  - eapply (runs_step_restart shp [] (Some sb) StNoScheme [] [] false false false empty_url StRelative [] false false false empty_url).
    + rewrite (step_unfold shp [] (Some sb) _ [] []) by reflexivity. cbn zeta. cbn [hd_error].
      unfold st_no_scheme. rewrite Hop, Ef. cbn [cis andb negb]. reflexivity.
    + match goal with |- Runs _ _ _ _ (BDone ?x) =>
        eapply (R_end shp [] (Some sb)) with (m' := at_pos StRelative [] [] false false false x)
      end; [|cbn [m_ptr at_pos length]; lia].
      rewrite (step_unfold shp [] (Some sb) _ [] []) by reflexivity. cbn zeta. cbn [hd_error tl].
      unfold st_relative. cbn [cis andb is_eof negb]. rewrite andb_false_r.
      unfold set_url, at_pos. cbn [m_state m_ptr m_buf m_at m_br m_pw]. reflexivity.
Qed.

Theorem related_without_fragment b sb : related dbg shs b sb ->
  related dbg shs (without_fragment b) (set_fragment sb None).
Proof.
  intros [W A Bf Bq Cb Sc V].
  destruct (without_fragment_spec dbg b W) as (W' & SF & SM & Pth & Qy & Fr & Eqs & Efs & Es).
  destruct (accessors_reconcatenate dbg b W)
    as (sch & un & pw & hs & pth & q & f0 & Es1 & Eun & Epw & Ehs & Ept & Eq & Ef & _).
  pose proof (api_by_accessors dbg b W sch un pw hs pth q f0 Es1 Eun Epw Ehs Ept Eq Ef) as Ab.
  destruct SF as (S1 & S2 & S3 & S4 & S5).
  assert (api_of_model dbg (without_fragment b)
          = Some (api_of_parts (ser (without_fragment b)) sch un pw hs (port (without_fragment b)) pth q None)) as Ab'.
  { apply (api_by_accessors dbg _ W'); congruence. }
  rewrite A in Ab. unfold api_of_parts, spec_api_list in Ab.
  injection Ab as E1 E2 E3 E4 E5 E6 E7 E8 E9 E10.
  pose proof (before_fragment_len b W) as Lbf.
  pose proof (before_fragment_pre b) as Pbf.
  assert (agree_pre (nlen (b_before_fragment b)) (ser b) (ser (without_fragment b))) as Pre by (rewrite Es; exact Pbf).
  destruct SM as (M1 & M2 & M3 & M4 & M5 & M6 & M7).
  pose proof (path_start_le_before_query b W) as Lps.
  destruct (before_query_le_before_fragment b W) as [Lbq Pbq].
  destruct (wf_scheme_facts b W) as (Hse1 & Hcolon & Hselt).
  pose proof (wf_se_lt_ps b W) as Hseps.
  constructor.
  - exact W'.
  - rewrite Ab'. f_equal. unfold api_of_parts, spec_api_list. rewrite S5.
    apply list10_eq; [ | symmetry; exact E2 | symmetry; exact E3 | symmetry; exact E4 | symmetry; exact E5 | symmetry; exact E6
                       | symmetry; exact E7 | symmetry; exact E8 | symmetry; exact E9 | reflexivity ].
    rewrite Es, Bf. unfold get_href, serialize_url.
    cbn [su_scheme su_username su_password su_host su_port su_path su_query su_fragment set_fragment
         includes_credentials serialize_path].
    reflexivity.
  - unfold b_before_fragment at 1. rewrite Efs, Es. exact Bf.
  - transitivity (b_before_query b); [|exact Bq]. unfold b_before_query at 1. rewrite Eqs, Efs, Es.
    destruct (query_start b) as [qi|] eqn:Eqq.
    + unfold b_before_query in *. rewrite Eqq in *.
      pose proof (qf_q (wf_qf_facts b W)) as Q1. rewrite Eqq in Q1.
      rewrite nlen_nfirstn in Lbq by lia. unfold agree_pre in Pbq. rewrite nlen_nfirstn in Pbq by lia.
      rewrite nfirstn_nfirstn in Pbq by lia. symmetry. exact Pbq.
    + unfold b_before_query, b_before_fragment. rewrite Eqq. destruct (fragment_start b); reflexivity.
  - transitivity (cannot_be_a_base b); [|exact Cb].
    rewrite (cannot_be_a_base_eval _ W'), (cannot_be_a_base_eval _ W). do 2 f_equal.
    rewrite M1. unfold byte_eqb.
    destruct (N.ltb_spec (scheme_end b + 1) (nlen (b_before_fragment b))) as [Hlt|Hge].
    + rewrite (pre_nnth _ _ _ _ Pre Hlt). reflexivity.
    + assert (nlen (b_before_fragment b) = scheme_end b + 1) as El by lia.
      assert (nnth (ser (without_fragment b)) (scheme_end b + 1) = None) as ->.
      { rewrite Es. unfold nnth. apply nth_error_None. unfold nlen in El. lia. }
      unfold b_before_fragment in El. destruct (fragment_start b) as [fi|] eqn:Efs0.
      * pose proof (qf_f (wf_qf_facts b W)) as Q2. rewrite Efs0 in Q2. destruct Q2 as (Q2a & Q2b & Q2c).
        rewrite nlen_nfirstn in El by lia. subst fi. apply byte_eqb_nnth in Q2b. rewrite Q2b. reflexivity.
      * assert (nnth (ser b) (scheme_end b + 1) = None) as ->.
        { unfold nnth. apply nth_error_None. unfold nlen in El. lia. }
        reflexivity.
  - transitivity (b_scheme b); [|exact Sc]. unfold b_scheme. rewrite M1. apply (pre_firstn _ _ _ _ Pre). lia.
  - destruct V as [V1 V2]. split; [exact V1 | exact V2].
Qed.

Theorem eq_empty_ref input b sb : related dbg shs b sb -> has_opaque_path sb = false ->
  spec_clean input = [] ->
  exists su', spec_basic_url_parse shp input (Some sb) = BDone su'
    /\ exists u', parse_url dbg hp hpo hd None (Some b) input = POk u' /\ related dbg shs u' su'.
Proof.
  intros R Hop Hc. eexists. split; [exact (spec_empty_ref input sb Hc (rel_valid _ _ _ _ R) Hop)|].
  assert (ref_text input = []) as Hr by (rewrite ref_text_eq, <- spec_clean_is_ntnl_trim; exact Hc).
  assert (cannot_be_a_base b = Some false) as Hcb by (rewrite (rel_cbb _ _ _ _ R), Hop; reflexivity).
  eexists. split; [exact (join_empty dbg hp hpo hd b input Hcb Hr)|].
  apply related_without_fragment. exact R.
Qed.

End Empty.
