(* Proofs/C17_Body.v - the body bytes.  (1) Percent-decoding is blind to the percent-encoding the URL
   parser applies: decode (encode bs) = decode bs whenever no '%' and no hex digit is encoded (true of
   the C0-control and query sets).  (2) decode_without_base64 on the raw body is the Standard's
   percent-decode of the body with ASCII tab / newlines removed, unless a tab / newline sits inside
   an escape (F-C17-4). *)
From RU Require Import Base.Prelude Base.Utf8 Base.Utf8Facts Model.AsciiSet Gen.Tables Model.PercentEncoding
  Model.Base64 Model.KnownC17 Spec.Fetch
  Proofs.C14_Enc Proofs.C18_BodyRef.

(* ---- (1) ---- *)
(* a byte string in which some bytes are marked for encoding *)
Definition enc_marked (l : list (N * bool)) : list N :=
  flat_map (fun p : N * bool => if snd p then enc_byte_spec (fst p) else [fst p]) l.

Definition mark_ok (p : N * bool) : Prop :=
  snd p = true -> fst p < 256 /\ fst p <> 37 /\ ascii_hex_digit_value (fst p) = None.

Lemma hex_digit_upper d : d < 16 -> ascii_hex_digit_value (hex_upper d) = Some d.
Proof.
  intros H. unfold ascii_hex_digit_value, hex_upper. destruct (d <? 10) eqn:E.
  - replace ((48 <=? 48 + d) && (48 + d <=? 57)) with true by lia. f_equal. lia.
  - replace ((48 <=? 55 + d) && (55 + d <=? 57)) with false by lia.
    replace ((65 <=? 55 + d) && (55 + d <=? 70)) with true by lia. f_equal. lia.
Qed.

Lemma pd_cons_other b r : b <> 37 -> percent_decode (b :: r) = b :: percent_decode r.
Proof. intros H. cbn [percent_decode]. replace (b =? 37) with false by lia. reflexivity. Qed.

Lemma pd_escape b r : b < 256 -> percent_decode (enc_byte_spec b ++ r) = b :: percent_decode r.
Proof.
  intros H. unfold enc_byte_spec. cbn [app percent_decode]. change (37 =? 37) with true. cbn [negb].
  rewrite !hex_digit_upper by lia. f_equal. lia.
Qed.

(* what percent_decode does at a '%', by the two following bytes *)
Definition two_hex (r : list N) : bool :=
  match r with
  | h :: l :: _ => match ascii_hex_digit_value h, ascii_hex_digit_value l with Some _, Some _ => true | _, _ => false end
  | _ => false
  end.

Lemma pd_pct_no r : two_hex r = false -> percent_decode (37 :: r) = 37 :: percent_decode r.
Proof.
  intros H. cbn [percent_decode]. change (37 =? 37) with true. cbn [negb].
  destruct r as [|h [|l r']]; try reflexivity. cbn [two_hex] in H.
  destruct (ascii_hex_digit_value h); [destruct (ascii_hex_digit_value l)|]; try reflexivity. discriminate.
Qed.

Lemma pd_pct_yes h l r hv lv : ascii_hex_digit_value h = Some hv -> ascii_hex_digit_value l = Some lv ->
  percent_decode (37 :: h :: l :: r) = (hv * 16 + lv) :: percent_decode r.
Proof. intros H1 H2. cbn [percent_decode]. change (37 =? 37) with true. cbn [negb]. rewrite H1, H2. reflexivity. Qed.

(* the first two bytes of the marked encoding are two hex digits exactly when those of the plain text are *)
Lemma two_hex_marked l : Forall mark_ok l -> two_hex (enc_marked l) = two_hex (map fst l).
Proof.
  intros H. destruct l as [|[h mh] [|[x mx] r]].
  - reflexivity.
  - inversion H as [|? ? H1 _]; subst. cbn [enc_marked flat_map fst snd map app]. destruct mh.
    + reflexivity.
    + reflexivity.
  - inversion H as [|? ? H1 H2]; subst. inversion H2 as [|? ? H3 _]; subst.
    cbn [enc_marked flat_map fst snd map].
    destruct mh.
    + destruct (H1 eq_refl) as (_ & _ & Hh). cbn [fst] in Hh. unfold enc_byte_spec. cbn [app two_hex].
      change (ascii_hex_digit_value 37) with (@None N). rewrite Hh. reflexivity.
    + cbn [app]. destruct mx.
      * destruct (H3 eq_refl) as (_ & _ & Hx). cbn [fst] in Hx. unfold enc_byte_spec. cbn [app two_hex].
        change (ascii_hex_digit_value 37) with (@None N). rewrite Hx.
        destruct (ascii_hex_digit_value h); reflexivity.
      * cbn [app two_hex]. reflexivity.
Qed.

Theorem decode_marked : forall n l, (length l <= n)%nat -> Forall mark_ok l ->
  percent_decode (enc_marked l) = percent_decode (map fst l).
Proof.
  induction n as [|n IH]; intros l Hn Hok.
  - destruct l; [reflexivity|cbn [length] in Hn; lia].
  - destruct l as [|[b m] r]; [reflexivity|]. cbn [length] in Hn.
    inversion Hok as [|? ? H1 H2]; subst.
    change (enc_marked ((b, m) :: r)) with ((if m then enc_byte_spec b else [b]) ++ enc_marked r).
    cbn [map fst].
    destruct m.
    + destruct (H1 eq_refl) as (Hb & H37 & _). cbn [fst] in *.
      rewrite pd_escape by exact Hb. rewrite pd_cons_other by exact H37. f_equal. apply IH; [lia|exact H2].
    + cbn [app]. destruct (N.eq_dec b 37) as [->|Hne].
      2:{ rewrite !pd_cons_other by exact Hne. f_equal. apply IH; [lia|exact H2]. }
      destruct (two_hex (map fst r)) eqn:Et.
      * (* both hex digits are unmarked *)
        destruct r as [|[h mh] [|[l ml] r']]; try discriminate. cbn [map fst two_hex] in Et.
        destruct (ascii_hex_digit_value h) as [hv|] eqn:Eh; [|discriminate].
        destruct (ascii_hex_digit_value l) as [lv|] eqn:El; [|discriminate].
        inversion H2 as [|? ? H3 H4]; subst. inversion H4 as [|? ? H5 H6]; subst.
        assert (mh = false) as ->.
        { destruct mh; [|reflexivity]. destruct (H3 eq_refl) as (_ & _ & Hx). cbn [fst] in Hx. congruence. }
        assert (ml = false) as ->.
        { destruct ml; [|reflexivity]. destruct (H5 eq_refl) as (_ & _ & Hx). cbn [fst] in Hx. congruence. }
        cbn [enc_marked flat_map fst snd app map].
        rewrite !(pd_pct_yes h l _ hv lv Eh El). f_equal.
        apply IH; [cbn [length] in Hn; lia|exact H6].
      * rewrite pd_pct_no by (rewrite two_hex_marked by exact H2; exact Et).
        rewrite pd_pct_no by exact Et. f_equal. apply IH; [lia|exact H2].
Qed.

(* ---- (2) ---- *)
Definition not_tnl (c : N) : bool := negb (k17_tnl c).

Fixpoint before_hash (l : list N) : list N :=
  match l with
  | [] => []
  | c :: r => if c =? 35 then [] else c :: before_hash r
  end.

Definition clean_body (bs : list N) : list N := filter not_tnl (before_hash bs).

Lemma k17_next_false_direct r h r1 : k17_next false r = Some (h, false, r1) -> r = h :: r1 /\ k17_tnl h = false.
Proof.
  destruct r as [|c r]; cbn [k17_next]; [discriminate|].
  destruct (k17_tnl c) eqn:Et.
  - intros H. exfalso. clear Et. revert H. generalize r. clear.
    induction r as [|x r IH]; cbn [k17_next]; [discriminate|]. destruct (k17_tnl x); [exact IH|discriminate].
  - intros H. inversion H; subst. split; [reflexivity|exact Et].
Qed.

Lemma clean_body_cons c r :
  clean_body (c :: r) = if c =? 35 then [] else if k17_tnl c then clean_body r else c :: clean_body r.
Proof.
  unfold clean_body. cbn [before_hash]. destruct (c =? 35); [reflexivity|]. cbn [filter]. unfold not_tnl at 1.
  destruct (k17_tnl c); reflexivity.
Qed.

Lemma k17_next_clean r : forall sk,
  match k17_next sk r with
  | Some (h, _, r1) => k17_tnl h = false /\ clean_body r = (if h =? 35 then [] else h :: clean_body r1)
  | None => clean_body r = []
  end.
Proof.
  induction r as [|c r IH]; intros sk; cbn [k17_next]; [reflexivity|].
  rewrite clean_body_cons.
  destruct (k17_tnl c) eqn:Et.
  - replace (c =? 35) with false by (unfold k17_tnl in Et; lia). exact (IH true).
  - split; [exact Et|]. reflexivity.
Qed.

Lemma hex_same c : ascii_hex_digit_value c = hex_val c.
Proof. reflexivity. Qed.

Lemma is_hex_not_special c v : hex_val c = Some v -> (c =? 35) = false /\ (c =? 37) = false /\ k17_tnl c = false.
Proof.
  unfold hex_val, is_digit, k17_tnl. intros H.
  destruct ((48 <=? c) && (c <=? 57)) eqn:E1; [lia|].
  destruct ((65 <=? c) && (c <=? 70)) eqn:E2; [lia|].
  destruct ((97 <=? c) && (c <=? 102)) eqn:E3; [lia|discriminate].
Qed.

Lemma split_escape_skip c r : (c =? 35) = false -> (c =? 37) = false -> k17_split_escape (c :: r) = k17_split_escape r.
Proof. intros H1 H2. cbn [k17_split_escape]. rewrite H1, H2. reflexivity. Qed.

(* two_hex of the cleaned text, from the two look-aheads *)
Lemma two_hex_clean r :
  two_hex (clean_body r) =
  match k17_next false r with
  | Some (h, _, r1) =>
      match k17_next false r1 with
      | Some (l, _, _) => k17_is_hex h && k17_is_hex l
      | None => false
      end
  | None => false
  end.
Proof.
  pose proof (k17_next_clean r false) as H1.
  destruct (k17_next false r) as [[[h s1] r1]|]; [|rewrite H1; reflexivity].
  destruct H1 as [_ H1]. rewrite H1.
  pose proof (k17_next_clean r1 false) as H2.
  unfold k17_is_hex.
  destruct (h =? 35) eqn:E35.
  { apply N.eqb_eq in E35. subst h. change (hex_val 35) with (@None N).
    destruct (k17_next false r1) as [[[l s2] r2]|]; reflexivity. }
  destruct (k17_next false r1) as [[[l s2] r2]|].
  - destruct H2 as [_ H2]. rewrite H2. destruct (l =? 35) eqn:L35.
    + apply N.eqb_eq in L35. subst l. change (hex_val 35) with (@None N). cbn [two_hex]. rewrite andb_false_r. reflexivity.
    + cbn [two_hex]. change (ascii_hex_digit_value h) with (hex_val h). change (ascii_hex_digit_value l) with (hex_val l).
      destruct (hex_val h); [destruct (hex_val l)|]; reflexivity.
  - rewrite H2. reflexivity.
Qed.

Theorem body_ref_is_percent_decode : forall n bs, (length bs <= n)%nat -> k17_split_escape bs = false ->
  fst (body_ref bs) = percent_decode (clean_body bs).
Proof.
  induction n as [|n IH]; intros bs Hn Hk.
  - destruct bs; [reflexivity|cbn [length] in Hn; lia].
  - destruct bs as [|b r]; [reflexivity|]. cbn [length] in Hn. cbn [body_ref].
    unfold clean_body. cbn [before_hash].
    destruct (b =? 35) eqn:E35; [reflexivity|].
    change ((b =? 9) || (b =? 10) || (b =? 13)) with (k17_tnl b).
    destruct (k17_tnl b) eqn:Et.
    { cbn [filter]. unfold not_tnl at 1. rewrite Et. cbn [negb].
      rewrite split_escape_skip in Hk by (try exact E35; unfold k17_tnl in Et; lia).
      apply IH; [lia|exact Hk]. }
    cbn [filter]. unfold not_tnl at 1. rewrite Et. cbn [negb]. fold (clean_body r).
    assert (Hkeep : k17_split_escape r = false ->
                    fst (let (o, f) := body_ref r in (b :: o, f)) = b :: percent_decode (clean_body r)).
    { intros Hr. rewrite <- (IH r) by (try lia; exact Hr). destruct (body_ref r); reflexivity. }
    destruct (b =? 37) eqn:E37.
    2:{ rewrite split_escape_skip in Hk by assumption. rewrite pd_cons_other by lia. exact (Hkeep Hk). }
    apply N.eqb_eq in E37. subst b.
    cbn [k17_split_escape] in Hk. change (37 =? 35) with false in Hk. change (37 =? 37) with true in Hk. cbv iota in Hk.
    apply orb_false_iff in Hk. destruct Hk as [Hk1 Hk2].
    (* are the two raw bytes after '%' hex digits? *)
    destruct r as [|h [|l r']].
    + rewrite pd_pct_no by reflexivity. exact (Hkeep Hk2).
    + rewrite pd_pct_no; [exact (Hkeep Hk2)|].
      rewrite two_hex_clean. cbn [k17_next]. destruct (k17_tnl h); reflexivity.
    + destruct (hex_val h) as [hv|] eqn:Eh; [destruct (hex_val l) as [lv|] eqn:El|].
      * (* a direct escape *)
        destruct (is_hex_not_special h hv Eh) as (Hh1 & Hh2 & Hh3).
        destruct (is_hex_not_special l lv El) as (Hl1 & Hl2 & Hl3).
        unfold clean_body. cbn [before_hash]. rewrite Hh1, Hl1. cbn [filter]. unfold not_tnl. rewrite Hh3, Hl3. cbn [negb].
        fold not_tnl. fold (clean_body r').
        rewrite (pd_pct_yes h l _ hv lv) by (rewrite hex_same; assumption).
        rewrite !split_escape_skip in Hk2 by assumption.
        rewrite <- (IH r') by (try exact Hk2; cbn [length] in Hn; lia). destruct (body_ref r'); reflexivity.
      * rewrite pd_pct_no; [exact (Hkeep Hk2)|].
        rewrite two_hex_clean.
        destruct (k17_next false (h :: l :: r')) as [[[h1 s1] r1]|] eqn:N1; [|reflexivity].
        destruct (k17_next false r1) as [[[l1 s2] r2]|] eqn:N2; [|reflexivity].
        destruct (k17_is_hex h1 && k17_is_hex l1) eqn:Ehh; [|reflexivity].
        cbn [andb] in Hk1. apply orb_false_iff in Hk1. destruct Hk1 as [-> ->].
        destruct (k17_next_false_direct _ _ _ N1) as [R1 _]. inversion R1; subst h1 r1.
        destruct (k17_next_false_direct _ _ _ N2) as [R2 _]. inversion R2; subst l1 r2.
        apply andb_true_iff in Ehh. destruct Ehh as [_ Ehl]. unfold k17_is_hex in Ehl. rewrite El in Ehl. discriminate.
      * rewrite pd_pct_no; [exact (Hkeep Hk2)|].
        rewrite two_hex_clean.
        destruct (k17_next false (h :: l :: r')) as [[[h1 s1] r1]|] eqn:N1; [|reflexivity].
        destruct (k17_next false r1) as [[[l1 s2] r2]|] eqn:N2; [|reflexivity].
        destruct (k17_is_hex h1 && k17_is_hex l1) eqn:Ehh; [|reflexivity].
        cbn [andb] in Hk1. apply orb_false_iff in Hk1. destruct Hk1 as [-> ->].
        destruct (k17_next_false_direct _ _ _ N1) as [R1 _]. inversion R1; subst h1 r1.
        apply andb_true_iff in Ehh. destruct Ehh as [Ehl _]. unfold k17_is_hex in Ehl. rewrite Eh in Ehl. discriminate.
Qed.
