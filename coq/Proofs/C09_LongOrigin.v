(* Proofs/C09_LongOrigin.v - C16's origin round trip (C16_rt_parsed_model / C09_inst_C16_rt_parsed) for the parser
   linked with the oracle ITSELF under IdnaOK2.

   url_origin re-enters the parser on the path of a blob: URL and swallows its errors (an unparsable inner URL has an
   opaque origin), so a capped run and a run with the oracle itself can differ silently there; but a TUPLE origin
   computed with the capped oracle is the origin computed with the oracle itself.  The premise "no host of the run is
   in the class" is therefore stated as: the parse and the origin computation succeed with the capped oracle. *)
From RU Require Import Base.Prelude Base.Utf8 Base.Utf8Facts Model.AsciiSet Gen.Tables Model.PercentEncoding
  Model.HostT Model.Host Model.UrlRecord Model.Parser Model.Origin
  Proofs.C09_Host Proofs.C09_Long Proofs.C09_LongRun Proofs.C16_Origin Proofs.C16_RT6Model.

Section Origin2.
Variable dbg : bool.
Variable idna : list N -> option (list N).

Notation hp := (host_parse idna).
Notation hpc := (host_parse (cap idna)).
Notation hpo := host_parse_opaque.
Notation hd := host_display.

Lemma url_parse_cap_ok s u : url_parse dbg hpc hpo hd s = POk u -> url_parse dbg hp hpo hd s = POk u.
Proof. unfold url_parse. intros H. exact (proj1 (parse_url_cap_ok dbg idna None None _ u H)). Qed.

(* a tuple origin computed with the capped oracle is the origin computed with the oracle itself *)
Lemma origin_fuel_cap f : forall c u o c', url_origin_fuel dbg hpc hpo hd f c u = OOk o c' -> is_tuple o = true ->
  url_origin_fuel dbg hp hpo hd f c u = OOk o c'.
Proof.
  induction f as [|f IH]; intros c u o c' H Ht.
  - cbn [url_origin_fuel] in H |- *. destruct (scheme u) as [s|]; [|discriminate].
    destruct (str_mem s T_ORIGIN_BLOB_SCHEMES); [|exact H].
    destruct (path u) as [p|]; [|discriminate].
    destruct (url_parse dbg hpc hpo hd p) as [v|e|] eqn:Ep; [discriminate| |discriminate].
    rewrite (new_opaque_kind c o c' H) in Ht. discriminate.
  - cbn [url_origin_fuel] in H |- *. destruct (scheme u) as [s|]; [|discriminate].
    destruct (str_mem s T_ORIGIN_BLOB_SCHEMES); [|exact H].
    destruct (path u) as [p|]; [|discriminate].
    destruct (url_parse dbg hpc hpo hd p) as [v|e|] eqn:Ep; [| |discriminate].
    + rewrite (url_parse_cap_ok p v Ep). exact (IH c v o c' H Ht).
    + rewrite (new_opaque_kind c o c' H) in Ht. discriminate.
Qed.

Lemma origin_cap c u o c' : url_origin dbg hpc hpo hd c u = OOk o c' -> is_tuple o = true ->
  url_origin dbg hp hpo hd c u = OOk o c'.
Proof. unfold url_origin. apply origin_fuel_cap. Qed.

Hypothesis OK : IdnaOK2 idna.

(* C16: the ASCII serialization of the tuple origin of a parse result parses back to a URL with that origin - all four
   runs of the conclusion with the oracle itself *)
Theorem origin_rt_model2 input u c o c' :
  url_parse dbg hpc hpo hd input = POk u ->
  url_origin dbg hpc hpo hd c u = OOk o c' -> is_tuple o = true ->
  nlen (ascii_serialization hd o) < U32_MAX_P ->
  (url_parse dbg hp hpo hd input = POk u /\ url_origin dbg hp hpo hd c u = OOk o c')
  /\ exists w, url_parse dbg hp hpo hd (ascii_serialization hd o) = POk w
               /\ url_origin dbg hp hpo hd c' w = OOk o c'.
Proof.
  intros Hu Ho Ht HB. split; [split; [exact (url_parse_cap_ok input u Hu) | exact (origin_cap c u o c' Ho Ht)]|].
  destruct (rt_parsed_model dbg (cap idna) hpo input u c o c' (IdnaOK2_cap idna OK) Hu Ho Ht HB) as (w & Hw & How).
  exists w. split; [exact (url_parse_cap_ok _ w Hw) | exact (origin_cap c' w o c' How Ht)].
Qed.
End Origin2.
