(* Proofs/C16_RT.v - the parser half of the origin round trip, for hosts whose text is "plain"
   (domains and IPv4 addresses: printable ASCII without : / \ ? # @ [ ]). *)
From RU Require Import Base.Prelude Base.Utf8 Model.AsciiSet Gen.Tables Model.PercentEncoding Model.HostT Model.UrlRecord Model.Parser Model.Origin
  Proofs.C16_Conc Proofs.C16_Origin.

Definition plainc (c : N) : bool :=
  (32 <? c) && (c <? 128) && negb (memb c [58; 47; 92; 63; 35; 64; 91; 93]).

(* ---------- strings of ASCII bytes are their own chars() ---------- *)
Lemma utf8_lossy_ascii l : Forall (fun c => c < 128) l -> utf8_lossy l = l.
Proof.
  unfold utf8_lossy. induction 1 as [|b r Hb Hr IH]; [reflexivity|].
  cbn [utf8_scan]. apply N.ltb_lt in Hb. rewrite Hb. cbn [map]. now rewrite IH.
Qed.

(* ---------- trimming ---------- *)
Lemma drop_while_none f l : Forall (fun c => f c = false) l -> drop_while f l = l.
Proof. destruct 1 as [|c r Hc Hr]; [reflexivity|]. cbn [drop_while]. now rewrite Hc. Qed.

Lemma trim_id f l : Forall (fun c => f c = false) l -> trim_matches f l = l.
Proof.
  intros H. unfold trim_matches. rewrite (drop_while_none f l H).
  rewrite drop_while_none; [apply rev_involutive|].
  apply Forall_rev. exact H.
Qed.

(* ---------- scheme ---------- *)
Lemma parse_scheme_five s rest : In s five_schemes ->
  parse_scheme CUrlParser (s ++ 58 :: rest) = Some (s, rest).
Proof.
  intros H. cbn [five_schemes In] in H.
  destruct H as [<-|[<-|[<-|[<-|[<-|[]]]]]]; reflexivity.
Qed.

(* ---------- "//" ---------- *)
Lemma count_matching_stop c r :
  is_tnl c = false -> is_slash_or_bslash c = false ->
  inp_count_matching is_slash_or_bslash (c :: r) = (0, c :: r).
Proof. intros H1 H2. cbn [inp_count_matching]. now rewrite H1, H2. Qed.

Lemma count_matching_ss c r :
  is_tnl c = false -> is_slash_or_bslash c = false ->
  snd (inp_count_matching is_slash_or_bslash (47 :: 47 :: c :: r)) = c :: r.
Proof.
  intros H1 H2.
  change (inp_count_matching is_slash_or_bslash (47 :: 47 :: c :: r))
    with (let (n, rem) := (let (n, rem) := inp_count_matching is_slash_or_bslash (c :: r) in (n + 1, rem)) in (n + 1, rem)).
  rewrite (count_matching_stop c r H1 H2). reflexivity.
Qed.

(* ---------- userinfo ---------- *)
Lemma scan_last_at_none sp l n : Forall (fun c => c <> 64) l -> scan_last_at sp l n None = None.
Proof.
  intros H. revert n. induction H as [|c r Hc Hr IH]; intros n; [reflexivity|].
  cbn [scan_last_at]. destruct (is_tnl c); [apply IH|].
  destruct (c =? 64) eqn:E; [apply N.eqb_eq in E; contradiction|].
  destruct ((c =? 47) || (c =? 63) || (c =? 35) || (c =? 92) && sp); [reflexivity|apply IH].
Qed.

(* ---------- host ---------- *)
Lemma plainc_facts c : plainc c = true ->
  is_tnl c = false /\ 32 < c /\ c < 128 /\ c <> 58 /\ c <> 47 /\ c <> 92 /\ c <> 63 /\ c <> 35 /\ c <> 64
  /\ c <> 91 /\ c <> 93.
Proof.
  unfold plainc, is_tnl. cbn [memb]. intros H. lia.
Qed.

Lemma host_scan_plain t : forall acc sfx,
  forallb plainc t = true -> (sfx = [] \/ exists r, sfx = 58 :: r) ->
  host_scan true false acc (t ++ sfx) = (rev acc ++ t, sfx).
Proof.
  induction t as [|c t IH]; intros acc sfx Ht Hs.
  - cbn [app]. destruct Hs as [->|[r ->]]; cbn [host_scan]; now rewrite app_nil_r.
  - cbn [forallb] in Ht. apply andb_true_iff in Ht. destruct Ht as [Hc Ht].
    apply plainc_facts in Hc. destruct Hc as (Ht0 & _ & _ & H58 & H47 & H92 & H63 & H35 & _ & H91 & H93).
    cbn [app host_scan]. rewrite Ht0.
    replace (c =? 58) with false by lia. replace (c =? 92) with false by lia.
    replace (c =? 47) with false by lia. replace (c =? 63) with false by lia.
    replace (c =? 35) with false by lia. replace (c =? 91) with false by lia.
    replace (c =? 93) with false by lia. cbn [andb orb negb].
    rewrite (IH (c :: acc) sfx Ht Hs). cbn [rev]. now rewrite <- app_assoc.
Qed.

(* ---------- port: every u16 is read back from its decimal text (finite sweep) ---------- *)
Definition port_rt_ok (p : N) : bool :=
  match parse_port_loop CUrlParser (decimal p) 0 false with
  | POk (q, true, []) => q =? p
  | _ => false
  end && forallb is_digit (decimal p).

Lemma port_sweep : all_below 65536 port_rt_ok = true.
Proof. vm_compute. reflexivity. Qed.

Lemma port_rt p : p <= 65535 ->
  parse_port_loop CUrlParser (decimal p) 0 false = POk (p, true, []) /\ forallb is_digit (decimal p) = true.
Proof.
  intros Hp. pose proof (all_below_spec 65536 port_rt_ok port_sweep p ltac:(lia)) as H.
  unfold port_rt_ok in H. apply andb_true_iff in H. destruct H as [H1 H2]. split; [|exact H2].
  destruct (parse_port_loop CUrlParser (decimal p) 0 false) as [[[q any] rem]|e|]; try discriminate.
  destruct any; [|discriminate]. destruct rem; [|discriminate]. apply N.eqb_eq in H1. now subst.
Qed.

(* ---------- list helpers ---------- *)
From RU Require Import Proofs.ListN.

Lemma nfirstn_app_exact a b : nfirstn (nlen a) (a ++ b) = a.
Proof.
  unfold nfirstn, nlen. rewrite Nat2N.id. rewrite firstn_app, Nat.sub_diag, firstn_all. cbn [firstn]. apply app_nil_r.
Qed.
Lemma nskipn_app_exact a b : nskipn (nlen a) (a ++ b) = b.
Proof.
  unfold nskipn, nlen. rewrite Nat2N.id. rewrite skipn_app, Nat.sub_diag, skipn_all. reflexivity.
Qed.

Lemma ends_with_not b a l : l <> [] -> Forall (fun c => c <> b) l -> ends_with_byte b (a ++ l) = false.
Proof.
  intros Hne H. unfold ends_with_byte. rewrite rev_app_distr.
  destruct (rev l) as [|x r] eqn:E.
  - exfalso. apply Hne. apply (f_equal (@rev N)) in E. now rewrite rev_involutive in E.
  - cbn [app]. apply N.eqb_neq. rewrite Forall_forall in H. apply H.
    apply in_rev. rewrite E. now left.
Qed.

Lemma opt_eqb_sym a b : opt_eqb a b = opt_eqb b a.
Proof. destruct a, b; cbn [opt_eqb]; try reflexivity. apply N.eqb_sym. Qed.

Lemma five_special s : In s five_schemes -> scheme_type_of s = STSpecialNotFile.
Proof.
  intros H. cbn [five_schemes In] in H.
  destruct H as [<-|[<-|[<-|[<-|[<-|[]]]]]]; reflexivity.
Qed.

Lemma five_chars s : In s five_schemes -> Forall (fun c => 32 < c /\ c < 128 /\ c <> 64) s.
Proof.
  intros H. cbn [five_schemes In] in H.
  destruct H as [<-|[<-|[<-|[<-|[<-|[]]]]]]; repeat constructor; lia.
Qed.

Lemma to_u32_ok n : n <= U32_MAX_P -> to_u32 n = POk n.
Proof. intros H. unfold to_u32. apply N.leb_le in H. now rewrite H. Qed.

Definition port_suffix (s : list N) (p : N) : list N :=
  if opt_eqb (default_port s) (Some p) then [] else 58 :: decimal p.

Section RT.
Variable dbg : bool.
Variable hp ho : list N -> result host.
Variable hd : host -> list N.

Lemma empty_host_check (h : host) (X Y : pres unit) :
  h <> HDomain [] -> match h with HDomain [] => X | _ => Y end = Y.
Proof. destruct h as [[|x d]|a|pc]; intros H; try reflexivity. contradiction. Qed.

(* the end of an authority-only special URL: "/" is appended as the path, no query, no fragment *)
Lemma path_tail ser2 se ue hs he hi port :
  ends_with_byte 47 ser2 = false -> nlen ser2 + 1 <= U32_MAX_P -> se + 3 < nlen ser2 ->
  (' path_start <~ to_u32 (nlen ser2);;
   ' (ser3, _, remaining3) <~ parse_path_start dbg CUrlParser STSpecialNotFile true ser2 [];;
   with_query_and_fragment None CUrlParser STSpecialNotFile se ue hs he hi port path_start ser3 remaining3)
  = POk (mkUrl (ser2 ++ [47]) se ue hs he hi port (nlen ser2) None None).
Proof.
  intros He HB Hlt. rewrite to_u32_ok by lia. cbn [pbind].
  unfold parse_path_start. change (inp_split_first []) with (@None N, @nil N). cbv zeta.
  cbn [st_is_special]. rewrite He. cbn [negb].
  unfold parse_path. cbn [parse_path_loop push_pending].
  unfold finish_segment. rewrite slice_o_some by lia. rewrite N.sub_diag.
  change (nfirstn 0 (nskipn (nlen (ser2 ++ [47])) (ser2 ++ [47]))) with (@nil N).
  cbn [of_option pbind is_double_dot is_single_dot st_is_file andb].
  unfold file_path_fixup. cbn [st_is_file].
  unfold with_query_and_fragment.
  replace (nlen ser2 =? se + 1) with false by (symmetry; apply N.eqb_neq; lia).
  replace (nlen ser2 =? se + 3) with false by (symmetry; apply N.eqb_neq; lia).
  cbn [andb pbind]. reflexivity.
Qed.

Lemma accessors_of_result s ct h p rest ue ps port :
  host_fmt hd h = ct -> h <> HDomain [] ->
  (port = Some p \/ (port = None /\ default_port s = Some p)) ->
  let w := mkUrl (((s ++ [58]) ++ [47; 47]) ++ ct ++ rest) (nlen s) ue (nlen s + 3) (nlen s + 3 + nlen ct)
                 (hi_of_host h) port ps None None in
  scheme w = Some s /\ host_of w = Some (Some h) /\ port_or_known_default w = Some (Some p).
Proof.
  intros Hfmt Hne Hport w.
  assert (Hser0 : nlen ((s ++ [58]) ++ [47; 47]) = nlen s + 3)
    by (rewrite !nlen_app; change (nlen [58]) with 1; change (nlen [47; 47]) with 2; lia).
  assert (Hsch : scheme w = Some s).
  { unfold scheme, u_slice_to, w. cbn [ser scheme_end]. rewrite slice_to_o_some by (rewrite !nlen_app; lia).
    rewrite <- !app_assoc. now rewrite nfirstn_app_exact. }
  split; [exact Hsch|]. split.
  - destruct h as [[|x d]|a|pc]; [contradiction| | |];
      unfold host_of, u_slice, w; cbn [hosti hi_of_host ser host_start host_end]; try reflexivity.
    cbn [host_fmt] in Hfmt. rewrite slice_o_some by (rewrite ?nlen_app; change (nlen [58]) with 1; change (nlen [47; 47]) with 2; lia).
    replace (nlen s + 3 + nlen ct - (nlen s + 3)) with (nlen ct) by lia.
    rewrite <- Hser0. rewrite nskipn_app_exact.
    rewrite nfirstn_app_exact. cbn [bindo]. now rewrite Hfmt.
  - unfold port_or_known_default. destruct Hport as [->|[-> Hd]]; [reflexivity|].
    cbn [port]. fold w. rewrite Hsch. cbn [bindo]. now rewrite Hd.
Qed.

(* the text  scheme "://" host-text [":" port]  is parsed to a URL whose scheme, host and effective port are
   the given ones; `c :: t` is the host text that is read, `tout` the text Display writes for the parsed host *)
Lemma parse_tuple_text s c t tout h p :
  In s five_schemes -> forallb plainc (c :: t) = true ->
  hp (c :: t) = Ok h -> hd h = tout -> host_fmt hd h = tout -> tout <> [] -> Forall (fun x => x <> 47) tout ->
  p <= 65535 ->
  nlen s + 3 + nlen tout + nlen (port_suffix s p) + 1 <= U32_MAX_P ->
  exists w,
    parse_url dbg hp ho hd None None (s ++ 58 :: 47 :: 47 :: (c :: t) ++ port_suffix s p) = POk w
    /\ scheme w = Some s /\ host_of w = Some (Some h) /\ port_or_known_default w = Some (Some p).
Proof.
  intros H5 Hpl Hhp Hhd Hfmt Hone Hct47 Hp HB.
  pose proof (five_chars s H5) as Hs.
  assert (Hplf : Forall (fun x => plainc x = true) (c :: t)) by (apply Forall_forall; apply forallb_forall; exact Hpl).
  assert (Hsfx : port_suffix s p = [] \/ port_suffix s p = 58 :: decimal p)
    by (unfold port_suffix; destruct (opt_eqb _ _); auto).
  destruct (port_rt p Hp) as [Hport Hdig].
  assert (Hdigf : Forall (fun x => is_digit x = true) (decimal p)) by (apply Forall_forall; apply forallb_forall; exact Hdig).
  (* every character of the text is above space, ASCII, and not '@' *)
  assert (Hall : Forall (fun x => 32 < x /\ x < 128 /\ x <> 64) (s ++ 58 :: 47 :: 47 :: (c :: t) ++ port_suffix s p)).
  { apply Forall_app. split; [exact Hs|]. repeat (constructor; [lia|]).
    apply Forall_app. split.
    - eapply Forall_impl; [|exact Hplf]. intros x Hx. apply plainc_facts in Hx. lia.
    - destruct Hsfx as [->| ->]; [constructor|]. constructor; [lia|].
      eapply Forall_impl; [|exact Hdigf]. intros x Hx. unfold is_digit in Hx. lia. }
  unfold parse_url, input_new_trim_c0. cbv zeta.
  rewrite trim_id by (eapply Forall_impl; [|exact Hall]; intros x Hx; cbv beta in *; unfold is_c0_or_space; lia).
  rewrite (parse_scheme_five s _ H5).
  unfold parse_with_scheme. rewrite to_u32_ok by lia. cbn [pbind]. cbv zeta. rewrite (five_special s H5).
  pose proof (plainc_facts c ltac:(cbn [forallb] in Hpl; apply andb_true_iff in Hpl; tauto)) as Hc.
  destruct (inp_count_matching is_slash_or_bslash (47 :: 47 :: (c :: t) ++ port_suffix s p)) as [sl rem] eqn:Ecm.
  pose proof (count_matching_ss c (t ++ port_suffix s p) ltac:(tauto) ltac:(unfold is_slash_or_bslash; lia)) as Hrem.
  cbn [app] in Ecm. rewrite Ecm in Hrem. cbn [snd] in Hrem. subst rem.
  set (sfx := port_suffix s p) in *.
  (* after "//" *)
  unfold after_double_slash. cbv zeta.
  unfold parse_userinfo.
  rewrite scan_last_at_none.
  2:{ change (c :: t ++ sfx) with ((c :: t) ++ sfx).
      apply Forall_app in Hall. destruct Hall as [_ Hall]. inversion Hall as [|x1 l1 _ Hall1]; subst.
      inversion Hall1 as [|x2 l2 _ Hall2]; subst. inversion Hall2 as [|x3 l3 _ Hall3]; subst.
      eapply Forall_impl; [|exact Hall3]. cbv beta. intros; lia. }
  rewrite !nlen_app in *. change (nlen [58]) with 1 in *. change (nlen [47; 47]) with 2 in *.
  rewrite !to_u32_ok by lia. cbn [pbind].
  set (ser0 := (s ++ [58]) ++ [47; 47]) in *.
  assert (Hser0 : nlen ser0 = nlen s + 3)
    by (unfold ser0; rewrite !nlen_app; change (nlen [58]) with 1; change (nlen [47; 47]) with 2; lia).
  rewrite Hser0. rewrite to_u32_ok by lia. cbn [pbind].
  replace (nlen s + 1 + 2 =? nlen s + 3) with true by (symmetry; apply N.eqb_eq; lia). cbn [negb].
  (* host *)
  unfold parse_host_and_port, parse_host. cbn [st_is_file st_is_special scheme_type_eqb negb andb].
  change (c :: t ++ sfx) with ((c :: t) ++ sfx).
  rewrite (host_scan_plain (c :: t) [] sfx Hpl) by (destruct Hsfx as [->| ->]; eauto).
  cbn [rev app]. rewrite Hhp. cbn [of_result pbind]. rewrite Hhd.
  assert (Hne : h <> HDomain []) by (intros ->; cbn [host_fmt] in Hfmt; congruence).
  assert (Hlt1 : 1 <= nlen tout) by (destruct tout; [congruence|rewrite nlen_cons; lia]).
  assert (Hser1 : nlen (ser0 ++ tout) = nlen s + 3 + nlen tout) by (rewrite nlen_app; lia).
  rewrite Hser1. rewrite to_u32_ok by lia. cbn [pbind].
  rewrite (empty_host_check h _ _ Hne). cbn [pbind].
  replace (nfirstn (nlen s) (ser0 ++ tout)) with s
    by (unfold ser0; rewrite <- !app_assoc; now rewrite nfirstn_app_exact).
  unfold sfx, port_suffix in *. clear sfx.
  destruct (opt_eqb (default_port s) (Some p)) eqn:Edp.
  - (* the port is the default of the scheme: nothing after the host *)
    change (inp_split_prefix_char 58 []) with (@None (list N)). cbn [pbind]. rewrite andb_false_r.
    rewrite path_tail.
    + eexists. split; [reflexivity|].
      unfold ser0. rewrite <- (app_assoc _ tout [47]).
      apply accessors_of_result; [exact Hfmt|exact Hne|].
      right. split; [reflexivity|]. now apply opt_eqb_spec.
    + apply ends_with_not; [exact Hone|exact Hct47].
    + rewrite Hser1. change (nlen []) with 0 in HB. lia.
    + rewrite Hser1. lia.
  - (* any other port is written and read back *)
    change (inp_split_prefix_char 58 (58 :: decimal p)) with (Some (decimal p)).
    unfold parse_port. rewrite Hport. cbn [pbind negb andb orb].
    rewrite opt_eqb_sym, Edp. cbn [pbind]. rewrite andb_false_r.
    assert (Hlen : nlen (58 :: decimal p) = 1 + nlen (decimal p)) by apply nlen_cons.
    rewrite path_tail.
    + eexists. split; [reflexivity|].
      replace (((ser0 ++ tout) ++ 58 :: decimal p) ++ [47])
        with (((s ++ [58]) ++ [47; 47]) ++ tout ++ ((58 :: decimal p) ++ [47]))
        by (unfold ser0; rewrite <- !app_assoc; reflexivity).
      apply accessors_of_result; [exact Hfmt|exact Hne|]. left. reflexivity.
    + apply ends_with_not; [discriminate|]. constructor; [lia|].
      eapply Forall_impl; [|exact Hdigf]. intros x Hx. unfold is_digit in Hx. lia.
    + rewrite nlen_app, Hser1. lia.
    + rewrite nlen_app, Hser1. lia.
Qed.



(* the text a tuple serializes to, for a given host text *)
Lemma tuple_serialization_eq s t p :
  tuple_serialization s t p = s ++ 58 :: 47 :: 47 :: t ++ port_suffix s p.
Proof.
  unfold tuple_serialization, port_suffix, s_css.
  destruct (opt_eqb (default_port s) (Some p)); cbn [app]; [now rewrite app_nil_r|reflexivity].
Qed.

Lemma decimal_ascii p : p <= 65535 -> Forall (fun x => x < 128) (decimal p).
Proof.
  intros Hp. destruct (port_rt p Hp) as [_ Hd]. apply Forall_forall. intros x Hx.
  rewrite forallb_forall in Hd. specialize (Hd x Hx). unfold is_digit in Hd. lia.
Qed.

(* parsing the serialization  scheme://text[:port]  gives a URL with origin (scheme, h, port), whenever the
   host text is plain, Host::parse reads it as h, and Display writes h as a non-empty text without '/' *)
Lemma rt_text s c t h p :
  In s five_schemes -> p <= 65535 ->
  forallb plainc (c :: t) = true -> hp (c :: t) = Ok h ->
  hd h = host_fmt hd h -> host_fmt hd h <> [] -> Forall (fun x => x <> 47) (host_fmt hd h) ->
  nlen (tuple_serialization s (host_fmt hd h) p) < U32_MAX_P ->
  exists w, url_parse dbg hp ho hd (tuple_serialization s (c :: t) p) = POk w
            /\ forall f k, url_origin_fuel dbg hp ho hd f k w = OOk (Tuple s h p) k.
Proof.
  intros H5 Hp Hpl Hhp Hhd Hne H47 HB.
  rewrite tuple_serialization_eq in HB. rewrite !nlen_app, !nlen_cons, nlen_app in HB.
  destruct (parse_tuple_text s c t (host_fmt hd h) h p H5 Hpl Hhp Hhd eq_refl Hne H47 Hp ltac:(lia))
    as (w & Hw & Hsch & Hhost & Hport).
  exists w. split.
  - unfold url_parse, str_chars. rewrite tuple_serialization_eq. rewrite utf8_lossy_ascii; [exact Hw|].
    apply Forall_app. split.
    + eapply Forall_impl; [|exact (five_chars s H5)]. cbv beta. intros; lia.
    + repeat (constructor; [lia|]). apply Forall_app. split.
      * apply Forall_forall. intros x Hx. rewrite forallb_forall in Hpl. apply Hpl in Hx.
        apply plainc_facts in Hx. lia.
      * unfold port_suffix. destruct (opt_eqb _ _); [constructor|]. constructor; [lia|]. now apply decimal_ascii.
  - intros f k. destruct (tuple_arm dbg hp ho hd f k w s h Hsch H5 Hhost) as (p' & Hp' & Ho).
    rewrite Hport in Hp'. inversion Hp'; subst. exact Ho.
Qed.

End RT.

(* C16_rt for plain host texts *)
Definition plain_text (t : list N) : Prop := t <> [] /\ forallb plainc t = true.

Lemma plain_no_slash t : forallb plainc t = true -> Forall (fun x => x <> 47) t.
Proof.
  intros H. apply Forall_forall. intros x Hx. rewrite forallb_forall in H. apply H in Hx.
  apply plainc_facts in Hx. tauto.
Qed.

Definition rt_plain_stmt : Prop :=
  forall dbg hp ho hd tu s h p,
    In s five_schemes -> p <= 65535 ->
    (* the ASCII form of the host is plain, Display and Host::parse are inverse on it (C09) *)
    plain_text (host_fmt hd h) -> hd h = host_fmt hd h -> hp (host_fmt hd h) = Ok h ->
    nlen (ascii_serialization hd (Tuple s h p)) < U32_MAX_P ->
    (exists w, url_parse dbg hp ho hd (ascii_serialization hd (Tuple s h p)) = POk w
               /\ forall f k, url_origin_fuel dbg hp ho hd f k w = OOk (Tuple s h p) k)
    /\ (* the Unicode form: when it is plain ASCII too and parses back to the same host (C12) *)
       (forall d, h = HDomain d -> plain_text (tu d) -> hp (tu d) = Ok h ->
        exists w, url_parse dbg hp ho hd (unicode_serialization hd tu (Tuple s h p)) = POk w
                  /\ forall f k, url_origin_fuel dbg hp ho hd f k w = OOk (Tuple s h p) k).

Lemma rt_plain : rt_plain_stmt.
Proof.
  intros dbg hp ho hd tu s h p H5 Hp [Hne Hpl] Hhd Hhp HB. cbn [ascii_serialization] in HB. split.
  - cbn [ascii_serialization].
    destruct (host_fmt hd h) as [|c t] eqn:Et; [congruence|].
    apply rt_text; rewrite ?Et; try assumption. now apply plain_no_slash.
  - intros d -> [Hne' Hpl'] Hhp'. cbn [unicode_serialization host_fmt].
    cbn [host_fmt] in *.
    destruct (tu d) as [|c t] eqn:Et; [congruence|].
    apply rt_text; cbn [host_fmt]; try assumption. now apply plain_no_slash.
Qed.
