(* Proofs/C06_List.v - list facts for the setter proofs: slices of concatenations, and transfer of
   bytes / pieces between two serializations that share a prefix or a suffix. *)
From RU Require Import Base.Prelude Model.HostT Model.UrlRecord Proofs.ListN.

Lemma nfirstn_app_le n a b : n <= nlen a -> nfirstn n (a ++ b) = nfirstn n a.
Proof.
  unfold nfirstn, nlen. intros H. rewrite firstn_app.
  replace (N.to_nat n - length a)%nat with 0%nat by lia. cbn [firstn]. apply app_nil_r.
Qed.

Lemma nfirstn_app_ge n a b : nlen a <= n -> nfirstn n (a ++ b) = a ++ nfirstn (n - nlen a) b.
Proof.
  unfold nfirstn, nlen. intros H. rewrite firstn_app. rewrite firstn_all2 by lia.
  f_equal. f_equal. lia.
Qed.

Lemma nfirstn_app_exact a b : nfirstn (nlen a) (a ++ b) = a.
Proof. rewrite nfirstn_app_le by lia. apply nfirstn_all. lia. Qed.

Lemma nskipn_app_le n a b : n <= nlen a -> nskipn n (a ++ b) = nskipn n a ++ b.
Proof.
  unfold nskipn, nlen. intros H. rewrite skipn_app.
  replace (N.to_nat n - length a)%nat with 0%nat by lia. reflexivity.
Qed.

Lemma nskipn_app_ge n a b : nlen a <= n -> nskipn n (a ++ b) = nskipn (n - nlen a) b.
Proof.
  unfold nskipn, nlen. intros H. rewrite skipn_app. rewrite skipn_all2 by lia.
  cbn [app]. f_equal. lia.
Qed.

Lemma nskipn_app_exact a b : nskipn (nlen a) (a ++ b) = b.
Proof. rewrite nskipn_app_ge by lia. rewrite N.sub_diag. reflexivity. Qed.

Lemma nnth_app_lt l r i : i < nlen l -> nnth (l ++ r) i = nnth l i.
Proof. unfold nnth, nlen. intros H. apply nth_error_app1. lia. Qed.

Lemma nnth_app_ge l r i : nlen l <= i -> nnth (l ++ r) i = nnth r (i - nlen l).
Proof.
  unfold nnth, nlen. intros H. rewrite nth_error_app2 by lia. f_equal. lia.
Qed.

Lemma nnth_nskipn l a i : nnth (nskipn a l) i = nnth l (a + i).
Proof.
  unfold nnth, nskipn. replace (N.to_nat (a + i)) with (N.to_nat a + N.to_nat i)%nat by lia.
  generalize (N.to_nat a) as n. intros n. revert l. induction n as [|n IH]; intros l; [reflexivity|].
  destruct l as [|x l]; cbn [skipn Nat.add nth_error].
  - destruct (N.to_nat i); reflexivity.
  - apply IH.
Qed.

Lemma nnth_nfirstn l a i : i < a -> nnth (nfirstn a l) i = nnth l i.
Proof.
  unfold nnth, nfirstn. intros H.
  assert (N.to_nat i < N.to_nat a)%nat as H' by lia. revert H'.
  generalize (N.to_nat a) as n. generalize (N.to_nat i) as k. clear. intros k n. revert k l.
  induction n as [|n IH]; intros k l H; [lia|].
  destruct l as [|x l]; [destruct k; reflexivity|].
  destruct k as [|k]; [reflexivity|]. cbn [firstn nth_error]. apply IH. lia.
Qed.

Lemma nfirstn_nfirstn n m l : n <= m -> nfirstn n (nfirstn m l) = nfirstn n l.
Proof.
  unfold nfirstn. intros H. rewrite firstn_firstn. f_equal. lia.
Qed.

Lemma nskipn_nfirstn_comm a b l : nskipn a (nfirstn (a + b) l) = nfirstn b (nskipn a l).
Proof.
  unfold nskipn, nfirstn. replace (N.to_nat (a + b)) with (N.to_nat a + N.to_nat b)%nat by lia.
  generalize (N.to_nat a) as n. generalize (N.to_nat b) as m. clear. intros m n. revert l.
  induction n as [|n IH]; intros l; [reflexivity|].
  destruct l as [|x l]; [cbn [Nat.add firstn skipn]; rewrite firstn_nil; reflexivity|].
  cbn [Nat.add firstn skipn]. apply IH.
Qed.

Lemma nlen_rev l : nlen (rev l) = nlen l.
Proof. unfold nlen. rewrite rev_length. reflexivity. Qed.

(* ---------- shared prefix ---------- *)
Definition agree_pre (a : N) (s s' : list N) : Prop := nfirstn a s' = nfirstn a s.

Lemma agree_pre_le a a0 s s' : agree_pre a s s' -> a0 <= a -> agree_pre a0 s s'.
Proof.
  unfold agree_pre. intros H Hle.
  rewrite <- (nfirstn_nfirstn a0 a s'), <- (nfirstn_nfirstn a0 a s) by exact Hle. rewrite H. reflexivity.
Qed.

Lemma agree_pre_app s t : agree_pre (nlen s) (s ++ t) s.
Proof. unfold agree_pre. rewrite nfirstn_app_exact. apply nfirstn_all. lia. Qed.

Lemma agree_pre_app2 a s t t' : a <= nlen s -> agree_pre a (s ++ t) (s ++ t').
Proof. unfold agree_pre. intros H. rewrite !nfirstn_app_le by exact H. reflexivity. Qed.

Lemma agree_pre_nfirstn a s t : a <= nlen s -> agree_pre a s (nfirstn a s ++ t).
Proof.
  unfold agree_pre. intros H.
  rewrite nfirstn_app_le by (rewrite nlen_nfirstn by exact H; lia).
  apply nfirstn_nfirstn. lia.
Qed.

Lemma pre_nnth a s s' i : agree_pre a s s' -> i < a -> nnth s' i = nnth s i.
Proof.
  unfold agree_pre. intros H Hi.
  rewrite <- (nnth_nfirstn s' a i Hi), <- (nnth_nfirstn s a i Hi). rewrite H. reflexivity.
Qed.

Lemma pre_piece a s s' i j : agree_pre a s s' -> j <= a ->
  nfirstn (j - i) (nskipn i s') = nfirstn (j - i) (nskipn i s).
Proof.
  unfold agree_pre. intros H Hj.
  destruct (N.le_gt_cases i j) as [Hij|Hij].
  - replace j with (i + (j - i)) in H, Hj by lia.
    rewrite <- !nskipn_nfirstn_comm.
    rewrite <- (nfirstn_nfirstn (i + (j - i)) a s'), <- (nfirstn_nfirstn (i + (j - i)) a s) by lia.
    rewrite H. reflexivity.
  - replace (j - i) with 0 by lia. reflexivity.
Qed.

Lemma pre_firstn a s s' n : agree_pre a s s' -> n <= a -> nfirstn n s' = nfirstn n s.
Proof. intros H Hn. apply (agree_pre_le _ _ _ _ H Hn). Qed.

Lemma pre_len a s s' : agree_pre a s s' -> a <= nlen s -> a <= nlen s'.
Proof.
  unfold agree_pre. intros H Ha.
  assert (nlen (nfirstn a s') = a) as E by (rewrite H; apply nlen_nfirstn; exact Ha).
  pose proof (nlen_nfirstn_le a s').
  unfold nlen, nfirstn in *. rewrite firstn_length in *. lia.
Qed.

(* ---------- shared suffix ---------- *)
Definition agree_suf (b b' : N) (s s' : list N) : Prop := nskipn b' s' = nskipn b s.

Lemma agree_suf_app p p' t : agree_suf (nlen p) (nlen p') (p ++ t) (p' ++ t).
Proof. unfold agree_suf. rewrite !nskipn_app_exact. reflexivity. Qed.

Lemma suf_nnth b b' s s' i i' : agree_suf b b' s s' -> b <= i -> i' = i - b + b' -> nnth s' i' = nnth s i.
Proof.
  unfold agree_suf. intros H Hi ->.
  replace (i - b + b') with (b' + (i - b)) by lia. rewrite <- nnth_nskipn, H, nnth_nskipn. f_equal. lia.
Qed.

Lemma suf_skip b b' s s' i i' : agree_suf b b' s s' -> b <= i -> i' = i - b + b' -> nskipn i' s' = nskipn i s.
Proof.
  unfold agree_suf. intros H Hi ->.
  replace (i - b + b') with ((i - b) + b') by lia. rewrite <- nskipn_nskipn, H, nskipn_nskipn. f_equal. lia.
Qed.

Lemma suf_piece b b' s s' i i' n : agree_suf b b' s s' -> b <= i -> i' = i - b + b' ->
  nfirstn n (nskipn i' s') = nfirstn n (nskipn i s).
Proof. intros H Hi E. rewrite (suf_skip _ _ _ _ _ _ H Hi E). reflexivity. Qed.

Lemma suf_len b b' s s' : agree_suf b b' s s' -> b <= nlen s -> b' <= nlen s' -> nlen s' = nlen s - b + b'.
Proof.
  unfold agree_suf. intros H Hb Hb'.
  assert (nlen (nskipn b' s') = nlen (nskipn b s)) as E by (rewrite H; reflexivity).
  rewrite !nlen_nskipn in E. lia.
Qed.

(* starts_with looks only at the first |p| bytes *)
Lemma starts_with_firstn p l : starts_with p l = starts_with p (firstn (length p) l).
Proof.
  revert l. induction p as [|x p IH]; intros l; [reflexivity|].
  destruct l as [|y l]; [reflexivity|]. cbn [length firstn starts_with]. rewrite <- IH. reflexivity.
Qed.

Lemma starts_with_nfirstn p l : starts_with p l = starts_with p (nfirstn (nlen p) l).
Proof. unfold nfirstn, nlen. rewrite Nat2N.id. apply starts_with_firstn. Qed.

Lemma pre_starts_with a s s' p i : agree_pre a s s' -> i + nlen p <= a ->
  starts_with p (nskipn i s') = starts_with p (nskipn i s).
Proof.
  intros H Hi. rewrite (starts_with_nfirstn p (nskipn i s')), (starts_with_nfirstn p (nskipn i s)).
  replace (nlen p) with (i + nlen p - i) by lia. rewrite (pre_piece a s s' i (i + nlen p) H Hi). reflexivity.
Qed.

(* forallb over pieces *)
Lemma forallb_nfirstn {f : N -> bool} n l : forallb f l = true -> forallb f (nfirstn n l) = true.
Proof.
  unfold nfirstn. generalize (N.to_nat n) as k. intros k. revert l.
  induction k as [|k IH]; intros l H; [reflexivity|].
  destruct l as [|x l]; [reflexivity|]. cbn [firstn forallb] in *.
  apply andb_true_iff in H. destruct H as [H1 H2]. rewrite H1. cbn [andb]. apply IH. exact H2.
Qed.

Lemma forallb_nskipn {f : N -> bool} n l : forallb f l = true -> forallb f (nskipn n l) = true.
Proof.
  unfold nskipn. generalize (N.to_nat n) as k. intros k. revert l.
  induction k as [|k IH]; intros l H; [exact H|].
  destruct l as [|x l]; [reflexivity|]. cbn [skipn forallb] in *.
  apply andb_true_iff in H. destruct H as [H1 H2]. apply IH. exact H2.
Qed.

Lemma forallb_app_iff {f : N -> bool} a b : forallb f (a ++ b) = true <-> forallb f a = true /\ forallb f b = true.
Proof. rewrite forallb_app. apply andb_true_iff. Qed.

(* the first byte *)
Lemma head_nnth (l : list N) : nnth l 0 = match l with c :: _ => Some c | [] => None end.
Proof. destruct l; reflexivity. Qed.

Lemma agree_pre_app_r s t : agree_pre (nlen s) s (s ++ t).
Proof. unfold agree_pre. rewrite nfirstn_app_exact. symmetry. apply nfirstn_all. lia. Qed.

Lemma agree_pre_sym a s s' : agree_pre a s s' -> agree_pre a s' s.
Proof. unfold agree_pre. intros H. symmetry. exact H. Qed.

Lemma agree_pre_trans a s1 s2 s3 : agree_pre a s1 s2 -> agree_pre a s2 s3 -> agree_pre a s1 s3.
Proof. unfold agree_pre. intros H1 H2. rewrite H2. exact H1. Qed.

Lemma nskipn_cons_of_nnth l i c : nnth l i = Some c -> nskipn i l = c :: nskipn (i + 1) l.
Proof.
  intros H. replace (i + 1) with (1 + i) by lia. rewrite <- nskipn_nskipn.
  rewrite <- (N.add_0_r i) in H. rewrite <- nnth_nskipn in H.
  destruct (nskipn i l) as [|y r]; [discriminate|]. cbn in H. inversion H; subst. reflexivity.
Qed.
