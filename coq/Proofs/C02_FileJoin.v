(* Proofs/C02_FileJoin.v - L1 for joins that involve the file scheme:
     - file-scheme references that do not consult the base (the base is not a file URL, or two slashes follow
       "file:"): parse_url (Some b) input = parse_url None input (join_file_abs_eq);
     - EVERY reference without a scheme or with the file scheme against a canonical file base (join_file_base,
       through parse_file_base): the two-slash arm (file host state), the one-slash arm (the base's host is kept
       unless the reference starts with a drive letter; base_first_segment of a canonical base is no drive letter),
       the empty / query / fragment arms, the path arm (shorten_path pops the base's last segment, the path loop
       runs from  front "/" seg "/" ... "/" : loop_out_g, the generalisation of C02_FileParse.loop_out to a
       non-empty segment list through loop_inv_f) and the drive-letter arm (the base is ignored).
   Results outside Known_file_drive are FileCanon. *)
From RU Require Import Proofs.C15_Ser.
From Coq Require Import String.
From RU Require Import Base.Prelude Base.Utf8 Base.Utf8Facts Base.Outcome_c15 Model.AsciiSet Gen.Tables
  Model.PercentEncoding Model.HostT Model.Host Model.UrlRecord Model.Parser Model.Setters Model.WF
  Proofs.ListN Proofs.C14_Set Proofs.C14_Enc Proofs.C14_Views Proofs.C02_Enc Proofs.C02_Parts Proofs.C02_Opaque Proofs.C02_Path Proofs.C02_PathL1 Proofs.C02_Reach
  Proofs.C02_AuthParts Proofs.C02_Auth Proofs.C02_AuthWf Proofs.C02_PathSp Proofs.C02_AuthSp Proofs.C02_AuthMain
  Proofs.C02_Hist Proofs.C02_SetQF Proofs.C02_Canon Proofs.C02_JoinTail Proofs.C02_JoinAbs Proofs.C02_JoinPath Proofs.C02_Ovr Proofs.C02_Reach7
  Proofs.C02_File Proofs.C02_FileL1 Proofs.C02_FileCanon Proofs.C02_FileParse Proofs.C02_FileSet.
Open Scope N_scope.
Open Scope list_scope.

(* two slashes (or back-slashes) lead the text behind "file:" *)
Definition two_slashes (rem : list N) : bool :=
  match inp_split_first rem with
  | (Some c, af) => is_slash_or_bslash c
                    && match inp_split_first af with (Some c2, _) => is_slash_or_bslash c2 | _ => false end
  | _ => false
  end.

(* file-scheme references that do not consult the base: the base is not a file URL, or two slashes follow "file:" *)
Definition file_abs_ref (b : url) (input : list N) : bool :=
  match parse_scheme CUrlParser (input_new_trim_c0 input) with
  | Some (sch, rem) =>
      match scheme_type_of sch with
      | STFile => negb (list_eqb (b_scheme b) s_file) || two_slashes rem
      | _ => false
      end
  | None => false
  end.

Lemma file_abs_ref_file b input : file_abs_ref b input = true -> file_input input = true.
Proof.
  unfold file_abs_ref, file_input. destruct (parse_scheme CUrlParser (input_new_trim_c0 input)) as [[sch rem]|]; [|discriminate].
  destruct (scheme_type_of sch); [reflexivity | discriminate | discriminate].
Qed.

Theorem join_file_abs_eq dbg hp hpo hd ovr b input : file_abs_ref b input = true ->
  parse_url dbg hp hpo hd ovr (Some b) input = parse_url dbg hp hpo hd ovr None input.
Proof.
  unfold file_abs_ref, parse_url. destruct (parse_scheme CUrlParser (input_new_trim_c0 input)) as [[sch rem]|]; [|discriminate].
  unfold parse_with_scheme. destruct (to_u32 (nlen sch)) as [se| |]; cbn [pbind]; try reflexivity.
  destruct (scheme_type_of sch); [|discriminate|discriminate].
  destruct (list_eqb (b_scheme b) s_file); cbn [negb orb]; [|reflexivity].
  unfold two_slashes, parse_file. destruct (inp_split_first rem) as [[c|] af]; [|discriminate].
  destruct (is_slash_or_bslash c); cbn [andb]; [|discriminate].
  destruct (inp_split_first af) as [[c2|] an]; [|discriminate].
  intros ->. reflexivity.
Qed.

(* pop_path for the file scheme on  FRONT ++ path  whose last segment is no drive letter *)
Lemma pop_path_pth_f FRONT segs last : no_slash last = true -> is_normalized_wdl last = false ->
  pop_path STFile (nlen FRONT) (FRONT ++ path_text segs last) = POk (Bs FRONT segs).
Proof.
  intros Hl Hw. unfold pop_path. rewrite nlen_app.
  replace (nlen FRONT <? nlen FRONT + nlen (path_text segs last)) with true
    by (unfold path_text, nlen; cbn [length]; lia).
  rewrite nskipn_app_len.
  set (T := [47] ++ segs_text segs).
  assert (path_text segs last = T ++ last) as ET by (unfold T, path_text; reflexivity). rewrite ET.
  assert (exists Y, T = Y ++ [47] /\ nlen Y + 1 = nlen T) as (Y & EY & LY).
  { unfold T. destruct (segs_text_ends segs) as [-> | [X EX]].
    - exists []. split; reflexivity.
    - exists ([47] ++ X). rewrite EX. split; [rewrite <- app_assoc; reflexivity | len_lia]. }
  assert (rfind 47 (T ++ last) = Some (nlen Y)) as ->.
  { rewrite EY, <- app_assoc. cbn [app]. apply rfind_app_last. exact Hl. }
  replace (nlen FRONT + nlen Y + 1) with (nlen (FRONT ++ T)) by (rewrite nlen_app; lia).
  rewrite app_assoc. rewrite nskipn_app_len. rewrite Hw. cbn [st_is_file andb]. f_equal. unfold truncate.
  rewrite nfirstn_app_len. unfold Bs, T. rewrite <- !app_assoc. reflexivity.
Qed.

Lemma shorten_path_pth_f FRONT segs last : no_slash last = true -> is_normalized_wdl last = false ->
  shorten_path STFile (nlen FRONT) (FRONT ++ path_text segs last) = POk (Bs FRONT segs).
Proof.
  intros Hl Hw. rewrite shorten_file_pop.
  - exact (pop_path_pth_f FRONT segs last Hl Hw).
  - apply N.eqb_neq. rewrite nlen_app. unfold path_text. rewrite nlen_cons. lia.
  - rewrite nskipn_app_len. unfold path_text. eexists. reflexivity.
Qed.

Lemma like_not_nwdl s : wdl_like s = false -> is_normalized_wdl s = false.
Proof.
  intros H. destruct (is_normalized_wdl s) eqn:E; [|reflexivity].
  unfold is_normalized_wdl in E. apply andb_true_iff in E. destruct E as [E _].
  rewrite (is_wdl_like s E) in H. discriminate H.
Qed.

(* the file path loop from  pre "/" seg "/" ... "/" : the generalisation of C02_FileParse.loop_out *)
Section LoopOutG.
Variable dbg : bool.
Variable pre : list N.
Notation ps := (nlen pre).

Lemma loop_out_g l segs hh s' hh' rem : usv_list l -> forallb good_seg_sp segs = true ->
  parse_path_loop dbg CUrlParser STFile ps l (Bs pre segs) (nlen (Bs pre segs)) [] hh = POk (s', hh', rem) ->
  usv_list rem /\ (path_good pre hh s' hh' \/ path_drive pre hh s' hh').
Proof.
  intros Hu Hs H. rewrite <- (app_nil_r (Bs pre segs)) in H at 1.
  destruct (loop_inv_f pre dbg l segs [] [] hh s' hh' rem Hu pend_nil_ok Hs eq_refl eq_refl eq_refl (fun _ => eq_refl) H) as [R1 R2].
  split; [rewrite R1; apply usv_cbb_rest; exact Hu|].
  destruct R2 as [(segs' & last' & -> & G1 & G2 & G3) | (a & Ha & X & ->)].
  - left. destruct (fixup_norm pre segs' last' G1 G2) as (segs2 & last2 & E & F1 & F2 & F3).
    exists segs2, last2. rewrite E. repeat split; assumption.
  - right. exists a, X. split; [exact Ha|]. unfold P0. rewrite <- app_assoc. reflexivity.
Qed.

(* one leading slash: the path state sees the slash itself *)
Lemma loop_one_slash_g l : forall c af hh, inp_split_first l = (Some c, af) -> is_slash_or_bslash c = true ->
  parse_path_loop dbg CUrlParser STFile ps l pre ps [] hh
  = parse_path_loop dbg CUrlParser STFile ps af (pre ++ [47]) (nlen (pre ++ [47])) [] hh.
Proof.
  induction l as [|x r IH]; intros c af hh E Hc; [discriminate E|].
  destruct (is_tnl x) eqn:Et.
  - unfold inp_split_first in E. rewrite inp_next_tnl in E by exact Et. fold (inp_split_first r) in E.
    cbn [parse_path_loop]. rewrite Et. cbn [push_pending]. exact (IH c af hh E Hc).
  - rewrite inp_split_first_cons in E by exact Et. inversion E; subst x af.
    cbn [parse_path_loop]. rewrite Et. cbn [ctx_eqb negb st_is_special andb].
    unfold is_slash_or_bslash in Hc. rewrite andb_true_r. rewrite Hc. cbn [push_pending].
    rewrite (finish_plain_f dbg pre (pre ++ [47]) ps true hh []); [reflexivity | | reflexivity | reflexivity | reflexivity].
    rewrite nlen_app. replace (ps + nlen [47] - 1) with ps by (unfold nlen; cbn [length]; lia).
    rewrite <- (app_nil_l [47]). rewrite <- (N.add_0_r ps) at 2. change 0 with (nlen (@nil N)). apply slice_mid.
Qed.
End LoopOutG.

(* ---------- the accessors parse_file uses on a canonical file base ---------- *)
Section BaseAcc.
Variable hd : host -> list N.
Notation file_curl := (file_curl hd).
Notation file_front := (file_front hd).
Notation file_pre := (file_pre hd).

Lemma file_curl_mpath ho T q f : path (file_curl ho T q f) = Some T.
Proof.
  unfold path, file_curl, qf_url, u_slice, u_slice_from. cbn [query_start fragment_start path_start ser].
  unfold C02_File.file_pre. rewrite <- !app_assoc.
  destruct q as [x|]; cbn [qf_qs].
  - rewrite nlen_app. apply slice_mid.
  - destruct f as [y|]; cbn [qf_fs qf_qtext].
    + rewrite nlen_app. replace (nlen (file_front ho) + nlen T + nlen (@nil N)) with (nlen (file_front ho) + nlen T)
        by (unfold nlen; cbn [length]; lia).
      apply slice_mid.
    + rewrite slice_from_o_some by (rewrite nlen_app; lia). rewrite nskipn_app_len.
      unfold qf_text. cbn [qf_qtext qf_ftext app]. rewrite app_nil_r. reflexivity.
Qed.

Lemma file_first_segment ho segs last q f : forallb fseg_ok segs = true -> fseg_ok last = true ->
  exists seg, base_first_segment (file_curl ho (path_text segs last) q f) = Some seg /\ is_normalized_wdl seg = false.
Proof.
  intros Hs Hl. unfold base_first_segment. rewrite file_curl_mpath. unfold path_text, split_on.
  rewrite split_on_aux_segs.
  2:{ apply good_segs_sp_no_slash. apply fsegs_ok_sp. exact Hs. }
  2:{ exact (proj1 (proj2 (good_seg_sp_parts last (fseg_ok_sp last Hl)))). }
  destruct segs as [|s r]; cbn [app].
  - exists last. split; [reflexivity | apply like_not_nwdl; apply fseg_ok_like; exact Hl].
  - cbn [forallb] in Hs. apply andb_true_iff in Hs. destruct Hs as [Hs _].
    exists s. split; [reflexivity | apply like_not_nwdl; apply fseg_ok_like; exact Hs].
Qed.

Lemma file_host_str h T q f : h <> HDomain [] -> host_str (file_curl (Some h) T q f) = Some (Some (hd h)).
Proof.
  intros Hne. unfold host_str.
  assert (has_host (file_curl (Some h) T q f) = true) as ->.
  { unfold has_host, C02_File.file_curl, qf_url. cbn [hosti fhost_hi]. destruct h as [[|c d]|a|pcs]; [contradiction | reflexivity ..]. }
  unfold u_slice, C02_File.file_curl, qf_url. cbn [ser host_start host_end].
  unfold C02_File.file_pre, C02_File.file_front. cbn [fhost_text]. rewrite <- !app_assoc. rewrite nlen_app.
  change 7 with (nlen s_file_css). rewrite slice_mid. reflexivity.
Qed.
End BaseAcc.

Section ParseFileBase.
Variable dbg : bool.
Variable hp hpo : list N -> result host.
Variable hd : host -> list N.
Hypothesis HRT : HostRT hp hpo hd.
Hypothesis HAb : host_above hp hpo hd.
Hypothesis HNE : forall s, hp s <> Ok (HDomain []).
Hypothesis HW : host_no_wdl hp hd.
Variable ovr : option (list N -> list N).

Notation FileCanon := (FileCanon hp hd).
Notation file_curl := (file_curl hd).
Notation file_front := (file_front hd).
Notation file_pre := (file_pre hd).
Notation file_ok := (file_ok hp hd).

Lemma wqf_file ho X rem :
  with_query_and_fragment ovr CUrlParser STFile 4 7 7 (nlen (file_front ho)) (fhost_hi ho) None (nlen (file_front ho))
    (file_front ho ++ X) rem
  = (' (s3, qs, fs) <~ parse_query_and_fragment ovr CUrlParser STFile 4 (file_front ho ++ X) rem ;;
     POk (file_url s3 7 (nlen (file_front ho)) (fhost_hi ho) qs fs)).
Proof.
  unfold with_query_and_fragment.
  replace (nlen (file_front ho) =? 4 + 1) with false by (symmetry; apply N.eqb_neq; rewrite file_front_len; lia).
  destruct (nlen (file_front ho) =? 4 + 3) eqn:E7; cbn [andb]; [|reflexivity].
  apply N.eqb_eq in E7. rewrite E7. change (4 + 3 - 4) with 3.
  unfold C02_File.file_front, s_file_css, s_css. rewrite <- !app_assoc. change 4 with (nlen s_file) at 1.
  rewrite nskipn_app_len. reflexivity.
Qed.

Lemma file_base_triple ho segs last q0 f0 (w : bool) : file_ok ho segs last q0 f0 ->
  exists ho', (ho' = ho \/ ho' = None) /\
    (if w then
       match base_first_segment (file_curl ho (path_text segs last) q0 f0) with
       | Some seg =>
           if is_normalized_wdl seg then (s_file_css ++ [47] ++ seg, 7, HI_None)
           else match host_str (file_curl ho (path_text segs last) q0 f0) with
                | Some (Some hs) => (s_file_css ++ hs, nlen (s_file_css ++ hs), hosti (file_curl ho (path_text segs last) q0 f0))
                | _ => (s_file_css, 7, HI_None)
                end
       | None => (s_file_css, 7, HI_None)
       end
     else (s_file_css, 7, HI_None)) = (file_front ho', nlen (file_front ho'), fhost_hi ho').
Proof.
  intros K. destruct w; [|exists None; split; [right; reflexivity | reflexivity]].
  destruct (file_first_segment hd ho segs last q0 f0 (fk_segs _ _ _ _ _ _ _ K) (fk_last _ _ _ _ _ _ _ K)) as (seg & -> & ->).
  destruct ho as [h|].
  - destruct (fk_host _ _ _ _ _ _ _ K) as (Hne & _). rewrite (file_host_str hd h _ q0 f0 Hne).
    exists (Some h). split; [left; reflexivity | reflexivity].
  - exists None. split; [left; reflexivity | reflexivity].
Qed.

Lemma file_front_bound ho ho' segs last q0 f0 : file_ok ho segs last q0 f0 -> (ho' = ho \/ ho' = None) ->
  fhost_ok hp hd ho' /\ nlen (file_front ho') <= U32_MAX_P.
Proof.
  intros K [-> | ->]; [split; [exact (fk_host _ _ _ _ _ _ _ K) | exact (fk_b1 _ _ _ _ _ _ _ K)]|].
  split; [exact I | vm_compute; discriminate].
Qed.

(* the path arm: the reference is merged with the base path *)
Lemma file_path_arm ho segs last q0 f0 l u : file_ok ho segs last q0 f0 -> usv_list l ->
  (s1 <~ shorten_path STFile (nlen (file_front ho)) (file_front ho ++ path_text segs last) ;;
   ' (s2, _, rem) <~ parse_path dbg CUrlParser STFile true (nlen (file_front ho)) s1 l ;;
   with_query_and_fragment ovr CUrlParser STFile 4 7 7 (nlen (file_front ho)) (fhost_hi ho) None (nlen (file_front ho)) s2 rem)
  = POk u -> Known_file_drive u = false -> FileCanon u.
Proof.
  intros K Hl H Hk. destruct K as [Kh Ksegs Klast Kfirst Kq Kf Kb1 Kbq Kbf].
  rewrite shorten_path_pth_f in H.
  2:{ exact (proj1 (proj2 (good_seg_sp_parts last (fseg_ok_sp last Klast)))). }
  2:{ apply like_not_nwdl. apply fseg_ok_like. exact Klast. }
  cbn [pbind] in H. unfold parse_path in H.
  destruct (parse_path_loop dbg CUrlParser STFile (nlen (file_front ho)) l (Bs (file_front ho) segs)
              (nlen (Bs (file_front ho) segs)) [] true) as [[[s2 hh2] rem]| |] eqn:E; cbn [pbind] in H; try discriminate H.
  destruct (loop_out_g dbg (file_front ho) l segs true s2 hh2 rem Hl (fsegs_ok_sp segs Ksegs) E) as [Hrem R].
  assert (exists X, s2 = file_front ho ++ X) as [X EX].
  { destruct R as [(segs' & last' & -> & _) | (a & Y & _ & ->)]; eexists; reflexivity. }
  rewrite EX in H. rewrite wqf_file in H. rewrite <- EX in H.
  exact (file_end hp hd ovr ho true s2 hh2 rem u Kh Kb1 Hrem R H Hk).
Qed.

Theorem parse_file_base ho segs last q0 f0 l u : file_ok ho segs last q0 f0 -> usv_list l ->
  parse_file dbg hp hd ovr CUrlParser STFile (Some (file_curl ho (path_text segs last) q0 f0)) l = POk u ->
  Known_file_drive u = false -> FileCanon u.
Proof.
  intros K Hl H Hk. unfold parse_file in H.
  destruct (inp_split_first l) as [fc af] eqn:E1.
  destruct (match fc with Some c => is_slash_or_bslash c | None => false end) eqn:Es1.
  - destruct fc as [c|]; [|discriminate Es1]. pose proof (inp_split_first_usv l c af Hl E1) as Haf.
    destruct (inp_split_first af) as [nc an] eqn:E2.
    destruct (match nc with Some c => is_slash_or_bslash c | None => false end) eqn:Es2.
    + destruct nc as [c2|]; [|discriminate Es2]. pose proof (inp_split_first_usv af c2 an Haf E2) as Han.
      exact (file_host_state dbg hp hpo hd HRT HAb HNE HW ovr an u Han H Hk).
    + destruct (file_base_triple ho segs last q0 f0 (negb (starts_with_wdl_segment af)) K) as (ho' & Hho' & Et).
      rewrite Et in H. clear Et. destruct (file_front_bound ho ho' segs last q0 f0 K Hho') as [Kh' Kb'].
      unfold parse_path in H. rewrite (loop_one_slash_g dbg (file_front ho') l c af false E1 Es1) in H.
      destruct (parse_path_loop dbg CUrlParser STFile (nlen (file_front ho')) af (file_front ho' ++ [47])
                  (nlen (file_front ho' ++ [47])) [] false) as [[[s2 hh2] rem]| |] eqn:E; cbn [pbind] in H; try discriminate H.
      destruct (loop_out dbg (file_front ho') af false s2 hh2 rem Haf E) as [Hrem R].
      exact (file_end hp hd ovr ho' false s2 hh2 rem u Kh' Kb' Hrem R H Hk).
  - destruct fc as [c|].
    + destruct (c =? 63) eqn:E63.
      * unfold C02_File.file_curl in H. rewrite before_query_qf in H.
        change (scheme_end (qf_url (file_pre ho (path_text segs last)) 4 7 7 (nlen (file_front ho)) (fhost_hi ho) None
                                   (nlen (file_front ho)) q0 f0)) with 4 in H.
        destruct (parse_query_and_fragment ovr CUrlParser STFile 4 (file_pre ho (path_text segs last)) l) as [[[s' qs] fs]| |] eqn:Ep;
          cbn [pbind] in H; try discriminate H.
        apply pqf_out_g in Ep; [|exact Hl]. destruct Ep as (q & f & -> & -> & -> & Bq & Bf & Cq & Cf).
        injection H as <-.
        change (url_with (qf_url (file_pre ho (path_text segs last)) 4 7 7 (nlen (file_front ho)) (fhost_hi ho) None
                                 (nlen (file_front ho)) q0 f0)
                  (file_pre ho (path_text segs last) ++ qf_text q f)
                  (qf_qs (nlen (file_pre ho (path_text segs last))) q)
                  (qf_fs (nlen (file_pre ho (path_text segs last))) q f))
          with (file_curl ho (path_text segs last) q f).
        exact (file_repl hp hd ho segs last q0 f0 q f K Cq Cf Bq Bf).
      * destruct (c =? 35) eqn:E35.
        -- unfold C02_File.file_curl in H.
           destruct (fragment_only_qf _ _ _ _ _ _ _ _ q0 f0 l u Hl H) as (F & -> & CF & BF).
           apply (file_repl hp hd ho segs last q0 f0); [exact K | exact (fk_q _ _ _ _ _ _ _ K) | exact CF | exact (fk_bq _ _ _ _ _ _ _ K) | exact BF].
        -- destruct (negb (starts_with_wdl_segment l)).
           ++ unfold C02_File.file_curl in H. rewrite before_query_qf in H.
              cbn [qf_url scheme_end username_end host_start host_end hosti port path_start] in H.
              exact (file_path_arm ho segs last q0 f0 l u K Hl H Hk).
           ++ exact (file_no_slash dbg hp hd ovr l u Hl H Hk).
    + injection H as <-. unfold C02_File.file_curl. rewrite before_fragment_qf.
      match goal with |- C02_FileCanon.FileCanon _ _ ?t =>
        replace t with (file_curl ho (path_text segs last) q0 None) end.
      2:{ unfold C02_File.file_curl, url_with, qf_url, qf_text.
          cbn [qf_ftext qf_fs scheme_end username_end host_start host_end hosti port path_start query_start].
          rewrite app_nil_r. reflexivity. }
      apply (file_repl hp hd ho segs last q0 f0); [exact K | exact (fk_q _ _ _ _ _ _ _ K) | exact I | exact (fk_bq _ _ _ _ _ _ _ K) | exact I].
Qed.

(* every reference that has no scheme or the file scheme, against a canonical file base *)
Theorem join_file_base b input u : FileCanon b -> usv_list input -> nonfile_input input = false ->
  parse_url dbg hp hpo hd ovr (Some b) input = POk u -> Known_file_drive u = false -> FileCanon u.
Proof.
  intros [ho segs last q0 f0 K] Hu Hn H Hk.
  pose proof (trim_usv input Hu) as Hl.
  destruct (file_pre_sch hd ho (path_text segs last)) as [S1 S2].
  pose proof (file_curl_cbb hd ho (path_text segs last) q0 f0) as Hcbb.
  assert (b_scheme (file_curl ho (path_text segs last) q0 f0) = s_file) as Hbs
    by (unfold C02_File.file_curl; exact (b_scheme_qf _ _ _ _ _ _ _ _ q0 f0 s_file S1 S2)).
  unfold nonfile_input in Hn. unfold parse_url in H. set (l := input_new_trim_c0 input) in *.
  destruct (parse_scheme CUrlParser l) as [[sch rem]|] eqn:Hs.
  - unfold parse_with_scheme in H. destruct (to_u32 (nlen sch)) as [se| |]; cbn [pbind] in H; try discriminate H.
    destruct (scheme_type_of sch); try discriminate Hn.
    rewrite Hbs in H. change (list_eqb s_file s_file) with true in H. cbv iota in H.
    exact (parse_file_base ho segs last q0 f0 rem u K (scheme_rem_usv input sch rem Hu Hs) H Hk).
  - destruct (inp_starts_with_char 35 l).
    + unfold C02_File.file_curl in H.
      destruct (fragment_only_qf _ _ _ _ _ _ _ _ q0 f0 l u Hl H) as (F & -> & CF & BF).
      apply (file_repl hp hd ho segs last q0 f0); [exact K | exact (fk_q _ _ _ _ _ _ _ K) | exact CF | exact (fk_bq _ _ _ _ _ _ _ K) | exact BF].
    + rewrite Hcbb in H. rewrite Hbs in H. change (scheme_type_of s_file) with STFile in H. cbn [st_is_file] in H.
      exact (parse_file_base ho segs last q0 f0 l u K Hl H Hk).
Qed.
End ParseFileBase.
