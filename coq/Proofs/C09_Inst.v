(* Proofs/C09_Inst.v - the hypothesis records that the URL-level theorems put on ABSTRACT host functions
   (C02: HostRT / host_above / HostOK of C02_Reach.v, C05: HostOK of C05_Parser.v and IpOK, C06: host_disp_ok),
   discharged for the CONCRETE host model of Model/Host.v - host_parse idna, host_parse_opaque, host_display -
   relative to IdnaOK idna (Proofs/C09_Host.v) only.  The clauses that are FALSE of the host model are
   refuted by witnesses (section F). *)
From RU Require Import Base.Prelude Base.Utf8 Base.Utf8Facts Model.AsciiSet Gen.Tables Model.PercentEncoding
  Model.HostT Model.Host Model.UrlRecord Model.Parser Model.Setters
  Proofs.C14_Set Proofs.C14_Enc Proofs.C14_Views Proofs.C09_V6 Proofs.C09_V6rt Proofs.C09_V4 Proofs.C09_Wf
  Spec.WhatwgHost Proofs.C09_Host Proofs.C02_Opaque Proofs.C02_Reach Proofs.C02_AuthParts
  Proofs.C05_Enc Proofs.C05_Parser Proofs.C05_Setters Proofs.C06_Host Proofs.C16_RT6 Proofs.C16_RT6Model.

(* ================= A. the percent-encoding iterator on ARBITRARY lists ================= *)
(* C14 relates pe_display to the per-byte map for byte lists.  Host::parse_opaque is a hypothesis-free
   function of the model, and the hypothesis records quantify over every list of numbers, so the same is
   needed without `bytes`: a number >= 256 is "encoded" by an out-of-range slice of the table (nothing). *)
Lemma pe_next_any S bs c rest : pe_next S bs = Some (c, rest) ->
  encode_t S bs = c ++ encode_t S rest /\ (length rest < length bs)%nat.
Proof.
  destruct bs as [|b r]; cbn [pe_next]; [discriminate|].
  destruct (should_encode S b) eqn:E.
  - intros H. inversion H; subst. split; [|cbn [length]; lia].
    unfold encode_t. cbn [flat_map]. unfold enc1_t at 1. rewrite E. reflexivity.
  - destruct (span_keep S r) as [u rest'] eqn:Es. intros H. inversion H; subst.
    destruct (span_keep_spec _ _ _ _ Es) as (H1 & H2 & _ & H4 & _). split; [|cbn [length]; lia].
    unfold encode_t. cbn [flat_map]. unfold enc1_t at 1. rewrite E. cbn [app]. f_equal.
    fold (encode_t S r). rewrite H1. unfold encode_t. rewrite flat_map_app.
    fold (encode_t S u). rewrite H2. reflexivity.
Qed.

Lemma chunks_f_any n : forall S bs, (length bs <= n)%nat -> concat (pe_chunks_f n S bs) = encode_t S bs.
Proof.
  induction n as [|n IH]; intros S bs Hlen.
  - destruct bs; [reflexivity | cbn in Hlen; lia].
  - cbn [pe_chunks_f]. destruct (pe_next S bs) as [[c rest]|] eqn:En.
    + destruct (pe_next_any _ _ _ _ En) as (H1 & H3). cbn [concat]. rewrite IH by lia. symmetry. exact H1.
    + apply pe_next_none in En. subst. reflexivity.
Qed.

Theorem pe_display_any S bs : pe_display S bs = encode_t S bs.
Proof. unfold pe_display, pe_chunks. apply chunks_f_any. lia. Qed.

(* ================= B. Host::parse_opaque on every input ================= *)
Lemma enc_table_good : forallb good_opaque_char T_ENC_TABLE = true.
Proof. vm_compute. reflexivity. Qed.

Lemma in_firstn {A} (x : A) n : forall l, In x (firstn n l) -> In x l.
Proof.
  induction n as [|n IH]; intros l H; [destruct H|]. destruct l as [|y r]; [destruct H|].
  cbn [firstn In] in *. destruct H as [H|H]; [left; exact H | right; apply IH; exact H].
Qed.
Lemma in_skipn {A} (x : A) n : forall l, In x (skipn n l) -> In x l.
Proof.
  induction n as [|n IH]; intros l H; [exact H|]. destruct l as [|y r]; [destruct H|].
  cbn [skipn] in H. right. apply IH. exact H.
Qed.

Lemma enc_byte_good b x : In x (enc_byte b) -> good_opaque_char x = true.
Proof.
  unfold enc_byte. intros H. apply in_firstn, in_skipn in H.
  pose proof enc_table_good as G. rewrite forallb_forall in G. apply G. exact H.
Qed.

Lemma encode_t_good bs : (forall b, In b bs -> b < 128 -> is_invalid_host_char b = false) ->
  forallb good_opaque_char (encode_t T_CONTROLS bs) = true.
Proof.
  induction bs as [|b r IH]; intros Hin; [reflexivity|].
  unfold encode_t. cbn [flat_map]. fold (encode_t T_CONTROLS r). rewrite forallb_app.
  rewrite IH by (intros; apply Hin; [right|]; assumption). rewrite andb_true_r.
  unfold enc1_t. destruct (should_encode T_CONTROLS b) eqn:E.
  - apply forallb_forall. intros x Hx. exact (enc_byte_good b x Hx).
  - cbn [forallb]. rewrite andb_true_r. unfold good_opaque_char. rewrite E.
    assert (b < 128). { unfold should_encode in E. destruct (128 <=? b) eqn:E2; [discriminate|lia]. }
    rewrite Hin; [|left; reflexivity|assumption]. replace (b <? 128) with true by lia. reflexivity.
Qed.

(* the domain Host::parse_opaque returns consists of good characters - for EVERY input list *)
Lemma opaque_domain_good input d : host_parse_opaque_x input = XOk (HDomain d) ->
  forallb good_opaque_char d = true.
Proof.
  unfold host_parse_opaque_x. destruct (Host.starts_with 91 input).
  { intros H. destruct (bracketed_ok _ _ H) as (a & Ha & _). discriminate Ha. }
  destruct (existsb is_invalid_host_char input) eqn:Ei; [discriminate|]. intros H. inversion H; subst.
  rewrite pe_display_any. apply encode_t_good.
  intros b Hb Hlt. pose proof (utf8_ascii_origin _ _ Hb Hlt) as Hin.
  destruct (is_invalid_host_char b) eqn:E; [|reflexivity].
  assert (existsb is_invalid_host_char input = true) by (apply existsb_exists; exists b; tauto). congruence.
Qed.

Lemma opaque_ok_cases input h : host_parse_opaque_x input = XOk h ->
  (exists d, h = HDomain d /\ forallb good_opaque_char d = true) \/ (exists a, h = HIpv6 a /\ wf8 a).
Proof.
  intros H. destruct h as [d|a|ps].
  - left. exists d. split; [reflexivity|]. exact (opaque_domain_good input d H).
  - exfalso. unfold host_parse_opaque_x in H. destruct (Host.starts_with 91 input).
    + destruct (bracketed_ok _ _ H) as (x & Hx & _). discriminate Hx.
    + destruct (existsb is_invalid_host_char input); discriminate.
  - right. exists ps. split; [reflexivity|]. unfold host_parse_opaque_x in H. destruct (Host.starts_with 91 input).
    + destruct (bracketed_ok _ _ H) as (x & Hx & Hw). inversion Hx; subst. exact Hw.
    + destruct (existsb is_invalid_host_char input); discriminate.
Qed.

(* C09's opaque_display_rt without the hypothesis that the input is a list of scalar values *)
Theorem opaque_display_rt_any input h :
  host_parse_opaque_x input = XOk h -> host_parse_opaque_x (host_display h) = XOk h.
Proof.
  intros H. destruct (opaque_ok_cases input h H) as [(d & -> & Hd)|(a & -> & Hw)].
  - cbn [host_display]. apply good_opaque_fixed. exact Hd.
  - exact (proj2 (ipv6_display_rt (fun _ => None) a Hw)).
Qed.

(* ================= C. host texts ================= *)
(* printable ASCII without the delimiters of the authority, brackets and DEL *)
Definition hostc (c : N) : bool :=
  (32 <? c) && (c <? 127) && negb (memb c [58; 47; 92; 63; 35; 64; 91; 93]).

Definition term_ok (sp : bool) (rest : list N) : Prop :=
  match rest with [] => True | c :: _ => (c =? 58) || (c =? 47) || (c =? 63) || (c =? 35) || ((c =? 92) && sp) = true end.

Lemma host_scan_stop sp rest : forall acc, term_ok sp rest -> host_scan sp false acc rest = (rev acc, rest).
Proof.
  intros acc Hr. destruct rest as [|c r]; [reflexivity|]. cbn [host_scan]. cbn [term_ok] in Hr.
  assert (is_tnl c = false) as Ht by (unfold is_tnl; destruct sp; lia). rewrite Ht. cbn [negb].
  assert (((c =? 58) && true) || ((c =? 92) && sp) || (c =? 47) || (c =? 63) || (c =? 35) = true) as E by (destruct sp; lia).
  rewrite E. reflexivity.
Qed.

Lemma host_scan_hostc sp s : forall acc rest, forallb hostc s = true -> term_ok sp rest ->
  host_scan sp false acc (s ++ rest) = (rev acc ++ s, rest).
Proof.
  induction s as [|c s IH]; intros acc rest Hs Hr.
  - cbn [app]. rewrite app_nil_r. apply host_scan_stop. exact Hr.
  - cbn [forallb] in Hs. apply andb_true_iff in Hs. destruct Hs as [Hc Hs].
    unfold hostc in Hc. cbn [memb] in Hc. cbn [app host_scan].
    assert (is_tnl c = false) as Ht by (unfold is_tnl; lia). rewrite Ht. cbn [negb].
    assert (((c =? 58) && true) || ((c =? 92) && sp) || (c =? 47) || (c =? 63) || (c =? 35) = false) as E by (destruct sp; lia).
    rewrite E. replace (c =? 91) with false by lia. replace (c =? 93) with false by lia.
    rewrite IH by assumption. cbn [rev]. rewrite <- app_assoc. reflexivity.
Qed.

Lemma hostc_plain sp c : hostc c = true -> C02_AuthParts.plainc sp c = true.
Proof. unfold hostc, C02_AuthParts.plainc, auth_delim, is_tnl. cbn [memb]. destruct sp; lia. Qed.

Lemma hostc_ok_byte c : hostc c = true -> ok_byte c.
Proof. unfold hostc, ok_byte. cbn [memb]. lia. Qed.

Lemma hostc_above c : hostc c = true -> above_space c = true.
Proof. unfold hostc, above_space, is_c0_or_space. cbn [memb]. lia. Qed.

Theorem hostc_text_ok s : s <> [] -> forallb hostc s = true ->
  host_text_ok s /\ forallb above_space s = true /\ Forall ok_byte s.
Proof.
  intros Hne Hs. split; [split; [|split; [exact Hne|split]]|split].
  - apply Forall_forall. intros c Hc. rewrite forallb_forall in Hs. specialize (Hs c Hc).
    unfold hostc, is_ascii in *. lia.
  - intros sp rest Hr. exact (host_scan_hostc sp s [] rest Hs Hr).
  - rewrite <- (app_nil_r s). rewrite scan_plain; [reflexivity|].
    apply (forallb_impl hostc); [apply hostc_plain | exact Hs].
  - apply (forallb_impl hostc); [apply hostc_above | exact Hs].
  - apply Forall_forall. intros c Hc. rewrite forallb_forall in Hs. apply hostc_ok_byte, Hs, Hc.
Qed.

(* bracketed texts: inside the brackets the scan does not stop at ':' *)
Lemma host_scan_inside_sp sp body : forall acc rest, forallb v6c body = true ->
  host_scan sp true acc (body ++ 93 :: rest) = host_scan sp false (93 :: rev body ++ acc) rest.
Proof.
  induction body as [|c body IH]; intros acc rest Hb.
  - cbn [app rev host_scan]. reflexivity.
  - cbn [forallb] in Hb. apply andb_true_iff in Hb. destruct Hb as [Hc Hb].
    apply v6c_facts in Hc. destruct Hc as (Ht0 & _ & _ & H47 & H92 & H63 & H35 & _ & H91 & H93).
    cbn [app host_scan]. rewrite Ht0.
    replace (c =? 92) with false by lia. replace (c =? 47) with false by lia.
    replace (c =? 63) with false by lia. replace (c =? 35) with false by lia.
    replace (c =? 91) with false by lia. replace (c =? 93) with false by lia.
    cbn [negb andb orb]. rewrite andb_false_r. cbn [orb].
    rewrite (IH (c :: acc) rest Hb). cbn [rev]. now rewrite <- app_assoc.
Qed.

Lemma v6c_plain sp c : v6c c = true -> C02_AuthParts.plainc sp c = true.
Proof. intros H. apply v6c_facts in H. unfold C02_AuthParts.plainc, auth_delim. destruct H as (-> & ?). destruct sp; lia. Qed.

Theorem bracket_text_ok body : forallb v6c body = true -> Forall (fun c => c <= 126) body ->
  host_text_ok (91 :: body ++ [93]) /\ forallb above_space (91 :: body ++ [93]) = true
  /\ Forall ok_byte (91 :: body ++ [93]).
Proof.
  intros Hb Hle.
  assert (Hall : forall c, In c (91 :: body ++ [93]) -> (c = 91 \/ c = 93) \/ (v6c c = true /\ c <= 126)).
  { intros c [<-|Hc]; [left; left; reflexivity|]. apply in_app_or in Hc. destruct Hc as [Hc|[<-|[]]].
    - right. rewrite forallb_forall in Hb. rewrite Forall_forall in Hle. split; [apply Hb | apply Hle]; exact Hc.
    - left. right. reflexivity. }
  split; [split; [|split; [discriminate|split]]|split].
  - apply Forall_forall. intros c Hc. unfold is_ascii. destruct (Hall c Hc) as [[->| ->]|[Hv _]]; try lia.
    apply v6c_facts in Hv. lia.
  - intros sp rest Hr.
    assert (E : (91 :: body ++ [93]) ++ rest = 91 :: body ++ 93 :: rest) by (cbn [app]; rewrite <- app_assoc; reflexivity).
    rewrite E.
    change (host_scan sp false [] (91 :: body ++ 93 :: rest)) with (host_scan sp true [91] (body ++ 93 :: rest)).
    rewrite (host_scan_inside_sp sp body [91] rest Hb). rewrite (host_scan_stop sp rest _ Hr).
    cbn [rev]. rewrite rev_app_distr, rev_involutive. cbn [rev app]. reflexivity.
  - rewrite <- (app_nil_r (91 :: body ++ [93])). rewrite scan_plain; [reflexivity|].
    apply forallb_forall. intros c Hc. destruct (Hall c Hc) as [[->| ->]|[Hv _]]; [reflexivity|reflexivity|].
    apply v6c_plain. exact Hv.
  - apply forallb_forall. intros c Hc. unfold above_space, is_c0_or_space.
    destruct (Hall c Hc) as [[->| ->]|[Hv _]]; [reflexivity|reflexivity|]. apply v6c_facts in Hv. lia.
  - apply Forall_forall. intros c Hc. unfold ok_byte.
    destruct (Hall c Hc) as [[->| ->]|[Hv Hl]]; [lia|lia|]. apply v6c_facts in Hv. lia.
Qed.

(* ---- the three kinds of text Display writes ---- *)
Lemma good_opaque_hostc_sweep : all_below 128 (fun c => negb (good_opaque_char c) || hostc c) = true.
Proof. vm_compute. reflexivity. Qed.

Lemma good_opaque_hostc c : good_opaque_char c = true -> hostc c = true.
Proof.
  intros H. assert (c < 128) as L by (unfold good_opaque_char in H; lia).
  pose proof (all_below_spec 128 _ good_opaque_hostc_sweep c L) as S. cbv beta in S. rewrite H in S. exact S.
Qed.

Lemma dom_char_hostc_sweep : all_below 128 (fun c => memb c T_HOST_IDNA_DENIED || hostc c) = true.
Proof. vm_compute. reflexivity. Qed.

Lemma dom_char_hostc c : dom_char_ok c -> hostc c = true.
Proof.
  intros [L H]. pose proof (all_below_spec 128 _ dom_char_hostc_sweep c L) as S. cbv beta in S. rewrite H in S. exact S.
Qed.

Lemma digit_dot_hostc c : is_digit c = true \/ c = 46 -> hostc c = true.
Proof. unfold is_digit, hostc. cbn [memb]. lia. Qed.

Lemma ipv4_display_hostc a : a < 4294967296 -> ipv4_display a <> [] /\ forallb hostc (ipv4_display a) = true.
Proof.
  intros Ha. destruct (ipv4_display_digits a Ha) as (Hd & Hn & _). split; [exact Hn|].
  apply forallb_forall. intros c Hc. rewrite Forall_forall in Hd. apply digit_dot_hostc, Hd, Hc.
Qed.

Lemma lower_hex_le c : is_lower_hex c = true -> c <= 126.
Proof. unfold is_lower_hex, is_digit. lia. Qed.

(* DEL is never written: pieces are lower-case hex, separators ':' *)
Lemma write_loop_le f : forall segs cs ce i out,
  Forall (fun x => x < 65536) segs -> write_ipv6_loop f segs cs ce i = Some out -> Forall (fun c => c <= 126) out.
Proof.
  induction f as [|f IH]; intros segs cs ce i out Hs H; cbn [write_ipv6_loop] in H.
  - destruct (8 <=? i)%Z; [inversion H; constructor | discriminate].
  - destruct (8 <=? i)%Z; [inversion H; constructor|].
    assert (P : forall j o, match nth_error segs (Z.to_nat j) with
                            | Some v => match write_ipv6_loop f segs cs ce (j + 1) with
                                        | Some rest => Some (hex4 v ++ (if (j <? 7)%Z then [58] else []) ++ rest)
                                        | None => None end
                            | None => None end = Some o -> Forall (fun c => c <= 126) o).
    { intros j o Hj. destruct (nth_error segs (Z.to_nat j)) as [v|] eqn:En; [|discriminate].
      destruct (write_ipv6_loop f segs cs ce (j + 1)) as [rest|] eqn:Er; [|discriminate].
      inversion Hj; subst. apply Forall_app. split.
      - assert (Hv : v < 65536) by (rewrite Forall_forall in Hs; apply Hs; eapply nth_error_In; exact En).
        destruct (hex4_facts v Hv) as (H1 & _). apply Forall_forall. intros c Hc.
        rewrite forallb_forall in H1. apply lower_hex_le, H1, Hc.
      - apply Forall_app. split; [destruct (j <? 7)%Z; repeat constructor; lia|].
        eapply IH; eassumption. }
    destruct (i =? cs)%Z.
    + destruct (ce <? 8)%Z.
      * match type of H with match ?X with _ => _ end = _ => destruct X as [rest|] eqn:E; [|discriminate] end.
        inversion H; subst. apply P in E. cbn [app]. constructor; [lia|].
        destruct (i =? 0)%Z; [constructor; [lia|]|]; exact E.
      * inversion H; subst. destruct (i =? 0)%Z; repeat constructor; lia.
    + apply P in H. exact H.
Qed.

Lemma write_ipv6_le a : Forall (fun x => x < 65536) a -> Forall (fun c => c <= 126) (write_ipv6 a).
Proof.
  intros H. unfold write_ipv6, write_ipv6_o. destruct (longest_zero_sequence a) as [cs ce].
  destruct (write_ipv6_loop 9 a cs ce 0) as [out|] eqn:E; [|constructor].
  eapply write_loop_le; eassumption.
Qed.

(* every well-formed IP value is displayed as a host text *)
Theorem ip_text_ok h : op_args_ok (OSetIpHost h) ->
  host_text_ok (host_display h) /\ forallb above_space (host_display h) = true /\ Forall ok_byte (host_display h).
Proof.
  destruct h as [d|a|ps]; cbn [op_args_ok]; [intros []| |].
  - intros Ha. cbn [host_display]. destruct (ipv4_display_hostc a Ha) as [Hn Hc]. exact (hostc_text_ok _ Hn Hc).
  - intros [Hl Hw]. cbn [host_display app].
    exact (bracket_text_ok (write_ipv6 ps) (proj1 (write_ipv6_chars ps Hw)) (write_ipv6_le ps Hw)).
Qed.

(* ================= D. what the two host parsers return ================= *)
Inductive host_shape : host -> Prop :=
| HS_dom d : d <> [] -> forallb hostc d = true -> host_shape (HDomain d)
| HS_empty : host_shape (HDomain [])
| HS_v4 a : a < 4294967296 -> host_shape (HIpv4 a)
| HS_v6 ps : wf8 ps -> host_shape (HIpv6 ps).

Lemma host_parse_x_shape idna input h : IdnaOK idna -> host_parse_x idna input = XOk h -> host_shape h /\ h <> HDomain [].
Proof.
  intros OK H. destruct h as [d|a|ps].
  - destruct (parse_domain idna input d H) as (H1 & H2 & _). split; [|intros E; inversion E; contradiction].
    apply HS_dom; [exact H2|]. pose proof (idna_out idna OK _ d H1) as Hout.
    apply forallb_forall. intros c Hc. rewrite Forall_forall in Hout. apply dom_char_hostc, Hout, Hc.
  - split; [|discriminate]. apply HS_v4. unfold host_parse_x in H. destruct (Host.starts_with 91 input).
    { destruct (bracketed_ok _ _ H) as (x & Hx & _). discriminate Hx. }
    destruct (idna (decode (utf8_encode input))) as [dom|]; [|discriminate].
    destruct dom as [|c dom']; [discriminate|].
    destruct (Host.ends_in_a_number (c :: dom')); [|discriminate].
    destruct (parse_ipv4addr (c :: dom')) as [x| | |] eqn:E; cbn [xr_map] in H; try discriminate.
    inversion H; subst. eapply parse_ipv4addr_bound. exact E.
  - split; [|discriminate]. apply HS_v6. unfold host_parse_x in H. destruct (Host.starts_with 91 input).
    + destruct (bracketed_ok _ _ H) as (x & Hx & Hw). inversion Hx; subst. exact Hw.
    + destruct (idna (decode (utf8_encode input))) as [dom|]; [|discriminate].
      destruct dom as [|c dom']; [discriminate|].
      destruct (Host.ends_in_a_number (c :: dom')); [|discriminate].
      destruct (parse_ipv4addr (c :: dom')); cbn [xr_map] in H; discriminate.
Qed.

Lemma host_parse_opaque_x_shape input h : host_parse_opaque_x input = XOk h -> host_shape h.
Proof.
  intros H. destruct (opaque_ok_cases input h H) as [(d & -> & Hd)|(a & -> & Hw)]; [|apply HS_v6; exact Hw].
  destruct d as [|c d]; [apply HS_empty|]. apply HS_dom; [discriminate|].
  apply (forallb_impl good_opaque_char); [apply good_opaque_hostc | exact Hd].
Qed.

(* the display of a host of one of the four shapes *)
Theorem shape_text h : host_shape h -> h <> HDomain [] ->
  host_text_ok (host_display h) /\ forallb above_space (host_display h) = true /\ Forall ok_byte (host_display h).
Proof.
  intros [d Hn Hc| |a Ha|ps Hw] Hne.
  - cbn [host_display]. exact (hostc_text_ok d Hn Hc).
  - contradiction.
  - apply ip_text_ok. exact Ha.
  - apply ip_text_ok. destruct Hw as [Hl Hb]. exact (conj Hl Hb).
Qed.

Lemma shape_above h : host_shape h -> forallb above_space (host_display h) = true.
Proof.
  intros Hs. destruct h as [[|c d]|a|ps]; [reflexivity| | |];
    apply (fun N => proj1 (proj2 (shape_text _ Hs N))); discriminate.
Qed.

Lemma shape_ok_bytes h : host_shape h -> Forall ok_byte (host_display h).
Proof.
  intros Hs. destruct h as [[|c d]|a|ps]; [constructor| | |];
    apply (fun N => proj2 (proj2 (shape_text _ Hs N))); discriminate.
Qed.

(* ================= E. the records, for the host model ================= *)
Section Records.
Variable idna : list N -> option (list N).
Hypothesis OK : IdnaOK idna.

Lemma hp_clause s h : host_parse idna s = Ok h -> h <> HDomain [] ->
  host_text_ok (host_display h) /\ host_parse idna (host_display h) = Ok h.
Proof.
  intros H _. pose proof (host_parse_ok_x _ _ _ H) as Hx.
  destruct (host_parse_x_shape idna s h OK Hx) as [Hs Hne]. split; [exact (proj1 (shape_text h Hs Hne))|].
  apply x_ok_host_parse. exact (special_display_rt idna OK s h Hx).
Qed.

Lemma hpo_clause s h : host_parse_opaque s = Ok h -> h <> HDomain [] ->
  host_text_ok (host_display h) /\ host_parse_opaque (host_display h) = Ok h.
Proof.
  intros H Hne. pose proof (host_parse_opaque_ok_x _ _ H) as Hx.
  split; [exact (proj1 (shape_text h (host_parse_opaque_x_shape s h Hx) Hne))|].
  apply x_ok_host_parse_opaque. exact (opaque_display_rt_any s h Hx).
Qed.

Lemma hpo_nil : host_parse_opaque [] = Ok (HDomain []).
Proof. reflexivity. Qed.

(* 1. HostRT (C02_AuthParts.v): the four parsing clauses *)
Theorem model_HostRT : HostRT (host_parse idna) host_parse_opaque host_display.
Proof. split; [exact hp_clause | split; [exact hpo_clause | split; [reflexivity | exact hpo_nil]]]. Qed.

(* 2. host_above: every displayed host is above U+0020 *)
Theorem model_host_above : host_above (host_parse idna) host_parse_opaque host_display.
Proof.
  split; intros s h H.
  - apply shape_above. exact (proj1 (host_parse_x_shape idna s h OK (host_parse_ok_x _ _ _ H))).
  - apply shape_above. exact (host_parse_opaque_x_shape s h (host_parse_opaque_ok_x _ _ H)).
Qed.

(* 3. HostOK of C05 (C05_Parser.v): whatever the parser can write as a host prints inside 0x21..0x7E *)
Theorem model_HostOK_C05 : C05_Parser.HostOK (host_parse idna) host_parse_opaque host_display.
Proof.
  intros h [->|[[s Hs]|[s Hs]]]; [constructor| |]; apply shape_ok_bytes.
  - exact (proj1 (host_parse_x_shape idna s h OK (host_parse_ok_x _ _ _ Hs))).
  - exact (host_parse_opaque_x_shape s h (host_parse_opaque_ok_x _ _ Hs)).
Qed.

(* 4. host_disp_ok of C06 / C05 (the text matches the kind; it does not start with ':' or '@'), for every
   host a parser returns and every IP value of Url::set_ip_host *)
Lemma shape_disp_ok h : host_shape h -> host_disp_ok host_display h.
Proof.
  intros Hs. unfold host_disp_ok. destruct h as [[|c d]|a|ps]; cbn [hi_of_host host_display].
  - reflexivity.
  - inversion Hs as [d0 Hn Hc| | |]; subst. cbn [forallb] in Hc. apply andb_true_iff in Hc. destruct Hc as [Hc _].
    exists c, d. split; [reflexivity|]. unfold hostc in Hc. cbn [memb] in Hc. lia.
  - inversion Hs as [|  |a0 Ha|]; subst. destruct (ipv4_display_hostc a Ha) as [Hn Hc].
    destruct (ipv4_display a) as [|c r]; [contradiction|]. cbn [forallb] in Hc. apply andb_true_iff in Hc. destruct Hc as [Hc _].
    exists c, r. split; [reflexivity|]. unfold hostc in Hc. cbn [memb] in Hc. lia.
  - exists 91, (write_ipv6 ps ++ [93]). split; [reflexivity|]. lia.
Qed.

Theorem model_host_disp_ok h :
  (exists s, host_parse idna s = Ok h) \/ (exists s, host_parse_opaque s = Ok h) \/ op_args_ok (OSetIpHost h) ->
  host_disp_ok host_display h.
Proof.
  intros [[s H]|[[s H]|H]]; apply shape_disp_ok.
  - exact (proj1 (host_parse_x_shape idna s h OK (host_parse_ok_x _ _ _ H))).
  - exact (host_parse_opaque_x_shape s h (host_parse_opaque_ok_x _ _ H)).
  - destruct h as [d|a|ps]; cbn [op_args_ok] in H; [destruct H | apply HS_v4; exact H | apply HS_v6; exact H].
Qed.

(* 5. the clauses of HostOK of C02_Reach.v that hold: all but `hp [] = Ok (HDomain [])` and the
   Host::parse_opaque half of the set_ip_host clause for IPv4 values (section F) *)
Theorem model_HostOK_C02_true :
  (forall s h, host_parse idna s = Ok h -> h <> HDomain [] ->
     host_text_ok (host_display h) /\ host_parse idna (host_display h) = Ok h)
  /\ (forall s h, host_parse_opaque s = Ok h -> h <> HDomain [] ->
     host_text_ok (host_display h) /\ host_parse_opaque (host_display h) = Ok h)
  /\ (forall h, op_args_ok (OSetIpHost h) ->
     host_text_ok (host_display h) /\ host_parse idna (host_display h) = Ok h
     /\ (forall ps, h = HIpv6 ps -> host_parse_opaque (host_display h) = Ok h))
  /\ host_display (HDomain []) = [] /\ host_parse_opaque [] = Ok (HDomain []).
Proof.
  split; [exact hp_clause|]. split; [exact hpo_clause|]. split; [|split; [reflexivity | exact hpo_nil]].
  intros h Hh. split; [exact (proj1 (ip_text_ok h Hh))|]. destruct h as [d|a|ps]; cbn [op_args_ok] in Hh; [destruct Hh| |].
  - split; [|intros ps E; discriminate E]. apply x_ok_host_parse. exact (ipv4_display_rt idna OK a Hh).
  - destruct (ipv6_display_rt idna ps Hh) as [H1 H2]. split; [exact (x_ok_host_parse _ _ _ H1)|].
    intros ps' _. exact (x_ok_host_parse_opaque _ _ H2).
Qed.
End Records.

(* IpOK of C05 holds for the values Url::set_ip_host can be given (an Ipv4Addr is a u32, an Ipv6Addr eight u16) *)
Theorem model_IpOK_wf h : op_args_ok (OSetIpHost h) -> Forall ok_byte (host_display h).
Proof. intros H. exact (proj2 (proj2 (ip_text_ok h H))). Qed.

(* ================= F. the clauses that are FALSE of the host model ================= *)
(* (a) HostOK of C02_Reach.v demands hp [] = Ok (HDomain []).  Host::parse never returns an empty domain:
   on the empty text it fails whatever the IDNA function answers (the parser model never calls it with the
   empty text outside the file-host state, where the model of parser.rs short-cuts the empty host) *)
Theorem host_parse_nil_refuted idna : host_parse idna [] <> Ok (HDomain []).
Proof.
  unfold host_parse, host_parse_x. cbn [Host.starts_with utf8_encode flat_map]. rewrite decode_nil.
  destruct (idna []) as [[|c d]|]; cbn [xr_result]; try discriminate.
  destruct (Host.ends_in_a_number (c :: d)); [destruct (parse_ipv4addr (c :: d))|]; cbn [xr_map xr_result]; discriminate.
Qed.

(* (b) HostOK of C02_Reach.v demands hpo (hd h) = Ok h for every IP value h.  For an IPv4 value this is
   false: Host::parse_opaque reads dotted decimal text as an opaque host (a Domain).  In the crate:
   Url::parse("a://x/") then set_ip_host(127.0.0.1) gives a://127.0.0.1/ with host() = Host::Ipv4, while
   Url::parse("a://127.0.0.1/").host() = Host::Domain("127.0.0.1"): the serialization re-parses to itself
   but not to the same HostInternal *)
Theorem opaque_ipv4_refuted : forall a, a < 4294967296 ->
  host_parse_opaque (host_display (HIpv4 a)) = Ok (HDomain (ipv4_display a))
  /\ host_parse_opaque (host_display (HIpv4 a)) <> Ok (HIpv4 a).
Proof.
  intros a Ha. destruct (ipv4_display_hostc a Ha) as [Hn Hc].
  assert (E : host_parse_opaque (host_display (HIpv4 a)) = Ok (HDomain (ipv4_display a))).
  { cbn [host_display]. apply x_ok_host_parse_opaque, good_opaque_fixed.
    destruct (ipv4_display_digits a Ha) as (Hd & _). apply forallb_forall. intros c Hin.
    rewrite Forall_forall in Hd. specialize (Hd c Hin).
    assert (c < 128) as L by (destruct Hd as [Hd| ->]; [unfold is_digit in Hd|]; lia).
    assert (all_below 128 (fun c => negb (is_digit c || (c =? 46)) || good_opaque_char c) = true) as S by (vm_compute; reflexivity).
    pose proof (all_below_spec 128 _ S c L) as S1. cbv beta in S1.
    destruct Hd as [Hd| ->]; [rewrite Hd in S1; exact S1 | exact S1]. }
  split; [exact E|]. rewrite E. discriminate.
Qed.

Theorem model_HostOK_C02_refuted idna :
  ~ C02_Reach.HostOK (host_parse idna) host_parse_opaque host_display.
Proof. intros (_ & _ & _ & _ & H & _). exact (host_parse_nil_refuted idna H). Qed.

(* (c) IpOK of C05 quantifies over every value of the model type `host`, also those that are no Rust values
   (an "IPv4 address" above 2^32): Display for such a value leaves 0x21..0x7E.  A gap of the hypothesis (the
   model type is wider than Ipv4Addr), not of the code; model_IpOK_wf is the clause for Rust values. *)
Theorem model_IpOK_refuted : ~ IpOK host_display.
Proof.
  intros H. specialize (H (HIpv4 4294967296000) I). cbn [host_display] in H.
  inversion H as [|x l Hx _]; subst. unfold ok_byte in Hx. vm_compute in Hx. destruct Hx as [_ Hx]. apply Hx. reflexivity.
Qed.

(* (d) the gate of C05_components_step for Url::set_host(Some _) asks host_disp_ok hd h for EVERY value h of the
   model type.  Display is the identity on domains, so a "domain" that no parser returns (":") fails it;
   model_host_disp_ok is the clause for the hosts the parsers return and for address values. *)
Theorem host_disp_ok_all_refuted : ~ (forall h, host_disp_ok host_display h).
Proof.
  intros H. specialize (H (HDomain [58])). unfold host_disp_ok in H. cbn in H.
  destruct H as (c & r & E & Hc & _). inversion E; subst. apply Hc. reflexivity.
Qed.
