(* Proofs/Idna_C10b_AsciiInner.v - the adapter-free class of C10: all-ASCII names with no xn-- label.
   Closed form of the fail-fast process_inner on the class: no adapter function is consulted; every label outside
   the pass-through prefix is accepted iff its deny-list mapping has no U+FFFD and passes the hyphen checks, the
   domain buffer is the dot-joined mapping, every already_punycode entry is MixedCaseAscii. *)
From RU Require Import Base.Prelude Base.Utf8 Base.U32_c13 Gen.Tables Model.Punycode Model.Uts46
  Proofs.Idna_Sim Proofs.Idna_Api Proofs.Idna_Known Proofs.Idna_Hyp Proofs.Idna_Redisc
  Proofs.Idna_C10_Deny Proofs.Idna_C10_Prefix Proofs.Idna_C10_Inner Proofs.Idna_C10_Walk Proofs.Idna_Tables.

(* ---- the fail-fast marking loop and hyphen check, as functions ---- *)
Lemma scan_mark_ff bad l : forall he, scan_mark true bad l he = if existsb bad l then SExit else SOk (l, he).
Proof.
  induction l as [|c r IH]; intros he; cbn [scan_mark existsb]; [reflexivity|].
  destruct (bad c); cbn [orb]; [reflexivity|]. rewrite IH. destruct (existsb bad r); reflexivity.
Qed.

Definition hyphen_free (allow34 : bool) (c : list N) : bool :=
  negb (match c with f :: _ => f =? HYPHEN | [] => false end) &&
  negb (match last_opt c with Some l => l =? HYPHEN | None => false end) &&
  (allow34 || negb ((4 <=? len c) && (nth 2 c 0 =? HYPHEN) && (nth 3 c 0 =? HYPHEN))).

Lemma check_hyphens_ff a c he : check_hyphens true a c he = if hyphen_free a c then SOk (c, he) else SExit.
Proof.
  unfold check_hyphens, hyphen_free.
  destruct c as [|f r].
  - destruct a; reflexivity.
  - cbn [sbind]. destruct (f =? HYPHEN); cbn [sbind negb andb]; [reflexivity|].
    destruct (last_opt (f :: r)) as [x|].
    + destruct (x =? HYPHEN); cbn [sbind negb andb]; [reflexivity|].
      destruct a; cbn [orb]; [reflexivity|].
      destruct ((4 <=? len (f :: r)) && (nth 2 (f :: r) 0 =? HYPHEN) && (nth 3 (f :: r) 0 =? HYPHEN)); reflexivity.
    + cbn [sbind negb andb].
      destruct a; cbn [orb]; [reflexivity|].
      destruct ((4 <=? len (f :: r)) && (nth 2 (f :: r) 0 =? HYPHEN) && (nth 3 (f :: r) 0 =? HYPHEN)); reflexivity.
Qed.

(* ---- the class and the acceptance predicate ---- *)
Definition cmap (deny : N) (l : list N) : list N := map (apply_upper deny) l.

(* one label is accepted: no character is denied (upper-case letters are folded), and the hyphen checks pass *)
Definition lab_acc (deny : N) (hy : hyphens) (l : list N) : bool :=
  negb (existsb is_fffd (cmap deny l)) && (hy_is_allow hy || hyphen_free (hy_is_cfl hy) (cmap deny l)).

Definition an_label (l : list N) : Prop := Forall (fun b => b < 128) l /\ has_punycode_prefix l = false.
(* all-ASCII, no label starts with xn-- (in any case) *)
Definition AN (d : list N) : Prop := Forall an_label (split_on DOT d).

Lemma ascii_position l : Forall (fun b => b < 128) l -> position (fun b => negb (is_ascii_cp b)) l = None.
Proof.
  induction 1 as [|x r Hx _ IH]; cbn [position]; [reflexivity|].
  unfold is_ascii_cp at 1. replace (x <? 128) with true by lia. cbn [negb]. rewrite IH. reflexivity.
Qed.

Lemma label_nonempty_an A cfg hy deny label db ap : an_label label ->
  label_nonempty A cfg true hy deny label db false ap =
  if lab_acc deny hy label then SOk (db ++ cmap deny label, false, ap ++ [MixedCaseAscii label]) else SExit.
Proof.
  intros [Ha Hp]. rewrite label_nonempty_eq. unfold split_ascii_fast_path_prefix. rewrite (ascii_position label Ha).
  rewrite Hp. unfold complexT, lab_acc, cmap. rewrite scan_mark_ff.
  destruct (existsb is_fffd (map (apply_upper deny) label)); cbn [sbind negb andb]; [reflexivity|].
  destruct (hy_is_allow hy); cbn [negb orb sbind]; [reflexivity|].
  rewrite check_hyphens_ff. destruct (hyphen_free (hy_is_cfl hy) (map (apply_upper deny) label)); reflexivity.
Qed.

(* ---- a pass-through label is an accepted label ---- *)
Section Acc.
Variable deny : N.
Hypothesis HU : DenyUpper deny.
Hypothesis HL : LdhFree deny.

Lemma apply_upper_clean b : clean deny b -> apply_upper deny b = b.
Proof. intros [_ Hm]. unfold apply_upper. unfold deny_member in Hm. destruct (N.land deny (N.shiftl 1 b) =? 0); [reflexivity|discriminate]. Qed.

Lemma cmap_clean l : Forall (clean deny) l -> cmap deny l = l.
Proof.
  induction 1 as [|x r Hx _ IH]; cbn [cmap map]; [reflexivity|]. rewrite (apply_upper_clean x Hx). f_equal. exact IH.
Qed.

Lemma clean_nofffd l : Forall (clean deny) l -> existsb is_fffd l = false.
Proof.
  induction 1 as [|x r [Hx _] _ IH]; cbn [existsb]; [reflexivity|]. rewrite IH.
  unfold is_fffd, FFFD, REPLACEMENT. replace (x =? 65533) with false by lia. reflexivity.
Qed.

Lemma passthrough_hyphen_free a label : is_passthrough_ascii_label label = true -> hyphen_free a label = true.
Proof.
  unfold is_passthrough_ascii_label, hyphen_free.
  destruct ((4 <=? len label) && (nth 2 label 0 =? HYPHEN) && (nth 3 label 0 =? HYPHEN)); [discriminate|].
  destruct label as [|f t]; [intros _; destruct a; reflexivity|].
  destruct (in_inclusive_range8 f 97 122) eqn:E1; cbn [negb]; [|discriminate].
  destruct (forallb (fun b => in_inclusive_range8 b 97 122 || in_inclusive_range8 b 48 57 || (b =? HYPHEN)) t); cbn [negb]; [|discriminate].
  intros H. rewrite H. rewrite orb_true_r, !andb_true_r.
  destruct (f =? HYPHEN) eqn:E; [|reflexivity]. apply N.eqb_eq in E. subst f. discriminate E1.
Qed.

Lemma passthrough_acc hy label : bytes label -> is_passthrough_ascii_label label = true -> lab_acc deny hy label = true.
Proof.
  intros Hb Hp. pose proof (passthrough_clean deny label HL Hb Hp) as Hc. unfold lab_acc.
  rewrite (cmap_clean label Hc), (clean_nofffd label Hc), (passthrough_hyphen_free _ label Hp).
  rewrite orb_true_r. reflexivity.
Qed.

(* the mapping of an accepted ASCII label: ASCII lower-casing *)
Lemma apply_upper_lower b : b < 128 -> apply_upper deny b <> FFFD -> apply_upper deny b = to_lower b.
Proof.
  intros Hb. unfold apply_upper, to_lower.
  destruct (N.land deny (N.shiftl 1 b) =? 0) eqn:E.
  - intros _. destruct (is_upper b) eqn:Eu; [|reflexivity].
    pose proof (HU b Eu) as Hm. unfold deny_member in Hm. rewrite E in Hm. discriminate.
  - destruct (in_inclusive_range8 b 65 90) eqn:E2; [|intros H; contradiction H; reflexivity].
    intros _. apply range8_spec in E2; [|lia|lia|lia]. unfold is_upper. replace ((65 <=? b) && (b <=? 90)) with true by lia. reflexivity.
Qed.

Lemma cmap_lower l : Forall (fun b => b < 128) l -> existsb is_fffd (cmap deny l) = false -> cmap deny l = map to_lower l.
Proof.
  induction 1 as [|x r Hx _ IH]; cbn [cmap map existsb]; [reflexivity|].
  intros H. apply orb_false_iff in H. destruct H as [H1 H2]. rewrite (apply_upper_lower x Hx).
  - f_equal. exact (IH H2).
  - intros Hq. unfold is_fffd in H1. rewrite Hq, N.eqb_refl in H1. discriminate.
Qed.

(* the mapping does not depend on the case of the label *)
Lemma apply_upper_of_lower b : b < 128 -> apply_upper deny (to_lower b) = apply_upper deny b.
Proof.
  intros Hb. unfold to_lower. destruct (is_upper b) eqn:Eu; [|reflexivity].
  assert (Hr : 65 <= b /\ b <= 90) by (unfold is_upper in Eu; lia).
  assert (Hc : clean deny (b + 32)) by (apply ldh_clean; [exact HL|unfold ldh, is_lower; lia]).
  rewrite (apply_upper_clean _ Hc).
  unfold apply_upper. pose proof (HU b Eu) as Hm. unfold deny_member in Hm.
  destruct (N.land deny (N.shiftl 1 b) =? 0); [discriminate|].
  unfold in_inclusive_range8. replace ((b + 256 - 65) mod 256 <=? 90 - 65) with true; [reflexivity|].
  symmetry. apply N.leb_le. replace (b + 256 - 65) with (b - 65 + 1 * 256) by lia.
  rewrite N.mod_add by lia. rewrite N.mod_small by lia. lia.
Qed.

Lemma cmap_of_lower l : Forall (fun b => b < 128) l -> cmap deny (map to_lower l) = cmap deny l.
Proof.
  induction 1 as [|x r Hx _ IH]; cbn [cmap map]; [reflexivity|]. rewrite (apply_upper_of_lower x Hx). f_equal. exact IH.
Qed.

Lemma lab_acc_lower hy l : Forall (fun b => b < 128) l -> lab_acc deny hy (map to_lower l) = lab_acc deny hy l.
Proof. intros H. unfold lab_acc. rewrite (cmap_of_lower l H). reflexivity. Qed.
End Acc.

(* ---- the label loop on the class: an adapter-free closed form ---- *)
Definition an_next (deny : N) (label : list N) (s : ist) : ist :=
  if i_inpre s && is_passthrough_ascii_label label then
    {| i_ptu := i_ptu s + (if i_seen s then 1 else 0) + len label; i_seen := true; i_inpre := true;
       i_db := i_db s; i_he := i_he s; i_ap := i_ap s |}
  else
    {| i_ptu := if i_seen s && i_inpre s then i_ptu s + 1 else i_ptu s; i_seen := true; i_inpre := false;
       i_db := (if i_seen s && negb (i_inpre s) then i_db s ++ [DOT] else i_db s) ++ cmap deny label;
       i_he := false; i_ap := i_ap s ++ [MixedCaseAscii label] |}.
Fixpoint an_end (deny : N) (labels : list (list N)) (s : ist) : ist :=
  match labels with [] => s | l :: r => an_end deny r (an_next deny l s) end.

Section Loop.
Variable A : adapter.
Variable cfg : bool.
Variable deny : N.
Hypothesis HU : DenyUpper deny.
Hypothesis HL : LdhFree deny.

Lemma label_step_an hy label s : an_label label -> i_he s = false ->
  label_step A cfg true hy deny label s = if lab_acc deny hy label then SOk (an_next deny label s) else SExit.
Proof.
  intros Hl Hs. unfold label_step, an_next.
  destruct (i_inpre s && is_passthrough_ascii_label label) eqn:Ec.
  - apply andb_true_iff in Ec. destruct Ec as [_ Ep].
    assert (Hb : bytes label).
    { unfold bytes. eapply Forall_impl; [|exact (proj1 Hl)]. unfold is_byte. cbv beta. intros; lia. }
    rewrite (passthrough_acc deny HL hy label Hb Ep). reflexivity.
  - destruct label as [|b r].
    + unfold lab_acc, cmap. cbn [map existsb negb andb]. unfold hyphen_free. cbn [last_opt negb andb].
      replace (4 <=? len []) with false by reflexivity. cbn [andb negb]. rewrite !orb_true_r.
      rewrite Hs. cbn [app]. rewrite app_nil_r. reflexivity.
    + rewrite Hs. rewrite (label_nonempty_an A cfg hy deny (b :: r) _ _ Hl).
      destruct (lab_acc deny hy (b :: r)); reflexivity.
Qed.

Lemma an_next_he label s : i_he s = false -> i_he (an_next deny label s) = false.
Proof. intros H. unfold an_next. destruct (i_inpre s && is_passthrough_ascii_label label); cbn [i_he]; [exact H|reflexivity]. Qed.

Lemma labels_loop_an hy labels : forall s, Forall an_label labels -> i_he s = false ->
  labels_loop A cfg true hy deny labels s =
  if forallb (lab_acc deny hy) labels then SOk (an_end deny labels s) else SExit.
Proof.
  induction labels as [|l r IH]; intros s Hls Hs; cbn [labels_loop forallb an_end]; [reflexivity|].
  inversion Hls as [|? ? Hl Hr]; subst.
  rewrite (label_step_an hy l s Hl Hs). destruct (lab_acc deny hy l); cbn [sbind andb]; [|reflexivity].
  apply IH; [exact Hr|apply an_next_he; exact Hs].
Qed.
End Loop.

(* ---- the final state: buffer and entries ---- *)
Lemma nodot_cmap deny l : Forall (fun b => b < 128) l -> ~ In DOT l -> existsb is_fffd (cmap deny l) = false -> ~ In DOT (cmap deny l).
Proof.
  intros Ha Hn Hf Hin. unfold cmap in Hin. apply in_map_iff in Hin. destruct Hin as (b & Hb & Hi).
  assert (b <> DOT) by (intros ->; exact (Hn Hi)).
  rewrite Forall_forall in Ha. specialize (Ha b Hi).
  unfold apply_upper in Hb. destruct (N.land deny (N.shiftl 1 b) =? 0); [contradiction|].
  destruct (in_inclusive_range8 b 65 90) eqn:E2.
  - apply range8_spec in E2; [|lia|lia|lia]. unfold DOT in *. lia.
  - unfold DOT, FFFD, REPLACEMENT in *. lia.
Qed.

(* ---- split / join ---- *)
Lemma split1_app_dot pre t :
  split1 DOT (pre ++ DOT :: t) = (fst (split1 DOT pre), snd (split1 DOT pre) ++ fst (split1 DOT t) :: snd (split1 DOT t)).
Proof.
  induction pre as [|x r IH]; cbn [app split1].
  - destruct (split1 DOT t) as [h2 r2]. rewrite N.eqb_refl. reflexivity.
  - rewrite IH. destruct (split1 DOT r) as [h r1]. destruct (split1 DOT t) as [h2 r2]. cbn [fst snd].
    destruct (x =? DOT); reflexivity.
Qed.
Lemma split_on_app_dot pre t : split_on DOT (pre ++ DOT :: t) = split_on DOT pre ++ split_on DOT t.
Proof.
  unfold split_on. rewrite split1_app_dot. destruct (split1 DOT pre) as [h r]. destruct (split1 DOT t) as [h2 r2]. reflexivity.
Qed.

Lemma split1_nodot l : forall h t, split1 DOT l = (h, t) -> ~ In DOT h /\ Forall (fun x => ~ In DOT x) t.
Proof.
  induction l as [|x r IH]; intros h t H; cbn [split1] in H.
  - inversion H. split; [intros []|constructor].
  - destruct (split1 DOT r) as [h0 t0]. destruct (IH h0 t0 eq_refl) as [I1 I2].
    destruct (x =? DOT) eqn:E; inversion H; subst.
    + split; [intros []|constructor; assumption].
    + split; [|exact I2]. intros [Hx|Hx]; [subst x; rewrite N.eqb_refl in E; discriminate|exact (I1 Hx)].
Qed.
Lemma split_on_nodot l : Forall (fun x => ~ In DOT x) (split_on DOT l).
Proof. unfold split_on. destruct (split1 DOT l) as [h t] eqn:E. destruct (split1_nodot l h t E). constructor; assumption. Qed.

Lemma split1_nodot_app x r : ~ In DOT x -> split1 DOT (x ++ DOT :: r) = (x, fst (split1 DOT r) :: snd (split1 DOT r)).
Proof.
  induction x as [|c x IH]; intros Hn; cbn [app split1].
  - destruct (split1 DOT r) as [h t]. rewrite N.eqb_refl. reflexivity.
  - rewrite IH by (intros Hi; apply Hn; right; exact Hi). destruct (split1 DOT r) as [h t]. cbn [fst snd].
    destruct (c =? DOT) eqn:E; [|reflexivity]. apply N.eqb_eq in E. contradiction Hn. left. exact E.
Qed.
Lemma split1_nodot_all x : ~ In DOT x -> split1 DOT x = (x, []).
Proof.
  induction x as [|c x IH]; intros Hn; cbn [split1]; [reflexivity|].
  rewrite IH by (intros Hi; apply Hn; right; exact Hi).
  destruct (c =? DOT) eqn:E; [|reflexivity]. apply N.eqb_eq in E. contradiction Hn. left. exact E.
Qed.
Lemma split_join ls : ls <> [] -> Forall (fun x => ~ In DOT x) ls -> split_on DOT (join_dots ls) = ls.
Proof.
  induction ls as [|x r IH]; intros Hne H; [contradiction Hne; reflexivity|].
  inversion H as [|? ? Hx Hr]; subst. destruct r as [|y r'].
  - cbn [join_dots]. unfold split_on. rewrite (split1_nodot_all x Hx). reflexivity.
  - change (join_dots (x :: y :: r')) with (x ++ DOT :: join_dots (y :: r')).
    unfold split_on. rewrite (split1_nodot_app x _ Hx).
    assert (IH' : split_on DOT (join_dots (y :: r')) = y :: r') by (apply IH; [discriminate|exact Hr]).
    unfold split_on in IH'. destruct (split1 DOT (join_dots (y :: r'))) as [h t]. cbn [fst snd]. rewrite IH'. reflexivity.
Qed.

Lemma join_dots_snoc ls x : ls <> [] -> join_dots (ls ++ [x]) = join_dots ls ++ DOT :: x.
Proof.
  induction ls as [|y r IH]; intros Hne; [contradiction Hne; reflexivity|].
  destruct r as [|z r'].
  - reflexivity.
  - change (join_dots ((y :: z :: r') ++ [x])) with (y ++ DOT :: join_dots ((z :: r') ++ [x])).
    rewrite IH by discriminate. change (join_dots (y :: z :: r')) with (y ++ DOT :: join_dots (z :: r')).
    rewrite <- app_assoc. reflexivity.
Qed.

(* ---- the fastest tier: where the tail starts ---- *)
Lemma fast_tier_tail iter : bytes iter -> forall mrls t, fast_tier iter mrls = Some t ->
  t = mrls \/ exists pre, iter = pre ++ DOT :: t /\ Forall lower_or_dot pre.
Proof.
  induction iter as [|b r IH]; intros Hby mrls t H; [discriminate|].
  inversion Hby as [|? ? Hb Hr]; subst. specialize (IH Hr).
  cbn [fast_tier] in H. destruct (in_inclusive_range8 b 97 122) eqn:E.
  - destruct (IH mrls t H) as [->|(pre & -> & Hp)]; [left; reflexivity|].
    right. exists (b :: pre). split; [reflexivity|]. constructor; [|exact Hp]. left. apply in_range8_lower; assumption.
  - destruct (b =? DOT) eqn:E2.
    + apply N.eqb_eq in E2. subst b. right. destruct (IH r t H) as [->|(pre & -> & Hp)].
      * exists []. split; [reflexivity|constructor].
      * exists (DOT :: pre). split; [reflexivity|]. constructor; [right; reflexivity|exact Hp].
    + inversion H. left; reflexivity.
Qed.

Lemma range8_intro b s e : s <= b -> b <= e -> e < 256 -> in_inclusive_range8 b s e = true.
Proof.
  intros H1 H2 H3. unfold in_inclusive_range8. apply N.leb_le.
  replace (b + 256 - s) with (b - s + 1 * 256) by lia. rewrite N.mod_add by lia. rewrite N.mod_small by lia. lia.
Qed.

Lemma lower_label_passthrough l : Forall (fun b => 97 <= b /\ b <= 122) l -> is_passthrough_ascii_label l = true.
Proof.
  intros H. unfold is_passthrough_ascii_label.
  assert (Hn : forall i, (i < List.length l)%nat -> (nth i l 0 =? HYPHEN) = false).
  { intros i Hi. rewrite Forall_forall in H. pose proof (H _ (nth_In l 0 Hi)) as Hx. unfold HYPHEN. lia. }
  destruct ((4 <=? len l) && (nth 2 l 0 =? HYPHEN) && (nth 3 l 0 =? HYPHEN)) eqn:E.
  { apply andb_true_iff in E. destruct E as [E E3]. apply andb_true_iff in E. destruct E as [E4 E2].
    unfold len in E4. rewrite Hn in E2 by lia. discriminate. }
  destruct l as [|f t]; [reflexivity|]. inversion H as [|? ? Hf Ht]; subst.
  rewrite (range8_intro f 97 122) by lia. cbn [negb].
  assert (Hfa : forallb (fun b => in_inclusive_range8 b 97 122 || in_inclusive_range8 b 48 57 || (b =? HYPHEN)) t = true).
  { apply forallb_forall. intros x Hx. rewrite Forall_forall in Ht. specialize (Ht x Hx).
    rewrite (range8_intro x 97 122) by lia. reflexivity. }
  rewrite Hfa. cbn [negb].
  destruct (last_opt (f :: t)) as [x|] eqn:El; [|reflexivity].
  apply last_opt_in in El. rewrite Forall_forall in H. specialize (H x El). unfold HYPHEN.
  replace (x =? 45) with false by lia. reflexivity.
Qed.

Lemma lower_or_dot_labels deny hy d : LdhFree deny -> Forall lower_or_dot d ->
  forallb (lab_acc deny hy) (split_on DOT d) = true.
Proof.
  intros HL H. apply forallb_forall. intros l Hl.
  assert (Hlow : Forall (fun b => 97 <= b /\ b <= 122) l).
  { pose proof (split_on_Forall lower_or_dot DOT d H) as H1. pose proof (split_on_nodot d) as H2.
    rewrite Forall_forall in H1, H2. specialize (H1 l Hl). specialize (H2 l Hl).
    apply Forall_forall. intros x Hx. rewrite Forall_forall in H1. destruct (H1 x Hx) as [Hr|Hr]; [exact Hr|].
    subst x. contradiction (H2 Hx). }
  apply passthrough_acc; [exact HL| |exact (lower_label_passthrough l Hlow)].
  unfold bytes. eapply Forall_impl; [|exact Hlow]. unfold is_byte. cbv beta. intros; lia.
Qed.

(* ---- is_bidi consults no bidi class on ASCII text ---- *)
Lemma is_bidi_ascii A cfg l : Forall (fun b => b < 128) l -> is_bidi A cfg l = Ok false.
Proof.
  induction 1 as [|x r Hx _ IH]; cbn [is_bidi]; [reflexivity|].
  replace (x <? T_IDNA_BIDI_BELOW) with true; [exact IH|]. symmetry. apply N.ltb_lt.
  rewrite (proj1 idna_ranges). lia.
Qed.

(* ---- the invariant of the closed form ---- *)
Section Final.
Variable deny : N.
Variable hy : hyphens.
Hypothesis HU : DenyUpper deny.
Hypothesis HL : LdhFree deny.

Definition good_label (l : list N) : Prop := an_label l /\ ~ In DOT l /\ lab_acc deny hy l = true.

Definition AnInv (s : ist) : Prop :=
  i_he s = false /\ exists rl, i_ap s = map MixedCaseAscii rl /\ Forall good_label rl /\
    if i_inpre s then rl = [] /\ i_db s = []
    else rl <> [] /\ i_seen s = true /\ i_db s = join_dots (map (cmap deny) rl).

Lemma an_next_inv label s : good_label label -> AnInv s -> AnInv (an_next deny label s).
Proof.
  intros Hg (Hhe & rl & Hap & Hrl & H). unfold an_next.
  destruct (i_inpre s && is_passthrough_ascii_label label) eqn:Ec.
  - apply andb_true_iff in Ec. destruct Ec as [Ei _]. rewrite Ei in H.
    split; [exact Hhe|]. exists rl. cbn [i_ap i_inpre i_db]. repeat split; try assumption; exact (proj1 H) || exact (proj2 H).
  - split; [reflexivity|]. exists (rl ++ [label]). cbn [i_ap i_inpre i_db i_seen].
    split; [rewrite map_app, Hap; reflexivity|].
    split; [apply Forall_app; split; [exact Hrl|constructor; [exact Hg|constructor]]|].
    split; [destruct rl; discriminate|]. split; [reflexivity|].
    destruct (i_inpre s).
    + destruct H as [-> ->]. rewrite andb_false_r. reflexivity.
    + destruct H as (Hne & Hseen & Hdb). rewrite Hseen. cbn [andb negb].
      rewrite map_app. cbn [map]. rewrite join_dots_snoc by (destruct rl; [contradiction Hne; reflexivity|discriminate]).
      rewrite Hdb, <- app_assoc. reflexivity.
Qed.

Lemma an_end_inv labels : forall s, Forall good_label labels -> AnInv s -> AnInv (an_end deny labels s).
Proof.
  induction labels as [|l r IH]; intros s Hl Hs; cbn [an_end]; [exact Hs|].
  inversion Hl as [|? ? H1 H2]; subst. apply IH; [exact H2|]. apply an_next_inv; assumption.
Qed.

(* what the buffer of a final state looks like *)
Lemma good_cmap l : good_label l ->
  cmap deny l = map to_lower l /\ Forall (fun b => b < 128) (cmap deny l) /\ ~ In DOT (cmap deny l) /\
  existsb is_fffd (cmap deny l) = false.
Proof.
  intros ((Ha & _) & Hn & Hacc). unfold lab_acc in Hacc. apply andb_true_iff in Hacc. destruct Hacc as [Hf _].
  apply negb_true_iff in Hf. pose proof (cmap_lower deny HU l Ha Hf) as Hc.
  split; [exact Hc|]. split; [|split; [exact (nodot_cmap deny l Ha Hn Hf)|exact Hf]].
  rewrite Hc. apply Forall_forall. intros x Hx. apply in_map_iff in Hx. destruct Hx as (b & <- & Hb).
  rewrite Forall_forall in Ha. specialize (Ha b Hb). unfold to_lower, is_upper.
  destruct ((65 <=? b) && (b <=? 90)) eqn:E; lia.
Qed.

Lemma AnInv_db s : AnInv s ->
  Forall (fun b => b < 128) (i_db s) /\ existsb is_fffd (i_db s) = false /\
  exists rl, i_ap s = map MixedCaseAscii rl /\ (rl <> [] -> split_on DOT (i_db s) = map (cmap deny) rl).
Proof.
  intros (_ & rl & Hap & Hrl & H).
  assert (HF : Forall (fun c => Forall (fun b => b < 128) c /\ ~ In DOT c /\ existsb is_fffd c = false) (map (cmap deny) rl)).
  { apply Forall_forall. intros c Hc. apply in_map_iff in Hc. destruct Hc as (l & <- & Hl).
    rewrite Forall_forall in Hrl. destruct (good_cmap l (Hrl l Hl)) as (_ & H1 & H2 & H3). repeat split; assumption. }
  destruct (i_inpre s).
  - destruct H as [-> Hdb]. rewrite Hdb. split; [constructor|]. split; [reflexivity|]. exists []. split; [exact Hap|].
    intros Hne. contradiction Hne. reflexivity.
  - destruct H as (Hne & _ & Hdb). rewrite Hdb. split; [|split].
    + apply join_dots_Forall; [unfold DOT; lia|]. eapply Forall_impl; [|exact HF]. cbv beta. intros a Ha. exact (proj1 Ha).
    + assert (G : forall ls, Forall (fun c => existsb is_fffd c = false) ls -> existsb is_fffd (join_dots ls) = false).
      { clear. induction ls as [|x r IH]; intros H; [reflexivity|]. inversion H as [|? ? Hx Hr]; subst.
        rewrite join_dots_cons, existsb_app, Hx. destruct r as [|y r']; [reflexivity|].
        cbn [tailtext existsb orb]. rewrite (IH Hr). reflexivity. }
      apply G. eapply Forall_impl; [|exact HF]. cbv beta. intros a Ha. exact (proj2 (proj2 Ha)).
    + exists rl. split; [exact Hap|]. intros _. apply split_join.
      * destruct rl; [contradiction Hne; reflexivity|discriminate].
      * eapply Forall_impl; [|exact HF]. cbv beta. intros a Ha. exact (proj1 (proj2 Ha)).
Qed.
End Final.

(* ---- process_inner on the class ---- *)
Definition s_init (d tail : list N) : ist :=
  {| i_ptu := len d - len tail; i_seen := false; i_inpre := true; i_db := []; i_he := false; i_ap := [] |}.

Definition an_inner (deny : N) (hy : hyphens) (d : list N) : inner_res :=
  match fast_tier d d with
  | None => IRes (len d) false false [] []
  | Some tail =>
      if forallb (lab_acc deny hy) (split_on DOT tail) then
        let s := an_end deny (split_on DOT tail) (s_init d tail) in IRes (i_ptu s) false false (i_db s) (i_ap s)
      else I_EXIT
  end.

Section InnerAN.
Variable deny : N.
Variable hy : hyphens.
Hypothesis HU : DenyUpper deny.
Hypothesis HL : LdhFree deny.

Lemma AnInv_init d tail : AnInv deny hy (s_init d tail).
Proof. split; [reflexivity|]. exists []. cbn [s_init i_ap i_inpre i_db map]. repeat split; constructor. Qed.

Lemma good_labels labels : Forall an_label labels -> Forall (fun x => ~ In DOT x) labels ->
  forallb (lab_acc deny hy) labels = true -> Forall (good_label deny hy) labels.
Proof.
  intros H1 H2 H3. rewrite forallb_forall in H3. apply Forall_forall. intros l Hl.
  rewrite Forall_forall in H1, H2. repeat split; [exact (proj1 (H1 l Hl))|exact (proj2 (H1 l Hl))|exact (H2 l Hl)|exact (H3 l Hl)].
Qed.

Lemma innermost_an A cfg d tail : Forall an_label (split_on DOT tail) ->
  process_innermost A cfg true hy deny d tail =
  if forallb (lab_acc deny hy) (split_on DOT tail) then
    let s := an_end deny (split_on DOT tail) (s_init d tail) in IRes (i_ptu s) false false (i_db s) (i_ap s)
  else I_EXIT.
Proof.
  intros Han. unfold process_innermost. fold (s_init d tail).
  rewrite (labels_loop_an A cfg deny HL hy (split_on DOT tail) (s_init d tail) Han eq_refl).
  destruct (forallb (lab_acc deny hy) (split_on DOT tail)) eqn:Ef; [|reflexivity].
  pose proof (an_end_inv deny hy (split_on DOT tail) (s_init d tail)
                (good_labels _ Han (split_on_nodot tail) Ef) (AnInv_init d tail)) as HI.
  destruct (AnInv_db deny hy HU (an_end deny (split_on DOT tail) (s_init d tail)) HI) as (Hasc & _ & _).
  rewrite (is_bidi_ascii A cfg _ Hasc). cbv zeta. rewrite (proj1 HI). reflexivity.
Qed.

(* the labels of the tail are labels of the name; the labels in front of it are accepted *)
Lemma tail_labels d tail : bytes d -> fast_tier d d = Some tail ->
  exists front, split_on DOT d = front ++ split_on DOT tail /\ forallb (lab_acc deny hy) front = true.
Proof.
  intros Hb Hf. destruct (fast_tier_tail d Hb d tail Hf) as [->|(pre & Hd & Hp)].
  - exists []. split; reflexivity.
  - exists (split_on DOT pre). split; [rewrite Hd at 1; apply split_on_app_dot|].
    exact (lower_or_dot_labels deny hy pre HL Hp).
Qed.

Theorem process_inner_an_eq A cfg d : bytes d -> AN d -> process_inner A cfg true hy deny d = an_inner deny hy d.
Proof.
  intros Hb Han. unfold process_inner, an_inner. destruct (fast_tier d d) as [tail|] eqn:Ef; [|reflexivity].
  destruct (tail_labels d tail Hb Ef) as (front & Hs & _). unfold AN in Han. rewrite Hs in Han.
  apply Forall_app in Han. exact (innermost_an A cfg d tail (proj2 Han)).
Qed.

(* the result, with the positional invariant of Proofs/Idna_C10_Inner.v (obtained through the identity adapter) *)
Theorem process_inner_an_facts A cfg d : bytes d -> AN d ->
  if forallb (lab_acc deny hy) (split_on DOT d) then
    exists ptu db P rl, process_inner A cfg true hy deny d = IRes ptu false false db (map MixedCaseAscii rl) /\
      d = P ++ join_dots rl /\ len P = ptu /\ Forall (clean deny) P /\
      existsb is_fffd db = false /\ (rl <> [] -> split_on DOT db = map (cmap deny) rl)
  else process_inner A cfg true hy deny d = I_EXIT /\ d <> [].
Proof.
  intros Hb Han.
  assert (Hacc : forall tail, fast_tier d d = Some tail ->
            forallb (lab_acc deny hy) (split_on DOT d) = forallb (lab_acc deny hy) (split_on DOT tail)).
  { intros tail Ef. destruct (tail_labels d tail Hb Ef) as (front & Hs & Hfr). rewrite Hs, forallb_app, Hfr. reflexivity. }
  pose proof (process_inner_an_eq A cfg d Hb Han) as EA.
  pose proof (process_inner_an_eq toy cfg d Hb Han) as ET.
  unfold an_inner in EA, ET. destruct (fast_tier d d) as [tail|] eqn:Ef.
  - rewrite (Hacc tail eq_refl). destruct (forallb (lab_acc deny hy) (split_on DOT tail)) eqn:Eacc.
    + cbv zeta in EA, ET. set (s := an_end deny (split_on DOT tail) (s_init d tail)) in *.
      assert (HI : AnInv deny hy s).
      { apply an_end_inv; [|apply AnInv_init]. apply good_labels; [|apply split_on_nodot|exact Eacc].
        destruct (tail_labels d tail Hb Ef) as (front & Hs & _). unfold AN in Han. rewrite Hs in Han.
        apply Forall_app in Han. exact (proj2 Han). }
      destruct (AnInv_db deny hy HU s HI) as (_ & Hnf & rl & Hap & Hsp).
      destruct (process_inner_ff toy cfg deny HU HL d Hb hy _ _ _ _ _ toy_notrunc ET) as [Hx|Hinv]; [inversion Hx|].
      destruct Hinv as (_ & _ & P & rl' & Hdd & HP & Hc & Hmp).
      assert (Hrl : rl' = rl).
      { rewrite Hap in Hmp. clear -Hmp. revert rl' Hmp. induction rl as [|x r IH]; intros rl' H; cbn [map mp_ok] in H; [exact H|].
        destruct rl' as [|y r']; [contradiction|]. destruct H as [-> H]. f_equal. exact (IH _ H). }
      subst rl'. exists (i_ptu s), (i_db s), P, rl. rewrite EA, Hap. repeat split; assumption.
    + split; [exact EA|]. intros ->. discriminate Ef.
  - replace (forallb (lab_acc deny hy) (split_on DOT d)) with true
      by (symmetry; exact (lower_or_dot_labels deny hy d HL (fast_tier_none d Hb d Ef))).
    exists (len d), [], d, []. rewrite EA. cbn [map join_dots]. rewrite app_nil_r. repeat split.
    + eapply Forall_impl; [|exact (fast_tier_none d Hb d Ef)]. intros x. apply lower_or_dot_clean. exact HL.
    + intros H. contradiction H. reflexivity.
Qed.
End InnerAN.

(* ---- the same run in either mode (fail-fast or marking) when every label is accepted: for ToUnicode / C12 ---- *)
Lemma check_hyphens_free ff a c he : hyphen_free a c = true -> check_hyphens ff a c he = SOk (c, he).
Proof.
  unfold check_hyphens, hyphen_free. intros H.
  apply andb_true_iff in H. destruct H as [H H3]. apply andb_true_iff in H. destruct H as [H1 H2].
  apply negb_true_iff in H1. apply negb_true_iff in H2.
  destruct c as [|f r].
  - cbn [sbind last_opt]. destruct a; [reflexivity|]. reflexivity.
  - rewrite H1. cbn [sbind]. destruct (last_opt (f :: r)) as [x|]; [rewrite H2|]; cbn [sbind];
      (destruct a; [reflexivity|]); cbn [orb] in H3; apply negb_true_iff in H3; rewrite H3; reflexivity.
Qed.

Section AnyMode.
Variable A : adapter.
Variable cfg : bool.
Variable ff : bool.
Variable deny : N.
Variable hy : hyphens.
Hypothesis HU : DenyUpper deny.
Hypothesis HL : LdhFree deny.

Lemma label_nonempty_good label db ap : an_label label -> lab_acc deny hy label = true ->
  label_nonempty A cfg ff hy deny label db false ap = SOk (db ++ cmap deny label, false, ap ++ [MixedCaseAscii label]).
Proof.
  intros [Ha Hp] Hacc. rewrite label_nonempty_eq. unfold split_ascii_fast_path_prefix. rewrite (ascii_position label Ha).
  rewrite Hp. unfold complexT. unfold lab_acc, cmap in Hacc. apply andb_true_iff in Hacc. destruct Hacc as [Hf Hh].
  apply negb_true_iff in Hf.
  rewrite (scan_mark_none ff is_fffd _ false Hf). cbn [sbind].
  destruct (hy_is_allow hy); cbn [negb orb] in *; [reflexivity|].
  rewrite (check_hyphens_free ff _ _ false Hh). reflexivity.
Qed.

Lemma label_step_good label s : good_label deny hy label -> i_he s = false ->
  label_step A cfg ff hy deny label s = SOk (an_next deny label s).
Proof.
  intros (Hl & _ & Hacc) Hs. unfold label_step, an_next.
  destruct (i_inpre s && is_passthrough_ascii_label label); [reflexivity|].
  destruct label as [|b r].
  - rewrite Hs. cbn [cmap map]. rewrite app_nil_r. reflexivity.
  - rewrite Hs. rewrite (label_nonempty_good (b :: r) _ _ Hl Hacc). reflexivity.
Qed.

Lemma labels_loop_good labels : forall s, Forall (good_label deny hy) labels -> i_he s = false ->
  labels_loop A cfg ff hy deny labels s = SOk (an_end deny labels s).
Proof.
  induction labels as [|l r IH]; intros s Hls Hs; cbn [labels_loop an_end]; [reflexivity|].
  inversion Hls as [|? ? Hl Hr]; subst. rewrite (label_step_good l s Hl Hs). cbn [sbind].
  apply IH; [exact Hr|apply an_next_he; exact Hs].
Qed.

(* on an accepted name of the class the marking run and the fail-fast run of process_inner return the same *)
Theorem process_inner_an_acc d : bytes d -> AN d -> forallb (lab_acc deny hy) (split_on DOT d) = true ->
  process_inner A cfg ff hy deny d = an_inner deny hy d.
Proof.
  intros Hb Han Hacc. unfold process_inner, an_inner. destruct (fast_tier d d) as [tail|] eqn:Ef; [|reflexivity].
  destruct (tail_labels deny hy HL d tail Hb Ef) as (front & Hs & _).
  unfold AN in Han. rewrite Hs in Han, Hacc. apply Forall_app in Han. destruct Han as [_ Han].
  rewrite forallb_app in Hacc. apply andb_true_iff in Hacc. destruct Hacc as [_ Hacc]. rewrite Hacc.
  pose proof (good_labels deny hy _ Han (split_on_nodot tail) Hacc) as Hg.
  unfold process_innermost. fold (s_init d tail).
  rewrite (labels_loop_good (split_on DOT tail) (s_init d tail) Hg eq_refl).
  pose proof (an_end_inv deny hy (split_on DOT tail) (s_init d tail) Hg (AnInv_init deny hy d tail)) as HI.
  destruct (AnInv_db deny hy HU (an_end deny (split_on DOT tail) (s_init d tail)) HI) as (Hasc & _ & _).
  rewrite (is_bidi_ascii A cfg _ Hasc). cbv zeta. rewrite (proj1 HI). reflexivity.
Qed.
End AnyMode.
