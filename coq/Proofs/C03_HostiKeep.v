(* Proofs/C03_HostiKeep.v - the mutators that do not set a host never touch the stored host kind:
   hosti u' = hosti u for set_fragment, set_query, set_path, set_port, set_password, set_username, set_scheme,
   path_segments_mut sessions and the quirks setters built on them.  Purely syntactic: every result record is built
   from the receiver with set_ser / set_query_start / set_fragment_start or mkUrl ... (hosti u) ... . *)
From RU Require Import Base.Prelude Base.Utf8 Model.AsciiSet Gen.Tables Model.PercentEncoding
  Model.HostT Model.UrlRecord Model.Parser Model.Setters.
Open Scope N_scope.
Open Scope list_scope.

(* one layer of an option computation: a bind, an if, a match *)
Ltac ob H :=
  first
  [ match type of H with bindo ?e _ = Some _ =>
      let E := fresh "E" in destruct e eqn:E; cbn [bindo] in H; [|discriminate H] end
  | match type of H with (if ?c then _ else _) = Some _ => destruct c end
  | match type of H with (match ?e with _ => _ end) = Some _ => destruct e end ].
Ltac obs H := repeat (ob H); try discriminate H.
Ltac fin H := inversion H; subst; reflexivity.

Section Keep.
Variable dbg : bool.

Lemma strip_hosti u u' : strip_trailing_spaces_from_opaque_path u = Some u' -> hosti u' = hosti u.
Proof. unfold strip_trailing_spaces_from_opaque_path. intros H. obs H; fin H. Qed.

Lemma set_fragment_hosti u f u' : set_fragment dbg u f = Some u' -> hosti u' = hosti u.
Proof.
  unfold set_fragment. intros H. ob H. destruct f as [input|].
  - fin H.
  - apply strip_hosti in H. exact H.
Qed.

Lemma take_fragment_hosti u u1 f : take_fragment dbg u = Some (u1, f) -> hosti u1 = hosti u.
Proof. unfold take_fragment. intros H. obs H; fin H. Qed.

Lemma restore_fragment_hosti u f u' : restore_already_parsed_fragment u f = Some u' -> hosti u' = hosti u.
Proof. unfold restore_already_parsed_fragment. intros H. obs H; fin H. Qed.

Lemma set_query_hosti u q u' : set_query dbg u q = Some u' -> hosti u' = hosti u.
Proof.
  unfold set_query. intros H.
  destruct (take_fragment dbg u) as [[u1 frag]|] eqn:E1; cbn [bindo] in H; [|discriminate H].
  match type of H with bindo ?e _ = _ => destruct e as [u2|] eqn:E2 end; cbn [bindo] in H; [|discriminate H].
  match type of H with bindo ?e _ = _ => destruct e as [u3|] eqn:E3 end; cbn [bindo] in H; [|discriminate H].
  rewrite (restore_fragment_hosti _ _ _ H). rewrite <- (take_fragment_hosti _ _ _ E1).
  assert (hosti u2 = hosti u1) as A2 by (obs E2; fin E2).
  rewrite <- A2. clear H E1 E2 A2.
  destruct q as [input|].
  - ob E3. destruct (parse_query None CSetter s (scheme_end u2) (ser u2 ++ [63]) (input_new_trim_tnl input)) as [s1 x]. fin E3.
  - destruct frag; [fin E3 | exact (strip_hosti _ _ E3)].
Qed.

Lemma take_after_path_hosti u u1 a : take_after_path u = Some (u1, a) -> hosti u1 = hosti u.
Proof. unfold take_after_path. intros H. obs H; fin H. Qed.

Lemma restore_after_path_hosti u o a u' : restore_after_path dbg u o a = Some u' -> hosti u' = hosti u.
Proof. unfold restore_after_path. cbv zeta. intros H. obs H; fin H. Qed.

Lemma set_path_hosti u p u' : set_path dbg u p = Some u' -> hosti u' = hosti u.
Proof.
  unfold set_path. intros H.
  destruct (take_after_path u) as [[u1 after_path]|] eqn:E1; cbn [bindo] in H; [|discriminate H]. cbv zeta in H.
  ob H. ob H. ob H. rewrite (restore_after_path_hosti _ _ _ _ H). exact (take_after_path_hosti _ _ _ E1).
Qed.

Lemma set_port_internal_hosti u p u' : set_port_internal dbg u p = Some u' -> hosti u' = hosti u.
Proof. unfold set_port_internal. cbv zeta. intros H. obs H; fin H. Qed.

Lemma set_port_hosti u p u' st : set_port dbg u p = Some (u', st) -> hosti u' = hosti u.
Proof.
  unfold set_port. intros H. ob H. ob H; [fin H|]. ob H. cbv zeta in H.
  match type of H with bindo ?e _ = _ => destruct e as [u1|] eqn:Ex end; cbn [bindo] in H; [|discriminate H].
  inversion H; subst. exact (set_port_internal_hosti _ _ _ Ex).
Qed.

Lemma q_set_port_hosti u v u' st : q_set_port dbg u v = Some (u', st) -> hosti u' = hosti u.
Proof.
  unfold q_set_port. intros H. ob H. ob H; [fin H|]. ob H.
  destruct (parse_port CSetter (default_port l) (input_new_no_trim v)) as [[p r]|e|]; [|fin H|discriminate H].
  match type of H with bindo ?e _ = _ => destruct e as [u1|] eqn:Ex end; cbn [bindo] in H; [|discriminate H].
  inversion H; subst. exact (set_port_internal_hosti _ _ _ Ex).
Qed.

Lemma set_password_hosti u pw u' st : set_password dbg u pw = Some (u', st) -> hosti u' = hosti u.
Proof. unfold set_password. cbv zeta. intros H. obs H; fin H. Qed.

Lemma set_username_hosti u un u' st : set_username dbg u un = Some (u', st) -> hosti u' = hosti u.
Proof.
  unfold set_username. cbv zeta. intros H. ob H. ob H; [fin H|]. ob H. ob H. ob H; [fin H|]. ob H.
  obs H; fin H.
Qed.

Lemma set_scheme_hosti u s u' st : set_scheme dbg u s = Some (u', st) -> hosti u' = hosti u.
Proof.
  unfold set_scheme. intros H.
  destruct (parse_scheme CSetter (input_new_no_trim s)) as [[new rem]|]; [|fin H]. cbv zeta in H.
  ob H. ob H. ob H; [fin H|]. ob H; [fin H|].
  do 7 (ob H).
  match type of H with bindo ?e _ = _ => destruct e as [[u1 st1]|] eqn:Ex end; cbn [bindo] in H; [|discriminate H].
  inversion H; subst. cbn [fst]. rewrite (set_port_hosti _ _ _ _ Ex). reflexivity.
Qed.

(* ---------- path_segments_mut ---------- *)
Lemma psm_new_hosti u p : psm_new dbg u = Some p -> hosti (psm_url p) = hosti u.
Proof.
  unfold psm_new. intros H.
  destruct (take_after_path u) as [[u1 after_path]|] eqn:E1; cbn [bindo] in H; [|discriminate H]. cbv zeta in H.
  ob H. ob H. inversion H; subst. cbn [psm_url]. exact (take_after_path_hosti _ _ _ E1).
Qed.

Lemma psm_with_hosti p s : hosti (psm_url (psm_with p s)) = hosti (psm_url p).
Proof. reflexivity. Qed.

Lemma psm_apply_hosti p o p' : psm_apply dbg p o = Some p' -> hosti (psm_url p') = hosti (psm_url p).
Proof.
  destruct o; cbn [psm_apply]; intros H.
  - fin H.
  - inversion H; subst. unfold psm_pop_if_empty. cbv zeta.
    destruct (nlen (ser (psm_url p)) <=? after_first_slash p); [reflexivity|].
    destruct (ends_with_byte 47 (nskipn (after_first_slash p) (ser (psm_url p)))); reflexivity.
  - inversion H; subst. unfold psm_pop. cbv zeta.
    destruct (nlen (ser (psm_url p)) <=? after_first_slash p); reflexivity.
  - unfold psm_push, psm_extend in H. ob H. ob H. fin H.
  - unfold psm_extend in H. ob H. ob H. fin H.
Qed.

Lemma psm_run_hosti ops : forall p p', psm_run dbg p ops = Some p' -> hosti (psm_url p') = hosti (psm_url p).
Proof.
  induction ops as [|o r IH]; intros p p' H; cbn [psm_run] in H.
  - fin H.
  - destruct (psm_apply dbg p o) as [p1|] eqn:E1; cbn [bindo] in H; [|discriminate H].
    rewrite (IH _ _ H). exact (psm_apply_hosti _ _ _ E1).
Qed.

Lemma path_segments_session_hosti u ops u' st : path_segments_session dbg u ops = Some (u', st) -> hosti u' = hosti u.
Proof.
  unfold path_segments_session, path_segments_mut. intros H.
  destruct (cannot_be_a_base u) as [[|]|]; cbn [bindo] in H; [fin H | | discriminate H].
  destruct (psm_new dbg u) as [p|] eqn:E0; cbn [bindo] in H; [|discriminate H].
  destruct (psm_run dbg p ops) as [p'|] eqn:E1; cbn [bindo] in H; [|discriminate H].
  destruct (psm_close dbg p') as [u1|] eqn:E2; cbn [bindo] in H; [|discriminate H].
  inversion H; subst. unfold psm_close in E2. rewrite (restore_after_path_hosti _ _ _ _ E2).
  rewrite (psm_run_hosti _ _ _ E1). exact (psm_new_hosti _ _ E0).
Qed.

Lemma q_set_pathname_hosti u v u' : q_set_pathname dbg u v = Some u' -> hosti u' = hosti u.
Proof.
  unfold q_set_pathname. intros H. ob H. ob H; [fin H|]. ob H.
  repeat match type of H with (if ?c then _ else _) = _ => destruct c end; exact (set_path_hosti _ _ _ H).
Qed.

End Keep.
